// gencheck — cross-check of the go2v translation (T): the generated Gallina definitions (extracted, oracle/gen) are run
// against the real Go functions they were translated from, on boundary-biased and random arguments.
// usage: gencheck -oracle <oracle/gen/oracle.exe> -seed N -names GasLimit,Sequence,Epoch,PoolSync,StakerTime
// prints "GENCHECK-MISMATCH <name> <input> impl=<..> gen=<..>" lines and exits 1 on any disagreement.
package main

import (
	"flag"
	"fmt"
	"os"
	"sort"
	"strings"

	"github.com/vechain/thor/v2/bft"
	"github.com/vechain/thor/v2/block"
	"github.com/vechain/thor/v2/builtin/staker/delegation"
	"github.com/vechain/thor/v2/builtin/staker/validation"
	"github.com/vechain/thor/v2/logdb"
	"github.com/vechain/thor/v2/thor"
	"github.com/vechain/thor/v2/txpool"

	"verif/harness/internal/hx"
)

func b2s(b bool) string {
	if b {
		return "1"
	}
	return "0"
}

func zhex(x int64) string {
	if x < 0 {
		return fmt.Sprintf("-%x", uint64(-x))
	}
	return fmt.Sprintf("%x", x)
}

// ---- StakerTime: boundary-biased field tuples for validation.Validation / delegation.Delegation

type stakerCase struct {
	cd  uint32 // thor.CooldownPeriod()
	v   validation.Validation
	d   delegation.Delegation
	cur uint32
}

func p32(x uint32) *uint32 { return &x }

func optHex(p *uint32) string {
	if p == nil {
		return "nil"
	}
	return fmt.Sprintf("%x", *p)
}

func resU32(x uint32, err error) string {
	if err != nil {
		return "none"
	}
	return fmt.Sprintf("%x", x)
}

func resU64(x uint64, err error) string {
	if err != nil {
		return "none"
	}
	return fmt.Sprintf("%x", x)
}

// decimal renderings for the property messages
func showU32(x uint32, err error) string {
	if err != nil {
		return "error"
	}
	return fmt.Sprintf("%d", x)
}

func showU64(x uint64, err error) string {
	if err != nil {
		return "error"
	}
	return fmt.Sprintf("%d", x)
}

func resBool(b bool, err error) string {
	if err != nil {
		return "none"
	}
	return b2s(b)
}

// near picks a value around x (x-2 .. x+2, wrapping) or x itself.
func near(r *hx.Rand, x uint32) uint32 { return x + uint32(r.Intn(5)) - 2 }

func genStakerCase(r *hx.Rand) stakerCase {
	var c stakerCase
	c.cd = []uint32{1, 2, 180, 8640, 8640, 60480, 1 << 31, ^uint32(0)}[r.Intn(8)]
	// period: 0 (error branch / panic of IsPeriodEnd), 1, the three configured lengths, large, random
	switch r.Intn(8) {
	case 0:
		c.v.Period = []uint32{0, 1, 1, 2}[r.Intn(4)]
	case 1:
		c.v.Period = ^uint32(0) - uint32(r.Intn(3))
	case 2:
		c.v.Period = uint32(r.Uint64())
	case 3:
		c.v.Period = uint32(1 + r.Intn(50))
	default:
		c.v.Period = []uint32{180, 8640, 60480, 129600, 259200}[r.Intn(5)]
	}
	// current block: small, typical, near 2^32
	switch r.Intn(6) {
	case 0:
		c.cur = uint32(r.Intn(10))
	case 1:
		c.cur = ^uint32(0) - uint32(r.Intn(4))
	case 2:
		c.cur = uint32(r.Uint64())
	default:
		c.cur = uint32(r.Intn(30_000_000))
	}
	// start block: <= current (mostly, often a whole number of periods back), > current, 0
	switch r.Intn(8) {
	case 0:
		c.v.StartBlock = 0
	case 1:
		c.v.StartBlock = c.cur + uint32(1+r.Intn(3)) // wraps at the top: still a valid uint32
	case 2:
		c.v.StartBlock = uint32(r.Uint64())
	case 3, 4:
		k := uint32(r.Intn(6))
		if uint64(k)*uint64(c.v.Period) <= uint64(c.cur) {
			c.v.StartBlock = near(r, c.cur-k*c.v.Period)
		}
	default:
		if c.cur > 0 {
			c.v.StartBlock = uint32(r.Intn(int(c.cur%(1<<31)) + 1))
		}
	}
	c.v.Status = validation.Status([]uint8{0, 1, 2, 2, 2, 2, 3, 3, uint8(4 + r.Intn(252))}[r.Intn(9)])
	switch r.Intn(6) {
	case 0:
		c.v.CompletedPeriods = 1
	case 1:
		c.v.CompletedPeriods = uint32(1 + r.Intn(40))
	case 2:
		c.v.CompletedPeriods = ^uint32(0) - uint32(r.Intn(3))
	default:
		c.v.CompletedPeriods = 0
	}
	// exit block: nil / around current - cooldown / near the top (deadline wraps)
	switch r.Intn(6) {
	case 0, 1:
		c.v.ExitBlock = nil
	case 2:
		c.v.ExitBlock = p32(near(r, c.cur-c.cd))
	case 3:
		c.v.ExitBlock = p32(^uint32(0) - uint32(r.Intn(int(c.cd%1000)+3)))
	case 4:
		c.v.ExitBlock = p32(uint32(r.Uint64()))
	default:
		c.v.ExitBlock = p32(uint32(r.Intn(int(c.cur%(1<<31)) + 1)))
	}
	if r.Chance(1, 3) {
		c.v.OfflineBlock = p32(uint32(r.Uint64()))
	}
	vet := func() uint64 {
		switch r.Intn(8) {
		case 0:
			return 0
		case 1:
			return ^uint64(0) - r.Uint64()%3
		case 2:
			return r.Uint64()
		case 3:
			return 1<<63 + r.Uint64()%5 - 2
		default:
			return 25_000_000 + r.Uint64()%575_000_001
		}
	}
	c.v.LockedVET, c.v.PendingUnlockVET, c.v.QueuedVET, c.v.CooldownVET, c.v.WithdrawableVET = vet(), vet(), vet(), vet(), vet()
	if r.Chance(1, 3) {
		c.v.PendingUnlockVET = c.v.LockedVET + c.v.QueuedVET + uint64(r.Intn(3)) - 1
	}
	switch r.Intn(3) {
	case 0:
		c.v.Weight = c.v.LockedVET
	case 1:
		c.v.Weight = 2*c.v.LockedVET + r.Uint64()%1_000_000
	default:
		c.v.Weight = vet()
	}
	// delegation: iterations around the validation's current iteration
	it, err := c.v.CurrentIteration(c.cur)
	if err != nil {
		it = uint32(r.Intn(5))
	}
	switch r.Intn(4) {
	case 0:
		c.d.Stake = 0
	default:
		c.d.Stake = 1 + r.Uint64()%600_000_000
	}
	c.d.Multiplier = uint8(r.Intn(256))
	switch r.Intn(5) {
	case 0:
		c.d.FirstIteration = uint32(r.Uint64())
	case 1:
		c.d.FirstIteration = uint32(r.Intn(4))
	default:
		c.d.FirstIteration = near(r, it)
	}
	switch r.Intn(6) {
	case 0, 1:
		c.d.LastIteration = nil
	case 2:
		c.d.LastIteration = p32(uint32(r.Uint64()))
	case 3:
		c.d.LastIteration = p32(c.d.FirstIteration + uint32(r.Intn(3)))
	default:
		c.d.LastIteration = p32(near(r, it))
	}
	return c
}

func (c *stakerCase) String() string {
	return fmt.Sprintf("cooldown=%d Status=%d Period=%d CompletedPeriods=%d StartBlock=%d ExitBlock=%s Withdrawable=%d Cooldown=%d Queued=%d | Stake=%d FirstIteration=%d LastIteration=%s | currentBlock=%d",
		c.cd, c.v.Status, c.v.Period, c.v.CompletedPeriods, c.v.StartBlock, optDec(c.v.ExitBlock), c.v.WithdrawableVET, c.v.CooldownVET, c.v.QueuedVET,
		c.d.Stake, c.d.FirstIteration, optDec(c.d.LastIteration), c.cur)
}

func optDec(p *uint32) string {
	if p == nil {
		return "nil"
	}
	return fmt.Sprintf("%d", *p)
}

func main() {
	oracle := flag.String("oracle", "", "")
	seed := flag.Uint64("seed", 1, "")
	names := flag.String("names", "GasLimit,Sequence,Epoch,PoolSync", "")
	n := flag.Int("n", 20000, "cases per function")
	flag.Parse()
	r := hx.NewRand(*seed)
	var lines, want []string
	dist := map[string]int{}
	add := func(l, w string) { lines = append(lines, l); want = append(want, w) }
	u64 := func() uint64 {
		switch r.Intn(8) {
		case 0:
			return []uint64{0, 1, 1023, 1024, 999_999, 1_000_000, 1_000_001, ^uint64(0), ^uint64(0) - 1, 1 << 63, 1<<63 - 1}[r.Intn(11)]
		case 1:
			return 1_000_000 + r.Uint64()%100_000
		case 2:
			return ^uint64(0) - r.Uint64()%(1<<54)
		case 3:
			return r.Uint64()
		default:
			return 1_000_000 + r.Uint64()%200_000_000
		}
	}
	for _, name := range strings.Split(*names, ",") {
		switch name {
		case "GasLimit":
			for i := 0; i < *n; i++ {
				p := u64()
				g := u64()
				if r.Chance(1, 2) { // near the parent: the interesting band
					d := r.Uint64() % (p/1024 + 3)
					if r.Bool() {
						g = p + d
					} else if p >= d {
						g = p - d
					}
				}
				add(fmt.Sprintf("GasLimit.IsValid %x %x", g, p), b2s(block.GasLimit(g).IsValid(p)))
				add(fmt.Sprintf("GasLimit.Qualify %x %x", g, p), fmt.Sprintf("%x", block.GasLimit(g).Qualify(p)))
				d := int64(r.Uint64())
				if r.Chance(1, 2) {
					d = int64(r.Uint64()%(g/1024+5)) * int64(1-2*r.Intn(2))
				}
				if r.Chance(1, 50) {
					d = -1 << 63
				}
				add(fmt.Sprintf("GasLimit.Adjust %x %s", g, zhex(d)), fmt.Sprintf("%x", block.GasLimit(g).Adjust(d)))
			}
		case "Sequence":
			for i := 0; i < *n; i++ {
				pick := func(max uint32) uint32 {
					switch r.Intn(5) {
					case 0:
						return []uint32{0, 1, max, max - 1, max + 1, ^uint32(0)}[r.Intn(6)]
					case 1:
						return uint32(r.Uint64())
					default:
						return uint32(r.Uint64()) % (max + 1)
					}
				}
				b, t, l := pick(1<<28-1), pick(1<<15-1), pick(1<<20-1)
				s, ok := logdb.VerifNewSequence(b, t, l)
				w := "none"
				if ok {
					w = zhex(s)
					bb, tt, ll := logdb.VerifSequenceFields(s)
					add(fmt.Sprintf("sequence.fields %s", zhex(s)), fmt.Sprintf("%x %x %x", bb, tt, ll))
				}
				add(fmt.Sprintf("newSequence %x %x %x", b, t, l), w)
				// accessors on arbitrary non-negative int64 values as well
				x := int64(r.Uint64() >> 1)
				bb, tt, ll := logdb.VerifSequenceFields(x)
				add(fmt.Sprintf("sequence.fields %s", zhex(x)), fmt.Sprintf("%x %x %x", bb, tt, ll))
			}
		case "Epoch":
			for i := 0; i < *n; i++ {
				L := uint32(1 + r.Intn(400))
				if r.Chance(1, 10) {
					L = []uint32{1, 2, 180, 8640, 1 << 16, 1 << 31}[r.Intn(6)]
				}
				thor.SetConfig(thor.Config{EpochLength: L})
				num := uint32(r.Uint64())
				if r.Chance(1, 2) {
					num = uint32(r.Intn(5000))
				}
				if r.Chance(1, 20) {
					num = ^uint32(0) - uint32(r.Intn(int(L)+3))
				}
				add(fmt.Sprintf("epoch %x %x", L, num),
					fmt.Sprintf("%x %s %x", bft.VerifGetCheckPoint(num), b2s(bft.VerifIsCheckPoint(num)), bft.VerifGetStorePoint(num)))
			}
		case "StakerTime":
			rs := hx.NewRand(*seed).Fork(0x57a4e7) // own well-mixed stream (NewRand(seed+1) is NewRand(seed) shifted by one draw)
			for i := 0; i < *n; i++ {
				c := genStakerCase(rs)
				thor.SetConfig(thor.Config{CooldownPeriod: c.cd})
				v, d := &c.v, &c.d
				dist["cases"]++
				if it, err := v.CurrentIteration(c.cur); err != nil {
					dist["iteration-error"]++
				} else if v.Status == validation.StatusActive && v.CompletedPeriods == 0 {
					dist["iteration-computed"]++
					if it == 0 {
						dist["iteration-wrapped"]++
					}
					if v.IsPeriodEnd(c.cur) {
						dist["period-end"]++
					}
				}
				if v.ExitBlock != nil {
					dist["exit-set"]++
					if uint64(*v.ExitBlock)+uint64(thor.CooldownPeriod()) >= 1<<32 {
						dist["cooldown-deadline-wraps"]++
					}
					if v.CooldownEnded(c.cur) {
						dist["cooldown-ended"]++
					}
				}
				if l, err := d.IsLocked(v, c.cur); err == nil && l {
					dist["locked"]++
				}
				if e, err := d.Ended(v, c.cur); err == nil && e {
					dist["ended"]++
				}
				if v.Period != 0 { // Go panics on Period = 0 (divisor obligation of the translation)
					add(fmt.Sprintf("staker.periodend %x %x %x", v.Period, v.StartBlock, c.cur), b2s(v.IsPeriodEnd(c.cur)))
				}
				line := fmt.Sprintf("staker %x %x %x %x %x %s %s %x %x %x %x %x %x %x %s %x %x", thor.CooldownPeriod(), v.Status, v.Period, v.CompletedPeriods,
					v.StartBlock, optHex(v.ExitBlock), optHex(v.OfflineBlock), v.LockedVET, v.PendingUnlockVET, v.QueuedVET, v.CooldownVET, v.WithdrawableVET,
					v.Weight, d.Stake, optHex(d.LastIteration), d.FirstIteration, c.cur)
				add(line, strings.Join([]string{
					b2s(v.IsOnline()), resU64(v.NextPeriodTVL()), resU32(v.CurrentIteration(c.cur)), resU32(v.CompletedIterations(c.cur)),
					b2s(v.CooldownEnded(c.cur)), fmt.Sprintf("%x", v.CalculateWithdrawableVET(c.cur)), fmt.Sprintf("%x", v.VerifMultiplier()),
					resBool(d.Started(v, c.cur)), resBool(d.Ended(v, c.cur)), resBool(d.IsLocked(v, c.cur))}, " "))
			}
		case "PoolSync":
			for i := 0; i < *n; i++ {
				T := []uint64{10, 10, 1, 3, 60, 1 << 62}[r.Intn(6)]
				thor.SetConfig(thor.Config{BlockInterval: T})
				now := r.Uint64()
				blk := now + uint64(int64(r.Intn(200))-100)*T/3
				if r.Chance(1, 5) {
					blk = r.Uint64()
				}
				add(fmt.Sprintf("isChainSynced %x %x %x", T, now, blk), b2s(txpool.VerifIsChainSynced(now, blk)))
			}
		}
	}
	// the lemmas of coq/GenProofs evaluated directly on the implementation (search for a failing input when a
	// proof over the regenerated definitions no longer checks)
	propFails := 0
	pf := func(format string, a ...any) {
		if propFails < 5 {
			fmt.Printf("GENCHECK-PROPERTY-FAIL "+format+"\n", a...)
		}
		propFails++
	}
	for _, name := range strings.Split(*names, ",") {
		switch name {
		case "GasLimit":
			rr := hx.NewRand(*seed + 77)
			for i := 0; i < *n; i++ {
				p := uint64(1_000_000) + rr.Uint64()%(1<<uint(20+rr.Intn(43)))
				var g uint64
				switch rr.Intn(6) {
				case 0:
					g = p + p/1024 + uint64(rr.Intn(3)) - 1
				case 1:
					g = p - p/1024 + uint64(rr.Intn(3)) - 1
				case 2: // far steps: multiples of large powers of two plus a small step (wrap-prone rewrites)
					g = p + (uint64(1+rr.Intn(7)) << uint(40+rr.Intn(24))) + rr.Uint64()%(p/1024+1)
				case 3:
					g = rr.Uint64()
				case 4:
					g = p + rr.Uint64()%(p/1024+2)
				default:
					g = p - rr.Uint64()%(p/1024+2)
				}
				diff := g - p
				if p > g {
					diff = p - g
				}
				want := g >= 1_000_000 && diff <= p/1024
				if got := block.GasLimit(g).IsValid(p); got != want {
					pf("is_valid_spec gasLimit=%d parent=%d IsValid=%v but floor-and-step-rule=%v", g, p, got, want)
				}
				t := rr.Uint64()
				if q := block.GasLimit(t).Qualify(p); !block.GasLimit(q).IsValid(p) {
					pf("qualify_is_valid target=%d parent=%d Qualify=%d is rejected by IsValid", t, p, q)
				}
			}
		case "Sequence":
			rr := hx.NewRand(*seed + 78)
			var prev int64 = -1
			var pb, pt, pl uint32
			for i := 0; i < *n; i++ {
				b, t, l := uint32(rr.Uint64())%(1<<28), uint32(rr.Uint64())%(1<<15), uint32(rr.Uint64())%(1<<20)
				if rr.Chance(1, 4) {
					b, t = pb, pt
				}
				s, ok := logdb.VerifNewSequence(b, t, l)
				if !ok {
					pf("new_sequence_value in-range (%d,%d,%d) rejected", b, t, l)
					continue
				}
				bb, tt, ll := logdb.VerifSequenceFields(s)
				if bb != b || tt != t || ll != l || s < 0 {
					pf("accessors_invert (%d,%d,%d) -> %d -> (%d,%d,%d)", b, t, l, s, bb, tt, ll)
				}
				if prev >= 0 {
					lexLess := pb < b || (pb == b && (pt < t || (pt == t && pl < l)))
					if lexLess != (prev < s) {
						pf("pack_lex_lt (%d,%d,%d)=%d vs (%d,%d,%d)=%d", pb, pt, pl, prev, b, t, l, s)
					}
				}
				prev, pb, pt, pl = s, b, t, l
			}
		case "Epoch":
			rr := hx.NewRand(*seed + 79)
			for i := 0; i < *n; i++ {
				L := uint32(1 + rr.Intn(400))
				thor.SetConfig(thor.Config{EpochLength: L})
				num := uint32(rr.Intn(1 << 24))
				cp, sp := bft.VerifGetCheckPoint(num), bft.VerifGetStorePoint(num)
				if cp > num || num-cp >= L || cp%L != 0 || sp != cp+L-1 || bft.VerifIsCheckPoint(num) != (num%L == 0) || !bft.VerifIsCheckPoint(sp+1) {
					pf("checkpoint_spec L=%d num=%d checkpoint=%d storepoint=%d", L, num, cp, sp)
				}
			}
		case "StakerTime": // the lemmas of GenProofs/StakerTimeProofs.v on the real methods
			rr := hx.NewRand(*seed).Fork(81)
			for i := 0; i < *n; i++ {
				c := genStakerCase(rr)
				thor.SetConfig(thor.Config{CooldownPeriod: c.cd})
				cd := uint64(thor.CooldownPeriod())
				v, d, cur := &c.v, &c.d, c.cur
				it, itErr := v.CurrentIteration(cur)
				// current_iteration_not_running
				switch {
				case v.Status == validation.StatusUnknown || v.Status == validation.StatusQueued:
					if itErr != nil || it != 0 {
						pf("current_iteration_not_running %s: CurrentIteration=%s, want 0", c.String(), showU32(it, itErr))
					}
				case v.Status == validation.StatusExit || v.CompletedPeriods > 0:
					if itErr != nil || it != v.CompletedPeriods {
						pf("current_iteration_not_running %s: CurrentIteration=%s, want CompletedPeriods", c.String(), showU32(it, itErr))
					}
				case cur < v.StartBlock || v.Period == 0: // current_iteration_active_errors
					if itErr == nil {
						pf("current_iteration_active_errors %s: CurrentIteration=%d, want an error", c.String(), it)
					}
				default: // current_iteration_active_spec: (currentBlock - StartBlock) / Period + 1 whenever that fits 32 bits
					want := uint64(cur-v.StartBlock)/uint64(v.Period) + 1
					if want < 1<<32 && (itErr != nil || uint64(it) != want) {
						pf("current_iteration_active_spec %s: CurrentIteration=%s, want (currentBlock-StartBlock)/Period+1 = %d", c.String(), showU32(it, itErr), want)
					}
					// period_end_iff_iteration_advances + is_period_end_spec
					end := v.IsPeriodEnd(cur)
					if end != (uint64(cur-v.StartBlock)%uint64(v.Period) == 0) {
						pf("is_period_end_spec %s: IsPeriodEnd=%v", c.String(), end)
					}
					if cur > v.StartBlock && want < 1<<32 {
						prev, perr := v.CurrentIteration(cur - 1)
						if perr != nil || itErr != nil || end != (it == prev+1) || (!end && it != prev) {
							pf("period_end_iff_iteration_advances %s: IsPeriodEnd=%v CurrentIteration(current-1)=%s CurrentIteration(current)=%s",
								c.String(), end, showU32(prev, perr), showU32(it, itErr))
						}
					}
				}
				// completed_iterations_spec
				ci, ciErr := v.CompletedIterations(cur)
				switch {
				case v.Status == validation.StatusUnknown || v.Status == validation.StatusQueued:
					if ciErr != nil || ci != 0 {
						pf("completed_iterations_spec %s: CompletedIterations=%s, want 0", c.String(), showU32(ci, ciErr))
					}
				case v.Status == validation.StatusExit:
					if ciErr != nil || ci != v.CompletedPeriods {
						pf("completed_iterations_spec %s: CompletedIterations=%s, want CompletedPeriods", c.String(), showU32(ci, ciErr))
					}
				case v.CompletedPeriods > 0:
					if ciErr != nil || ci != v.CompletedPeriods-1 {
						pf("completed_iterations_spec %s: CompletedIterations=%s, want CompletedPeriods-1", c.String(), showU32(ci, ciErr))
					}
				case cur >= v.StartBlock && v.Period != 0:
					if ciErr != nil || ci != (cur-v.StartBlock)/v.Period {
						pf("completed_iterations_spec %s: CompletedIterations=%s, want (currentBlock-StartBlock)/Period", c.String(), showU32(ci, ciErr))
					}
				}
				// current_iteration_monotone / started_monotone / ended_monotone (later block below 2^32 - 1)
				later := cur + uint32(rr.Intn(3)) + uint32(rr.Intn(2))*v.Period
				if later >= cur && later < ^uint32(0) && itErr == nil {
					it2, err2 := v.CurrentIteration(later)
					if err2 != nil || it2 < it {
						pf("current_iteration_monotone %s: CurrentIteration=%d but at block %d: %s", c.String(), it, later, showU32(it2, err2))
					}
					if s1, e1 := d.Started(v, cur); e1 == nil && s1 {
						if s2, e2 := d.Started(v, later); e2 != nil || !s2 {
							pf("started_monotone %s: Started=true but at block %d: %s", c.String(), later, resBool(s2, e2))
						}
					}
					if s1, e1 := d.Ended(v, cur); e1 == nil && s1 {
						if s2, e2 := d.Ended(v, later); e2 != nil || !s2 {
							pf("ended_monotone %s: Ended=true but at block %d: %s", c.String(), later, resBool(s2, e2))
						}
					}
				}
				// cooldown_ended_spec / cooldown_ended_monotone / withdrawable_spec
				ce := v.CooldownEnded(cur)
				if v.ExitBlock == nil && ce {
					pf("cooldown_ended_spec %s: CooldownEnded=true without an exit block", c.String())
				}
				if v.ExitBlock != nil && uint64(*v.ExitBlock)+cd < 1<<32 && ce != (uint64(*v.ExitBlock)+cd <= uint64(cur)) {
					pf("cooldown_ended_spec %s: CooldownEnded=%v", c.String(), ce)
				}
				if ce && later >= cur && !v.CooldownEnded(later) {
					pf("cooldown_ended_monotone %s: CooldownEnded=true but false at block %d", c.String(), later)
				}
				w, cdv, q := v.WithdrawableVET, v.CooldownVET, v.QueuedVET
				if w < 1<<62 && cdv < 1<<62 && q < 1<<62 {
					want := w + q
					if ce {
						want += cdv
					}
					if got := v.CalculateWithdrawableVET(cur); got != want {
						pf("withdrawable_spec %s: CalculateWithdrawableVET=%d, want %d", c.String(), got, want)
					}
				}
				// multiplier_spec, is_online_spec, next_period_tvl_spec
				if m := v.VerifMultiplier(); (m == validation.Multiplier) != (v.Weight == v.LockedVET) || (m != validation.Multiplier && m != validation.MultiplierWithDelegations) {
					pf("multiplier_spec Weight=%d LockedVET=%d: multiplier=%d", v.Weight, v.LockedVET, m)
				}
				if v.IsOnline() != (v.OfflineBlock == nil) {
					pf("is_online_spec %s", c.String())
				}
				if v.LockedVET < 1<<62 && v.QueuedVET < 1<<62 {
					tvl, err := v.NextPeriodTVL()
					if (err != nil) != (v.LockedVET+v.QueuedVET < v.PendingUnlockVET) || (err == nil && tvl != v.LockedVET+v.QueuedVET-v.PendingUnlockVET) {
						pf("next_period_tvl_spec LockedVET=%d QueuedVET=%d PendingUnlockVET=%d: NextPeriodTVL=%s", v.LockedVET, v.QueuedVET, v.PendingUnlockVET, showU64(tvl, err))
					}
				}
				// started_spec / ended_spec / ended_implies_started / is_locked_iff
				st, stErr := d.Started(v, cur)
				en, enErr := d.Ended(v, cur)
				lk, lkErr := d.IsLocked(v, cur)
				if v.Status == validation.StatusQueued || v.Status == validation.StatusUnknown {
					if stErr != nil || st {
						pf("started_spec %s: Started=%s on a validation that is not active", c.String(), resBool(st, stErr))
					}
				} else if (stErr != nil) != (itErr != nil) || (stErr == nil && st != (it >= d.FirstIteration)) {
					pf("started_spec %s: Started=%s CurrentIteration=%s", c.String(), resBool(st, stErr), showU32(it, itErr))
				}
				if v.Status != validation.StatusQueued && itErr == nil {
					want := (v.Status == validation.StatusExit && it >= d.FirstIteration) || (d.LastIteration != nil && *d.LastIteration < it)
					if enErr != nil || en != want {
						pf("ended_spec %s: Ended=%s CurrentIteration=%d", c.String(), resBool(en, enErr), it)
					}
				}
				if enErr == nil && en && (d.LastIteration == nil || d.FirstIteration <= *d.LastIteration) && (stErr != nil || !st) {
					pf("ended_implies_started %s: Ended=true Started=%s", c.String(), resBool(st, stErr))
				}
				if d.Stake == 0 {
					if lkErr != nil || lk {
						pf("is_locked_spec %s: IsLocked=%s with no stake", c.String(), resBool(lk, lkErr))
					}
				} else if (lkErr != nil) != (stErr != nil || enErr != nil) || (lkErr == nil && lk != (st && !en)) {
					pf("is_locked_iff %s: IsLocked=%s Started=%s Ended=%s", c.String(), resBool(lk, lkErr), resBool(st, stErr), resBool(en, enErr))
				}
			}
		case "PoolSync":
			rr := hx.NewRand(*seed + 80)
			for i := 0; i < *n; i++ {
				T := []uint64{10, 1, 3, 60}[rr.Intn(4)]
				thor.SetConfig(thor.Config{BlockInterval: T})
				now := 1_000_000 + rr.Uint64()%(1<<40)
				blk := now + uint64(int64(rr.Intn(40))-20)*T/2
				d := now - blk
				if blk > now {
					d = blk - now
				}
				if txpool.VerifIsChainSynced(now, blk) != (d < 6*T) {
					pf("is_chain_synced_iff T=%d now=%d block=%d", T, now, blk)
				}
			}
		}
	}
	got, err := hx.AskAll(*oracle, lines)
	if err != nil {
		fmt.Fprintln(os.Stderr, "gencheck: oracle:", err)
		os.Exit(2)
	}
	bad := 0
	for i := range lines {
		if strings.TrimSpace(got[i]) != want[i] {
			if bad < 10 {
				fmt.Printf("GENCHECK-MISMATCH %s impl=%s gen=%s\n", lines[i], want[i], got[i])
			}
			bad++
		}
	}
	if len(dist) > 0 {
		var ks []string
		for k := range dist {
			ks = append(ks, k)
		}
		sort.Strings(ks)
		var parts []string
		for _, k := range ks {
			parts = append(parts, fmt.Sprintf("%s=%d", k, dist[k]))
		}
		fmt.Println("gencheck: StakerTime input distribution:", strings.Join(parts, " "))
	}
	fmt.Printf("gencheck: %d evaluations, %d mismatches, %d property failures on the implementation\n", len(lines), bad, propFails)
	if bad > 0 || propFails > 0 {
		os.Exit(1)
	}
}
