// gencheck — cross-check of the go2v translation (T): the generated Gallina definitions (extracted, oracle/gen) are run
// against the real Go functions they were translated from, on boundary-biased and random arguments.
// usage: gencheck -oracle <oracle/gen/oracle.exe> -seed N -names GasLimit,Sequence,Epoch,PoolSync
// prints "GENCHECK-MISMATCH <name> <input> impl=<..> gen=<..>" lines and exits 1 on any disagreement.
package main

import (
	"flag"
	"fmt"
	"os"
	"strings"

	"github.com/vechain/thor/v2/bft"
	"github.com/vechain/thor/v2/block"
	"github.com/vechain/thor/v2/logdb"
	"github.com/vechain/thor/v2/thor"
	"github.com/vechain/thor/v2/txpool"

	"verif/harness/internal/hx"
)

func b2s(b bool) string {
	if b {
		return "1"
	}
	return "0"
}

func zhex(x int64) string {
	if x < 0 {
		return fmt.Sprintf("-%x", uint64(-x))
	}
	return fmt.Sprintf("%x", x)
}

func main() {
	oracle := flag.String("oracle", "", "")
	seed := flag.Uint64("seed", 1, "")
	names := flag.String("names", "GasLimit,Sequence,Epoch,PoolSync", "")
	n := flag.Int("n", 20000, "cases per function")
	flag.Parse()
	r := hx.NewRand(*seed)
	var lines, want []string
	add := func(l, w string) { lines = append(lines, l); want = append(want, w) }
	u64 := func() uint64 {
		switch r.Intn(8) {
		case 0:
			return []uint64{0, 1, 1023, 1024, 999_999, 1_000_000, 1_000_001, ^uint64(0), ^uint64(0) - 1, 1 << 63, 1<<63 - 1}[r.Intn(11)]
		case 1:
			return 1_000_000 + r.Uint64()%100_000
		case 2:
			return ^uint64(0) - r.Uint64()%(1<<54)
		case 3:
			return r.Uint64()
		default:
			return 1_000_000 + r.Uint64()%200_000_000
		}
	}
	for _, name := range strings.Split(*names, ",") {
		switch name {
		case "GasLimit":
			for i := 0; i < *n; i++ {
				p := u64()
				g := u64()
				if r.Chance(1, 2) { // near the parent: the interesting band
					d := r.Uint64() % (p/1024 + 3)
					if r.Bool() {
						g = p + d
					} else if p >= d {
						g = p - d
					}
				}
				add(fmt.Sprintf("GasLimit.IsValid %x %x", g, p), b2s(block.GasLimit(g).IsValid(p)))
				add(fmt.Sprintf("GasLimit.Qualify %x %x", g, p), fmt.Sprintf("%x", block.GasLimit(g).Qualify(p)))
				d := int64(r.Uint64())
				if r.Chance(1, 2) {
					d = int64(r.Uint64()%(g/1024+5)) * int64(1-2*r.Intn(2))
				}
				if r.Chance(1, 50) {
					d = -1 << 63
				}
				add(fmt.Sprintf("GasLimit.Adjust %x %s", g, zhex(d)), fmt.Sprintf("%x", block.GasLimit(g).Adjust(d)))
			}
		case "Sequence":
			for i := 0; i < *n; i++ {
				pick := func(max uint32) uint32 {
					switch r.Intn(5) {
					case 0:
						return []uint32{0, 1, max, max - 1, max + 1, ^uint32(0)}[r.Intn(6)]
					case 1:
						return uint32(r.Uint64())
					default:
						return uint32(r.Uint64()) % (max + 1)
					}
				}
				b, t, l := pick(1<<28-1), pick(1<<15-1), pick(1<<20-1)
				s, ok := logdb.VerifNewSequence(b, t, l)
				w := "none"
				if ok {
					w = zhex(s)
					bb, tt, ll := logdb.VerifSequenceFields(s)
					add(fmt.Sprintf("sequence.fields %s", zhex(s)), fmt.Sprintf("%x %x %x", bb, tt, ll))
				}
				add(fmt.Sprintf("newSequence %x %x %x", b, t, l), w)
				// accessors on arbitrary non-negative int64 values as well
				x := int64(r.Uint64() >> 1)
				bb, tt, ll := logdb.VerifSequenceFields(x)
				add(fmt.Sprintf("sequence.fields %s", zhex(x)), fmt.Sprintf("%x %x %x", bb, tt, ll))
			}
		case "Epoch":
			for i := 0; i < *n; i++ {
				L := uint32(1 + r.Intn(400))
				if r.Chance(1, 10) {
					L = []uint32{1, 2, 180, 8640, 1 << 16, 1 << 31}[r.Intn(6)]
				}
				thor.SetConfig(thor.Config{EpochLength: L})
				num := uint32(r.Uint64())
				if r.Chance(1, 2) {
					num = uint32(r.Intn(5000))
				}
				if r.Chance(1, 20) {
					num = ^uint32(0) - uint32(r.Intn(int(L)+3))
				}
				add(fmt.Sprintf("epoch %x %x", L, num),
					fmt.Sprintf("%x %s %x", bft.VerifGetCheckPoint(num), b2s(bft.VerifIsCheckPoint(num)), bft.VerifGetStorePoint(num)))
			}
		case "PoolSync":
			for i := 0; i < *n; i++ {
				T := []uint64{10, 10, 1, 3, 60, 1 << 62}[r.Intn(6)]
				thor.SetConfig(thor.Config{BlockInterval: T})
				now := r.Uint64()
				blk := now + uint64(int64(r.Intn(200))-100)*T/3
				if r.Chance(1, 5) {
					blk = r.Uint64()
				}
				add(fmt.Sprintf("isChainSynced %x %x %x", T, now, blk), b2s(txpool.VerifIsChainSynced(now, blk)))
			}
		}
	}
	// the lemmas of coq/GenProofs evaluated directly on the implementation (search for a failing input when a
	// proof over the regenerated definitions no longer checks)
	propFails := 0
	pf := func(format string, a ...any) {
		if propFails < 5 {
			fmt.Printf("GENCHECK-PROPERTY-FAIL "+format+"\n", a...)
		}
		propFails++
	}
	for _, name := range strings.Split(*names, ",") {
		switch name {
		case "GasLimit":
			rr := hx.NewRand(*seed + 77)
			for i := 0; i < *n; i++ {
				p := uint64(1_000_000) + rr.Uint64()%(1<<uint(20+rr.Intn(43)))
				var g uint64
				switch rr.Intn(6) {
				case 0:
					g = p + p/1024 + uint64(rr.Intn(3)) - 1
				case 1:
					g = p - p/1024 + uint64(rr.Intn(3)) - 1
				case 2: // far steps: multiples of large powers of two plus a small step (wrap-prone rewrites)
					g = p + (uint64(1+rr.Intn(7)) << uint(40+rr.Intn(24))) + rr.Uint64()%(p/1024+1)
				case 3:
					g = rr.Uint64()
				case 4:
					g = p + rr.Uint64()%(p/1024+2)
				default:
					g = p - rr.Uint64()%(p/1024+2)
				}
				diff := g - p
				if p > g {
					diff = p - g
				}
				want := g >= 1_000_000 && diff <= p/1024
				if got := block.GasLimit(g).IsValid(p); got != want {
					pf("is_valid_spec gasLimit=%d parent=%d IsValid=%v but floor-and-step-rule=%v", g, p, got, want)
				}
				t := rr.Uint64()
				if q := block.GasLimit(t).Qualify(p); !block.GasLimit(q).IsValid(p) {
					pf("qualify_is_valid target=%d parent=%d Qualify=%d is rejected by IsValid", t, p, q)
				}
			}
		case "Sequence":
			rr := hx.NewRand(*seed + 78)
			var prev int64 = -1
			var pb, pt, pl uint32
			for i := 0; i < *n; i++ {
				b, t, l := uint32(rr.Uint64())%(1<<28), uint32(rr.Uint64())%(1<<15), uint32(rr.Uint64())%(1<<20)
				if rr.Chance(1, 4) {
					b, t = pb, pt
				}
				s, ok := logdb.VerifNewSequence(b, t, l)
				if !ok {
					pf("new_sequence_value in-range (%d,%d,%d) rejected", b, t, l)
					continue
				}
				bb, tt, ll := logdb.VerifSequenceFields(s)
				if bb != b || tt != t || ll != l || s < 0 {
					pf("accessors_invert (%d,%d,%d) -> %d -> (%d,%d,%d)", b, t, l, s, bb, tt, ll)
				}
				if prev >= 0 {
					lexLess := pb < b || (pb == b && (pt < t || (pt == t && pl < l)))
					if lexLess != (prev < s) {
						pf("pack_lex_lt (%d,%d,%d)=%d vs (%d,%d,%d)=%d", pb, pt, pl, prev, b, t, l, s)
					}
				}
				prev, pb, pt, pl = s, b, t, l
			}
		case "Epoch":
			rr := hx.NewRand(*seed + 79)
			for i := 0; i < *n; i++ {
				L := uint32(1 + rr.Intn(400))
				thor.SetConfig(thor.Config{EpochLength: L})
				num := uint32(rr.Intn(1 << 24))
				cp, sp := bft.VerifGetCheckPoint(num), bft.VerifGetStorePoint(num)
				if cp > num || num-cp >= L || cp%L != 0 || sp != cp+L-1 || bft.VerifIsCheckPoint(num) != (num%L == 0) || !bft.VerifIsCheckPoint(sp+1) {
					pf("checkpoint_spec L=%d num=%d checkpoint=%d storepoint=%d", L, num, cp, sp)
				}
			}
		case "PoolSync":
			rr := hx.NewRand(*seed + 80)
			for i := 0; i < *n; i++ {
				T := []uint64{10, 1, 3, 60}[rr.Intn(4)]
				thor.SetConfig(thor.Config{BlockInterval: T})
				now := 1_000_000 + rr.Uint64()%(1<<40)
				blk := now + uint64(int64(rr.Intn(40))-20)*T/2
				d := now - blk
				if blk > now {
					d = blk - now
				}
				if txpool.VerifIsChainSynced(now, blk) != (d < 6*T) {
					pf("is_chain_synced_iff T=%d now=%d block=%d", T, now, blk)
				}
			}
		}
	}
	got, err := hx.AskAll(*oracle, lines)
	if err != nil {
		fmt.Fprintln(os.Stderr, "gencheck: oracle:", err)
		os.Exit(2)
	}
	bad := 0
	for i := range lines {
		if strings.TrimSpace(got[i]) != want[i] {
			if bad < 10 {
				fmt.Printf("GENCHECK-MISMATCH %s impl=%s gen=%s\n", lines[i], want[i], got[i])
			}
			bad++
		}
	}
	fmt.Printf("gencheck: %d evaluations, %d mismatches, %d property failures on the implementation\n", len(lines), bad, propFails)
	if bad > 0 || propFails > 0 {
		os.Exit(1)
	}
}
