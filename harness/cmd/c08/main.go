// c08 — correspondence driver for property C08 (VET conserved; VTHO changes only by fees burned and rewards issued; the
// base fee moves by at most 1/8 per block, never below its floor, as a function of the parent header alone).
// Stream 1: generated transactions through the real runtime.Runtime with full account-trie walks before and after (shared
// with c07, package txsim): totals and per-account deltas against the extracted ledger model, conservation predicates
// evaluated directly on the walks.  Stream 2: galactica.CalcBaseFee on boundary-biased parent headers built with
// block.Builder against the extracted BaseFee model, bounds evaluated directly on the implementation's answers.
package main

import (
	"encoding/binary"
	"encoding/json"
	"fmt"
	"math"
	"math/big"
	"os"
	"strings"

	"github.com/vechain/thor/v2/block"
	"github.com/vechain/thor/v2/consensus/upgrade/galactica"
	"github.com/vechain/thor/v2/thor"

	"verif/harness/internal/hx"
	"verif/harness/internal/txsim"
)

type BFCase struct {
	Galactica uint32 `json:"galactica"`
	PNum      uint32 `json:"parent_number"`
	GasLimit  uint64 `json:"parent_gas_limit"`
	GasUsed   uint64 `json:"parent_gas_used"`
	BaseFee   string `json:"parent_base_fee"` // decimal, "" = absent
	Noise     uint64 `json:"noise"`           // seeds the header fields the base fee must NOT depend on
}

type replayDoc struct {
	BaseFee *BFCase     `json:"basefee,omitempty"`
	Tx      *txsim.Case `json:"tx,omitempty"`
}

func header(c *BFCase, noise uint64) *block.Header {
	var pid thor.Bytes32
	binary.BigEndian.PutUint32(pid[:], c.PNum-1)
	n := hx.NewRand(noise)
	copy(pid[4:], n.Bytes(28))
	b := new(block.Builder).ParentID(pid).GasLimit(c.GasLimit).GasUsed(c.GasUsed).Timestamp(n.Uint64() % (1 << 40)).
		TotalScore(n.Uint64() % 1000).Beneficiary(thor.BytesToAddress(n.Bytes(20))).StateRoot(thor.BytesToBytes32(n.Bytes(32))).
		ReceiptsRoot(thor.BytesToBytes32(n.Bytes(32)))
	if c.BaseFee != "" {
		bf, _ := new(big.Int).SetString(c.BaseFee, 10)
		b.BaseFee(bf)
	}
	return b.Build().Header()
}

// calc runs the real function; "none" | "fee <hex>" | "panic"
func calc(c *BFCase, noise uint64) (res string, fee *big.Int) {
	fc := thor.SoloFork
	fc.GALACTICA = c.Galactica
	defer func() {
		if r := recover(); r != nil {
			res, fee = "panic", nil
		}
	}()
	out := galactica.CalcBaseFee(header(c, noise), &fc)
	if out == nil {
		return "none", nil
	}
	return "fee " + out.Text(16), out
}

const maxNoWrap = math.MaxUint64 / 75

func genBF(r *hx.Rand) *BFCase {
	c := &BFCase{Noise: r.Uint64()}
	c.Galactica = uint32([]uint64{0, 1, 5, 1000, uint64(r.Intn(1 << 20)), math.MaxUint32}[r.Intn(6)])
	switch r.Intn(6) {
	case 0:
		c.PNum = c.Galactica - 1 // next block is the fork block
	case 1:
		c.PNum = c.Galactica - 2 - uint32(r.Intn(3))
	case 2:
		c.PNum = uint32(r.Uint64())
	default:
		c.PNum = c.Galactica + uint32(r.Intn(1000))
	}
	switch r.Intn(10) {
	case 0:
		c.GasLimit = thor.MinGasLimit
	case 1:
		c.GasLimit = maxNoWrap - uint64(r.Intn(3))
	case 2:
		c.GasLimit = maxNoWrap + 1 + uint64(r.Intn(1000)) // beyond the stated precondition (uint64 wrap of gasLimit*75)
	case 3:
		c.GasLimit = uint64(r.Intn(8)) // below MinGasLimit: target may be 0
	case 4:
		c.GasLimit = r.Uint64()
	case 5:
		c.GasLimit = 10_000_000 + uint64(r.Intn(100)) + 9765*uint64(r.Intn(50)) // limits after a few 1/1024 votes
	default:
		c.GasLimit = thor.MinGasLimit + r.Uint64()%100_000_000
	}
	target := c.GasLimit * 75 / 100
	switch r.Intn(8) {
	case 0:
		c.GasUsed = 0
	case 1:
		c.GasUsed = c.GasLimit
	case 2:
		c.GasUsed = target
	case 3:
		c.GasUsed = target + 1
	case 4:
		c.GasUsed = target - 1 - uint64(r.Intn(80))
	case 5:
		c.GasUsed = c.GasLimit + uint64(r.Intn(1000)) // invalid header
	default:
		if c.GasLimit > 0 {
			c.GasUsed = r.Uint64() % (c.GasLimit + 1)
		}
	}
	ini := big.NewInt(thor.InitialBaseFee)
	switch r.Intn(7) {
	case 0:
		c.BaseFee = ini.String()
	case 1:
		c.BaseFee = new(big.Int).Add(ini, big.NewInt(int64(r.Intn(16)))).String()
	case 2:
		c.BaseFee = new(big.Int).Mul(ini, big.NewInt(int64(1+r.Intn(100000)))).String()
	case 3:
		c.BaseFee = new(big.Int).Lsh(big.NewInt(1), uint(60+r.Intn(190))).String()
	case 4:
		c.BaseFee = big.NewInt(int64(r.Intn(20))).String() // below the floor (invalid parent)
	default:
		c.BaseFee = new(big.Int).Add(ini, new(big.Int).SetUint64(r.Uint64()%1_000_000_000_000_000)).String()
	}
	return c
}

func inDomain(c *BFCase) bool {
	bf, _ := new(big.Int).SetString(c.BaseFee, 10)
	return c.PNum != math.MaxUint32 && c.PNum+1 > c.Galactica && c.GasLimit >= thor.MinGasLimit && c.GasLimit <= maxNoWrap &&
		c.GasUsed <= c.GasLimit && bf != nil && bf.Cmp(big.NewInt(thor.InitialBaseFee)) >= 0
}

// bfProperty: C08(b) evaluated directly on the implementation.
func bfProperty(c *BFCase) string {
	res, fee := calc(c, c.Noise)
	if res2, _ := calc(c, c.Noise^0x5555); res2 != res {
		return "base fee depends on header fields other than number / gas limit / gas used / base fee"
	}
	if !inDomain(c) {
		return ""
	}
	if fee == nil {
		return "no base fee (" + res + ") for a post-fork parent inside the domain"
	}
	pb, _ := new(big.Int).SetString(c.BaseFee, 10)
	if fee.Cmp(big.NewInt(thor.InitialBaseFee)) < 0 {
		return fmt.Sprintf("next base fee %s below the floor", fee)
	}
	diff := new(big.Int).Abs(new(big.Int).Sub(fee, pb))
	if diff.Cmp(new(big.Int).Div(pb, big.NewInt(8))) > 0 {
		return fmt.Sprintf("base fee moved by %s, more than 1/8 of %s", diff, pb)
	}
	// direction of the move against the gas target = 75% of the gas limit (floor), restated here independently
	target := c.GasLimit * 75 / 100 // no wrap inside the domain
	switch {
	case c.GasUsed == target && fee.Cmp(pb) != 0:
		return fmt.Sprintf("parent exactly at its gas target (limit %d, used %d) but the base fee moved from %s to %s", c.GasLimit, c.GasUsed, pb, fee)
	case c.GasUsed < target && fee.Cmp(pb) > 0:
		return fmt.Sprintf("parent below its gas target (limit %d, used %d < %d) but the base fee rose from %s to %s", c.GasLimit, c.GasUsed, target, pb, fee)
	case c.GasUsed > target && fee.Cmp(pb) <= 0:
		return fmt.Sprintf("parent above its gas target (limit %d, used %d > %d) but the base fee did not rise (%s -> %s)", c.GasLimit, c.GasUsed, target, pb, fee)
	}
	return ""
}

func bfLine(c *BFCase) string {
	bf := "0"
	if c.BaseFee != "" {
		b, _ := new(big.Int).SetString(c.BaseFee, 10)
		bf = b.Text(16)
	}
	return fmt.Sprintf("BF %x %x %x %x %s", c.Galactica, c.PNum, c.GasLimit, c.GasUsed, bf)
}

func runBF(ctx *hx.Ctx, cases []*BFCase) {
	if len(cases) == 0 {
		return
	}
	lines := make([]string, len(cases))
	for i, c := range cases {
		lines[i] = bfLine(c)
	}
	ans, err := hx.AskAll(ctx.Oracle, lines)
	if err != nil {
		hx.Fatal("oracle: %v", err)
	}
	for i, c := range cases {
		canon, _ := json.Marshal(c)
		ctx.Cov.Case("bf:"+string(canon), inDomain(c) && c.GasUsed != c.GasLimit*75/100, nil)
		ctx.Cov.Count("basefee-case")
		if inDomain(c) {
			ctx.Cov.Count("basefee-in-domain")
		}
		if c.GasLimit > maxNoWrap {
			ctx.Cov.Count("basefee-gaslimit-beyond-nowrap-bound")
		}
		if f := bfProperty(c); f != "" {
			class := "basefee:bounds"
			if strings.HasPrefix(f, "parent ") {
				class = "basefee:direction"
			}
			ctx.Violation(class, f, replayDoc{BaseFee: c}, true)
			continue
		}
		res, _ := calc(c, c.Noise)
		if res != ans[i] {
			ctx.Violation("correspondence:basefee", "correspondence BaseFee.Model ~ galactica.CalcBaseFee no longer checks (basefee_bounds is about the model): impl="+
				res+" model="+ans[i], replayDoc{BaseFee: c}, false)
		}
	}
}

func main() {
	ctx := hx.Init("C08")
	if ctx.Replay != "" {
		b, err := os.ReadFile(ctx.Replay)
		if err != nil {
			hx.Fatal("%v", err)
		}
		var doc struct {
			Replay json.RawMessage `json:"replay"`
		}
		json.Unmarshal(b, &doc)
		var rd replayDoc
		if cc := txsim.LoadChainReplay(b); cc != nil {
			txsim.RunChains(ctx, "C08", []*txsim.ChainCase{cc})
		} else if json.Unmarshal(doc.Replay, &rd) == nil && rd.BaseFee != nil {
			runBF(ctx, []*BFCase{rd.BaseFee})
		} else if c := txsim.LoadReplay(ctx.Replay); c != nil {
			txsim.RunCases(ctx, "C08", []*txsim.Case{c})
		} else {
			hx.Fatal("bad replay file %s", ctx.Replay)
		}
		ctx.Finish("replay", nil)
	}
	if dir := os.Getenv("VERIF_CORPUS"); dir != "" {
		txs, chains := txsim.LoadCorpusAll(dir)
		txsim.RunCases(ctx, "C08", txs)
		txsim.RunChains(ctx, "C08", chains)
		for _, f := range txsim.CorpusFiles(dir) {
			if b, err := os.ReadFile(f); err == nil {
				var doc struct {
					Replay replayDoc `json:"replay"`
				}
				if json.Unmarshal(b, &doc) == nil && doc.Replay.BaseFee != nil {
					runBF(ctx, []*BFCase{doc.Replay.BaseFee})
				}
			}
		}
	}
	r := hx.NewRand(ctx.Seed)
	rb := r.Fork(8)
	var bfs []*BFCase
	for i := 0; i < ctx.Scale(20000, 2000000); i++ {
		bfs = append(bfs, genBF(rb))
		if len(bfs) == 50000 {
			runBF(ctx, bfs)
			bfs = nil
		}
	}
	runBF(ctx, bfs)
	n := ctx.Scale(1500, 25000)
	batch := 100
	for done := 0; done < n; done += batch {
		var cases []*txsim.Case
		for i := 0; i < batch && done+i < n; i++ {
			cases = append(cases, txsim.GenCase(r))
		}
		txsim.RunCases(ctx, "C08", cases)
	}
	rc := r.Fork(77)
	var chains []*txsim.ChainCase
	for i := 0; i < ctx.Scale(150, 3500); i++ {
		chains = append(chains, txsim.GenChain(rc))
	}
	for i := 0; i < ctx.Scale(60, 1500); i++ {
		chains = append(chains, txsim.GenChainPoS(rc))
	}
	txsim.RunChains(ctx, "C08", chains)
	ctx.Finish("stream 1: "+txsim.Rule+txsim.ChainRule+"; stream 2: parent headers built with block.Builder, fork height in {0,1,5,1000,random,never}, parent number at / before / after the fork, "+
		"gas limit in {MinGasLimit, around (2^64-1)/75, beyond it, below MinGasLimit, random}, gas used in {0, limit, target, target+-1, over the limit, random}, parent base fee in "+
		"{floor, floor+small, multiples, 2^60..2^250, below the floor, random}; non-trivial = inside the theorem's domain and gas used != target",
		append(txsim.Assumptions, "base fee: the 1/8 and floor bounds are claimed for MinGasLimit <= gasLimit <= (2^64-1)/75 (uint64 product gasLimit*75 does not wrap), gasUsed <= gasLimit, parent base fee >= floor; outside it only model = implementation is checked"))
}
