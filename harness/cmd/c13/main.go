// c13 — correspondence driver for property C13 (a crash at any point of block import leaves a consistent, resumable node).
// A real cmd/thor/node.Node imports generated chains through its own processBlock over a muxdb whose key-value engine
// records every atomic write. (i) the recorded write sequence of every import is compared with the extracted Coq model's;
// (ii) for EVERY cut position the prefix is replayed into a fresh engine, the real NewRepository + NewEngine + node are
// started on it, the best block is read completely, the stream is resumed, and the property's predicates are evaluated on
// the real answers (and compared with the model's restart / resume).
package main

import (
	"encoding/json"
	"fmt"
	"os"
	"path/filepath"
	"runtime"
	"sort"
	"strings"
	"sync"
	"time"

	"verif/harness/internal/crashsim"
	"verif/harness/internal/hx"
)

// repairInTree: the tree's bft.NewEngine re-runs the interrupted CommitBlock of a store-point head (F6 repair);
// selects the model variant ([restart c true]).
const repairInTree = true

type replayDoc struct {
	Scenario *crashsim.Scenario `json:"scenario"`
	Cut      int                `json:"cut"`
	Note     string             `json:"note,omitempty"`
}

func runScenario(ctx *hx.Ctx, w *crashsim.World, scn *crashsim.Scenario, source string) {
	t0 := time.Now()
	run, err := crashsim.Build(w, scn)
	if err != nil {
		ctx.Violation("uninterrupted-import-error", "the node failed on a generated stream: "+err.Error(), replayDoc{Scenario: scn, Cut: -1}, false)
		return
	}
	defer run.U.Close()
	cuts := run.Cuts()
	// resume is asked of the model at every cut of the bft window and at a sample of the others (it is the costly query)
	resumeOf := func(k int) bool {
		p := run.Pos(k)
		return p.Next == "quality" || p.Next == "finalized" || p.Prev == "quality" || k%5 == 0
	}
	t1 := time.Now()
	xs, rs, first, err := run.OracleCuts(ctx.Oracle, repairInTree, cuts, resumeOf)
	t2 := time.Now()
	if err != nil {
		hx.Fatal("oracle: %v", err)
	}
	report := func(class, summary string, cut int, found bool) {
		one := *scn
		if cut >= 0 {
			one.Cuts = []int{cut}
		}
		ctx.Violation(class, summary, replayDoc{Scenario: &one, Cut: cut, Note: source}, found)
	}
	// (i) write sequence of every import (reported after the cuts: a concrete failing cut is the better replay)
	var seqMismatch []string
	stored, forks, storePoints, withTx := 0, 0, 0, 0
	for i, d := range run.Deliveries {
		want := crashsim.RenderBatches(run.U.Eng.Log(d.From, d.To))
		got := first[1+i]
		ctx.Cov.Count("import:" + []string{"ok", "known", "parent-missing", "bft-rejected", "unprocessable", "other"}[d.Class])
		ctx.Cov.Count("batches:" + strings.ReplaceAll(d.Kinds, " ", ","))
		if d.Stored {
			stored++
			if strings.Contains(d.Kinds, "q") {
				storePoints++
			}
			if len(d.Block.Transactions()) > 0 {
				withTx++
			}
		}
		if crashsim.CanonWrites(got) != crashsim.CanonWrites(want) {
			seqMismatch = append(seqMismatch, fmt.Sprintf("delivery %d (block #%d): the node issued [%s], the model [%s]", i, d.Block.Header().Number(),
				kindsOfRendered(want), kindsOfRendered(got)))
		}
	}
	if u := first[len(run.Preamble)]; u != run.Final.Best+" "+run.Final.Fin+" "+run.Final.Tallies {
		report("uninterrupted-result", fmt.Sprintf("uninterrupted run: node %s %s [%s], model %s", short(run.Final.Best), short(run.Final.Fin), run.Final.Tallies, u), -1, false)
	}
	heights := map[uint32]int{}
	for _, d := range run.Deliveries {
		if d.Stored {
			heights[d.Block.Header().Number()]++
		}
	}
	for _, c := range heights {
		if c > 1 {
			forks++
		}
	}
	// (ii) every cut
	results := run.EvalCuts(cuts)
	if os.Getenv("VERIF_TIMING") != "" {
		fmt.Fprintf(os.Stderr, "build %v oracle %v cuts %v (%d cuts)\n", t1.Sub(t0), t2.Sub(t1), time.Since(t2), len(cuts))
	}
	for i, res := range results {
		k := cuts[i]
		ctx.Cov.Count("cut:" + res.Pos.Class())
		for _, f := range res.Findings {
			report(f.Class, f.Summary, k, f.Found)
		}
		if res.RestartErr != "" {
			if xs[k] != "fail" {
				report("model-restart", fmt.Sprintf("cut %d: restart fails (%s), the model restarts", k, res.RestartErr), k, false)
			}
			continue
		}
		if want := res.Best + " " + res.Fin + " " + hx.B(res.Readable); xs[k] != want {
			report("model-restart", fmt.Sprintf("cut %d (%s): restart gives %s, the model %s", k, res.Pos.Class(), want, xs[k]), k, false)
		}
		if m, ok := rs[k]; ok && !res.ExtraSet {
			if want := res.Resumed.Best + " " + res.Resumed.Fin + " " + res.Resumed.Tallies; m != want {
				report("model-resume:"+res.Pos.Class(), fmt.Sprintf("cut %d (%s): resumed node %s, the model %s", k, res.Pos.Class(), want, m), k, false)
			}
		}
		if res.Sibling {
			ctx.Cov.Count("cut:sibling-delivered-over-leftovers")
		}
		if res.ExtraSet {
			ctx.Cov.Count("resume:stored-a-block-the-uninterrupted-node-rejected")
		}
	}
	for _, m := range seqMismatch {
		report("write-sequence", m, -1, false)
	}
	// (iii) the log database, the node's second store: position and atomicity of its commit in the combined write sequence
	// (model: dual_steps — after the state commit, before the index batch, only when the tables change), then the cut right
	// there with the log database as it was before / after the commit
	for _, p := range run.Logs.Problems {
		report("log-commit-not-atomic", p, -1, true)
	}
	logImports := 0
	for i, d := range run.Deliveries {
		p := run.Logs.Commit[i]
		if p < 0 {
			continue
		}
		logImports++
		k := d.From + p - run.U.Base
		if pos := run.Pos(k); pos.Delivery != i || pos.Prev != "state" || pos.Next != "index" {
			report("log-commit-position", fmt.Sprintf("delivery %d (block #%d): the log tables change at %s of delivery %d; the model (dual_steps, visible_best_block_is_logged) puts the log commit after the state commit and before the index batch",
				i, d.Block.Header().Number(), pos.Class(), pos.Delivery), k, false)
		}
	}
	logCuts := run.LogCuts()
	type job struct {
		k         int
		committed bool
	}
	var jobs []job
	for _, k := range logCuts {
		jobs = append(jobs, job{k, false}, job{k, true})
	}
	logResults := make([]*crashsim.LogCutResult, len(jobs))
	var wg sync.WaitGroup
	sem := make(chan struct{}, runtime.NumCPU())
	for i, j := range jobs {
		wg.Add(1)
		sem <- struct{}{}
		go func(i int, j job) {
			defer wg.Done()
			defer func() { <-sem }()
			logResults[i] = run.EvalLogCut(j.k, j.committed)
		}(i, j)
	}
	wg.Wait()
	for _, res := range logResults {
		ctx.Cov.Count("logcut:" + res.Variant)
		for _, f := range res.Findings {
			report(f.Class, f.Summary, res.K, f.Found)
		}
	}
	// (iv) the same cut with the REAL syncLogDB at start (cmd/thor's test binary): the tables must come back to the canonical chain's
	if rb := resyncBin(ctx); rb != nil {
		outs, err := run.EvalResyncs(rb)
		if err != nil {
			report("resync-hook-run", "the start-up re-sync hook run did not complete on this tree: "+err.Error()+"; theorem resync_after_log_commit is no longer tied to the code", -1, false)
		}
		for _, o := range outs {
			if o.Ran {
				ctx.Cov.Count("resync:real-syncLogDB-after-log-commit-cut")
			}
			for _, f := range o.Findings {
				report(f.Class, f.Summary, o.K, f.Found)
			}
		}
	}
	ctx.Cov.Add("imports-changing-the-log-tables", logImports)
	ctx.Cov.Add("log-cuts-evaluated", len(jobs))
	canon, _ := json.Marshal(scn)
	nontrivial := stored >= 8 && storePoints >= 2 && (forks > 0 || withTx > 0)
	ctx.Cov.Case(string(canon), nontrivial, map[string]any{"blocks": len(scn.Blocks), "deliveries": len(run.Deliveries), "stored": stored,
		"store_points": storePoints, "fork_heights": forks, "blocks_with_txs": withTx, "writes": run.Total, "cuts": len(cuts)})
	ctx.Cov.Add("cuts-evaluated", len(cuts))
	ctx.Cov.Add("imports", len(run.Deliveries))
	ctx.Cov.Bucket("writes-per-chain", run.Total)
}

var theResyncBin *crashsim.ResyncBin
var resyncBinTried bool

// resyncBin builds cmd/thor's test binary (hook verif_hooks_crashlog_test.go) once per run.
func resyncBin(ctx *hx.Ctx) *crashsim.ResyncBin {
	if !resyncBinTried {
		resyncBinTried = true
		dir := filepath.Join("/verif", "out", "C13")
		if ctx.Out != "" {
			dir = filepath.Dir(ctx.Out)
		} else if v := os.Getenv("VERIF_DIR"); v != "" {
			dir = filepath.Join(v, "out", "C13")
		}
		rb := crashsim.BuildResyncBin(dir)
		if rb.BuildErr != "" {
			ctx.Violation("resync-hook-build", "cmd/thor's test binary with the crash-log hook does not build on this tree (`go test -c -tags verif ./cmd/thor`): "+rb.BuildErr+
				"; the start-up re-sync (theorem resync_after_log_commit) is no longer tied to the code", map[string]any{"how": "go test -c -tags verif ./cmd/thor"}, false)
			return nil
		}
		theResyncBin = rb
	}
	return theResyncBin
}

func kindsOfRendered(s string) string {
	var out []string
	for _, b := range strings.Split(s, " | ") {
		seen := map[string]bool{}
		var ks []string
		for _, op := range strings.Fields(b) {
			k := op[1:]
			if i := strings.IndexAny(k, ":="); i >= 0 {
				k = k[:i]
			}
			if !seen[k] {
				seen[k] = true
				ks = append(ks, k)
			}
		}
		out = append(out, strings.Join(ks, "+"))
	}
	return strings.Join(out, " ")
}

func short(s string) string {
	if len(s) > 14 {
		return s[:14]
	}
	return s
}

func loadReplay(path string) (*crashsim.Scenario, error) {
	b, err := os.ReadFile(path)
	if err != nil {
		return nil, err
	}
	var doc struct {
		Replay   *replayDoc         `json:"replay"`
		Scenario *crashsim.Scenario `json:"scenario"`
	}
	if err := json.Unmarshal(b, &doc); err != nil {
		return nil, err
	}
	if doc.Replay != nil && doc.Replay.Scenario != nil {
		return doc.Replay.Scenario, nil
	}
	if doc.Scenario != nil {
		return doc.Scenario, nil
	}
	return nil, fmt.Errorf("no scenario in %s", path)
}

func main() {
	ctx := hx.Init("C13")
	worldOf := func(scn *crashsim.Scenario) *crashsim.World {
		cfg := crashsim.Config{N: scn.N, L: scn.L}
		if cfg.N == 0 || cfg.L == 0 {
			cfg = crashsim.Config{N: 3, L: 4}
		}
		return crashsim.TheWorld(cfg)
	}
	if ctx.Replay != "" {
		scn, err := loadReplay(ctx.Replay)
		if err != nil {
			hx.Fatal("replay: %v", err)
		}
		runScenario(ctx, worldOf(scn), scn, "replay")
	} else {
		if dir := os.Getenv("VERIF_CORPUS"); dir != "" {
			files, _ := filepath.Glob(filepath.Join(dir, "*.json"))
			sort.Strings(files)
			for _, f := range files {
				if scn, err := loadReplay(f); err == nil {
					runScenario(ctx, worldOf(scn), scn, "corpus:"+filepath.Base(f))
				}
			}
		}
		rnd := hx.NewRand(ctx.Seed)
		chains := ctx.Scale(12, 120)
		for i := 0; i < chains; i++ {
			// epoch lengths 2..8, 3..7 validators; the first four chains fix the corners
			cfg := crashsim.Config{L: uint32(rnd.Range(2, 8)), N: rnd.Range(3, 7)}
			switch i {
			case 0:
				cfg = crashsim.Config{L: 4, N: 3}
			case 1:
				cfg = crashsim.Config{L: 2, N: 4}
			case 2:
				cfg = crashsim.Config{L: 8, N: 7}
			case 3:
				cfg = crashsim.Config{L: 3, N: 5}
			}
			mainLen := min(rnd.Range(4*int(cfg.L), 6*int(cfg.L)), 34)
			scn := crashsim.Gen(rnd.Fork(uint64(i)), cfg, mainLen)
			ctx.Cov.Count(fmt.Sprintf("config:L=%d,N=%d", cfg.L, cfg.N))
			runScenario(ctx, crashsim.TheWorld(cfg), scn, fmt.Sprintf("seed %d chain %d", ctx.Seed, i))
		}
	}
	ctx.Finish("distinct scenarios (canonical JSON); non-trivial = at least 8 stored blocks, 2 store points and a fork or a block with transactions; every cut position of every scenario is evaluated",
		[]string{
			"LevelDB applies a batch atomically and durably in order (torn batches / fsync are not modelled)",
			"trie premise wf_blk: older-version nodes a new root reaches were reachable from the parent's root (read sets of the real full walk are used as data)",
			"vote tally outcome of a round (justified / committed) is data computed by the real engine (C04's model)",
			"log db: SQLite transaction atomicity/durability assumed; the restart here runs without syncLogDB (package main; tied to its model by the C15 harness)",
		})
}
