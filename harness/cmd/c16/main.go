// c16 — correspondence driver for property C16 (staked VET is fully accounted for and withdrawable exactly once).
// All the work is in internal/stakersim (shared with C17): random operation histories are applied to the real
// builtin/staker on a real state, replayed by the extracted Coq model (oracle/c16), every observable is diffed after
// every operation, and the C16 predicates (counter sums, custody ledger, withdrawal gating) are evaluated on the real values.
package main

import "verif/harness/internal/stakersim"

func main() { stakersim.Main("C16") }
