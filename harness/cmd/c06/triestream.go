package main

// Trie stream: several live handles on one node database.
//
// A case runs Update/Get/Commit on a set of trie.Trie handles; new handles are forked from a live one through the public
// trie.FromRootNode(t.RootNode(), db) (what muxdb.Trie.Copy and the root-node cache do: the handles share nodes in memory).
// After EVERY operation ALL handles are re-read (every key of the universe) and compared with their own plain map; at the
// end every handle is hashed and iterated, and every committed (hash, version) is re-opened from the node database with a
// fresh handle and must iterate exactly the content it had when committed and hash to its root by the reference hasher.
// The same operations go to the extracted trie model (per handle a value; fork = copy).

import (
	"encoding/hex"
	"encoding/json"
	"fmt"
	"sort"
	"strings"

	"github.com/vechain/thor/v2/thor"
	"github.com/vechain/thor/v2/trie"

	"verif/harness/internal/hx"
	"verif/harness/internal/triesim"
)

type TrieOp struct {
	Kind string `json:"k"`           // u g c(commit) f(fork handle H into a new handle)
	H    int    `json:"h,omitempty"` // handle
	Key  string `json:"key,omitempty"`
	Val  string `json:"v,omitempty"`
	Meta string `json:"m,omitempty"`
}
type TrieCase struct {
	Keys []string `json:"keys"` // the universe (re-read on every handle after every op)
	Ops  []TrieOp `json:"ops"`
	TTL  uint16   `json:"ttl"`
}

type trieObs struct {
	gets    []string
	leaves  [][]string // per handle
	paths   [][]string
	roots   []thor.Bytes32
	failure string // implementation-only predicate that failed
	err     string
}

type content map[string][2]string

func (m content) clone() content {
	o := content{}
	for k, v := range m {
		o[k] = v
	}
	return o
}
func (m content) refRoot() thor.Bytes32 {
	var kvs []triesim.KV
	for k, v := range m {
		kvs = append(kvs, triesim.KV{Key: triesim.Nibbles(unhex(k)), Val: unhex(v[0])})
	}
	return triesim.RefRoot(kvs)
}
func (m content) leafStrings() []string {
	var out []string
	for k, v := range m {
		out = append(out, triesim.PathString(triesim.Nibbles(unhex(k)))+"t="+v[0]+"~"+v[1])
	}
	sort.Strings(out)
	return out
}

func showVM(v, m []byte) string {
	if len(v) == 0 {
		return "-"
	}
	return hex.EncodeToString(v) + "~" + hex.EncodeToString(m)
}

type committedTrie struct {
	root trie.Root
	want content
}

func runTrieReal(c *TrieCase) (o trieObs) {
	defer func() {
		if r := recover(); r != nil {
			o.err = fmt.Sprint("panic: ", r)
		}
	}()
	db := triesim.NewMemDB()
	first := trie.New(trie.Root{}, db)
	first.SetCacheTTL(c.TTL)
	handles := []*trie.Trie{first}
	shadows := []content{{}}
	var commits []committedTrie
	ver := uint32(0)
	fail := func(f string) {
		if o.failure == "" {
			o.failure = f
		}
	}
	rereadAll := func(opIdx int) {
		for hi, h := range handles {
			for _, k := range c.Keys {
				v, m, err := h.Get(unhex(k))
				if err != nil {
					fail(fmt.Sprintf("trie read != map: handle %d fails on %s after op %d: %v", hi, k, opIdx, err))
					return
				}
				want := "-"
				if x, ok := shadows[hi][k]; ok {
					want = x[0] + "~" + x[1]
				}
				if got := showVM(v, m); got != want {
					fail(fmt.Sprintf("trie read != map: handle %d reads %s = %s after op %d, its map says %s", hi, k, got, opIdx, want))
					return
				}
			}
		}
	}
	for i, op := range c.Ops {
		if op.H >= len(handles) {
			continue
		}
		h := handles[op.H]
		switch op.Kind {
		case "u":
			if err := h.Update(unhex(op.Key), unhex(op.Val), unhex(op.Meta)); err != nil {
				o.err = err.Error()
				return
			}
			if op.Val == "" {
				delete(shadows[op.H], op.Key)
			} else {
				shadows[op.H][op.Key] = [2]string{op.Val, op.Meta}
			}
		case "g":
			v, m, err := h.Get(unhex(op.Key))
			if err != nil {
				o.err = err.Error()
				return
			}
			o.gets = append(o.gets, showVM(v, m))
		case "c":
			ver++
			v := trie.Version{Major: ver}
			if err := h.Commit(db, v, false); err != nil {
				o.err = err.Error()
				return
			}
			commits = append(commits, committedTrie{root: trie.Root{Hash: h.Hash(), Ver: v}, want: shadows[op.H].clone()})
		case "f":
			nh := trie.FromRootNode(h.RootNode(), db)
			nh.SetCacheTTL(c.TTL)
			handles = append(handles, nh)
			shadows = append(shadows, shadows[op.H].clone())
		}
		if o.failure == "" {
			rereadAll(i)
		}
	}
	for hi, h := range handles {
		root := h.Hash()
		o.roots = append(o.roots, root)
		paths, leaves, err := triesim.Shape(h.NodeIterator(nil, trie.Version{}))
		if err != nil {
			o.err = err.Error()
			return
		}
		o.paths = append(o.paths, paths)
		var ls []string
		for _, l := range leaves {
			ls = append(ls, l.Key+"="+hex.EncodeToString(l.Val)+"~"+hex.EncodeToString(l.Meta))
		}
		o.leaves = append(o.leaves, ls)
		if r := shadows[hi].refRoot(); r != root {
			fail(fmt.Sprintf("trie root != reference root of content: handle %d hashes to %x, its content to %x", hi, root[:], r[:]))
		}
		if strings.Join(ls, " ") != strings.Join(shadows[hi].leafStrings(), " ") {
			fail(fmt.Sprintf("trie iterates other leaves than its content: handle %d", hi))
		}
	}
	// every committed version, re-opened from the node database by a fresh handle
	for ci, cm := range commits {
		if len(cm.want) == 0 {
			continue
		}
		fresh := trie.New(cm.root, db)
		_, leaves, err := triesim.Shape(fresh.NodeIterator(nil, trie.Version{}))
		if err != nil {
			fail(fmt.Sprintf("committed trie unreadable: commit %d (v%d): %v", ci, cm.root.Ver.Major, err))
			continue
		}
		var ls []string
		for _, l := range leaves {
			ls = append(ls, l.Key+"="+hex.EncodeToString(l.Val)+"~"+hex.EncodeToString(l.Meta))
		}
		if strings.Join(ls, " ") != strings.Join(cm.want.leafStrings(), " ") {
			fail(fmt.Sprintf("committed trie changed: commit %d (v%d) re-opened from the database iterates other leaves than it had when committed", ci, cm.root.Ver.Major))
		}
		if r := triesim.LeavesRoot(leaves); r != cm.root.Hash {
			fail(fmt.Sprintf("committed root != reference root of the leaves read back: commit %d (v%d) %x vs %x", ci, cm.root.Ver.Major, cm.root.Hash[:], r[:]))
		}
	}
	return
}

func trieLine(c *TrieCase) string {
	var b strings.Builder
	b.WriteString("T |")
	nh, cur := 1, 0
	for _, op := range c.Ops {
		if op.H >= nh {
			continue
		}
		if op.Kind != "c" && op.H != cur {
			fmt.Fprintf(&b, " h%d", op.H)
			cur = op.H
		}
		switch op.Kind {
		case "u":
			if op.Val == "" {
				fmt.Fprintf(&b, " u%s=", op.Key)
			} else {
				fmt.Fprintf(&b, " u%s=%s~%s", op.Key, op.Val, op.Meta)
			}
		case "g":
			fmt.Fprintf(&b, " g%s", op.Key)
		case "f":
			b.WriteString(" f")
			nh++
		}
	}
	return b.String()
}

// answer: gets | L .. | P .. | L .. | P ..   (one L/P pair per handle)
func parseTrieAnswer(ans string) (gets []string, leaves, paths [][]string, err error) {
	parts := strings.Split(ans, "|")
	if len(parts) < 3 || len(parts)%2 != 1 {
		return nil, nil, nil, fmt.Errorf("unparsable: %.200s", ans)
	}
	gets = strings.Fields(parts[0])
	for i := 1; i < len(parts); i += 2 {
		leaves = append(leaves, strings.Fields(parts[i])[1:])
		paths = append(paths, strings.Fields(parts[i+1])[1:])
	}
	return
}

func refRootOfLeafStrings(leaves []string) thor.Bytes32 {
	var kvs []triesim.KV
	for _, l := range leaves {
		i := strings.IndexByte(l, '=')
		vm := strings.SplitN(l[i+1:], "~", 2)
		kvs = append(kvs, triesim.KV{Key: triesim.ParsePath(l[:i]), Val: unhex(vm[0])})
	}
	return triesim.RefRoot(kvs)
}

func trieProperty(c *TrieCase, o *trieObs) string {
	if o.err != "" {
		return "error: " + o.err
	}
	return o.failure
}

func trieDisagreement(c *TrieCase, o *trieObs, ans string) string {
	if o.err != "" {
		return "real trie failed: " + o.err
	}
	gets, leaves, paths, err := parseTrieAnswer(ans)
	if err != nil {
		return err.Error()
	}
	if strings.Join(gets, " ") != strings.Join(o.gets, " ") {
		return "gets differ"
	}
	if len(leaves) != len(o.leaves) {
		return fmt.Sprintf("model has %d handles, run has %d", len(leaves), len(o.leaves))
	}
	for h := range leaves {
		if strings.Join(leaves[h], " ") != strings.Join(o.leaves[h], " ") {
			return fmt.Sprintf("leaves differ on handle %d", h)
		}
		if strings.Join(paths[h], " ") != strings.Join(o.paths[h], " ") {
			return fmt.Sprintf("shape differs on handle %d: real %v model %v", h, o.paths[h], paths[h])
		}
		if r := refRootOfLeafStrings(leaves[h]); r != o.roots[h] {
			return fmt.Sprintf("root %x of handle %d != reference root of model content %x", o.roots[h][:], h, r[:])
		}
	}
	return ""
}

func genTrieCase(r *hx.Rand) *TrieCase {
	c := &TrieCase{TTL: uint16([]int{0, 0, 1, 3, 32}[r.Intn(5)])}
	// key universe: short keys with shared prefixes, prefix-related keys, hashed keys, 3-byte keys, or
	// 32-byte keys that share a long prefix pairwise (extension over a two-child branch, different tails)
	mode := r.Intn(5)
	nkeys := r.Range(2, 14)
	if r.Chance(1, 6) {
		nkeys = r.Range(30, 80)
	}
	seen := map[string]bool{}
	for tries := 0; len(c.Keys) < nkeys && tries < 1000; tries++ {
		var k []byte
		switch mode {
		case 0: // 2-byte keys over a tiny alphabet: many splits and merges
			k = []byte{byte(r.Intn(3)) << 4, byte(r.Intn(4))<<4 | byte(r.Intn(2))}
		case 1: // variable length, prefix related
			k = []byte{0x12, 0x34, 0x56, 0x78}[:r.Range(1, 4)]
			if r.Bool() {
				k = append(append([]byte(nil), k...), byte(r.Intn(3)))
			}
		case 2: // hashed keys
			k = thor.Blake2b([]byte{byte(r.Intn(200))}).Bytes()
		case 3: // 3-byte keys, medium alphabet
			k = []byte{byte(r.Intn(2)), byte(r.Intn(16)) << 4, byte(r.Intn(256))}
		default: // long keys: few distinct heads, the tail repeats a per-key byte
			t := byte(r.Intn(256))
			k = make([]byte, r.Range(4, 32))
			for i := range k {
				k[i] = t
			}
			k[0] = byte(0x11 * r.Range(1, 2))
			k[1] = byte(r.Intn(4)) + 0x10
		}
		if h := hex.EncodeToString(k); !seen[h] {
			seen[h] = true
			c.Keys = append(c.Keys, h)
		}
	}
	keys := c.Keys
	n := r.Range(4, 60)
	if len(keys) > 20 {
		n = r.Range(60, 200)
	}
	nh := 1
	for i := 0; i < n; i++ {
		k := keys[r.Intn(len(keys))]
		h := r.Intn(nh)
		switch x := r.Intn(20); {
		case x < 9:
			vl := []int{1, 2, 5, 31, 32, 33, 40}[r.Intn(7)]
			op := TrieOp{Kind: "u", H: h, Key: k, Val: hex.EncodeToString(r.Bytes(vl))}
			if r.Bool() {
				op.Meta = hex.EncodeToString(r.Bytes(r.Range(1, 4)))
			}
			c.Ops = append(c.Ops, op)
		case x < 15:
			c.Ops = append(c.Ops, TrieOp{Kind: "u", H: h, Key: k})
		case x < 16:
			c.Ops = append(c.Ops, TrieOp{Kind: "g", H: h, Key: k})
		case x < 18:
			c.Ops = append(c.Ops, TrieOp{Kind: "c", H: h})
		default:
			if nh < 5 {
				c.Ops = append(c.Ops, TrieOp{Kind: "f", H: h})
				nh++
			}
		}
	}
	for h := 0; h < nh; h++ {
		for _, k := range keys {
			c.Ops = append(c.Ops, TrieOp{Kind: "g", H: h, Key: k})
		}
	}
	return c
}

func runTrieCases(ctx *hx.Ctx, cases []*TrieCase) {
	lines := make([]string, len(cases))
	obs := make([]trieObs, len(cases))
	for i, c := range cases {
		obs[i] = runTrieReal(c)
		lines[i] = trieLine(c)
	}
	answers, err := hx.AskAll(ctx.Oracle, lines)
	if err != nil {
		hx.Fatal("oracle: %v", err)
	}
	for i, c := range cases {
		nu, nd, nc, nf := 0, 0, 0, 0
		for _, op := range c.Ops {
			switch {
			case op.Kind == "u" && op.Val != "":
				nu++
			case op.Kind == "u":
				nd++
			case op.Kind == "c":
				nc++
			case op.Kind == "f":
				nf++
			}
		}
		cb, _ := json.Marshal(c)
		nodes := 0
		if len(obs[i].paths) > 0 {
			nodes = len(obs[i].paths[0])
		}
		ctx.Cov.Case("T"+string(cb), nu >= 3 && nd >= 1 && nodes >= 3, map[string]any{"stream": "trie", "ops": len(c.Ops), "handles": nf + 1})
		ctx.Cov.Count("trie.cases")
		ctx.Cov.Bucket("trie.ops", len(c.Ops))
		ctx.Cov.Bucket("trie.final_nodes", nodes)
		ctx.Cov.Add("trie.commits", nc)
		ctx.Cov.Add("trie.forked_handles", nf)
		if f := trieProperty(c, &obs[i]); f != "" {
			if !once("trie:" + classOf(f)) {
				continue
			}
			sc := shrinkTrie(c, func(x *TrieCase) bool { o := runTrieReal(x); return trieProperty(x, &o) != "" })
			o := runTrieReal(sc)
			ctx.Violation("trie:"+classOf(trieProperty(sc, &o)), trieProperty(sc, &o), map[string]any{"stream": "trie", "case": sc}, true)
			continue
		}
		if d := trieDisagreement(c, &obs[i], answers[i]); d != "" {
			if !once("correspondence:trie:" + classOf(d)) {
				continue
			}
			sc := shrinkTrie(c, func(x *TrieCase) bool {
				o := runTrieReal(x)
				a, err := hx.AskAll(ctx.Oracle, []string{trieLine(x)})
				return err == nil && trieDisagreement(x, &o, a[0]) != ""
			})
			o := runTrieReal(sc)
			a, _ := hx.AskAll(ctx.Oracle, []string{trieLine(sc)})
			ctx.Violation("correspondence:trie:"+classOf(d), "trie model and trie.Trie disagree (theorems trie_refines_map / trie_canonical no longer describe the code): "+
				trieDisagreement(sc, &o, a[0]), map[string]any{"stream": "trie", "case": sc}, false)
		}
	}
}

func shrinkTrie(c *TrieCase, bad func(*TrieCase) bool) *TrieCase {
	cur := c
	budget := 400
	for chunk := len(cur.Ops) / 2; chunk >= 1 && budget > 0; {
		shrunk := false
		for i := 0; i+chunk <= len(cur.Ops) && budget > 0; i++ {
			budget--
			x := &TrieCase{TTL: cur.TTL, Keys: cur.Keys, Ops: append(append([]TrieOp(nil), cur.Ops[:i]...), cur.Ops[i+chunk:]...)}
			if bad(x) {
				cur, shrunk = x, true
				i--
			}
		}
		if !shrunk || chunk > len(cur.Ops) {
			chunk /= 2
		}
	}
	return cur
}
