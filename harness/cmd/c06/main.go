// C06 correspondence driver: world state = Merkle commitment of its logical content.
//
// Two streams, both against the real packages of /repo:
//   - trie stream: random Update/Get sequences on trie.Trie (with Commit to a node db at random points so that
//     ref nodes are resolved on later reads), compared with the extracted trie model: every Get, the final
//     leaves, the node paths (NodeIterator) and Hash() against the independent reference hasher;
//   - state stream: operation histories on state.State over muxdb (NewMem, and mem LevelDB with the real caches),
//     interleaved with Stage/Commit/re-open at successive versions and conflict numbers; after every op all
//     getters are compared with the extracted state model, after every commit the root is compared with the
//     reference hasher applied to the model's normalised content and the committed tries' shapes with the model's.
//
// Property predicates evaluated on the implementation alone (propertyCheck): reads vs a plain map of the same
// operations, revert restores the sweep taken at the checkpoint, committed root/storage roots vs the reference
// root of the leaves read back, re-opened reads vs reads before commit (for existing accounts).
package main

import (
	"bytes"
	"encoding/binary"
	"encoding/hex"
	"encoding/json"
	"fmt"
	"math/big"
	"os"
	"path/filepath"
	"sort"
	"strconv"
	"strings"

	"github.com/ethereum/go-ethereum/rlp"

	"github.com/vechain/thor/v2/muxdb"
	"github.com/vechain/thor/v2/state"
	"github.com/vechain/thor/v2/thor"
	"github.com/vechain/thor/v2/trie"

	"verif/harness/internal/hx"
	"verif/harness/internal/triesim"
)

func hexOrDash(b []byte) string {
	if len(b) == 0 {
		return "-"
	}
	return hex.EncodeToString(b)
}
func unhex(s string) []byte {
	if s == "-" || s == "" {
		return nil
	}
	b, err := hex.DecodeString(s)
	if err != nil {
		panic("bad hex " + s)
	}
	return b
}

var reported = map[string]bool{}

// once reports whether this class has not been reported yet in this run (shrinking is only worth doing once per class)
func once(class string) bool {
	if reported[class] {
		return false
	}
	reported[class] = true
	return true
}

func classOf(s string) string {
	if i := strings.IndexAny(s, ":0123456789"); i > 0 {
		s = s[:i]
	}
	return strings.TrimSpace(s)
}

// ================================================================ state stream

type Op struct {
	K      string `json:"k"`           // bal eng mas code sto raw del cp rev commit open obs
	A      int    `json:"a,omitempty"` // address index
	S      int    `json:"s,omitempty"` // storage key index
	V      string `json:"v,omitempty"` // hex payload (number / bytes)
	T      uint64 `json:"t,omitempty"` // block time (eng)
	N      int    `json:"n,omitempty"` // rev target / open index
	Major  uint32 `json:"major,omitempty"`
	Minor  uint32 `json:"minor,omitempty"`
	Reopen bool   `json:"reopen,omitempty"`
}

type Case struct {
	Addrs    []string `json:"addrs"` // 20-byte hex
	Keys     []string `json:"keys"`  // 32-byte hex
	Pairs    [][2]int `json:"pairs"`
	QBT      uint64   `json:"qbt"`
	QStop    uint64   `json:"qstop"`
	Cached   bool     `json:"cached"`
	CacheTTL uint16   `json:"cache_ttl"`
	Ops      []Op     `json:"ops"`
}

func (c *Case) addr(i int) thor.Address { return thor.BytesToAddress(unhex(c.Addrs[i])) }
func (c *Case) key(i int) thor.Bytes32  { return thor.BytesToBytes32(unhex(c.Keys[i])) }

func bigHex(x *big.Int) string { return hx.HexN(x.Bytes()) }

type commitObs struct {
	root     thor.Bytes32
	accPaths []string
	accts    []acctObs
	err      string
}
type acctObs struct {
	key     string // nibble path with t
	acc     state.Account
	meta    *state.AccountMetadata
	sLeaves []triesim.Leaf
	sPaths  []string
}

type stepObs struct {
	text   string     // what the oracle should print for this op
	commit *commitObs // for commit ops
}

func sweep(c *Case, st *state.State) (string, error) {
	var b strings.Builder
	for i := range c.Addrs {
		a := c.addr(i)
		bal, err := st.GetBalance(a)
		if err != nil {
			return "", err
		}
		eng, err := st.GetEnergy(a, c.QBT, c.QStop)
		if err != nil {
			return "", err
		}
		mas, err := st.GetMaster(a)
		if err != nil {
			return "", err
		}
		ch, err := st.GetCodeHash(a)
		if err != nil {
			return "", err
		}
		code, err := st.GetCode(a)
		if err != nil {
			return "", err
		}
		ex, err := st.Exists(a)
		if err != nil {
			return "", err
		}
		ms, chs := "-", "-"
		if !mas.IsZero() {
			ms = hex.EncodeToString(mas[:])
		}
		if !ch.IsZero() {
			chs = hex.EncodeToString(ch[:])
		}
		if i > 0 {
			b.WriteByte(' ')
		}
		fmt.Fprintf(&b, "%s,%s,%s,%s,%s,%s", bigHex(bal), bigHex(eng), ms, chs, hexOrDash(code), hx.B(ex))
	}
	b.WriteString(" / ")
	for i, p := range c.Pairs {
		raw, err := st.GetRawStorage(c.addr(p[0]), c.key(p[1]))
		if err != nil {
			return "", err
		}
		// GetStorage must be the decoding of the raw value
		v, err := st.GetStorage(c.addr(p[0]), c.key(p[1]))
		if err != nil {
			return "", fmt.Errorf("GetStorage: %v", err)
		}
		if want := decodeStorage(raw); v != want {
			return "", fmt.Errorf("GetStorage %x is not the decoding %x of raw %x", v, want, raw)
		}
		if i > 0 {
			b.WriteByte(',')
		}
		b.WriteString(hexOrDash(raw))
	}
	return b.String(), nil
}

// what GetStorage must return for a raw value (state.go GetStorage contract)
func decodeStorage(raw []byte) thor.Bytes32 {
	if len(raw) == 0 {
		return thor.Bytes32{}
	}
	if raw[0] >= 0xc0 {
		return thor.Blake2b(raw)
	}
	if raw[0] < 0x80 {
		return thor.BytesToBytes32(raw[:1])
	}
	return thor.BytesToBytes32(raw[1:]) // short strings only (<= 32 bytes)
}

// newDB returns the database of a case, a function giving a fresh handle on the same data (a restart: empty caches)
// and a function that releases the underlying in-memory LevelDB (every case must call it: goleveldb keeps goroutines
// and buffers per open instance).
func newDB(c *Case) (*muxdb.MuxDB, func() *muxdb.MuxDB, func()) {
	if c.Cached {
		eng := triesim.MemEngine()
		opts := &muxdb.Options{TrieNodeCacheSizeMB: 1, TrieCachedNodeTTL: c.CacheTTL, TrieHistPartitionFactor: 1, TrieDedupedPartitionFactor: 1}
		return muxdb.NewWithEngine(eng, opts), func() *muxdb.MuxDB { return muxdb.NewWithEngine(eng, opts) }, func() { eng.Close() }
	}
	db := muxdb.NewMem()
	return db, func() *muxdb.MuxDB { return db }, func() { db.Close() } // NewMem has no caches
}

func readCommitted(db *muxdb.MuxDB, root trie.Root) *commitObs {
	co := &commitObs{root: root.Hash}
	t := db.NewTrie(muxdb.AccountTrieName, root)
	paths, leaves, err := triesim.Shape(t.NodeIterator(nil, 0))
	if err != nil {
		co.err = "iterate accounts: " + err.Error()
		return co
	}
	co.accPaths = paths
	for _, l := range leaves {
		ao := acctObs{key: l.Key}
		if err := rlp.DecodeBytes(l.Val, &ao.acc); err != nil {
			co.err = "decode account: " + err.Error()
			return co
		}
		if len(l.Meta) > 0 {
			ao.meta = &state.AccountMetadata{}
			if err := rlp.DecodeBytes(l.Meta, ao.meta); err != nil {
				co.err = "decode meta: " + err.Error()
				return co
			}
		}
		if len(ao.acc.StorageRoot) > 0 {
			if ao.meta == nil {
				co.err = "account with storage root has no metadata"
				return co
			}
			st := db.NewTrie(state.StorageTrieName(ao.meta.StorageID), trie.Root{
				Hash: thor.BytesToBytes32(ao.acc.StorageRoot),
				Ver:  trie.Version{Major: ao.meta.StorageMajorVer, Minor: ao.meta.StorageMinorVer}})
			sp, sl, err := triesim.Shape(st.NodeIterator(nil, 0))
			if err != nil {
				co.err = "iterate storage: " + err.Error()
				return co
			}
			ao.sPaths, ao.sLeaves = sp, sl
		}
		co.accts = append(co.accts, ao)
	}
	return co
}

// text the oracle prints for a commit, rebuilt from the real committed tries
func (co *commitObs) text() string {
	var parts []string
	for _, a := range co.accts {
		m := "M-"
		if a.meta != nil {
			m = fmt.Sprintf("M%x/%x/%x", a.meta.StorageID, a.meta.StorageMajorVer, a.meta.StorageMinorVer)
		}
		s := "S-"
		if len(a.acc.StorageRoot) > 0 {
			var ls []string
			for _, l := range a.sLeaves {
				ls = append(ls, l.Key+"="+hexOrDash(l.Val)+"~"+hexOrDash(l.Meta))
			}
			s = "S[" + strings.Join(ls, ",") + "]P[" + strings.Join(a.sPaths, ",") + "]"
		}
		parts = append(parts, fmt.Sprintf("%s:%s,%s,%x,%s,%s,%s,%s", a.key, bigHex(a.acc.Balance), bigHex(a.acc.Energy), a.acc.BlockTime,
			hexOrDash(a.acc.Master), hexOrDash(a.acc.CodeHash), m, s))
	}
	return "C " + strings.Join(parts, " ") + " @ " + strings.Join(co.accPaths, ",")
}

// the committed tries, hashed by the reference hasher from the leaves read back, must give the committed roots
func (co *commitObs) property() string {
	if co.err != "" {
		return "committed state unreadable: " + co.err
	}
	var kvs []triesim.KV
	for _, a := range co.accts {
		if len(a.acc.StorageRoot) > 0 {
			if r := triesim.LeavesRoot(a.sLeaves); !bytes.Equal(r[:], a.acc.StorageRoot) {
				return fmt.Sprintf("storage root != reference root of content: account %s has %x, content hashes to %x", a.key, a.acc.StorageRoot, r[:])
			}
		}
		if a.acc.IsEmpty() {
			return "empty account stored in the trie: " + a.key
		}
		v, _ := rlp.EncodeToBytes(&a.acc)
		kvs = append(kvs, triesim.KV{Key: triesim.ParsePath(a.key), Val: v})
	}
	if r := triesim.RefRoot(kvs); r != co.root {
		return fmt.Sprintf("state root != reference root of content: %x vs %x", co.root[:], r[:])
	}
	return ""
}

// plain-map shadow of the operations (the specification side of "reading returns what a plain map would")
type shadowAcc struct {
	bal, eng string
	bt       uint64
	balZero  bool
	engZero  bool
	master   string
	code     string
	storage  map[int]string
}
type shadow map[int]*shadowAcc

func (s shadow) clone() shadow {
	o := shadow{}
	for k, v := range s {
		c := *v
		c.storage = map[int]string{}
		for a, b := range v.storage {
			c.storage[a] = b
		}
		o[k] = &c
	}
	return o
}

type realRun struct {
	steps   []stepObs
	failure string // property failure observed on the implementation alone
	err     string
}

func runReal(c *Case) (rr realRun) {
	defer func() {
		if r := recover(); r != nil {
			rr.err = fmt.Sprint("panic: ", r)
		}
	}()
	db, freshDB, closeDB := newDB(c)
	defer closeDB()
	stater := state.NewStater(db)
	roots := []trie.Root{{}}
	st := stater.NewState(roots[0])
	cpSweeps := map[int]string{} // revision -> sweep at checkpoint time
	depth := 1
	fail := func(f string) {
		if rr.failure == "" {
			rr.failure = f
		}
	}
	// further live handles on committed roots (opened when the main handle was opened there, i.e. through the same
	// root-node cache): they must keep reading the same whatever other handles stage or commit afterwards
	type liveReader struct {
		st   *state.State
		want string
		root int
	}
	var readers []liveReader
	small := len(c.Addrs) <= 4
	checkReaders := func(when string) {
		for _, rd := range readers {
			sw, err := sweep(c, rd.st)
			if err != nil {
				fail(fmt.Sprintf("committed root changed under a live reader: a state opened on root #%d fails after %s: %v", rd.root, when, err))
			} else if sw != rd.want {
				fail(fmt.Sprintf("committed root changed under a live reader: a state opened earlier on root #%d reads differently after %s", rd.root, when))
			}
		}
	}
	newReader := func(idx int) {
		rd := liveReader{st: stater.NewState(roots[idx]), root: idx}
		rd.want, _ = sweep(c, rd.st)
		readers = append(readers, rd)
		if len(readers) > 3 {
			readers = readers[1:]
		}
	}
	newReader(0)
	// what every committed root read right after its commit; re-read through a fresh database handle at the end
	var committedTexts []string
	finalCheck := func() {
		fresh := freshDB()
		for i, root := range roots[1:] {
			co := triesim.ReadCommitted(fresh, root)
			if co.Err != "" {
				fail(fmt.Sprintf("committed root unreadable after restart: root #%d (v%d.%d): %s", i+1, root.Ver.Major, root.Ver.Minor, co.Err))
				continue
			}
			if f := co.Property(); f != "" {
				fail(fmt.Sprintf("after restart root #%d (v%d.%d): %s", i+1, root.Ver.Major, root.Ver.Minor, f))
			}
			if co.Text() != strings.TrimSpace(committedTexts[i]) {
				fail(fmt.Sprintf("committed root changed: root #%d (v%d.%d) read through a fresh database handle differs from what it read right after its commit", i+1, root.Ver.Major, root.Ver.Minor))
			}
		}
	}
	// addresses whose storage was written through the current handle since its last barrier (Delete), by revision:
	// at Stage such an account, if not empty, must get an explicit (possibly empty) storage root
	touched := map[int]bool{}
	touchedAt := map[int]map[int]bool{}
	cloneSet := func(m map[int]bool) map[int]bool {
		o := map[int]bool{}
		for k := range m {
			o[k] = true
		}
		return o
	}
	for _, op := range c.Ops {
		so := stepObs{text: "."}
		switch op.K {
		case "bal":
			v, _ := new(big.Int).SetString(op.V, 16)
			if err := st.SetBalance(c.addr(op.A), v); err != nil {
				rr.err = err.Error()
				return
			}
		case "eng":
			v, _ := new(big.Int).SetString(op.V, 16)
			if err := st.SetEnergy(c.addr(op.A), v, op.T); err != nil {
				rr.err = err.Error()
				return
			}
		case "mas":
			if err := st.SetMaster(c.addr(op.A), thor.BytesToAddress(unhex(op.V))); err != nil {
				rr.err = err.Error()
				return
			}
		case "code":
			if err := st.SetCode(c.addr(op.A), unhex(op.V)); err != nil {
				rr.err = err.Error()
				return
			}
		case "sto":
			st.SetStorage(c.addr(op.A), c.key(op.S), thor.BytesToBytes32(unhex(op.V)))
			touched[op.A] = true
		case "raw":
			st.SetRawStorage(c.addr(op.A), c.key(op.S), unhex(op.V))
			touched[op.A] = true
		case "del":
			st.Delete(c.addr(op.A))
			delete(touched, op.A)
		case "cp":
			rev := st.NewCheckpoint()
			touchedAt[rev] = cloneSet(touched)
			so.text = "cp=" + strconv.Itoa(rev)
			sw, err := sweep(c, st)
			if err != nil {
				rr.err = err.Error()
				return
			}
			cpSweeps[rev] = sw
			depth++
		case "rev":
			st.RevertTo(op.N)
			if op.N < depth {
				if snap, ok := touchedAt[op.N]; ok {
					touched = cloneSet(snap)
				}
				depth = op.N
				sw, err := sweep(c, st)
				if err != nil {
					rr.err = err.Error()
					return
				}
				if want, ok := cpSweeps[op.N]; ok && want != sw {
					fail(fmt.Sprintf("revert does not restore: after RevertTo(%d) reads differ from the reads at that checkpoint", op.N))
				}
				for r := range cpSweeps {
					if r > op.N {
						delete(cpSweeps, r)
					}
				}
			}
		case "commit":
			before, err := sweep(c, st)
			if err != nil {
				rr.err = err.Error()
				return
			}
			ver := trie.Version{Major: op.Major, Minor: op.Minor}
			stage, err := st.Stage(ver)
			if err != nil {
				rr.err = "stage: " + err.Error()
				return
			}
			h := stage.Hash()
			if _, err := stage.Commit(); err != nil {
				rr.err = "commit: " + err.Error()
				return
			}
			root := trie.Root{Hash: h, Ver: ver}
			roots = append(roots, root)
			co := readCommitted(db, root)
			so.commit = co
			so.text = co.text()
			if f := co.property(); f != "" {
				fail(f)
			}
			// an account whose storage was written (and not wiped by Delete since) keeps an explicit, possibly empty, storage root
			if co.err == "" {
				accFields := strings.Fields(strings.SplitN(before, " / ", 2)[0])
				for ai := range touched {
					f := strings.Split(accFields[ai], ",")
					if f[0] == "0" && f[1] == "0" && f[2] == "-" && f[3] == "-" {
						continue // empty at Stage: dropped with its storage
					}
					want := triesim.PathString(triesim.Nibbles(thor.Blake2b(unhex(c.Addrs[ai])).Bytes())) + "t"
					for _, a := range co.accts {
						if a.key == want && len(a.acc.StorageRoot) == 0 {
							fail(fmt.Sprintf("explicit storage root missing: account #%d is not empty and its storage was written before Stage, but the committed account has no storage root", ai))
						}
					}
				}
			}
			// re-opened reads = reads before commit for existing accounts, zero for the others
			ns := stater.NewState(root)
			after, err := sweep(c, ns)
			if err != nil {
				rr.err = "re-opened state: " + err.Error()
				return
			}
			if f := reopenProperty(c, before, after); f != "" {
				fail(f)
			}
			committedTexts = append(committedTexts, so.text)
			checkReaders("a commit through another handle")
			if op.Reopen {
				st = ns
				cpSweeps = map[int]string{}
				touched, touchedAt = map[int]bool{}, map[int]map[int]bool{}
				depth = 1
				newReader(len(roots) - 1)
			}
		case "stagedrop":
			// Stage without Commit: must be a pure computation (no effect on this state object or on committed roots)
			if _, err := st.Stage(trie.Version{Major: 4000000 + uint32(len(rr.steps))}); err != nil {
				rr.err = "stage (dropped): " + err.Error()
				return
			}
			checkReaders("a Stage (not committed) through another handle")
		case "open":
			st = stater.NewState(roots[op.N])
			cpSweeps = map[int]string{}
			touched, touchedAt = map[int]bool{}, map[int]map[int]bool{}
			depth = 1
			newReader(op.N)
		case "obs":
			sw, err := sweep(c, st)
			if err != nil {
				rr.err = err.Error()
				return
			}
			so.text = sw
			if small {
				checkReaders("reads through another handle")
			}
		}
		rr.steps = append(rr.steps, so)
	}
	finalCheck()
	return
}

// before/after are sweeps; an account that exists before commit reads identically after re-open; one that does
// not exist reads as the empty account with empty storage (state/account.go: empty accounts are deleted with their storage).
func reopenProperty(c *Case, before, after string) string {
	b := strings.SplitN(before, " / ", 2)
	a := strings.SplitN(after, " / ", 2)
	ba, aa := strings.Fields(b[0]), strings.Fields(a[0])
	bs, as := strings.Split(b[1], ","), strings.Split(a[1], ",")
	exists := make([]bool, len(ba))
	for i := range ba {
		f := strings.Split(ba[i], ",")
		// existence by the account's own fields (account.go IsEmpty: balance, energy, master, code hash)
		exists[i] = f[0] != "0" || f[1] != "0" || f[2] != "-" || f[3] != "-"
		if exists[i] != (f[5] == "1") && f[0] == "0" {
			return fmt.Sprintf("Exists disagrees with the account's fields: account #%d reads %s", i, ba[i])
		}
		if exists[i] && ba[i] != aa[i] {
			return fmt.Sprintf("re-opened read != committed read: account #%d read %s before commit and %s after re-open", i, ba[i], aa[i])
		}
		if !exists[i] && !strings.HasSuffix(aa[i], ",0") {
			return fmt.Sprintf("re-opened read != committed read: empty account #%d exists after re-open", i)
		}
	}
	for i, p := range c.Pairs {
		if len(c.Pairs) == 0 {
			break
		}
		if exists[p[0]] && bs[i] != as[i] {
			return fmt.Sprintf("re-opened read != committed read: storage %d.%d read %s before commit and %s after re-open", p[0], p[1], bs[i], as[i])
		}
		if !exists[p[0]] && as[i] != "-" {
			return fmt.Sprintf("re-opened read != committed read: storage of non-existent account %d.%d reads %s", p[0], p[1], as[i])
		}
	}
	return ""
}

// reads vs a plain map with the same operations (implementation-only check; commit/open reset the shadow from the sweep)
func shadowProperty(c *Case, rr *realRun) string {
	cur := shadow{}
	var stack []shadow
	get := func(i int) *shadowAcc {
		if a, ok := cur[i]; ok {
			return a
		}
		a := &shadowAcc{bal: "0", eng: "0", balZero: true, engZero: true, master: "-", code: "-", storage: map[int]string{}}
		cur[i] = a
		return a
	}
	valid := true // the shadow is only meaningful from an empty base (until the first commit/open)
	for i, op := range c.Ops {
		if i >= len(rr.steps) {
			break
		}
		switch op.K {
		case "bal":
			a := get(op.A)
			a.bal = strings.TrimLeft(op.V, "0")
			if a.bal == "" {
				a.bal = "0"
			}
		case "mas":
			get(op.A).master = op.V
			if strings.Trim(op.V, "0") == "" {
				get(op.A).master = "-"
			}
		case "code":
			get(op.A).code = op.V
			if op.V == "" {
				get(op.A).code = "-"
			}
		case "raw":
			get(op.A).storage[op.S] = hexOrDash(unhex(op.V))
		case "del":
			a := get(op.A)
			*a = shadowAcc{bal: "0", eng: "0", master: "-", code: "-", storage: map[int]string{}}
		case "eng", "sto":
			// energy growth and word encoding are not part of the plain-map shadow: stop tracking exactly these fields
			if op.K == "eng" {
				get(op.A).eng = "?"
			} else {
				get(op.A).storage[op.S] = "?"
			}
		case "cp":
			stack = append(stack, cur.clone())
		case "rev":
			if op.N >= 1 && op.N <= len(stack) {
				cur = stack[op.N-1]
				stack = stack[:op.N-1]
			}
		case "commit", "open":
			valid = false
		case "obs":
			if !valid {
				continue
			}
			parts := strings.SplitN(rr.steps[i].text, " / ", 2)
			accs := strings.Fields(parts[0])
			for ai := range c.Addrs {
				f := strings.Split(accs[ai], ",")
				a := get(ai)
				if f[0] != a.bal || f[2] != a.master || f[4] != a.code {
					return fmt.Sprintf("read != map: account #%d reads bal=%s master=%s code=%s, a plain map of the same operations holds bal=%s master=%s code=%s (op %d)",
						ai, f[0], f[2], f[4], a.bal, a.master, a.code, i)
				}
			}
			if len(c.Pairs) > 0 {
				raws := strings.Split(parts[1], ",")
				for pi, p := range c.Pairs {
					want, ok := get(p[0]).storage[p[1]]
					if !ok {
						want = "-"
					}
					if want != "?" && raws[pi] != want {
						return fmt.Sprintf("read != map: storage %d.%d reads %s, a plain map of the same operations holds %s (op %d)", p[0], p[1], raws[pi], want, i)
					}
				}
			}
		}
	}
	return ""
}

func propertyCheck(c *Case, rr *realRun) string {
	if rr.err != "" {
		return "state operation failed: " + rr.err
	}
	if rr.failure != "" {
		return rr.failure
	}
	return shadowProperty(c, rr)
}

func trimmed(b []byte) []byte { return bytes.TrimLeft(b, "\x00") }

func oracleLine(c *Case) string {
	var b strings.Builder
	fmt.Fprintf(&b, "S %x %x %x |", thor.EnergyGrowthRate, c.QBT, c.QStop)
	for _, a := range c.Addrs {
		fmt.Fprintf(&b, " %s:%s", hx.HexN(unhex(a)), hex.EncodeToString(thor.Blake2b(unhex(a)).Bytes()))
	}
	b.WriteString(" |")
	for _, k := range c.Keys {
		fmt.Fprintf(&b, " %s:%s:%s", hx.HexN(unhex(k)), hex.EncodeToString(thor.Blake2b(unhex(k)).Bytes()), hexOrDash(trimmed(unhex(k))))
	}
	b.WriteString(" |")
	for _, p := range c.Pairs {
		fmt.Fprintf(&b, " %s.%s", hx.HexN(unhex(c.Addrs[p[0]])), hx.HexN(unhex(c.Keys[p[1]])))
	}
	b.WriteString(" |")
	an := func(i int) string { return hx.HexN(unhex(c.Addrs[i])) }
	kn := func(i int) string { return hx.HexN(unhex(c.Keys[i])) }
	for i, op := range c.Ops {
		if i > 0 {
			b.WriteString(" ;")
		}
		switch op.K {
		case "bal":
			fmt.Fprintf(&b, " bal %s %s", an(op.A), hx.HexN(unhex(evenHex(op.V))))
		case "eng":
			fmt.Fprintf(&b, " eng %s %s %x", an(op.A), hx.HexN(unhex(evenHex(op.V))), op.T)
		case "mas":
			m := unhex(op.V)
			if thor.BytesToAddress(m).IsZero() {
				m = nil
			}
			fmt.Fprintf(&b, " mas %s %s", an(op.A), hexOrDash(m))
		case "code":
			code := unhex(op.V)
			h := "-"
			if len(code) > 0 {
				h = hex.EncodeToString(thor.Keccak256(code).Bytes())
			}
			fmt.Fprintf(&b, " code %s %s %s", an(op.A), hexOrDash(code), h)
		case "sto":
			fmt.Fprintf(&b, " sto %s %s %s", an(op.A), kn(op.S), hexOrDash(trimmed(thor.BytesToBytes32(unhex(op.V)).Bytes())))
		case "raw":
			fmt.Fprintf(&b, " raw %s %s %s", an(op.A), kn(op.S), hexOrDash(unhex(op.V)))
		case "del":
			fmt.Fprintf(&b, " del %s", an(op.A))
		case "cp":
			b.WriteString(" cp")
		case "rev":
			fmt.Fprintf(&b, " rev %d", op.N)
		case "commit":
			fmt.Fprintf(&b, " commit %x %x %s", op.Major, op.Minor, hx.B(op.Reopen))
		case "open":
			fmt.Fprintf(&b, " open %d", op.N)
		case "obs":
			b.WriteString(" obs")
		case "stagedrop":
			b.WriteString(" rev 9999") // no-op in the model: stage is a pure function of the state
		}
	}
	return b.String()
}

func evenHex(s string) string {
	if len(s)%2 == 1 {
		return "0" + s
	}
	return s
}

// the oracle prints the storage id as its three components; the real id is BE32(major) ++ uvarint(minor) ++ uvarint(count)
func normaliseOracleCommit(seg string) string {
	i := 0
	var b strings.Builder
	for {
		j := strings.Index(seg[i:], ",M")
		if j < 0 {
			b.WriteString(seg[i:])
			break
		}
		j += i + 2
		b.WriteString(seg[i:j])
		k := j + strings.IndexAny(seg[j:], ",/")
		sid := seg[j:k]
		if sid == "-" || !strings.Contains(sid, ".") {
			b.WriteString(sid)
		} else {
			f := strings.Split(sid, ".")
			ma, _ := strconv.ParseUint(f[0], 16, 32)
			mi, _ := strconv.ParseUint(f[1], 16, 64)
			cn, _ := strconv.ParseUint(f[2], 16, 64)
			id := binary.BigEndian.AppendUint32(nil, uint32(ma))
			id = binary.AppendUvarint(id, mi)
			id = binary.AppendUvarint(id, cn)
			b.WriteString(hex.EncodeToString(id))
		}
		i = k
	}
	return b.String()
}

// the reference root of the model's committed content (oracle commit segment)
func refRootOfOracleCommit(seg string) (thor.Bytes32, error) {
	body := strings.TrimPrefix(seg, "C")
	body = strings.SplitN(body, "@", 2)[0]
	var kvs []triesim.KV
	for _, a := range strings.Fields(body) {
		i := strings.IndexByte(a, ':')
		key := a[:i]
		f := strings.SplitN(a[i+1:], ",", 7)
		if len(f) != 7 {
			return thor.Bytes32{}, fmt.Errorf("bad account segment %q", a)
		}
		bal, _ := new(big.Int).SetString(f[0], 16)
		eng, _ := new(big.Int).SetString(f[1], 16)
		bt, _ := strconv.ParseUint(f[2], 16, 64)
		acc := state.Account{Balance: bal, Energy: eng, BlockTime: bt, Master: unhex(f[3]), CodeHash: unhex(f[4])}
		if s := f[6]; s != "S-" {
			e := strings.Index(s, "]P[")
			if e < 0 {
				return thor.Bytes32{}, fmt.Errorf("bad storage segment %q in %q", s, a)
			}
			inner := s[2:e]
			var skv []triesim.KV
			if inner != "" {
				for _, l := range strings.Split(inner, ",") {
					e := strings.IndexByte(l, '=')
					vm := strings.SplitN(l[e+1:], "~", 2)
					skv = append(skv, triesim.KV{Key: triesim.ParsePath(l[:e]), Val: unhex(vm[0])})
				}
			}
			r := triesim.RefRoot(skv)
			acc.StorageRoot = r[:]
		}
		v, err := rlp.EncodeToBytes(&acc)
		if err != nil {
			return thor.Bytes32{}, err
		}
		kvs = append(kvs, triesim.KV{Key: triesim.ParsePath(key), Val: v})
	}
	return triesim.RefRoot(kvs), nil
}

func disagreement(c *Case, rr *realRun, ans string) string {
	if rr.err != "" {
		return "state operation failed: " + rr.err
	}
	if len(rr.steps) == 0 {
		return ""
	}
	segs := strings.Split(ans, " ; ")
	if len(segs) != len(rr.steps) {
		return fmt.Sprintf("oracle answered %d segments for %d ops: %.200s", len(segs), len(rr.steps), ans)
	}
	for i, so := range rr.steps {
		got := strings.TrimSpace(segs[i])
		if so.commit != nil {
			got = normaliseOracleCommit(got)
			r, err := refRootOfOracleCommit(got)
			if err != nil {
				return "oracle commit segment: " + err.Error()
			}
			if r != so.commit.root {
				return fmt.Sprintf("op %d (commit): root %x != reference root %x of the model's normalised content", i, so.commit.root, r)
			}
		}
		if got != strings.TrimSpace(so.text) {
			return fmt.Sprintf("op %d (%s): implementation %q model %q", i, c.Ops[i].K, clip(so.text), clip(got))
		}
	}
	return ""
}

func clip(s string) string {
	if len(s) > 600 {
		return s[:600] + "…"
	}
	return s
}

// ---------------------------------------------------------------- generation

// genSharedCase: few accounts / storage keys whose secure keys share their first byte (extension node over a
// small branch), real caches, and a loop of create / commit+re-open / destroy-or-zero / Stage or Commit / re-open:
// the shapes in which a delete collapses a branch into the extension above it while other handles share the nodes.
func genSharedCase(r *hx.Rand) *Case {
	c := &Case{Cached: true, CacheTTL: 32}
	pick := func(n int) string {
		for {
			b := r.Bytes(n)
			if thor.Blake2b(b).Bytes()[0] == 0x5a {
				return hex.EncodeToString(b)
			}
		}
	}
	na, nk := r.Range(2, 3), r.Range(2, 3)
	for i := 0; i < na; i++ {
		c.Addrs = append(c.Addrs, pick(20))
	}
	for i := 0; i < nk; i++ {
		c.Keys = append(c.Keys, pick(32))
	}
	for i := 0; i < na; i++ {
		for j := 0; j < nk; j++ {
			c.Pairs = append(c.Pairs, [2]int{i, j})
		}
	}
	c.QBT, c.QStop = 1000, 2000
	major, commits := uint32(0), 0
	emit := func(op Op) { c.Ops = append(c.Ops, op) }
	word := func() string { return hex.EncodeToString(append(make([]byte, 32-8), r.Bytes(8)...)) }
	commit := func(reopen bool) {
		major++
		emit(Op{K: "commit", Major: major, Reopen: reopen})
		commits++
		emit(Op{K: "obs"})
	}
	for round := 0; round < r.Range(2, 6); round++ {
		// (re)create
		for a := 0; a < na; a++ {
			if r.Chance(3, 4) {
				emit(Op{K: "bal", A: a, V: hex.EncodeToString(r.Bytes(r.Range(1, 8)))})
			}
			for k := 0; k < nk; k++ {
				if r.Chance(2, 3) {
					emit(Op{K: "sto", A: a, S: k, V: word()})
				}
			}
		}
		emit(Op{K: "obs"})
		commit(true)
		// destroy / zero a few things, stage or commit, look again from other handles
		for j := 0; j < r.Range(1, 4); j++ {
			a, k := r.Intn(na), r.Intn(nk)
			switch r.Intn(4) {
			case 0:
				emit(Op{K: "bal", A: a, V: "0"})
			case 1:
				emit(Op{K: "del", A: a})
			case 2:
				emit(Op{K: "sto", A: a, S: k, V: hex.EncodeToString(make([]byte, 32))})
			default:
				emit(Op{K: "sto", A: a, S: k, V: word()})
			}
		}
		emit(Op{K: "obs"})
		switch r.Intn(3) {
		case 0:
			emit(Op{K: "stagedrop"})
			emit(Op{K: "obs"})
			emit(Op{K: "open", N: commits}) // the same root again, through the root cache
			emit(Op{K: "obs"})
		case 1:
			commit(false)
			emit(Op{K: "open", N: commits - 1}) // a sibling fork from the parent
			emit(Op{K: "obs"})
			emit(Op{K: "bal", A: r.Intn(na), V: hex.EncodeToString(r.Bytes(3))})
			major++
			emit(Op{K: "commit", Major: major - 1, Minor: 1, Reopen: true})
			commits++
			emit(Op{K: "obs"})
		default:
			commit(true)
		}
	}
	fix(c)
	return c
}

// genWideCase: one Stage creates the storage of 260-400 fresh accounts (storage-trie creation counter beyond one byte),
// commit, re-open, read every slot back; then a second round touching a few of them at a high conflict number.
func genWideCase(r *hx.Rand) *Case {
	c := &Case{Cached: r.Bool(), CacheTTL: 32, QBT: 1000, QStop: 2000}
	na := r.Range(260, 400)
	for i := 0; i < na; i++ {
		c.Addrs = append(c.Addrs, hex.EncodeToString(r.Bytes(20)))
	}
	c.Keys = []string{hex.EncodeToString(r.Bytes(32)), hex.EncodeToString(append(make([]byte, 31), 1))}
	for i := 0; i < na; i++ {
		c.Pairs = append(c.Pairs, [2]int{i, i % 2})
	}
	emit := func(op Op) { c.Ops = append(c.Ops, op) }
	for i := 0; i < na; i++ {
		emit(Op{K: "bal", A: i, V: hex.EncodeToString(r.Bytes(r.Range(1, 6)))})
		emit(Op{K: "sto", A: i, S: i % 2, V: hex.EncodeToString(append(make([]byte, 24), r.Bytes(8)...))})
	}
	emit(Op{K: "obs"})
	minor := uint32([]int{0, 0, 130, 260}[r.Intn(4)])
	emit(Op{K: "commit", Major: 1, Minor: minor, Reopen: true})
	emit(Op{K: "obs"})
	for j := 0; j < 5; j++ {
		emit(Op{K: "sto", A: r.Intn(na), S: r.Intn(2), V: hex.EncodeToString(append(make([]byte, 28), r.Bytes(4)...))})
	}
	emit(Op{K: "commit", Major: 2, Minor: uint32(r.Intn(2) * 200), Reopen: true})
	emit(Op{K: "obs"})
	return c
}

func genCase(r *hx.Rand, idx int) *Case {
	if idx%5 == 3 {
		return genSharedCase(r)
	}
	if idx%600 == 7 {
		return genWideCase(r)
	}
	c := &Case{}
	large := idx%5 == 4
	na, nk := r.Range(1, 4), r.Range(1, 4)
	if large {
		na, nk = r.Range(20, 40), r.Range(10, 30)
	}
	// in half of the small universes the secure keys share their first byte (extension node above a branch:
	// the shapes where insert splits and delete merges short nodes)
	share := !large && r.Bool()
	pick := func(n int, fixed func(i int) []byte) []byte {
		for tries := 0; ; tries++ {
			b := r.Bytes(n)
			if !share || tries > 3000 || thor.Blake2b(b).Bytes()[0] == 0x5a {
				return b
			}
		}
	}
	for i := 0; i < na; i++ {
		if !large && !share && r.Chance(1, 3) {
			c.Addrs = append(c.Addrs, hex.EncodeToString(append(make([]byte, 19), byte(i+1))))
		} else {
			c.Addrs = append(c.Addrs, hex.EncodeToString(pick(20, nil)))
		}
	}
	for i := 0; i < nk; i++ {
		if !share && r.Chance(1, 3) {
			c.Keys = append(c.Keys, hex.EncodeToString(append(make([]byte, 31), byte(i)))) // includes the zero key
		} else {
			c.Keys = append(c.Keys, hex.EncodeToString(pick(32, nil)))
		}
	}
	if large {
		for i := 0; i < na; i++ {
			for j := 0; j < r.Range(1, 2); j++ {
				c.Pairs = append(c.Pairs, [2]int{i, r.Intn(nk)})
			}
		}
	} else {
		for i := 0; i < na; i++ {
			for j := 0; j < nk; j++ {
				c.Pairs = append(c.Pairs, [2]int{i, j})
			}
		}
	}
	c.Cached = r.Bool()
	c.CacheTTL = uint16([]int{0, 1, 32}[r.Intn(3)])
	times := []uint64{0, 1, 1000, 2000, 5000}
	c.QBT = times[r.Intn(len(times))] + uint64(r.Intn(3))
	c.QStop = times[r.Intn(len(times))]
	nops := r.Range(10, 150)
	obsEvery := 1
	if large {
		obsEvery = r.Range(5, 12)
	}
	depth, commits := 1, 0
	major := uint32(0)
	usedMinor := map[uint32]uint32{}
	rootMajor := []uint32{0}
	curMajor := uint32(0)
	emit := func(op Op) { c.Ops = append(c.Ops, op) }
	for i := 0; i < nops; i++ {
		a, s := r.Intn(na), r.Intn(nk)
		structural := false
		switch x := r.Intn(100); {
		case x < 12:
			v := []string{"0", "1", "de0b6b3a7640000", hex.EncodeToString(r.Bytes(r.Range(1, 24)))}[r.Intn(4)]
			emit(Op{K: "bal", A: a, V: v})
		case x < 20:
			v := []string{"0", "1", hex.EncodeToString(r.Bytes(r.Range(1, 12)))}[r.Intn(3)]
			emit(Op{K: "eng", A: a, V: v, T: times[r.Intn(len(times))]})
		case x < 25:
			m := hex.EncodeToString(r.Bytes(20))
			if r.Chance(1, 3) {
				m = hex.EncodeToString(make([]byte, 20))
			}
			emit(Op{K: "mas", A: a, V: m})
		case x < 31:
			code := ""
			if !r.Chance(1, 4) {
				code = hex.EncodeToString(r.Bytes(r.Range(1, 40)))
			}
			emit(Op{K: "code", A: a, V: code})
		case x < 50:
			var w []byte
			switch r.Intn(4) {
			case 0: // zero value
				w = make([]byte, 32)
			case 1:
				w = append(make([]byte, 31), byte(r.Range(1, 255)))
			default:
				w = append(make([]byte, 32-r.Range(1, 32)), r.Bytes(32)...)[:32]
			}
			emit(Op{K: "sto", A: a, S: s, V: hex.EncodeToString(w)})
		case x < 60:
			var raw []byte
			switch r.Intn(4) {
			case 0:
				raw = nil
			case 1: // raw rlp list
				raw, _ = rlp.EncodeToBytes([]uint64{uint64(r.Intn(1000)), uint64(r.Intn(5))})
			case 2:
				raw, _ = rlp.EncodeToBytes([][]byte{r.Bytes(r.Range(0, 40))})
			default:
				raw, _ = rlp.EncodeToBytes(r.Bytes(r.Range(1, 32)))
			}
			emit(Op{K: "raw", A: a, S: s, V: hex.EncodeToString(raw)})
		case x < 66:
			emit(Op{K: "del", A: a})
		case x < 68:
			emit(Op{K: "stagedrop"})
			structural = true
		case x < 78:
			emit(Op{K: "cp"})
			depth++
			structural = true
		case x < 86:
			if depth > 1 {
				n := r.Range(1, depth-1)
				emit(Op{K: "rev", N: n})
				depth = n
				structural = true
			}
		case x < 94:
			// successive versions; a fork (same major as an earlier commit) gets the next conflict number
			major = curMajor + 1
			if r.Chance(1, 5) {
				major = curMajor + uint32(r.Range(2, 300))
			}
			if _, seen := usedMinor[major]; !seen && r.Chance(1, 4) {
				usedMinor[major] = uint32([]int{127, 128, 255, 256, 300, 70000}[r.Intn(6)]) // conflict numbers around the byte / varint boundaries
			}
			minor := usedMinor[major]
			usedMinor[major]++
			reopen := !r.Chance(1, 4)
			emit(Op{K: "commit", Major: major, Minor: minor, Reopen: reopen})
			commits++
			rootMajor = append(rootMajor, major)
			if reopen {
				depth = 1
				curMajor = major
			}
			structural = true
		default:
			n := r.Intn(commits + 1)
			emit(Op{K: "open", N: n})
			curMajor = rootMajor[n]
			depth = 1
			structural = true
		}
		if structural || i%obsEvery == 0 {
			emit(Op{K: "obs"})
		}
	}
	emit(Op{K: "commit", Major: curMajor + 1, Minor: usedMinor[curMajor+1], Reopen: true})
	emit(Op{K: "obs"})
	return c
}

func nontrivial(c *Case) bool {
	var del, rev, commit, sto bool
	for _, op := range c.Ops {
		switch op.K {
		case "del":
			del = true
		case "rev":
			rev = true
		case "commit":
			commit = true
		case "sto", "raw":
			sto = true
		}
	}
	return del && rev && commit && sto
}

// drop ops; keep indices meaningful (open of a root that no longer exists is dropped by valid())
func shrink(c *Case, bad func(*Case) bool) *Case {
	cur := c
	budget := 300
	for chunk := len(cur.Ops) / 2; chunk >= 1 && budget > 0; {
		shrunk := false
		for i := 0; i+chunk <= len(cur.Ops) && budget > 0; i++ {
			budget--
			x := *cur
			x.Ops = append(append([]Op(nil), cur.Ops[:i]...), cur.Ops[i+chunk:]...)
			fix(&x)
			if bad(&x) {
				cur, shrunk = &x, true
				i--
			}
		}
		if !shrunk || chunk > len(cur.Ops) {
			chunk /= 2
		}
	}
	return cur
}

// fix drops ops that refer to roots/checkpoints that are not there and re-numbers conflict numbers
func fix(c *Case) {
	var out []Op
	commits, depth := 0, 1
	used := map[[2]uint32]bool{}
	for _, op := range c.Ops {
		switch op.K {
		case "open":
			if op.N > commits {
				continue
			}
			depth = 1
		case "rev":
			if op.N < 1 || op.N >= depth {
				continue
			}
			depth = op.N
		case "cp":
			depth++
		case "commit":
			for used[[2]uint32{op.Major, op.Minor}] {
				op.Minor++
			}
			used[[2]uint32{op.Major, op.Minor}] = true
			commits++
			if op.Reopen {
				depth = 1
			}
		}
		out = append(out, op)
	}
	c.Ops = out
}

func runCases(ctx *hx.Ctx, cases []*Case) {
	lines := make([]string, len(cases))
	runs := make([]realRun, len(cases))
	for i, c := range cases {
		runs[i] = runReal(c)
		lines[i] = oracleLine(c)
	}
	answers, err := hx.AskAll(ctx.Oracle, lines)
	if err != nil {
		hx.Fatal("oracle: %v", err)
	}
	for i, c := range cases {
		cb, _ := json.Marshal(c)
		ctx.Cov.Case("S"+string(cb), nontrivial(c), map[string]any{"stream": "state", "addrs": len(c.Addrs), "keys": len(c.Keys), "ops": len(c.Ops), "cached": c.Cached})
		ctx.Cov.Count("state.cases")
		ctx.Cov.Bucket("state.ops", len(c.Ops))
		ctx.Cov.Bucket("state.addrs", len(c.Addrs))
		if c.Cached {
			ctx.Cov.Count("state.db=cached")
		} else {
			ctx.Cov.Count("state.db=mem")
		}
		for _, op := range c.Ops {
			ctx.Cov.Count("state.op=" + op.K)
		}
		for _, s := range runs[i].steps {
			if s.commit != nil {
				ctx.Cov.Bucket("state.committed_accounts", len(s.commit.accts))
				for _, a := range s.commit.accts {
					if len(a.acc.StorageRoot) > 0 {
						ctx.Cov.Bucket("state.storage_leaves", len(a.sLeaves))
					}
				}
			}
		}
		if f := propertyCheck(c, &runs[i]); f != "" {
			if !once("state:" + classOf(f)) {
				continue
			}
			sc := shrink(c, func(x *Case) bool { rr := runReal(x); return propertyCheck(x, &rr) != "" })
			rr := runReal(sc)
			if f2 := propertyCheck(sc, &rr); f2 != "" {
				f = f2
			} else {
				sc = c // the failure is order dependent (map iteration in Stage): keep the unshrunk case
			}
			ctx.Violation("state:"+classOf(f), f, map[string]any{"stream": "state", "case": sc}, true)
			continue
		}
		if d := disagreement(c, &runs[i], answers[i]); d != "" {
			if !once("correspondence:state:" + classOf(d)) {
				continue
			}
			bad := func(x *Case) bool {
				rr := runReal(x)
				a, err := hx.AskAll(ctx.Oracle, []string{oracleLine(x)})
				return err == nil && disagreement(x, &rr, a[0]) != ""
			}
			sc := shrink(c, bad)
			rr := runReal(sc)
			a, _ := hx.AskAll(ctx.Oracle, []string{oracleLine(sc)})
			if os.Getenv("C06_DEBUG") != "" {
				fmt.Fprintln(os.Stderr, "original disagreement:", d)
			}
			if d2 := disagreement(sc, &rr, a[0]); d2 != "" {
				d = d2
			} else {
				sc = c // not reproducible on the shrunk case (depends on node sharing / iteration order): keep the original
			}
			ctx.Violation("correspondence:state:"+classOf(d),
				"state model and state.State disagree (state_refines_map / stage_root_canonical no longer describe the code); no input found on which the property's own predicates fail: "+d,
				map[string]any{"stream": "state", "case": sc}, false)
		}
	}
}

type replayDoc struct {
	Replay struct {
		Stream string          `json:"stream"`
		Case   json.RawMessage `json:"case"`
	} `json:"replay"`
}

func runReplayFile(ctx *hx.Ctx, path string) {
	b, err := os.ReadFile(path)
	if err != nil {
		hx.Fatal("replay: %v", err)
	}
	var doc replayDoc
	if err := json.Unmarshal(b, &doc); err != nil {
		hx.Fatal("replay: %v", err)
	}
	switch doc.Replay.Stream {
	case "trie":
		var c TrieCase
		if err := json.Unmarshal(doc.Replay.Case, &c); err != nil {
			hx.Fatal("replay: %v", err)
		}
		runTrieCases(ctx, []*TrieCase{&c})
	case "state":
		var c Case
		if err := json.Unmarshal(doc.Replay.Case, &c); err != nil {
			hx.Fatal("replay: %v", err)
		}
		runCases(ctx, []*Case{&c})
	default:
		hx.Fatal("replay: unknown stream %q", doc.Replay.Stream)
	}
}

func main() {
	ctx := hx.Init("C06")
	if ctx.Replay != "" {
		runReplayFile(ctx, ctx.Replay)
		ctx.Finish("replay", nil)
	}
	if dir := os.Getenv("VERIF_CORPUS"); dir != "" {
		files, _ := filepath.Glob(filepath.Join(dir, "*.json"))
		sort.Strings(files)
		for _, f := range files {
			runReplayFile(ctx, f)
		}
	}
	r := hx.NewRand(ctx.Seed)
	nt := ctx.Scale(7000, 120000)
	if os.Getenv("C06_SKIP_TRIE") != "" {
		nt = 0
	}
	rt := r.Fork(1)
	for done := 0; done < nt; {
		n := min(500, nt-done)
		batch := make([]*TrieCase, n)
		for i := range batch {
			batch[i] = genTrieCase(rt)
		}
		runTrieCases(ctx, batch)
		done += n
	}
	ns := ctx.Scale(3000, 40000)
	rs := r.Fork(2)
	for done := 0; done < ns; {
		n := min(100, ns-done)
		batch := make([]*Case, n)
		for i := range batch {
			batch[i] = genCase(rs, done+i)
		}
		runCases(ctx, batch)
		done += n
	}
	ctx.Finish("trie stream: Update/Get/Commit sequences on up to 5 live handles sharing nodes (trie.FromRootNode forks), every handle re-read after every op and "+
		"every committed version re-opened from the node database at the end, over 5 key universes (2-byte tiny alphabet, prefix-related variable length, Blake2b-hashed, "+
		"3-byte, long keys with shared heads and distinct tails), values 1-40 bytes with/without metadata, cache TTL 0-32; state stream: histories of 10-150 ops over 1-4 or "+
		"20-40 addresses and 1-4 or 10-30 storage keys (zero key, zero values, raw RLP lists, empty code, zero master, delete-then-recreate, "+
		"nested checkpoints/reverts, Stage without Commit, commits at successive versions and conflict numbers with or without re-open, forks from earlier roots) on "+
		"muxdb.NewMem and on mem LevelDB with the real caches, with up to 3 further live reader states re-read after every commit/stage and all committed roots re-read through a "+
		"fresh database handle at the end; every 5th case is a shared-prefix create/commit/destroy/re-open loop over 2-3 accounts whose secure keys share the first byte; "+
		"non-trivial = contains delete, revert, commit and storage writes",
		[]string{
			"Blake2b / Keccak are computed by the real library and given to the model as data (secure keys, code hashes)",
			"the reference MPT hasher in harness/internal/triesim is the specification of 'canonical Merkle-Patricia root'",
			"account RLP encoding (rlp.EncodeToBytes of state.Account) is done by the real library on the model's field values",
		})
}
