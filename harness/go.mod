module verif/harness

go 1.26.5

require (
	github.com/ethereum/go-ethereum v1.8.14
	github.com/gorilla/mux v1.8.1
	github.com/syndtr/goleveldb v1.0.1-0.20220614013038-64ee5596c38a
	github.com/vechain/thor/v2 v2.0.0
)

require (
	github.com/aristanetworks/goarista v0.0.0-20180222005525-c41ed3986faa // indirect
	github.com/beevik/ntp v0.2.0 // indirect
	github.com/beorn7/perks v1.0.1 // indirect
	github.com/bits-and-blooms/bitset v1.20.0 // indirect
	github.com/cespare/xxhash/v2 v2.2.0 // indirect
	github.com/consensys/gnark-crypto v0.18.1 // indirect
	github.com/decred/dcrd/dcrec/secp256k1/v4 v4.4.0 // indirect
	github.com/dlclark/regexp2 v1.7.0 // indirect
	github.com/dop251/goja v0.0.0-20230707174833-636fdf960de1 // indirect
	github.com/go-sourcemap/sourcemap v2.1.3+incompatible // indirect
	github.com/go-stack/stack v1.7.0 // indirect
	github.com/golang/snappy v0.0.4 // indirect
	github.com/google/pprof v0.0.0-20230207041349-798e818bf904 // indirect
	github.com/gorilla/websocket v1.4.1 // indirect
	github.com/hashicorp/golang-lru v0.0.0-20160813221303-0a025b7e63ad // indirect
	github.com/holiman/uint256 v1.2.4 // indirect
	github.com/huin/goupnp v0.0.0-20171109214107-dceda08e705b // indirect
	github.com/jackpal/go-nat-pmp v1.0.2-0.20160603034137-1fa385a6f458 // indirect
	github.com/mattn/go-isatty v0.0.3 // indirect
	github.com/mattn/go-sqlite3 v1.14.22 // indirect
	github.com/matttproud/golang_protobuf_extensions/v2 v2.0.0 // indirect
	github.com/pkg/errors v0.8.1-0.20171216070316-e881fd58d78e // indirect
	github.com/prometheus/client_golang v1.18.0 // indirect
	github.com/prometheus/client_model v0.5.0 // indirect
	github.com/prometheus/common v0.45.0 // indirect
	github.com/prometheus/procfs v0.12.0 // indirect
	github.com/qianbin/directcache v0.9.7 // indirect
	github.com/qianbin/drlp v0.0.0-20240102101024-e0e02518b5f9 // indirect
	github.com/vechain/go-ecvrf v0.0.0-20251211112124-5d5a3ef70fc9 // indirect
	golang.org/x/crypto v0.52.0 // indirect
	golang.org/x/net v0.55.0 // indirect
	golang.org/x/sync v0.20.0 // indirect
	golang.org/x/sys v0.45.0 // indirect
	golang.org/x/text v0.37.0 // indirect
	google.golang.org/protobuf v1.33.0 // indirect
	gopkg.in/karalabe/cookiejar.v2 v2.0.0-20150724131613-8dcd6a7f4951 // indirect
)

replace github.com/vechain/thor/v2 => /repo

replace github.com/syndtr/goleveldb => github.com/vechain/goleveldb v1.0.1-0.20220809091043-51eb019c8655

replace github.com/ethereum/go-ethereum => github.com/vechain/go-ethereum v1.8.15-0.20260324060835-4fc778eca93e
