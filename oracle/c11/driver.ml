(* driver.ml (C11) — line protocol for the codec oracle; parsing and printing only, no logic of its own.
   input :  KIND HEX        KIND in TX TXB HDR HDRU RCP RCPB BLK RBLK ITEM ; HEX = the byte string ("-" for empty)
              TX   rlp.DecodeBytes into tx.Transaction          TXB  Transaction.UnmarshalBinary
              HDR  rlp.DecodeBytes into block.Header            HDRU the same with the txsRootFeatures decoder of the
                                                                     tree before the C11 fix (recorded refutation only)
              RCP  rlp.DecodeBytes into tx.Receipt              RCPB Receipt.UnmarshalBinary
              BLK  rlp.DecodeBytes into block.Block             RBLK block.DecodeRawBlock + RawBlock.Decode
              ITEM generic strict RLP (decode then encode)
   output:  "rej"   or   "ok DUMP REENC SIZE SIGN QUIRK IG BR"
              DUMP  the Go-visible field tuple (pointer positions normalised), one token
              REENC Go's re-encoding in the same form as the input (hex), SIZE what Size() reports (hex, "-" if none),
              SIGN  preimage of SigningHash() (hex, "-" if none), QUIRK 1 iff an rlp:"nil" position held 0xc0,
              IG    IntrinsicGas() (hex, "err" for the overflow error, "-" if none),
              BR    a coarse tag of the model branches the input went through (shape of the decoded object) *)
open Model
open Wire

let byte_tbl : n array = Array.init 256 n_of_int
let hexval c = match c with
  | '0'..'9' -> Char.code c - 48 | 'a'..'f' -> Char.code c - 87 | 'A'..'F' -> Char.code c - 55
  | _ -> failwith "bad hex"
let bytes_of_hex (s : string) : bytes =
  if s = "-" then [] else begin
    let l = String.length s in
    if l mod 2 <> 0 then failwith "odd hex";
    let rec go i acc = if i < 0 then acc else go (i - 2) (byte_tbl.(hexval s.[i] * 16 + hexval s.[i + 1]) :: acc) in
    go (l - 2) []
  end
let hex_of_bytes (b : bytes) : string =
  match b with [] -> "-" | _ ->
    let buf = Buffer.create 64 in
    List.iter (fun x -> Buffer.add_string buf (Printf.sprintf "%02x" (int_of_n x))) b; Buffer.contents buf
let hb (b : bytes) : string = match b with [] -> "" | _ -> hex_of_bytes b
let hn = hex_of_n
let join = String.concat

let show_nil = function NilStr | NilList -> "nil" | Ptr a -> hb a
let show_clause c = join ":" [show_nil c.c_to; hn c.c_value; hb c.c_data]
let show_tx t =
  let t = norm_tx t in
  "T" ^ join "," [ (if t.t_dyn then "51" else "0"); hn t.t_chain_tag; hn t.t_block_ref; hn t.t_expiration;
                   "[" ^ join ";" (List.map show_clause t.t_clauses) ^ "]"; hn t.t_gpc; hn t.t_max_prio; hn t.t_max_fee;
                   hn t.t_gas; show_nil t.t_depends; hn t.t_nonce; hn t.t_reserved.r_features; hb t.t_sig ]
let show_header h =
  "H" ^ join "," [ hb h.h_parent; hn h.h_timestamp; hn h.h_gas_limit; hb h.h_beneficiary; hn h.h_gas_used; hn h.h_total_score;
                   hb h.h_trf.trf_root; hn h.h_trf.trf_features; hb h.h_state_root; hb h.h_receipts_root; hb h.h_sig;
                   hb h.h_ext.x_alpha; tok_of_bool h.h_ext.x_com;
                   (match h.h_ext.x_basefee with None -> "nil" | Some f -> hn f) ]
let show_event e = join ":" [hb e.e_addr; join "/" (List.map hb e.e_topics); hb e.e_data]
let show_transfer t = join ":" [hb t.tr_sender; hb t.tr_recipient; hn t.tr_amount]
let show_output o = "{[" ^ join ";" (List.map show_event o.o_events) ^ "]|[" ^ join ";" (List.map show_transfer o.o_transfers) ^ "]}"
let show_receipt r =
  "R" ^ join "," [ (if r.rc_dyn then "51" else "0"); hn r.rc_gas_used; hb r.rc_payer; hn r.rc_paid; hn r.rc_reward;
                   tok_of_bool r.rc_reverted; "[" ^ join "" (List.map show_output r.rc_outputs) ^ "]" ]
let show_block b = "B{" ^ show_header b.b_header ^ "}{" ^ join "|" (List.map show_tx b.b_txs) ^ "}"
let rec show_item = function Str s -> "s" ^ hb s | Lst l -> "(" ^ join "," (List.map show_item l) ^ ")"

let ok dump re size sign quirk ig br = join " " ["ok"; dump; hex_of_bytes re; size; sign; tok_of_bool quirk; ig; br]
let ig_of t = match intrinsic_gas t.t_clauses with Some g -> hn g | None -> "err"
let cap n l = string_of_int (min n (List.length l))
let br_tx t =
  "t" ^ (if t.t_dyn then "1" else "0") ^ "c" ^ cap 3 t.t_clauses ^ "q" ^ tok_of_bool (tx_has_nil_list t)
  ^ "u" ^ cap 2 t.t_reserved.r_unused ^ "d" ^ (match t.t_depends with Ptr _ -> "1" | _ -> "0")
  ^ "f" ^ (match t.t_reserved.r_features with N0 -> "0" | _ -> "1")
  ^ "s" ^ (match List.length t.t_sig with 0 -> "0" | 65 -> "a" | 130 -> "b" | _ -> "x")
  ^ "n" ^ (if List.exists (fun c -> match c.c_to with Ptr _ -> false | _ -> true) t.t_clauses then "1" else "0")
let br_hdr h =
  "h" ^ (match h.h_ext.x_basefee with Some N0 -> "z" | Some _ -> "3" | None -> if h.h_ext.x_com then "2" else if h.h_ext.x_alpha = [] then "0" else "1")
  ^ "f" ^ (match h.h_trf.trf_features with N0 -> "0" | _ -> "1") ^ "s" ^ (match List.length h.h_sig with 0 -> "0" | 65 -> "a" | 146 -> "c" | _ -> "x")
let br_rcp r = "r" ^ (if r.rc_dyn then "1" else "0") ^ "o" ^ cap 2 r.rc_outputs ^ "v" ^ tok_of_bool r.rc_reverted
  ^ "e" ^ (if List.exists (fun o -> o.o_events <> []) r.rc_outputs then "1" else "0")
  ^ "t" ^ (if List.exists (fun o -> o.o_transfers <> []) r.rc_outputs then "1" else "0")

let handle line =
  match split_ws line with
  | [kind; hex] ->
    let b = bytes_of_hex hex in
    (match kind with
     | "TX" -> (match go_decode_tx b with
         | Some t -> ok (show_tx t) (go_reencode_tx t) (hn (go_tx_size_cached b)) (hex_of_bytes (go_signing_tx t)) (tx_has_nil_list t) (ig_of t) (br_tx t)
         | None -> "rej")
     | "TXB" -> (match go_unmarshal_tx b with
         | Some t -> ok (show_tx t) (go_marshal_tx t) (hn (lenN b)) (hex_of_bytes (go_signing_tx t)) (tx_has_nil_list t) (ig_of t) (br_tx t)
         | None -> "rej")
     | "HDR" -> (match go_decode_header b with
         | Some h -> ok (show_header h) (go_reencode_header h) "-" (hex_of_bytes (header_signing_bytes_any h)) false "-" (br_hdr h)
         | None -> "rej")
     | "HDRU" -> let c = c_header_gen (c_trf_gen false) in
       (match dec_exact c b with
         | Some h -> ok (show_header h) (c.enc h) "-" (hex_of_bytes (header_signing_bytes_any h)) false "-" (br_hdr h)
         | None -> "rej")
     | "RCP" -> (match go_decode_receipt b with
         | Some r -> ok (show_receipt r) (go_reencode_receipt r) "-" "-" false "-" (br_rcp r)
         | None -> "rej")
     | "RCPB" -> (match go_unmarshal_receipt b with
         | Some r -> ok (show_receipt r) (go_marshal_receipt r) "-" "-" false "-" (br_rcp r)
         | None -> "rej")
     | "BLK" | "RBLK" ->
       (match (if kind = "BLK" then go_decode_block b else go_decode_block_raw b) with
         | Some blk -> let re = go_reencode_block blk in
           ok (show_block blk) re (hn (go_block_size_cached b)) "-" (block_has_nil_list blk)
             (join "," (List.map ig_of blk.b_txs) |> fun x -> if x = "" then "-" else x)
             ("b" ^ br_hdr blk.b_header ^ "x" ^ cap 3 blk.b_txs ^ String.concat "" (List.map br_tx (Wire.take 2 blk.b_txs)))
         | None -> "rej")
     | "ITEM" -> (match decode b with
         | Some (i, []) -> ok (show_item i) (encode i) "-" "-" false "-" "i"
         | _ -> "rej")
     | _ -> failwith "bad kind")
  | _ -> failwith "bad line"

let () = iter_lines handle
