(* driver.ml (C12) — same line protocol as the C06 oracle (the C12 driver replays whole block trees as state lines);
   Trie line :  T | u<hexkey>=<val>~<meta> | u<hexkey>=  (delete) | g<hexkey> ...
     answer  :  one token per g (val~meta or -), then per handle "| L key=val~meta ..." and "| P path ..." of its final trie
                ("h<i>" selects a handle, "f" forks the selected handle)
   State line:  S rate bt stop | A a:hk ... | K k:hs:trim ... | P a.k ... | op ; op ; ...
     ops     :  bal a v / eng a v bt / mas a m / code a c h / sto a k t / raw a k r / del a / cp / rev n /
                commit major minor reopen / open i / obs
     answer  :  one segment per op joined by " ; " : "." , "cp=<rev>", the sweep for obs, the committed
                content and shape for commit.
   numbers are hex; byte strings are hex or "-" when empty; hk / hs are nibble strings (terminator added here). *)
open Model
open Wire

let nib_of_char c = match c with
  | '0'..'9' -> Char.code c - 48
  | 'a'..'f' -> Char.code c - 87
  | _ -> failwith "bad nibble"
let hexkey_of_string (s : string) : nat list =
  List.init (String.length s) (fun i -> nat_of_int (nib_of_char s.[i])) @ [nat_of_int 16]
let string_of_path (p : nat list) : string =
  String.concat "" (List.map (fun x -> let i = int_of_nat x in if i = 16 then "t" else Printf.sprintf "%x" i) p)

let bytes_of_hex (s : string) : n list =
  if s = "-" then [] else
  List.init (String.length s / 2) (fun i -> n_of_int (int_of_string ("0x" ^ String.sub s (2 * i) 2)))
let hex_of_bytes (b : n list) : string =
  if b = [] then "-" else String.concat "" (List.map (fun x -> Printf.sprintf "%02x" (int_of_n x)) b)

(* ---------------- pure trie ---------------- *)
let split1 c s = match String.index_opt s c with
  | Some i -> (String.sub s 0 i, String.sub s (i + 1) (String.length s - i - 1))
  | None -> (s, "")

let show_vm (v, m) = v ^ "~" ^ m

let trie_line toks =
  (* several handles; "h<i>" selects one, "f" forks the selected one into a new handle (a copy of the value) *)
  let hs = ref [| Nil |] and cur = ref 0 and out = ref [] in
  List.iter (fun tok ->
    let body = String.sub tok 1 (String.length tok - 1) in
    match tok.[0] with
    | 'u' ->
      let (k, vm) = split1 '=' body in
      let v = if vm = "" then None else Some (split1 '~' vm) in
      !hs.(!cur) <- trie_update (fun a b -> a = b) !hs.(!cur) (hexkey_of_string k) v
    | 'g' ->
      out := (match trie_get !hs.(!cur) (hexkey_of_string body) with Some vm -> show_vm vm | None -> "-") :: !out
    | 'h' -> cur := int_of_string body
    | 'f' -> hs := Array.append !hs [| !hs.(!cur) |]
    | _ -> failwith "bad trie op") toks;
  let show t =
    let ls = List.map (fun (k, vm) -> string_of_path k ^ "=" ^ show_vm vm) (leaves t) in
    let ps = List.map (fun (p, l) -> "/" ^ string_of_path p ^ (match l with Some _ -> "L" | None -> "")) (walk t []) in
    ["|"; "L"] @ ls @ ["|"; "P"] @ ps in
  String.concat " " (List.rev !out @ List.concat (List.map show (Array.to_list !hs)))

(* ---------------- state ---------------- *)
let show_meta = function
  | None -> "M-"
  | Some m -> "M" ^ String.concat "." (List.map hex_of_n m.m_sid) ^ "/" ^ hex_of_n m.m_major ^ "/" ^ hex_of_n m.m_minor

let show_paths t =
  String.concat "," (List.map (fun (p, l) -> "/" ^ string_of_path p ^ (match l with Some _ -> "L" | None -> "")) (walk t []))

let show_account (k, (a, m)) =
  let st = match a.a_sroot with
    | None -> "S-"
    | Some t ->
      "S[" ^ String.concat "," (List.map (fun (sk, (v, mt)) -> string_of_path sk ^ "=" ^ hex_of_bytes v ^ "~" ^ hex_of_bytes mt) (leaves t))
      ^ "]P[" ^ show_paths t ^ "]" in
  string_of_path k ^ ":" ^ String.concat "," [hex_of_n a.a_bal; hex_of_n a.a_eng; hex_of_n a.a_bt;
    hex_of_bytes a.a_master; hex_of_bytes a.a_codehash; show_meta m; st]

let state_line hdr asec ksec psec ops =
  let (rate, qbt, qstop) = match hdr with
    | [r; b; s] -> (n_of_hex r, n_of_hex b, n_of_hex s) | _ -> failwith "bad header" in
  let hkt = Hashtbl.create 64 and hst = Hashtbl.create 64 and trt = Hashtbl.create 64 in
  let addrs = List.map (fun tok -> let (a, h) = split1 ':' tok in
                         Hashtbl.replace hkt a (hexkey_of_string h); n_of_hex a) asec in
  List.iter (fun tok -> match String.split_on_char ':' tok with
      | [k; h; tr] -> Hashtbl.replace hst k (hexkey_of_string h); Hashtbl.replace trt k (bytes_of_hex tr)
      | _ -> failwith "bad key entry") ksec;
  let hk a = Hashtbl.find hkt (hex_of_n a) and hs k = Hashtbl.find hst (hex_of_n k)
  and trimkey k = Hashtbl.find trt (hex_of_n k) in
  let pairs = List.map (fun tok -> let (a, k) = split1 '.' tok in (n_of_hex a, n_of_hex k)) psec in
  let w = ref world0 in
  let sweep () =
    let s = !w.w_cur in
    String.concat " " (List.map (fun a ->
        String.concat "," [hex_of_n (get_balance hk hs s a); hex_of_n (get_energy hk hs rate s a qbt qstop);
                           hex_of_bytes (get_master hk hs s a); hex_of_bytes (get_codehash hk hs s a);
                           hex_of_bytes (get_code hk hs s a); tok_of_bool (exists_ hk hs s a)]) addrs)
    ^ " / " ^ String.concat "," (List.map (fun (a, k) -> hex_of_bytes (get_raw_storage hk hs s a k)) pairs) in
  let run = function
    | ["bal"; a; v] -> w := step hk hs trimkey !w (OBal (n_of_hex a, n_of_hex v)); "."
    | ["eng"; a; v; bt] -> w := step hk hs trimkey !w (OEng (n_of_hex a, n_of_hex v, n_of_hex bt)); "."
    | ["mas"; a; m] -> w := step hk hs trimkey !w (OMas (n_of_hex a, bytes_of_hex m)); "."
    | ["code"; a; c; h] -> w := step hk hs trimkey !w (OCode (n_of_hex a, bytes_of_hex c, bytes_of_hex h)); "."
    | ["sto"; a; k; t] -> w := step hk hs trimkey !w (OSto (n_of_hex a, n_of_hex k, bytes_of_hex t)); "."
    | ["raw"; a; k; r] -> w := step hk hs trimkey !w (ORaw (n_of_hex a, n_of_hex k, bytes_of_hex r)); "."
    | ["del"; a] -> w := step hk hs trimkey !w (ODel (n_of_hex a)); "."
    | ["cp"] ->
      let d = depth (st_sm !w.w_cur) in
      w := step hk hs trimkey !w OCp; "cp=" ^ string_of_int (int_of_nat d)
    | ["rev"; n] -> w := step hk hs trimkey !w (ORev (nat_of_int (int_of_string n))); "."
    | ["commit"; ma; mi; re] ->
      w := step hk hs trimkey !w (OCommit (n_of_hex ma, n_of_hex mi, bool_of_tok re));
      let t = List.nth !w.w_roots (List.length !w.w_roots - 1) in
      "C " ^ String.concat " " (List.map show_account (leaves t)) ^ " @ " ^ show_paths t
    | ["open"; i] -> w := step hk hs trimkey !w (OOpen (nat_of_int (int_of_string i))); "."
    | ["obs"] -> sweep ()
    | _ -> failwith "bad op" in
  String.concat " ; " (List.map run (split_on ";" ops))

(* ---------------- store script (correspondence of the node store, hasher.store's write set and the pruner round) ----------------
   X hf df|- | op ; op ; ...
     c name major minor pmajor.pminor|- path=blob ...   a real Trie.Commit: its hist puts; answer L<code of link_check>
     p base target name:major.minor ...                  a pruner round on these roots; answer D <deduped puts> # <deleted hist keys>
     r name major minor                                  read a root; answer T key=val~meta,... or Tfail
     w name major minor pmajor.pminor|- skip op ...      a handle opened at the parent root (or empty), the operations
                                                         g<key> (Get) u<key>=<val~meta> (Update) d<key> (Update with an empty value)
                                                         on hex keys (t = terminator), then Trie.Commit(major.minor, skipHash = skip):
                                                         answer W <path=blob the model's trie.go + hasher.store put> ... # <path of a
                                                         dirty full / short node of the handle before the commit> ...  or Wfail
                                                         (full nodes are all taken to have a hash: exact only when skip = 1);
                                                         does not change the model store (the following c applies the real puts)
   blob syntax: N | V<val>~<meta> | S<nibbles>(blob) | F(blob,...) | R<major>.<minor>; values are opaque strings *)
let path_of_tok (s : string) : nat list =
  if s = "-" then [] else List.init (String.length s) (fun i -> nat_of_int (if s.[i] = 't' then 16 else nib_of_char s.[i]))
let tok_of_path (p : nat list) : string = if p = [] then "-" else string_of_path p

let ver_of_tok (s : string) : n * n = let (a, b) = split1 '.' s in (n_of_hex a, n_of_hex b)
let tok_of_ver ((a, b) : n * n) : string = hex_of_n a ^ "." ^ hex_of_n b

let parse_blob (s : string) : string snode =
  let pos = ref 0 in
  let peek () = s.[!pos] in
  let until (stop : char -> bool) =
    let st = !pos in
    while !pos < String.length s && not (stop s.[!pos]) do incr pos done;
    String.sub s st (!pos - st) in
  let rec node () : string snode =
    let c = peek () in incr pos;
    match c with
    | 'N' -> SNil
    | 'V' -> SValue (until (fun c -> c = ',' || c = ')'))
    | 'R' -> SRef (ver_of_tok (until (fun c -> c = ',' || c = ')')))
    | 'S' ->
      let k = until (fun c -> c = '(') in
      incr pos;
      let ch = node () in
      incr pos;                                             (* ')' *)
      SShort (path_of_tok (if k = "" then "-" else k), ch)
    | 'F' ->
      incr pos;                                             (* '(' *)
      let rec items acc =
        let x = node () in
        let d = peek () in incr pos;
        if d = ',' then items (x :: acc) else List.rev (x :: acc) in
      SFull (items [])
    | _ -> failwith ("bad blob " ^ s) in
  node ()

let rec show_blob (b : string snode) : string =
  match b with
  | SNil -> "N"
  | SValue v -> "V" ^ v
  | SShort (k, c) -> "S" ^ string_of_path k ^ "(" ^ show_blob c ^ ")"
  | SFull cs -> "F(" ^ String.concat "," (List.map show_blob cs) ^ ")"
  | SRef v -> "R" ^ tok_of_ver v

let store_line hdr ops =
  let (hf, df) = match hdr with
    | [h; d] -> (n_of_hex h, if d = "-" then None else Some (n_of_hex d)) | _ -> failwith "bad store header" in
  let st = ref { hist = []; dedup = []; hf = hf; df = df } in
  let fuel = nat_of_int 400 in
  let seq = fun (a : string) (b : string) -> a = b in
  let run = function
    | "c" :: name :: ma :: mi :: parent :: entries ->
      let v = (n_of_hex ma, n_of_hex mi) in
      let es = List.map (fun tok -> let (p, b) = split1 '=' tok in (path_of_tok p, parse_blob b)) entries in
      let par = if parent = "-" then None else Some (ver_of_tok parent) in
      let code = link_check seq fuel !st (n_of_hex name) v es par in
      st := commit !st (n_of_hex name) v es;
      "L" ^ hex_of_n code
    | "p" :: base :: target :: tries ->
      let ts = List.map (fun tok -> let (nm, v) = split1 ':' tok in (n_of_hex nm, ver_of_tok v)) tries in
      let b = n_of_hex base and t = n_of_hex target in
      (match prune_round fuel !st ts b t with
       | None -> "Dfail"
       | Some (st', cps) ->
         let del = deleted_keys !st b t in
         let puts = List.concat (List.map (fun (nm, nodes) ->
             List.map (fun ((p, v), blob) ->
                 hex_of_n nm ^ "/" ^ (match dptn !st (fst v) with Some x -> hex_of_n x | None -> "-") ^ "/" ^ tok_of_path p ^ "=" ^ show_blob blob) nodes) cps) in
         let dels = List.map (fun ((nm, p), v) -> hex_of_n nm ^ "/" ^ tok_of_path p ^ "/" ^ tok_of_ver v) del in
         st := st';
         String.concat " " (("D" :: puts) @ ("#" :: dels)))
    | "w" :: name :: ma :: mi :: parent :: skip :: optoks ->
      let v = (n_of_hex ma, n_of_hex mi) in
      let g = sget0 !st (n_of_hex name) in
      let head = if parent = "-" then WNil else WRef (ver_of_tok parent) in
      let op_of tok =
        let rest = String.sub tok 1 (String.length tok - 1) in
        match tok.[0] with
        | 'g' -> HGet (path_of_tok rest)
        | 'd' -> HUpd (path_of_tok rest, None)
        | 'u' -> let (k, x) = split1 '=' rest in HUpd (path_of_tok k, Some x)
        | _ -> failwith "bad handle op" in
      (match wt_run seq g (List.map op_of optoks) head with
       | None -> "Wfail"
       | Some w ->
         match wt_commit g (fun _ -> true) (skip = "1") v w with
         | None -> "Wfail"
         | Some (_, es) ->
           String.concat " " (("W" :: List.map (fun (p, b) -> tok_of_path p ^ "=" ^ show_blob b) es)
                              @ ("#" :: List.map tok_of_path (dirty_paths [] w))))
    | ["r"; name; ma; mi] ->
      (match open_root fuel !st (n_of_hex name) (n_of_hex ma, n_of_hex mi) with
       | None -> "Tfail"
       | Some t -> "T " ^ String.concat "," (List.map (fun (k, v) -> string_of_path k ^ "=" ^ v) (leaves t)))
    | _ -> failwith "bad store op" in
  String.concat " ; " (List.map run (split_on ";" ops))

let handle line =
  match split_on "|" (split_ws line) with
  | [("X" :: hdr); ops] -> store_line hdr ops
  | ["T"] :: rest -> trie_line (List.concat rest)
  | [("S" :: hdr); asec; ksec; psec; ops] -> state_line hdr asec ksec psec ops
  | _ -> failwith "bad line"

let () = iter_lines handle
