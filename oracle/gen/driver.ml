(* driver.ml (gen) — evaluates the go2v-generated definitions; cross-check of the translator against the real code.
   input:  NAME arg..   (hex, "-" prefix for negatives)      output: result (hex / 0|1 / none) *)
open Model
open Wire
open Wirez

let b2s b = if b then "1" else "0"
let handle line =
  match split_ws line with
  | ["GasLimit.IsValid"; gl; p] -> b2s (gasLimit_IsValid (z_of_hex gl) (z_of_hex p))
  | ["GasLimit.Qualify"; gl; p] -> hex_of_z (gasLimit_Qualify (z_of_hex gl) (z_of_hex p))
  | ["GasLimit.Adjust"; gl; d] -> hex_of_z (gasLimit_Adjust (z_of_hex gl) (z_of_hex d))
  | ["newSequence"; b; t; l] -> (match newSequence (z_of_hex b) (z_of_hex t) (z_of_hex l) with Some s -> hex_of_z s | None -> "none")
  | ["sequence.fields"; s] ->
    let s = z_of_hex s in
    hex_of_z (sequence_BlockNumber s) ^ " " ^ hex_of_z (sequence_TxIndex s) ^ " " ^ hex_of_z (sequence_LogIndex s)
  | ["epoch"; l; n] ->
    let l = z_of_hex l and n = z_of_hex n in
    hex_of_z (getCheckPoint l n) ^ " " ^ b2s (isCheckPoint l n) ^ " " ^ hex_of_z (getStorePoint l n)
  | ["isChainSynced"; t; now; blk] -> b2s (isChainSynced (z_of_hex t) (z_of_hex now) (z_of_hex blk))
  | _ -> failwith "bad line"
let () = iter_lines handle
