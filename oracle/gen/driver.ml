(* driver.ml (gen) — evaluates the go2v-generated definitions; cross-check of the translator against the real code.
   input:  NAME arg..   (hex, "-" prefix for negatives)      output: result (hex / 0|1 / none) *)
open Model
open Wire
open Wirez

let b2s b = if b then "1" else "0"
let handle line =
  match split_ws line with
  | ["GasLimit.IsValid"; gl; p] -> b2s (gasLimit_IsValid (z_of_hex gl) (z_of_hex p))
  | ["GasLimit.Qualify"; gl; p] -> hex_of_z (gasLimit_Qualify (z_of_hex gl) (z_of_hex p))
  | ["GasLimit.Adjust"; gl; d] -> hex_of_z (gasLimit_Adjust (z_of_hex gl) (z_of_hex d))
  | ["newSequence"; b; t; l] -> (match newSequence (z_of_hex b) (z_of_hex t) (z_of_hex l) with Some s -> hex_of_z s | None -> "none")
  | ["sequence.fields"; s] ->
    let s = z_of_hex s in
    hex_of_z (sequence_BlockNumber s) ^ " " ^ hex_of_z (sequence_TxIndex s) ^ " " ^ hex_of_z (sequence_LogIndex s)
  | ["epoch"; l; n] ->
    let l = z_of_hex l and n = z_of_hex n in
    hex_of_z (getCheckPoint l n) ^ " " ^ b2s (isCheckPoint l n) ^ " " ^ hex_of_z (getStorePoint l n)
  | ["isChainSynced"; t; now; blk] -> b2s (isChainSynced (z_of_hex t) (z_of_hex now) (z_of_hex blk))
  | ["staker.periodend"; p; s; c] -> b2s (validation_IsPeriodEnd (z_of_hex p) (z_of_hex s) (z_of_hex c))
  | ["staker"; cd; st; p; cp; s; ex; off; lk; pu; q; cdv; w; wt; dstake; dlast; dfirst; cur] ->
    (* fields of validation.Validation / delegation.Delegation in declaration order; "nil" = nil pointer *)
    let zo x = if x = "nil" then None else Some (z_of_hex x) in
    let oz = function Some x -> hex_of_z x | None -> "none" in
    let ob = function Some b -> b2s b | None -> "none" in
    let cd = z_of_hex cd and st = z_of_hex st and p = z_of_hex p and cp = z_of_hex cp and s = z_of_hex s and ex = zo ex and off = zo off
    and lk = z_of_hex lk and pu = z_of_hex pu and q = z_of_hex q and cdv = z_of_hex cdv and w = z_of_hex w and wt = z_of_hex wt
    and dstake = z_of_hex dstake and dlast = zo dlast and dfirst = z_of_hex dfirst and cur = z_of_hex cur in
    String.concat " " [
      b2s (validation_IsOnline off);
      oz (validation_NextPeriodTVL lk pu q);
      oz (validation_CurrentIteration p cp st s cur);
      oz (validation_CompletedIterations p cp st s cur);
      b2s (validation_CooldownEnded cd ex cur);
      hex_of_z (validation_CalculateWithdrawableVET cd ex q cdv w cur);
      hex_of_z (validation_multiplier lk wt);
      ob (delegation_Started dfirst p cp st s cur);
      ob (delegation_Ended dlast dfirst p cp st s cur);
      ob (delegation_IsLocked dstake dlast dfirst p cp st s cur) ]
  | _ -> failwith "bad line"
let () = iter_lines handle
