(* driver.ml (C18) — line protocol for the tx pool accounting oracle; keeps the model pool between lines; no logic.
   reset
   add h origin deleg|- exe(0/1) payer|- cost pgp time limit balance   -> ok|dup|quota|dquota|payer
   rm h                                                                -> 1|0
   promote h                                                           -> 1|0
   fill h origin deleg|- time  [h origin deleg time ...]               -> len
   price h payer cost pgp                                              -> ok
   q addr [addr ...]                                                   -> quota|- cost holds  (per address, ';' separated) *)
open Model
open Wire

let st = ref empty_pool

let opt_n s = if s = "-" then None else Some (n_of_hex s)

let rec fill_objs = function
  | h :: o :: d :: t :: rest ->
    { hash = n_of_hex h; origin = n_of_hex o; delegator = opt_n d; executable = false; price = None; time_added = n_of_hex t }
    :: fill_objs rest
  | [] -> []
  | _ -> failwith "bad fill"

let handle line =
  match split_ws line with
  | ["reset"] -> st := empty_pool; "ok"
  | ["add"; h; o; d; exe; py; c; g; t; limit; bal] ->
    let obj = { hash = n_of_hex h; origin = n_of_hex o; delegator = opt_n d; executable = false; price = None; time_added = n_of_hex t } in
    let pr = (match opt_n py with Some p -> Some { payer = p; pcost = n_of_hex c; pgp = n_of_hex g } | None -> None) in
    let b = n_of_hex bal in
    let (p', r) = add0 !st obj (bool_of_tok exe) pr (n_of_hex limit) (fun _ -> b) in
    st := p';
    (match r with AddOk -> "ok" | AddDuplicate -> "dup" | AddQuota -> "quota" | AddDelegatorQuota -> "dquota" | AddPayer -> "payer")
  | ["rm"; h] -> let (p', r) = remove_by_hash !st (n_of_hex h) in st := p'; tok_of_bool r
  | ["promote"; h] -> let (p', r) = promote !st (n_of_hex h) in st := p'; tok_of_bool r
  | "fill" :: rest -> st := fill !st (fill_objs rest); string_of_int (int_of_nat (length !st.objs))
  | ["price"; h; py; c; g] ->
    st := set_pricing !st (n_of_hex h) { payer = n_of_hex py; pcost = n_of_hex c; pgp = n_of_hex g }; "ok"
  | "q" :: addrs ->
    String.concat " ; " (List.map (fun a ->
        let a = n_of_hex a in
        (match !st.quota a with Some v -> hex_of_n v | None -> "-") ^ " " ^ hex_of_n (aget !st.cost a) ^ " " ^
        tok_of_bool (holds_at !st a)) addrs)
  | _ -> failwith "bad line"

let () =
  try
    while true do
      let line = input_line stdin in
      if String.trim line <> "" then begin
        let out = (try handle line with e -> "ERR " ^ Printexc.to_string e) in
        print_string out; print_char '\n'; flush stdout
      end
    done
  with End_of_file -> flush stdout
