(* driver.ml (C18) — line protocol for the tx pool accounting oracle; keeps the model pool between lines; no logic.
   reset
   add h origin deleg|- exe(0/1) payer|- cost pgp time limit balance local -> ok|dup|quota|dquota|payer
   rm h                                                                -> 1|0
   promote h oid                                                       -> 1|0   (oid = time-added stamp of the object: its identity)
   fill h origin deleg|- time local [h origin deleg time local ...]               -> len
   price h oid payer cost pgp                                          -> ok
   q addr [addr ...]                                                   -> quota|- cost holds  (per address, ';' separated) *)
open Model
open Wire

let st = ref empty_pool

let opt_n s = if s = "-" then None else Some (n_of_hex s)

let rec fill_objs = function
  | h :: o :: d :: t :: l :: rest ->
    { hash = n_of_hex h; origin = n_of_hex o; delegator = opt_n d; executable = false; price = None; time_added = n_of_hex t; local_ = bool_of_tok l; oid = n_of_hex t }
    :: fill_objs rest
  | [] -> []
  | _ -> failwith "bad fill"

let handle line =
  match split_ws line with
  | ["reset"] -> st := empty_pool; "ok"
  | ["add"; h; o; d; exe; py; c; g; t; limit; bal; l] ->
    let obj = { hash = n_of_hex h; origin = n_of_hex o; delegator = opt_n d; executable = false; price = None; time_added = n_of_hex t; local_ = bool_of_tok l; oid = n_of_hex t } in
    let pr = (match opt_n py with Some p -> Some { payer = p; pcost = n_of_hex c; pgp = n_of_hex g } | None -> None) in
    let b = n_of_hex bal in
    let (p', r) = add0 !st obj (bool_of_tok exe) pr (n_of_hex limit) (fun _ -> b) in
    st := p';
    (match r with AddOk -> "ok" | AddDuplicate -> "dup" | AddQuota -> "quota" | AddDelegatorQuota -> "dquota" | AddPayer -> "payer")
  | ["rm"; h] -> let (p', r) = remove_by_hash !st (n_of_hex h) in st := p'; tok_of_bool r
  | ["promote"; h; id] -> let (p', r) = promote !st (n_of_hex h) (n_of_hex id) in st := p'; tok_of_bool r
  | "fill" :: rest -> st := fill !st (fill_objs rest); string_of_int (int_of_nat (length !st.objs))
  | ["price"; h; id; py; c; g] ->
    st := set_pricing !st (n_of_hex h) (n_of_hex id) { payer = n_of_hex py; pcost = n_of_hex c; pgp = n_of_hex g }; "ok"
  | "wash" :: limit :: rest ->
    (* wash LIMIT h:blocked:outlived:verdict ... | payer=energy ...   verdict = E<class> | N | Y | Y,payer,cost,pgp
       the model pool is NOT advanced (the harness replays the observed transitions afterwards) *)
    let (objs_t, en_t) = (match split_on "|" rest with [a; b] -> (a, b) | [a] -> (a, []) | _ -> failwith "bad wash") in
    let tbl = Hashtbl.create 64 in
    List.iter (fun tok -> match String.split_on_char ':' tok with
        | [h; b; o; v] ->
          let ev = if v = "N" then EvNo
            else if v.[0] = 'E' then EvErr (n_of_hex (String.sub v 1 (String.length v - 1)))
            else (match String.split_on_char ',' v with
                | ["Y"] -> EvYes None
                | ["Y"; py; c; g] -> EvYes (Some { payer = n_of_hex py; pcost = n_of_hex c; pgp = n_of_hex g })
                | _ -> failwith "bad verdict") in
          Hashtbl.replace tbl h (bool_of_tok b, bool_of_tok o, ev)
        | _ -> failwith "bad wash object") objs_t;
    let en = Hashtbl.create 16 in
    List.iter (fun tok -> match String.split_on_char '=' tok with
        | [a; v] -> Hashtbl.replace en a (n_of_hex v) | _ -> failwith "bad energy") en_t;
    let look o = (match Hashtbl.find_opt tbl (hex_of_n o.hash) with Some x -> x | None -> failwith "wash: object without verdict") in
    let env = { w_blocked = (fun o -> let (b, _, _) = look o in b); w_outlived = (fun o -> let (_, x, _) = look o in x);
                w_eval = (fun o -> let (_, _, e) = look o in e); w_refresh = (fun _ -> None);
                w_energy = (fun a -> match Hashtbl.find_opt en (hex_of_n a) with Some v -> v | None -> N0);
                w_limit = nat_of_int (int_of_string limit) } in
    let r = wash env !st in
    let reason = function RBlocked -> "blocked" | ROutlived -> "outlived" | REvalErr c -> "err" ^ hex_of_n c
                        | RLimitNonExecAll -> "lim1n" | RLimitExecTail -> "lim1e" | RLimitTotal -> "lim2"
                        | RLimitNonExec -> "lim3" | RUnpayable -> "unpay" in
    "pub " ^ String.concat " " (List.map (fun o -> hex_of_n o.hash) r.wr_published) ^ " | rm " ^
    String.concat " " (List.sort compare (List.map (fun (h, x) -> hex_of_n h ^ ":" ^ reason x) r.wr_removed))
  | "adm" :: rest ->
    (* adm next gaslimit nexttime vip191 galactica blocklist known dep(-|n|0|1)
         | id gas ref exp legacy delegated unknownfeat dep(-|id) tagok originblocked delegextract delegblocked
         | feeok energy_at_next_time
         | gas_used gas_limit time energy_at_flow_time minfee effprio processed_self(0/1) processed_dep(-|0|1) *)
    (match split_on "|" rest with
     | [ [next; gl; nt; v191; gal; bl; known; depst];
         [id; gas; rf; ex; legacy; deleg; unk; dep; tag; ob; dx; db];
         [feeok; en1];
         [gu; fgl; ft; en2; minfee; effp; pself; pdep] ] ->
       let b = bool_of_tok in
       let depo = opt_n dep in
       let t = { t_id = n_of_hex id; t_gas = n_of_hex gas; t_blockref = n_of_hex rf; t_expiration = n_of_hex ex;
                 t_legacy = b legacy; t_delegated = b deleg; t_unknown_features = b unk; t_dep = depo;
                 t_chain_tag_ok = b tag; t_origin_blocked = b ob; t_deleg_extractable = b dx; t_deleg_blocked = b db } in
       let tri s = if s = "-" || s = "n" then None else Some (b s) in
       let h = { h_next = n_of_hex next; h_gas_limit = n_of_hex gl; h_next_time = n_of_hex nt; h_vip191 = n_of_hex v191;
                 h_galactica = n_of_hex gal; h_blocklist = n_of_hex bl;
                 h_known = (fun _ _ -> b known); h_dep = (fun _ -> tri depst) } in
       let ntime = n_of_hex nt in
       let fee_ok () _ = b feeok in
       let energy_ok () tm _ = if tm = ntime then b en1 else b en2 in
       let f = { f_gas_used = n_of_hex gu; f_gas_limit = n_of_hex fgl; f_time = n_of_hex ft; f_state = ();
                 f_processed = (fun i -> if i = t.t_id then (if b pself then Some false else None)
                                 else (match depo with Some d when d = i -> tri pdep | _ -> None));
                 f_min_priority_fee = n_of_hex minfee } in
       let ev = evaluate fee_ok energy_ok (n_of_int 30) h () t in
       let ad = adopt fee_ok energy_ok (fun () _ -> n_of_hex effp) h f t in
       let evs = (match ev with VExecutable -> "exec" | VNotYet -> "notyet"
                               | VErr e -> "err:" ^ (match e with EGasAboveBlockLimit -> "gas" | EExpired -> "expired"
                                   | ERefOutOfSchedule -> "schedule" | ETypeNotSupported -> "type" | EFeatures -> "features"
                                   | EKnownTx -> "known" | EDepReverted -> "depreverted" | EBuyGas -> "buygas")) in
       let ads = (match ad with AOk -> "ok" | ABad _ -> "bad" | ANotNow _ -> "notnow" | AGasLimitReached -> "gaslimit"
                               | AKnownTx -> "known" | ANotForever -> "forever") in
       evs ^ " " ^ ads ^ " " ^ tok_of_bool (pool_static t)
     | _ -> failwith "bad adm")
  | "q" :: addrs ->
    String.concat " ; " (List.map (fun a ->
        let a = n_of_hex a in
        (match !st.quota a with Some v -> hex_of_n v | None -> "-") ^ " " ^ hex_of_n (aget !st.cost a) ^ " " ^
        tok_of_bool (holds_at !st a)) addrs)
  | _ -> failwith "bad line"

let () =
  try
    while true do
      let line = input_line stdin in
      if String.trim line <> "" then begin
        let out = (try handle line with e -> "ERR " ^ Printexc.to_string e) in
        print_string out; print_char '\n'; flush stdout
      end
    done
  with End_of_file -> flush stdout
