(* driver.ml (C09/C14) — session line protocol for the repository model; no logic, only parsing/printing.
   One request per line, one answer line.  Numbers are hex; counts are decimal.
     INIT g gparent tag
     ADD conf best BLOCK                   -> ok | parent-missing
     VAL BLOCK                             -> verdict
     ID h n | HASB h id | EX c o | META h x | HTX h x ref | HTXI h x | TX h x | RC h x | READ pos
     HEADS from | CONF n | BEST
   BLOCK = id parent time ntx TX*          TX = id tag ref exp dep|- origin rev nouts OUT*
   OUT = nev EV* ntr TR*                   EV = addr ntopics topic* dlen data      TR = from to amount *)
open Model
open Wire

let toks = ref []
let next () = match !toks with x :: t -> toks := t; x | [] -> failwith "short line"
let nx () = n_of_hex (next ())
let cnt () = int_of_string (next ())
let rec times k f = if k <= 0 then [] else let x = f () in x :: times (k - 1) f

let p_ev () =
  let a = nx () in let nt = cnt () in let ts = times nt nx in let dl = nx () in let d = nx () in
  { ev_addr = a; ev_topics = ts; ev_dlen = dl; ev_data = d }
let p_tr () = let f = nx () in let t = nx () in let a = nx () in { tr_from = f; tr_to = t; tr_amount = a }
let p_out () = let ne = cnt () in let evs = times ne p_ev in let nt = cnt () in let trs = times nt p_tr in (evs, trs)
let p_tx () =
  let id = nx () in let tag = nx () in let r = nx () in let e = nx () in
  let dep = (match next () with "-" -> None | s -> Some (n_of_hex s)) in
  let o = nx () in let rv = bool_of_tok (next ()) in
  let no = cnt () in let outs = times no p_out in
  ({ tx_id = id; tx_tag = tag; tx_ref = r; tx_exp = e; tx_dep = dep; tx_origin = o }, { rc_rev = rv; rc_outs = outs })
let p_block () =
  let id = nx () in let p = nx () in let tm = nx () in let n = cnt () in
  let l = times n p_tx in
  { b_id = id; b_parent = p; b_time = tm; b_txs = List.map fst l; b_rcs = List.map snd l }

let state : repo option ref = ref None
let st () = match !state with Some r -> r | None -> failwith "no INIT"

let show_res f = function Ok a -> f a | NotFound -> "nf" | Fail -> "err"
let show_meta e = String.concat "," [hex_of_n e.e_num; hex_of_n e.e_conf; hex_of_n e.e_idx; tok_of_bool e.e_rev]
let show_verdict = function
  | V_ok -> "ok" | V_tag -> "tag" | V_future -> "future" | V_expired -> "expired" | V_exists -> "exists"
  | V_depbroken -> "depbroken" | V_deprev -> "deprev" | V_fail -> "fail"
let ids l = String.concat "," (List.map hex_of_n l)

let handle line =
  toks := split_ws line;
  match next () with
  | "INIT" -> let g = nx () in let gp = nx () in let tag = nx () in state := Some (init_repo g gp tag); "ok"
  | "ADD" ->
    let conf = nx () in let best = bool_of_tok (next ()) in let b = p_block () in
    (match add_block (st ()) b conf best with Some r -> state := Some r; "ok" | None -> "parent-missing")
  | "VAL" -> let b = p_block () in show_verdict (validate (st ()) b)
  | "ID" -> let h = nx () in let n = nx () in show_res (fun a -> "ok:" ^ hex_of_n a) (get_block_id (st ()) h n)
  | "HASB" -> let h = nx () in let i = nx () in show_res tok_of_bool (has_block (st ()) h i)
  | "EX" -> let c = nx () in let o = nx () in show_res (fun l -> "ok:" ^ ids l) (exclude (st ()) c o)
  | "META" -> let h = nx () in let x = nx () in show_res (fun e -> "ok:" ^ show_meta e) (get_tx_meta (st ()) h x)
  | "HTX" -> let h = nx () in let x = nx () in let r = nx () in show_res tok_of_bool (has_transaction (st ()) h x r)
  | "HTXI" -> let h = nx () in let x = nx () in show_res tok_of_bool (has_tx_indexed (st ()) h x)
  | "TX" -> let h = nx () in let x = nx () in
    show_res (fun (e, t) -> "ok:" ^ show_meta e ^ "," ^ hex_of_n t.tx_id) (get_transaction (st ()) h x)
  | "RC" -> let h = nx () in let x = nx () in show_res (fun rc -> "ok:" ^ tok_of_bool rc.rc_rev) (get_receipt (st ()) h x)
  | "READ" -> let p = nx () in
    show_res (fun (l, np) ->
        "ok:" ^ String.concat "," (List.map (fun (i, o) -> hex_of_n i ^ "/" ^ tok_of_bool o) l) ^ ";" ^ hex_of_n np)
      (read (st ()) p)
  | "HEADS" -> let f = nx () in ids (scan_heads (st ()) f)
  | "CONF" -> let n = nx () in hex_of_n (scan_conflicts (st ()) n) ^ ":" ^ ids (get_conflicts (st ()) n)
  | "BEST" -> hex_of_n (r_best (st ()))
  | c -> failwith ("unknown command " ^ c)

let () = iter_lines handle
