(* driver.ml (C07 / C08) — line protocol for the transaction-wrapper / ledger / base-fee oracle; no logic of its own.
   TX | T S number galactica gaslimit bf|- bgp ratio benef interval
      | dyn gas coef maxfee maxprio origin sigok deleg|- delegok refnum pwctx pwfin ctxerr
      | (to|- zeros nonzeros value)*            clauses
      | credit sponsor issponsor isuser         prototype binding of the common To (inputs)
      | tadd tsub (addr bal eng bt)*            pre-state ledger
      | left refund err op* ; left refund err op* ; ...     observed clause results (the EVM is not modelled); op = t s r amt | m s r amt | x c r
      | addr*                                   addresses to report
   ->  F err | (bal eng)* | tadd tsub
   or  D gasUsed paid reward reverted nOutputs payer price credit|- | (gin used refund)* | (bal eng)* | tadd tsub
   AD | <the TX sections> | blocklist minprio used (id reverted)* | oblk dblk featok tagok exp id dep|- chainhas chaindep(-|0|1)
      packer Flow.Adopt in full (adopt_full) ->  R class | views | tadd tsub   or   A <as D> | used
   DS T S benef deleg reward perc hasDelegations  ->  benefShare delegShare issued      (energy.DistributeRewards)
   BF galactica pnum gasLimit gasUsed parentBaseFee  ->  none | fee x | panic
   numbers are hex; the clause oracle given to the model is the lookup table of the observed results (gas left, refund counter, error,
   the ledger primitives visible in the receipt). *)
open Model
open Wire

let z s =
  if String.length s > 0 && s.[0] = '-' then
    (match z_of_n (n_of_hex (String.sub s 1 (String.length s - 1))) with Zpos p -> Zneg p | x -> x)
  else z_of_n (n_of_hex s)
let zs v = (if z_is_neg v then "-" else "") ^ hex_of_n (n_of_z v)
let zopt s = if s = "-" then None else Some (z s)

let rec parse_clauses = function
  | t :: zz :: nz :: v :: rest -> { c_to = zopt t; c_zeros = z zz; c_nonzeros = z nz; c_value = z v } :: parse_clauses rest
  | [] -> []
  | _ -> failwith "bad clause list"

let rec parse_accs = function
  | a :: b :: e :: t :: rest -> (z a, { a_bal = z b; a_eng = z e; a_bt = z t }) :: parse_accs rest
  | [] -> []
  | _ -> failwith "bad account list"

let rec parse_ops = function
  | "t" :: s :: r :: a :: rest -> OTransfer (z s, z r, z a) :: parse_ops rest
  | "m" :: s :: r :: a :: rest -> OEnergyMove (z s, z r, z a) :: parse_ops rest
  | "x" :: c :: r :: rest -> OSuicide (z c, z r) :: parse_ops rest
  | [] -> []
  | _ -> failwith "bad op list"

let err_name = function
  | ErrOrigin -> "origin" | ErrIntrinsicOverflow -> "intrinsic-overflow" | ErrGasBelowIntrinsic -> "gas-below-intrinsic"
  | ErrDelegator -> "delegator" | ErrNegativeValue -> "negative-value" | ErrValueTooLarge -> "value-too-large"
  | ErrFeeField -> "fee-field" | ErrBlockGasLimit -> "block-gas-limit" | ErrPanicNilBaseFee -> "panic"
  | ErrPriceBelowBaseFee -> "price-below-basefee" | ErrInsufficientEnergy -> "insufficient-energy" | ErrContext -> "context"

let views t s l addrs = String.concat " " (List.map (fun a -> let (b, e) = view t s l (z a) in zs b ^ " " ^ zs e) addrs)

let handle_tx secs =
  match secs with
  | envs :: txs :: cls :: cis :: accs :: obs :: vaddrs :: extra ->
    let e = match envs with
      | [t; s; num; gal; gl; bf; bgp; ratio; benef; itv] ->
        { e_time = z t; e_stop = z s; e_number = z num; e_galactica = z gal; e_gas_limit = z gl; e_base_fee = zopt bf;
          e_bgp = z bgp; e_reward_ratio = z ratio; e_benef = z benef; e_interval = z itv }
      | _ -> failwith "bad env" in
    let tx = match txs with
      | [dyn; gas; coef; mf; mp; origin; sigok; deleg; delegok; refnum; pwc; pwf; ctxerr] ->
        { t_dynamic = bool_of_tok dyn; t_gas = z gas; t_clauses = parse_clauses cls; t_coef = z coef; t_max_fee = z mf;
          t_max_prio = z mp; t_origin = z origin; t_sig_ok = bool_of_tok sigok; t_delegator = zopt deleg;
          t_delegator_ok = bool_of_tok delegok; t_ref_num = z refnum; t_pw_ctx = z pwc; t_pw_fin = z pwf;
          t_ctx_err = bool_of_tok ctxerr }
      | _ -> failwith "bad tx" in
    let ci = match cis with
      | [c; sp; issp; isu] -> { k_credit = z c; k_sponsor = z sp; k_is_sponsor = bool_of_tok issp; k_is_user = bool_of_tok isu }
      | _ -> failwith "bad credit info" in
    let led = match accs with
      | ta :: ts :: rest -> ledger_of (parse_accs rest) (z ta) (z ts) Z0
      | _ -> failwith "bad ledger" in
    let table = Array.of_list (List.map (fun g -> match g with
        | l :: r :: er :: ops -> (z l, z r, bool_of_tok er, parse_ops ops)
        | _ -> failwith "bad clause observation") (List.filter (fun g -> g <> []) (split_on ";" obs))) in
    let oracle _env _tx i _gas (st : credit_log state) =
      let k = int_of_nat i in
      if k >= Array.length table then failwith "model executes a clause the implementation did not" else
      let (l, r, er, ops) = table.(k) in
      { cr_left = l; cr_refund = r; cr_err = er; cr_ops = ops; cr_world = snd st; cr_out = i } in
    let tail l = zs l.l_add ^ " " ^ zs l.l_sub in
    let show_done tag st rc =
       String.concat " " [ tag; zs rc.r_gas_used; zs rc.r_paid; zs rc.r_reward; tok_of_bool rc.r_reverted;
                           string_of_int (List.length rc.r_outputs); zs rc.r_payer; zs rc.r_price;
                           (match rc.r_credit with Some c -> zs c | None -> "-"); "|" ]
       ^ " " ^ String.concat " " (List.map (fun ((g, u), r) -> zs g ^ " " ^ zs u ^ " " ^ zs r) rc.r_clause_log)
       ^ " | " ^ views e.e_time e.e_stop (fst st) vaddrs ^ " | " ^ tail (fst st) in
    (match extra with
     | [] ->
       (match exec_tx oracle log_credit e tx ci (led, []) with
        | Failed (er, st) ->
          "F " ^ err_name er ^ " | " ^ views e.e_time e.e_stop (fst st) vaddrs ^ " | " ^ tail (fst st)
        | Done (st, rc) -> show_done "D" st rc)
     | [ flow; ais ] ->
       (* AD: packer Flow.Adopt in full.  flow = blocklist minprio used (id reverted)* ; ai = oblk dblk featok tagok exp id dep|- chainhas chaindep(-|0|1) *)
       let (fe, fs) = match flow with
         | bl :: mp :: used :: rest ->
           let rec pr = function i :: r :: t -> (z i, bool_of_tok r) :: pr t | [] -> [] | _ -> failwith "bad processed list" in
           ({ fe_blocklist = z bl; fe_min_prio = z mp }, { fs_used = z used; fs_processed = pr rest })
         | _ -> failwith "bad flow section" in
       let ai = match ais with
         | [ob; db; fo; tg; ex; id; dep; ch; cd] ->
           { ai_origin_blocked = bool_of_tok ob; ai_delegator_blocked = bool_of_tok db; ai_features_ok = bool_of_tok fo;
             ai_chain_tag_ok = bool_of_tok tg; ai_expiration = z ex; ai_id = z id; ai_depends_on = zopt dep;
             ai_chain_has_tx = bool_of_tok ch; ai_chain_dep = (if cd = "-" then None else Some (bool_of_tok cd)) }
         | _ -> failwith "bad adopt-in section" in
       (match adopt_full oracle log_credit e fe fs tx ai ci (led, []) with
        | FRejected (c, st) ->
          "R " ^ (match c with AcBadTx -> "bad-tx" | AcNotAdoptableNow -> "not-adoptable-now" | AcGasLimitReached -> "gas-limit-reached"
                              | AcKnownTx -> "known-tx" | AcNotAdoptableForever -> "not-adoptable-forever" | AcOtherError -> "other")
          ^ " | " ^ views e.e_time e.e_stop (fst st) vaddrs ^ " | " ^ tail (fst st)
        | FAdopted (st, rc, fs') -> show_done "A" st rc ^ " | " ^ zs fs'.fs_used)
     | _ -> failwith "bad trailing sections")
  | _ -> failwith "bad TX line"

let handle line =
  match split_on "|" (split_ws line) with
  | [ "TX" ] :: rest -> handle_tx rest
  | [ "AD" ] :: rest -> handle_tx rest
  | [ [ "DS"; t; s; benef; deleg; reward; perc; hd ] ] ->
    (* energy.DistributeRewards on an empty ledger: the shares credited to the beneficiary and the delegator contract, issued *)
    let l = distribute (z t) (z s) (ledger_of [] Z0 Z0 Z0) (z benef) (z deleg) (z reward) (z perc) (bool_of_tok hd) in
    let e a = snd (view (z t) (z s) l (z a)) in
    zs (e benef) ^ " " ^ zs (e deleg) ^ " " ^ zs l.l_issued
  | [ [ "BF"; gal; pnum; gl; gu; pb ] ] ->
    (match calc_base_fee (z gal) (z pnum) (z gl) (z gu) (z pb) with
     | BfNone -> "none" | BfFee x -> "fee " ^ zs x | BfPanics -> "panic")
  | _ -> failwith "bad line"

(* like Wire.iter_lines, but flushing after every answer: the Adopt differential asks line by line (the next line depends on the answer) *)
let () =
  (try
     while true do
       let line = input_line stdin in
       if String.trim line <> "" then begin
         let out = (try handle line with e -> "ERR " ^ Printexc.to_string e) in
         print_string out; print_char '\n'; flush stdout
       end
     done
   with End_of_file -> ());
  flush stdout
