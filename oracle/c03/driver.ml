(* driver.ml (C03/C04) — line protocol for the bft oracle; no logic of its own.
   RUN guard L mbp pos total [finality] | signer weight .. | genesis: id parent signer com score | master .. | ev ; ev ; ..
       ev = I node id parent signer com score | P node id parent signer com score | R node
     -> one observation per event, separated by ';':  code pre best finalized justified vote quality justified? committed?
   JUS pq tv tw | signer com weight ..   -> quality justified committed #votes comVotes comWeight justifiedWeight
   (numbers in hex; (bool,error) as 1 / 0 / E<code>; (id,error) as hex / E<code>) *)
open Model
open Wire

let blk_of = function
  | [id; parent; signer; com; score] ->
    { b_id = n_of_hex id; b_parent = n_of_hex parent; b_signer = n_of_hex signer; b_com = bool_of_tok com; b_score = n_of_hex score }
  | _ -> failwith "bad block"

let rec pairs = function a :: b :: t -> (n_of_hex a, n_of_hex b) :: pairs t | [] -> [] | _ -> failwith "odd pairs"
let rec triples = function
  | s :: c :: w :: t -> (n_of_hex s, (bool_of_tok c, n_of_hex w)) :: triples t | [] -> [] | _ -> failwith "bad votes"

let show_rb = function Ok b -> tok_of_bool b | Err c -> "E" ^ hex_of_n c
let show_rn = function Ok x -> hex_of_n x | Err c -> "E" ^ hex_of_n c

let show_obs = function
  | None -> "none"
  | Some o ->
    String.concat " " [hex_of_n o.o_code; show_rb o.o_pre; hex_of_n o.o_best; hex_of_n o.o_fin; show_rn o.o_just;
                       show_rb o.o_vote; hex_of_n o.o_q; tok_of_bool o.o_j; tok_of_bool o.o_c]

let event_of = function
  | "I" :: node :: b -> EImport (nat_of_int (int_of_string ("0x" ^ node)), blk_of b)
  | "P" :: node :: b -> EPropose (nat_of_int (int_of_string ("0x" ^ node)), blk_of b)
  | ["R"; node] -> ERestart (nat_of_int (int_of_string ("0x" ^ node)))
  | _ -> failwith "bad event"

let handle line =
  match split_on "|" (split_ws line) with
  | [ "RUN" :: guard :: l :: mbp :: pos :: total :: fin; ws; gen; masters; evs ] ->
    let f = (match fin with [] -> n_of_hex "0" | [x] -> n_of_hex x | _ -> failwith "bad RUN header") in
    let c = { c_L = n_of_hex l; c_mbp = n_of_hex mbp; c_pos = bool_of_tok pos; c_total = n_of_hex total; c_w = pairs ws } in
    let g = blk_of gen in
    let w = List.map (fun m -> init_node g (n_of_hex m)) masters in
    let evs = List.filter (fun e -> e <> []) (split_on ";" evs) in
    let (_, os) = run_f f (bool_of_tok guard) c w (List.map event_of evs) in
    String.concat " ; " (List.map show_obs os)
  | [ ["JUS"; pq; tv; tw]; votes ] ->
    let js = tally_votes (n_of_hex pq) (n_of_hex tv) (n_of_hex tw) (triples votes) in
    let st = summarize js in
    String.concat " " [hex_of_n st.s_q; tok_of_bool st.s_just; tok_of_bool st.s_comm;
                       string_of_int (List.length js.j_votes); hex_of_n js.j_com; hex_of_n js.j_comw; hex_of_n js.j_jw]
  | _ -> failwith "bad line"

let () = iter_lines handle
