(* driver.ml (C13, C20) — line protocol for the crash / reader oracle; no logic of its own: it parses block descriptors,
   keeps the values the model returned (configuration, genesis store, block list) and prints what the model computes.
   G L | <blk>          genesis: sets cfg (epoch length L, genesis id) and the initial store; prints the genesis writes
   I <blk>              appends the block to the history; prints the writes the model issues for it on the uninterrupted run
   U                    uninterrupted run of the whole history: best fin tallies
   X rep k              crash after the first k writes of the history, restart: "best fin readable" or "fail"
   R rep k i            crash after k writes, restart, resume with the blocks from index i on: best fin tallies
   S                    reader view after every step of the history: "best/fin/complete" per step
   B                    reader view just before every (non-empty) atomic write of the history and at the end
   Q                    number of store writes issued by the read-only queries on the final state
   <blk> ::= id parent score just comm | T (txid tblob rblob mblob)* | C (hash blob)* | S (nid blob)* {; (nid blob)*} |
             A (nid blob)* | N (nid blob)* | K key* | J key*           (numbers in hex)
   key   ::= n:cls:nid:maj:min | c:h | s:id | t:num:conf:idx | r:num:conf:idx | m:txid:num:conf | f:pfx | h:id | b | q:id | z *)
open Model
open Wire

let key_of_tok (t : string) : key =
  match String.split_on_char ':' t with
  | ["n"; a; b; c; d] -> KNode (n_of_hex a, n_of_hex b, n_of_hex c, n_of_hex d)
  | ["c"; h] -> KCode (n_of_hex h)
  | ["s"; i] -> KSummary (n_of_hex i)
  | ["t"; a; b; c] -> KTx (n_of_hex a, n_of_hex b, n_of_hex c)
  | ["r"; a; b; c] -> KReceipt (n_of_hex a, n_of_hex b, n_of_hex c)
  | ["m"; a; b; c] -> KTxMeta (n_of_hex a, n_of_hex b, n_of_hex c)
  | ["f"; p] -> KTxFilter (n_of_hex p)
  | ["h"; i] -> KHead (n_of_hex i)
  | ["b"] -> KBest
  | ["q"; i] -> KQuality (n_of_hex i)
  | ["z"] -> KFinalized
  | _ -> failwith ("bad key " ^ t)

let h = hex_of_n
let tok_of_key = function
  | KNode (a, b, c, d) -> String.concat ":" ["n"; h a; h b; h c; h d]
  | KCode x -> "c:" ^ h x
  | KSummary i -> "s:" ^ h i
  | KTx (a, b, c) -> String.concat ":" ["t"; h a; h b; h c]
  | KReceipt (a, b, c) -> String.concat ":" ["r"; h a; h b; h c]
  | KTxMeta (a, b, c) -> String.concat ":" ["m"; h a; h b; h c]
  | KTxFilter p -> "f:" ^ h p
  | KHead i -> "h:" ^ h i
  | KBest -> "b"
  | KQuality i -> "q:" ^ h i
  | KFinalized -> "z"

let tok_of_val = function
  | VBlob d -> h d
  | VSum _ -> "S"
  | VId i -> "I" ^ h i
  | VNum q -> "N" ^ h q

let tok_of_op = function
  | Put (k, v) -> "P" ^ tok_of_key k ^ "=" ^ tok_of_val v
  | Del k -> "D" ^ tok_of_key k

let show_batches (ws : op list list) : string =
  String.concat " | " (List.map (fun w -> String.concat " " (List.map tok_of_op w)) ws)

let rec pairs = function a :: b :: t -> (n_of_hex a, n_of_hex b) :: pairs t | [] -> [] | _ -> failwith "odd pairs"
let rec quads = function
  | a :: b :: c :: d :: t -> { t_id = n_of_hex a; t_blob = n_of_hex b; t_rcpt = n_of_hex c; t_meta = n_of_hex d } :: quads t
  | [] -> [] | _ -> failwith "bad tx list"
let tl = function _ :: r -> r | [] -> []

let parse_blk (secs : string list list) : blk =
  match secs with
  | [ [id; parent; score; just; comm]; t; c; s; a; n; k; j ] ->
    { b_id = n_of_hex id; b_parent = n_of_hex parent;
      b_txs = quads (tl t);
      b_codes = pairs (tl c);
      b_storage = (match tl s with [] -> [] | l -> List.map pairs (split_on ";" l));
      b_account = pairs (tl a);
      b_index = pairs (tl n);
      b_skeep = List.map key_of_tok (tl k);
      b_ikeep = List.map key_of_tok (tl j);
      b_score = n_of_hex score; b_just = bool_of_tok just; b_comm = bool_of_tok comm }
  | _ -> failwith "bad block descriptor"

let cfg0 = ref { c_L = n_of_int 1; c_g = N0 }
let store0 : op list ref = ref []
let hist : blk list ref = ref []        (* newest first *)
let cur : op list ref = ref []          (* store of the uninterrupted run so far *)

(* the writes of the uninterrupted run of the current history, computed once: [crash c s0 hist k] is by definition
   [apply_writes s0 (firstn k (writes_of c s0 hist))] *)
let all_writes : op list list option ref = ref None
let crash_at k =
  let ws = match !all_writes with
    | Some w -> w
    | None -> let w = writes_of !cfg0 !store0 (List.rev !hist) in all_writes := Some w; w in
  apply_writes !store0 (take k ws)

let show_tallies c s =
  let l = List.map (fun (i, q) -> (h i, h q)) (tallies c s) in
  let l = List.sort compare l in
  String.concat "," (List.map (fun (i, q) -> i ^ "=" ^ q) l)

let show_node c s =
  match get_id s KBest with
  | Some b -> h b ^ " " ^ h (finalized c s) ^ " " ^ show_tallies c s
  | None -> "nobest"

let handle line =
  match split_on "|" (split_ws line) with
  | ["G"; l] :: rest ->
    let b = parse_blk rest in
    cfg0 := { c_L = n_of_hex l; c_g = b.b_id };
    store0 := genesis_store b; cur := !store0; hist := []; all_writes := None;
    "ok"
  | ("I" :: hd) :: rest ->
    let b = parse_blk (hd :: rest) in
    let ws = import_writes !cfg0 !cur b in
    cur := run1 !cfg0 !cur b; hist := b :: !hist; all_writes := None;
    show_batches ws
  | [["U"]] -> show_node !cfg0 (run !cfg0 !store0 (List.rev !hist))
  | [["X"; rep; k]] ->
    let c = !cfg0 in
    let s = crash_at (int_of_string k) in
    (match restart c (bool_of_tok rep) s with
     | Some ((s', best), fin) -> h best ^ " " ^ h fin ^ " " ^ tok_of_bool (readable s' best)
     | None -> "fail")
  | [["R"; rep; k; i]] ->
    let c = !cfg0 in
    let l = List.rev !hist in
    let s = crash_at (int_of_string k) in
    (match resume c (bool_of_tok rep) s (drop (int_of_string i) l) with
     | Some s' -> show_node c s'
     | None -> "fail")
  | [["S"]] ->
    let c = !cfg0 in
    let steps = steps_of c !store0 (List.rev !hist) in
    let g = c.c_g in
    let y0 = { y_store = !store0; y_best = g; y_fin = g } in
    let _, outs = List.fold_left (fun (y, acc) st ->
        let y' = do_step y st in
        (y', (h y'.y_best ^ "/" ^ h y'.y_fin ^ "/" ^ tok_of_bool (readable y'.y_store y'.y_best)) :: acc)) (y0, []) steps in
    String.concat " " (List.rev outs)
  | [["B"]] ->
    (* reader view (published best / finalized, completeness of best) just before every atomic write, and at the end *)
    let c = !cfg0 in
    let steps = steps_of c !store0 (List.rev !hist) in
    let g = c.c_g in
    let y0 = { y_store = !store0; y_best = g; y_fin = g } in
    let show y = h y.y_best ^ "/" ^ h y.y_fin ^ "/" ^ tok_of_bool (readable y.y_store y.y_best) in
    let yl, outs = List.fold_left (fun (y, acc) st ->
        let acc' = (match st with SWrite [] -> acc | SWrite _ -> show y :: acc | _ -> acc) in
        (do_step y st, acc')) (y0, []) steps in
    String.concat " " (List.rev (show yl :: outs))
  | [["Q"]] ->
    let c = !cfg0 in
    let s = run c !store0 (List.rev !hist) in
    let best = match get_id s KBest with Some b -> b | None -> c.c_g in
    let y = { y_store = s; y_best = best; y_fin = finalized c s } in
    let qs = [QBest; QFinalized; QJustifiedQuality; QBlock best; QBlockID (best, N0); QState best] in
    string_of_int (List.fold_left (fun n q -> n + List.length (fst (query_steps c y q))) 0 qs)
  | _ -> failwith "bad line"

let () = iter_lines handle
