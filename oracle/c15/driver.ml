(* driver.ml (C15) — session line protocol for the log index model driven by the repository model; no logic.
     INIT g gparent tag
     ADD conf best BLOCK        -> ok | parent-missing          (a block that does not become best: repository only)
     IMP conf BLOCK             -> ok | err | parent-missing    (a block that becomes best: writeLogs, then AddBlock)
     EVS | TRS                  -> all rows (nil filter)
     FE desc hasrange from to haspage off lim ncrit (addr|- t0|- t1|- t2|- t3|- t4|-)*
     FT desc hasrange from to haspage off lim ncrit (origin|- sender|- recipient|-)*
     DBRESET                    -> ok                            (empty tables; the repository stays)
     DBW id                     -> ok | err | missing            (Writer.Write of a stored block into the tables)
     DBT n                      -> ok | err                      (Writer.Truncate)
     SEEK                       -> ok:<pos> | err                (seekLogDBSyncPosition)
     VERIFY end                 -> ok | err                      (verifyLogDB)
     SYNC verify                -> ok | err                      (syncLogDB; the tables are replaced on ok)
   BLOCK as in the C09 driver.  Rows: blocknum,txindex,logindex,blockid,time,txid,origin,clause,... ; '|' separated *)
open Model
open Wire

let toks = ref []
let next () = match !toks with x :: t -> toks := t; x | [] -> failwith "short line"
let nx () = n_of_hex (next ())
let cnt () = int_of_string (next ())
let rec times k f = if k <= 0 then [] else let x = f () in x :: times (k - 1) f
let opt () = match next () with "-" -> None | s -> Some (n_of_hex s)

let p_ev () =
  let a = nx () in let nt = cnt () in let ts = times nt nx in let dl = nx () in let d = nx () in
  { ev_addr = a; ev_topics = ts; ev_dlen = dl; ev_data = d }
let p_tr () = let f = nx () in let t = nx () in let a = nx () in { tr_from = f; tr_to = t; tr_amount = a }
let p_out () = let ne = cnt () in let evs = times ne p_ev in let nt = cnt () in let trs = times nt p_tr in (evs, trs)
let p_tx () =
  let id = nx () in let tag = nx () in let r = nx () in let e = nx () in
  let dep = opt () in
  let o = nx () in let rv = bool_of_tok (next ()) in
  let no = cnt () in let outs = times no p_out in
  ({ tx_id = id; tx_tag = tag; tx_ref = r; tx_exp = e; tx_dep = dep; tx_origin = o }, { rc_rev = rv; rc_outs = outs })
let p_block () =
  let id = nx () in let p = nx () in let tm = nx () in let n = cnt () in
  let l = times n p_tx in
  { b_id = id; b_parent = p; b_time = tm; b_txs = List.map fst l; b_rcs = List.map snd l }

let repo_st : repo option ref = ref None
let db_st : logdb ref = ref empty_db
let st () = match !repo_st with Some r -> r | None -> failwith "no INIT"

let h = hex_of_n
let pos s = String.concat "," [h (seq_block s); h (seq_txi s); h (seq_logi s)]
let show_ev (x : evrow) =
  String.concat "," [pos x.er_seq; h x.er_block; h x.er_time; h x.er_tx; h x.er_origin; h x.er_clause; h x.er_addr;
                     String.concat ";" (List.map h x.er_topics); h x.er_dlen ^ ":" ^ h x.er_data]
let show_tr (x : trrow) =
  String.concat "," [pos x.tr_seq; h x.tr_block; h x.tr_time; h x.tr_tx; h x.tr_origin; h x.tr_clause;
                     h x.tr_sender; h x.tr_recipient; h x.tr_amt]
let rows f l = "ok:" ^ String.concat "|" (List.map f l)

let p_opts () =
  let desc = bool_of_tok (next ()) in
  let hr = bool_of_tok (next ()) in let from = nx () in let to_ = nx () in
  let hp = bool_of_tok (next ()) in let off = nx () in let lim = nx () in
  { fo_range = (if hr then Some (from, to_) else None); fo_page = (if hp then Some (off, lim) else None); fo_desc = desc }

let handle line =
  toks := split_ws line;
  match next () with
  | "INIT" -> let g = nx () in let gp = nx () in let tag = nx () in
    repo_st := Some (init_repo g gp tag); db_st := empty_db; "ok"
  | "ADD" ->
    let conf = nx () in let best = bool_of_tok (next ()) in let b = p_block () in
    (match add_block (st ()) b conf best with Some r -> repo_st := Some r; "ok" | None -> "parent-missing")
  | "IMP" ->
    let conf = nx () in let b = p_block () in
    let r = st () in
    let res = (match write_logs r !db_st b (r_best r) with Some db -> db_st := db; "ok" | None -> "err") in
    (match add_block r b conf true with Some r' -> repo_st := Some r'; res | None -> "parent-missing")
  | "EVS" -> rows show_ev (db_events !db_st)
  | "TRS" -> rows show_tr (db_transfers !db_st)
  | "FE" ->
    let o = p_opts () in let n = cnt () in
    let cs = times n (fun () -> let a = opt () in let ts = times 5 opt in { ec_addr = a; ec_topics = ts }) in
    (match filter_events !db_st cs o with Some l -> rows show_ev l | None -> "err")
  | "FT" ->
    let o = p_opts () in let n = cnt () in
    let cs = times n (fun () -> let a = opt () in let b = opt () in let c = opt () in { tc_origin = a; tc_sender = b; tc_recipient = c }) in
    (match filter_transfers !db_st cs o with Some l -> rows show_tr l | None -> "err")
  | "GEN" ->
    (* Writer.Write(genesisBlock, one receipt without tx): the genesis rows written at start-up *)
    let id = nx () in let p = nx () in let tm = nx () in let no = cnt () in let outs = times no p_out in
    let b = { b_id = id; b_parent = p; b_time = tm; b_txs = []; b_rcs = [{ rc_rev = false; rc_outs = outs }] } in
    (match write_block b !db_st with Some db -> db_st := db; "ok" | None -> "err")
  | "DBRESET" -> db_st := empty_db; "ok"
  | "DBW" ->
    let id = nx () in
    (match get_block (st ()) id with
     | Some (_, b) -> (match write_block b !db_st with Some db -> db_st := db; "ok" | None -> "err")
     | None -> "missing")
  | "DBT" -> let n = nx () in (match truncate n !db_st with Some db -> db_st := db; "ok" | None -> "err")
  | "SEEK" -> (match seek_position (st ()) !db_st with Ok p -> "ok:" ^ h p | _ -> "err")
  | "VERIFY" -> let e = nx () in if verify_logdb (st ()) !db_st e then "ok" else "err"
  | "SYNC" ->
    let v = bool_of_tok (next ()) in
    (match sync_logdb_v v (st ()) !db_st with Some db -> db_st := db; "ok" | None -> "err")
  | c -> failwith ("unknown command " ^ c)

let () = iter_lines handle
