(* driver.ml (C06) — line protocol for the trie/state oracle; parsing and printing only.
   Trie line :  T | u<hexkey>=<val>~<meta> | u<hexkey>=  (delete) | g<hexkey> ...
     answer  :  one token per g (val~meta or -), then per handle "| L key=val~meta ..." and "| P path ..." of its final trie
                ("h<i>" selects a handle, "f" forks the selected handle)
   State line:  S rate bt stop | A a:hk ... | K k:hs:trim ... | P a.k ... | op ; op ; ...
     ops     :  bal a v / eng a v bt / mas a m / code a c h / sto a k t / raw a k r / del a / cp / rev n /
                commit major minor reopen / open i / obs
     answer  :  one segment per op joined by " ; " : "." , "cp=<rev>", the sweep for obs, the committed
                content and shape for commit.
   numbers are hex; byte strings are hex or "-" when empty; hk / hs are nibble strings (terminator added here). *)
open Model
open Wire

let nib_of_char c = match c with
  | '0'..'9' -> Char.code c - 48
  | 'a'..'f' -> Char.code c - 87
  | _ -> failwith "bad nibble"
let hexkey_of_string (s : string) : nat list =
  List.init (String.length s) (fun i -> nat_of_int (nib_of_char s.[i])) @ [nat_of_int 16]
let string_of_path (p : nat list) : string =
  String.concat "" (List.map (fun x -> let i = int_of_nat x in if i = 16 then "t" else Printf.sprintf "%x" i) p)

let bytes_of_hex (s : string) : n list =
  if s = "-" then [] else
  List.init (String.length s / 2) (fun i -> n_of_int (int_of_string ("0x" ^ String.sub s (2 * i) 2)))
let hex_of_bytes (b : n list) : string =
  if b = [] then "-" else String.concat "" (List.map (fun x -> Printf.sprintf "%02x" (int_of_n x)) b)

(* ---------------- pure trie ---------------- *)
let split1 c s = match String.index_opt s c with
  | Some i -> (String.sub s 0 i, String.sub s (i + 1) (String.length s - i - 1))
  | None -> (s, "")

let show_vm (v, m) = v ^ "~" ^ m

let trie_line toks =
  (* several handles; "h<i>" selects one, "f" forks the selected one into a new handle (a copy of the value) *)
  let hs = ref [| Nil |] and cur = ref 0 and out = ref [] in
  List.iter (fun tok ->
    let body = String.sub tok 1 (String.length tok - 1) in
    match tok.[0] with
    | 'u' ->
      let (k, vm) = split1 '=' body in
      let v = if vm = "" then None else Some (split1 '~' vm) in
      !hs.(!cur) <- trie_update (fun a b -> a = b) !hs.(!cur) (hexkey_of_string k) v
    | 'g' ->
      out := (match trie_get !hs.(!cur) (hexkey_of_string body) with Some vm -> show_vm vm | None -> "-") :: !out
    | 'h' -> cur := int_of_string body
    | 'f' -> hs := Array.append !hs [| !hs.(!cur) |]
    | _ -> failwith "bad trie op") toks;
  let show t =
    let ls = List.map (fun (k, vm) -> string_of_path k ^ "=" ^ show_vm vm) (leaves t) in
    let ps = List.map (fun (p, l) -> "/" ^ string_of_path p ^ (match l with Some _ -> "L" | None -> "")) (walk t []) in
    ["|"; "L"] @ ls @ ["|"; "P"] @ ps in
  String.concat " " (List.rev !out @ List.concat (List.map show (Array.to_list !hs)))

(* ---------------- state ---------------- *)
let show_meta = function
  | None -> "M-"
  | Some m -> "M" ^ String.concat "." (List.map hex_of_n m.m_sid) ^ "/" ^ hex_of_n m.m_major ^ "/" ^ hex_of_n m.m_minor

let show_paths t =
  String.concat "," (List.map (fun (p, l) -> "/" ^ string_of_path p ^ (match l with Some _ -> "L" | None -> "")) (walk t []))

let show_account (k, (a, m)) =
  let st = match a.a_sroot with
    | None -> "S-"
    | Some t ->
      "S[" ^ String.concat "," (List.map (fun (sk, (v, mt)) -> string_of_path sk ^ "=" ^ hex_of_bytes v ^ "~" ^ hex_of_bytes mt) (leaves t))
      ^ "]P[" ^ show_paths t ^ "]" in
  string_of_path k ^ ":" ^ String.concat "," [hex_of_n a.a_bal; hex_of_n a.a_eng; hex_of_n a.a_bt;
    hex_of_bytes a.a_master; hex_of_bytes a.a_codehash; show_meta m; st]

let state_line hdr asec ksec psec ops =
  let (rate, qbt, qstop) = match hdr with
    | [r; b; s] -> (n_of_hex r, n_of_hex b, n_of_hex s) | _ -> failwith "bad header" in
  let hkt = Hashtbl.create 64 and hst = Hashtbl.create 64 and trt = Hashtbl.create 64 in
  let addrs = List.map (fun tok -> let (a, h) = split1 ':' tok in
                         Hashtbl.replace hkt a (hexkey_of_string h); n_of_hex a) asec in
  List.iter (fun tok -> match String.split_on_char ':' tok with
      | [k; h; tr] -> Hashtbl.replace hst k (hexkey_of_string h); Hashtbl.replace trt k (bytes_of_hex tr)
      | _ -> failwith "bad key entry") ksec;
  let hk a = Hashtbl.find hkt (hex_of_n a) and hs k = Hashtbl.find hst (hex_of_n k)
  and trimkey k = Hashtbl.find trt (hex_of_n k) in
  let pairs = List.map (fun tok -> let (a, k) = split1 '.' tok in (n_of_hex a, n_of_hex k)) psec in
  let w = ref world0 in
  let sweep () =
    let s = !w.w_cur in
    String.concat " " (List.map (fun a ->
        String.concat "," [hex_of_n (get_balance hk hs s a); hex_of_n (get_energy hk hs rate s a qbt qstop);
                           hex_of_bytes (get_master hk hs s a); hex_of_bytes (get_codehash hk hs s a);
                           hex_of_bytes (get_code hk hs s a); tok_of_bool (exists_ hk hs s a)]) addrs)
    ^ " / " ^ String.concat "," (List.map (fun (a, k) -> hex_of_bytes (get_raw_storage hk hs s a k)) pairs) in
  let run = function
    | ["bal"; a; v] -> w := step hk hs trimkey !w (OBal (n_of_hex a, n_of_hex v)); "."
    | ["eng"; a; v; bt] -> w := step hk hs trimkey !w (OEng (n_of_hex a, n_of_hex v, n_of_hex bt)); "."
    | ["mas"; a; m] -> w := step hk hs trimkey !w (OMas (n_of_hex a, bytes_of_hex m)); "."
    | ["code"; a; c; h] -> w := step hk hs trimkey !w (OCode (n_of_hex a, bytes_of_hex c, bytes_of_hex h)); "."
    | ["sto"; a; k; t] -> w := step hk hs trimkey !w (OSto (n_of_hex a, n_of_hex k, bytes_of_hex t)); "."
    | ["raw"; a; k; r] -> w := step hk hs trimkey !w (ORaw (n_of_hex a, n_of_hex k, bytes_of_hex r)); "."
    | ["del"; a] -> w := step hk hs trimkey !w (ODel (n_of_hex a)); "."
    | ["cp"] ->
      let d = depth (st_sm !w.w_cur) in
      w := step hk hs trimkey !w OCp; "cp=" ^ string_of_int (int_of_nat d)
    | ["rev"; n] -> w := step hk hs trimkey !w (ORev (nat_of_int (int_of_string n))); "."
    | ["commit"; ma; mi; re] ->
      w := step hk hs trimkey !w (OCommit (n_of_hex ma, n_of_hex mi, bool_of_tok re));
      let t = List.nth !w.w_roots (List.length !w.w_roots - 1) in
      "C " ^ String.concat " " (List.map show_account (leaves t)) ^ " @ " ^ show_paths t
    | ["open"; i] -> w := step hk hs trimkey !w (OOpen (nat_of_int (int_of_string i))); "."
    | ["obs"] -> sweep ()
    | _ -> failwith "bad op" in
  String.concat " ; " (List.map run (split_on ";" ops))

let handle line =
  match split_on "|" (split_ws line) with
  | ["T"] :: rest -> trie_line (List.concat rest)
  | [("S" :: hdr); asec; ksec; psec; ops] -> state_line hdr asec ksec psec ops
  | _ -> failwith "bad line"

let () = iter_lines handle
