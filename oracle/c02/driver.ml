(* driver.ml (C01/C02; the same file serves oracle/c01 and oracle/c02) — line protocol for the block validation /
   packer oracle; no logic of its own: parsing, table lookups for the abstract functions, printing.

   sections are separated by "|"; numbers are hex; "-" = none.
   HEADER  = number time gaslimit beneficiary gasused score txsroot features stateroot receiptsroot alphalen alphaval
             com basefee siglen signer beta            (beta: "e" = Beta() error, else len:val)
   CANDS   = (addr active weight key endorsor benef)*
   HASH    = (t h)*                                     PoA v1 slot hashes dprp(parentNumber,t)
   TXS     = (id originok originblocked delegok delegblocked tag ref exp type features unused gas feeok dep known depmeta)*
             known = chain.HasTransaction(id, ref) on the parent chain; depmeta = n | 0 | 1 (GetTransactionMeta(dep).Reverted) | -
   EXEC    = (gas reverted digest)* per tx, or "e - -" when ExecuteTransaction fails
   V cfg | PARENT | pos total | CANDS | HASH | HEADER now | txsroot | TXS | EXEC | receiptsroot sanity rewardsok stateroot rrfix
       -> accept | future | critical R | other R | panic         (rrfix: correction-table root for this block id, or -)
   K mbp | (master endorsor active funded)*
       -> masters of authority.Candidates(check, mbp) ; masters picked by NewCandidates(all).Pick(check)
   C hayabusa mbp | (master endorsor active funded)* | none | (master endorsor active)* | sat idx* | (addr flag)* | auth params staker benefset | parties*
       one validation step of the warm PoA validator: fresh reads at the parent, the cache entry for the parent (or none),
       the scheduler's updates and the receipts' events of the accepted block
       -> proposers (master:active)* | none | entry (master endorsor active)* ; idx*
   S hk | none | (addr active weight benef)* | (addr active weight benef)* | upsnil benefset
       PoS: housekeeping flag, cache entry for the parent, fresh leader group, whether the scheduler made no updates, BeneficiarySet
       -> used (addr active weight benef)* | parent kept|dropped | none | entry (addr active weight benef)*
   P cfg | PARENT | pos total | CANDS | HASH | me benef target fuel now vote siglen signer beta | txsroot receiptsroot stateroot rewardsok | TXS | EXEC
       -> none | HEADER-without-number ; adopted ids *)
open Model
open Wire

let opt_n = function "-" -> None | s -> Some (n_of_hex s)
let show_opt = function None -> "-" | Some x -> hex_of_n x
let parse_beta = function
  | "e" -> None
  | s -> (match String.split_on_char ':' s with
          | [l; v] -> Some (n_of_hex l, n_of_hex v)
          | _ -> failwith "bad beta")
let show_beta = function None -> "e" | Some (l, v) -> hex_of_n l ^ ":" ^ hex_of_n v

let parse_cfg = function
  | [a; b; c; d; e; f; g] ->
    { c_vip191 = n_of_hex a; c_blocklist = n_of_hex b; c_vip214 = n_of_hex c; c_finality = n_of_hex d;
      c_galactica = n_of_hex e; c_interval = n_of_hex f; c_chain_tag = n_of_hex g }
  | _ -> failwith "bad cfg"

let parse_header = function
  | [num; time; gl; ben; gu; sc; tr; ft; sr; rr; al; av; com; bf; sl; sg; beta] ->
    { h_number = n_of_hex num; h_time = n_of_hex time; h_gas_limit = n_of_hex gl; h_beneficiary = n_of_hex ben;
      h_gas_used = n_of_hex gu; h_total_score = n_of_hex sc; h_txs_root = n_of_hex tr; h_features = n_of_hex ft;
      h_state_root = n_of_hex sr; h_receipts_root = n_of_hex rr; h_alpha = (n_of_hex al, n_of_hex av);
      h_com = bool_of_tok com; h_base_fee = opt_n bf; h_sig_len = n_of_hex sl; h_signer = opt_n sg;
      h_beta = parse_beta beta }
  | l -> failwith ("bad header: " ^ string_of_int (List.length l) ^ " tokens")

let rec parse_cands = function
  | a :: act :: w :: k :: e :: b :: rest ->
    { cd_p = { p_addr = n_of_hex a; p_active = bool_of_tok act; p_weight = n_of_hex w }; cd_key = n_of_hex k;
      cd_endorsor = n_of_hex e; cd_benef = opt_n b } :: parse_cands rest
  | [] -> []
  | _ -> failwith "bad candidate list"

let rec pairs = function a :: b :: t -> (a, b) :: pairs t | [] -> [] | _ -> failwith "odd pairs"

exception NoHash
let hash_fn sec =
  let tbl = Hashtbl.create 64 in
  List.iter (fun (a, b) -> Hashtbl.replace tbl (hex_of_n (n_of_hex a)) (n_of_hex b)) (pairs sec);
  fun x -> match Hashtbl.find_opt tbl (hex_of_n x) with Some v -> v | None -> raise NoHash

(* tx view + the two chain lookups that belong to it *)
let rec parse_txs = function
  | id :: ook :: oblk :: dok :: dblk :: tag :: rf :: exp :: ty :: ft :: un :: gas :: fee :: dep :: known :: meta :: rest ->
    ({ t_id = n_of_hex id; t_origin_ok = bool_of_tok ook; t_origin_blocked = bool_of_tok oblk;
       t_delegator_ok = bool_of_tok dok; t_delegator_blocked = bool_of_tok dblk; t_chain_tag = n_of_hex tag;
       t_ref = n_of_hex rf; t_exp = n_of_hex exp; t_type = n_of_hex ty; t_features = n_of_hex ft;
       t_unused = bool_of_tok un; t_gas = n_of_hex gas; t_fee_ok = bool_of_tok fee; t_dep = opt_n dep },
     bool_of_tok known, meta) :: parse_txs rest
  | [] -> []
  | _ -> failwith "bad tx list"

let rec parse_exec = function
  | "e" :: _ :: _ :: rest -> None :: parse_exec rest
  | g :: r :: d :: rest -> Some { r_gas = n_of_hex g; r_reverted = bool_of_tok r; r_digest = n_of_hex d } :: parse_exec rest
  | [] -> []
  | _ -> failwith "bad exec list"

let has_tx_fn txs = fun id _ ->
  match List.find_opt (fun (t, _, _) -> hex_of_n t.t_id = hex_of_n id) txs with Some (_, k, _) -> k | None -> false
let find_meta_fn txs = fun d ->
  match List.find_opt (fun (t, _, _) -> match t.t_dep with Some x -> hex_of_n x = hex_of_n d | None -> false) txs with
  | Some (_, _, "0") -> Some false
  | Some (_, _, "1") -> Some true
  | _ -> None

let succ_n x = n_of_int (int_of_n x + 1)

let show_verdict = function
  | Accept -> "accept" | Future -> "future" | Panics -> "panic"
  | Critical r -> "critical " ^ hex_of_n r | Other r -> "other " ^ hex_of_n r

let show_header h =
  String.concat " " [ hex_of_n h.h_time; hex_of_n h.h_gas_limit; hex_of_n h.h_beneficiary; hex_of_n h.h_gas_used;
    hex_of_n h.h_total_score; hex_of_n h.h_txs_root; hex_of_n h.h_features; hex_of_n h.h_state_root;
    hex_of_n h.h_receipts_root; hex_of_n (fst h.h_alpha); hex_of_n (snd h.h_alpha); tok_of_bool h.h_com;
    show_opt h.h_base_fee; hex_of_n h.h_sig_len; show_opt h.h_signer; show_beta h.h_beta ]

let pview_of posl cands hsec = match posl with
  | [pos; total] -> { pv_pos = bool_of_tok pos; pv_cands = parse_cands cands; pv_total = n_of_hex total; pv_hash = hash_fn hsec }
  | _ -> failwith "bad pview"

let handle line =
  match split_on "|" (split_ws line) with
  | [ "V" :: cfg; parent; posl; cands; hsec; hdr_now; [txsroot]; txs; exec; [rroot; sanity; rewok; sroot; rrfix] ] ->
    let cfg = parse_cfg cfg and parent = parse_header parent in
    let pv = pview_of posl cands hsec in
    let n = List.length hdr_now in
    let h = parse_header (take (n - 1) hdr_now) and now = n_of_hex (List.nth hdr_now (n - 1)) in
    let txs = parse_txs txs in
    let table = Array.of_list (parse_exec exec) in
    let exec_fn _ st _ =
      let i = int_of_n st in
      if i < Array.length table then (match table.(i) with Some r -> Some (succ_n st, r) | None -> None) else None in
    let b = { b_header = h; b_txs = List.map (fun (t, _, _) -> t) txs; b_rr_fix = opt_n rrfix } in
    (try
       (match process exec_fn (fun _ _ st _ -> st)
                (fun _ st -> if bool_of_tok rewok then Some st else None)
                (fun _ -> bool_of_tok sanity) (fun _ -> n_of_hex sroot) (fun _ -> n_of_hex rroot) (fun _ -> n_of_hex txsroot)
                (has_tx_fn txs) (find_meta_fn txs) cfg pv parent N0 b now with
        | Accepted (_, _) -> "accept"
        | Rejected v -> show_verdict v)
     with NoHash -> "nohash")
  | [ "P" :: cfg; parent; posl; cands; hsec; [me; benef; target; fuel; now; vote; siglen; signer; beta];
      [txsroot; rroot; sroot; rewok]; txs; exec ] ->
    let cfg = parse_cfg cfg and parent = parse_header parent in
    let pv = pview_of posl cands hsec in
    let po = { po_me = n_of_hex me; po_benef = opt_n benef; po_target_gl = n_of_hex target;
               po_fuel = nat_of_int (int_of_n (n_of_hex fuel)) } in
    let txs = parse_txs txs in
    let ex = parse_exec exec in
    let tbl = Hashtbl.create 16 in
    List.iter2 (fun (t, _, _) e -> Hashtbl.replace tbl (hex_of_n t.t_id) e) txs ex;
    let exec_fn _ st t = match Hashtbl.find_opt tbl (hex_of_n t.t_id) with
      | Some (Some r) -> Some (succ_n st, r) | _ -> None in
    let sr = { sr_len = n_of_hex siglen; sr_signer = opt_n signer; sr_beta = parse_beta beta; sr_rr_fix = None } in
    (try
       (match pack_block exec_fn (fun _ _ st _ -> st)
                (fun _ st -> if bool_of_tok rewok then Some st else None)
                (fun _ -> n_of_hex sroot) (fun _ -> n_of_hex rroot) (fun _ -> n_of_hex txsroot)
                (has_tx_fn txs) (find_meta_fn txs) cfg pv parent po (n_of_hex now) N0
                (List.map (fun (t, _, _) -> t) txs) (bool_of_tok vote) sr with
        | None -> "none"
        | Some ((b, _), _) ->
          show_header b.b_header ^ " ; " ^ String.concat " " (List.map (fun t -> hex_of_n t.t_id) b.b_txs))
     with NoHash -> "nohash")
  | [ ["K"; mbp]; all ] ->
    let rec go = function
      | m :: e :: a :: f :: rest -> ({ ac_master = n_of_hex m; ac_endorsor = n_of_hex e; ac_active = bool_of_tok a }, bool_of_tok f) :: go rest
      | [] -> [] | _ -> failwith "bad K list" in
    let l = go all in
    let funded m e = List.exists (fun (c, f) -> f && hex_of_n c.ac_master = hex_of_n m && hex_of_n c.ac_endorsor = hex_of_n e) l in
    let cs = List.map fst l in
    let show l = String.concat " " (List.map (fun c -> hex_of_n c.ac_master) l) in
    show (cands_walk funded (n_of_hex mbp) cs N0) ^ " ; " ^ show (snd (pick (new_candidates cs) funded (n_of_hex mbp)))
  | [ ["C"; hay; mbp]; all; entry_list; sat; ups; [auth; params; staker; bset]; parties ] ->
    let rec go4 = function
      | m :: e :: a :: f :: rest -> ({ ac_master = n_of_hex m; ac_endorsor = n_of_hex e; ac_active = bool_of_tok a }, bool_of_tok f) :: go4 rest
      | [] -> [] | _ -> failwith "bad C list" in
    let rec go3 = function
      | m :: e :: a :: rest -> { ac_master = n_of_hex m; ac_endorsor = n_of_hex e; ac_active = bool_of_tok a } :: go3 rest
      | [] -> [] | _ -> failwith "bad entry list" in
    let l = go4 all in
    let funded m e = List.exists (fun (c, f) -> f && hex_of_n c.ac_master = hex_of_n m && hex_of_n c.ac_endorsor = hex_of_n e) l in
    let cache = match entry_list with
      | ["none"] -> []
      | el -> [ (0, { ce_list = go3 el; ce_sat = List.map (fun i -> nat_of_int (int_of_string i)) sat }) ] in
    let ev = { ev_authority = bool_of_tok auth; ev_params = bool_of_tok params; ev_staker = bool_of_tok staker;
               ev_beneficiary_set = bool_of_tok bset; ev_parties = List.map n_of_hex parties } in
    let upl = List.map (fun (a, f) -> (n_of_hex a, bool_of_tok f)) (pairs ups) in
    let used = ref [] in
    let judge props _ _ = used := props; ((), Some (upl, ev)) in
    let (cache', ()) = poa_step (fun a b -> a = b) (fun _ -> List.map fst l) (fun _ -> funded) (fun _ -> n_of_hex mbp)
                         (fun _ -> bool_of_tok hay) judge cache 0 1 in
    let props = String.concat " " (List.map (fun c -> hex_of_n c.ac_master ^ ":" ^ tok_of_bool c.ac_active) !used) in
    (match pget (fun a b -> a = b) cache' 1 with
     | None -> "proposers " ^ props ^ " | none"
     | Some e ->
       "proposers " ^ props ^ " | entry " ^
       String.concat " " (List.map (fun c -> hex_of_n c.ac_master ^ " " ^ hex_of_n c.ac_endorsor ^ " " ^ tok_of_bool c.ac_active) e.ce_list)
       ^ " ; " ^ String.concat " " (List.map (fun i -> string_of_int (int_of_nat i)) e.ce_sat))
  | [ ["S"; hk]; cached; fresh; [upsnil; bset] ] ->
    let rec go = function
      | a :: act :: w :: b :: rest ->
        { cd_p = { p_addr = n_of_hex a; p_active = bool_of_tok act; p_weight = n_of_hex w }; cd_key = N0; cd_endorsor = N0; cd_benef = opt_n b } :: go rest
      | [] -> [] | _ -> failwith "bad leader list" in
    let show l = String.concat " " (List.map (fun c ->
        hex_of_n c.cd_p.p_addr ^ " " ^ tok_of_bool c.cd_p.p_active ^ " " ^ hex_of_n c.cd_p.p_weight ^ " " ^ show_opt c.cd_benef) l) in
    let cache = match cached with ["none"] -> [] | l -> [ (0, go l) ] in
    let ev = { ev_authority = false; ev_params = false; ev_staker = false; ev_beneficiary_set = bool_of_tok bset; ev_parties = [] } in
    let used = ref [] in
    let judge ls _ _ = used := ls; ((), Some ((if bool_of_tok upsnil then [] else [ (N0, false) ]), ev)) in
    let (cache', ()) = pos_step (fun a b -> a = b) (fun _ -> bool_of_tok hk) (fun _ -> go fresh) judge cache 0 1 in
    "used " ^ show !used ^ " | parent " ^ (match sget (fun a b -> a = b) cache' 0 with Some _ -> "kept" | None -> "dropped")
    ^ " | " ^ (match sget (fun a b -> a = b) cache' 1 with None -> "none" | Some l -> "entry " ^ show l)
  | l -> failwith ("bad line: " ^ string_of_int (List.length l) ^ " sections")

let () = iter_lines handle
