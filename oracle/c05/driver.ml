(* driver.ml (C05) — line protocol for the scheduler oracle; no logic of its own.
   input :  KIND T pt me total | a act w key ... | S now.. | I t a t a .. | U nbt .. | H t h t h ..
            KIND in V1 V2 POS ; for V1 the H section lists dprp(parentNumber,t) for every slot the harness
            allows the model to look at (the hash is not modelled); missing slots make the answer "nohash".
   output:  seq a.. | S r.. | I b.. | U score:addr=flag,.. ..     (numbers in hex; updates sorted)  *)
open Model
open Wire

let rec parse_ps = function
  | a :: act :: w :: k :: rest ->
    ({ p_addr = n_of_hex a; p_active = bool_of_tok act; p_weight = n_of_hex w }, n_of_hex k) :: parse_ps rest
  | [] -> []
  | _ -> failwith "bad proposer list"

let rec pairs = function a :: b :: t -> (a, b) :: pairs t | [] -> [] | _ -> failwith "odd pairs"

let cmp_hex a b =
  let la = String.length a and lb = String.length b in
  if la <> lb then compare la lb else compare a b

let show_updates (ups, score) =
  let l = List.map (fun (a, f) -> (hex_of_n a, f)) ups in
  let l = List.sort (fun (a, f) (b, g) -> let c = cmp_hex a b in if c <> 0 then c else compare f g) l in
  hex_of_n score ^ ":" ^ String.concat "," (List.map (fun (a, f) -> a ^ "=" ^ tok_of_bool f) l)

exception NoHash

let handle line =
  match split_on "|" (split_ws line) with
  | [ [kind; t; pt; me; total]; ps; s_sec; i_sec; u_sec; h_sec ] ->
    let t = n_of_hex t and pt = n_of_hex pt and me = n_of_hex me and total = n_of_hex total in
    let ps = parse_ps ps in
    let tl = function _ :: r -> r | [] -> [] in
    let s_q = List.map n_of_hex (tl s_sec) and i_q = pairs (tl i_sec) and u_q = List.map n_of_hex (tl u_sec) in
    (match find_me me (List.map fst ps) with
     | None -> "unauthorized"
     | Some mep ->
       if kind = "V1" then begin
         let tbl = Hashtbl.create 64 in
         List.iter (fun (a, b) -> Hashtbl.replace tbl a (n_of_hex b)) (pairs (tl h_sec));
         let h x = match Hashtbl.find_opt tbl (hex_of_n x) with Some v -> v | None -> raise NoHash in
         let acts = actives_v1 me (List.map fst ps) in
         let guard f = try f () with NoHash -> "nohash" in
         let fuel = nat_of_int (Hashtbl.length tbl + 1) in
         let s_r = List.map (fun now -> guard (fun () ->
             match schedule_v1 h pt t acts me now fuel with Some r -> hex_of_n r | None -> "nofuel")) s_q in
         let i_r = List.map (fun (tt, _) -> guard (fun () -> tok_of_bool (is_the_time_v1 h pt t acts me (n_of_hex tt)))) i_q in
         let u_r = List.map (fun nbt -> guard (fun () -> show_updates (updates_v1 h pt t acts mep nbt))) u_q in
         String.concat " " (["seq"] @ List.map hex_of_n (addrs acts) @ ["|"; "S"] @ s_r @ ["|"; "I"] @ i_r @ ["|"; "U"] @ u_r)
       end else begin
         let seq = seq_of me ps in
         let sa = addrs seq in
         let s_r = List.map (fun now -> match schedule pt t sa me now with Some r -> hex_of_n r | None -> "panic") s_q in
         let i_r = List.map (fun (tt, a) -> tok_of_bool (is_scheduled pt t sa (n_of_hex tt) (n_of_hex a))) i_q in
         let u_r = List.map (fun nbt ->
             show_updates (if kind = "V2" then updates_v2 pt t seq mep nbt else updates_pos pt t seq mep total nbt)) u_q in
         String.concat " " (["seq"] @ List.map hex_of_n sa @ ["|"; "S"] @ s_r @ ["|"; "I"] @ i_r @ ["|"; "U"] @ u_r)
       end)
  | _ -> failwith "bad line"

let () = iter_lines handle
