(* driver.ml (C16/C17) — line protocol for the staker oracle; no logic of its own: parses one history,
   folds Model.run_op over it and prints the observable projection of the state after every operation.
   input :  epoch low med high cooldown evict_thr evict_int tp hayabusa donation mbp0 | op | op | ...
            op in:  B | AV a e p vet | IS a e vet | DS a e vet | SE a e | WS a e | ON a 0/1 | SB a e b
                    | AD a vet mult | DE id | WD id | RW a amount | MB n | DN wei          (numbers in hex)
   output:  one dump per op, joined by " ; "  (see show_state) *)
open Model
open Wire

let h = hex_of_n
let ho = function Some x -> h x | None -> "-"
let hb b = if b then "1" else "0"

let parse_op toks =
  match toks with
  | ["B"] -> OBlock
  | ["AV"; a; e; p; v] -> OAddValidation (n_of_hex a, n_of_hex e, n_of_hex p, n_of_hex v)
  | ["IS"; a; e; v] -> OIncrease (n_of_hex a, n_of_hex e, n_of_hex v)
  | ["DS"; a; e; v] -> ODecrease (n_of_hex a, n_of_hex e, n_of_hex v)
  | ["SE"; a; e] -> OSignalExit (n_of_hex a, n_of_hex e)
  | ["WS"; a; e] -> OWithdraw (n_of_hex a, n_of_hex e)
  | ["ON"; a; f] -> OSetOnline (n_of_hex a, bool_of_tok f)
  | ["SB"; a; e; b] -> OSetBenef (n_of_hex a, n_of_hex e, n_of_hex b)
  | ["AD"; a; v; m] -> OAddDeleg (n_of_hex a, n_of_hex v, n_of_hex m)
  | ["DE"; id] -> OSignalDelegExit (n_of_hex id)
  | ["WD"; id] -> OWithdrawDeleg (n_of_hex id)
  | ["RW"; a; x] -> OReward (n_of_hex a, n_of_hex x)
  | ["MB"; x] -> OSetMBP (n_of_hex x)
  | ["DN"; x] -> ODonate (n_of_hex x)
  | _ -> failwith ("bad op: " ^ String.concat " " toks)

let show_walk = function
  | Ok l -> String.concat "," (List.map (fun (a, _) -> h a) l)
  | _ -> "err"

let show_leaders = function
  | Ok l -> String.concat ","
              (List.map (fun (a, v) -> String.concat ":" [h a; h v.v_endorser; ho v.v_benef;
                                                           hb (v.v_offline = None); h v.v_weight]) l)
  | _ -> "err"

let show_val c s (a, v) =
  let tot = match totals_of s a with
    | Ok t -> String.concat "," [h t.t_locked; h t.t_weight; h t.t_queued; h t.t_exiting; h t.t_next_weight]
    | _ -> "err" in
  let ag = get_agg s a in
  let rw = match current_iteration v s.blk with Ok cur -> h cur ^ "=" ^ h (rget s a cur) | _ -> "err" in
  String.concat " "
    ["V"; h a; h v.v_endorser; ho v.v_benef; h v.v_period; h v.v_completed; h v.v_status; h v.v_start;
     ho v.v_exit; ho v.v_offline; h v.v_locked; h v.v_punlock; h v.v_queued; h v.v_cooldown;
     h v.v_withdrawable; h v.v_weight; ho v.v_prev; ho v.v_next; tot; h (calc_withdrawable c v s.blk);
     String.concat "," [h ag.a_lv; h ag.a_lw; h ag.a_pv; h ag.a_pw; h ag.a_ev; h ag.a_ew]; rw]

let show_del s (id, d) =
  let fl = match deleg_flags s d with Ok (a, b) -> hb a ^ hb b | _ -> "err" in
  String.concat " " ["D"; h id; h d.d_val; h d.d_stake; h d.d_mult; ho d.d_last; h d.d_first; fl]

let show_state c s (cls, v) =
  String.concat " "
    ([h cls; h v; "G"; h s.g_lv; h s.g_lw; h s.g_q; h s.g_wd; h s.g_cd; h s.eff; h s.bal; h s.blk; h (get_mbp s);
      "L"; h s.act.l_size; h s.que.l_size; h (ohead s.act.l_head); h (ohead s.que.l_head);
      "LG"; show_leaders (iterate true s); "QG"; show_walk (iterate false s);
      "RL"; (match rl_iterate s with Ok l -> String.concat "," (List.map h l) | _ -> "err")]
     @ List.map (show_val c s) s.vals @ List.map (show_del s) s.dels)

let handle line =
  match split_on "|" (split_ws line) with
  | [ep; lo; me; hi; cd; et; ei; tp; hy; don; mb] :: ops ->
    let c = { c_epoch = n_of_hex ep; c_low = n_of_hex lo; c_med = n_of_hex me; c_high = n_of_hex hi;
              c_cooldown = n_of_hex cd; c_evict_thr = n_of_hex et; c_evict_int = n_of_hex ei;
              c_tp = n_of_hex tp; c_hayabusa = n_of_hex hy } in
    let s = ref (init (n_of_hex don) (n_of_hex mb)) in
    let outs = List.map (fun toks ->
        let o = parse_op toks in
        let ans = answer c !s o in
        s := step c !s o;
        show_state c !s ans) ops in
    String.concat " ; " outs
  | _ -> failwith "bad line"

let () = iter_lines handle
