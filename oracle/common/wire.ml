(* wire.ml — shared, logic-free glue between the line protocol and the extracted datatypes.
   Compiled inside each oracle directory against that directory's extracted Model (N/positive/nat
   are Coq's extracted inductives; nothing is mapped to OCaml int). *)
open Model

(* hex string (no 0x, possibly "0") -> N, most significant digit first *)
let n_of_hex (s : string) : n =
  let acc = ref N0 in
  let push_bit b =
    acc := (match !acc, b with
      | N0, false -> N0
      | N0, true -> Npos XH
      | Npos p, false -> Npos (XO p)
      | Npos p, true -> Npos (XI p)) in
  String.iter (fun c ->
    let v = match c with
      | '0'..'9' -> Char.code c - 48
      | 'a'..'f' -> Char.code c - 87
      | 'A'..'F' -> Char.code c - 55
      | _ -> failwith ("bad hex digit in " ^ s) in
    push_bit (v land 8 <> 0); push_bit (v land 4 <> 0); push_bit (v land 2 <> 0); push_bit (v land 1 <> 0)) s;
  !acc

let hex_of_n (x : n) : string =
  match x with
  | N0 -> "0"
  | Npos p ->
    (* collect bits least significant first *)
    let rec bits p acc = match p with
      | XH -> true :: acc
      | XO q -> bits q (false :: acc)
      | XI q -> bits q (true :: acc) in
    (* bits returns most-significant-first because we cons while descending towards the top bit *)
    let msf = bits p [] in
    let len = List.length msf in
    let pad = (4 - len mod 4) mod 4 in
    let all = (List.init pad (fun _ -> false)) @ msf in
    let buf = Buffer.create 16 in
    let rec go = function
      | a :: b :: c :: d :: rest ->
        let v = (if a then 8 else 0) + (if b then 4 else 0) + (if c then 2 else 0) + (if d then 1 else 0) in
        Buffer.add_char buf "0123456789abcdef".[v]; go rest
      | [] -> ()
      | _ -> assert false in
    go all; Buffer.contents buf

let rec nat_of_int (i : int) : nat = if i <= 0 then O else S (nat_of_int (i - 1))
let rec int_of_nat (x : nat) : int = match x with O -> 0 | S y -> 1 + int_of_nat y
let n_of_int (i : int) : n = n_of_hex (Printf.sprintf "%x" i)
let int_of_n (x : n) : int = int_of_string ("0x" ^ hex_of_n x)

let bool_of_tok = function "1" | "t" | "true" -> true | _ -> false
let tok_of_bool b = if b then "1" else "0"

let split_ws (s : string) : string list =
  List.filter (fun t -> t <> "") (String.split_on_char ' ' (String.trim s))

(* split a token list on a separator token *)
let split_on (sep : string) (l : string list) : string list list =
  let rec go cur acc = function
    | [] -> List.rev (List.rev cur :: acc)
    | x :: t when x = sep -> go [] (List.rev cur :: acc) t
    | x :: t -> go (x :: cur) acc t in
  go [] [] l

let rec take k l = if k <= 0 then [] else match l with [] -> [] | x :: t -> x :: take (k - 1) t
let rec drop k l = if k <= 0 then l else match l with [] -> [] | _ :: t -> drop (k - 1) t

let iter_lines (f : string -> string) : unit =
  (try
     while true do
       let line = input_line stdin in
       if String.trim line <> "" then begin
         let out = (try f line with e -> "ERR " ^ Printexc.to_string e) in
         print_string out; print_char '\n'
       end
     done
   with End_of_file -> ());
  flush stdout
