(* wirez.ml — Z <-> text glue for oracles whose model uses Z (included only by drivers that list it in EXTRA). *)
open Model
open Wire

(* "-"? hex digits *)
let z_of_hex (s : string) : z =
  if String.length s > 0 && s.[0] = '-' then
    (match n_of_hex (String.sub s 1 (String.length s - 1)) with N0 -> Z0 | Npos p -> Zneg p)
  else (match n_of_hex s with N0 -> Z0 | Npos p -> Zpos p)

let hex_of_z (x : z) : string =
  match x with
  | Z0 -> "0"
  | Zpos p -> hex_of_n (Npos p)
  | Zneg p -> "-" ^ hex_of_n (Npos p)
