(* driver.ml (C19) — line protocol for the sync oracle; no logic of its own (the probe list is recorded by wrapping
   the overlap function handed to the extracted search).
   input :  A head | localid0 localid1 .. | remoteid0 remoteid1 ..        (ids in hex, index = height)
            S head fuel|- L | flipped heights | failing heights         (synthetic overlap predicate n <= L)
            D from fuel | from ERR | from OK num:body num:body ..  | ..     (num = hex or x (bad structure); body 0/1)
   output:  anc N | fail N | nofuel   followed by  " | probe probe .."
            done|peererr|badstruct|brokenseq|badbody|nofuel  followed by " | num num .." (blocks forwarded)  *)
open Model
open Wire

let show_outcome = function
  | Anc x -> "anc " ^ hex_of_n x
  | Fail x -> "fail " ^ hex_of_n x
  | NoFuel -> "nofuel"

let show_status = function
  | DlDone -> "done" | DlPeerError -> "peererr" | DlBadStructure -> "badstruct"
  | DlBrokenSequence -> "brokenseq" | DlBadBody -> "badbody" | DlImportError -> "importerr" | DlNoFuel -> "nofuel"

let parse_desc tok =
  match String.split_on_char ':' tok with
  | [num; body] -> ((if num = "x" then None else Some (n_of_hex num)), bool_of_tok body)
  | _ -> failwith "bad raw desc"

let parse_answer = function
  | from :: "ERR" :: [] -> (n_of_hex from, None)
  | from :: "OK" :: descs -> (n_of_hex from, Some (List.map parse_desc descs))
  | _ -> failwith "bad answer"

let handle line =
  match split_on "|" (split_ws line) with
  | [ ["A"; head]; local; remote ] ->
    let head = n_of_hex head in
    let local = List.map n_of_hex local and remote = List.map n_of_hex remote in
    let probes = ref [] in
    let ov x = probes := hex_of_n x :: !probes; ov_of_chains local remote x in
    let r = find_common_ancestor ov head (ancestor_fuel head) in
    show_outcome r ^ " | " ^ String.concat " " (List.rev !probes)
  | [ ["S"; head; fuel; l]; flips; fails ] ->
    let head = n_of_hex head in
    let probes = ref [] in
    let f = ov_synth (n_of_hex l) (List.map n_of_hex flips) (List.map n_of_hex fails) in
    let ov x = probes := hex_of_n x :: !probes; f x in
    let fuel = if fuel = "-" then ancestor_fuel head else nat_of_int (int_of_string fuel) in
    let r = find_common_ancestor ov head fuel in
    show_outcome r ^ " | " ^ String.concat " " (List.rev !probes)
  | [ ["R"; code; size; env; argok] ] ->
    (* R code(0..7|8=unknown) size env(x | id:0/1) argok -> drop|ignore|deliver|reply|feedblock|announce|pooladd ; no pending calls *)
    let c = (match code with "0" -> CGetStatus | "1" -> CNewBlockID | "2" -> CNewBlock | "3" -> CNewTx | "4" -> CGetBlockByID
                           | "5" -> CGetBlockIDByNumber | "6" -> CGetBlocksFromNumber | "7" -> CGetTxs | _ -> CUnknown) in
    let e = (if env = "x" then None else match String.split_on_char ':' env with
        | [id; r] -> Some (n_of_hex id, bool_of_tok r) | _ -> failwith "bad env") in
    let m = { m_code = c; m_size = n_of_hex size; m_env = e; m_arg_ok = bool_of_tok argok } in
    (match serve (fun _ -> None) mcode_eqb m with
     | RDrop -> "drop" | RIgnore -> "ignore" | RDeliver -> "deliver" | RReply -> "reply"
     | RFeedBlock -> "feedblock" | RAnnounce -> "announce" | RPoolAdd -> "pooladd")
  | ["D"; from; fuel] :: answers ->
    let answers = List.map parse_answer (List.filter (fun a -> a <> []) answers) in
    let (l, st) = download_script answers (n_of_hex from) (nat_of_int (int_of_string fuel)) in
    show_status st ^ " | " ^ String.concat " " (List.map hex_of_n l)
  | _ -> failwith "bad line"

(* interactive use (hx.Ask): answer and flush line by line *)
let () =
  try
    while true do
      let line = input_line stdin in
      if String.trim line <> "" then begin
        let out = (try handle line with e -> "ERR " ^ Printexc.to_string e) in
        print_string out; print_char '\n'; flush stdout
      end
    done
  with End_of_file -> flush stdout
