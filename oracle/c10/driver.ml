(* driver.ml (C10) — line protocol for the EVM oracle; parsing and printing only.
   input :  ALU <OP> a b c
            RUN gas static origin gasprice coinbase timestamp number difficulty gaslimit chainid basefee to value input mastertopic fork
                | A addr balance code master .. | S addr key val .. | newaddr newaddr .. | H preimage hash ..
            numbers in hex, byte strings in hex ("-" = empty)
   output:  ALU -> result
            RUN -> class data gasleft refund | L addr t,t,.. data .. | S addr key val .. | A addr balance code master .. | T from to amount ..
            class in ok revert err:<kind> unsupported fuel ; logs oldest first ; storage = newest binding per slot *)
open Model
open Wire

let z_of_hex s = Z.of_N (n_of_hex s)
let hex_of_z x = hex_of_n (Z.to_N x)

let bytes_of_hex (s : string) : z list =
  if s = "-" then [] else begin
    let n = String.length s / 2 in
    let rec go i acc = if i < 0 then acc else go (i - 1) (z_of_hex (String.sub s (2 * i) 2) :: acc) in
    go (n - 1) []
  end
let hex_of_bytes (l : z list) : string =
  if l = [] then "-" else begin
    let b = Buffer.create 64 in
    List.iter (fun x -> let h = hex_of_z x in if String.length h < 2 then Buffer.add_char b '0'; Buffer.add_string b h) l;
    Buffer.contents b
  end

let alu_of_string = function
  | "ADD" -> A_ADD | "MUL" -> A_MUL | "SUB" -> A_SUB | "DIV" -> A_DIV | "SDIV" -> A_SDIV | "MOD" -> A_MOD
  | "SMOD" -> A_SMOD | "ADDMOD" -> A_ADDMOD | "MULMOD" -> A_MULMOD | "EXP" -> A_EXP | "SIGNEXTEND" -> A_SIGNEXTEND
  | "LT" -> A_LT | "GT" -> A_GT | "SLT" -> A_SLT | "SGT" -> A_SGT | "EQ" -> A_EQ | "ISZERO" -> A_ISZERO
  | "AND" -> A_AND | "OR" -> A_OR | "XOR" -> A_XOR | "NOT" -> A_NOT | "BYTE" -> A_BYTE | "SHL" -> A_SHL
  | "SHR" -> A_SHR | "SAR" -> A_SAR | s -> failwith ("unknown alu op " ^ s)

let err_name = function
  | E_oog -> "oog" | E_gasoverflow -> "gasoverflow" | E_underflow -> "underflow" | E_overflow -> "overflow"
  | E_invalid -> "invalid" | E_jump -> "jump" | E_write -> "write" | E_retdata -> "retdata" | E_depth -> "depth"
  | E_balance -> "balance" | E_collision -> "collision" | E_codesize -> "codesize" | E_invalidcode -> "invalidcode"
  | E_codestore -> "codestore"

let class_name = function
  | O_ok -> "ok" | O_revert -> "revert" | O_err e -> "err:" ^ err_name e | O_unsupported -> "unsupported" | O_fuel -> "fuel"

(* fuel: one shared unary numeral, grown on demand to gas+2 (gas+1 suffices: run_terminates_within_gas), capped *)
let fuel_cap = 5_000_010
let cur_fuel : nat ref = ref O
let cur_size = ref 0
let fuel_for (gas : string) : nat =
  let need = if String.length gas > 6 then fuel_cap else min fuel_cap (int_of_string ("0x" ^ gas) + 2) in
  if need > !cur_size then begin
    let rec mk n acc = if n = 0 then acc else mk (n - 1) (S acc) in
    cur_fuel := mk (need - !cur_size) !cur_fuel; cur_size := need
  end;
  !cur_fuel

let rec parse_accts = function
  | "A" :: a :: bal :: code :: m :: rest ->
    (z_of_hex a, { a_bal = z_of_hex bal; a_code = bytes_of_hex code; a_master = bool_of_tok m }) :: parse_accts rest
  | [] -> []
  | _ -> failwith "bad account section"
let rec parse_store = function
  | "S" :: a :: k :: v :: rest -> ((z_of_hex a, z_of_hex k), z_of_hex v) :: parse_store rest
  | [] -> []
  | _ -> failwith "bad storage section"
let rec parse_hashes = function
  | "H" :: p :: h :: rest -> (bytes_of_hex p, z_of_hex h) :: parse_hashes rest
  | [] -> []
  | _ -> failwith "bad hash section"

let handle line =
  match split_on "|" (split_ws line) with
  | [ [ "ALU"; op; a; b; c ] ] -> hex_of_z (i_alu (alu_of_string op) (z_of_hex a) (z_of_hex b) (z_of_hex c))
  | [ [ "RUN"; gas; static; origin; gasprice; coinbase; timestamp; number; difficulty; gaslimit; chainid; basefee; to_; value;
        input; mastertopic; fork ];
      accts; store; newaddrs; hashes ] ->
    let e = { e_origin = z_of_hex origin; e_gasprice = z_of_hex gasprice;
              e_coinbase = z_of_hex coinbase; e_timestamp = z_of_hex timestamp; e_number = z_of_hex number;
              e_difficulty = z_of_hex difficulty; e_gaslimit = z_of_hex gaslimit; e_chainid = z_of_hex chainid;
              e_basefee = z_of_hex basefee; e_newaddrs = List.map z_of_hex newaddrs; e_hashes = parse_hashes hashes;
              e_master_topic = z_of_hex mastertopic; e_fork = z_of_hex fork } in
    let w = { w_accts = parse_accts accts; w_store = parse_store store; w_logs = []; w_refund = Z0; w_transfers = [];
              w_suicided = [] } in
    let r = call_top (fuel_for gas) e (bool_of_tok static) (z_of_hex to_) (z_of_hex value) (bytes_of_hex input) (z_of_hex gas) w in
    let logs = List.rev_map (fun l ->
        "L " ^ hex_of_z l.l_addr ^ " " ^
        (if l.l_topics = [] then "-" else String.concat "," (List.map hex_of_z l.l_topics)) ^ " " ^ hex_of_bytes l.l_data)
        r.r_world.w_logs in
    let st = List.map (fun ((a, k), v) -> "S " ^ hex_of_z a ^ " " ^ hex_of_z k ^ " " ^ hex_of_z v) (store_view r.r_world) in
    let ac = List.map (fun (a, x) -> "A " ^ hex_of_z a ^ " " ^ hex_of_z x.a_bal ^ " " ^ hex_of_bytes x.a_code ^ " " ^ tok_of_bool x.a_master)
        (acct_view r.r_world) in
    let tr = List.rev_map (fun ((f, t), v) -> "T " ^ hex_of_z f ^ " " ^ hex_of_z t ^ " " ^ hex_of_z v) r.r_world.w_transfers in
    String.concat " " ([ class_name r.r_out; hex_of_bytes r.r_data; hex_of_z r.r_gas; hex_of_z r.r_world.w_refund; "|" ]
                       @ logs @ [ "|" ] @ st @ [ "|" ] @ ac @ [ "|" ] @ tr)
  | _ -> failwith "bad line"

let () = iter_lines handle
