#!/bin/bash
# selftest/C11/run.sh — apply every patch of this directory to a scratch worktree of /repo (under /tmp, removed
# afterwards), run the unit tests of the touched packages and `bin/check C11` against that tree.
# Expected: reg-* => unit tests pass, check prints VIOLATION (exit 1); ok-* => exit 0.
cd "$(dirname "$0")"
export GOFLAGS=-mod=mod GOPROXY=off
for p in ${@:-*.patch}; do
  n=${p%.patch}; wt=/tmp/wt-c11-self-$n
  git -C /repo worktree remove --force $wt >/dev/null 2>&1
  git -C /repo worktree add $wt HEAD >/dev/null 2>&1
  ( cd $wt && git apply "$OLDPWD/$p" ) || { echo "$n: patch does not apply"; continue; }
  ut=$( cd $wt && go test ./tx/... ./block/... >/tmp/c11-self-$n.ut 2>&1 && echo pass || echo FAIL )
  out=$( cd /verif && VERIF_REPO=$wt bin/check C11 --no-evidence 2>&1 ); rc=$?
  echo "$n: unit-tests=$ut check-exit=$rc $(echo "$out" | grep -c '^VIOLATION') violation line(s)"
  echo "$out" | grep '^VIOLATION' | sed 's/^/    /'
  git -C /repo worktree remove --force $wt >/dev/null 2>&1
done
