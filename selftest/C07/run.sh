#!/bin/bash
# selftest runner for C07 / C08: applies every patch of selftest/<ID>/ to a scratch worktree of /repo under /tmp, runs
# bin/check <ID> against it, prints the outcome.  usage: selftest/C07/run.sh C07|C08
id=${1:-C07}
here="$(cd "$(dirname "$0")/.." && pwd)"
wt=/tmp/wt-selftest-$id-$$
git -C /repo worktree add -f "$wt" HEAD >/dev/null 2>&1 || exit 2
for p in "$here/$id"/*.patch; do
  git -C "$wt" checkout -q -- .
  git -C "$wt" apply "$p" || { echo "$(basename "$p"): DOES NOT APPLY"; continue; }
  out=$(cd "$here/.." && VERIF_REPO="$wt" timeout 1500 bin/check "$id" --no-evidence 2>&1); rc=$?
  echo "$(basename "$p"): exit=$rc $(echo "$out" | grep -E '^(VIOLATION|KNOWN-FINDING)' | sed -E 's/(KNOWN-FINDING: property=C08).*/\1 F5/' | tr '\n' ' ')"
done
git -C /repo worktree remove --force "$wt"
