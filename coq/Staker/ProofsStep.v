(* Staker/ProofsStep.v — single-operation facts: off-epoch blocks do nothing, the 2/3 rule, withdrawal gating,
   a delegation pays out once. *)
From Coq Require Import List NArith Bool Lia.
From Coq Require Import ZifyN ZifyNat ZifyBool.
From Verif Require Import Common.Util Staker.Model Staker.Base.
Import ListNotations.
Open Scope N_scope.

Ltac bind_step H :=
  let x := fresh "x" in let Hx := fresh "Hx" in
  apply bind_ok in H as [x [Hx H]]; cbn beta in H.

(* decompose every monadic hypothesis into its elementary facts *)
Ltac res_facts :=
  repeat match goal with
  | H : guard _ = Ok _ |- _ => apply guard_ok' in H
  | H : must _ = Ok _ |- _ => apply must_ok' in H
  | H : of_opt _ = Ok _ |- _ => apply of_opt_ok in H
  | H : safe_add _ _ = Some _ |- _ => apply safe_add_some in H; destruct H as [? ?]
  | H : safe_sub _ _ = Some _ |- _ => apply safe_sub_some in H; destruct H as [? ?]
  | H : ws_add _ _ = Ok _ |- _ => apply ws_add_ok in H; cbn [fst snd] in H; destruct H as [? ?]
  | H : ws_sub _ _ = Ok _ |- _ => apply ws_sub_ok in H; cbn [fst snd] in H; destruct H as [? [? [? ?]]]
  | H : Ok _ = Ok _ |- _ => inversion H; clear H
  | H : (let '(_, _) := ?p in _) = _ |- _ => destruct p
  | H : bind _ _ = Ok _ |- _ => bind_step H
  end.

(* ---------------------------------------------------------------- blocks that are not epoch boundaries *)

Lemma housekeep_off_epoch c b s : b mod c_epoch c <> 0 -> housekeep c b s = Ok (s, false).
Proof. intros H. unfold housekeep. apply N.eqb_neq in H. rewrite H. reflexivity. Qed.

Lemma transition_off_epoch c b s : b mod c_epoch c <> 0 -> transition_pos c b s = Ok (s, false).
Proof. intros H. unfold transition_pos. apply N.eqb_neq in H. rewrite H. reflexivity. Qed.

Lemma sync_pos_off_epoch c b s : b mod c_epoch c <> 0 -> exists a u, sync_pos c b s = Ok (s, a, u).
Proof.
  intros H. unfold sync_pos.
  destruct (b <? c_hayabusa c + c_tp c); [eauto|].
  rewrite (transition_off_epoch c b s H).
  destruct (negb (0 <? l_size (act s)) && ((c_tp c =? 0) || ((b - c_hayabusa c) mod c_tp c =? 0))); cbn.
  - destruct (0 <? l_size (act s)); cbn; [|eauto]. rewrite housekeep_off_epoch; cbn; eauto.
  - destruct (0 <? l_size (act s)); cbn; [|eauto]. rewrite housekeep_off_epoch; cbn; eauto.
Qed.

Lemma block_off_epoch c s : (blk s + 1) mod c_epoch c <> 0 -> step c s OBlock = w_blk (blk s + 1) s.
Proof.
  intros H. unfold step, run_op.
  destruct (sync_pos_off_epoch c (blk s + 1) (w_blk (blk s + 1) s) H) as [a [u E]]. rewrite E. reflexivity.
Qed.

(* ---------------------------------------------------------------- the PoA -> PoS switch needs 2/3 of max proposers queued *)

Lemma sync_pos_needs_two_thirds c b s :
  l_size (act s) = 0 -> l_size (que s) * 3 < get_mbp s * 2 -> sync_pos c b s = Ok (s, false, false).
Proof.
  intros Ha Hq. unfold sync_pos.
  destruct (b <? c_hayabusa c + c_tp c); [reflexivity|].
  rewrite Ha. cbn [N.ltb N.compare negb andb orb].
  assert (T : transition_pos c b s = Ok (s, false)).
  { unfold transition_pos. destruct (negb (b mod c_epoch c =? 0)); [reflexivity|].
    rewrite Ha. cbn [N.ltb N.compare]. apply N.ltb_lt in Hq. rewrite Hq. reflexivity. }
  destruct ((c_tp c =? 0) || ((b - c_hayabusa c) mod c_tp c =? 0)); cbn; [rewrite T|]; reflexivity.
Qed.

(* ---------------------------------------------------------------- withdrawal gating *)

(* what WithdrawStake pays is bounded by the free buckets of the validation: withdrawable + queued, plus the
   cooldown bucket only once exit block + cooldown period has passed; locked stake is never paid *)
Lemma withdraw_stake_amount c a e s s1 x v :
  withdraw_stake c a e s = Ok (s1, x) -> getv s a = Some v ->
  x = v_withdrawable v + v_queued v +
      (if negb (v_status v =? StatusQueued) && cooldown_ended c v (blk s) then v_cooldown v else 0)
  /\ v_endorser v = e.
Proof.
  intros H Hv. unfold withdraw_stake in H. unfold get_or_revert in H. rewrite Hv in H. cbn [bind] in H.
  bind_step H. apply guard_ok' in Hx. apply N.eqb_eq in Hx.
  bind_step H. destruct x1 as [[[s0 wd] q] cd].
  assert (Hamt : wd = v_withdrawable v /\ q = v_queued v /\
                 cd = if negb (v_status v =? StatusQueued) && cooldown_ended c v (blk s) then v_cooldown v else 0).
  { unfold svc_withdraw_stake in Hx0. destruct (v_status v =? StatusQueued) eqn:Eq.
    - res_facts. subst. cbn. auto.
    - inversion Hx0; subst. cbn [negb andb]. auto. }
  clear Hx0. destruct Hamt as [-> [-> ->]].
  bind_step H. bind_step H. bind_step H. bind_step H. bind_step H. bind_step H. bind_step H.
  match goal with H : of_opt (safe_add (v_withdrawable v) _) = _ |- _ => apply of_opt_ok, safe_add_some in H; destruct H as [-> _] end.
  match goal with H : of_opt (safe_add _ _) = _ |- _ => apply of_opt_ok, safe_add_some in H; destruct H as [-> _] end.
  inversion H; subst. split; auto.
Qed.

(* a delegation is paid only when it has not started or has ended, the payment is its whole stake, and afterwards
   its stake is zero — a second withdrawal can only pay 0 *)
Lemma withdraw_delegation_pays_stake id s s1 x :
  withdraw_delegation id s = Ok (s1, x) ->
  exists d v, get (dels s) id = Some d /\ getv s (d_val d) = Some v /\ x = d_stake d /\
    (exists st fi, d_started d v (blk s) = Ok st /\ d_ended d v (blk s) = Ok fi /\ (st = false \/ fi = true)) /\
    exists d1, get (dels s1) id = Some d1 /\ d_stake d1 = 0.
Proof.
  unfold withdraw_delegation. intros H. destruct (get (dels s) id) as [d|] eqn:Ed; [|discriminate].
  apply bind_ok in H as [v [Hv H]]. unfold get_existing in Hv. apply of_opt_ok in Hv.
  apply bind_ok in H as [st [Hst H]]. apply bind_ok in H as [fi [Hfi H]].
  apply bind_ok in H as [u [Hg H]]. apply guard_ok' in Hg.
  apply bind_ok in H as [s2 [Hs2 H]]. apply bind_ok in H as [u2 [Hc H]]. inversion H; subst; clear H.
  exists d, v. repeat split; auto.
  - exists st, fi. repeat split; auto. destruct st, fi; cbn in Hg; auto; discriminate.
  - assert (D : forall s', dels s' = upd (dels s) id (mkD (d_val d) 0 (d_mult d) (d_last d) (d_first d)) ->
                exists d1, get (dels s') id = Some d1 /\ d_stake d1 = 0).
    { intros s' E. rewrite E, get_upd_same. eauto. }
    apply D. clear D Hc.
    destruct (negb st && negb (v_status v =? StatusExit)).
    + apply bind_ok in Hs2 as [s3 [Hs3 Hs2]]. unfold aggs_sub_pending in Hs3.
      apply bind_ok in Hs3 as [[pv pw] [_ Hs3]]. inversion Hs3; subst; clear Hs3.
      unfold remove_queued in Hs2. apply bind_ok in Hs2 as [q [_ Hs2]]. inversion Hs2; subst. reflexivity.
    + unfold remove_withdrawable in Hs2. apply bind_ok in Hs2 as [q [_ Hs2]]. inversion Hs2; subst. reflexivity.
Qed.

(* ---------------------------------------------------------------- activation count *)

Lemma activation_count_bounded ex s :
  let n := compute_activation_count ex s in
  let ls := if ex then sub64 (l_size (act s)) 1 else l_size (act s) in
  n <= l_size (que s) /\ (n = 0 \/ ls + n <= get_mbp s).
Proof.
  cbv zeta. unfold compute_activation_count.
  set (ls := if ex then sub64 (l_size (act s)) 1 else l_size (act s)).
  destruct ((get_mbp s <=? ls) || (l_size (que s) =? 0)) eqn:E; [split; [lia|auto]|].
  apply orb_false_iff in E as [E1 E2]. apply N.leb_gt in E1.
  destruct (get_mbp s - ls <? l_size (que s)) eqn:E3.
  - apply N.ltb_lt in E3. split; [lia|right; lia].
  - apply N.ltb_ge in E3. split; [lia|right; lia].
Qed.

(* ---------------------------------------------------------------- evictions *)

Lemma ll_walk_in fuel h s r a v : ll_walk fuel h s = Ok r -> In (a, v) r -> getv s a = Some v.
Proof.
  revert h r. induction fuel as [|f IH]; intros h r H Hin.
  - destruct h; cbn in H; [discriminate|]. inversion H; subst. contradiction.
  - destruct h as [b|]; cbn in H; [|inversion H; subst; contradiction].
    apply bind_ok in H as [e [He H]]. apply of_opt_ok in He.
    apply bind_ok in H as [r' [Hr H]]. inversion H; subst. destruct Hin as [E|Hin].
    + inversion E; subst. auto.
    + eapply IH; eauto.
Qed.

(* a validator is put on the eviction list only at an eviction-interval block, when it has been offline for more
   than the threshold and has not signalled exit *)
Lemma evictions_only_after_threshold c b s t a :
  compute_epoch_transition c b s = Ok t -> In a (tr_evictions t) ->
  b <> 0 /\ b mod c_evict_int c = 0 /\
  exists v off, getv s a = Some v /\ v_offline v = Some off /\ off + c_evict_thr c < b /\ v_exit v = None.
Proof.
  unfold compute_epoch_transition. intros H Hin.
  apply bind_ok in H as [ev [Hev H]]. apply bind_ok in H as [ren [Hren H]]. inversion H; subst t; clear H.
  cbn [tr_evictions] in Hin.
  destruct (negb (b =? 0) && (b mod c_evict_int c =? 0)) eqn:E; [|inversion Hev; subst; contradiction].
  apply andb_true_iff in E as [E1 E2]. apply negb_true_iff, N.eqb_neq in E1. apply N.eqb_eq in E2.
  apply bind_ok in Hev as [l [Hl Hev]]. inversion Hev; subst ev; clear Hev.
  apply in_map_iff in Hin as [[a' v] [Ea Hf]]. cbn in Ea. subst a'. apply filter_In in Hf as [Hf1 Hf2]. cbn in Hf2.
  unfold iterate in Hl. pose proof (ll_walk_in _ _ _ _ _ _ Hl Hf1) as Hv.
  unfold evictable in Hf2. destruct (v_offline v) as [off|] eqn:Eo; [|discriminate].
  apply andb_true_iff in Hf2 as [F1 F2]. apply N.ltb_lt in F1. apply negb_true_iff in F2.
  repeat split; auto. exists v, off. repeat split; auto. destruct (v_exit v); [discriminate|reflexivity].
Qed.
