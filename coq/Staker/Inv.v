(* Staker/Inv.v — the invariants: well-formed active / queued lists (WF), the VET counter sums (Inv1), and the
   frame lemmas used to carry them through the operations. *)
From Coq Require Import List NArith Bool Lia.
From Coq Require Import ZifyN ZifyNat ZifyBool.
From Verif Require Import Common.Util Staker.Model Staker.Base Staker.Lists.
Import ListNotations.
Open Scope N_scope.

(* ------------------------------------------------------------------ list well-formedness of a whole state *)

Record WF (s : st) (la lq : list N) : Prop := mkWF {
  wf_a : wf_list s (act s) la;
  wf_q : wf_list s (que s) lq;
  wf_st : forall a v, getv s a = Some v ->
     (In a la <-> v_status v = StatusActive) /\ (In a lq <-> v_status v = StatusQueued) /\
     (~ In a la -> ~ In a lq -> v_prev v = None /\ v_next v = None) }.

(* ------------------------------------------------------------------ VET accounting *)

Record Inv1 (s : st) : Prop := mkInv1 {
  i_lv : g_lv s = sumf v_locked (vals s) + sumf a_lv (aggs s);
  i_q : g_q s = sumf v_queued (vals s) + sumf a_pv (aggs s);
  i_cd : g_cd s = sumf v_cooldown (vals s);
  i_wd : g_wd s + sumf a_lv (aggs s) + sumf a_pv (aggs s) = sumf v_withdrawable (vals s) + sumf d_stake (dels s);
  i_eff : eff s = (g_lv s + g_q s + g_wd s + g_cd s) * e18;
  i_bal : eff s <= bal s;
  i_ctr : forall id d, get (dels s) id = Some d -> id <= del_ctr s }.

Definition Inv (s : st) : Prop := exists la lq, WF s la lq /\ Inv1 s.

(* ------------------------------------------------------------------ frames for WF *)

Definition links_status_kept (s s' : st) : Prop :=
  (forall a v, getv s a = Some v -> exists v', getv s' a = Some v' /\ v_prev v' = v_prev v /\ v_next v' = v_next v /\
                                               v_status v' = v_status v) /\
  (forall a, getv s a = None -> getv s' a = None).

Lemma wf_list_frame s s' ls l : wf_list s ls l -> links_status_kept s s' -> wf_list s' ls l.
Proof.
  intros [H1 H2 H3 H4] [K _]. constructor; auto.
  eapply seg_frame; eauto. intros a _ v Hv. destruct (K a v Hv) as [v' [? [? [? ?]]]]. exists v'; auto.
Qed.

Lemma WF_frame s s' la lq :
  WF s la lq -> act s' = act s -> que s' = que s -> links_status_kept s s' -> WF s' la lq.
Proof.
  intros [Ha Hq Hs] Ea Eq K. constructor.
  - rewrite Ea. eapply wf_list_frame; eauto.
  - rewrite Eq. eapply wf_list_frame; eauto.
  - intros a v' Hv'. destruct (getv s a) as [v|] eqn:Ev.
    + destruct (proj1 K a v Ev) as [v2 [Hv2 [E1 [E2 E3]]]]. rewrite Hv' in Hv2. inversion Hv2; subst v2.
      rewrite E1, E2, E3. apply Hs; auto.
    + rewrite (proj2 K a Ev) in Hv'. discriminate.
Qed.

Lemma kept_same_vals s s' : vals s' = vals s -> links_status_kept s s'.
Proof. intros E. unfold links_status_kept, getv. rewrite E. split; eauto. Qed.

Lemma kept_setv s a v v' :
  getv s a = Some v -> v_prev v' = v_prev v -> v_next v' = v_next v -> v_status v' = v_status v ->
  links_status_kept s (setv a v' s).
Proof.
  intros Hv E1 E2 E3. split.
  - intros b vb Hb. destruct (N.eq_dec a b) as [<-|Hne].
    + rewrite Hv in Hb. inversion Hb; subst. exists v'. rewrite getv_setv_same. auto.
    + exists vb. rewrite getv_setv_other; auto.
  - intros b Hb. destruct (N.eq_dec a b) as [<-|Hne]; [congruence|]. rewrite getv_setv_other; auto.
Qed.

Lemma kept_trans s1 s2 s3 : links_status_kept s1 s2 -> links_status_kept s2 s3 -> links_status_kept s1 s3.
Proof.
  intros [A1 B1] [A2 B2]. split.
  - intros a v Hv. destruct (A1 a v Hv) as [v2 [H2 [? [? ?]]]]. destruct (A2 a v2 H2) as [v3 [H3 [? [? ?]]]].
    exists v3. repeat split; auto; congruence.
  - intros a Ha. auto.
Qed.

(* weights of the active members and the total weight are untouched *)
Definition keeps_active (s s' : st) (la : list N) : Prop :=
  (forall a v, In a la -> getv s a = Some v -> exists v', getv s' a = Some v' /\ v_weight v' = v_weight v) /\
  g_lw s' = g_lw s.

(* ------------------------------------------------------------------ sums under the primitive updates *)

Lemma sum_setv (f : validation -> N) a v v' s :
  getv s a = Some v -> sumf f (vals (setv a v' s)) + f v = sumf f (vals s) + f v'.
Proof. intros H. unfold setv; cbn. apply sumf_upd_some; auto. Qed.

Lemma sum_set_agg (f : aggregation -> N) a x s :
  f agg0 = 0 -> sumf f (aggs (set_agg a x s)) + f (get_agg s a) = sumf f (aggs s) + f x.
Proof.
  intros H0. unfold set_agg, get_agg; cbn. destruct (get (aggs s) a) as [old|] eqn:E.
  - apply sumf_upd_some; auto.
  - rewrite (sumf_upd_none f _ _ _ E), H0. lia.
Qed.

(* the renewal list operations touch only the renewal list *)
Definition ren_only (s s' : st) : Prop := s' = w_ren (rh s') (rt s') (rprev s') (rnext s') s.
Lemma rl_add_only k s : ren_only s (rl_add k s).
Proof.
  unfold ren_only, rl_add. destruct (k =? 0); [destruct s; reflexivity|].
  destruct (rl_contains k s); [destruct s; reflexivity|]. destruct (rt s =? 0); destruct s; reflexivity.
Qed.
Lemma rl_remove_only k s : ren_only s (rl_remove k s).
Proof.
  unfold ren_only, rl_remove. destruct (k =? 0); [destruct s; reflexivity|].
  destruct (negb (rl_contains k s)); [destruct s; reflexivity|].
  destruct ((mget (rprev s) k =? 0) && (mget (rnext s) k =? 0) && (negb (rh s =? k) || negb (rt s =? k))); [destruct s; reflexivity|].
  destruct (mget (rprev s) k =? 0), (mget (rnext s) k =? 0); destruct s; reflexivity.
Qed.

Lemma Inv1_ren_only s s' : ren_only s s' -> Inv1 s -> Inv1 s'.
Proof. intros E [H1 H2 H3 H4 H5 H6 H7]. rewrite E. constructor; cbn; auto. Qed.
Lemma WF_ren_only s s' la lq : ren_only s s' -> WF s la lq -> WF s' la lq.
Proof.
  intros E H. apply (WF_frame s s' la lq H); try (rewrite E; reflexivity).
  apply kept_same_vals. rewrite E; reflexivity.
Qed.
Lemma keeps_ren_only s s' la : ren_only s s' -> keeps_active s s' la.
Proof.
  intros E. split; [|rewrite E; reflexivity]. intros a v _ Hv. exists v. split; auto.
  unfold getv in *. rewrite E; cbn. auto.
Qed.

Lemma keeps_trans s1 s2 s3 la : keeps_active s1 s2 la -> keeps_active s2 s3 la -> keeps_active s1 s3 la.
Proof.
  intros [A1 B1] [A2 B2]. split; [|congruence].
  intros a v Hin Hv. destruct (A1 a v Hin Hv) as [v2 [H2 E2]]. destruct (A2 a v2 Hin H2) as [v3 [H3 E3]].
  exists v3. split; auto; congruence.
Qed.

(* contract_balance_check success *)
Lemma cbc_ok p s u : contract_balance_check p s = Ok u ->
  to_vet (eff s) = g_lv s + g_q s + g_wd s + g_cd s + p /\ to_vet (eff s) <= to_vet (bal s).
Proof.
  unfold contract_balance_check. intros H.
  repeat (apply bind_ok in H as [? [? H]]).
  repeat match goal with
  | H : of_opt _ = Ok _ |- _ => apply of_opt_ok, safe_add_some in H; destruct H as [? ?]
  | H : must _ = Ok _ |- _ => apply must_ok' in H
  end. subst. split; lia.
Qed.

(* ------------------------------------------------------------------ removing an exiting record from its list *)

Lemma status_ne : StatusActive <> StatusQueued /\ StatusExit <> StatusActive /\ StatusExit <> StatusQueued.
Proof. repeat split; discriminate. Qed.

Lemma core_status v v' : core v = core v' -> v_status v = v_status v'.
Proof. intros H. inversion H; auto. Qed.

Lemma WF_remove w s la lq a e s1 e1 v0 :
  WF s la lq -> ll_remove w a e s = Ok (s1, e1) -> getv s a = Some v0 ->
  In a (if w then la else lq) -> v_prev e = v_prev v0 -> v_next e = v_next v0 -> v_status e = StatusExit ->
  exists l1 l2, (if w then la else lq) = l1 ++ a :: l2 /\
    WF s1 (if w then l1 ++ l2 else la) (if w then lq else l1 ++ l2) /\
    lists_only s s1 /\
    getv s1 a = Some e1 /\ core e1 = core e /\
    (forall b v, b <> a -> getv s b = Some v -> exists v', getv s1 b = Some v' /\ core v' = core v) /\
    (forall f : validation -> N, core_fun f -> sumf f (vals s1) + f v0 = sumf f (vals s) + f e).
Proof.
  intros [Ha Hq Hs] H Hv0 Hin Ep En Est.
  assert (Hdisj : forall b, In b la -> In b lq -> False).
  { intros b Hba Hbq. destruct (seg_in_get _ _ _ _ _ _ (wl_seg _ _ _ Ha) Hba) as [vb Hvb].
    destruct (Hs b vb Hvb) as [[S1 _] [[S2 _] _]]. rewrite (S1 Hba) in S2. specialize (S2 Hbq). discriminate. }
  destruct w.
  - destruct (ll_remove_wf true a e s s1 e1 la v0 H Ha Hin Hv0 Ep En)
      as [l1 [l2 [El [Hwl [Ee1 [Hga [Hot [Hlo [Hco Hsum]]]]]]]]].
    exists l1, l2. split; auto. split; [|split; [auto|split; [auto|split; [subst e1; reflexivity|split; [|auto]]]]].
    + assert (NDa : NoDup la) by (apply (wl_nodup _ _ _ Ha)).
      assert (Hna : ~ In a (l1 ++ l2)) by (rewrite El in NDa; apply NoDup_remove_2 in NDa; auto).
      constructor.
      * exact Hwl.
      * change (que s1) with (get_ls (negb true) s1). rewrite Hot. cbn [negb get_ls].
        destruct Hq as [Q1 Q2 Q3 Q4]. constructor; auto.
        eapply seg_frame; [exact Q1|]. intros b Hb v Hv.
        assert (b <> a) by (intros ->; eapply Hdisj; eauto).
        destruct (proj2 (Hco b H0) v Hv) as [v' [Hv' [Ec Hsame]]]. rewrite (Hsame (fun Hx => Hdisj b Hx Hb)) in Hv'. exists v. auto.
      * intros b vb Hb. destruct (N.eq_dec b a) as [->|Hne].
        -- rewrite Hga in Hb. inversion Hb; subst vb. subst e1. cbn [v_status v_prev v_next set_next set_prev].
           rewrite Est. destruct status_ne as [_ [N1 N2]].
           split; [split; [intros Hx; contradiction|intros Hx; congruence]|].
           split; [split; [intros Hx; exfalso; eapply Hdisj; eauto|intros Hx; congruence]|auto].
        -- destruct (getv s b) as [v|] eqn:Ev; [|rewrite (proj1 (Hco b Hne) Ev) in Hb; discriminate].
           destruct (proj2 (Hco b Hne) v Ev) as [v' [Hv' [Ec Hsame]]]. rewrite Hb in Hv'. inversion Hv'; subst v'.
           destruct (Hs b v Ev) as [S1 [S2 S3]]. rewrite (core_status _ _ Ec).
           assert (Hiff : In b (l1 ++ l2) <-> In b la).
           { rewrite El, !in_app_iff. cbn. intuition congruence. }
           split; [rewrite Hiff; auto|]. split; auto.
           intros Hn1 Hn2. rewrite Hiff in Hn1. rewrite (Hsame Hn1). auto.
    + intros b v Hne Hv. destruct (proj2 (Hco b Hne) v Hv) as [v' [Hv' [Ec _]]]. eauto.
  - destruct (ll_remove_wf false a e s s1 e1 lq v0 H Hq Hin Hv0 Ep En)
      as [l1 [l2 [El [Hwl [Ee1 [Hga [Hot [Hlo [Hco Hsum]]]]]]]]].
    exists l1, l2. split; auto. split; [|split; [auto|split; [auto|split; [subst e1; reflexivity|split; [|auto]]]]].
    + assert (NDq : NoDup lq) by (apply (wl_nodup _ _ _ Hq)).
      assert (Hna : ~ In a (l1 ++ l2)) by (rewrite El in NDq; apply NoDup_remove_2 in NDq; auto).
      constructor.
      * change (act s1) with (get_ls (negb false) s1). rewrite Hot. cbn [negb get_ls].
        destruct Ha as [Q1 Q2 Q3 Q4]. constructor; auto.
        eapply seg_frame; [exact Q1|]. intros b Hb v Hv.
        assert (b <> a) by (intros ->; eapply Hdisj; eauto).
        destruct (proj2 (Hco b H0) v Hv) as [v' [Hv' [Ec Hsame]]]. rewrite (Hsame (fun Hx => Hdisj b Hb Hx)) in Hv'. exists v. auto.
      * exact Hwl.
      * intros b vb Hb. destruct (N.eq_dec b a) as [->|Hne].
        -- rewrite Hga in Hb. inversion Hb; subst vb. subst e1. cbn [v_status v_prev v_next set_next set_prev].
           rewrite Est. destruct status_ne as [_ [N1 N2]].
           split; [split; [intros Hx; exfalso; eapply Hdisj; eauto|intros Hx; congruence]|].
           split; [split; [intros Hx; contradiction|intros Hx; congruence]|auto].
        -- destruct (getv s b) as [v|] eqn:Ev; [|rewrite (proj1 (Hco b Hne) Ev) in Hb; discriminate].
           destruct (proj2 (Hco b Hne) v Ev) as [v' [Hv' [Ec Hsame]]]. rewrite Hb in Hv'. inversion Hv'; subst v'.
           destruct (Hs b v Ev) as [S1 [S2 S3]]. rewrite (core_status _ _ Ec).
           assert (Hiff : In b (l1 ++ l2) <-> In b lq).
           { rewrite El, !in_app_iff. cbn. intuition congruence. }
           split; auto. split; [rewrite Hiff; auto|].
           intros Hn1 Hn2. rewrite Hiff in Hn2. rewrite (Hsame Hn2). auto.
    + intros b v Hne Hv. destruct (proj2 (Hco b Hne) v Hv) as [v' [Hv' [Ec _]]]. eauto.
Qed.

(* ------------------------------------------------------------------ aggregations of non-active validators hold no locked stake *)

Definition InvA (s : st) : Prop :=
  forall a, (forall v, getv s a = Some v -> v_status v <> StatusActive) -> a_lv (get_agg s a) = 0.

Lemma InvA_frame s s' :
  InvA s -> links_status_kept s s' -> (forall a, a_lv (get_agg s' a) = a_lv (get_agg s a)) -> InvA s'.
Proof.
  intros H [K1 K2] Ea a Hna. rewrite Ea. apply H. intros v Hv.
  destruct (K1 a v Hv) as [v' [Hv' [_ [_ Es]]]]. rewrite <- Es. apply (Hna v' Hv').
Qed.

Definition InvAll (s : st) : Prop := exists la lq, WF s la lq /\ Inv1 s /\ InvA s.

(* ------------------------------------------------------------------ queueing a new record *)

Lemma WF_add_new s la lq a e s1 :
  WF s la lq -> getv s a = None -> ll_add false a e s = Ok s1 -> v_next e = None -> v_status e = StatusQueued ->
  WF s1 la (lq ++ [a]) /\ lists_only s s1 /\
  (forall b v, b <> a -> getv s b = Some v -> exists v', getv s1 b = Some v' /\ core v' = core v) /\
  (forall b, b <> a -> getv s b = None -> getv s1 b = None) /\
  (forall f : validation -> N, core_fun f -> sumf f (vals s1) = sumf f (vals s) + f e).
Proof.
  intros [Ha Hq Hs] Hnone H Hnx Hst.
  assert (Hnq : ~ In a lq).
  { intros Hx. destruct (seg_in_get _ _ _ _ _ _ (wl_seg _ _ _ Hq) Hx) as [v Hv]. congruence. }
  assert (Hna : ~ In a la).
  { intros Hx. destruct (seg_in_get _ _ _ _ _ _ (wl_seg _ _ _ Ha) Hx) as [v Hv]. congruence. }
  assert (Hdisj : forall b, In b la -> In b lq -> False).
  { intros b Hba Hbq. destruct (seg_in_get _ _ _ _ _ _ (wl_seg _ _ _ Ha) Hba) as [vb Hvb].
    destruct (Hs b vb Hvb) as [[S1 _] [[S2 _] _]]. rewrite (S1 Hba) in S2. specialize (S2 Hbq). discriminate. }
  destruct (ll_add_wf false a e s s1 lq H Hq Hnq Hnx) as [Hwl [Hga [Hot [Hlo [Hco Hsum]]]]].
  split; [|split; [auto|split; [|split]]].
  - constructor.
    + change (act s1) with (get_ls (negb false) s1). rewrite Hot. cbn [negb get_ls].
      destruct Ha as [Q1 Q2 Q3 Q4]. constructor; auto.
      eapply seg_frame; [exact Q1|]. intros b Hb v Hv.
      assert (b <> a) by (intros ->; auto).
      destruct (proj2 (Hco b H0) v Hv) as [v' [Hv' [Ec Hsame]]]. rewrite (Hsame (fun Hx => Hdisj b Hb Hx)) in Hv'. exists v. auto.
    + exact Hwl.
    + intros b vb Hb. destruct (N.eq_dec b a) as [->|Hne].
      * rewrite Hga in Hb. inversion Hb; subst vb. cbn [v_status v_prev v_next set_prev]. rewrite Hst.
        split; [split; [intros Hx; contradiction|discriminate]|].
        split; [split; auto; intros _; apply in_or_app; right; left; auto|].
        intros _ Hx. exfalso. apply Hx, in_or_app. right; left; auto.
      * destruct (getv s b) as [v|] eqn:Ev; [|rewrite (proj1 (Hco b Hne) Ev) in Hb; discriminate].
        destruct (proj2 (Hco b Hne) v Ev) as [v' [Hv' [Ec Hsame]]]. rewrite Hb in Hv'. inversion Hv'; subst v'.
        destruct (Hs b v Ev) as [S1 [S2 S3]]. rewrite (core_status _ _ Ec).
        assert (Hiff : In b (lq ++ [a]) <-> In b lq).
        { rewrite in_app_iff. cbn. intuition congruence. }
        split; auto. split; [rewrite Hiff; auto|].
        intros Hn1 Hn2. rewrite Hiff in Hn2. rewrite (Hsame Hn2). auto.
  - intros b v Hne Hv. destruct (proj2 (Hco b Hne) v Hv) as [v' [Hv' [Ec _]]]. eauto.
  - intros b Hne Hb. apply (proj1 (Hco b Hne) Hb).
  - intros f Hf. specialize (Hsum f Hf). rewrite Hnone in Hsum. exact Hsum.
Qed.
