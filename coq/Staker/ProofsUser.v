(* Staker/ProofsUser.v — every user operation preserves list well-formedness and the VET accounting, and leaves
   the active set, its weights and the total weight untouched. *)
From Coq Require Import List NArith Bool Lia.
From Coq Require Import ZifyN ZifyNat ZifyBool.
From Verif Require Import Common.Util Staker.Model Staker.Base Staker.Lists Staker.Inv.
Import ListNotations.
Open Scope N_scope.

Opaque e18 two64.

Ltac bstep H x Hx := cbv zeta in H; apply bind_ok in H as [x [Hx H]].
Ltac gfacts :=
  repeat match goal with
  | H : guard _ = Ok _ |- _ => apply guard_ok' in H
  | H : must _ = Ok _ |- _ => apply must_ok' in H
  | H : of_opt _ = Ok _ |- _ => apply of_opt_ok in H
  | H : safe_add _ _ = Some _ |- _ => apply safe_add_some in H; destruct H as [? ?]
  | H : safe_sub _ _ = Some _ |- _ => apply safe_sub_some in H; destruct H as [? ?]
  end.

(* replace a renewal-list operation by an abstract state that differs only in the renewal list *)
Ltac abstract_rl :=
  repeat match goal with
  | |- context [rl_add ?k ?s] =>
    let r := fresh "r" in let Er := fresh "Er" in
    generalize (rl_add_only k s); generalize (rl_add k s); intros r Er; unfold ren_only in Er
  | |- context [rl_remove ?k ?s] =>
    let r := fresh "r" in let Er := fresh "Er" in
    generalize (rl_remove_only k s); generalize (rl_remove k s); intros r Er; unfold ren_only in Er
  end.

Definition user_ok (s s' : st) (la lq : list N) : Prop :=
  exists lq', WF s' la lq' /\ Inv1 s' /\ keeps_active s s' la /\ InvA s'.

(* the common case: one record rewritten with the same pointers, status and weight; aggregations' locked part,
   list statistics and total weight untouched *)
Lemma user_ok_setv s s' a v v' la lq :
  WF s la lq -> InvA s -> Inv1 s' -> getv s a = Some v ->
  v_prev v' = v_prev v -> v_next v' = v_next v -> v_status v' = v_status v -> v_weight v' = v_weight v ->
  vals s' = upd (vals s) a v' -> act s' = act s -> que s' = que s -> g_lw s' = g_lw s ->
  (forall b, a_lv (get_agg s' b) = a_lv (get_agg s b)) -> user_ok s s' la lq.
Proof.
  intros Hwf Ha Hi Hv E1 E2 E3 E4 Ev Eac Eq Ew Eag. exists lq.
  assert (K : links_status_kept s s').
  { apply (kept_trans _ (setv a v' s)); [apply kept_setv with (v := v); auto|]. apply kept_same_vals. rewrite Ev. reflexivity. }
  split; [eapply WF_frame; eauto|]. split; auto. split.
  - split; auto. intros b vb _ Hb. unfold getv in *. rewrite Ev, get_upd. destruct (a =? b) eqn:E.
    + apply N.eqb_eq in E; subst b. rewrite Hv in Hb. inversion Hb; subst. eauto.
    + eauto.
  - eapply InvA_frame; eauto.
Qed.

Lemma user_ok_same_vals s s' la lq :
  WF s la lq -> InvA s -> Inv1 s' -> vals s' = vals s -> act s' = act s -> que s' = que s -> g_lw s' = g_lw s ->
  (forall b, a_lv (get_agg s' b) = a_lv (get_agg s b)) -> user_ok s s' la lq.
Proof.
  intros Hwf Ha Hi Ev Eac Eq Ew Eag. exists lq. assert (K : links_status_kept s s') by (apply kept_same_vals; auto).
  split; [eapply WF_frame; eauto|]. split; auto. split.
  - split; auto. intros b vb _ Hb. unfold getv in *. rewrite Ev. eauto.
  - eapply InvA_frame; eauto.
Qed.

Lemma get_or_revert_ok s a v : get_or_revert s a = Ok v -> getv s a = Some v.
Proof. unfold get_or_revert. destruct (getv s a); intros H; inversion H; auto. Qed.

Lemma pay_in_Inv1_pre wei s : getv (pay_in wei s) = getv s.
Proof. reflexivity. Qed.

(* ------------------------------------------------------------------ IncreaseStake *)

Lemma increase_stake_ok a e vet s s' x la lq :
  increase_stake a e vet (pay_in (vet * e18) s) = Ok (s', x) -> WF s la lq -> Inv1 s -> InvA s -> user_ok s s' la lq.
Proof.
  intros H Hwf [I1 I2 I3 I4 I5 I6 I7] HA. unfold increase_stake in H.
  bstep H v Hv. apply get_or_revert_ok in Hv. change (getv s a = Some v) in Hv.
  bstep H u1 G1. bstep H u2 G2. bstep H u3 G3. bstep H u4 G4. bstep H u5 G5. bstep H u6 G6.
  inversion H; subst s' x; clear H. apply cbc_ok in G6. clear G1 G2 G3 G4 G5.
  revert G6. abstract_rl. intros G6. set (v' := set_queued (v_queued v + vet) v) in *.
  rewrite Er. apply (user_ok_setv s _ a v v'); auto.
  pose proof (sum_setv v_locked a v v' s Hv) as S1. pose proof (sum_setv v_queued a v v' s Hv) as S2.
  pose proof (sum_setv v_cooldown a v v' s Hv) as S3. pose proof (sum_setv v_withdrawable a v v' s Hv) as S4.
  constructor; cbn in *; try lia. auto.
Qed.

(* ------------------------------------------------------------------ generic helpers *)

Lemma WF_setv_gen s s' a v v' la lq :
  WF s la lq -> getv s a = Some v ->
  v_prev v' = v_prev v -> v_next v' = v_next v -> v_status v' = v_status v ->
  vals s' = upd (vals s) a v' -> act s' = act s -> que s' = que s -> WF s' la lq.
Proof.
  intros Hwf Hv E1 E2 E3 Ev Ea Eq. eapply WF_frame; eauto.
  apply (kept_trans _ (setv a v' s)); [apply kept_setv with (v := v); auto|].
  apply kept_same_vals. rewrite Ev. reflexivity.
Qed.

Lemma WF_same_vals s s' la lq :
  WF s la lq -> vals s' = vals s -> act s' = act s -> que s' = que s -> WF s' la lq.
Proof. intros Hwf Ev Ea Eq. eapply WF_frame; eauto. apply kept_same_vals; auto. Qed.

Lemma keeps_setv_gen s s' a v v' la :
  getv s a = Some v -> v_weight v' = v_weight v -> vals s' = upd (vals s) a v' -> g_lw s' = g_lw s ->
  keeps_active s s' la.
Proof.
  intros Hv Ew Ev Eg. split; auto. intros b vb _ Hb. unfold getv in *. rewrite Ev, get_upd.
  destruct (a =? b) eqn:E.
  - apply N.eqb_eq in E; subst b. rewrite Hv in Hb. inversion Hb; subst. eauto.
  - eauto.
Qed.

Lemma keeps_same_vals s s' la : vals s' = vals s -> g_lw s' = g_lw s -> keeps_active s s' la.
Proof. intros Ev Eg. split; auto. intros b vb _ Hb. unfold getv in *. rewrite Ev. eauto. Qed.

(* accounting with an amount x that has left the counters but not yet the contract (between the native call and
   the transfer of a withdrawal) *)
Record Inv1x (x : N) (s : st) : Prop := mkInv1x {
  x_lv : g_lv s = sumf v_locked (vals s) + sumf a_lv (aggs s);
  x_q : g_q s = sumf v_queued (vals s) + sumf a_pv (aggs s);
  x_cd : g_cd s = sumf v_cooldown (vals s);
  x_wd : g_wd s + sumf a_lv (aggs s) + sumf a_pv (aggs s) = sumf v_withdrawable (vals s) + sumf d_stake (dels s);
  x_eff : eff s = (g_lv s + g_q s + g_wd s + g_cd s + x) * e18;
  x_bal : eff s <= bal s;
  x_ctr : forall id d, get (dels s) id = Some d -> id <= del_ctr s }.

Lemma pay_out_Inv1 x s s2 : Inv1x x s -> pay_out x s = Ok s2 ->
  Inv1 s2 /\ vals s2 = vals s /\ act s2 = act s /\ que s2 = que s /\ g_lw s2 = g_lw s.
Proof.
  intros [H1 H2 H3 H4 H5 H6 H7] H. unfold pay_out in H. bstep H u1 G1. bstep H u2 G2. inversion H; subst s2; clear H.
  gfacts. split; [|cbn; auto]. constructor; cbn; auto; try lia.
Qed.

(* ------------------------------------------------------------------ DecreaseStake *)

Lemma decrease_stake_ok a e vet s s' x la lq :
  decrease_stake a e vet s = Ok (s', x) -> WF s la lq -> Inv1 s -> InvA s -> user_ok s s' la lq.
Proof.
  intros H Hwf [I1 I2 I3 I4 I5 I6 I7] HA. unfold decrease_stake in H.
  bstep H u0 G0. bstep H v Hv. apply get_or_revert_ok in Hv.
  bstep H u1 G1. bstep H u2 G2. bstep H u3 G3. bstep H u4 G4. bstep H u5 G5. bstep H u6 G6. bstep H u7 G7.
  inversion H; subst s' x; clear H. clear G0 G1 G2 G3 G4 G5 G6 G7.
  abstract_rl. set (v' := set_punlock (v_punlock v + vet) v) in *.
  rewrite Er. apply (user_ok_setv s _ a v v'); auto.
  pose proof (sum_setv v_locked a v v' s Hv) as S1. pose proof (sum_setv v_queued a v v' s Hv) as S2.
  pose proof (sum_setv v_cooldown a v v' s Hv) as S3. pose proof (sum_setv v_withdrawable a v v' s Hv) as S4.
  constructor; cbn in *; try lia. auto.
Qed.

(* ------------------------------------------------------------------ SignalExit *)

Lemma svc_signal_exit_shape c a cb mb mt on s s1 :
  svc_signal_exit c a cb mb mt on s = Ok s1 -> on <> Ok s1 ->
  exists v eb cur, getv s a = Some v /\
    s1 = setv a (set_completed cur (set_exit (Some eb) v)) (w_exits (upd (exits s) eb a) s).
Proof.
  unfold svc_signal_exit. intros H Hon. bstep H v Hv. unfold get_existing in Hv. apply of_opt_ok in Hv.
  destruct (find_exit_block c s mb mt) as [eb|]; [|congruence].
  bstep H cur Hc. inversion H; subst. exists v, eb, cur. auto.
Qed.

Lemma signal_exit_shape_ok s s1 a v eb cur la lq :
  getv s a = Some v -> s1 = setv a (set_completed cur (set_exit (Some eb) v)) (w_exits (upd (exits s) eb a) s) ->
  WF s la lq -> Inv1 s -> InvA s -> user_ok s s1 la lq.
Proof.
  intros Hv -> Hwf [I1 I2 I3 I4 I5 I6 I7] HA. set (v' := set_completed cur (set_exit (Some eb) v)).
  apply (user_ok_setv s _ a v v'); auto.
  pose proof (sum_setv v_locked a v v' s Hv) as S1. pose proof (sum_setv v_queued a v v' s Hv) as S2.
  pose proof (sum_setv v_cooldown a v v' s Hv) as S3. pose proof (sum_setv v_withdrawable a v v' s Hv) as S4.
  constructor; cbn in *; try lia. auto.
Qed.

Lemma signal_exit_ok c a e s s' x la lq :
  signal_exit c a e s = Ok (s', x) -> WF s la lq -> Inv1 s -> InvA s -> user_ok s s' la lq.
Proof.
  intros H Hwf Hi HA. unfold signal_exit in H.
  bstep H v Hv. bstep H u1 G1. bstep H u2 G2. bstep H u3 G3. bstep H cur Hc. bstep H s1 Hs. inversion H; subst s' x; clear H.
  apply svc_signal_exit_shape in Hs; [|discriminate]. destruct Hs as [v2 [eb [cur2 [Hv2 ->]]]].
  eapply signal_exit_shape_ok; eauto.
Qed.

(* ------------------------------------------------------------------ SetOnline / SetBeneficiary *)

Lemma simple_setv_ok s a v v' la lq :
  getv s a = Some v -> core v' = core (set_offline (v_offline v') (set_benef (v_benef v') v)) ->
  v_prev v' = v_prev v -> v_next v' = v_next v ->
  WF s la lq -> Inv1 s -> InvA s -> user_ok s (setv a v' s) la lq.
Proof.
  intros Hv Ec E1 E2 Hwf [I1 I2 I3 I4 I5 I6 I7] HA. inversion Ec.
  apply (user_ok_setv s _ a v v'); auto.
  pose proof (sum_setv v_locked a v v' s Hv) as S1. pose proof (sum_setv v_queued a v v' s Hv) as S2.
  pose proof (sum_setv v_cooldown a v v' s Hv) as S3. pose proof (sum_setv v_withdrawable a v v' s Hv) as S4.
  constructor; cbn in *; try lia. auto.
Qed.

Lemma set_online_ok a on s s' x la lq :
  set_online a on s = Ok (s', x) -> WF s la lq -> Inv1 s -> InvA s -> user_ok s s' la lq.
Proof.
  intros H Hwf Hi HA. unfold set_online in H. bstep H v Hv. unfold get_existing in Hv. apply of_opt_ok in Hv.
  inversion H; subst s' x; clear H. apply simple_setv_ok with (v := v); auto.
Qed.

Lemma set_beneficiary_ok a e b s s' x la lq :
  set_beneficiary a e b s = Ok (s', x) -> WF s la lq -> Inv1 s -> InvA s -> user_ok s s' la lq.
Proof.
  intros H Hwf Hi HA. unfold set_beneficiary in H. bstep H v Hv. apply get_or_revert_ok in Hv.
  bstep H u1 G1. bstep H u2 G2. inversion H; subst s' x; clear H. apply simple_setv_ok with (v := v); auto.
Qed.

(* ------------------------------------------------------------------ reward / params / donation *)

Lemma increase_reward_ok a amt s s' x la lq :
  increase_reward a amt s = Ok (s', x) -> WF s la lq -> Inv1 s -> InvA s -> user_ok s s' la lq.
Proof.
  intros H Hwf [I1 I2 I3 I4 I5 I6 I7] HA. unfold increase_reward in H. bstep H v Hv. bstep H cur Hc.
  inversion H; subst s' x; clear H. apply user_ok_same_vals; auto. constructor; cbn; auto.
Qed.

(* ------------------------------------------------------------------ WithdrawStake *)

Lemma w_glob_id s : w_glob (g_lv s) (g_lw s) (g_q s) (g_wd s) (g_cd s) s = s.
Proof. destruct s; reflexivity. Qed.

Lemma cond_remove_wd x s s' : (if 0 <? x then remove_withdrawable x s else Ok s) = Ok s' ->
  s' = w_glob (g_lv s) (g_lw s) (g_q s) (g_wd s - x) (g_cd s) s /\ x <= g_wd s.
Proof.
  destruct (0 <? x) eqn:E.
  - unfold remove_withdrawable. intros H. bstep H y Hy. inversion H; subst. gfacts. subst. auto.
  - intros H. inversion H; subst. apply N.ltb_ge in E. assert (x = 0) by lia. subst. rewrite N.sub_0_r, w_glob_id. split; auto; lia.
Qed.
Lemma cond_remove_q x s s' : (if 0 <? x then remove_queued x s else Ok s) = Ok s' ->
  s' = w_glob (g_lv s) (g_lw s) (g_q s - x) (g_wd s) (g_cd s) s /\ x <= g_q s.
Proof.
  destruct (0 <? x) eqn:E.
  - unfold remove_queued. intros H. bstep H y Hy. inversion H; subst. gfacts. subst. auto.
  - intros H. inversion H; subst. apply N.ltb_ge in E. assert (x = 0) by lia. subst. rewrite N.sub_0_r, w_glob_id. split; auto; lia.
Qed.
Lemma cond_remove_cd x s s' : (if 0 <? x then remove_cooldown x s else Ok s) = Ok s' ->
  s' = w_glob (g_lv s) (g_lw s) (g_q s) (g_wd s) (g_cd s - x) s /\ x <= g_cd s.
Proof.
  destruct (0 <? x) eqn:E.
  - unfold remove_cooldown. intros H. bstep H y Hy. inversion H; subst. gfacts. subst. auto.
  - intros H. inversion H; subst. apply N.ltb_ge in E. assert (x = 0) by lia. subst. rewrite N.sub_0_r, w_glob_id. split; auto; lia.
Qed.

Lemma core_fun_locked : core_fun v_locked. Proof. intros v v' H; inversion H; auto. Qed.
Lemma core_fun_queued : core_fun v_queued. Proof. intros v v' H; inversion H; auto. Qed.
Lemma core_fun_cooldown : core_fun v_cooldown. Proof. intros v v' H; inversion H; auto. Qed.
Lemma core_fun_withdrawable : core_fun v_withdrawable. Proof. intros v v' H; inversion H; auto. Qed.
Lemma core_fun_weight : core_fun v_weight. Proof. intros v v' H; inversion H; auto. Qed.

Lemma withdraw_stake_ok c a e s s1 x s2 la lq :
  withdraw_stake c a e s = Ok (s1, x) -> pay_out x s1 = Ok s2 -> WF s la lq -> Inv1 s -> InvA s -> user_ok s s2 la lq.
Proof.
  intros H Hpay Hwf Hi HA. pose proof Hi as [I1 I2 I3 I4 I5 I6 I7]. unfold withdraw_stake in H.
  bstep H v Hv. apply get_or_revert_ok in Hv. bstep H u1 G1.
  bstep H r Hr. destruct r as [[[sa wd] q] cd].
  bstep H sb Hb. bstep H sc Hc. bstep H sd Hd. bstep H se He. bstep H t1 Ht1. bstep H tot Htot. bstep H u2 Hcb.
  inversion H; subst s1 x; clear H. gfacts. clear Hcb G1.
  repeat match goal with H : ?t = _ + _ |- _ => is_var t; subst t end.
  apply cond_remove_wd in Hc as [-> Lc]. apply cond_remove_q in Hd as [-> Ld]. apply cond_remove_cd in He as [-> Le].
  unfold svc_withdraw_stake in Hr. destruct (v_status v =? StatusQueued) eqn:Est.
  - (* still queued: leave the queue, release the pending delegations *)
    apply N.eqb_eq in Est. bstep Hr r1 Hrm. destruct r1 as [s1' e1]. inversion Hr; subst sa wd q cd; clear Hr.
    set (v1 := set_status StatusExit (set_amounts (v_locked v) (v_punlock v) 0 (v_cooldown v) 0 (v_weight v) v)) in *.
    assert (Hin : In a lq) by (apply (wf_st _ _ _ Hwf a v Hv); auto).
    destruct (WF_remove false s la lq a v1 s1' e1 v Hwf Hrm Hv Hin eq_refl eq_refl eq_refl)
      as [l1 [l2 [El [Hwf1 [Hlo [Hga [Hce [Hco Hsum]]]]]]]].
    pose proof (Hsum v_locked core_fun_locked) as S1. pose proof (Hsum v_queued core_fun_queued) as S2.
    pose proof (Hsum v_cooldown core_fun_cooldown) as S3. pose proof (Hsum v_withdrawable core_fun_withdrawable) as S4.
    cbn [v1 v_locked v_queued v_cooldown v_withdrawable set_status set_amounts] in S1, S2, S3, S4.
    (* aggregation exit *)
    unfold aggs_exit in Hb. cbn [e_qdec] in Hb.
    pose proof (sum_set_agg a_lv a agg0 s1' eq_refl) as A1. pose proof (sum_set_agg a_pv a agg0 s1' eq_refl) as A2.
    cbn [a_lv a_pv agg0] in A1, A2.
    assert (A0 : a_lv (get_agg s1' a) = 0).
    { replace (get_agg s1' a) with (get_agg s a) by (unfold get_agg; rewrite Hlo; reflexivity).
      apply HA. intros v2 Hv2. rewrite Hv in Hv2. inversion Hv2; subst v2. rewrite Est. discriminate. }
    assert (Eg : forall (T : Type) (X : st -> T), X (w_vals (vals s1') (w_act (act s1') (w_que (que s1') s))) = X s1') by (intros; rewrite <- Hlo; auto).
    assert (Hsb : exists p, sb = w_glob (g_lv s) (g_lw s) (g_q s - p) (g_wd s + p) (g_cd s) (set_agg a agg0 s1') /\
                            p = a_pv (get_agg s1' a) /\ p <= g_q s).
    { exists (a_pv (get_agg s1' a)). destruct (0 <? a_pv (get_agg s1' a)) eqn:Ep.
      - bstep Hb s1b Hq. unfold remove_queued in Hq. bstep Hq y Hy. inversion Hq; subst s1b; clear Hq.
        unfold add_withdrawable in Hb. bstep Hb z Hz. inversion Hb; subst sb; clear Hb. gfacts. subst.
        cbn. rewrite <- (Eg _ g_q), <- (Eg _ g_lv), <- (Eg _ g_lw), <- (Eg _ g_wd), <- (Eg _ g_cd). cbn.
        split; [reflexivity|split; [reflexivity|]].
        match goal with H : a_pv (get_agg s1' a) <= _ |- _ => cbn in H; rewrite <- (Eg _ g_q) in H; cbn in H; exact H end.
      - inversion Hb; subst sb. apply N.ltb_ge in Ep. assert (E0 : a_pv (get_agg s1' a) = 0) by lia. rewrite E0.
        rewrite N.sub_0_r, N.add_0_r. split; [|split; auto; lia].
        rewrite <- (w_glob_id (set_agg a agg0 s1')) at 1. cbn.
        rewrite <- (Eg _ g_q), <- (Eg _ g_lv), <- (Eg _ g_lw), <- (Eg _ g_wd), <- (Eg _ g_cd). cbn. auto. }
    destruct Hsb as [p [-> [Ep Lp]]].
    assert (Egs : aggs s1' = aggs s) by (rewrite <- (Eg _ aggs); reflexivity).
    assert (Eds : dels s1' = dels s /\ del_ctr s1' = del_ctr s /\ eff s1' = eff s /\ bal s1' = bal s).
    { rewrite <- (Eg _ dels), <- (Eg _ del_ctr), <- (Eg _ eff), <- (Eg _ bal). cbn. auto. }
    destruct Eds as [Ed1 [Ed2 [Ed3 Ed4]]].
    set (s1 := w_glob _ _ _ _ _ (w_glob _ _ _ _ _ (w_glob _ _ _ _ _ (w_glob _ _ _ _ _ (set_agg a agg0 s1'))))) in *.
    assert (X : Inv1x (v_withdrawable v + v_queued v + 0) s1).
    { unfold s1. constructor; cbn in *; rewrite ?Egs, ?Ed1, ?Ed2, ?Ed3, ?Ed4 in *; try lia; [rewrite I5; f_equal; lia|auto]. }
    destruct (pay_out_Inv1 _ _ _ X Hpay) as [Hi2 [Ev2 [Ea2 [Eq2 Ew2]]]].
    exists (l1 ++ l2). split; [|split; [auto|split]].
    + apply (WF_same_vals s1'); auto.
    + split.
      * intros b vb Hb' Hvb. assert (b <> a).
        { intros ->. destruct (wf_st _ _ _ Hwf a v Hv) as [[S1' _] _]. rewrite (S1' Hb') in Est. discriminate. }
        destruct (Hco b vb H Hvb) as [v' [Hv' Ec]]. exists v'. split; [|inversion Ec; auto].
        unfold getv in *. rewrite Ev2. exact Hv'.
      * rewrite Ew2. unfold s1. cbn. reflexivity.
    + (* InvA *)
      assert (Egg : forall b, get_agg s2 b = get_agg (set_agg a agg0 s1') b).
      { intros b. unfold get_agg. unfold pay_out in Hpay. bstep Hpay u3 G3. bstep Hpay u4 G4. inversion Hpay; subst s2. reflexivity. }
      intros b Hb'. rewrite Egg. unfold get_agg, set_agg; cbn. rewrite get_upd. destruct (a =? b) eqn:Eab; [reflexivity|].
      apply N.eqb_neq in Eab. rewrite Egs. apply HA. intros vb Hvb.
      destruct (Hco b vb (fun E => Eab (eq_sym E)) Hvb) as [v' [Hv' Ec]]. rewrite <- (core_status _ _ Ec).
      apply (Hb' v'). unfold getv in *. rewrite Ev2. exact Hv'.
  - (* active or exited *)
    inversion Hr; subst sa wd q cd; clear Hr. inversion Hb; subst sb; clear Hb.
    set (v1 := set_amounts (v_locked v) (v_punlock v) 0 (if cooldown_ended c v (blk s) then 0 else v_cooldown v) 0 (v_weight v) v) in *.
    pose proof (sum_setv v_locked a v v1 s Hv) as S1. pose proof (sum_setv v_queued a v v1 s Hv) as S2.
    pose proof (sum_setv v_cooldown a v v1 s Hv) as S3. pose proof (sum_setv v_withdrawable a v v1 s Hv) as S4.
    set (s1 := w_glob _ _ _ _ _ (w_glob _ _ _ _ _ (w_glob _ _ _ _ _ (setv a v1 s)))) in *.
    assert (X : Inv1x (v_withdrawable v + v_queued v + (if cooldown_ended c v (blk s) then v_cooldown v else 0)) s1).
    { unfold s1. constructor; cbn in *; destruct (cooldown_ended c v (blk s)); cbn in *; try lia; auto; rewrite I5; f_equal; lia. }
    destruct (pay_out_Inv1 _ _ _ X Hpay) as [Hi2 [Ev2 [Ea2 [Eq2 Ew2]]]].
    apply (user_ok_setv s _ a v v1); auto.
    intros b. unfold pay_out in Hpay. bstep Hpay u3 G3. bstep Hpay u4 G4. inversion Hpay; subst s2. reflexivity.
Qed.

(* ------------------------------------------------------------------ AddValidation *)

Lemma WF_pay_in wei s la lq : WF s la lq -> WF (pay_in wei s) la lq.
Proof. intros H. apply (WF_same_vals s); auto. Qed.

Lemma add_validation_ok c a e p vet s s' x la lq :
  add_validation c a e p vet (pay_in (vet * e18) s) = Ok (s', x) -> WF s la lq -> Inv1 s -> InvA s -> user_ok s s' la lq.
Proof.
  intros H Hwf [I1 I2 I3 I4 I5 I6 I7] HA. unfold add_validation in H.
  bstep H u1 G1. bstep H u2 G2. bstep H u3 G3. bstep H u4 G4. bstep H u5 G5. bstep H s1 Hadd. bstep H u6 G6.
  inversion H; subst s' x; clear H. gfacts. clear G1 G2 G3 G5 G6.
  assert (Hnone : getv (pay_in (vet * e18) s) a = None).
  { change (getv (pay_in (vet * e18) s) a) with (getv s a) in *. destruct (getv s a); [discriminate|reflexivity]. }
  set (e0 := mkV e None p 0 StatusQueued 0 None None 0 0 vet 0 0 0 None None) in *.
  destruct (WF_add_new _ la lq a e0 s1 (WF_pay_in _ _ _ _ Hwf) Hnone Hadd eq_refl eq_refl) as [Hwf1 [Hlo [Hco [Hno Hsum]]]].
  pose proof (Hsum v_locked core_fun_locked) as S1. pose proof (Hsum v_queued core_fun_queued) as S2.
  pose proof (Hsum v_cooldown core_fun_cooldown) as S3. pose proof (Hsum v_withdrawable core_fun_withdrawable) as S4.
  cbn [e0 v_locked v_queued v_cooldown v_withdrawable] in S1, S2, S3, S4.
  assert (Eg : forall (T : Type) (X : st -> T), X (w_vals (vals s1) (w_act (act s1) (w_que (que s1) (pay_in (vet * e18) s)))) = X s1)
    by (intros; rewrite <- Hlo; auto).
  exists (lq ++ [a]). split; [|split; [|split]].
  - apply (WF_same_vals s1); auto.
  - constructor; cbn; rewrite <- ?(Eg _ g_lv), <- ?(Eg _ g_q), <- ?(Eg _ g_cd), <- ?(Eg _ g_wd), <- ?(Eg _ aggs), <- ?(Eg _ dels),
      <- ?(Eg _ del_ctr), <- ?(Eg _ eff), <- ?(Eg _ bal); cbn in *; try lia. auto.
  - split; [|cbn; rewrite <- (Eg _ g_lw); reflexivity].
    intros b vb Hin Hb. assert (b <> a).
    { intros ->. change (getv (pay_in (vet * e18) s) a) with (getv s a) in Hnone. congruence. }
    destruct (Hco b vb H Hb) as [v' [Hv' Ec]]. exists v'. split; [exact Hv'|inversion Ec; auto].
  - intros b Hb. change (get_agg (add_queued vet s1) b) with (get_agg s1 b).
    replace (get_agg s1 b) with (get_agg s b) by (unfold get_agg; rewrite <- (Eg _ aggs); reflexivity).
    apply HA. intros v Hv. destruct (N.eq_dec b a) as [->|Hne].
    + change (getv (pay_in (vet * e18) s) a) with (getv s a) in Hnone. congruence.
    + destruct (Hco b v Hne Hv) as [v' [Hv' Ec]]. rewrite <- (core_status _ _ Ec). apply (Hb v'). exact Hv'.
Qed.

(* ------------------------------------------------------------------ delegations *)

Lemma get_agg_set_agg a x s b : get_agg (set_agg a x s) b = if a =? b then x else get_agg s b.
Proof. unfold get_agg, set_agg; cbn. rewrite get_upd. destruct (a =? b); reflexivity. Qed.

Lemma get_agg_w_glob a b c d e s x : get_agg (w_glob a b c d e s) x = get_agg s x.
Proof. reflexivity. Qed.

Lemma add_delegation_ok a vet mult s s' x la lq :
  add_delegation a vet mult (pay_in (vet * e18) s) = Ok (s', x) -> WF s la lq -> Inv1 s -> InvA s -> user_ok s s' la lq.
Proof.
  intros H Hwf [I1 I2 I3 I4 I5 I6 I7] HA. unfold add_delegation in H.
  bstep H u1 G1. bstep H u2 G2. bstep H v Hv. apply get_or_revert_ok in Hv. change (getv s a = Some v) in Hv.
  bstep H u3 G3. bstep H u4 G4. bstep H u5 G5. bstep H cur Hc. bstep H s2 Hp. bstep H u6 G6.
  inversion H; subst s' x; clear H. clear G1 G2 G3 G4 G5 G6 Hc.
  unfold aggs_add_pending in Hp. bstep Hp pw Hpw. destruct pw as [pv pw]. inversion Hp; subst s2; clear Hp.
  apply ws_add_ok in Hpw. cbn [fst snd] in Hpw. destruct Hpw as [Epv Epw].
  set (id := del_ctr (pay_in (vet * e18) s) + 1) in *. change (del_ctr (pay_in (vet * e18) s)) with (del_ctr s) in id.
  set (sd := w_dels (upd (dels (pay_in (vet * e18) s)) id (mkD a vet mult None (cur + 1))) id (pay_in (vet * e18) s)) in *.
  set (ag := mkA (a_lv (get_agg sd a)) (a_lw (get_agg sd a)) pv pw (a_ev (get_agg sd a)) (a_ew (get_agg sd a))) in *.
  assert (Hfresh : get (dels s) id = None).
  { destruct (get (dels s) id) as [d|] eqn:E; auto. apply I7 in E. unfold id in E. lia. }
  pose proof (sumf_upd_none d_stake (dels s) id (mkD a vet mult None (cur + 1)) Hfresh) as SD. cbn [d_stake] in SD.
  pose proof (sum_set_agg a_lv a ag sd eq_refl) as A1. pose proof (sum_set_agg a_pv a ag sd eq_refl) as A2.
  cbn [ag a_lv a_pv] in A1, A2.
  assert (Hfin : forall sf, (sf = add_queued vet (set_agg a ag sd) \/ ren_only (add_queued vet (set_agg a ag sd)) sf) ->
                 user_ok s sf la lq).
  { intros sf Hsf.
    assert (E : exists h t p n, sf = w_ren h t p n (add_queued vet (set_agg a ag sd))).
    { destruct Hsf as [->|Hr]; [|unfold ren_only in Hr; eauto]. exists (rh sd), (rt sd), (rprev sd), (rnext sd). destruct sd; reflexivity. }
    destruct E as [h [t [p [n ->]]]].
    apply user_ok_same_vals; auto.
    - constructor; cbn in *; try lia.
      intros id' d'. rewrite get_upd. destruct (id =? id') eqn:Ei.
      + apply N.eqb_eq in Ei. subst id'. intros _. lia.
      + intros Hd. apply I7 in Hd. unfold id. lia.
    - intros b. cbn. change (get_agg (w_ren h t p n (add_queued vet (set_agg a ag sd))) b) with (get_agg (set_agg a ag sd) b).
      rewrite get_agg_set_agg. destruct (a =? b) eqn:Eab; [apply N.eqb_eq in Eab; subst b|]; reflexivity. }
  destruct (v_status v =? StatusActive).
  - apply Hfin. right. apply rl_add_only.
  - apply Hfin. left. reflexivity.
Qed.

Lemma signal_delegation_exit_ok id s s' x la lq :
  signal_delegation_exit id s = Ok (s', x) -> WF s la lq -> Inv1 s -> InvA s -> user_ok s s' la lq.
Proof.
  intros H Hwf [I1 I2 I3 I4 I5 I6 I7] HA. unfold signal_delegation_exit in H.
  destruct (get (dels s) id) as [d|] eqn:Ed; [|discriminate].
  bstep H u1 G1. bstep H u2 G2. bstep H v Hv. bstep H stt Hst. bstep H u3 G3. bstep H en Hen. bstep H u4 G4. bstep H cur Hc.
  bstep H s2 Hp. inversion H; subst s' x; clear H.
  unfold aggs_signal_exit in Hp. bstep Hp ew Hew. destruct ew as [ev ew]. inversion Hp; subst s2; clear Hp.
  set (d' := mkD (d_val d) (d_stake d) (d_mult d) (Some cur) (d_first d)) in *.
  set (sd := w_dels (upd (dels s) id d') (del_ctr s) s) in *.
  set (ag := mkA (a_lv (get_agg sd (d_val d))) (a_lw (get_agg sd (d_val d))) (a_pv (get_agg sd (d_val d))) (a_pw (get_agg sd (d_val d))) ev ew) in *.
  pose proof (sumf_upd_some d_stake (dels s) id d' d Ed) as SD. cbn [d' d_stake] in SD.
  pose proof (sum_set_agg a_lv (d_val d) ag sd eq_refl) as A1. pose proof (sum_set_agg a_pv (d_val d) ag sd eq_refl) as A2.
  cbn [ag a_lv a_pv] in A1, A2.
  assert (Hfin : forall sf, (sf = set_agg (d_val d) ag sd \/ ren_only (set_agg (d_val d) ag sd) sf) -> user_ok s sf la lq).
  { intros sf Hsf.
    assert (E : exists h t p n, sf = w_ren h t p n (set_agg (d_val d) ag sd)).
    { destruct Hsf as [->|Hr]; [|unfold ren_only in Hr; eauto]. exists (rh sd), (rt sd), (rprev sd), (rnext sd). destruct sd; reflexivity. }
    destruct E as [h [t [p [n ->]]]].
    apply user_ok_same_vals; auto.
    - constructor; cbn in *; try lia.
      intros id' dd. rewrite get_upd. destruct (id =? id') eqn:Ei.
      + apply N.eqb_eq in Ei. subst id'. intros _. apply (I7 id d Ed).
      + apply I7.
    - intros b. change (get_agg (w_ren h t p n (set_agg (d_val d) ag sd)) b) with (get_agg (set_agg (d_val d) ag sd) b).
      rewrite get_agg_set_agg. destruct (d_val d =? b) eqn:Eab; [apply N.eqb_eq in Eab; subst b|]; reflexivity. }
  destruct (v_status v =? StatusActive).
  - apply Hfin. right. apply rl_add_only.
  - apply Hfin. left. reflexivity.
Qed.

Lemma withdraw_delegation_ok id s s1 x s2 la lq :
  withdraw_delegation id s = Ok (s1, x) -> pay_out x s1 = Ok s2 -> WF s la lq -> Inv1 s -> InvA s -> user_ok s s2 la lq.
Proof.
  intros H Hpay Hwf [I1 I2 I3 I4 I5 I6 I7] HA. unfold withdraw_delegation in H.
  destruct (get (dels s) id) as [d|] eqn:Ed; [|discriminate].
  bstep H v Hv. bstep H stt Hst. bstep H fi Hfi. bstep H u1 G1. bstep H sb Hb. bstep H u2 G2.
  inversion H; subst s1 x; clear H. clear G1 G2.
  set (d' := mkD (d_val d) 0 (d_mult d) (d_last d) (d_first d)) in *.
  set (sd := w_dels (upd (dels s) id d') (del_ctr s) s) in *.
  pose proof (sumf_upd_some d_stake (dels s) id d' d Ed) as SD. cbn [d' d_stake] in SD.
  assert (Hctr : forall id' dd, get (upd (dels s) id d') id' = Some dd -> id' <= del_ctr s).
  { intros id' dd. rewrite get_upd. destruct (id =? id') eqn:Ei.
    - apply N.eqb_eq in Ei. subst id'. intros _. apply (I7 id d Ed).
    - apply I7. }
  assert (X : Inv1x (d_stake d) sb /\ vals sb = vals s /\ act sb = act s /\ que sb = que s /\ g_lw sb = g_lw s /\
              forall b, a_lv (get_agg sb b) = a_lv (get_agg s b)).
  { destruct (negb stt && negb (v_status v =? StatusExit)).
    - bstep Hb sa Ha. unfold aggs_sub_pending in Ha. bstep Ha pw Hpw. destruct pw as [pv pw]. inversion Ha; subst sa; clear Ha.
      apply ws_sub_ok in Hpw. cbn [fst snd] in Hpw. destruct Hpw as [Epv [Epw [Lpv Lpw]]].
      unfold remove_queued in Hb. bstep Hb q Hq. inversion Hb; subst sb; clear Hb. gfacts.
      set (ag := mkA (a_lv (get_agg sd (d_val d))) (a_lw (get_agg sd (d_val d))) pv pw (a_ev (get_agg sd (d_val d))) (a_ew (get_agg sd (d_val d)))) in *.
      pose proof (sum_set_agg a_lv (d_val d) ag sd eq_refl) as A1. pose proof (sum_set_agg a_pv (d_val d) ag sd eq_refl) as A2.
      cbn [ag a_lv a_pv] in A1, A2.
      split; [|split; [reflexivity|split; [reflexivity|split; [reflexivity|split; [reflexivity|]]]]].
      + constructor; cbn in *; try lia; auto. rewrite I5. f_equal. lia.
      + intros b. rewrite get_agg_w_glob, get_agg_set_agg.
        destruct (d_val d =? b) eqn:Eab; [apply N.eqb_eq in Eab; subst b|]; reflexivity.
    - unfold remove_withdrawable in Hb. bstep Hb y Hy. inversion Hb; subst sb; clear Hb. gfacts.
      split; [|split; [reflexivity|split; [reflexivity|split; [reflexivity|split; [reflexivity|reflexivity]]]]].
      constructor; cbn in *; try lia; auto. rewrite I5. f_equal. lia. }
  destruct X as [X [Ev [Ea [Eq [Ew Eag]]]]].
  destruct (pay_out_Inv1 _ _ _ X Hpay) as [Hi2 [Ev2 [Ea2 [Eq2 Ew2]]]].
  apply user_ok_same_vals; auto; try congruence.
  intros b. rewrite <- Eag. unfold pay_out in Hpay. bstep Hpay u3 G3. bstep Hpay u4 G4. inversion Hpay; subst s2. reflexivity.
Qed.
