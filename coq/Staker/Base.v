(* Staker/Base.v — lemmas about the association-list maps, the result monad and small arithmetic helpers. *)
From Coq Require Import List NArith Bool Lia.
From Coq Require Import ZifyN ZifyNat ZifyBool.
From Verif Require Import Common.Util Staker.Model.
Import ListNotations.
Open Scope N_scope.

Lemma bind_ok {A B} (r : res A) (k : A -> res B) (b : B) :
  bind r k = Ok b -> exists a, r = Ok a /\ k a = Ok b.
Proof. destruct r; cbn; intros; try discriminate. eauto. Qed.

Lemma guard_ok b : guard b = Ok tt -> b = true.
Proof. destruct b; cbn; congruence. Qed.
Lemma must_ok b : must b = Ok tt -> b = true.
Proof. destruct b; cbn; congruence. Qed.
Lemma guard_ok' b u : guard b = Ok u -> b = true.
Proof. destruct b; cbn; congruence. Qed.
Lemma must_ok' b u : must b = Ok u -> b = true.
Proof. destruct b; cbn; congruence. Qed.
Lemma of_opt_ok {A} (o : option A) a : of_opt o = Ok a -> o = Some a.
Proof. destruct o; cbn; congruence. Qed.

Lemma safe_add_some a b c : safe_add a b = Some c -> c = a + b /\ a + b < two64.
Proof. unfold safe_add. destruct (a + b <? two64) eqn:E; intros H; inversion H. split; auto. apply N.ltb_lt; auto. Qed.
Lemma safe_sub_some a b c : safe_sub a b = Some c -> c = a - b /\ b <= a.
Proof. unfold safe_sub. destruct (b <=? a) eqn:E; intros H; inversion H. split; auto. apply N.leb_le; auto. Qed.

Lemma ws_add_ok a b c : ws_add a b = Ok c -> fst c = fst a + fst b /\ snd c = snd a + snd b.
Proof.
  unfold ws_add. intros H.
  apply bind_ok in H as [v [H1 H]]. apply bind_ok in H as [w [H2 H]]. inversion H; subst; cbn.
  apply of_opt_ok, safe_add_some in H1. apply of_opt_ok, safe_add_some in H2. intuition.
Qed.
Lemma ws_sub_ok a b c : ws_sub a b = Ok c ->
  fst c = fst a - fst b /\ snd c = snd a - snd b /\ fst b <= fst a /\ snd b <= snd a.
Proof.
  unfold ws_sub. intros H.
  apply bind_ok in H as [v [H1 H]]. apply bind_ok in H as [w [H2 H]]. inversion H; subst; cbn.
  apply of_opt_ok, safe_sub_some in H1. apply of_opt_ok, safe_sub_some in H2. intuition.
Qed.

Section MapLemmas.
  Context {V : Type}.
  Implicit Types (m : list (N * V)) (k : N) (v : V).

  Lemma get_upd_same m k v : get (upd m k v) k = Some v.
  Proof.
    induction m as [|[k' v'] t IH]; cbn.
    - rewrite N.eqb_refl; auto.
    - destruct (k' =? k) eqn:E; cbn.
      + rewrite N.eqb_refl; auto.
      + rewrite E; auto.
  Qed.

  Lemma get_upd_other m k k' v : k <> k' -> get (upd m k v) k' = get m k'.
  Proof.
    intros Hne. induction m as [|[k0 v0] t IH]; cbn.
    - destruct (k =? k') eqn:E; auto. apply N.eqb_eq in E; contradiction.
    - destruct (k0 =? k) eqn:E; cbn.
      + apply N.eqb_eq in E; subst. destruct (k =? k') eqn:E2; auto. apply N.eqb_eq in E2; contradiction.
      + destruct (k0 =? k'); auto.
  Qed.

  Lemma get_upd m k k' v : get (upd m k v) k' = if k =? k' then Some v else get m k'.
  Proof.
    destruct (k =? k') eqn:E.
    - apply N.eqb_eq in E; subst. apply get_upd_same.
    - apply N.eqb_neq in E. apply get_upd_other; auto.
  Qed.

  (* sums: replacing the value under k changes the sum by the difference *)
  Lemma sumf_upd_some (f : V -> N) m k v old :
    get m k = Some old -> sumf f (upd m k v) + f old = sumf f m + f v.
  Proof.
    revert old. induction m as [|[k' v'] t IH]; cbn; intros old H; [discriminate|].
    destruct (k' =? k) eqn:E; cbn.
    - inversion H; subst. lia.
    - specialize (IH old H). lia.
  Qed.

  Lemma sumf_upd_none (f : V -> N) m k v :
    get m k = None -> sumf f (upd m k v) = sumf f m + f v.
  Proof.
    induction m as [|[k' v'] t IH]; cbn; intros H; [lia|].
    destruct (k' =? k) eqn:E; cbn; [discriminate|]. rewrite IH; auto. lia.
  Qed.

  Lemma sumf_get_le (f : V -> N) m k v : get m k = Some v -> f v <= sumf f m.
  Proof.
    induction m as [|[k' v'] t IH]; cbn; intros H; [discriminate|].
    destruct (k' =? k); [inversion H; subst; lia|]. specialize (IH H). lia.
  Qed.

  Lemma upd_length_le m k v : (length m <= length (upd m k v))%nat.
  Proof. induction m as [|[k' v'] t IH]; cbn; [lia|]. destruct (k' =? k); cbn; lia. Qed.
End MapLemmas.
