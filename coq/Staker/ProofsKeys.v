(* Staker/ProofsKeys.v — the validation map never holds two entries for one address (every write goes through upd), hence the
   sum of the stored weights is the sum over the leader group. *)
From Coq Require Import List NArith Bool Lia.
From Coq Require Import ZifyN ZifyNat ZifyBool.
From Verif Require Import Common.Util Staker.Model Staker.Base Staker.Lists Staker.Inv Staker.RList Staker.Inv2
  Staker.ProofsStep Staker.ProofsUser Staker.ProofsUser2 Staker.ProofsHist Staker.Held Staker.ProofsEpoch Staker.ProofsAll Staker.ProofsCustody.
Import ListNotations.
Open Scope N_scope.

Opaque e18 two64.

Definition KU (s : st) : Prop := NoDup (map fst (vals s)).

Lemma upd_keys {V} (m : list (N * V)) k v : map fst (upd m k v) = if is_some (get m k) then map fst m else map fst m ++ [k].
Proof.
  induction m as [|[k0 v0] t IH]; cbn; [reflexivity|]. destruct (k0 =? k) eqn:E; cbn.
  - apply N.eqb_eq in E. subst. reflexivity.
  - rewrite IH. destruct (is_some (get t k)); reflexivity.
Qed.

Lemma get_none_notin {V} (m : list (N * V)) k : get m k = None -> ~ In k (map fst m).
Proof.
  induction m as [|[k0 v0] t IH]; cbn; [tauto|]. destruct (k0 =? k) eqn:E; [discriminate|]. apply N.eqb_neq in E.
  intros H [H1|H1]; [congruence|apply IH; auto].
Qed.

Lemma nodup_upd {V} (m : list (N * V)) k v : NoDup (map fst m) -> NoDup (map fst (upd m k v)).
Proof.
  intros H. rewrite upd_keys. destruct (get m k) eqn:E; cbn; auto.
  apply get_none_notin in E. clear - H E. induction (map fst m) as [|x t IH]; cbn; [constructor; [intros []|constructor]|].
  inversion H; subst. constructor; [rewrite in_app_iff; cbn; intros [?|[?|[]]]; auto; subst; apply E; left; auto|].
  apply IH; auto. intros ?. apply E. right; auto.
Qed.

(* s' is obtained from s by writes to the validation map only through upd *)
Inductive vupd : st -> st -> Prop :=
| vu_same s s' : vals s' = vals s -> vupd s s'
| vu_step s s1 s' k v : vupd s s1 -> vals s' = upd (vals s1) k v -> vupd s s'.

Lemma vupd_vals_eq s1 s2 s3 : vupd s1 s2 -> vals s3 = vals s2 -> vupd s1 s3.
Proof.
  intros H. revert s3. induction H as [s s' Hs|s sa s' k v Hsa IH Hs]; intros s3 E.
  - apply vu_same. rewrite E. exact Hs.
  - apply (vu_step s sa s3 k v Hsa). rewrite E. exact Hs.
Qed.

Lemma vupd_trans s1 s2 s3 : vupd s1 s2 -> vupd s2 s3 -> vupd s1 s3.
Proof.
  intros H12 H23. induction H23 as [s s' Hs|s sa s' k v Hsa IH Hs].
  - eapply vupd_vals_eq; eauto.
  - apply (vu_step s1 sa s' k v); auto.
Qed.
Lemma vupd_setv a v s : vupd s (setv a v s).
Proof. eapply vu_step; [apply vu_same; reflexivity|reflexivity]. Qed.
Lemma vupd_KU s s' : vupd s s' -> KU s -> KU s'.
Proof. unfold KU. intros H. induction H; intros K; [rewrite H; auto|rewrite H0; apply nodup_upd; auto]. Qed.
Lemma vupd_ren s s' : ren_only s s' -> vupd s s'.
Proof. intros E. apply vu_same. rewrite E. reflexivity. Qed.
Lemma vupd_money s s' : money_only s s' -> vupd s s'.
Proof. intros [q [wd [cd [e [b ->]]]]]. apply vu_same. reflexivity. Qed.

Lemma ll_remove_vupd w a e s s1 e1 : ll_remove w a e s = Ok (s1, e1) -> vupd s s1.
Proof.
  unfold ll_remove. intros H.
  destruct (negb (is_linked e) && (negb (oeqb (l_head (get_ls w s)) (Some a)) || negb (oeqb (l_tail (get_ls w s)) (Some a)))); [inversion H; apply vu_same; auto|].
  bstep H sa Ha. bstep H sb Hb. bstep H u Hu. inversion H; subst s1 e1; clear H.
  assert (A : vupd s sa).
  { destruct (v_prev e); [bstep Ha pe Hpe; inversion Ha; subst; apply vupd_setv|inversion Ha; subst; apply vu_same; destruct w; reflexivity]. }
  assert (B : vupd sa sb).
  { destruct (v_next e); [bstep Hb ne Hne; inversion Hb; subst; apply vupd_setv|inversion Hb; subst; apply vu_same; destruct w; reflexivity]. }
  eapply vupd_trans; [exact A|]. eapply vupd_trans; [exact B|].
  eapply vu_step; [apply vu_same; reflexivity|]. destruct w; reflexivity.
Qed.

Lemma ll_add_vupd w a e s s1 : ll_add w a e s = Ok s1 -> vupd s s1.
Proof.
  unfold ll_add. intros H. bstep H sb Hb. inversion H; subst s1; clear H.
  assert (B : vupd s sb).
  { destruct (l_tail (get_ls w s)).
    - bstep Hb te Hte. inversion Hb; subst. eapply vu_step; [apply vu_same; reflexivity|]. destruct w; reflexivity.
    - inversion Hb; subst. apply vu_same. destruct w; reflexivity. }
  eapply vupd_trans; [exact B|]. eapply vu_step; [apply vu_same; reflexivity|]. destruct w; reflexivity.
Qed.

Lemma apply_renewal_vals r s s' : apply_renewal r s = Ok s' -> vals s' = vals s.
Proof.
  unfold apply_renewal. intros H. bstep H l1 Hl1. bstep H l2 Hl2. destruct l2. bstep H sq Hs1.
  unfold remove_queued in Hs1. bstep Hs1 q Hq. inversion Hs1; subst sq. unfold add_withdrawable in H. bstep H w Hw. inversion H; subst. reflexivity.
Qed.

(* ------------------------------------------------------------------ every operation *)

Lemma run_op_vupd c o s s' x : run_op c o s = Ok (s', x) -> vupd s s'.
Proof.
  intros E. destruct o; cbn [run_op] in E.
  - (* block *)
    destruct (sync_pos c (blk s + 1) (w_blk (blk s + 1) s)) as [[[s1 ac] up]| |] eqn:Hr;
      [|inversion E; apply vu_same; reflexivity|inversion E; apply vu_same; reflexivity].
    inversion E; subst s' x; clear E.
    destruct (sync_pos_cases _ _ _ _ _ _ Hr) as [->|[t [Hc Ha]]]; [apply vu_same; reflexivity|].
    unfold apply_epoch_transition in Ha. bstep Ha r1 Hr1. destruct r1 as [sa acc]. bstep Ha sb Hsb. bstep Ha sc Hsc. bstep Ha sd Hsd.
    assert (V1 : vupd (w_blk (blk s + 1) s) sa).
    { clear - Hr1. revert Hr1. generalize renewal0. generalize (w_blk (blk s + 1) s). induction (tr_renewals t) as [|a l IH]; intros s0 acc0 H.
      - cbn in H. inversion H; subst. apply vu_same; auto.
      - cbn [apply_renewals] in H. bstep H r1 Hr1. destruct r1 as [[s1 ar] dw]. bstep H acc1 Ha1. bstep H r2 Hr2. destruct r2 as [s2 vr]. bstep H acc2 Ha2.
        eapply vupd_trans; [|apply (IH _ _ H)]. eapply vupd_trans; [|apply vupd_ren, rl_remove_only].
        unfold svc_renew in Hr2. bstep Hr2 v Hv. bstep Hr2 r Hr. destruct r. inversion Hr2; subst.
        unfold aggs_renew in Hr1. bstep Hr1 r Hr'. destruct r. inversion Hr1; subst.
        match goal with |- vupd ?x (setv _ _ ?y) => eapply vupd_trans; [apply (vu_same x y); reflexivity|apply vupd_setv] end. }
    assert (V2 : vupd sa sb) by (apply vu_same; apply (apply_renewal_vals _ _ _ Hsb)).
    assert (V3 : vupd sb sc).
    { destruct (tr_exit t =? 0); [inversion Hsc; apply vu_same; auto|].
      bstep Hsc r Hr'. destruct r as [s2a ve]. destruct (aggs_exit (tr_exit t) s2a) as [s2b ae] eqn:Hae.
      assert (vals sc = vals s2b).
      { unfold apply_exit in Hsc. bstep Hsc tot Htot. bstep Hsc x1 H1. bstep Hsc x2 H2. bstep Hsc x3 H3.
        assert (vals x1 = vals s2b) by (destruct (0 <? fst tot); [unfold remove_locked in H1; bstep H1 q Hq; destruct q; inversion H1; reflexivity|inversion H1; auto]).
        assert (vals x2 = vals x1) by (destruct (0 <? e_qdec ve + e_qdec ae); [unfold remove_queued in H2; bstep H2 q Hq; inversion H2; reflexivity|inversion H2; auto]).
        assert (vals x3 = vals x2) by (destruct (0 <? e_v ve); [unfold add_cooldown in H3; bstep H3 q Hq; inversion H3; reflexivity|inversion H3; auto]).
        assert (vals sc = vals x3) by (destruct (0 <? e_qdec ve + e_qdec ae + e_v ae); [unfold add_withdrawable in Hsc; bstep Hsc q Hq; inversion Hsc; reflexivity|inversion Hsc; auto]).
        congruence. }
      unfold aggs_exit in Hae. inversion Hae; subst s2b ae; clear Hae.
      unfold svc_exit_validator in Hr'. bstep Hr' v Hv. destruct (v_exit_now v) as [v1 ex]. bstep Hr' r1' Hrm. destruct r1' as [sx ex1].
      inversion Hr'; subst s2a ve; clear Hr'.
      eapply vupd_trans; [apply (ll_remove_vupd _ _ _ _ _ _ Hrm)|].
      eapply vupd_trans; [apply vupd_ren, rl_remove_only|]. apply vu_same. rewrite H. reflexivity. }
    assert (V4 : vupd sc sd).
    { clear - Hsd. revert Hsd. generalize sc. induction (tr_evictions t) as [|a l IH]; intros s0 H.
      - cbn in H. inversion H; apply vu_same; auto.
      - cbn [apply_evictions] in H. bstep H s1 Hs1. eapply vupd_trans; [|apply (IH _ H)].
        apply svc_signal_exit_shape in Hs1; [|discriminate]. destruct Hs1 as [v [eb [cur [Hv ->]]]].
        eapply vu_step; [apply vu_same; reflexivity|reflexivity]. }
    assert (V5 : vupd sd s1).
    { clear - Ha. revert Ha. generalize (get_mbp sd). generalize sd. induction (N.to_nat (tr_count t)) as [|k IH]; intros s0 mx H.
      - cbn in H. inversion H; apply vu_same; auto.
      - cbn [activate_n] in H. bstep H sx Hsx. eapply vupd_trans; [|apply (IH _ _ H)]. clear H IH.
        unfold activate_next in Hsx. bstep Hsx r Hr. destruct r as [[sa h] e1]. unfold next_to_activate in Hr.
        bstep Hr u1 G1. bstep Hr u2 G2. bstep Hr h0 Hh. bstep Hr e He. bstep Hr r1 Hrm. destruct r1 as [sa' e1']. inversion Hr; subst sa' h0 e1'; clear Hr.
        bstep Hsx r2 Hag. destruct r2 as [[sb ar] dw]. bstep Hsx r3 Hact. destruct r3 as [sc vr]. bstep Hsx g Hg.
        eapply vupd_trans; [apply (ll_remove_vupd _ _ _ _ _ _ Hrm)|].
        unfold aggs_renew in Hag. bstep Hag r Hr'. destruct r. inversion Hag; subst.
        unfold svc_activate in Hact. bstep Hact u3 G3. bstep Hact w Hw. bstep Hact sd' Hadd. inversion Hact; subst sd' vr; clear Hact.
        eapply vupd_trans; [apply (vu_same sa (set_agg h a sa)); reflexivity|]. eapply vupd_trans; [apply (ll_add_vupd _ _ _ _ _ Hadd)|].
        apply vu_same. apply (apply_renewal_vals _ _ _ Hsx). }
    eapply vupd_trans; [apply (vu_same s (w_blk (blk s + 1) s)); reflexivity|]. eapply vupd_trans; [exact V1|]. eapply vupd_trans; [exact V2|]. eapply vupd_trans; [exact V3|]. eapply vupd_trans; [exact V4|exact V5].
  - bstep E u G. unfold add_validation in E. bstep E u1 G1. bstep E u2 G2. bstep E u3 G3. bstep E u4 G4. bstep E u5 G5. bstep E s1 Hadd. bstep E u6 G6.
    inversion E; subst. eapply vupd_trans; [apply (vu_same s (pay_in (vet * e18) s)); reflexivity|]. eapply vupd_trans; [apply (ll_add_vupd _ _ _ _ _ Hadd)|apply vu_same; reflexivity].
  - bstep E u G. unfold increase_stake in E. bstep E v Hv. bstep E u1 G1. bstep E u2 G2. bstep E u3 G3. bstep E u4 G4. bstep E u5 G5. bstep E u6 G6.
    inversion E; subst. eapply vupd_trans; [apply (vu_same s (pay_in (vet * e18) s)); reflexivity|]. eapply vupd_trans; [apply vupd_setv|].
    eapply vupd_trans; [apply vupd_ren, rl_add_only|apply vu_same; reflexivity].
  - bstep E u G. unfold decrease_stake in E. bstep E u0 G0. bstep E v Hv. bstep E u1 G1. bstep E u2 G2. bstep E u3 G3. bstep E u4 G4. bstep E u5 G5. bstep E u6 G6. bstep E u7 G7.
    inversion E; subst. eapply vupd_trans; [apply vupd_setv|apply vupd_ren, rl_add_only].
  - unfold signal_exit in E. bstep E v Hv. bstep E u1 G1. bstep E u2 G2. bstep E u3 G3. bstep E cur Hc. bstep E s1 Hs. inversion E; subst.
    apply svc_signal_exit_shape in Hs; [|discriminate]. destruct Hs as [v2 [eb [cur2 [Hv2 ->]]]].
    eapply vu_step; [apply vu_same; reflexivity|reflexivity].
  - bstep E r Hr. destruct r as [s1 y]. bstep E s2 Hp. inversion E; subst s2 y.
    eapply vupd_trans; [|apply vupd_money, (mo_pay_out _ _ _ Hp)].
    unfold withdraw_stake in Hr. bstep Hr v Hv. bstep Hr u1 G1. bstep Hr r Hr'. destruct r as [[[sa wd] q] cd].
    bstep Hr sb Hb. bstep Hr sc Hc. bstep Hr sd Hd. bstep Hr se He. bstep Hr t1 Ht1. bstep Hr tot Htot. bstep Hr u2 Hcb.
    inversion Hr; subst s1 tot; clear Hr.
    assert (M : money_only sb se).
    { eapply money_only_trans; [eapply (mo_cond _ (remove_withdrawable wd)); [apply mo_remove_withdrawable|exact Hc]|].
      eapply money_only_trans; [eapply (mo_cond _ (remove_queued q)); [apply mo_remove_queued|exact Hd]|].
      eapply (mo_cond _ (remove_cooldown cd)); [apply mo_remove_cooldown|exact He]. }
    eapply vupd_trans; [|apply vupd_money, M]. unfold svc_withdraw_stake in Hr'. destruct (v_status v =? StatusQueued).
    + bstep Hr' r1 Hrm. destruct r1 as [s1' e1]. inversion Hr'; subst sa wd q cd; clear Hr'.
      assert (M2 : money_only (set_agg a agg0 s1') sb).
      { unfold aggs_exit in Hb. cbn [e_qdec] in Hb. destruct (0 <? a_pv (get_agg s1' a)).
        - bstep Hb s1b Hq. eapply money_only_trans; [eapply mo_remove_queued; eauto|eapply mo_add_withdrawable; eauto].
        - inversion Hb. apply money_only_refl. }
      eapply vupd_trans; [apply (ll_remove_vupd _ _ _ _ _ _ Hrm)|]. eapply vupd_trans; [apply (vu_same s1' (set_agg a agg0 s1')); reflexivity|apply vupd_money, M2].
    + inversion Hr'; subst. inversion Hb; subst. apply vupd_setv.
  - unfold set_online in E. bstep E v Hv. inversion E; subst. apply vupd_setv.
  - unfold set_beneficiary in E. bstep E v Hv. bstep E u1 G1. bstep E u2 G2. inversion E; subst. apply vupd_setv.
  - bstep E u G. apply vu_same. symmetry. pose proof (add_delegation_held _ _ _ _ _ _ E) as _.
    unfold add_delegation in E. bstep E u1 G1. bstep E u2 G2. bstep E v Hv. bstep E u3 G3. bstep E u4 G4. bstep E u5 G5. bstep E cur Hc. bstep E s2 Hp. bstep E u6 G6.
    inversion E; subst s' x; clear E. unfold aggs_add_pending in Hp. bstep Hp pw Hpw. destruct pw as [pv pw]. inversion Hp; subst s2; clear Hp.
    destruct (v_status v =? StatusActive); [rewrite (rl_add_only a _)|]; reflexivity.
  - apply vu_same. symmetry. unfold signal_delegation_exit in E. destruct (get (dels s) id) as [d|]; [|discriminate].
    bstep E u1 G1. bstep E u2 G2. bstep E v Hv. bstep E stt Hst. bstep E u3 G3. bstep E en Hen. bstep E u4 G4. bstep E cur Hc.
    bstep E s2 Hp. inversion E; subst s' x; clear E. unfold aggs_signal_exit in Hp. bstep Hp ew Hew. destruct ew as [ev ew]. inversion Hp; subst s2; clear Hp.
    destruct (v_status v =? StatusActive); [rewrite (rl_add_only _ _)|]; reflexivity.
  - bstep E r Hr. destruct r as [s1 y]. bstep E s2 Hp. inversion E; subst s2 y.
    eapply vupd_trans; [|apply vupd_money, (mo_pay_out _ _ _ Hp)]. apply vu_same.
    unfold withdraw_delegation in Hr. destruct (get (dels s) id) as [d|]; [|discriminate].
    bstep Hr v Hv. bstep Hr stt Hst. bstep Hr fi Hfi. bstep Hr u1 G1. bstep Hr sb Hb. bstep Hr u2 G2. inversion Hr; subst s1 x; clear Hr.
    destruct (negb stt && negb (v_status v =? StatusExit)).
    + bstep Hb sa Ha. unfold aggs_sub_pending in Ha. bstep Ha pw Hpw. destruct pw as [pv pw]. inversion Ha; subst sa; clear Ha.
      unfold remove_queued in Hb. bstep Hb q Hq. inversion Hb; subst. reflexivity.
    + unfold remove_withdrawable in Hb. bstep Hb q Hq. inversion Hb; subst. reflexivity.
  - unfold increase_reward in E. bstep E v Hv. bstep E cur Hc. inversion E; subst. apply vu_same. reflexivity.
  - inversion E; subst. apply vu_same. reflexivity.
  - inversion E; subst. apply vu_same. reflexivity.
Qed.

Theorem KU_step c s o : KU s -> KU (step c s o).
Proof. intros K. unfold step. destruct (run_op c o s) as [[s' x]| |] eqn:E; auto. apply (vupd_KU s s'); auto. eapply run_op_vupd; eauto. Qed.

Theorem KU_hist c d m ops : KU (run c (init d m) ops).
Proof.
  assert (G : forall s, KU s -> KU (run c s ops)).
  { induction ops as [|o t IH]; intros s K; cbn; auto. apply IH. apply KU_step; auto. }
  apply G. constructor.
Qed.

(* ------------------------------------------------------------------ total weight = sum over the leader group *)

Definition fget {V} (f : V -> N) (m : list (N * V)) (k : N) : N := match get m k with Some v => f v | None => 0 end.

Lemma sumN_app l1 l2 : sumN (l1 ++ l2) = sumN l1 + sumN l2.
Proof. induction l1; cbn; lia. Qed.

Lemma sumf_by_keys {V} (f : V -> N) (m : list (N * V)) : NoDup (map fst m) -> sumf f m = sumN (map (fget f m) (map fst m)).
Proof.
  induction m as [|[k v] t IH]; cbn [map fst sumf sumN]; intros H; [reflexivity|]. inversion H; subst.
  unfold fget at 1. cbn [get]. rewrite N.eqb_refl. f_equal. rewrite IH by auto.
  f_equal. apply map_ext_in. intros k' Hk'. unfold fget. cbn [get]. destruct (k =? k') eqn:E; auto.
  apply N.eqb_eq in E. subst. contradiction.
Qed.

Lemma sumN_all_zero (g : N -> N) ks : (forall k, In k ks -> g k = 0) -> sumN (map g ks) = 0.
Proof. induction ks as [|k r IH]; cbn; intros H; auto. rewrite (H k (or_introl eq_refl)), IH; auto. Qed.

Lemma sum_over_subset (g : N -> N) ks : forall la, NoDup ks -> NoDup la -> (forall a, In a la -> In a ks) ->
  (forall k, In k ks -> ~ In k la -> g k = 0) -> sumN (map g ks) = sumN (map g la).
Proof.
  intros la. revert ks. induction la as [|a t IH]; intros ks Hk Hl Hsub Hz.
  - cbn. apply sumN_all_zero. intros k Hk'. apply Hz; auto.
  - destruct (in_split a ks (Hsub a (or_introl eq_refl))) as [k1 [k2 ->]]. inversion Hl; subst.
    rewrite map_app, sumN_app. cbn [map sumN]. rewrite <- (IH (k1 ++ k2)).
    + rewrite map_app, sumN_app. lia.
    + apply NoDup_remove_1 in Hk. auto.
    + auto.
    + intros x Hx. specialize (Hsub x (or_intror Hx)). apply in_app_iff in Hsub as [?|[?|?]]; [apply in_or_app; auto|subst; contradiction|apply in_or_app; auto].
    + intros k Hkin Hn. apply Hz; [apply in_app_iff in Hkin as [?|?]; apply in_or_app; [left|right; right]; auto|].
      intros [->|Hx]; [|contradiction]. apply NoDup_remove_2 in Hk. contradiction.
Qed.

Lemma map_snd_by_fst (g : N -> N) (ws : list (N * N)) la :
  map fst ws = la -> (forall a w, In (a, w) ws -> w = g a) -> map snd ws = map g la.
Proof.
  revert la. induction ws as [|[a w] t IH]; intros la Hm Hw; cbn in *; subst; [reflexivity|]. cbn. f_equal.
  - apply (Hw a w). auto.
  - apply IH; auto.
Qed.

Theorem total_weight_is_leader_sum s la lq ws :
  KU s -> Full s la lq -> leader_weights s = Ok ws -> g_lw s = sumN (map snd ws).
Proof.
  intros K [Hwf _ _ H2] Hws.
  destruct (leader_weights_spec s la lq Hwf) as [ws' [E [Hm Hw]]]. rewrite E in Hws. inversion Hws; subst ws'. clear Hws E.
  rewrite (j_lw _ H2), (sumf_by_keys v_weight (vals s) K).
  rewrite (map_snd_by_fst (fget v_weight (vals s)) ws la Hm).
  - apply sum_over_subset; auto.
    + apply (wl_nodup _ _ _ (wf_a _ _ _ Hwf)).
    + intros a Ha. destruct (seg_in_get _ _ _ _ _ _ (wl_seg _ _ _ (wf_a _ _ _ Hwf)) Ha) as [v Hv].
      unfold getv in Hv. clear - Hv. induction (vals s) as [|[k x] t IH]; cbn in *; [discriminate|].
      destruct (k =? a) eqn:E; [apply N.eqb_eq in E; left; auto|right; auto].
    + intros k _ Hn. unfold fget. destruct (get (vals s) k) as [v|] eqn:Ev; auto.
      apply (j_w0 _ H2 k v Ev). intros Hs. apply Hn. apply (wf_st _ _ _ Hwf k v Ev). auto.
  - intros a w Hin. destruct (Hw a w Hin) as [v [Hv <-]]. unfold fget. unfold getv in Hv. rewrite Hv. reflexivity.
Qed.

Theorem total_weight_is_leader_sum_hist c d m ops ws :
  leader_weights (run c (init d m) ops) = Ok ws -> g_lw (run c (init d m) ops) = sumN (map snd ws).
Proof.
  destruct (history_FullInv c d m ops) as [la [lq HF]]. apply (total_weight_is_leader_sum _ la lq); auto. apply KU_hist.
Qed.
