(* Staker/ProofsUser2.v — every user operation preserves the second invariant group (Inv2). *)
From Coq Require Import List NArith Bool Lia.
From Coq Require Import ZifyN ZifyNat ZifyBool.
From Verif Require Import Common.Util Staker.Model Staker.Base Staker.Lists Staker.Inv Staker.RList Staker.Inv2 Staker.ProofsUser.
Import ListNotations.
Open Scope N_scope.

Opaque e18 two64.

Ltac strip inner := apply (Inv2_ext inner); [repeat split|].

Lemma Inv2_pay_in wei s : Inv2 s -> Inv2 (pay_in wei s).
Proof. intros H. strip s. exact H. Qed.

Lemma sub64_le a b : b <= a -> sub64 a b <= a - b.
Proof.
  intros H. unfold sub64. replace (a + 18446744073709551616 - b) with (a - b + 1 * 18446744073709551616) by lia.
  rewrite N.mod_add by discriminate. apply N.mod_le. discriminate.
Qed.

Lemma increase_stake_inv2 a e vet s s' x :
  increase_stake a e vet (pay_in (vet * e18) s) = Ok (s', x) -> Inv2 s -> Inv2 s'.
Proof.
  intros H HI. unfold increase_stake in H.
  bstep H v Hv. apply get_or_revert_ok in Hv. change (getv s a = Some v) in Hv.
  bstep H u1 G1. bstep H u2 G2. bstep H u3 G3. bstep H u4 G4. bstep H u5 G5. bstep H u6 G6.
  inversion H; subst s' x; clear H. gfacts. apply N.eqb_eq in G3.
  set (v' := set_queued (v_queued v + vet) v).
  strip (rl_add a (setv a v' (pay_in (vet * e18) s))).
  apply (Inv2_rl_add _ a v'); [|apply getv_setv_same|exact G3].
  apply (Inv2_setv _ a v); auto; try reflexivity; try lia; try (intros _; split; reflexivity).
  - apply Inv2_pay_in; auto.
  - intros E. rewrite G3 in E. discriminate.
  - intros E. apply (j_w1 _ HI a v Hv E).
Qed.

Lemma decrease_stake_inv2 a e vet s s' x : decrease_stake a e vet s = Ok (s', x) -> Inv2 s -> Inv2 s'.
Proof.
  intros H HI. unfold decrease_stake in H.
  bstep H u0 G0. bstep H v Hv. apply get_or_revert_ok in Hv.
  bstep H u1 G1. bstep H u2 G2. bstep H u3 G3. bstep H u4 G4. bstep H u5 G5. bstep H u6 G6. bstep H u7 G7.
  inversion H; subst s' x; clear H. gfacts. apply N.eqb_eq in G3.
  set (v' := set_punlock (v_punlock v + vet) v).
  apply (Inv2_rl_add _ a v'); [|apply getv_setv_same|exact G3].
  apply (Inv2_setv _ a v); auto; try reflexivity; try lia.
  { intros E. rewrite G3 in E. discriminate. }
  intros E. destruct (j_w1 _ HI a v Hv E) as [_ P]. pose proof (sub64_le (v_locked v) (v_punlock v)).
    apply negb_true_iff, N.ltb_ge in G5, G6. unfold MinStakeVET in G6. cbn [v' set_punlock set_amounts v_punlock]. lia.
Qed.

Lemma svc_signal_exit_shape2 c a cb mb mt on s s1 :
  svc_signal_exit c a cb mb mt on s = Ok s1 -> on <> Ok s1 ->
  exists v eb cur, getv s a = Some v /\ get_exit s eb = 0 /\
    s1 = setv a (set_completed cur (set_exit (Some eb) v)) (w_exits (upd (exits s) eb a) s).
Proof.
  unfold svc_signal_exit. intros H Hon. bstep H v Hv. unfold get_existing in Hv. apply of_opt_ok in Hv.
  destruct (find_exit_block c s mb mt) as [eb|] eqn:Ef; [|congruence].
  bstep H cur Hc. inversion H; subst. exists v, eb, cur. split; auto. split; auto. eapply find_exit_block_free; eauto.
Qed.

Lemma signal_exit_inv2 c a e s s' x : signal_exit c a e s = Ok (s', x) -> Inv2 s -> Inv2 s'.
Proof.
  intros H HI. unfold signal_exit in H.
  bstep H v Hv. apply get_or_revert_ok in Hv. bstep H u1 G1. bstep H u2 G2. bstep H u3 G3. bstep H cur Hc. bstep H s1 Hs.
  inversion H; subst s' x; clear H. gfacts. apply N.eqb_eq in G2.
  apply svc_signal_exit_shape2 in Hs; [|discriminate]. destruct Hs as [v2 [eb [cur2 [Hv2 [Hfree ->]]]]].
  assert (v2 = v) by congruence. subst v2.
  apply Inv2_signal_exit; auto. destruct (v_exit v); [discriminate|reflexivity].
Qed.

Lemma set_online_inv2 a on s s' x : set_online a on s = Ok (s', x) -> Inv2 s -> Inv2 s'.
Proof.
  intros H HI. unfold set_online in H. bstep H v Hv. unfold get_existing in Hv. apply of_opt_ok in Hv.
  inversion H; subst s' x; clear H. apply (Inv2_setv _ a v); auto; try reflexivity; try lia; try (intros _; split; reflexivity).
  intros E. apply (j_w1 _ HI a v Hv E).
Qed.

Lemma set_beneficiary_inv2 a e b s s' x : set_beneficiary a e b s = Ok (s', x) -> Inv2 s -> Inv2 s'.
Proof.
  intros H HI. unfold set_beneficiary in H. bstep H v Hv. apply get_or_revert_ok in Hv.
  bstep H u1 G1. bstep H u2 G2. inversion H; subst s' x; clear H. apply (Inv2_setv _ a v); auto; try reflexivity; try lia; try (intros _; split; reflexivity).
  intros E. apply (j_w1 _ HI a v Hv E).
Qed.

Lemma increase_reward_inv2 a amt s s' x : increase_reward a amt s = Ok (s', x) -> Inv2 s -> Inv2 s'.
Proof.
  intros H HI. unfold increase_reward in H. bstep H v Hv. bstep H cur Hc. inversion H; subst s' x; clear H.
  strip s. exact HI.
Qed.

(* ------------------------------------------------------------------ delegations *)

Lemma current_iteration_queued v b : v_status v = StatusQueued -> current_iteration v b = Ok 0.
Proof. intros E. unfold current_iteration. rewrite E. reflexivity. Qed.

Lemma add_delegation_inv2 a vet mult s s' x :
  add_delegation a vet mult (pay_in (vet * e18) s) = Ok (s', x) -> Inv1 s -> Inv2 s -> Inv2 s'.
Proof.
  intros H [_ _ _ _ _ _ I7] HI. unfold add_delegation in H.
  bstep H u1 G1. bstep H u2 G2. bstep H v Hv. apply get_or_revert_ok in Hv. change (getv s a = Some v) in Hv.
  bstep H u3 G3. bstep H u4 G4. bstep H u5 G5. bstep H cur Hc. bstep H s2 Hp. bstep H u6 G6.
  inversion H; subst s' x; clear H. clear G1 G2 G4 G5 G6 Hc.
  unfold aggs_add_pending in Hp. bstep Hp pw Hpw. destruct pw as [pv pw]. inversion Hp; subst s2; clear Hp.
  apply ws_add_ok in Hpw. cbn [fst snd] in Hpw. destruct Hpw as [Epv Epw].
  set (s0 := pay_in (vet * e18) s) in *.
  set (id := del_ctr s0 + 1) in *. set (d := mkD a vet mult None (cur + 1)) in *.
  set (sd := w_dels (upd (dels s0) id d) id s0) in *.
  change (get_agg sd a) with (get_agg s0 a) in *.
  set (ag := mkA (a_lv (get_agg s0 a)) (a_lw (get_agg s0 a)) pv pw (a_ev (get_agg s0 a)) (a_ew (get_agg s0 a))) in *.
  assert (Hfresh : get (dels s0) id = None).
  { change (dels s0) with (dels s). destruct (get (dels s) id) as [dd|] eqn:E; auto. apply I7 in E. unfold id in E. change (del_ctr s0) with (del_ctr s) in E. lia. }
  assert (I0 : Inv2 (set_agg a ag sd)).
  { apply (Inv2_deleg s0 id d None ag id a v); auto.
    - apply Inv2_pay_in; auto.
    - intros o Ho. discriminate.
    - intros _. cbn. lia. }
  assert (Hfin : Inv2 (add_queued vet (set_agg a ag sd))) by (strip (set_agg a ag sd); exact I0).
  destruct (v_status v =? StatusActive) eqn:Es; [|exact Hfin].
  apply N.eqb_eq in Es. apply (Inv2_rl_add _ a v); auto.
Qed.

Lemma started_active d v b stt : d_started d v b = Ok stt -> stt = true ->
  v_status v <> StatusQueued /\ v_status v <> StatusUnknown.
Proof.
  unfold d_started. intros H ->. destruct ((v_status v =? StatusQueued) || (v_status v =? StatusUnknown)) eqn:E; [inversion H|].
  apply orb_false_iff in E as [E1 E2]. apply N.eqb_neq in E1, E2. auto.
Qed.

Lemma not_ended_active d v b en : d_started d v b = Ok true -> d_ended d v b = Ok en -> en = false -> v_status v <> StatusExit.
Proof.
  unfold d_ended. intros Hs H ->. destruct (v_status v =? StatusQueued) eqn:E1; [apply N.eqb_eq in E1; rewrite E1; discriminate|].
  rewrite Hs in H. cbn in H. destruct (v_status v =? StatusExit) eqn:E2; [cbn in H; discriminate|]. apply N.eqb_neq in E2. auto.
Qed.

Lemma signal_delegation_exit_inv2 id s s' x : signal_delegation_exit id s = Ok (s', x) -> Inv2 s -> Inv2 s'.
Proof.
  intros H HI. unfold signal_delegation_exit in H.
  destruct (get (dels s) id) as [d|] eqn:Ed; [|discriminate].
  bstep H u1 G1. bstep H u2 G2. bstep H v Hv. unfold get_existing in Hv. apply of_opt_ok in Hv.
  bstep H stt Hst. bstep H u3 G3. bstep H en Hen. bstep H u4 G4. bstep H cur Hc.
  bstep H s2 Hp. inversion H; subst s' x; clear H. gfacts. subst stt. apply negb_true_iff in G4. subst en.
  unfold aggs_signal_exit in Hp. bstep Hp ew Hew. destruct ew as [ev ew]. inversion Hp; subst s2; clear Hp.
  set (d' := mkD (d_val d) (d_stake d) (d_mult d) (Some cur) (d_first d)) in *.
  set (sd := w_dels (upd (dels s) id d') (del_ctr s) s) in *.
  change (get_agg sd (d_val d)) with (get_agg s (d_val d)) in *.
  destruct (started_active _ _ _ _ Hst eq_refl) as [Nq Nu]. pose proof (not_ended_active _ _ _ _ Hst Hen eq_refl) as Ne.
  set (ag := mkA _ _ _ _ ev ew) in *.
  assert (Hact : v_status v = StatusActive) by (destruct (j_st _ HI _ _ Hv) as [E|[E|E]]; congruence).
  assert (I0 : Inv2 (set_agg (d_val d) ag sd)).
  { apply (Inv2_deleg s id d' (Some d) ag (del_ctr s) (d_val d) v); auto.
    - intros o Ho. inversion Ho; auto.
    - intros Hna. congruence. }
  destruct (v_status v =? StatusActive); [|exact I0].
  apply (Inv2_rl_add _ (d_val d) v); auto.
Qed.

Lemma withdraw_delegation_inv2 id s s1 x s2 :
  withdraw_delegation id s = Ok (s1, x) -> pay_out x s1 = Ok s2 -> Inv2 s -> Inv2 s2.
Proof.
  intros H Hpay HI. unfold withdraw_delegation in H.
  destruct (get (dels s) id) as [d|] eqn:Ed; [|discriminate].
  bstep H v Hv. unfold get_existing in Hv. apply of_opt_ok in Hv.
  bstep H stt Hst. bstep H fi Hfi. bstep H u1 G1. bstep H sb Hb. bstep H u2 G2.
  inversion H; subst s1 x; clear H. clear G1 G2.
  unfold pay_out in Hpay. bstep Hpay u3 G3. bstep Hpay u4 G4. inversion Hpay; subst s2; clear Hpay G3 G4.
  strip sb.
  set (d' := mkD (d_val d) 0 (d_mult d) (d_last d) (d_first d)) in *.
  set (sd := w_dels (upd (dels s) id d') (del_ctr s) s) in *.
  assert (Hq : v_status v = StatusQueued -> negb stt && negb (v_status v =? StatusExit) = true).
  { intros E. unfold d_started in Hst. rewrite E in Hst. cbn in Hst. inversion Hst; subst. rewrite E. reflexivity. }
  destruct (negb stt && negb (v_status v =? StatusExit)) eqn:Eb.
  - bstep Hb sa Ha. unfold aggs_sub_pending in Ha. bstep Ha pw Hpw. destruct pw as [pv pw]. inversion Ha; subst sa; clear Ha.
    apply ws_sub_ok in Hpw. cbn [fst snd] in Hpw. destruct Hpw as [Epv [Epw [Lpv Lpw]]].
    unfold remove_queued in Hb. bstep Hb q Hq'. inversion Hb; subst sb; clear Hb.
    change (get_agg sd (d_val d)) with (get_agg s (d_val d)) in *.
    set (ag := mkA _ _ pv pw _ _) in *.
    strip (set_agg (d_val d) ag sd).
    apply (Inv2_deleg s id d' (Some d) ag (del_ctr s) (d_val d) v); auto.
    + intros o Ho. inversion Ho; auto.
    + intros _. cbn. lia.
  - unfold remove_withdrawable in Hb. bstep Hb y Hy. inversion Hb; subst sb; clear Hb.
    strip sd. apply (Inv2_deleg_only s id d' d (del_ctr s) (d_val d) v); auto.
    intros E. specialize (Hq E). discriminate.
Qed.

(* ------------------------------------------------------------------ steps that touch only queued / withdrawable / cooldown / money *)

Definition money_only (s s' : st) : Prop :=
  exists q wd cd e b, s' = w_money e b (w_glob (g_lv s) (g_lw s) q wd cd s).

Lemma money_only_refl s : money_only s s.
Proof. exists (g_q s), (g_wd s), (g_cd s), (eff s), (bal s). destruct s; reflexivity. Qed.
Lemma money_only_trans s1 s2 s3 : money_only s1 s2 -> money_only s2 s3 -> money_only s1 s3.
Proof. intros [q [wd [cd [e [b ->]]]]] [q' [wd' [cd' [e' [b' ->]]]]]. exists q', wd', cd', e', b'. reflexivity. Qed.
Lemma money_only_same2 s s' : money_only s s' -> same2 s s'.
Proof. intros [q [wd [cd [e [b ->]]]]]. repeat split. Qed.

Lemma mo_remove_queued x s s' : remove_queued x s = Ok s' -> money_only s s'.
Proof. unfold remove_queued. intros H. bstep H y Hy. inversion H; subst. exists y, (g_wd s), (g_cd s), (eff s), (bal s). destruct s; reflexivity. Qed.
Lemma mo_add_withdrawable x s s' : add_withdrawable x s = Ok s' -> money_only s s'.
Proof. unfold add_withdrawable. intros H. bstep H y Hy. inversion H; subst. exists (g_q s), y, (g_cd s), (eff s), (bal s). destruct s; reflexivity. Qed.
Lemma mo_remove_withdrawable x s s' : remove_withdrawable x s = Ok s' -> money_only s s'.
Proof. unfold remove_withdrawable. intros H. bstep H y Hy. inversion H; subst. exists (g_q s), y, (g_cd s), (eff s), (bal s). destruct s; reflexivity. Qed.
Lemma mo_remove_cooldown x s s' : remove_cooldown x s = Ok s' -> money_only s s'.
Proof. unfold remove_cooldown. intros H. bstep H y Hy. inversion H; subst. exists (g_q s), (g_wd s), y, (eff s), (bal s). destruct s; reflexivity. Qed.
Lemma mo_add_cooldown x s s' : add_cooldown x s = Ok s' -> money_only s s'.
Proof. unfold add_cooldown. intros H. bstep H y Hy. inversion H; subst. exists (g_q s), (g_wd s), y, (eff s), (bal s). destruct s; reflexivity. Qed.
Lemma mo_pay_out x s s' : pay_out x s = Ok s' -> money_only s s'.
Proof. unfold pay_out. intros H. bstep H u1 G1. bstep H u2 G2. inversion H; subst. exists (g_q s), (g_wd s), (g_cd s), (eff s - x * e18), (bal s - x * e18). destruct s; reflexivity. Qed.
Lemma mo_cond (b : bool) (f : st -> res st) s s' :
  (forall t t', f t = Ok t' -> money_only t t') -> (if b then f s else Ok s) = Ok s' -> money_only s s'.
Proof. intros Hf H. destruct b; [eauto|inversion H; apply money_only_refl]. Qed.

Lemma withdraw_stake_inv2 c a e s s1 x s2 la lq :
  withdraw_stake c a e s = Ok (s1, x) -> pay_out x s1 = Ok s2 -> WF s la lq -> Inv2 s -> Inv2 s2.
Proof.
  intros H Hpay Hwf HI. unfold withdraw_stake in H.
  bstep H v Hv. apply get_or_revert_ok in Hv. bstep H u1 G1.
  bstep H r Hr. destruct r as [[[sa wd] q] cd].
  bstep H sb Hb. bstep H sc Hc. bstep H sd Hd. bstep H se He. bstep H t1 Ht1. bstep H tot Htot. bstep H u2 Hcb.
  inversion H; subst s1 x; clear H.
  assert (M : money_only sb s2).
  { eapply money_only_trans; [eapply (mo_cond _ (remove_withdrawable wd)); [apply mo_remove_withdrawable|exact Hc]|].
    eapply money_only_trans; [eapply (mo_cond _ (remove_queued q)); [apply mo_remove_queued|exact Hd]|].
    eapply money_only_trans; [eapply (mo_cond _ (remove_cooldown cd)); [apply mo_remove_cooldown|exact He]|].
    eapply mo_pay_out; eauto. }
  apply (Inv2_ext sb); [apply money_only_same2; auto|]. clear M Hc Hd He Hpay Hcb Ht1 Htot.
  unfold svc_withdraw_stake in Hr. destruct (v_status v =? StatusQueued) eqn:Est.
  - apply N.eqb_eq in Est. bstep Hr r1 Hrm. destruct r1 as [s1' e1]. inversion Hr; subst sa wd q cd; clear Hr.
    set (v1 := set_status StatusExit (set_amounts (v_locked v) (v_punlock v) 0 (v_cooldown v) 0 (v_weight v) v)) in *.
    assert (Hin : In a lq) by (apply (wf_st _ _ _ Hwf a v Hv); auto).
    destruct (WF_remove false s la lq a v1 s1' e1 v Hwf Hrm Hv Hin eq_refl eq_refl eq_refl)
      as [l1 [l2 [El [Hwf1 [Hlo [Hga [Hce [Hco Hsum]]]]]]]].
    assert (Eg : forall (T : Type) (X : st -> T), X (w_vals (vals s1') (w_act (act s1') (w_que (que s1') s))) = X s1') by (intros; rewrite <- Hlo; auto).
    assert (Hw0 : v_weight v = 0) by (apply (j_w0 _ HI a v Hv); rewrite Est; discriminate).
    assert (M : money_only (set_agg a agg0 s1') sb).
    { unfold aggs_exit in Hb. cbn [e_qdec] in Hb. destruct (0 <? a_pv (get_agg s1' a)).
      - bstep Hb s1b Hq. eapply money_only_trans; [eapply mo_remove_queued; eauto|eapply mo_add_withdrawable; eauto].
      - inversion Hb. apply money_only_refl. }
    destruct (money_only_same2 _ _ M) as [E1 [E2 [E3 [E4 [E5 [E6 [E7 [E8 [E9 E10]]]]]]]]].
    destruct (core_eq _ _ Hce) as [Cs [Cc [Cw [Cl [Cp [Cq Cx]]]]]].
    apply (Inv2_to_exit s sb a v e1); auto.
    + intros b Hne. assert (Gs : getv sb b = getv s1' b) by (unfold getv; rewrite E1; reflexivity). rewrite Gs.
      destruct (ll_remove_wf false a v1 s s1' e1 lq v Hrm (wf_q _ _ _ Hwf) Hin Hv eq_refl eq_refl)
        as [_ [_ [_ [_ [_ [_ [_ [_ [Hco' _]]]]]]]]].
      split; [apply (proj1 (Hco' b Hne))|intros y Hy; apply (Hco b y Hne Hy)].
    + unfold getv. rewrite E1. exact Hga.
    + rewrite Cw. cbn. exact Hw0.
    + rewrite E2. cbn [aggs set_agg w_aggs]. rewrite <- (Eg _ aggs). reflexivity.
    + rewrite E3. cbn. rewrite <- (Eg _ dels). reflexivity.
    + rewrite E8. cbn. rewrite <- (Eg _ exits). reflexivity.
    + rewrite E9. cbn. rewrite <- (Eg _ blk). reflexivity.
    + rewrite E10. cbn. rewrite <- (Eg _ g_lw). cbn. lia.
    + rewrite E1. cbn [vals set_agg w_aggs]. pose proof (Hsum v_weight core_fun_weight) as S. cbn in S. lia.
    + intros b Hb' Hg. destruct (N.eq_dec a 0); auto. destruct (j_exit _ HI b a Hg n Hb') as [y [Hy [Hs _]]]. assert (y = v) by congruence. subst y. rewrite Est in Hs. discriminate.
    + destruct (j_ren _ HI) as [lr [R A]]. exists lr. split.
      * apply (RWF_ext s _ lr); auto; rewrite ?E4, ?E5, ?E6, ?E7; cbn; rewrite <- ?(Eg _ rh), <- ?(Eg _ rt), <- ?(Eg _ rprev), <- ?(Eg _ rnext); reflexivity.
      * intros b Hb'. destruct (A b Hb') as [y [Hy Hs]]. split; [intros ->; assert (y = v) by congruence; subst y; rewrite Est in Hs; discriminate|eauto].
  - inversion Hr; subst sa wd q cd; clear Hr. inversion Hb; subst sb; clear Hb.
    apply (Inv2_setv _ a v); auto; try reflexivity; try (intros _; split; reflexivity).
    + cbn. destruct (cooldown_ended c v (blk s)); lia.
    + intros E. rewrite E in Est. discriminate.
    + intros E. apply (j_w1 _ HI a v Hv E).
Qed.

(* ------------------------------------------------------------------ AddValidation *)

Lemma add_validation_inv2 c a e p vet s s' x la lq :
  add_validation c a e p vet (pay_in (vet * e18) s) = Ok (s', x) -> WF s la lq -> Inv2 s -> Inv2 s'.
Proof.
  intros H Hwf HI. unfold add_validation in H.
  bstep H u1 G1. bstep H u2 G2. bstep H u3 G3. bstep H u4 G4. bstep H u5 G5. bstep H s1 Hadd. bstep H u6 G6.
  inversion H; subst s' x; clear H. gfacts.
  assert (Hnone : getv (pay_in (vet * e18) s) a = None).
  { change (getv (pay_in (vet * e18) s) a) with (getv s a) in *. destruct (getv s a); [discriminate|reflexivity]. }
  set (e0 := mkV e None p 0 StatusQueued 0 None None 0 0 vet 0 0 0 None None) in *.
  destruct (WF_add_new _ la lq a e0 s1 (WF_pay_in _ _ _ _ Hwf) Hnone Hadd eq_refl eq_refl) as [Hwf1 [Hlo [Hco [Hno Hsum]]]].
  assert (Eg : forall (T : Type) (X : st -> T), X (w_vals (vals s1) (w_act (act s1) (w_que (que s1) (pay_in (vet * e18) s)))) = X s1)
    by (intros; rewrite <- Hlo; auto).
  strip s1.
  assert (Hga : exists e1, getv s1 a = Some e1 /\ core e1 = core e0).
  { destruct (ll_add_wf false a e0 (pay_in (vet * e18) s) s1 lq Hadd (wf_q _ _ _ (WF_pay_in _ _ _ _ Hwf))) as [_ [Hg _]]; auto.
    - intros Hx. destruct (seg_in_get _ _ _ _ _ _ (wl_seg _ _ _ (wf_q _ _ _ Hwf)) Hx) as [y Hy].
      change (getv (pay_in (vet * e18) s) a) with (getv s a) in Hnone. congruence.
    - eexists. split; [exact Hg|reflexivity]. }
  destruct Hga as [e1 [Hg1 Hc1]]. destruct (core_eq _ _ Hc1) as [Cs [Cc [Cw [Cl [Cp [Cq Cx]]]]]].
  apply (Inv2_new s s1 a e1); auto.
  - intros b Hne. split; [apply (Hno b Hne)|intros y Hy; apply (Hco b y Hne Hy)].
  - rewrite Cq. cbn. apply negb_true_iff, N.ltb_ge in G1. unfold MinStakeVET in G1. lia.
  - rewrite <- (Eg _ aggs); reflexivity.
  - rewrite <- (Eg _ dels); reflexivity.
  - rewrite <- (Eg _ exits); reflexivity.
  - rewrite <- (Eg _ blk); reflexivity.
  - rewrite <- (Eg _ g_lw); reflexivity.
  - rewrite <- (Eg _ rh); reflexivity.
  - rewrite <- (Eg _ rt); reflexivity.
  - rewrite <- (Eg _ rprev); reflexivity.
  - rewrite <- (Eg _ rnext); reflexivity.
  - pose proof (Hsum v_weight core_fun_weight) as S. rewrite Cw. exact S.
Qed.

(* ------------------------------------------------------------------ all user operations *)

Definition is_block_op (o : op) : bool := match o with OBlock => true | _ => false end.

Lemma user_run_inv2 c o s s' x la lq :
  is_block_op o = false -> run_op c o s = Ok (s', x) -> WF s la lq -> Inv1 s -> Inv2 s -> Inv2 s'.
Proof.
  intros Hb H Hwf Hi HI. destruct o; try discriminate; cbn [run_op] in H.
  - bstep H u G. eapply add_validation_inv2; eauto.
  - bstep H u G. eapply increase_stake_inv2; eauto.
  - bstep H u G. eapply decrease_stake_inv2; eauto.
  - eapply signal_exit_inv2; eauto.
  - bstep H r Hr. destruct r as [s1 y]. bstep H s2 Hp. inversion H; subst. eapply withdraw_stake_inv2; eauto.
  - eapply set_online_inv2; eauto.
  - eapply set_beneficiary_inv2; eauto.
  - bstep H u G. eapply add_delegation_inv2; eauto.
  - eapply signal_delegation_exit_inv2; eauto.
  - bstep H r Hr. destruct r as [s1 y]. bstep H s2 Hp. inversion H; subst. eapply withdraw_delegation_inv2; eauto.
  - eapply increase_reward_inv2; eauto.
  - inversion H; subst. strip s. exact HI.
  - inversion H; subst. strip s. exact HI.
Qed.
