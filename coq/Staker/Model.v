(* Staker/Model.v — executable model of builtin/staker (definitions only).
   A functional transcription of staker.go, housekeep.go, transition.go, protocol.go,
   validation/{validation,service,repository,linked_list,renewal_list}.go, aggregation/*, delegation/*,
   globalstats/*, stakes/* and of the value-carrying statements of builtin/gen/staker.sol.

   Addresses, delegation ids, block numbers, VET amounts are N.  The zero address is 0.
   A Go *T that may be nil is an option.  Errors: [Rev] = staker.ErrRevert (the transaction reverts),
   [Err] = any other Go error (a system error: the native call aborts).  A failed USER operation leaves the state unchanged
   ([step]), as the EVM checkpoint does.  A failing SyncPOS (block step) does not fail the block: packer and validator revert to
   the checkpoint taken before it and go on, so [run_op OBlock] always succeeds, with the pre-block state at the new block number.

   Integer widths: math.SafeAdd / SafeSub are modelled with their overflow / underflow branch; unchecked uint64
   subtractions that could wrap are written with sub64 / sub32; unchecked additions and the weight product are
   unbounded (wrap needs > 2^64 VET resp. block numbers >= 2^32, outside what a chain or the harness can reach). *)
From Coq Require Import List NArith Bool.
From Verif Require Import Common.Util.
Import ListNotations.
Open Scope N_scope.

(* ------------------------------------------------------------------ results *)

Inductive res (A : Type) : Type := Ok (a : A) | Rev | Err.
Arguments Ok {A} a.
Arguments Rev {A}.
Arguments Err {A}.

Definition bind {A B} (r : res A) (k : A -> res B) : res B :=
  match r with Ok a => k a | Rev => Rev | Err => Err end.
Notation "x <- e ;; k" := (bind e (fun x => k)) (at level 61, e at next level, right associativity).
Notation "' p <- e ;; k" := (bind e (fun p => k)) (at level 61, p pattern, e at next level, right associativity).

Definition guard (b : bool) : res unit := if b then Ok tt else Rev.      (* if !b { return NewReverts(..) } *)
Definition must (b : bool) : res unit := if b then Ok tt else Err.        (* if !b { return errors.New(..) } *)
Definition of_opt {A} (o : option A) : res A := match o with Some a => Ok a | None => Err end.

Definition two64 : N := 18446744073709551616.
Definition safe_add (a b : N) : option N := if a + b <? two64 then Some (a + b) else None.
Definition safe_sub (a b : N) : option N := if b <=? a then Some (a - b) else None.
Definition sub32 (a b : N) : N := (a + 4294967296 - b) mod 4294967296.

Definition e18 : N := 1000000000000000000.

(* ------------------------------------------------------------------ finite maps as association lists *)

Section Maps.
  Context {V : Type}.
  Fixpoint get (m : list (N * V)) (k : N) : option V :=
    match m with [] => None | (k', v) :: t => if k' =? k then Some v else get t k end.
  (* replace in place, or append *)
  Fixpoint upd (m : list (N * V)) (k : N) (v : V) : list (N * V) :=
    match m with
    | [] => [(k, v)]
    | (k', v') :: t => if k' =? k then (k, v) :: t else (k', v') :: upd t k v
    end.
  Fixpoint sumf (f : V -> N) (m : list (N * V)) : N :=
    match m with [] => 0 | (_, v) :: t => f v + sumf f t end.
End Maps.

Definition mget (m : list (N * N)) (k : N) : N := match get m k with Some v => v | None => 0 end.

Definition oeqb (a b : option N) : bool :=
  match a, b with Some x, Some y => x =? y | None, None => true | _, _ => false end.
Definition is_some {A} (o : option A) : bool := match o with Some _ => true | None => false end.

(* ------------------------------------------------------------------ records *)

Definition StatusUnknown : N := 0.
Definition StatusQueued : N := 1.
Definition StatusActive : N := 2.
Definition StatusExit : N := 3.

Record validation := mkV {
  v_endorser : N; v_benef : option N; v_period : N; v_completed : N; v_status : N; v_start : N;
  v_exit : option N; v_offline : option N;
  v_locked : N; v_punlock : N; v_queued : N; v_cooldown : N; v_withdrawable : N; v_weight : N;
  v_prev : option N; v_next : option N }.

Definition set_benef x v := mkV (v_endorser v) x (v_period v) (v_completed v) (v_status v) (v_start v) (v_exit v) (v_offline v)
  (v_locked v) (v_punlock v) (v_queued v) (v_cooldown v) (v_withdrawable v) (v_weight v) (v_prev v) (v_next v).
Definition set_completed x v := mkV (v_endorser v) (v_benef v) (v_period v) x (v_status v) (v_start v) (v_exit v) (v_offline v)
  (v_locked v) (v_punlock v) (v_queued v) (v_cooldown v) (v_withdrawable v) (v_weight v) (v_prev v) (v_next v).
Definition set_status x v := mkV (v_endorser v) (v_benef v) (v_period v) (v_completed v) x (v_start v) (v_exit v) (v_offline v)
  (v_locked v) (v_punlock v) (v_queued v) (v_cooldown v) (v_withdrawable v) (v_weight v) (v_prev v) (v_next v).
Definition set_start x v := mkV (v_endorser v) (v_benef v) (v_period v) (v_completed v) (v_status v) x (v_exit v) (v_offline v)
  (v_locked v) (v_punlock v) (v_queued v) (v_cooldown v) (v_withdrawable v) (v_weight v) (v_prev v) (v_next v).
Definition set_exit x v := mkV (v_endorser v) (v_benef v) (v_period v) (v_completed v) (v_status v) (v_start v) x (v_offline v)
  (v_locked v) (v_punlock v) (v_queued v) (v_cooldown v) (v_withdrawable v) (v_weight v) (v_prev v) (v_next v).
Definition set_offline x v := mkV (v_endorser v) (v_benef v) (v_period v) (v_completed v) (v_status v) (v_start v) (v_exit v) x
  (v_locked v) (v_punlock v) (v_queued v) (v_cooldown v) (v_withdrawable v) (v_weight v) (v_prev v) (v_next v).
(* the six amounts at once *)
Definition set_amounts (l pu q cd wd w : N) v := mkV (v_endorser v) (v_benef v) (v_period v) (v_completed v) (v_status v) (v_start v)
  (v_exit v) (v_offline v) l pu q cd wd w (v_prev v) (v_next v).
Definition set_queued x v := set_amounts (v_locked v) (v_punlock v) x (v_cooldown v) (v_withdrawable v) (v_weight v) v.
Definition set_punlock x v := set_amounts (v_locked v) x (v_queued v) (v_cooldown v) (v_withdrawable v) (v_weight v) v.
Definition set_prev x v := mkV (v_endorser v) (v_benef v) (v_period v) (v_completed v) (v_status v) (v_start v) (v_exit v) (v_offline v)
  (v_locked v) (v_punlock v) (v_queued v) (v_cooldown v) (v_withdrawable v) (v_weight v) x (v_next v).
Definition set_next x v := mkV (v_endorser v) (v_benef v) (v_period v) (v_completed v) (v_status v) (v_start v) (v_exit v) (v_offline v)
  (v_locked v) (v_punlock v) (v_queued v) (v_cooldown v) (v_withdrawable v) (v_weight v) (v_prev v) x.

(* stakes.WeightedStake pairs are kept as two fields each *)
Record aggregation := mkA { a_lv : N; a_lw : N; a_pv : N; a_pw : N; a_ev : N; a_ew : N }.
Definition agg0 := mkA 0 0 0 0 0 0.

Record delegation := mkD { d_val : N; d_stake : N; d_mult : N; d_last : option N; d_first : N }.

Record lstat := mkL { l_head : option N; l_tail : option N; l_size : N }.

Record cfg := mkC {
  c_epoch : N; c_low : N; c_med : N; c_high : N; c_cooldown : N;
  c_evict_thr : N; c_evict_int : N; c_tp : N; c_hayabusa : N }.

Definition MinStakeVET : N := 25000000.
Definition MaxStakeVET : N := 600000000.
Definition exitMaxTry : nat := 20.
Definition InitialMaxBlockProposers : N := 101.

Record st := mkS {
  vals : list (N * validation);
  aggs : list (N * aggregation);
  dels : list (N * delegation);
  del_ctr : N;
  act : lstat;                (* active list head / tail / size *)
  que : lstat;                (* queued list *)
  rh : N; rt : N; rprev : list (N * N); rnext : list (N * N);    (* renewal list (zero address = none) *)
  exits : list (N * N);       (* block -> validator *)
  rewards : list (N * list (N * N));   (* validator -> iteration -> reward *)
  g_lv : N; g_lw : N; g_q : N; g_wd : N; g_cd : N;               (* globalstats *)
  eff : N;                    (* staker.sol slot 0, wei *)
  bal : N;                    (* VET balance of the staker contract, wei *)
  mbp : N;                    (* params[KeyMaxBlockProposers] *)
  blk : N }.                  (* number of the block being built/validated *)

Definition init (donation : N) (mbp0 : N) : st :=
  mkS [] [] [] 0 (mkL None None 0) (mkL None None 0) 0 0 [] [] [] [] 0 0 0 0 0 0 donation mbp0 0.

Definition w_vals x s := mkS x (aggs s) (dels s) (del_ctr s) (act s) (que s) (rh s) (rt s) (rprev s) (rnext s) (exits s) (rewards s)
  (g_lv s) (g_lw s) (g_q s) (g_wd s) (g_cd s) (eff s) (bal s) (mbp s) (blk s).
Definition w_aggs x s := mkS (vals s) x (dels s) (del_ctr s) (act s) (que s) (rh s) (rt s) (rprev s) (rnext s) (exits s) (rewards s)
  (g_lv s) (g_lw s) (g_q s) (g_wd s) (g_cd s) (eff s) (bal s) (mbp s) (blk s).
Definition w_dels x c s := mkS (vals s) (aggs s) x c (act s) (que s) (rh s) (rt s) (rprev s) (rnext s) (exits s) (rewards s)
  (g_lv s) (g_lw s) (g_q s) (g_wd s) (g_cd s) (eff s) (bal s) (mbp s) (blk s).
Definition w_act x s := mkS (vals s) (aggs s) (dels s) (del_ctr s) x (que s) (rh s) (rt s) (rprev s) (rnext s) (exits s) (rewards s)
  (g_lv s) (g_lw s) (g_q s) (g_wd s) (g_cd s) (eff s) (bal s) (mbp s) (blk s).
Definition w_que x s := mkS (vals s) (aggs s) (dels s) (del_ctr s) (act s) x (rh s) (rt s) (rprev s) (rnext s) (exits s) (rewards s)
  (g_lv s) (g_lw s) (g_q s) (g_wd s) (g_cd s) (eff s) (bal s) (mbp s) (blk s).
Definition w_ren h t p n s := mkS (vals s) (aggs s) (dels s) (del_ctr s) (act s) (que s) h t p n (exits s) (rewards s)
  (g_lv s) (g_lw s) (g_q s) (g_wd s) (g_cd s) (eff s) (bal s) (mbp s) (blk s).
Definition w_exits x s := mkS (vals s) (aggs s) (dels s) (del_ctr s) (act s) (que s) (rh s) (rt s) (rprev s) (rnext s) x (rewards s)
  (g_lv s) (g_lw s) (g_q s) (g_wd s) (g_cd s) (eff s) (bal s) (mbp s) (blk s).
Definition w_rewards x s := mkS (vals s) (aggs s) (dels s) (del_ctr s) (act s) (que s) (rh s) (rt s) (rprev s) (rnext s) (exits s) x
  (g_lv s) (g_lw s) (g_q s) (g_wd s) (g_cd s) (eff s) (bal s) (mbp s) (blk s).
Definition w_glob lv lw q wd cd s := mkS (vals s) (aggs s) (dels s) (del_ctr s) (act s) (que s) (rh s) (rt s) (rprev s) (rnext s)
  (exits s) (rewards s) lv lw q wd cd (eff s) (bal s) (mbp s) (blk s).
Definition w_money e b s := mkS (vals s) (aggs s) (dels s) (del_ctr s) (act s) (que s) (rh s) (rt s) (rprev s) (rnext s)
  (exits s) (rewards s) (g_lv s) (g_lw s) (g_q s) (g_wd s) (g_cd s) e b (mbp s) (blk s).
Definition w_mbp x s := mkS (vals s) (aggs s) (dels s) (del_ctr s) (act s) (que s) (rh s) (rt s) (rprev s) (rnext s)
  (exits s) (rewards s) (g_lv s) (g_lw s) (g_q s) (g_wd s) (g_cd s) (eff s) (bal s) x (blk s).
Definition w_blk x s := mkS (vals s) (aggs s) (dels s) (del_ctr s) (act s) (que s) (rh s) (rt s) (rprev s) (rnext s)
  (exits s) (rewards s) (g_lv s) (g_lw s) (g_q s) (g_wd s) (g_cd s) (eff s) (bal s) (mbp s) x.

Definition getv (s : st) (a : N) : option validation := get (vals s) a.
Definition setv (a : N) (v : validation) (s : st) : st := w_vals (upd (vals s) a v) s.
Definition get_agg (s : st) (a : N) : aggregation := match get (aggs s) a with Some x => x | None => agg0 end.
Definition set_agg (a : N) (x : aggregation) (s : st) : st := w_aggs (upd (aggs s) a x) s.

(* ------------------------------------------------------------------ stakes *)

Definition calc_weight (vet mult : N) : N := vet * mult / 100.
Definition Multiplier : N := 100.
Definition MultiplierWithDelegations : N := 200.

(* WeightedStake.Add / Sub on a (vet, weight) pair *)
Definition ws_add (a b : N * N) : res (N * N) :=
  v <- of_opt (safe_add (fst a) (fst b));; w <- of_opt (safe_add (snd a) (snd b));; Ok (v, w).
Definition ws_sub (a b : N * N) : res (N * N) :=
  v <- of_opt (safe_sub (fst a) (fst b));; w <- of_opt (safe_sub (snd a) (snd b));; Ok (v, w).

(* ------------------------------------------------------------------ globalstats *)

Record renewal := mkR { r_inc_v : N; r_inc_w : N; r_dec_v : N; r_dec_w : N; r_qdec : N }.
Definition renewal0 := mkR 0 0 0 0 0.
Record exitd := mkE { e_v : N; e_w : N; e_qdec : N }.

Definition renewal_add (r o : renewal) : res renewal :=
  '(iv, iw) <- ws_add (r_inc_v r, r_inc_w r) (r_inc_v o, r_inc_w o);;
  '(dv, dw) <- ws_add (r_dec_v r, r_dec_w r) (r_dec_v o, r_dec_w o);;
  q <- of_opt (safe_add (r_qdec r) (r_qdec o));;
  Ok (mkR iv iw dv dw q).

Definition add_queued (x : N) (s : st) : st := w_glob (g_lv s) (g_lw s) (g_q s + x) (g_wd s) (g_cd s) s.
Definition remove_queued (x : N) (s : st) : res st :=
  q <- of_opt (safe_sub (g_q s) x);; Ok (w_glob (g_lv s) (g_lw s) q (g_wd s) (g_cd s) s).
Definition add_withdrawable (x : N) (s : st) : res st :=
  y <- of_opt (safe_add (g_wd s) x);; Ok (w_glob (g_lv s) (g_lw s) (g_q s) y (g_cd s) s).
Definition remove_withdrawable (x : N) (s : st) : res st :=
  y <- of_opt (safe_sub (g_wd s) x);; Ok (w_glob (g_lv s) (g_lw s) (g_q s) y (g_cd s) s).
Definition add_cooldown (x : N) (s : st) : res st :=
  y <- of_opt (safe_add (g_cd s) x);; Ok (w_glob (g_lv s) (g_lw s) (g_q s) (g_wd s) y s).
Definition remove_cooldown (x : N) (s : st) : res st :=
  y <- of_opt (safe_sub (g_cd s) x);; Ok (w_glob (g_lv s) (g_lw s) (g_q s) (g_wd s) y s).
Definition remove_locked (x : N * N) (s : st) : res st :=
  '(v, w) <- ws_sub (g_lv s, g_lw s) x;; Ok (w_glob v w (g_q s) (g_wd s) (g_cd s) s).

Definition apply_renewal (r : renewal) (s : st) : res st :=
  l1 <- ws_add (g_lv s, g_lw s) (r_inc_v r, r_inc_w r);;
  '(v, w) <- ws_sub l1 (r_dec_v r, r_dec_w r);;
  s1 <- remove_queued (r_qdec r) (w_glob v w (g_q s) (g_wd s) (g_cd s) s);;
  add_withdrawable (r_dec_v r) s1.

Definition apply_exit (ve ae : exitd) (s : st) : res st :=
  tot <- ws_add (e_v ve, e_w ve) (e_v ae, e_w ae);;
  s1 <- (if 0 <? fst tot then remove_locked tot s else Ok s);;
  let qdec := e_qdec ve + e_qdec ae in
  s2 <- (if 0 <? qdec then remove_queued qdec s1 else Ok s1);;
  s3 <- (if 0 <? e_v ve then add_cooldown (e_v ve) s2 else Ok s2);;
  let wi := qdec + e_v ae in
  if 0 <? wi then add_withdrawable wi s3 else Ok s3.

(* ------------------------------------------------------------------ validation methods *)

Definition v_multiplier (v : validation) : N :=
  if v_weight v =? v_locked v then Multiplier else MultiplierWithDelegations.

Definition current_iteration (v : validation) (b : N) : res N :=
  if (v_status v =? StatusUnknown) || (v_status v =? StatusQueued) then Ok 0
  else if v_status v =? StatusExit then Ok (v_completed v)
  else if 0 <? v_completed v then Ok (v_completed v)
  else if b <? v_start v then Err
  else if v_period v =? 0 then Err
  else Ok ((b - v_start v) / v_period v + 1).

Definition is_period_end (v : validation) (b : N) : bool := sub32 b (v_start v) mod v_period v =? 0.
(* Go: diff%v.Period panics for Period = 0; the model's N.modulo gives diff; a stored validation never has period 0 *)

Definition v_next_period_tvl (v : validation) : res N :=
  let np := v_locked v + v_queued v in
  if np <? v_punlock v then Err else Ok (np - v_punlock v).

Definition agg_next_period_tvl (a : aggregation) : res N :=
  let np := a_lv a + a_pv a in
  if np <? a_ev a then Err else Ok (np - a_ev a).

Definition cooldown_ended (c : cfg) (v : validation) (b : N) : bool :=
  match v_exit v with Some e => e + c_cooldown c <=? b | None => false end.

Definition calc_withdrawable (c : cfg) (v : validation) (b : N) : N :=
  v_withdrawable v + (if cooldown_ended c v b then v_cooldown v else 0) + v_queued v.

(* Validation.renew *)
Definition v_renew (v : validation) (deleg_weight : N) : res (validation * renewal) :=
  let prevw := calc_weight (v_locked v) (v_multiplier v) in
  l1 <- of_opt (safe_sub (v_locked v + v_queued v) (v_punlock v));;
  let mult := if 0 <? deleg_weight then MultiplierWithDelegations else Multiplier in
  let afterw := calc_weight l1 mult in
  let incw := if prevw <? afterw then afterw - prevw else 0 in
  let decw := if prevw <? afterw then 0 else prevw - afterw in
  Ok (set_amounts l1 0 0 (v_cooldown v) (v_withdrawable v + v_punlock v) (afterw + deleg_weight) v,
      mkR (v_queued v) incw (v_punlock v) decw (v_queued v)).

(* Validation.exit *)
Definition v_exit_now (v : validation) : validation * exitd :=
  (set_status StatusExit (set_amounts 0 0 0 (v_locked v) (v_withdrawable v + v_queued v) 0 v),
   mkE (v_locked v) (calc_weight (v_locked v) (v_multiplier v)) (v_queued v)).

(* Validation.Totals *)
Record totals := mkT { t_locked : N; t_weight : N; t_queued : N; t_exiting : N; t_next_weight : N }.
Definition v_totals (v : validation) (a : aggregation) : res totals :=
  let exiting := (v_status v =? StatusActive) && is_some (v_exit v) in
  nw <- (if exiting then Ok 0 else
           atvl <- agg_next_period_tvl a;;
           vtvl <- v_next_period_tvl v;;
           let m := if 0 <? atvl then MultiplierWithDelegations else Multiplier in
           of_opt (safe_sub (calc_weight vtvl m + a_lw a + a_pw a) (a_ew a)));;
  Ok (mkT (v_locked v + a_lv a) (v_weight v) (v_queued v + a_pv a)
          (if exiting then v_locked v + a_lv a else v_punlock v + a_ev a) nw).

(* ------------------------------------------------------------------ aggregation service *)

Definition agg_renew (a : aggregation) : res (aggregation * renewal) :=
  '(lv, lw) <- ws_add (a_lv a, a_lw a) (a_pv a, a_pw a);;
  '(lv2, lw2) <- ws_sub (lv, lw) (a_ev a, a_ew a);;
  Ok (mkA lv2 lw2 0 0 0 0, mkR (a_pv a) (a_pw a) (a_ev a) (a_ew a) (a_pv a)).

(* Service.Renew: returns the renewal and the new locked weight *)
Definition aggs_renew (v : N) (s : st) : res (st * renewal * N) :=
  '(a, r) <- agg_renew (get_agg s v);; Ok (set_agg v a s, r, a_lw a).

Definition aggs_exit (v : N) (s : st) : st * exitd :=
  let a := get_agg s v in (set_agg v agg0 s, mkE (a_lv a) (a_lw a) (a_pv a)).

Definition aggs_add_pending (v : N) (x : N * N) (s : st) : res st :=
  let a := get_agg s v in
  '(pv, pw) <- ws_add (a_pv a, a_pw a) x;; Ok (set_agg v (mkA (a_lv a) (a_lw a) pv pw (a_ev a) (a_ew a)) s).
Definition aggs_sub_pending (v : N) (x : N * N) (s : st) : res st :=
  let a := get_agg s v in
  '(pv, pw) <- ws_sub (a_pv a, a_pw a) x;; Ok (set_agg v (mkA (a_lv a) (a_lw a) pv pw (a_ev a) (a_ew a)) s).
Definition aggs_signal_exit (v : N) (x : N * N) (s : st) : res st :=
  let a := get_agg s v in
  '(ev, ew) <- ws_add (a_ev a, a_ew a) x;; Ok (set_agg v (mkA (a_lv a) (a_lw a) (a_pv a) (a_pw a) ev ew) s).

(* ------------------------------------------------------------------ the linked lists stored in the validation records
   (linked_list.go).  [w] selects the list statistics: true = active, false = queued. *)

Definition get_ls (w : bool) (s : st) : lstat := if w then act s else que s.
Definition put_ls (w : bool) (l : lstat) (s : st) : st := if w then w_act l s else w_que l s.
Definition is_linked (e : validation) : bool := is_some (v_prev e) || is_some (v_next e).

Definition ll_remove (w : bool) (addr : N) (e : validation) (s : st) : res (st * validation) :=
  let l := get_ls w s in
  if negb (is_linked e) && (negb (oeqb (l_head l) (Some addr)) || negb (oeqb (l_tail l) (Some addr)))
  then Ok (s, e)                                       (* "not the last element": nothing is written, not even the entry *)
  else
    s1 <- match v_prev e with
          | None => Ok (put_ls w (mkL (v_next e) (l_tail l) (l_size l)) s)
          | Some p => pe <- of_opt (getv s p);; Ok (setv p (set_next (v_next e) pe) s)
          end;;
    s2 <- match v_next e with
          | None => let l1 := get_ls w s1 in Ok (put_ls w (mkL (l_head l1) (v_prev e) (l_size l1)) s1)
          | Some n => ne <- of_opt (getv s1 n);; Ok (setv n (set_prev (v_prev e) ne) s1)
          end;;
    let e' := set_next None (set_prev None e) in
    let l2 := get_ls w s2 in
    _ <- must (negb (l_size l2 =? 0));;
    Ok (setv addr e' (put_ls w (mkL (l_head l2) (l_tail l2) (l_size l2 - 1)) s2), e').

Definition ll_add (w : bool) (addr : N) (e : validation) (s : st) : res st :=
  let l := get_ls w s in
  let e1 := set_prev (l_tail l) e in
  let s1 := put_ls w (mkL (l_head l) (Some addr) (l_size l)) s in
  s2 <- match l_tail l with
        | None => let l1 := get_ls w s1 in Ok (put_ls w (mkL (Some addr) (l_tail l1) (l_size l1)) s1)
        | Some t => te <- of_opt (getv s1 t);; Ok (setv t (set_next (Some addr) te) s1)
        end;;
  let l2 := get_ls w s2 in
  Ok (setv addr e1 (put_ls w (mkL (l_head l2) (l_tail l2) (l_size l2 + 1)) s2)).

(* listStats.Iterate with a collecting callback; fuel = number of stored validations + 1 (a cycle makes Go loop forever) *)
Fixpoint ll_walk (fuel : nat) (cur : option N) (s : st) : res (list (N * validation)) :=
  match cur with
  | None => Ok []
  | Some a =>
    match fuel with
    | O => Err
    | S f => e <- of_opt (getv s a);; r <- ll_walk f (v_next e) s;; Ok ((a, e) :: r)
    end
  end.
Definition walk_fuel (s : st) : nat := S (length (vals s)).
Definition iterate (w : bool) (s : st) : res (list (N * validation)) := ll_walk (walk_fuel s) (l_head (get_ls w s)) s.

Definition next_entry (s : st) (a : N) : N :=
  match getv s a with Some e => match v_next e with Some n => n | None => 0 end | None => 0 end.
Definition ohead (o : option N) : N := match o with Some a => a | None => 0 end.

(* ------------------------------------------------------------------ renewal list (renewal_list.go) *)

Definition rl_contains (k : N) (s : st) : bool :=
  if k =? 0 then false else if negb (mget (rnext s) k =? 0) then true else rt s =? k.

Definition rl_add (k : N) (s : st) : st :=
  if k =? 0 then s else if rl_contains k s then s
  else if rt s =? 0 then w_ren k k (rprev s) (rnext s) s
  else w_ren (rh s) k (upd (rprev s) k (rt s)) (upd (rnext s) (rt s) k) s.

Definition rl_remove (k : N) (s : st) : st :=
  if k =? 0 then s else if negb (rl_contains k s) then s
  else
    let p := mget (rprev s) k in
    let n := mget (rnext s) k in
    if (p =? 0) && (n =? 0) && (negb (rh s =? k) || negb (rt s =? k)) then s
    (* (head.IsZero() || head != k) is (head != k) for k != 0 *)
    else
      let '(h1, nx1) := if p =? 0 then (n, rnext s) else (rh s, upd (rnext s) p n) in
      let '(t1, pv1) := if n =? 0 then (p, rprev s) else (rt s, upd (rprev s) n p) in
      w_ren h1 t1 (upd pv1 k 0) (upd nx1 k 0) s.

Fixpoint rl_walk (fuel : nat) (cur : N) (s : st) : res (list N) :=
  if cur =? 0 then Ok []
  else match fuel with
       | O => Err
       | S f => r <- rl_walk f (mget (rnext s) cur) s;; Ok (cur :: r)
       end.
Definition rl_iterate (s : st) : res (list N) := rl_walk (S (length (rnext s) + 1)) (rh s) s.

(* ------------------------------------------------------------------ validation service *)

Definition get_existing (s : st) (a : N) : res validation := of_opt (getv s a).

Definition get_exit (s : st) (b : N) : N := mget (exits s) b.

(* SetExitBlock: first epoch slot at or after minBlock that no other validator occupies, at most maxTry attempts *)
Fixpoint find_exit_block (c : cfg) (s : st) (start : N) (tries : nat) : option N :=
  match tries with
  | O => None
  | S t => if get_exit s start =? 0 then Some start else find_exit_block c s (start + c_epoch c) t
  end.

(* Service.SignalExit; None from the search = ErrMaxTryReached, reported through [on_max] *)
Definition svc_signal_exit (c : cfg) (a : N) (cur_blk min_blk : N) (max_try : nat) (on_max : res st) (s : st) : res st :=
  v <- get_existing s a;;
  match find_exit_block c s min_blk max_try with
  | None => on_max
  | Some eb =>
    let s1 := w_exits (upd (exits s) eb a) s in
    cur <- current_iteration v cur_blk;;
    Ok (setv a (set_completed cur (set_exit (Some eb) v)) s1)
  end.

(* UpdateGroup: validators of the renewal list whose period ends now and that did not signal exit *)
Fixpoint update_group_filter (s : st) (b : N) (l : list N) : res (list N) :=
  match l with
  | [] => Ok []
  | a :: t =>
    v <- of_opt (getv s a);;
    r <- update_group_filter s b t;;
    Ok (if is_period_end v b && negb (is_some (v_exit v)) then a :: r else r)
  end.
Definition update_group (s : st) (b : N) : res (list N) := l <- rl_iterate s;; update_group_filter s b l.

(* Service.WithdrawStake *)
Definition svc_withdraw_stake (c : cfg) (a : N) (v : validation) (b : N) (s : st) : res (st * N * N * N) :=
  if v_status v =? StatusQueued then
    let v1 := set_status StatusExit (set_amounts (v_locked v) (v_punlock v) 0 (v_cooldown v) 0 (v_weight v) v) in
    '(s1, _) <- ll_remove false a v1 s;;
    Ok (s1, v_withdrawable v, v_queued v, 0)
  else
    let ended := cooldown_ended c v b in
    let cd := if ended then v_cooldown v else 0 in
    let v1 := set_amounts (v_locked v) (v_punlock v) 0 (if ended then 0 else v_cooldown v) 0 (v_weight v) v in
    Ok (setv a v1 s, v_withdrawable v, v_queued v, cd).

(* Service.ExitValidator *)
Definition svc_exit_validator (a : N) (s : st) : res (st * exitd) :=
  v <- get_existing s a;;
  let '(v1, ex) := v_exit_now v in
  '(s1, _) <- ll_remove true a v1 s;;
  Ok (rl_remove a s1, ex).

(* Service.ActivateValidator *)
Definition svc_activate (a : N) (v : validation) (b : N) (ar : renewal) (s : st) : res (st * renewal) :=
  _ <- must (negb (0 <? v_locked v));;
  let mul := if r_dec_v ar <? r_inc_v ar then MultiplierWithDelegations else Multiplier in
  let lw := calc_weight (v_queued v) mul in
  w <- of_opt (safe_sub (lw + r_inc_w ar) (r_dec_w ar));;
  let v1 := set_start b (set_status StatusActive
              (set_amounts (v_queued v) (v_punlock v) 0 (v_cooldown v) (v_withdrawable v) w v)) in
  s1 <- ll_add true a v1 s;;
  Ok (s1, mkR (v_queued v) lw 0 0 (v_queued v)).

(* Service.NextToActivate + Repository.popQueued *)
Definition next_to_activate (max_size : N) (s : st) : res (st * N * validation) :=
  _ <- must (l_size (act s) <? max_size);;
  _ <- must (0 <? l_size (que s));;
  h <- of_opt (l_head (que s));;
  e <- of_opt (getv s h);;
  '(s1, e1) <- ll_remove false h e s;;
  Ok (s1, h, e1).

(* Service.Renew *)
Definition svc_renew (a : N) (dw : N) (s : st) : res (st * renewal) :=
  v <- get_existing s a;;
  '(v1, r) <- v_renew v dw;;
  Ok (setv a v1 s, r).

(* ------------------------------------------------------------------ staker.go *)

Definition get_mbp (s : st) : N := if mbp s =? 0 then InitialMaxBlockProposers else if mbp s <? two64 then mbp s else two64 - 1.

Definition to_vet (wei : N) : N := wei / e18.

Definition contract_balance_check (pending : N) (s : st) : res unit :=
  t1 <- of_opt (safe_add 0 (g_lv s));;
  t2 <- of_opt (safe_add t1 (g_q s));;
  t3 <- of_opt (safe_add t2 (g_wd s));;
  t4 <- of_opt (safe_add t3 (g_cd s));;
  t5 <- of_opt (safe_add t4 pending);;
  _ <- must (negb (to_vet (bal s) <? to_vet (eff s)));;
  must (to_vet (eff s) =? t5).

Definition get_or_revert (s : st) (a : N) : res validation :=
  match getv s a with Some v => Ok v | None => Rev end.

Definition validate_stake_increase (s : st) (a : N) (v : validation) (amount : N) : res unit :=
  _ <- guard (negb (MaxStakeVET <? amount));;
  atvl <- agg_next_period_tvl (get_agg s a);;
  vtvl <- v_next_period_tvl v;;
  match safe_add vtvl atvl with
  | None => Rev
  | Some t1 => match safe_add t1 amount with
               | None => Rev
               | Some t2 => guard (negb (MaxStakeVET <? t2))
               end
  end.

Definition add_validation (c : cfg) (a endorser period stake : N) (s : st) : res (st * N) :=
  _ <- guard (negb (stake <? MinStakeVET));;
  _ <- guard (negb (MaxStakeVET <? stake));;
  _ <- guard (negb (a =? 0));;
  _ <- guard (negb (is_some (getv s a)));;
  _ <- guard ((period =? c_low c) || (period =? c_med c) || (period =? c_high c));;
  let e := mkV endorser None period 0 StatusQueued 0 None None 0 0 stake 0 0 0 None None in
  s1 <- ll_add false a e s;;
  let s2 := add_queued stake s1 in
  _ <- contract_balance_check 0 s2;;
  Ok (s2, 0).

Definition signal_exit (c : cfg) (a endorser : N) (s : st) : res (st * N) :=
  v <- get_or_revert s a;;
  _ <- guard (v_endorser v =? endorser);;
  _ <- guard (v_status v =? StatusActive);;
  _ <- guard (negb (is_some (v_exit v)));;
  cur <- current_iteration v (blk s);;
  let min_blk := v_start v + v_period v * cur in
  s1 <- svc_signal_exit c a (blk s) min_blk exitMaxTry Rev s;;
  Ok (s1, 0).

Definition increase_stake (a endorser amount : N) (s : st) : res (st * N) :=
  v <- get_or_revert s a;;
  _ <- guard (v_endorser v =? endorser);;
  _ <- guard (negb (v_status v =? StatusExit));;
  _ <- guard (v_status v =? StatusActive);;
  _ <- guard (negb (is_some (v_exit v)));;
  _ <- validate_stake_increase s a v amount;;
  let s1 := setv a (set_queued (v_queued v + amount) v) s in
  let s2 := add_queued amount (rl_add a s1) in
  _ <- contract_balance_check 0 s2;;
  Ok (s2, 0).

Definition decrease_stake (a endorser amount : N) (s : st) : res (st * N) :=
  _ <- guard (negb (MaxStakeVET - MinStakeVET <? amount));;
  v <- get_or_revert s a;;
  _ <- guard (v_endorser v =? endorser);;
  _ <- guard (negb (v_status v =? StatusExit));;
  _ <- guard (v_status v =? StatusActive);;
  _ <- guard (negb (is_some (v_exit v)));;
  let np := sub64 (v_locked v) (v_punlock v) in
  _ <- guard (negb (np <? amount));;
  _ <- guard (negb (np - amount <? MinStakeVET));;
  let s1 := rl_add a (setv a (set_punlock (v_punlock v + amount) v) s) in
  _ <- contract_balance_check 0 s1;;
  Ok (s1, 0).

Definition withdraw_stake (c : cfg) (a endorser : N) (s : st) : res (st * N) :=
  v <- get_or_revert s a;;
  _ <- guard (v_endorser v =? endorser);;
  let is_queued := v_status v =? StatusQueued in
  '(s1, wd, q, cd) <- svc_withdraw_stake c a v (blk s) s;;
  s2 <- (if is_queued then
           let '(s1a, ex) := aggs_exit a s1 in
           if 0 <? e_qdec ex then s1b <- remove_queued (e_qdec ex) s1a;; add_withdrawable (e_qdec ex) s1b
           else Ok s1a
         else Ok s1);;
  s3 <- (if 0 <? wd then remove_withdrawable wd s2 else Ok s2);;
  s4 <- (if 0 <? q then remove_queued q s3 else Ok s3);;
  s5 <- (if 0 <? cd then remove_cooldown cd s4 else Ok s4);;
  t1 <- of_opt (safe_add wd q);;
  total <- of_opt (safe_add t1 cd);;
  _ <- contract_balance_check total s5;;
  Ok (s5, total).

Definition set_online (a : N) (online : bool) (s : st) : res (st * N) :=
  v <- get_existing s a;;
  (* OfflineBlock is a *uint32 with rlp:"nil": a pointer to 0 is stored as the empty string and read back as nil *)
  Ok (setv a (set_offline (if online then None else if blk s =? 0 then None else Some (blk s)) v) s, 0).

Definition set_beneficiary (a endorser b : N) (s : st) : res (st * N) :=
  v <- get_or_revert s a;;
  _ <- guard (v_endorser v =? endorser);;
  _ <- guard (negb ((v_status v =? StatusExit) || is_some (v_exit v)));;
  Ok (setv a (set_benef (if b =? 0 then None else Some b) v) s, 0).

(* Delegation.Started / Ended *)
Definition d_started (d : delegation) (v : validation) (b : N) : res bool :=
  if (v_status v =? StatusQueued) || (v_status v =? StatusUnknown) then Ok false
  else cur <- current_iteration v b;; Ok (d_first d <=? cur).
Definition d_ended (d : delegation) (v : validation) (b : N) : res bool :=
  if v_status v =? StatusQueued then Ok false
  else
    started <- d_started d v b;;
    if (v_status v =? StatusExit) && started then Ok true
    else
      cur <- current_iteration v b;;
      match d_last d with None => Ok false | Some l => Ok (l <? cur) end.

Definition add_delegation (a stake mult : N) (s : st) : res (st * N) :=
  _ <- guard (0 <? stake);;
  _ <- guard (negb (mult =? 0));;
  v <- get_or_revert s a;;
  _ <- guard ((v_status v =? StatusQueued) || (v_status v =? StatusActive));;
  _ <- guard (negb (is_some (v_exit v)));;
  _ <- validate_stake_increase s a v stake;;
  cur <- current_iteration v (blk s);;
  let id := del_ctr s + 1 in
  let s1 := w_dels (upd (dels s) id (mkD a stake mult None (cur + 1))) id s in
  s2 <- aggs_add_pending a (stake, calc_weight stake mult) s1;;
  let s3 := add_queued stake s2 in
  let s4 := if v_status v =? StatusActive then rl_add a s3 else s3 in
  _ <- contract_balance_check 0 s4;;
  Ok (s4, id).

Definition signal_delegation_exit (id : N) (s : st) : res (st * N) :=
  match get (dels s) id with
  | None => Rev
  | Some d =>
    _ <- guard (negb (is_some (d_last d)));;
    _ <- guard (negb (d_stake d =? 0));;
    v <- get_existing s (d_val d);;
    started <- d_started d v (blk s);;
    _ <- guard started;;
    ended <- d_ended d v (blk s);;
    _ <- guard (negb ended);;
    cur <- current_iteration v (blk s);;
    let s1 := w_dels (upd (dels s) id (mkD (d_val d) (d_stake d) (d_mult d) (Some cur) (d_first d))) (del_ctr s) s in
    s2 <- aggs_signal_exit (d_val d) (d_stake d, calc_weight (d_stake d) (d_mult d)) s1;;
    Ok (if v_status v =? StatusActive then rl_add (d_val d) s2 else s2, 0)
  end.

Definition withdraw_delegation (id : N) (s : st) : res (st * N) :=
  match get (dels s) id with
  | None => Rev
  | Some d =>
    v <- get_existing s (d_val d);;
    started <- d_started d v (blk s);;
    finished <- d_ended d v (blk s);;
    _ <- guard (negb (started && negb finished));;
    let stake := d_stake d in
    let s1 := w_dels (upd (dels s) id (mkD (d_val d) 0 (d_mult d) (d_last d) (d_first d))) (del_ctr s) s in
    s2 <- (if negb started && negb (v_status v =? StatusExit)
           then s1a <- aggs_sub_pending (d_val d) (stake, calc_weight stake (d_mult d)) s1;; remove_queued stake s1a
           else remove_withdrawable stake s1);;
    _ <- contract_balance_check stake s2;;
    Ok (s2, stake)
  end.

Definition rget (s : st) (a it : N) : N :=
  match get (rewards s) a with Some m => mget m it | None => 0 end.
Definition increase_reward (a amount : N) (s : st) : res (st * N) :=
  v <- get_existing s a;;
  cur <- current_iteration v (blk s);;
  let m := match get (rewards s) a with Some m => m | None => [] end in
  Ok (w_rewards (upd (rewards s) a (upd m cur (mget m cur + amount))) s, 0).

(* ------------------------------------------------------------------ housekeep.go *)

Definition evictable (c : cfg) (b : N) (e : validation) : bool :=
  match v_offline e with
  | Some off => (off + c_evict_thr c <? b) && negb (is_some (v_exit e))
  | None => false
  end.

Definition compute_activation_count (exited : bool) (s : st) : N :=
  let qs := l_size (que s) in
  let ls := if exited then sub64 (l_size (act s)) 1 else l_size (act s) in
  let m := get_mbp s in
  if (m <=? ls) || (qs =? 0) then 0
  else let d := m - ls in if d <? qs then d else qs.

Record transition := mkTr { tr_renewals : list N; tr_exit : N; tr_evictions : list N; tr_count : N }.

Definition compute_epoch_transition (c : cfg) (b : N) (s : st) : res transition :=
  ev <- (if negb (b =? 0) && (b mod c_evict_int c =? 0)
         then l <- iterate true s;; Ok (map fst (filter (fun ae => evictable c b (snd ae)) l))
         else Ok []);;
  ren <- update_group s b;;
  let ex := get_exit s b in
  Ok (mkTr ren ex ev (compute_activation_count (negb (ex =? 0)) s)).

Definition has_updates (t : transition) : bool :=
  negb (match tr_renewals t with [] => true | _ => false end) || negb (tr_exit t =? 0) ||
  negb (match tr_evictions t with [] => true | _ => false end) || (0 <? tr_count t).

Fixpoint apply_renewals (l : list N) (acc : renewal) (s : st) : res (st * renewal) :=
  match l with
  | [] => Ok (s, acc)
  | a :: t =>
    '(s1, ar, dw) <- aggs_renew a s;;
    acc1 <- renewal_add acc ar;;
    '(s2, vr) <- svc_renew a dw s1;;
    acc2 <- renewal_add acc1 vr;;
    apply_renewals t acc2 (rl_remove a s2)
  end.

Fixpoint apply_evictions (c : cfg) (b : N) (l : list N) (s : st) : res st :=
  match l with
  | [] => Ok s
  | a :: t =>
    s1 <- svc_signal_exit c a b (b + c_epoch c) (N.to_nat InitialMaxBlockProposers) Err s;;
    apply_evictions c b t s1
  end.

Definition activate_next (b : N) (max_size : N) (s : st) : res st :=
  '(s1, a, v) <- next_to_activate max_size s;;
  '(s2, ar, _) <- aggs_renew a s1;;
  '(s3, vr) <- svc_activate a v b ar s2;;
  g <- renewal_add vr ar;;
  apply_renewal g s3.

Fixpoint activate_n (n : nat) (b : N) (max_size : N) (s : st) : res st :=
  match n with
  | O => Ok s
  | S k => s1 <- activate_next b max_size s;; activate_n k b max_size s1
  end.

Definition apply_epoch_transition (c : cfg) (b : N) (t : transition) (s : st) : res st :=
  '(s1, acc) <- apply_renewals (tr_renewals t) renewal0 s;;
  s2 <- apply_renewal acc s1;;
  s3 <- (if tr_exit t =? 0 then Ok s2
         else
           '(s2a, ve) <- svc_exit_validator (tr_exit t) s2;;
           let '(s2b, ae) := aggs_exit (tr_exit t) s2a in
           apply_exit ve ae s2b);;
  s4 <- apply_evictions c b (tr_evictions t) s3;;
  activate_n (N.to_nat (tr_count t)) b (get_mbp s4) s4.

Definition housekeep (c : cfg) (b : N) (s : st) : res (st * bool) :=
  if negb (b mod c_epoch c =? 0) then Ok (s, false)
  else
    t <- compute_epoch_transition c b s;;
    if negb (has_updates t) then Ok (s, false)
    else
      s1 <- apply_epoch_transition c b t s;;
      _ <- contract_balance_check 0 s1;;
      Ok (s1, true).

(* transition.go *)
Definition transition_pos (c : cfg) (b : N) (s : st) : res (st * bool) :=
  if negb (b mod c_epoch c =? 0) then Ok (s, false)
  else if 0 <? l_size (act s) then Ok (s, false)
  else if l_size (que s) * 3 <? get_mbp s * 2 then Ok (s, false)
  else
    t <- compute_epoch_transition c b s;;
    s1 <- apply_epoch_transition c b t s;;
    Ok (s1, true).

(* protocol.go SyncPOS: returns (state, active, updates) *)
Definition sync_pos (c : cfg) (b : N) (s : st) : res (st * bool * bool) :=
  if b <? c_hayabusa c + c_tp c then Ok (s, false, false)
  else
    let active := 0 <? l_size (act s) in
    '(s1, activated) <-
       (if negb active && ((c_tp c =? 0) || ((b - c_hayabusa c) mod c_tp c =? 0))
        then transition_pos c b s else Ok (s, false));;
    if (active || activated) && negb activated
    then '(s2, upd_) <- housekeep c b s1;; Ok (s2, true, upd_)
    else Ok (s1, active || activated, activated).

(* ------------------------------------------------------------------ staker.sol: the value-carrying statements.
   msg.value enters the contract balance and effectiveVET before the native call; the amount returned by a
   withdraw leaves both afterwards (checked subtraction of Solidity 0.8; the transfer needs the balance). *)

Definition check_stake (wei : N) : bool :=
  (0 <? wei) && (wei mod e18 =? 0) && (wei <=? 100000000000 * e18).

Definition pay_in (wei : N) (s : st) : st := w_money (eff s + wei) (bal s + wei) s.
Definition pay_out (vet : N) (s : st) : res st :=
  let wei := vet * e18 in
  _ <- guard (wei <=? eff s);;
  _ <- guard (wei <=? bal s);;
  Ok (w_money (eff s - wei) (bal s - wei) s).

Inductive op :=
| OBlock                                     (* next block: SyncPOS(blk+1) as packer/consensus do before the transactions *)
| OAddValidation (a endorser period vet : N)
| OIncrease (a endorser vet : N)
| ODecrease (a endorser vet : N)
| OSignalExit (a endorser : N)
| OWithdraw (a endorser : N)
| OSetOnline (a : N) (online : bool)
| OSetBenef (a endorser b : N)
| OAddDeleg (a vet mult : N)
| OSignalDelegExit (id : N)
| OWithdrawDeleg (id : N)
| OReward (a amount : N)
| OSetMBP (n : N)                            (* params.Set(KeyMaxBlockProposers) *)
| ODonate (wei : N).                         (* VET forced into the contract without going through it *)

(* answer of one operation: class 0 ok / 1 revert / 2 error, value (withdrawn VET, delegation id, status flags) *)
Definition run_op (c : cfg) (o : op) (s : st) : res (st * N) :=
  match o with
  | OBlock =>
    (* packer.Schedule / consensus validate: on a SyncPOS error the state is reverted to the checkpoint taken before it and the
       block goes on (the status keeps Active as read before the failing step): the epoch's housekeeping is skipped, the
       block number still advances.  Answer value: active*2 + updates, +4 when SyncPOS returned an error. *)
    let b := blk s + 1 in
    match sync_pos c b (w_blk b s) with
    | Ok (s1, active, updates) => Ok (s1, (if active then 2 else 0) + (if updates then 1 else 0))
    | _ => Ok (w_blk b s, 4 + (if (c_hayabusa c + c_tp c <=? b) && (0 <? l_size (act s)) then 2 else 0))
    end
  | OAddValidation a e p vet =>
    _ <- guard (check_stake (vet * e18));; add_validation c a e p vet (pay_in (vet * e18) s)
  | OIncrease a e vet =>
    _ <- guard (check_stake (vet * e18));; increase_stake a e vet (pay_in (vet * e18) s)
  | ODecrease a e vet =>
    _ <- guard (check_stake (vet * e18));; decrease_stake a e vet s
  | OSignalExit a e => signal_exit c a e s
  | OWithdraw a e => '(s1, x) <- withdraw_stake c a e s;; s2 <- pay_out x s1;; Ok (s2, x)
  | OSetOnline a on => set_online a on s
  | OSetBenef a e b => set_beneficiary a e b s
  | OAddDeleg a vet mult =>
    _ <- guard (check_stake (vet * e18));; add_delegation a vet mult (pay_in (vet * e18) s)
  | OSignalDelegExit id => signal_delegation_exit id s
  | OWithdrawDeleg id => '(s1, x) <- withdraw_delegation id s;; s2 <- pay_out x s1;; Ok (s2, x)
  | OReward a amount => increase_reward a amount s
  | OSetMBP n => Ok (w_mbp n s, 0)
  | ODonate wei => Ok (w_money (eff s) (bal s + wei) s, 0)
  end.

(* a failed operation leaves the state unchanged (EVM checkpoint revert / invalid block discarded) *)
Definition step (c : cfg) (s : st) (o : op) : st :=
  match run_op c o s with Ok (s1, _) => s1 | _ => s end.

Definition answer (c : cfg) (s : st) (o : op) : N * N :=
  match run_op c o s with Ok (_, x) => (0, x) | Rev => (1, 0) | Err => (2, 0) end.

Definition run (c : cfg) (s : st) (ops : list op) : st := fold_left (step c) ops s.

(* ------------------------------------------------------------------ observation helpers for the oracle *)

Definition leader_group (s : st) : res (list (N * validation)) := iterate true s.
Definition queued_group (s : st) : res (list (N * validation)) := iterate false s.
Definition deleg_flags (s : st) (d : delegation) : res (bool * bool) :=
  v <- get_existing s (d_val d);; a <- d_started d v (blk s);; b <- d_ended d v (blk s);; Ok (a, b).
Definition totals_of (s : st) (a : N) : res totals :=
  v <- get_or_revert s a;; v_totals v (get_agg s a).
