(* Staker/ProofsCustody.v — custody: what a validation holds (locked + queued + cooldown + withdrawable) changes only by what
   its endorser pays in (AddValidation, IncreaseStake) and is paid out (WithdrawStake); a delegation's stake only by
   AddDelegation / WithdrawDelegation.  Per-operation lemmas for the user operations. *)
From Coq Require Import List NArith Bool Lia.
From Coq Require Import ZifyN ZifyNat ZifyBool.
From Verif Require Import Common.Util Staker.Model Staker.Base Staker.Lists Staker.Inv Staker.RList Staker.Inv2
  Staker.ProofsStep Staker.ProofsUser Staker.ProofsUser2 Staker.ProofsHist Staker.Held Staker.ProofsEpoch Staker.ProofsAll.
Import ListNotations.
Open Scope N_scope.

Opaque e18 two64.

(* ------------------------------------------------------------------ what an operation pays in / out *)

Definition paid_in (c : cfg) (s : st) (o : op) (a : N) : N :=
  match o with
  | OAddValidation a' _ _ vet | OIncrease a' _ vet => if (a' =? a) && (fst (answer c s o) =? 0) then vet else 0
  | _ => 0
  end.
Definition paid_out (c : cfg) (s : st) (o : op) (a : N) : N :=
  match o with OWithdraw a' _ => if a' =? a then snd (answer c s o) else 0 | _ => 0 end.

Definition deleg_in (c : cfg) (s : st) (o : op) (id : N) : N :=
  match o with
  | OAddDeleg _ vet _ => if (fst (answer c s o) =? 0) && (snd (answer c s o) =? id) then vet else 0
  | _ => 0
  end.
Definition deleg_out (c : cfg) (s : st) (o : op) (id : N) : N :=
  match o with OWithdrawDeleg id' => if id' =? id then snd (answer c s o) else 0 | _ => 0 end.

Lemma money_only_held s s' : money_only s s' -> forall b, held_by s' b = held_by s b.
Proof. intros [q [wd [cd [e [b ->]]]]]. apply held_by_vals. reflexivity. Qed.
Lemma money_only_dels s s' : money_only s s' -> dels s' = dels s.
Proof. intros [q [wd [cd [e [b ->]]]]]. reflexivity. Qed.

(* ------------------------------------------------------------------ user operations, success case *)

Lemma add_validation_held c a e p vet s s' x :
  add_validation c a e p vet (pay_in (vet * e18) s) = Ok (s', x) ->
  forall b, held_by s' b = held_by s b + (if a =? b then vet else 0).
Proof.
  intros H b. unfold add_validation in H.
  bstep H u1 G1. bstep H u2 G2. bstep H u3 G3. bstep H u4 G4. bstep H u5 G5. bstep H s1 Hadd. bstep H u6 G6.
  inversion H; subst s' x; clear H. gfacts.
  assert (Hnone : getv s a = None).
  { change (getv (pay_in (vet * e18) s) a) with (getv s a) in G4. destruct (getv s a); [discriminate|reflexivity]. }
  destruct (ll_add_held _ _ _ _ _ Hadd) as [Ho Ha].
  change (held_by (add_queued vet s1) b) with (held_by s1 b).
  destruct (a =? b) eqn:E.
  - apply N.eqb_eq in E. subst b. rewrite Ha. unfold held_by. rewrite Hnone. unfold held. cbn. lia.
  - apply N.eqb_neq in E. rewrite Ho by auto. change (held_by (pay_in (vet * e18) s) b) with (held_by s b). lia.
Qed.

Lemma increase_stake_held a e vet s s' x :
  increase_stake a e vet (pay_in (vet * e18) s) = Ok (s', x) ->
  forall b, held_by s' b = held_by s b + (if a =? b then vet else 0).
Proof.
  intros H b. unfold increase_stake in H.
  bstep H v Hv. apply get_or_revert_ok in Hv. change (getv s a = Some v) in Hv.
  bstep H u1 G1. bstep H u2 G2. bstep H u3 G3. bstep H u4 G4. bstep H u5 G5. bstep H u6 G6.
  inversion H; subst s' x; clear H.
  change (held_by (add_queued vet (rl_add a (setv a (set_queued (v_queued v + vet) v) (pay_in (vet * e18) s)))) b)
    with (held_by (rl_add a (setv a (set_queued (v_queued v + vet) v) (pay_in (vet * e18) s))) b).
  rewrite (held_by_ren_only _ _ (rl_add_only a _)). rewrite held_by_setv.
  destruct (a =? b) eqn:E.
  - apply N.eqb_eq in E. subst b. unfold held_by. rewrite Hv. unfold held. cbn. lia.
  - change (held_by (pay_in (vet * e18) s) b) with (held_by s b). lia.
Qed.

Lemma decrease_stake_held a e vet s s' x :
  decrease_stake a e vet s = Ok (s', x) -> forall b, held_by s' b = held_by s b.
Proof.
  intros H b. unfold decrease_stake in H.
  bstep H u0 G0. bstep H v Hv. apply get_or_revert_ok in Hv.
  bstep H u1 G1. bstep H u2 G2. bstep H u3 G3. bstep H u4 G4. bstep H u5 G5. bstep H u6 G6. bstep H u7 G7.
  inversion H; subst s' x; clear H.
  rewrite (held_by_ren_only _ _ (rl_add_only a _)). apply held_by_setv_same_held with (v := v); auto.
Qed.

Lemma signal_exit_held c a e s s' x : signal_exit c a e s = Ok (s', x) -> forall b, held_by s' b = held_by s b.
Proof.
  intros H b. unfold signal_exit in H.
  bstep H v Hv. bstep H u1 G1. bstep H u2 G2. bstep H u3 G3. bstep H cur Hc. bstep H s1 Hs. inversion H; subst s' x; clear H.
  apply svc_signal_exit_shape in Hs; [|discriminate]. destruct Hs as [v2 [eb [cur2 [Hv2 ->]]]].
  rewrite (held_by_setv_same_held a v2 _ (w_exits (upd (exits s) eb a) s)); auto.
Qed.

Lemma set_online_held a on s s' x : set_online a on s = Ok (s', x) -> forall b, held_by s' b = held_by s b.
Proof.
  intros H b. unfold set_online in H. bstep H v Hv. unfold get_existing in Hv. apply of_opt_ok in Hv.
  inversion H; subst s' x; clear H. apply held_by_setv_same_held with (v := v); auto.
Qed.

Lemma set_beneficiary_held a e bb s s' x : set_beneficiary a e bb s = Ok (s', x) -> forall b, held_by s' b = held_by s b.
Proof.
  intros H b. unfold set_beneficiary in H. bstep H v Hv. apply get_or_revert_ok in Hv.
  bstep H u1 G1. bstep H u2 G2. inversion H; subst s' x; clear H. apply held_by_setv_same_held with (v := v); auto.
Qed.

Lemma withdraw_stake_held c a e s s1 x s2 la lq :
  withdraw_stake c a e s = Ok (s1, x) -> pay_out x s1 = Ok s2 -> WF s la lq ->
  forall b, held_by s2 b + (if a =? b then x else 0) = held_by s b.
Proof.
  intros H Hpay Hwf b. pose proof H as Hamt. unfold withdraw_stake in H.
  bstep H v Hv. apply get_or_revert_ok in Hv. bstep H u1 G1.
  destruct (withdraw_stake_amount c a e s s1 x v Hamt Hv) as [Ex _].
  bstep H r Hr. destruct r as [[[sa wd] q] cd].
  bstep H sb Hb. bstep H sc Hc. bstep H sd Hd. bstep H se He. bstep H t1 Ht1. bstep H tot Htot. bstep H u2 Hcb.
  inversion H; subst s1 tot; clear H.
  assert (M : money_only sb s2).
  { eapply money_only_trans; [eapply (mo_cond _ (remove_withdrawable wd)); [apply mo_remove_withdrawable|exact Hc]|].
    eapply money_only_trans; [eapply (mo_cond _ (remove_queued q)); [apply mo_remove_queued|exact Hd]|].
    eapply money_only_trans; [eapply (mo_cond _ (remove_cooldown cd)); [apply mo_remove_cooldown|exact He]|].
    eapply mo_pay_out; eauto. }
  rewrite (money_only_held _ _ M). clear M Hc Hd He Hpay Hcb Ht1 Htot.
  unfold svc_withdraw_stake in Hr. destruct (v_status v =? StatusQueued) eqn:Est.
  - apply N.eqb_eq in Est. bstep Hr r1 Hrm. destruct r1 as [s1' e1]. inversion Hr; subst sa wd q cd; clear Hr.
    set (v1 := set_status StatusExit (set_amounts (v_locked v) (v_punlock v) 0 (v_cooldown v) 0 (v_weight v) v)) in *.
    assert (Hin : In a lq) by (apply (wf_st _ _ _ Hwf a v Hv); auto).
    destruct (WF_remove false s la lq a v1 s1' e1 v Hwf Hrm Hv Hin eq_refl eq_refl eq_refl)
      as [l1 [l2 [El [Hwf1 [Hlo [Hga [Hce [Hco Hsum]]]]]]]].
    assert (M : money_only (set_agg a agg0 s1') sb).
    { unfold aggs_exit in Hb. cbn [e_qdec] in Hb. destruct (0 <? a_pv (get_agg s1' a)).
      - bstep Hb s1b Hq. eapply money_only_trans; [eapply mo_remove_queued; eauto|eapply mo_add_withdrawable; eauto].
      - inversion Hb. apply money_only_refl. }
    rewrite (money_only_held _ _ M). change (held_by (set_agg a agg0 s1') b) with (held_by s1' b).
    destruct (ll_remove_held _ _ _ _ _ _ Hrm) as [Ho _].
    destruct (a =? b) eqn:E.
    + apply N.eqb_eq in E. subst b. unfold held_by. rewrite Hga, Hv.
      assert (held e1 = held v1) by (apply core_held; auto).
      rewrite H, Ex. unfold held. cbn. lia.
    + apply N.eqb_neq in E. rewrite Ho by auto. lia.
  - inversion Hr; subst sa wd q cd; clear Hr. inversion Hb; subst sb; clear Hb.
    rewrite held_by_setv. destruct (a =? b) eqn:E; [|lia].
    apply N.eqb_eq in E. subst b. unfold held_by. rewrite Hv, Ex. unfold held. cbn. destruct (cooldown_ended c v (blk s)); cbn; lia.
Qed.

(* operations on delegations, reward, parameters, donation never touch what a validation holds *)
Lemma add_delegation_held a vet mult s s' x :
  add_delegation a vet mult (pay_in (vet * e18) s) = Ok (s', x) -> forall b, held_by s' b = held_by s b.
Proof.
  intros H b. unfold add_delegation in H.
  bstep H u1 G1. bstep H u2 G2. bstep H v Hv. bstep H u3 G3. bstep H u4 G4. bstep H u5 G5. bstep H cur Hc. bstep H s2 Hp. bstep H u6 G6.
  inversion H; subst s' x; clear H.
  unfold aggs_add_pending in Hp. bstep Hp pw Hpw. destruct pw as [pv pw]. inversion Hp; subst s2; clear Hp.
  destruct (v_status v =? StatusActive); [rewrite (held_by_ren_only _ _ (rl_add_only a _))|]; reflexivity.
Qed.

Lemma signal_delegation_exit_held id s s' x : signal_delegation_exit id s = Ok (s', x) -> forall b, held_by s' b = held_by s b.
Proof.
  intros H b. unfold signal_delegation_exit in H. destruct (get (dels s) id) as [d|]; [|discriminate].
  bstep H u1 G1. bstep H u2 G2. bstep H v Hv. bstep H stt Hst. bstep H u3 G3. bstep H en Hen. bstep H u4 G4. bstep H cur Hc.
  bstep H s2 Hp. inversion H; subst s' x; clear H.
  unfold aggs_signal_exit in Hp. bstep Hp ew Hew. destruct ew as [ev ew]. inversion Hp; subst s2; clear Hp.
  destruct (v_status v =? StatusActive); [rewrite (held_by_ren_only _ _ (rl_add_only _ _))|]; reflexivity.
Qed.

Lemma withdraw_delegation_held id s s1 x s2 :
  withdraw_delegation id s = Ok (s1, x) -> pay_out x s1 = Ok s2 -> forall b, held_by s2 b = held_by s b.
Proof.
  intros H Hpay b. unfold withdraw_delegation in H. destruct (get (dels s) id) as [d|]; [|discriminate].
  bstep H v Hv. bstep H stt Hst. bstep H fi Hfi. bstep H u1 G1. bstep H sb Hb. bstep H u2 G2.
  inversion H; subst s1 x; clear H. rewrite (money_only_held _ _ (mo_pay_out _ _ _ Hpay)).
  destruct (negb stt && negb (v_status v =? StatusExit)).
  - bstep Hb sa Ha. unfold aggs_sub_pending in Ha. bstep Ha pw Hpw. destruct pw as [pv pw]. inversion Ha; subst sa; clear Ha.
    rewrite (money_only_held _ _ (mo_remove_queued _ _ _ Hb)). reflexivity.
  - rewrite (money_only_held _ _ (mo_remove_withdrawable _ _ _ Hb)). reflexivity.
Qed.

Lemma increase_reward_held a amt s s' x : increase_reward a amt s = Ok (s', x) -> forall b, held_by s' b = held_by s b.
Proof.
  intros H b. unfold increase_reward in H. bstep H v Hv. bstep H cur Hc. inversion H; subst. reflexivity.
Qed.

(* ------------------------------------------------------------------ delegations' stakes *)

Lemma stake_of_dels s s' : dels s' = dels s -> forall id, stake_of s' id = stake_of s id.
Proof. intros E id. unfold stake_of. rewrite E. reflexivity. Qed.

Lemma add_delegation_stake a vet mult s s' x :
  add_delegation a vet mult (pay_in (vet * e18) s) = Ok (s', x) -> Inv1 s ->
  x = del_ctr s + 1 /\ forall id, stake_of s' id = stake_of s id + (if x =? id then vet else 0).
Proof.
  intros H [_ _ _ _ _ _ I7]. unfold add_delegation in H.
  bstep H u1 G1. bstep H u2 G2. bstep H v Hv. bstep H u3 G3. bstep H u4 G4. bstep H u5 G5. bstep H cur Hc. bstep H s2 Hp. bstep H u6 G6.
  inversion H; subst s' x; clear H.
  unfold aggs_add_pending in Hp. bstep Hp pw Hpw. destruct pw as [pv pw]. inversion Hp; subst s2; clear Hp.
  split; [reflexivity|]. intros id.
  assert (E : forall sf, dels sf = upd (dels s) (del_ctr s + 1) (mkD a vet mult None (cur + 1)) ->
              stake_of sf id = stake_of s id + (if del_ctr s + 1 =? id then vet else 0)).
  { intros sf Ed. unfold stake_of. rewrite Ed, get_upd. change (del_ctr (pay_in (vet * e18) s)) with (del_ctr s).
    destruct (del_ctr s + 1 =? id) eqn:E.
    - apply N.eqb_eq in E. subst id. destruct (get (dels s) (del_ctr s + 1)) as [d|] eqn:Eg; [apply I7 in Eg; lia|]. cbn. lia.
    - lia. }
  apply E. destruct (v_status v =? StatusActive); [rewrite (rl_add_only a _)|]; reflexivity.
Qed.

Lemma signal_delegation_exit_stake id s s' x :
  signal_delegation_exit id s = Ok (s', x) -> forall i, stake_of s' i = stake_of s i.
Proof.
  intros H i. unfold signal_delegation_exit in H. destruct (get (dels s) id) as [d|] eqn:Ed; [|discriminate].
  bstep H u1 G1. bstep H u2 G2. bstep H v Hv. bstep H stt Hst. bstep H u3 G3. bstep H en Hen. bstep H u4 G4. bstep H cur Hc.
  bstep H s2 Hp. inversion H; subst s' x; clear H.
  unfold aggs_signal_exit in Hp. bstep Hp ew Hew. destruct ew as [ev ew]. inversion Hp; subst s2; clear Hp.
  assert (E : forall sf, dels sf = upd (dels s) id (mkD (d_val d) (d_stake d) (d_mult d) (Some cur) (d_first d)) -> stake_of sf i = stake_of s i).
  { intros sf Ef. unfold stake_of. rewrite Ef, get_upd. destruct (id =? i) eqn:E; auto. apply N.eqb_eq in E. subst i. rewrite Ed. reflexivity. }
  apply E. destruct (v_status v =? StatusActive); [rewrite (rl_add_only _ _)|]; reflexivity.
Qed.

Lemma withdraw_delegation_stake id s s1 x s2 :
  withdraw_delegation id s = Ok (s1, x) -> pay_out x s1 = Ok s2 ->
  forall i, stake_of s2 i + (if id =? i then x else 0) = stake_of s i.
Proof.
  intros H Hpay i. unfold withdraw_delegation in H. destruct (get (dels s) id) as [d|] eqn:Ed; [|discriminate].
  bstep H v Hv. bstep H stt Hst. bstep H fi Hfi. bstep H u1 G1. bstep H sb Hb. bstep H u2 G2.
  inversion H; subst s1 x; clear H.
  assert (E : dels s2 = upd (dels s) id (mkD (d_val d) 0 (d_mult d) (d_last d) (d_first d))).
  { rewrite (money_only_dels _ _ (mo_pay_out _ _ _ Hpay)).
    destruct (negb stt && negb (v_status v =? StatusExit)).
    - bstep Hb sa Ha. unfold aggs_sub_pending in Ha. bstep Ha pw Hpw. destruct pw as [pv pw]. inversion Ha; subst sa; clear Ha.
      rewrite (money_only_dels _ _ (mo_remove_queued _ _ _ Hb)). reflexivity.
    - rewrite (money_only_dels _ _ (mo_remove_withdrawable _ _ _ Hb)). reflexivity. }
  unfold stake_of. rewrite E, get_upd. destruct (id =? i) eqn:Ei; [|lia]. apply N.eqb_eq in Ei. subst i. rewrite Ed. cbn. lia.
Qed.

(* operations that do not touch the delegation map *)
Lemma ll_remove_dels w a e s s1 e1 : ll_remove w a e s = Ok (s1, e1) -> dels s1 = dels s.
Proof.
  unfold ll_remove. intros H.
  destruct (negb (is_linked e) && (negb (oeqb (l_head (get_ls w s)) (Some a)) || negb (oeqb (l_tail (get_ls w s)) (Some a)))); [inversion H; auto|].
  bstep H sa Ha. bstep H sb Hb. bstep H u Hu. inversion H; subst s1 e1; clear H.
  assert (A : dels sa = dels s).
  { destruct (v_prev e); [bstep Ha pe Hpe; inversion Ha; subst; reflexivity|inversion Ha; subst; destruct w; reflexivity]. }
  assert (B : dels sb = dels sa).
  { destruct (v_next e); [bstep Hb ne Hne; inversion Hb; subst; reflexivity|inversion Hb; subst; destruct w; reflexivity]. }
  destruct w; cbn; congruence.
Qed.

Lemma ll_add_dels w a e s s1 : ll_add w a e s = Ok s1 -> dels s1 = dels s.
Proof.
  unfold ll_add. intros H. bstep H sb Hb. inversion H; subst s1; clear H.
  assert (B : dels sb = dels s).
  { destruct (l_tail (get_ls w s)); [bstep Hb te Hte; inversion Hb; subst; destruct w; reflexivity|inversion Hb; subst; destruct w; reflexivity]. }
  destruct w; cbn; congruence.
Qed.

(* ------------------------------------------------------------------ a block never touches the delegation map *)

Lemma remove_locked_dels x s s' : remove_locked x s = Ok s' -> dels s' = dels s.
Proof. unfold remove_locked. intros H. bstep H r Hr. destruct r. inversion H; subst. reflexivity. Qed.

Lemma apply_renewal_dels r s s' : apply_renewal r s = Ok s' -> dels s' = dels s.
Proof.
  unfold apply_renewal. intros H. bstep H l1 Hl1. bstep H l2 Hl2. destruct l2. bstep H s1 Hs1.
  rewrite (money_only_dels _ _ (mo_add_withdrawable _ _ _ H)), (money_only_dels _ _ (mo_remove_queued _ _ _ Hs1)). reflexivity.
Qed.

Lemma apply_exit_dels ve ae s s' : apply_exit ve ae s = Ok s' -> dels s' = dels s.
Proof.
  unfold apply_exit. intros H. bstep H tot Htot. bstep H sa Ha. bstep H sb Hb. bstep H sc Hc.
  assert (A : dels sa = dels s) by (destruct (0 <? fst tot); [eapply remove_locked_dels; eauto|inversion Ha; auto]).
  assert (B : dels sb = dels sa) by (destruct (0 <? e_qdec ve + e_qdec ae); [apply (money_only_dels _ _ (mo_remove_queued _ _ _ Hb))|inversion Hb; auto]).
  assert (C : dels sc = dels sb) by (destruct (0 <? e_v ve); [apply (money_only_dels _ _ (mo_add_cooldown _ _ _ Hc))|inversion Hc; auto]).
  assert (D : dels s' = dels sc) by (destruct (0 <? e_qdec ve + e_qdec ae + e_v ae); [apply (money_only_dels _ _ (mo_add_withdrawable _ _ _ H))|inversion H; auto]).
  congruence.
Qed.

Lemma ren_only_dels s s' : ren_only s s' -> dels s' = dels s.
Proof. intros E. rewrite E. reflexivity. Qed.

Lemma apply_renewals_dels l : forall acc s s' acc', apply_renewals l acc s = Ok (s', acc') -> dels s' = dels s.
Proof.
  induction l as [|a t IH]; intros acc s s' acc' H.
  - cbn in H. inversion H; auto.
  - cbn [apply_renewals] in H. bstep H r1 Hr1. destruct r1 as [[s1 ar] dw]. bstep H acc1 Ha1. bstep H r2 Hr2. destruct r2 as [s2 vr]. bstep H acc2 Ha2.
    rewrite (IH _ _ _ _ H), (ren_only_dels _ _ (rl_remove_only a s2)).
    unfold svc_renew in Hr2. bstep Hr2 v Hv. bstep Hr2 r Hr. destruct r. inversion Hr2; subst.
    unfold aggs_renew in Hr1. bstep Hr1 r Hr'. destruct r. inversion Hr1; subst. reflexivity.
Qed.

Lemma apply_evictions_dels c b l : forall s s', apply_evictions c b l s = Ok s' -> dels s' = dels s.
Proof.
  induction l as [|a t IH]; intros s s' H.
  - cbn in H. inversion H; auto.
  - cbn [apply_evictions] in H. bstep H s1 Hs1. rewrite (IH _ _ H).
    apply svc_signal_exit_shape in Hs1; [|discriminate]. destruct Hs1 as [v [eb [cur [Hv ->]]]]. reflexivity.
Qed.

Lemma activate_n_dels n b mx : forall s s', activate_n n b mx s = Ok s' -> dels s' = dels s.
Proof.
  induction n as [|k IH]; intros s s' H.
  - cbn in H. inversion H; auto.
  - cbn [activate_n] in H. bstep H s1 Hs1. rewrite (IH _ _ H). clear H IH.
    unfold activate_next in Hs1. bstep Hs1 r Hr. destruct r as [[sa h] e1]. unfold next_to_activate in Hr.
    bstep Hr u1 G1. bstep Hr u2 G2. bstep Hr h0 Hh. bstep Hr e He. bstep Hr r1 Hrm. destruct r1 as [sa' e1']. inversion Hr; subst sa' h0 e1'; clear Hr.
    bstep Hs1 r2 Hag. destruct r2 as [[sb ar] dw]. bstep Hs1 r3 Hact. destruct r3 as [sc vr]. bstep Hs1 g Hg.
    rewrite (apply_renewal_dels _ _ _ Hs1).
    unfold svc_activate in Hact. bstep Hact u3 G3. bstep Hact w Hw. bstep Hact sd Hadd. inversion Hact; subst sd vr; clear Hact.
    rewrite (ll_add_dels _ _ _ _ _ Hadd).
    unfold aggs_renew in Hag. bstep Hag r Hr'. destruct r. inversion Hag; subst. cbn [dels set_agg w_aggs].
    apply (ll_remove_dels _ _ _ _ _ _ Hrm).
Qed.

Lemma apply_epoch_transition_dels c b t s s' : apply_epoch_transition c b t s = Ok s' -> dels s' = dels s.
Proof.
  unfold apply_epoch_transition. intros H. bstep H r1 Hr1. destruct r1 as [s1 acc]. bstep H s2 Hs2. bstep H s3 Hs3. bstep H s4 Hs4.
  rewrite (activate_n_dels _ _ _ _ _ H), (apply_evictions_dels _ _ _ _ _ Hs4).
  assert (E3 : dels s3 = dels s2).
  { destruct (tr_exit t =? 0); [inversion Hs3; auto|].
    bstep Hs3 r Hr. destruct r as [s2a ve]. destruct (aggs_exit (tr_exit t) s2a) as [s2b ae] eqn:Hae.
    rewrite (apply_exit_dels _ _ _ _ Hs3). unfold aggs_exit in Hae. inversion Hae; subst. cbn [dels set_agg w_aggs].
    unfold svc_exit_validator in Hr. bstep Hr v Hv. destruct (v_exit_now v) as [v1 ex]. bstep Hr r1' Hrm. destruct r1' as [sx ex1].
    inversion Hr; subst. rewrite (ren_only_dels _ _ (rl_remove_only _ _)). apply (ll_remove_dels _ _ _ _ _ _ Hrm). }
  rewrite E3, (apply_renewal_dels _ _ _ Hs2). apply (apply_renewals_dels _ _ _ _ _ Hr1).
Qed.

Lemma block_dels c s : dels (step c s OBlock) = dels s.
Proof.
  unfold step. cbn [run_op]. destruct (sync_pos c (blk s + 1) (w_blk (blk s + 1) s)) as [[[s1 ac] up]| |] eqn:Hr; try reflexivity.
  destruct (ProofsEpoch.sync_pos_cases _ _ _ _ _ _ Hr) as [->|[t [Hc Ha]]]; [reflexivity|].
  rewrite (apply_epoch_transition_dels _ _ _ _ _ Ha). reflexivity.
Qed.

(* ------------------------------------------------------------------ one step of a history *)

Lemma answer_ok c s o s' x : run_op c o s = Ok (s', x) -> answer c s o = (0, x) /\ step c s o = s'.
Proof. intros E. unfold answer, step. rewrite E. auto. Qed.
Lemma answer_fail c s o : (forall r, run_op c o s <> Ok r) -> snd (answer c s o) = 0 /\ (fst (answer c s o) =? 0) = false /\ step c s o = s.
Proof. intros H. unfold answer, step. destruct (run_op c o s) as [[s' x]| |]; [exfalso; apply (H (s', x)); auto|auto|auto]. Qed.

Theorem custody_step c s o a : FullInv s ->
  held_by (step c s o) a + paid_out c s o a = held_by s a + paid_in c s o a.
Proof.
  intros [la [lq HF]]. destruct (run_op c o s) as [[s' x]| |] eqn:E.
  - destruct (answer_ok _ _ _ _ _ E) as [Ea Es]. rewrite Es.
    destruct o; cbn [paid_in paid_out]; rewrite ?Ea; cbn [fst snd N.eqb andb]; cbn [run_op] in E.
    + (* block *) rewrite <- Es. destruct (block_step_Full c s la lq HF) as [_ [_ [_ [_ [Hh _]]]]]. rewrite Hh. lia.
    + bstep E u G. rewrite (add_validation_held _ _ _ _ _ _ _ _ E a). rewrite andb_true_r. lia.
    + bstep E u G. rewrite (increase_stake_held _ _ _ _ _ _ E a). rewrite andb_true_r. lia.
    + bstep E u G. rewrite (decrease_stake_held _ _ _ _ _ _ E a). lia.
    + rewrite (signal_exit_held _ _ _ _ _ _ E a). lia.
    + bstep E r Hr. destruct r as [s1 y]. bstep E s2 Hp. inversion E; subst s2 y.
      pose proof (withdraw_stake_held _ _ _ _ _ _ _ _ _ Hr Hp (f_wf _ _ _ HF) a). lia.
    + rewrite (set_online_held _ _ _ _ _ E a). lia.
    + rewrite (set_beneficiary_held _ _ _ _ _ _ E a). lia.
    + bstep E u G. rewrite (add_delegation_held _ _ _ _ _ _ E a). lia.
    + rewrite (signal_delegation_exit_held _ _ _ _ E a). lia.
    + bstep E r Hr. destruct r as [s1 y]. bstep E s2 Hp. inversion E; subst s2 y. rewrite (withdraw_delegation_held _ _ _ _ _ Hr Hp a). lia.
    + rewrite (increase_reward_held _ _ _ _ _ E a). lia.
    + inversion E; subst. change (held_by (w_mbp n s) a) with (held_by s a). lia.
    + inversion E; subst. change (held_by (w_money (eff s) (bal s + wei) s) a) with (held_by s a). lia.
  - assert (F : forall r, run_op c o s <> Ok r) by (intros r; rewrite E; discriminate).
    destruct (answer_fail _ _ _ F) as [A1 [A2 A3]]. rewrite A3.
    destruct o; cbn [paid_in paid_out]; rewrite ?A1, ?A2, ?andb_false_r; try lia. destruct (a0 =? a); lia.
  - assert (F : forall r, run_op c o s <> Ok r) by (intros r; rewrite E; discriminate).
    destruct (answer_fail _ _ _ F) as [A1 [A2 A3]]. rewrite A3.
    destruct o; cbn [paid_in paid_out]; rewrite ?A1, ?A2, ?andb_false_r; try lia. destruct (a0 =? a); lia.
Qed.

(* operations that are not about delegations leave the delegation map alone *)
Lemma add_validation_dels c a e p vet s s' x : add_validation c a e p vet s = Ok (s', x) -> dels s' = dels s.
Proof.
  unfold add_validation. intros H. bstep H u1 G1. bstep H u2 G2. bstep H u3 G3. bstep H u4 G4. bstep H u5 G5. bstep H s1 Hadd. bstep H u6 G6.
  inversion H; subst. cbn. apply (ll_add_dels _ _ _ _ _ Hadd).
Qed.
Lemma increase_stake_dels a e vet s s' x : increase_stake a e vet s = Ok (s', x) -> dels s' = dels s.
Proof.
  unfold increase_stake. intros H. bstep H v Hv. bstep H u1 G1. bstep H u2 G2. bstep H u3 G3. bstep H u4 G4. bstep H u5 G5. bstep H u6 G6.
  inversion H; subst. cbn. rewrite (ren_only_dels _ _ (rl_add_only _ _)). reflexivity.
Qed.
Lemma decrease_stake_dels a e vet s s' x : decrease_stake a e vet s = Ok (s', x) -> dels s' = dels s.
Proof.
  unfold decrease_stake. intros H. bstep H u0 G0. bstep H v Hv. bstep H u1 G1. bstep H u2 G2. bstep H u3 G3. bstep H u4 G4. bstep H u5 G5. bstep H u6 G6. bstep H u7 G7.
  inversion H; subst. rewrite (ren_only_dels _ _ (rl_add_only _ _)). reflexivity.
Qed.
Lemma signal_exit_dels c a e s s' x : signal_exit c a e s = Ok (s', x) -> dels s' = dels s.
Proof.
  unfold signal_exit. intros H. bstep H v Hv. bstep H u1 G1. bstep H u2 G2. bstep H u3 G3. bstep H cur Hc. bstep H s1 Hs. inversion H; subst.
  apply svc_signal_exit_shape in Hs; [|discriminate]. destruct Hs as [v2 [eb [cur2 [Hv2 ->]]]]. reflexivity.
Qed.
Lemma withdraw_stake_dels c a e s s1 x s2 : withdraw_stake c a e s = Ok (s1, x) -> pay_out x s1 = Ok s2 -> dels s2 = dels s.
Proof.
  intros H Hpay. unfold withdraw_stake in H. bstep H v Hv. bstep H u1 G1. bstep H r Hr. destruct r as [[[sa wd] q] cd].
  bstep H sb Hb. bstep H sc Hc. bstep H sd Hd. bstep H se He. bstep H t1 Ht1. bstep H tot Htot. bstep H u2 Hcb.
  inversion H; subst s1 tot; clear H.
  assert (M : money_only sb s2).
  { eapply money_only_trans; [eapply (mo_cond _ (remove_withdrawable wd)); [apply mo_remove_withdrawable|exact Hc]|].
    eapply money_only_trans; [eapply (mo_cond _ (remove_queued q)); [apply mo_remove_queued|exact Hd]|].
    eapply money_only_trans; [eapply (mo_cond _ (remove_cooldown cd)); [apply mo_remove_cooldown|exact He]|].
    eapply mo_pay_out; eauto. }
  rewrite (money_only_dels _ _ M). unfold svc_withdraw_stake in Hr. destruct (v_status v =? StatusQueued).
  - bstep Hr r1 Hrm. destruct r1 as [s1' e1]. inversion Hr; subst sa wd q cd; clear Hr.
    assert (M2 : money_only (set_agg a agg0 s1') sb).
    { unfold aggs_exit in Hb. cbn [e_qdec] in Hb. destruct (0 <? a_pv (get_agg s1' a)).
      - bstep Hb s1b Hq. eapply money_only_trans; [eapply mo_remove_queued; eauto|eapply mo_add_withdrawable; eauto].
      - inversion Hb. apply money_only_refl. }
    rewrite (money_only_dels _ _ M2). cbn [dels set_agg w_aggs]. apply (ll_remove_dels _ _ _ _ _ _ Hrm).
  - inversion Hr; subst. inversion Hb; subst. reflexivity.
Qed.

Theorem custody_step_deleg c s o id : FullInv s ->
  stake_of (step c s o) id + deleg_out c s o id = stake_of s id + deleg_in c s o id.
Proof.
  intros [la [lq HF]]. destruct (run_op c o s) as [[s' x]| |] eqn:E.
  - destruct (answer_ok _ _ _ _ _ E) as [Ea Es]. rewrite Es.
    assert (Same : dels s' = dels s -> stake_of s' id = stake_of s id) by (intros Ed; apply stake_of_dels; auto).
    destruct o; cbn [deleg_in deleg_out]; rewrite ?Ea; cbn [fst snd N.eqb andb]; cbn [run_op] in E.
    + rewrite <- Es. rewrite (stake_of_dels _ _ (block_dels c s)). lia.
    + bstep E u G. rewrite Same; [lia|]. apply (add_validation_dels _ _ _ _ _ _ _ _ E).
    + bstep E u G. rewrite Same; [lia|]. apply (increase_stake_dels _ _ _ _ _ _ E).
    + bstep E u G. rewrite Same; [lia|]. apply (decrease_stake_dels _ _ _ _ _ _ E).
    + rewrite Same; [lia|]. apply (signal_exit_dels _ _ _ _ _ _ E).
    + bstep E r Hr. destruct r as [s1 y]. bstep E s2 Hp. inversion E; subst s2 y. rewrite Same; [lia|]. apply (withdraw_stake_dels _ _ _ _ _ _ _ Hr Hp).
    + assert (D : dels s' = dels s) by (unfold set_online in E; bstep E v Hv; inversion E; reflexivity). rewrite (Same D); lia.
    + assert (D : dels s' = dels s) by (unfold set_beneficiary in E; bstep E v Hv; bstep E u1 G1; bstep E u2 G2; inversion E; reflexivity). rewrite (Same D); lia.
    + bstep E u G. destruct (add_delegation_stake _ _ _ _ _ _ E (f_1 _ _ _ HF)) as [Ex Hs]. rewrite (Hs id). lia.
    + rewrite (signal_delegation_exit_stake _ _ _ _ E id). lia.
    + bstep E r Hr. destruct r as [s1 y]. bstep E s2 Hp. inversion E; subst s2 y. pose proof (withdraw_delegation_stake _ _ _ _ _ Hr Hp id). lia.
    + assert (D : dels s' = dels s) by (unfold increase_reward in E; bstep E v Hv; bstep E cur Hc; inversion E; reflexivity). rewrite (Same D); lia.
    + assert (D : dels s' = dels s) by (inversion E; reflexivity). rewrite (Same D); lia.
    + assert (D : dels s' = dels s) by (inversion E; reflexivity). rewrite (Same D); lia.
  - assert (F : forall r, run_op c o s <> Ok r) by (intros r; rewrite E; discriminate).
    destruct (answer_fail _ _ _ F) as [A1 [A2 A3]]. rewrite A3.
    destruct o; cbn [deleg_in deleg_out]; rewrite ?A1, ?A2; cbn [andb]; try lia. destruct (id0 =? id); lia.
  - assert (F : forall r, run_op c o s <> Ok r) by (intros r; rewrite E; discriminate).
    destruct (answer_fail _ _ _ F) as [A1 [A2 A3]]. rewrite A3.
    destruct o; cbn [deleg_in deleg_out]; rewrite ?A1, ?A2; cbn [andb]; try lia. destruct (id0 =? id); lia.
Qed.

(* ------------------------------------------------------------------ histories *)

Fixpoint total (f : cfg -> st -> op -> N -> N) (c : cfg) (s : st) (ops : list op) (a : N) : N :=
  match ops with [] => 0 | o :: t => f c s o a + total f c (step c s o) t a end.

Theorem custody_validation_hist c s ops a : FullInv s ->
  held_by (run c s ops) a + total paid_out c s ops a = held_by s a + total paid_in c s ops a.
Proof.
  revert s. induction ops as [|o t IH]; intros s HF; cbn [run fold_left total]; [lia|].
  pose proof (custody_step c s o a HF) as S1. pose proof (IH (step c s o) (step_FullInv c s o HF)) as S2.
  unfold run in S2. lia.
Qed.

Theorem custody_delegation_hist c s ops id : FullInv s ->
  stake_of (run c s ops) id + total deleg_out c s ops id = stake_of s id + total deleg_in c s ops id.
Proof.
  revert s. induction ops as [|o t IH]; intros s HF; cbn [run fold_left total]; [lia|].
  pose proof (custody_step_deleg c s o id HF) as S1. pose proof (IH (step c s o) (step_FullInv c s o HF)) as S2.
  unfold run in S2. lia.
Qed.

(* ------------------------------------------------------------------ a second withdrawal pays nothing *)

Lemma money_only_getv s s' : money_only s s' -> forall b, getv s' b = getv s b.
Proof. intros [q [wd [cd [e [b ->]]]]]. reflexivity. Qed.
Lemma money_only_blk s s' : money_only s s' -> blk s' = blk s.
Proof. intros [q [wd [cd [e [b ->]]]]]. reflexivity. Qed.

(* the record of the validation after a successful WithdrawStake: queued and withdrawable emptied, the cooldown bucket emptied
   if it was due; a validation that was still queued is now Exit *)
Lemma withdraw_stake_record c a e s s1 x s2 la lq v :
  withdraw_stake c a e s = Ok (s1, x) -> pay_out x s1 = Ok s2 -> WF s la lq -> getv s a = Some v ->
  blk s2 = blk s /\ exists v2, getv s2 a = Some v2 /\ v_endorser v2 = v_endorser v /\ v_exit v2 = v_exit v /\
    v_queued v2 = 0 /\ v_withdrawable v2 = 0 /\
    (if v_status v =? StatusQueued then v_status v2 = StatusExit /\ v_cooldown v2 = v_cooldown v
     else v_status v2 = v_status v /\ v_cooldown v2 = if cooldown_ended c v (blk s) then 0 else v_cooldown v).
Proof.
  intros H Hpay Hwf Hv. unfold withdraw_stake in H.
  bstep H v0 Hv0. apply get_or_revert_ok in Hv0. assert (v0 = v) by congruence. subst v0. bstep H u1 G1.
  bstep H r Hr. destruct r as [[[sa wd] q] cd].
  bstep H sb Hb. bstep H sc Hc. bstep H sd Hd. bstep H se He. bstep H t1 Ht1. bstep H tot Htot. bstep H u2 Hcb.
  inversion H; subst s1 tot; clear H.
  assert (M : money_only sb s2).
  { eapply money_only_trans; [eapply (mo_cond _ (remove_withdrawable wd)); [apply mo_remove_withdrawable|exact Hc]|].
    eapply money_only_trans; [eapply (mo_cond _ (remove_queued q)); [apply mo_remove_queued|exact Hd]|].
    eapply money_only_trans; [eapply (mo_cond _ (remove_cooldown cd)); [apply mo_remove_cooldown|exact He]|].
    eapply mo_pay_out; eauto. }
  rewrite (money_only_blk _ _ M), (money_only_getv _ _ M). clear M Hc Hd He Hpay Hcb Ht1 Htot.
  unfold svc_withdraw_stake in Hr. destruct (v_status v =? StatusQueued) eqn:Est.
  - apply N.eqb_eq in Est. bstep Hr r1 Hrm. destruct r1 as [s1' e1]. inversion Hr; subst sa wd q cd; clear Hr.
    set (v1 := set_status StatusExit (set_amounts (v_locked v) (v_punlock v) 0 (v_cooldown v) 0 (v_weight v) v)) in *.
    assert (Hin : In a lq) by (apply (wf_st _ _ _ Hwf a v Hv); auto).
    destruct (WF_remove false s la lq a v1 s1' e1 v Hwf Hrm Hv Hin eq_refl eq_refl eq_refl)
      as [l1 [l2 [El [Hwf1 [Hlo [Hga [Hce [Hco Hsum]]]]]]]].
    assert (M : money_only (set_agg a agg0 s1') sb).
    { unfold aggs_exit in Hb. cbn [e_qdec] in Hb. destruct (0 <? a_pv (get_agg s1' a)).
      - bstep Hb s1b Hq. eapply money_only_trans; [eapply mo_remove_queued; eauto|eapply mo_add_withdrawable; eauto].
      - inversion Hb. apply money_only_refl. }
    rewrite (money_only_blk _ _ M), (money_only_getv _ _ M).
    split; [cbn; rewrite Hlo; reflexivity|]. exists e1. split; [exact Hga|]. inversion Hce. repeat split; auto.
  - inversion Hr; subst sa wd q cd; clear Hr. inversion Hb; subst sb; clear Hb.
    split; [reflexivity|]. eexists. split; [apply getv_setv_same|]. cbn. repeat split; auto.
Qed.

Theorem second_withdraw_pays_zero c a e s s1 x s2 s3 y la lq :
  Full s la lq ->
  withdraw_stake c a e s = Ok (s1, x) -> pay_out x s1 = Ok s2 -> withdraw_stake c a e s2 = Ok (s3, y) -> y = 0.
Proof.
  intros HF H1 Hp H2.
  assert (Hv : exists v, getv s a = Some v).
  { unfold withdraw_stake in H1. bstep H1 v Hv. apply get_or_revert_ok in Hv. eauto. }
  destruct Hv as [v Hv].
  destruct (withdraw_stake_record c a e s s1 x s2 la lq v H1 Hp (f_wf _ _ _ HF) Hv) as [Eb [v2 [Hv2 [Ee [Ex [Eq [Ew Est]]]]]]].
  destruct (withdraw_stake_amount c a e s2 s3 y v2 H2 Hv2) as [Ey _]. rewrite Ey, Eq, Ew. cbn [N.add].
  destruct (v_status v =? StatusQueued) eqn:Es.
  - destruct Est as [Es2 Ec2]. apply N.eqb_eq in Es.
    assert (C0 : v_cooldown v = 0) by (apply (j_cd _ (f_2 _ _ _ HF) a v Hv); rewrite Es; discriminate).
    rewrite Ec2, C0. destruct (negb (v_status v2 =? StatusQueued) && cooldown_ended c v2 (blk s2)); reflexivity.
  - destruct Est as [Es2 Ec2]. rewrite Es2, Es. cbn [negb andb].
    unfold cooldown_ended in *. rewrite Ex, Eb. rewrite Ec2. destruct (v_exit v) as [eb|]; [|reflexivity].
    destruct (eb + c_cooldown c <=? blk s); reflexivity.
Qed.
