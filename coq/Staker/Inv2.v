(* Staker/Inv2.v — the second group of invariants (needed to carry the accounting / list invariants through the
   epoch-boundary step, and for the weight clause of C17): idle aggregations of non-active validators, no cooldown
   before exit, renewal list well-formed with active members, exit slots point to active validators, weights,
   queued validators' pending aggregation = their delegations. *)
From Coq Require Import List NArith Bool Lia.
From Coq Require Import ZifyN ZifyNat ZifyBool.
From Verif Require Import Common.Util Staker.Model Staker.Base Staker.Lists Staker.Inv Staker.RList.
Import ListNotations.
Open Scope N_scope.

Definition nonactive (s : st) (a : N) : Prop := forall v, getv s a = Some v -> v_status v <> StatusActive.
Definition dp_v (a : N) (d : delegation) : N := if d_val d =? a then d_stake d else 0.
Definition dp_w (a : N) (d : delegation) : N := if d_val d =? a then calc_weight (d_stake d) (d_mult d) else 0.

Definition ren_active (s : st) : Prop :=
  exists lr, RWF s lr /\ forall a, In a lr -> exists v, getv s a = Some v /\ v_status v = StatusActive.

Record Inv2 (s : st) : Prop := mkInv2 {
  j_idle : forall a, nonactive s a -> a_lw (get_agg s a) = 0 /\ a_ev (get_agg s a) = 0 /\ a_ew (get_agg s a) = 0;
  j_cd : forall a v, getv s a = Some v -> v_status v <> StatusExit -> v_cooldown v = 0;
  j_ren : ren_active s;
  j_exit : forall b a, get_exit s b = a -> a <> 0 -> blk s < b ->
             exists v, getv s a = Some v /\ v_status v = StatusActive /\ v_exit v = Some b;
  j_lw : g_lw s = sumf v_weight (vals s);
  j_w1 : forall a v, getv s a = Some v -> v_status v = StatusActive ->
           v_weight v = calc_weight (v_locked v) (v_multiplier v) + a_lw (get_agg s a) /\ v_punlock v + 1 <= v_locked v;
  j_w0 : forall a v, getv s a = Some v -> v_status v <> StatusActive -> v_weight v = 0;
  j_q : forall a v, getv s a = Some v -> v_status v = StatusQueued ->
          v_locked v = 0 /\ 1 <= v_queued v /\
          a_pv (get_agg s a) = sumf (dp_v a) (dels s) /\ a_pw (get_agg s a) = sumf (dp_w a) (dels s) /\ v_punlock v = 0;
  j_new : forall a, getv s a = None -> get_agg s a = agg0;
  j_dv : forall id d, In (id, d) (dels s) -> getv s (d_val d) <> None;
  j_st : forall a v, getv s a = Some v ->
           v_status v = StatusQueued \/ v_status v = StatusActive \/ v_status v = StatusExit }.

(* ------------------------------------------------------------------ extensionality *)

Lemma RWF_ext s s' l : rh s' = rh s -> rt s' = rt s -> rprev s' = rprev s -> rnext s' = rnext s -> RWF s l -> RWF s' l.
Proof. intros E1 E2 E3 E4 [H1 H2 H3 H4]. constructor; rewrite ?E1, ?E2, ?E3, ?E4; auto. Qed.

Definition same2 (s s' : st) : Prop :=
  vals s' = vals s /\ aggs s' = aggs s /\ dels s' = dels s /\ rh s' = rh s /\ rt s' = rt s /\ rprev s' = rprev s /\
  rnext s' = rnext s /\ exits s' = exits s /\ blk s' = blk s /\ g_lw s' = g_lw s.

Lemma Inv2_ext s s' : same2 s s' -> Inv2 s -> Inv2 s'.
Proof.
  intros [E1 [E2 [E3 [E4 [E5 [E6 [E7 [E8 [E9 E10]]]]]]]]] [H1 H2 H3 H4 H5 H6 H7 H8 H9 H10 H11].
  assert (Gv : forall a, getv s' a = getv s a) by (intros; unfold getv; rewrite E1; auto).
  assert (Ga : forall a, get_agg s' a = get_agg s a) by (intros; unfold get_agg; rewrite E2; auto).
  assert (Gx : forall b, get_exit s' b = get_exit s b) by (intros; unfold get_exit; rewrite E8; auto).
  constructor.
  - intros a Hn. rewrite Ga. apply H1. intros v Hv. apply Hn. rewrite Gv; auto.
  - intros a v Hv. rewrite Gv in Hv. eauto.
  - destruct H3 as [lr [R A]]. exists lr. split; [eapply RWF_ext; eauto|]. intros a Ha. rewrite Gv. auto.
  - intros b a. rewrite Gx, E9. intros. rewrite Gv. eauto.
  - rewrite E10, E1. auto.
  - intros a v Hv. rewrite Gv in Hv. rewrite Ga. eauto.
  - intros a v Hv. rewrite Gv in Hv. eauto.
  - intros a v Hv. rewrite Gv in Hv. rewrite Ga, E3. eauto.
  - intros a Hv. rewrite Gv in Hv. rewrite Ga. eauto.
  - intros id d. rewrite E3, Gv. eauto.
  - intros a v Hv. rewrite Gv in Hv. eauto.
Qed.

Lemma in_upd {V} (m : list (N * V)) k v k' v' : In (k', v') (upd m k v) -> (k', v') = (k, v) \/ In (k', v') m.
Proof.
  induction m as [|[k0 v0] t IH]; cbn.
  - intros [E|[]]; auto.
  - destruct (k0 =? k); cbn; intros [E|H]; auto. destruct (IH H); auto.
Qed.
Lemma get_in {V} (m : list (N * V)) k v : get m k = Some v -> In (k, v) m.
Proof.
  induction m as [|[k0 v0] t IH]; cbn; [discriminate|]. destruct (k0 =? k) eqn:E.
  - intros H; inversion H; subst. apply N.eqb_eq in E. subst. auto.
  - auto.
Qed.

Lemma same2_refl s : same2 s s.
Proof. repeat split. Qed.

(* ------------------------------------------------------------------ arithmetic of weights *)

Lemma calc_100 x : calc_weight x 100 = x.
Proof. unfold calc_weight. apply N.div_mul. discriminate. Qed.
Lemma calc_200 x : calc_weight x 200 = 2 * x.
Proof. unfold calc_weight. replace (x * 200) with (2 * x * 100) by lia. apply N.div_mul. discriminate. Qed.
Lemma calc_0 m : calc_weight 0 m = 0.
Proof. reflexivity. Qed.

Lemma sumf_zero {V} (f g : V -> N) (m : list (N * V)) :
  (forall v, f v = 0 -> g v = 0) -> sumf f m = 0 -> sumf g m = 0.
Proof.
  intros H. induction m as [|[k v] t IH]; cbn; auto. intros E.
  assert (f v = 0) by lia. assert (sumf f t = 0) by lia. rewrite (H v H0), IH; auto.
Qed.

Lemma dp_zero a d : dp_v a d = 0 -> dp_w a d = 0.
Proof. unfold dp_v, dp_w. destruct (d_val d =? a); auto. intros ->. reflexivity. Qed.

(* ------------------------------------------------------------------ rewriting one record *)

Lemma nonactive_setv s a v v' b :
  getv s a = Some v -> v_status v' = v_status v -> (nonactive (setv a v' s) b <-> nonactive s b).
Proof.
  intros Hv Es. unfold nonactive. split; intros H x Hx.
  - destruct (N.eq_dec a b) as [<-|Hne].
    + rewrite Hv in Hx. inversion Hx; subst x. rewrite <- Es. apply (H v'). apply getv_setv_same.
    + apply (H x). rewrite getv_setv_other; auto.
  - destruct (N.eq_dec a b) as [<-|Hne].
    + rewrite getv_setv_same in Hx. inversion Hx; subst x. rewrite Es. apply (H v Hv).
    + rewrite getv_setv_other in Hx by auto. apply (H x Hx).
Qed.

Lemma sumf_setv_eq (f : validation -> N) a v v' s :
  getv s a = Some v -> f v' = f v -> sumf f (vals (setv a v' s)) = sumf f (vals s).
Proof. intros Hv E. pose proof (sum_setv f a v v' s Hv) as S. rewrite E in S. lia. Qed.

(* a record rewritten keeping status, weight, locked, exit block; cooldown not raised; a queued record keeps its queued
   stake; an active one keeps pending-unlock below locked *)
Lemma Inv2_setv s a v v' :
  Inv2 s -> getv s a = Some v ->
  v_status v' = v_status v -> v_weight v' = v_weight v -> v_locked v' = v_locked v -> v_exit v' = v_exit v ->
  v_cooldown v' <= v_cooldown v ->
  (v_status v = StatusQueued -> v_queued v' = v_queued v /\ v_punlock v' = v_punlock v) ->
  (v_status v = StatusActive -> v_punlock v' + 1 <= v_locked v) ->
  Inv2 (setv a v' s).
Proof.
  intros [H1 H2 H3 H4 H5 H6 H7 H8 H9 H10 H11] Hv Es Ew El Ex Ec Eq Ep.
  assert (Ga : forall b, get_agg (setv a v' s) b = get_agg s b) by reflexivity.
  assert (Gc : forall b x, getv (setv a v' s) b = Some x ->
                 (b = a /\ x = v') \/ (b <> a /\ getv s b = Some x)).
  { intros b x Hx. destruct (N.eq_dec a b) as [<-|Hne].
    - rewrite getv_setv_same in Hx. inversion Hx; auto.
    - rewrite getv_setv_other in Hx by auto. right; auto. }
  constructor.
  - intros b Hn. rewrite Ga. apply H1. apply (nonactive_setv s a v v' b Hv Es); auto.
  - intros b x Hx Hs. destruct (Gc b x Hx) as [[-> ->]|[Hne Hb]]; [|eauto].
    rewrite Es in Hs. specialize (H2 a v Hv Hs). lia.
  - destruct H3 as [lr [R A]]. exists lr. split; [apply (RWF_ext s _ lr); try reflexivity; exact R|].
    intros b Hb. destruct (A b Hb) as [x [Hx Hs]]. destruct (N.eq_dec a b) as [<-|Hne].
    + rewrite Hv in Hx. inversion Hx; subst x. exists v'. rewrite getv_setv_same. split; auto. congruence.
    + exists x. rewrite getv_setv_other; auto.
  - intros b c Hg Hc Hb. destruct (H4 b c Hg Hc Hb) as [x [Hx [Hs He]]]. destruct (N.eq_dec a c) as [<-|Hne].
    + rewrite Hv in Hx. inversion Hx; subst x. exists v'. rewrite getv_setv_same. repeat split; congruence.
    + exists x. rewrite getv_setv_other; auto.
  - change (g_lw (setv a v' s)) with (g_lw s). rewrite (sumf_setv_eq v_weight a v v' s Hv Ew). auto.
  - intros b x Hx Hs. rewrite Ga. destruct (Gc b x Hx) as [[-> ->]|[Hne Hb]]; [|eauto].
    rewrite Es in Hs. destruct (H6 a v Hv Hs) as [W P]. unfold v_multiplier in *. rewrite Ew, El. split; auto.
  - intros b x Hx Hs. destruct (Gc b x Hx) as [[-> ->]|[Hne Hb]]; [|eauto]. rewrite Es in Hs. rewrite Ew. eauto.
  - intros b x Hx Hs. rewrite Ga. change (dels (setv a v' s)) with (dels s).
    destruct (Gc b x Hx) as [[-> ->]|[Hne Hb]]; [|eauto]. rewrite Es in Hs.
    destruct (H8 a v Hv Hs) as [A1 [A2 [A3 [A4 A5]]]]. destruct (Eq Hs) as [Eq1 Eq2]. rewrite El, Eq1, Eq2. auto.
  - intros b Hb. rewrite Ga. apply H9. destruct (N.eq_dec a b) as [<-|Hne]; [rewrite getv_setv_same in Hb; discriminate|].
    rewrite getv_setv_other in Hb; auto.
  - intros id d Hd. change (dels (setv a v' s)) with (dels s) in Hd. specialize (H10 id d Hd).
    destruct (N.eq_dec a (d_val d)) as [<-|Hne]; [rewrite getv_setv_same; discriminate|rewrite getv_setv_other; auto].
  - intros b x Hx. destruct (Gc b x Hx) as [[-> ->]|[Hne Hb]]; [rewrite Es|]; eauto.
Qed.

(* ------------------------------------------------------------------ renewal list operations *)

Lemma same2_ren_only_except s s' : ren_only s s' ->
  vals s' = vals s /\ aggs s' = aggs s /\ dels s' = dels s /\ exits s' = exits s /\ blk s' = blk s /\ g_lw s' = g_lw s.
Proof. intros E. rewrite E. repeat split. Qed.

Lemma Inv2_change_ren s s' :
  Inv2 s -> vals s' = vals s -> aggs s' = aggs s -> dels s' = dels s -> exits s' = exits s -> blk s' = blk s ->
  g_lw s' = g_lw s -> ren_active s' -> Inv2 s'.
Proof.
  intros H E1 E2 E3 E8 E9 E10 R.
  set (s0 := w_ren (rh s) (rt s) (rprev s) (rnext s) s').
  assert (I0 : Inv2 s0). { apply (Inv2_ext s); auto. unfold s0. repeat split; auto. }
  destruct I0 as [H1 H2 H3 H4 H5 H6 H7 H8 H9 H10 H11]. constructor; auto.
Qed.

Lemma Inv2_rl_add s a v : Inv2 s -> getv s a = Some v -> v_status v = StatusActive -> Inv2 (rl_add a s).
Proof.
  intros H Hv Hs. destruct (same2_ren_only_except _ _ (rl_add_only a s)) as [E1 [E2 [E3 [E4 [E5 E6]]]]].
  apply (Inv2_change_ren s); auto.
  destruct (j_ren _ H) as [lr [R A]].
  destruct (N.eq_dec a 0) as [->|Hz]; [rewrite (rl_add_member s lr 0 R (or_introl eq_refl)); exists lr; auto|].
  destruct (in_dec N.eq_dec a lr) as [Hin|Hn].
  - rewrite (rl_add_member s lr a R (or_intror Hin)). exists lr; auto.
  - exists (lr ++ [a]). split; [apply rl_add_new; auto|].
    intros b Hb. unfold getv. rewrite E1. apply in_app_iff in Hb as [Hb|[<-|[]]]; [apply A; auto|eauto].
Qed.

Lemma Inv2_rl_remove s a : Inv2 s -> Inv2 (rl_remove a s).
Proof.
  intros H. destruct (same2_ren_only_except _ _ (rl_remove_only a s)) as [E1 [E2 [E3 [E4 [E5 E6]]]]].
  apply (Inv2_change_ren s); auto.
  destruct (j_ren _ H) as [lr [R A]]. destruct (in_dec N.eq_dec a lr) as [Hin|Hn].
  - destruct (rl_remove_member s lr a R Hin) as [l1 [l2 [El [R' _]]]]. exists (l1 ++ l2). split; auto.
    intros b Hb. unfold getv. rewrite E1. apply A. rewrite El. apply in_app_iff in Hb as [Hb|Hb]; apply in_or_app; [left|right; right]; auto.
  - rewrite (rl_remove_nonmember s lr a R Hn). exists lr; auto.
Qed.

(* after removal the validator is no longer a member *)
Lemma rl_remove_not_member s a lr :
  RWF s lr -> exists lr', RWF (rl_remove a s) lr' /\ ~ In a lr' /\ forall b, In b lr' -> In b lr.
Proof.
  intros R. destruct (in_dec N.eq_dec a lr) as [Hin|Hn].
  - destruct (rl_remove_member s lr a R Hin) as [l1 [l2 [El [R' Hn]]]]. exists (l1 ++ l2). split; auto. split; auto.
    intros b Hb. rewrite El. apply in_app_iff in Hb as [Hb|Hb]; apply in_or_app; [left|right; right]; auto.
  - rewrite (rl_remove_nonmember s lr a R Hn). exists lr; auto.
Qed.

(* ------------------------------------------------------------------ signalling exit (user or eviction) *)

Lemma find_exit_block_free c s m t eb : find_exit_block c s m t = Some eb -> get_exit s eb = 0.
Proof.
  revert m. induction t as [|t IH]; intros m H; cbn in H; [discriminate|].
  destruct (get_exit s m =? 0) eqn:E; [inversion H; subst; apply N.eqb_eq; auto|eauto].
Qed.

(* as Inv2_setv, but the exit map is replaced and the record's exit block may change: the exit-slot clause is a premise *)
Lemma Inv2_setv_x s ex a v v' :
  Inv2 s -> getv s a = Some v ->
  v_status v' = v_status v -> v_weight v' = v_weight v -> v_locked v' = v_locked v ->
  v_cooldown v' <= v_cooldown v ->
  (v_status v = StatusQueued -> v_queued v' = v_queued v /\ v_punlock v' = v_punlock v) ->
  (v_status v = StatusActive -> v_punlock v' + 1 <= v_locked v) ->
  (forall b c, mget ex b = c -> c <> 0 -> blk s < b ->
     exists x, getv (setv a v' s) c = Some x /\ v_status x = StatusActive /\ v_exit x = Some b) ->
  Inv2 (setv a v' (w_exits ex s)).
Proof.
  intros [H1 H2 H3 H4 H5 H6 H7 H8 H9 H10 H11] Hv Es Ew El Ec Eq Ep Hexit.
  set (s1 := w_exits ex s). assert (Hv1 : getv s1 a = Some v) by exact Hv.
  assert (Ga : forall b, get_agg (setv a v' s1) b = get_agg s b) by reflexivity.
  assert (Gc : forall b x, getv (setv a v' s1) b = Some x ->
                 (b = a /\ x = v') \/ (b <> a /\ getv s b = Some x)).
  { intros b x Hx. destruct (N.eq_dec a b) as [<-|Hne].
    - rewrite getv_setv_same in Hx. inversion Hx; auto.
    - rewrite getv_setv_other in Hx by auto. right; auto. }
  constructor.
  - intros b Hn. rewrite Ga. apply H1. apply (nonactive_setv s1 a v v' b Hv1 Es); auto.
  - intros b x Hx Hs. destruct (Gc b x Hx) as [[-> ->]|[Hne Hb]]; [|eauto].
    rewrite Es in Hs. specialize (H2 a v Hv Hs). lia.
  - destruct H3 as [lr [R A]]. exists lr. split; [apply (RWF_ext s _ lr); try reflexivity; exact R|].
    intros b Hb. destruct (A b Hb) as [x [Hx Hs]]. destruct (N.eq_dec a b) as [<-|Hne].
    + rewrite Hv in Hx. inversion Hx; subst x. exists v'. rewrite getv_setv_same. split; auto. congruence.
    + exists x. rewrite getv_setv_other; auto.
  - intros b c Hg Hc Hb. exact (Hexit b c Hg Hc Hb).
  - change (g_lw (setv a v' s1)) with (g_lw s). rewrite (sumf_setv_eq v_weight a v v' s1 Hv1 Ew). auto.
  - intros b x Hx Hs. rewrite Ga. destruct (Gc b x Hx) as [[-> ->]|[Hne Hb]]; [|eauto].
    rewrite Es in Hs. destruct (H6 a v Hv Hs) as [W P]. unfold v_multiplier in *. rewrite Ew, El. split; auto.
  - intros b x Hx Hs. destruct (Gc b x Hx) as [[-> ->]|[Hne Hb]]; [|eauto]. rewrite Es in Hs. rewrite Ew. eauto.
  - intros b x Hx Hs. rewrite Ga. change (dels (setv a v' s1)) with (dels s).
    destruct (Gc b x Hx) as [[-> ->]|[Hne Hb]]; [|eauto]. rewrite Es in Hs.
    destruct (H8 a v Hv Hs) as [A1 [A2 [A3 [A4 A5]]]]. destruct (Eq Hs) as [Eq1 Eq2]. rewrite El, Eq1, Eq2. auto.
  - intros b Hb. rewrite Ga. apply H9. destruct (N.eq_dec a b) as [<-|Hne]; [rewrite getv_setv_same in Hb; discriminate|].
    rewrite getv_setv_other in Hb; auto.
  - intros id d Hd. change (dels (setv a v' s1)) with (dels s) in Hd. specialize (H10 id d Hd).
    destruct (N.eq_dec a (d_val d)) as [<-|Hne]; [rewrite getv_setv_same; discriminate|rewrite getv_setv_other; auto].
  - intros b x Hx. destruct (Gc b x Hx) as [[-> ->]|[Hne Hb]]; [rewrite Es|]; eauto.
Qed.

Lemma Inv2_signal_exit s a v eb cur :
  Inv2 s -> getv s a = Some v -> v_status v = StatusActive -> v_exit v = None -> get_exit s eb = 0 ->
  Inv2 (setv a (set_completed cur (set_exit (Some eb) v)) (w_exits (upd (exits s) eb a) s)).
Proof.
  intros H Hv Hs Hx Hfree. set (v' := set_completed cur (set_exit (Some eb) v)).
  apply (Inv2_setv_x s _ a v v'); auto; try reflexivity; try lia.
  - intros Ha. apply (j_w1 _ H a v Hv Ha).
  - intros b c Hg Hc Hb. rewrite mget_upd in Hg. destruct (eb =? b) eqn:E.
    + apply N.eqb_eq in E. subst b c. exists v'. rewrite getv_setv_same. auto.
    + change (mget (exits s) b) with (get_exit s b) in Hg.
      destruct (j_exit _ H b c Hg Hc Hb) as [y [Hy [Hsy Hey]]]. destruct (N.eq_dec a c) as [<-|Hne].
      * rewrite Hv in Hy. inversion Hy; subst y. congruence.
      * exists y. rewrite getv_setv_other by auto. auto.
Qed.

(* ------------------------------------------------------------------ delegations *)

Lemma get_agg_set_agg2 a x s b : get_agg (set_agg a x s) b = if a =? b then x else get_agg s b.
Proof. unfold get_agg, set_agg; cbn. rewrite get_upd. destruct (a =? b); reflexivity. Qed.

Lemma dp_other a b d : d_val d = a -> a <> b -> dp_v b d = 0 /\ dp_w b d = 0.
Proof. intros E Hne. unfold dp_v, dp_w. rewrite E. apply N.eqb_neq in Hne. rewrite Hne. auto. Qed.

(* generic: the delegation map gets d under id (old value od, or fresh), the aggregation of validator a = d_val d becomes x;
   x keeps the locked weight; if a is not active x is idle; if a is queued, x's pending part follows the delegations *)
Lemma Inv2_deleg s id d od x c a v :
  Inv2 s -> d_val d = a -> getv s a = Some v ->
  (get (dels s) id = od) -> (forall o, od = Some o -> d_val o = a) ->
  a_lw x = a_lw (get_agg s a) ->
  (v_status v <> StatusActive -> a_ev x = a_ev (get_agg s a) /\ a_ew x = a_ew (get_agg s a)) ->
  (v_status v = StatusQueued ->
     a_pv x + match od with Some o => d_stake o | None => 0 end = a_pv (get_agg s a) + d_stake d /\
     a_pw x + match od with Some o => calc_weight (d_stake o) (d_mult o) | None => 0 end
       = a_pw (get_agg s a) + calc_weight (d_stake d) (d_mult d)) ->
  Inv2 (set_agg a x (w_dels (upd (dels s) id d) c s)).
Proof.
  intros [H1 H2 H3 H4 H5 H6 H7 H8 H9 H10 H11] Ed Hv Hod Hoa Elw Eidle Eq.
  set (s' := set_agg a x (w_dels (upd (dels s) id d) c s)).
  assert (Gv : forall b, getv s' b = getv s b) by reflexivity.
  constructor.
  - intros b Hn. unfold s'. rewrite get_agg_set_agg2. destruct (a =? b) eqn:E; [|apply H1; exact Hn].
    apply N.eqb_eq in E. subst b. assert (Hna : v_status v <> StatusActive) by (apply Hn; exact Hv).
    destruct (H1 a Hn) as [A1 [A2 A3]]. destruct (Eidle Hna) as [B1 B2]. repeat split; congruence.
  - intros b y Hy. eauto.
  - destruct H3 as [lr [R A]]. exists lr. split; [apply (RWF_ext s _ lr); try reflexivity; exact R|]. auto.
  - intros b cc Hg. apply (H4 b cc Hg).
  - exact H5.
  - intros b y Hy Hs. unfold s'. rewrite get_agg_set_agg2. destruct (a =? b) eqn:E; [|apply H6; auto].
    apply N.eqb_eq in E. subst b. rewrite Elw. apply H6; auto.
  - intros b y Hy. eauto.
  - intros b y Hy Hs. destruct (H8 b y Hy Hs) as [A1 [A2 [A3 [A4 A5]]]]. split; auto. split; auto.
    unfold s'. rewrite get_agg_set_agg2. cbn [dels set_agg w_aggs w_dels].
    destruct (a =? b) eqn:E.
    + apply N.eqb_eq in E. subst b. assert (y = v) by congruence. subst y. destruct (Eq Hs) as [Q1 Q2].
      assert (Dd : dp_v a d = d_stake d /\ dp_w a d = calc_weight (d_stake d) (d_mult d)).
      { unfold dp_v, dp_w. rewrite Ed, N.eqb_refl. auto. }
      destruct Dd as [Dd1 Dd2].
      destruct od as [o|].
      * assert (Do : dp_v a o = d_stake o /\ dp_w a o = calc_weight (d_stake o) (d_mult o)).
        { unfold dp_v, dp_w. rewrite (Hoa o eq_refl), N.eqb_refl. auto. }
        destruct Do as [Do1 Do2].
        pose proof (sumf_upd_some (dp_v a) (dels s) id d o Hod) as S1.
        pose proof (sumf_upd_some (dp_w a) (dels s) id d o Hod) as S2. lia.
      * pose proof (sumf_upd_none (dp_v a) (dels s) id d Hod) as S1.
        pose proof (sumf_upd_none (dp_w a) (dels s) id d Hod) as S2. lia.
    + apply N.eqb_neq in E. destruct (dp_other a b d Ed E) as [Z1 Z2].
      change (get_agg (w_dels (upd (dels s) id d) c s) b) with (get_agg s b).
      destruct od as [o|].
      * destruct (dp_other a b o (Hoa o eq_refl) E) as [Z3 Z4].
        pose proof (sumf_upd_some (dp_v b) (dels s) id d o Hod) as S1.
        pose proof (sumf_upd_some (dp_w b) (dels s) id d o Hod) as S2. lia.
      * pose proof (sumf_upd_none (dp_v b) (dels s) id d Hod) as S1.
        pose proof (sumf_upd_none (dp_w b) (dels s) id d Hod) as S2. lia.
  - intros b Hb. unfold s'. rewrite get_agg_set_agg2. destruct (a =? b) eqn:E; [|apply H9; auto].
    apply N.eqb_eq in E. subst b. rewrite Gv in Hb. congruence.
  - intros id' d' Hin. cbn [dels s' set_agg w_aggs w_dels] in Hin. apply in_upd in Hin as [E|Hin].
    + inversion E; subst id' d'. rewrite Gv, Ed. congruence.
    + apply (H10 id' d' Hin).
  - intros b y Hy. eauto.
Qed.

(* the delegation map alone changes (aggregations untouched): allowed when the validator is not queued *)
Lemma Inv2_deleg_only s id d o c a v :
  Inv2 s -> d_val d = a -> getv s a = Some v -> get (dels s) id = Some o -> d_val o = a ->
  v_status v <> StatusQueued -> Inv2 (w_dels (upd (dels s) id d) c s).
Proof.
  intros [H1 H2 H3 H4 H5 H6 H7 H8 H9 H10 H11] Ed Hv Hod Hoa Hnq.
  constructor; auto.
  - destruct H3 as [lr [R A]]. exists lr. split; [apply (RWF_ext s _ lr); try reflexivity; exact R|]. auto.
  - intros b y Hy Hs. destruct (H8 b y Hy Hs) as [A1 [A2 [A3 [A4 A5]]]]. split; auto. split; auto.
    change (get_agg (w_dels (upd (dels s) id d) c s) b) with (get_agg s b). cbn [dels w_dels].
    assert (E : a <> b). { intros <-. apply Hnq. change (getv s a = Some y) in Hy. congruence. }
    destruct (dp_other a b d Ed E) as [Z1 Z2]. destruct (dp_other a b o Hoa E) as [Z3 Z4].
    pose proof (sumf_upd_some (dp_v b) (dels s) id d o Hod) as S1.
    pose proof (sumf_upd_some (dp_w b) (dels s) id d o Hod) as S2. lia.
  - intros id' d' Hin. cbn [dels w_dels] in Hin. apply in_upd in Hin as [E|Hin].
    + inversion E; subst id' d'. change (getv s (d_val d) <> None). congruence.
    + apply (H10 id' d' Hin).
Qed.

(* ------------------------------------------------------------------ all records but one keep their core *)

Definition core_rel (s s' : st) (a : N) : Prop :=
  forall b, b <> a -> (getv s b = None -> getv s' b = None) /\
                      forall v, getv s b = Some v -> exists v', getv s' b = Some v' /\ core v' = core v.

Lemma core_rel_rev s s' a b v' : core_rel s s' a -> b <> a -> getv s' b = Some v' ->
  exists v, getv s b = Some v /\ core v' = core v.
Proof.
  intros C Hne Hv'. destruct (C b Hne) as [C1 C2]. destruct (getv s b) as [v|] eqn:E.
  - destruct (C2 v eq_refl) as [v2 [Hv2 Ec]]. exists v. split; auto. congruence.
  - rewrite (C1 eq_refl) in Hv'. discriminate.
Qed.

Lemma sumf_all_zero {V} (f : V -> N) (m : list (N * V)) : (forall k v, In (k, v) m -> f v = 0) -> sumf f m = 0.
Proof.
  induction m as [|[k v] t IH]; cbn; auto. intros H. rewrite (H k v (or_introl eq_refl)), IH; auto.
  intros k' v' Hin. apply (H k' v'). right; auto.
Qed.

Lemma core_eq v v' : core v = core v' ->
  v_status v = v_status v' /\ v_cooldown v = v_cooldown v' /\ v_weight v = v_weight v' /\ v_locked v = v_locked v' /\
  v_punlock v = v_punlock v' /\ v_queued v = v_queued v' /\ v_exit v = v_exit v'.
Proof. intros H. inversion H. repeat split; auto. Qed.
Ltac cf Ec := destruct (core_eq _ _ Ec) as [Cs [Cc [Cw [Cl [Cp [Cq Cx]]]]]].

(* record a (queued or active) becomes Exit with weight 0; its aggregation is reset *)
Lemma Inv2_to_exit s s' a v e1 :
  Inv2 s -> core_rel s s' a -> getv s a = Some v -> getv s' a = Some e1 ->
  v_status e1 = StatusExit -> v_weight e1 = 0 ->
  aggs s' = upd (aggs s) a agg0 -> dels s' = dels s -> exits s' = exits s -> blk s' = blk s ->
  g_lw s' + v_weight v = g_lw s ->
  sumf v_weight (vals s') + v_weight v = sumf v_weight (vals s) ->
  (forall b, blk s < b -> get_exit s b = a -> a = 0) ->
  (exists lr', RWF s' lr' /\ forall b, In b lr' -> b <> a /\ exists x, getv s b = Some x /\ v_status x = StatusActive) ->
  Inv2 s'.
Proof.
  intros [H1 H2 H3 H4 H5 H6 H7 H8 H9 H10 H11] C Hv He1 Est Ew0 Eag Ed Eex Eb Eg Esum Hslot Hren.
  assert (Ga : forall b, get_agg s' b = if a =? b then agg0 else get_agg s b).
  { intros b. unfold get_agg. rewrite Eag, get_upd. destruct (a =? b); reflexivity. }
  assert (Gx : forall b, get_exit s' b = get_exit s b) by (intros; unfold get_exit; rewrite Eex; auto).
  constructor.
  - intros b Hn. rewrite Ga. destruct (a =? b) eqn:E; [cbn; auto|]. apply N.eqb_neq in E. apply H1.
    intros x Hx. destruct (proj2 (C b (fun e => E (eq_sym e))) x Hx) as [x' [Hx' Ec]]. rewrite <- (core_status _ _ Ec). apply (Hn x' Hx').
  - intros b x Hx Hs. destruct (N.eq_dec b a) as [->|Hne]; [congruence|].
    destruct (core_rel_rev _ _ _ _ _ C Hne Hx) as [y [Hy Ec]]. cf Ec. rewrite Cc. apply (H2 b y Hy). congruence.
  - destruct Hren as [lr' [R A]]. exists lr'. split; auto. intros b Hb. destruct (A b Hb) as [Hne [x [Hx Hs]]].
    destruct (proj2 (C b Hne) x Hx) as [x' [Hx' Ec]]. exists x'. split; auto. rewrite (core_status _ _ Ec). auto.
  - intros b c Hg Hc Hb. rewrite Gx in Hg. rewrite Eb in Hb. destruct (N.eq_dec c a) as [->|Hne].
    + exfalso. apply Hc. apply (Hslot b Hb Hg).
    + destruct (H4 b c Hg Hc Hb) as [y [Hy [Hs Hey]]]. destruct (proj2 (C c Hne) y Hy) as [y' [Hy' Ec]].
      exists y'. cf Ec. repeat split; congruence.
  - pose proof (sumf_get_le v_weight (vals s) a v Hv). lia.
  - intros b x Hx Hs. destruct (N.eq_dec b a) as [->|Hne]; [destruct status_ne as [_ [N1 _]]; congruence|].
    destruct (core_rel_rev _ _ _ _ _ C Hne Hx) as [y [Hy Ec]]. cf Ec.
    destruct (H6 b y Hy) as [W P]; [congruence|]. rewrite Ga. assert (E : (a =? b) = false) by (apply N.eqb_neq; auto). rewrite E.
    unfold v_multiplier in *. rewrite Cw, Cl, Cp. auto.
  - intros b x Hx Hs. destruct (N.eq_dec b a) as [->|Hne]; [congruence|].
    destruct (core_rel_rev _ _ _ _ _ C Hne Hx) as [y [Hy Ec]]. cf Ec. rewrite Cw. apply (H7 b y Hy). congruence.
  - intros b x Hx Hs. destruct (N.eq_dec b a) as [->|Hne]; [destruct status_ne as [_ [_ N2]]; congruence|].
    destruct (core_rel_rev _ _ _ _ _ C Hne Hx) as [y [Hy Ec]]. cf Ec.
    destruct (H8 b y Hy) as [A1 [A2 [A3 A4]]]; [congruence|]. rewrite Ga, Ed.
    assert (E : (a =? b) = false) by (apply N.eqb_neq; auto). rewrite E. rewrite Cl, Cq, Cp. tauto.
  - intros b Hb. rewrite Ga. destruct (a =? b) eqn:E; auto. apply N.eqb_neq in E. apply H9.
    destruct (getv s b) as [y|] eqn:Ey; auto. destruct (proj2 (C b (fun e => E (eq_sym e))) y Ey) as [y' [Hy' _]]. congruence.
  - intros id d Hin. rewrite Ed in Hin. specialize (H10 id d Hin). destruct (N.eq_dec (d_val d) a) as [->|Hne]; [congruence|].
    destruct (getv s (d_val d)) as [y|] eqn:Ey; [|congruence]. destruct (proj2 (C _ Hne) y Ey) as [y' [Hy' _]]. congruence.
  - intros b x Hx. destruct (N.eq_dec b a) as [->|Hne]; [assert (x = e1) by congruence; subst; auto|].
    destruct (core_rel_rev _ _ _ _ _ C Hne Hx) as [y [Hy Ec]]. rewrite (core_status _ _ Ec). eauto.
Qed.

(* a new queued record appears *)
Lemma Inv2_new s s' a e0 :
  Inv2 s -> core_rel s s' a -> getv s a = None -> getv s' a = Some e0 ->
  v_status e0 = StatusQueued -> v_weight e0 = 0 -> v_locked e0 = 0 -> 1 <= v_queued e0 -> v_cooldown e0 = 0 -> v_punlock e0 = 0 ->
  aggs s' = aggs s -> dels s' = dels s -> exits s' = exits s -> blk s' = blk s -> g_lw s' = g_lw s ->
  rh s' = rh s -> rt s' = rt s -> rprev s' = rprev s -> rnext s' = rnext s ->
  sumf v_weight (vals s') = sumf v_weight (vals s) + v_weight e0 ->
  Inv2 s'.
Proof.
  intros [H1 H2 H3 H4 H5 H6 H7 H8 H9 H10 H11] C Hn He0 Est Ew0 El0 Eq1 Ecd Epu Eag Ed Eex Eb Eg R1 R2 R3 R4 Esum.
  assert (Ga : forall b, get_agg s' b = get_agg s b) by (intros; unfold get_agg; rewrite Eag; auto).
  assert (Gx : forall b, get_exit s' b = get_exit s b) by (intros; unfold get_exit; rewrite Eex; auto).
  assert (Hexists : forall b x, getv s b = Some x -> b <> a) by (intros b x Hx ->; congruence).
  constructor.
  - intros b Hb. rewrite Ga. apply H1. intros x Hx. destruct (proj2 (C b (Hexists b x Hx)) x Hx) as [x' [Hx' Ec]].
    rewrite <- (core_status _ _ Ec). apply (Hb x' Hx').
  - intros b x Hx Hs. destruct (N.eq_dec b a) as [->|Hne]; [congruence|].
    destruct (core_rel_rev _ _ _ _ _ C Hne Hx) as [y [Hy Ec]]. cf Ec. rewrite Cc. apply (H2 b y Hy). congruence.
  - destruct H3 as [lr [R A]]. exists lr. split; [apply (RWF_ext s _ lr); auto|]. intros b Hb. destruct (A b Hb) as [x [Hx Hs]].
    destruct (proj2 (C b (Hexists b x Hx)) x Hx) as [x' [Hx' Ec]]. exists x'. split; auto. rewrite (core_status _ _ Ec). auto.
  - intros b c Hg Hc Hb. rewrite Gx in Hg. rewrite Eb in Hb. destruct (H4 b c Hg Hc Hb) as [y [Hy [Hs Hey]]].
    destruct (proj2 (C c (Hexists c y Hy)) y Hy) as [y' [Hy' Ec]]. exists y'. cf Ec. repeat split; congruence.
  - lia.
  - intros b x Hx Hs. destruct (N.eq_dec b a) as [->|Hne]; [destruct status_ne as [N0 _]; congruence|].
    destruct (core_rel_rev _ _ _ _ _ C Hne Hx) as [y [Hy Ec]]. cf Ec.
    destruct (H6 b y Hy) as [W P]; [congruence|]. rewrite Ga. unfold v_multiplier in *. rewrite Cw, Cl, Cp. auto.
  - intros b x Hx Hs. destruct (N.eq_dec b a) as [->|Hne]; [congruence|].
    destruct (core_rel_rev _ _ _ _ _ C Hne Hx) as [y [Hy Ec]]. cf Ec. rewrite Cw. apply (H7 b y Hy). congruence.
  - intros b x Hx Hs. rewrite Ga, Ed. destruct (N.eq_dec b a) as [->|Hne].
    + assert (x = e0) by congruence. subst x. rewrite (H9 a Hn). cbn [a_pv a_pw agg0]. split; auto. split; auto.
      assert (Z : forall k d, In (k, d) (dels s) -> dp_v a d = 0).
      { intros k d Hin. specialize (H10 k d Hin). unfold dp_v. destruct (d_val d =? a) eqn:E; auto.
        apply N.eqb_eq in E. congruence. }
      rewrite (sumf_all_zero (dp_v a) (dels s) Z).
      rewrite (sumf_all_zero (dp_w a) (dels s)); [auto|]. intros k d Hin. apply dp_zero. eauto.
    + destruct (core_rel_rev _ _ _ _ _ C Hne Hx) as [y [Hy Ec]]. cf Ec.
      destruct (H8 b y Hy) as [A1 [A2 [A3 A4]]]; [congruence|]. rewrite Cl, Cq, Cp. tauto.
  - intros b Hb. rewrite Ga. apply H9. destruct (getv s b) as [y|] eqn:Ey; auto.
    destruct (proj2 (C b (Hexists b y Ey)) y Ey) as [y' [Hy' _]]. congruence.
  - intros id d Hin. rewrite Ed in Hin. specialize (H10 id d Hin).
    destruct (getv s (d_val d)) as [y|] eqn:Ey; [|congruence]. destruct (proj2 (C _ (Hexists _ y Ey)) y Ey) as [y' [Hy' _]]. congruence.
  - intros b x Hx. destruct (N.eq_dec b a) as [->|Hne]; [assert (x = e0) by congruence; subst; auto|].
    destruct (core_rel_rev _ _ _ _ _ C Hne Hx) as [y [Hy Ec]]. rewrite (core_status _ _ Ec). eauto.
Qed.
