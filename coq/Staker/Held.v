(* Staker/Held.v — what a validation holds (locked + queued + cooldown + withdrawable) and what a delegation still has at
   stake, with the frame lemmas for the primitive state updates. *)
From Coq Require Import List NArith Bool Lia.
From Coq Require Import ZifyN ZifyNat ZifyBool.
From Verif Require Import Common.Util Staker.Model Staker.Base Staker.Lists Staker.Inv Staker.ProofsUser Staker.ProofsHist.
Import ListNotations.
Open Scope N_scope.

Opaque e18 two64.

Definition held_by (s : st) (a : N) : N := match getv s a with Some v => held v | None => 0 end.
Definition stake_of (s : st) (id : N) : N := match get (dels s) id with Some d => d_stake d | None => 0 end.

Lemma held_by_vals s s' : vals s' = vals s -> forall b, held_by s' b = held_by s b.
Proof. intros E b. unfold held_by, getv. rewrite E. reflexivity. Qed.

Lemma held_by_setv a v s b : held_by (setv a v s) b = if a =? b then held v else held_by s b.
Proof.
  unfold held_by. destruct (a =? b) eqn:E.
  - apply N.eqb_eq in E. subst. rewrite getv_setv_same. reflexivity.
  - apply N.eqb_neq in E. rewrite getv_setv_other; auto.
Qed.

Lemma held_set_prev x v : held (set_prev x v) = held v. Proof. reflexivity. Qed.
Lemma held_set_next x v : held (set_next x v) = held v. Proof. reflexivity. Qed.

Lemma core_held v v' : core v = core v' -> held v = held v'.
Proof. intros H. inversion H. unfold held. congruence. Qed.

Lemma held_by_setv_same_held a v v' s : getv s a = Some v -> held v' = held v -> forall b, held_by (setv a v' s) b = held_by s b.
Proof.
  intros Hv E b. rewrite held_by_setv. destruct (a =? b) eqn:Eb; auto. apply N.eqb_eq in Eb. subst. unfold held_by. rewrite Hv. auto.
Qed.

Lemma held_by_put_ls w l s b : held_by (put_ls w l s) b = held_by s b.
Proof. destruct w; reflexivity. Qed.

Lemma held_by_ren_only s s' : ren_only s s' -> forall b, held_by s' b = held_by s b.
Proof. intros E. apply held_by_vals. rewrite E. reflexivity. Qed.

(* the list operations: other records keep what they hold; the record itself is either left as stored (remove's early
   return) or replaced by the given entry *)
Lemma ll_remove_held w a e s s1 e1 :
  ll_remove w a e s = Ok (s1, e1) ->
  (forall b, b <> a -> held_by s1 b = held_by s b) /\ (held_by s1 a = held_by s a \/ held_by s1 a = held e).
Proof.
  unfold ll_remove. intros H.
  destruct (negb (is_linked e) && (negb (oeqb (l_head (get_ls w s)) (Some a)) || negb (oeqb (l_tail (get_ls w s)) (Some a)))).
  - inversion H; subst. auto.
  - bstep H sa Ha. bstep H sb Hb. bstep H u Hu. inversion H; subst s1 e1; clear H.
    assert (A : forall b, held_by sa b = held_by s b).
    { destruct (v_prev e) as [p|].
      - bstep Ha pe Hpe. apply of_opt_ok in Hpe. inversion Ha; subst. apply held_by_setv_same_held with (v := pe); auto.
      - inversion Ha; subst. intros b. apply held_by_put_ls. }
    assert (B : forall b, held_by sb b = held_by sa b).
    { destruct (v_next e) as [n|].
      - bstep Hb ne Hne. apply of_opt_ok in Hne. inversion Hb; subst. apply held_by_setv_same_held with (v := ne); auto.
      - inversion Hb; subst. intros b. apply held_by_put_ls. }
    split.
    + intros b Hne. rewrite held_by_setv. apply N.eqb_neq in Hne. rewrite N.eqb_sym in Hne. rewrite Hne.
      rewrite held_by_put_ls, B, A. reflexivity.
    + right. rewrite held_by_setv, N.eqb_refl. reflexivity.
Qed.

Lemma ll_add_held w a e s s1 :
  ll_add w a e s = Ok s1 -> (forall b, b <> a -> held_by s1 b = held_by s b) /\ held_by s1 a = held e.
Proof.
  unfold ll_add. intros H. bstep H sb Hb. inversion H; subst s1; clear H.
  assert (B : forall b, held_by sb b = held_by s b).
  { destruct (l_tail (get_ls w s)) as [t|].
    - bstep Hb te Hte. apply of_opt_ok in Hte. inversion Hb; subst. intros b.
      rewrite (held_by_setv_same_held t te _ _ Hte (held_set_next _ _)). apply held_by_put_ls.
    - inversion Hb; subst. intros b. rewrite !held_by_put_ls. reflexivity. }
  split.
  - intros b Hne. rewrite held_by_setv. apply N.eqb_neq in Hne. rewrite N.eqb_sym in Hne. rewrite Hne. rewrite held_by_put_ls. apply B.
  - rewrite held_by_setv, N.eqb_refl. reflexivity.
Qed.

