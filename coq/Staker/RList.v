(* Staker/RList.v — the renewal list (renewal_list.go): abstraction as a Coq list and specifications of
   rl_contains / rl_add / rl_remove / rl_walk against it. *)
From Coq Require Import List NArith Bool Lia.
From Coq Require Import ZifyN ZifyNat ZifyBool.
From Verif Require Import Common.Util Staker.Model Staker.Base Staker.Lists.
Import ListNotations.
Open Scope N_scope.

Lemma mget_upd m k k' v : mget (upd m k v) k' = if k =? k' then v else mget m k'.
Proof. unfold mget. rewrite get_upd. destruct (k =? k'); reflexivity. Qed.

(* rseg pv nx p h l e : following next from h visits l, each nonzero, prev pointers consistent, next after the last is e *)
Fixpoint rseg (pv nx : list (N * N)) (p h : N) (l : list N) (e : N) : Prop :=
  match l with
  | [] => h = e
  | a :: t => h = a /\ a <> 0 /\ mget pv a = p /\ rseg pv nx a (mget nx a) t e
  end.

Definition last_orN (p : N) (l : list N) : N := match l with [] => p | _ => last l 0 end.
Lemma last_orN_cons p a t : last_orN p (a :: t) = last_orN a t.
Proof. destruct t; reflexivity. Qed.
Lemma last_orN_app p l1 l2 : last_orN p (l1 ++ l2) = last_orN (last_orN p l1) l2.
Proof. revert p. induction l1 as [|a t IH]; intros p; cbn [app]; auto. rewrite last_orN_cons, IH, last_orN_cons. auto. Qed.
Lemma last_orN_snoc p l x : last_orN p (l ++ [x]) = x.
Proof. rewrite last_orN_app. reflexivity. Qed.

Lemma rseg_app pv nx p h l1 l2 e :
  rseg pv nx p h (l1 ++ l2) e <-> exists m, rseg pv nx p h l1 m /\ rseg pv nx (last_orN p l1) m l2 e.
Proof.
  revert p h. induction l1 as [|a t IH]; intros p h; cbn [app rseg].
  - split; [intros H; exists h; auto|intros [m [-> H]]; auto].
  - split.
    + intros [-> [Hz [Hp H]]]. apply IH in H as [m [H1 H2]]. exists m. rewrite last_orN_cons. auto.
    + intros [m [[-> [Hz [Hp H1]]] H2]]. repeat split; auto. apply IH. exists m. rewrite last_orN_cons in H2. auto.
Qed.

Lemma rseg_frame pv nx pv' nx' p h l e :
  rseg pv nx p h l e -> (forall a, In a l -> mget pv' a = mget pv a /\ mget nx' a = mget nx a) -> rseg pv' nx' p h l e.
Proof.
  revert p h. induction l as [|a t IH]; intros p h H F; cbn in *; auto.
  destruct H as [-> [Hz [Hp H]]]. destruct (F a (or_introl eq_refl)) as [E1 E2].
  repeat split; auto; try congruence. rewrite E2. apply IH; auto.
Qed.

Lemma rseg_nz pv nx p h l e a : rseg pv nx p h l e -> In a l -> a <> 0.
Proof.
  revert p h. induction l as [|b t IH]; intros p h H Hin; [contradiction|].
  destruct H as [_ [Hz [_ H]]]. destruct Hin as [<-|Hin]; eauto.
Qed.

Record RWF (s : st) (l : list N) : Prop := mkRWF {
  rw_seg : rseg (rprev s) (rnext s) 0 (rh s) l 0;
  rw_tail : rt s = last_orN 0 l;
  rw_nodup : NoDup l;
  rw_out : forall a, ~ In a l -> mget (rprev s) a = 0 /\ mget (rnext s) a = 0 }.

Lemma RWF_nz s l a : RWF s l -> In a l -> a <> 0.
Proof. intros H. eapply rseg_nz. apply (rw_seg _ _ H). Qed.

Lemma rseg_split_at pv nx p h l1 a l2 e :
  rseg pv nx p h (l1 ++ a :: l2) e ->
  a <> 0 /\ mget pv a = last_orN p l1 /\ rseg pv nx p h l1 a /\ rseg pv nx a (mget nx a) l2 e.
Proof. intros H. apply rseg_app in H as [m [H1 H2]]. cbn in H2. destruct H2 as [-> [Hz [Hp H2]]]. auto. Qed.

Lemma rseg_head_next pv nx p h n t e : rseg pv nx p h (n :: t) e -> h = n /\ n <> 0.
Proof. intros [-> [Hz _]]. auto. Qed.

(* membership test of the code = membership in the abstract list *)
Lemma rl_contains_iff s l k : RWF s l -> k <> 0 -> (rl_contains k s = true <-> In k l).
Proof.
  intros [Hseg Htail Hnd Hout] Hk. unfold rl_contains. apply N.eqb_neq in Hk. rewrite Hk.
  split.
  - intros H. destruct (in_dec N.eq_dec k l) as [Hin|Hn]; auto. exfalso.
    destruct (Hout k Hn) as [_ E]. rewrite E in H. cbn in H. apply N.eqb_eq in H. rewrite Htail in H.
    destruct (snoc_case l) as [->|[l' [x ->]]].
    + cbn in H. subst k. discriminate.
    + rewrite last_orN_snoc in H. subst x. apply Hn, in_or_app. right; left; auto.
  - intros Hin. apply in_split in Hin as [l1 [l2 ->]].
    destruct (rseg_split_at _ _ _ _ _ _ _ _ Hseg) as [_ [_ [_ H2]]].
    destruct l2 as [|n t].
    + rewrite Htail, last_orN_snoc. cbn in H2. rewrite H2. cbn. apply N.eqb_refl.
    + destruct (rseg_head_next _ _ _ _ _ _ _ H2) as [E Hz]. rewrite E. apply N.eqb_neq in Hz. rewrite Hz. reflexivity.
Qed.

Lemma rseg_set_last_next pv nx p h l b e x :
  rseg pv nx p h (l ++ [b]) e -> ~ In b l -> rseg pv (upd nx b x) p h (l ++ [b]) x.
Proof.
  intros H Hn. apply rseg_app in H as [m [H1 H2]]. apply rseg_app. exists m. split.
  - eapply rseg_frame; eauto. intros a Ha. split; auto. rewrite mget_upd.
    destruct (b =? a) eqn:E; auto. apply N.eqb_eq in E. subst. contradiction.
  - cbn in *. destruct H2 as [-> [Hz [Hp _]]]. repeat split; auto. rewrite mget_upd, N.eqb_refl. auto.
Qed.

Lemma rseg_set_first_prev pv nx p h n t e x :
  rseg pv nx p h (n :: t) e -> ~ In n t -> rseg (upd pv n x) nx x h (n :: t) e.
Proof.
  intros [-> [Hz [Hp H]]] Hn. repeat split; auto. { rewrite mget_upd, N.eqb_refl. auto. }
  eapply rseg_frame; eauto. intros a Ha. split; auto. rewrite mget_upd.
  destruct (n =? a) eqn:E; auto. apply N.eqb_eq in E. subst. contradiction.
Qed.

(* ------------------------------------------------------------------ rl_add *)

Lemma rl_add_member s l k : RWF s l -> (k = 0 \/ In k l) -> rl_add k s = s.
Proof.
  intros H [->|Hin]; unfold rl_add; [reflexivity|].
  assert (Hk : k <> 0) by (eapply RWF_nz; eauto). apply N.eqb_neq in Hk as Hk'. rewrite Hk'.
  rewrite (proj2 (rl_contains_iff s l k H Hk) Hin). reflexivity.
Qed.

Lemma rl_add_new s l k : RWF s l -> k <> 0 -> ~ In k l -> RWF (rl_add k s) (l ++ [k]).
Proof.
  intros H Hk Hn. pose proof H as [Hseg Htail Hnd Hout]. unfold rl_add.
  apply N.eqb_neq in Hk as Hk'. rewrite Hk'.
  destruct (rl_contains k s) eqn:Ec; [apply (rl_contains_iff s l k H Hk) in Ec; contradiction|].
  destruct (Hout k Hn) as [Pk Nk].
  assert (NDk : NoDup (l ++ [k])).
  { clear - Hnd Hn. induction l as [|x t IH]; cbn; [constructor; [intros []|constructor]|].
    inversion Hnd; subst. constructor; [rewrite in_app_iff; cbn; intros [?|[?|[]]]; auto; subst; apply Hn; left; auto|].
    apply IH; auto. intros ?. apply Hn. right; auto. }
  destruct (snoc_case l) as [->|[l' [t ->]]].
  - cbn in Htail. rewrite Htail. cbn [N.eqb]. constructor; cbn; auto.
  - rewrite last_orN_snoc in Htail.
    assert (Ht : t <> 0) by (eapply RWF_nz; eauto; apply in_or_app; right; left; auto).
    apply N.eqb_neq in Ht as Ht'. rewrite Htail, Ht'.
    apply not_in_app in Hn as [Hn1 Hn2]. assert (Htk : t <> k) by (intros ->; apply Hn2; left; auto).
    assert (Hnt : ~ In t l') by (apply NoDup_remove_2 in Hnd; rewrite app_nil_r in Hnd; auto).
    constructor; cbn [rh rt rprev rnext w_ren].
    + apply rseg_app. exists k. split.
      * eapply rseg_frame; [eapply rseg_set_last_next; eauto|]. intros a Ha. split; auto.
        rewrite mget_upd. destruct (k =? a) eqn:E; auto. apply N.eqb_eq in E. subst a.
        exfalso. apply in_app_iff in Ha as [Ha|[Ha|[]]]; auto.
      * rewrite last_orN_snoc. cbn. repeat split; auto.
        -- rewrite mget_upd, N.eqb_refl. auto.
        -- rewrite mget_upd. apply N.eqb_neq in Htk. rewrite Htk. auto.
    + rewrite last_orN_snoc. auto.
    + auto.
    + intros a Ha. apply not_in_app in Ha as [Ha1 Ha2]. apply not_in_app in Ha1 as [Ha1 Ha1'].
      assert (a <> k) by (intros ->; apply Ha2; left; auto). assert (a <> t) by (intros ->; apply Ha1'; left; auto).
      rewrite !mget_upd. apply N.eqb_neq in H0, H1. rewrite N.eqb_sym in H0. rewrite N.eqb_sym in H1. rewrite H0, H1.
      apply Hout. intros Hx. apply in_app_iff in Hx as [Hx|[Hx|[]]]; auto. apply N.eqb_neq in H1. auto.
Qed.

(* ------------------------------------------------------------------ rl_remove *)

Lemma rl_remove_nonmember s l k : RWF s l -> ~ In k l -> rl_remove k s = s.
Proof.
  intros H Hn. unfold rl_remove. destruct (k =? 0) eqn:Ek; auto. apply N.eqb_neq in Ek.
  destruct (rl_contains k s) eqn:Ec; auto. apply (rl_contains_iff s l k H Ek) in Ec. contradiction.
Qed.

Lemma rl_remove_member s l k : RWF s l -> In k l ->
  exists l1 l2, l = l1 ++ k :: l2 /\ RWF (rl_remove k s) (l1 ++ l2) /\ ~ In k (l1 ++ l2).
Proof.
  intros H Hin. pose proof H as [Hseg Htail Hnd Hout].
  assert (Hk : k <> 0) by (eapply RWF_nz; eauto).
  destruct (in_split_nodup k l Hin Hnd) as [l1 [l2 [-> [Hn1 [Hn2 [Hnd12 Hdisj]]]]]].
  exists l1, l2. split; auto. split; [|rewrite in_app_iff; tauto].
  destruct (rseg_split_at _ _ _ _ _ _ _ _ Hseg) as [_ [Hp [Hs1 Hs2]]].
  unfold rl_remove. apply N.eqb_neq in Hk as Hk'. rewrite Hk'.
  rewrite (proj2 (rl_contains_iff s _ k H Hk) Hin). cbn [negb].
  set (p := mget (rprev s) k) in *. set (n := mget (rnext s) k) in *.
  (* the early return is not taken *)
  assert (Hgo : (p =? 0) && (n =? 0) && (negb (rh s =? k) || negb (rt s =? k)) = false).
  { destruct (p =? 0) eqn:E1; [|reflexivity]. destruct (n =? 0) eqn:E2; [|reflexivity]. cbn.
    apply N.eqb_eq in E1, E2. 
    assert (l1 = []).
    { destruct (snoc_case l1) as [->|[l' [x ->]]]; auto. rewrite last_orN_snoc in Hp.
      exfalso. assert (x <> 0) by (eapply (RWF_nz s); eauto; apply in_or_app; left; apply in_or_app; right; left; auto). congruence. }
    assert (l2 = []).
    { destruct l2 as [|y t]; auto. destruct (rseg_head_next _ _ _ _ _ _ _ Hs2) as [Ey Hy]. congruence. }
    subst. cbn in Hs1, Htail. rewrite Hs1, Htail, N.eqb_refl. reflexivity. }
  rewrite Hgo. clear Hgo.
  assert (Hl1 : l1 = [] /\ p = 0 \/ exists l1' x, l1 = l1' ++ [x] /\ p = x /\ x <> 0 /\ x <> k /\ ~ In x l1' /\ ~ In x l2).
  { destruct (snoc_case l1) as [->|[l' [x ->]]]; [left; auto|right].
    rewrite last_orN_snoc in Hp. exists l', x. split; auto. split; auto.
    assert (In x (l' ++ [x])) by (apply in_or_app; right; left; auto).
    split; [eapply (RWF_nz s); eauto; apply in_or_app; left; auto|].
    split; [intros ->; auto|]. split; [|apply Hdisj; auto].
    apply nodup_app_l in Hnd12. apply NoDup_remove_2 in Hnd12. rewrite app_nil_r in Hnd12. auto. }
  assert (Hl2 : l2 = [] /\ n = 0 \/ exists y t, l2 = y :: t /\ n = y /\ y <> 0 /\ y <> k /\ ~ In y l1 /\ ~ In y t).
  { destruct l2 as [|y t]; [left; cbn in Hs2; auto|right].
    destruct (rseg_head_next _ _ _ _ _ _ _ Hs2) as [Ey Hy]. exists y, t. split; auto. split; auto. split; auto.
    split; [intros ->; apply Hn2; left; auto|]. split; [intros Hx; apply (Hdisj y Hx); left; auto|].
    apply nodup_app_r in Hnd12. inversion Hnd12; auto. }
  destruct Hl1 as [[-> Ep]|[l1' [x [-> [Ep [Hx0 [Hxk [Hxl Hx2]]]]]]]];
  destruct Hl2 as [[-> En]|[y [t [-> [En [Hy0 [Hyk [Hy1 Hyt]]]]]]]]; rewrite Ep, En in *; clear Ep En.
  - (* only element *)
    cbn [N.eqb]. constructor; cbn; auto.
    intros a _. rewrite !mget_upd. destruct (k =? a) eqn:E; auto. apply N.eqb_neq in E.
    apply Hout. intros [<-|[]]. congruence.
  - (* head, with successor y *)
    cbn [N.eqb]. apply N.eqb_neq in Hy0 as Hy0'. rewrite Hy0'.
    constructor; cbn [rh rt rprev rnext w_ren app].
    + eapply rseg_frame with (pv := upd (rprev s) y 0) (nx := rnext s).
      * eapply rseg_set_first_prev; eauto.
      * intros a Ha. rewrite !mget_upd. assert (k <> a) by (intros ->; apply Hn2; auto).
        apply N.eqb_neq in H0. rewrite H0. auto.
    + rewrite Htail. cbn [app]. rewrite !last_orN_cons. reflexivity.
    + auto.
    + intros a Ha. rewrite !mget_upd. destruct (k =? a) eqn:E; [split; auto; destruct (y =? a); auto|].
      apply N.eqb_neq in E. assert (y <> a) by (intros ->; apply Ha; left; auto). apply N.eqb_neq in H0. rewrite H0.
      apply Hout. intros [<-|Hx]; [congruence|auto].
  - (* tail, with predecessor x *)
    apply N.eqb_neq in Hx0 as Hx0'. rewrite Hx0'. cbn [N.eqb].
    constructor; cbn [rh rt rprev rnext w_ren]; rewrite ?app_nil_r in *.
    + eapply rseg_frame with (pv := rprev s) (nx := upd (rnext s) x 0).
      * eapply rseg_set_last_next; eauto.
      * intros a Ha. rewrite !mget_upd. assert (k <> a) by (intros ->; auto).
        apply N.eqb_neq in H0. rewrite H0. auto.
    + rewrite last_orN_snoc. auto.
    + auto.
    + intros a Ha. rewrite !mget_upd. destruct (k =? a) eqn:E; [split; auto|].
      apply N.eqb_neq in E. assert (x <> a) by (intros ->; apply Ha, in_or_app; right; left; auto). apply N.eqb_neq in H0. rewrite H0.
      apply Hout. intros Hz. apply in_app_iff in Hz as [Hz|[<-|[]]]; auto; congruence.
  - (* middle *)
    apply N.eqb_neq in Hx0 as Hx0'. apply N.eqb_neq in Hy0 as Hy0'. rewrite Hx0', Hy0'.
    constructor; cbn [rh rt rprev rnext w_ren].
    + apply rseg_app. exists y. split.
      * eapply rseg_frame with (pv := rprev s) (nx := upd (rnext s) x y).
        -- eapply rseg_set_last_next; eauto.
        -- intros a Ha. rewrite !mget_upd. assert (k <> a) by (intros ->; auto). assert (y <> a) by (intros ->; auto).
           apply N.eqb_neq in H0, H1. rewrite H0, H1. auto.
      * rewrite last_orN_snoc. eapply rseg_frame with (pv := upd (rprev s) y x) (nx := rnext s).
        -- eapply rseg_set_first_prev; eauto.
        -- intros a Ha. rewrite !mget_upd. assert (k <> a) by (intros ->; apply Hn2; auto).
           assert (x <> a) by (intros ->; auto). apply N.eqb_neq in H0, H1. rewrite H0, H1. auto.
    + rewrite Htail. rewrite !last_orN_app. cbn [app]. rewrite !last_orN_cons. reflexivity.
    + auto.
    + intros a Ha. rewrite !mget_upd. destruct (k =? a) eqn:E; [split; auto|].
      apply N.eqb_neq in E.
      assert (x <> a) by (intros ->; apply Ha, in_or_app; left; apply in_or_app; right; left; auto).
      assert (y <> a) by (intros ->; apply Ha, in_or_app; right; left; auto).
      apply N.eqb_neq in H0, H1. rewrite H0, H1. apply Hout. intros Hz.
      apply in_app_iff in Hz as [Hz|[<-|Hz]]; [|congruence|]; apply Ha, in_or_app; auto.
Qed.

(* ------------------------------------------------------------------ iteration *)

Lemma rl_walk_rseg s p h l fuel r :
  rseg (rprev s) (rnext s) p h l 0 -> rl_walk fuel h s = Ok r -> r = l.
Proof.
  revert p h l r. induction fuel as [|f IH]; intros p h l r Hs Hw.
  - cbn in Hw. destruct (h =? 0) eqn:E; [|discriminate]. inversion Hw; subst. apply N.eqb_eq in E. subst.
    destruct l; auto. cbn in Hs. destruct Hs as [<- [Hz _]]. congruence.
  - cbn in Hw. destruct (h =? 0) eqn:E.
    + inversion Hw; subst. apply N.eqb_eq in E. subst. destruct l; auto. cbn in Hs. destruct Hs as [<- [Hz _]]. congruence.
    + apply N.eqb_neq in E. destruct l as [|a t]; [cbn in Hs; congruence|].
      cbn in Hs. destruct Hs as [-> [Hz [Hp Hs]]].
      apply bind_ok in Hw as [r' [Hr Hw]]. inversion Hw; subst. f_equal. eapply IH; eauto.
Qed.

Lemma rl_iterate_spec s l r : RWF s l -> rl_iterate s = Ok r -> r = l.
Proof. intros [Hs _ _ _] H. unfold rl_iterate in H. eapply rl_walk_rseg; eauto. Qed.

(* ------------------------------------------------------------------ the iteration fuel of the model is sufficient *)

Lemma rl_walk_ok s p h l fuel :
  rseg (rprev s) (rnext s) p h l 0 -> (length l <= fuel)%nat -> rl_walk fuel h s = Ok l.
Proof.
  revert p h fuel. induction l as [|a t IH]; intros p h fuel Hs Hf.
  - cbn in Hs. subst h. destruct fuel; reflexivity.
  - cbn in Hs. destruct Hs as [-> [Hz [Hp Hs]]]. destruct fuel as [|f]; [cbn in Hf; lia|].
    cbn [rl_walk]. apply N.eqb_neq in Hz. rewrite Hz. rewrite (IH a (mget (rnext s) a) f Hs); [reflexivity|cbn in Hf; lia].
Qed.

Lemma mget_nonzero_key m k : mget m k <> 0 -> In k (map fst m).
Proof.
  unfold mget. induction m as [|[k0 v0] t IH]; cbn; [congruence|]. destruct (k0 =? k) eqn:E.
  - apply N.eqb_eq in E. auto.
  - intros H. right. apply IH. exact H.
Qed.

Lemma rl_iterate_ok s l : RWF s l -> rl_iterate s = Ok l.
Proof.
  intros [Hseg Htail Hnd Hout]. unfold rl_iterate. eapply rl_walk_ok; eauto.
  destruct (snoc_case l) as [->|[l' [x ->]]]; [cbn; lia|].
  rewrite app_length. cbn [length].
  assert (Hl : (length l' <= length (map fst (rnext s)))%nat).
  { apply NoDup_incl_length; [apply nodup_app_l in Hnd; auto|].
    intros a Ha. apply mget_nonzero_key. apply in_split in Ha as [l1 [l2 ->]].
    rewrite <- app_assoc in Hseg. cbn [app] in Hseg.
    destruct (rseg_split_at _ _ _ _ _ _ _ _ Hseg) as [_ [_ [_ H2]]].
    destruct (l2 ++ [x]) as [|y t] eqn:E; [destruct l2; discriminate|].
    destruct (rseg_head_next _ _ _ _ _ _ _ H2) as [Ey Hy]. congruence. }
  rewrite map_length in Hl. lia.
Qed.
