(* Staker/ProofsEpoch.v — the epoch-boundary step (housekeeping: renewals, the scheduled exit, evictions, activations;
   the PoA->PoS transition) preserves all invariants. *)
From Coq Require Import List NArith Bool Lia.
From Coq Require Import ZifyN ZifyNat ZifyBool.
From Verif Require Import Common.Util Staker.Model Staker.Base Staker.Lists Staker.Inv Staker.RList Staker.Inv2
  Staker.ProofsStep Staker.ProofsUser Staker.ProofsUser2 Staker.ProofsHist Staker.Held.
Import ListNotations.
Open Scope N_scope.

Opaque e18 two64.

(* ------------------------------------------------------------------ Inv2 without the total-weight equation *)

Definition fixw (s : st) : st := w_glob (g_lv s) (sumf v_weight (vals s)) (g_q s) (g_wd s) (g_cd s) s.
Definition Inv2' (s : st) : Prop := Inv2 (fixw s).

Lemma Inv2_split s : Inv2 s <-> Inv2' s /\ g_lw s = sumf v_weight (vals s).
Proof.
  split.
  - intros H. split; [|apply (j_lw _ H)]. apply (Inv2_ext s); auto. unfold fixw. repeat split. cbn. symmetry. apply (j_lw _ H).
  - intros [H E]. apply (Inv2_ext (fixw s)); auto. unfold fixw. repeat split. cbn. auto.
Qed.

Lemma Inv2'_ext s s' :
  vals s' = vals s -> aggs s' = aggs s -> dels s' = dels s -> rh s' = rh s -> rt s' = rt s -> rprev s' = rprev s ->
  rnext s' = rnext s -> exits s' = exits s -> blk s' = blk s -> Inv2' s -> Inv2' s'.
Proof.
  intros E1 E2 E3 E4 E5 E6 E7 E8 E9 H. unfold Inv2' in *. apply (Inv2_ext (fixw s)); auto.
  unfold fixw. repeat split; cbn; auto. rewrite E1. reflexivity.
Qed.

(* the record and the aggregation of an ACTIVE validator are rewritten (renewal): status, exit block, cooldown kept;
   the new weight is consistent with the new locked stake and the new aggregation *)
Lemma Inv2'_active_upd s a v v' x :
  Inv2' s -> getv s a = Some v -> v_status v = StatusActive ->
  v_status v' = v_status v -> v_exit v' = v_exit v -> v_cooldown v' = v_cooldown v ->
  v_weight v' = calc_weight (v_locked v') (v_multiplier v') + a_lw x -> v_punlock v' + 1 <= v_locked v' ->
  Inv2' (set_agg a x (setv a v' s)).
Proof.
  unfold Inv2'. intros [H1 H2 H3 H4 H5 H6 H7 H8 H9 H10 H11] Hv Hact Es Ex Ec Ew Ep.
  set (s' := set_agg a x (setv a v' s)).
  assert (Gv0 : forall b, getv (fixw s) b = getv s b) by reflexivity.
  assert (Gv : forall b y, getv (fixw s') b = Some y -> (b = a /\ y = v') \/ (b <> a /\ getv s b = Some y)).
  { intros b y Hy. change (getv (fixw s') b) with (getv (setv a v' s) b) in Hy. destruct (N.eq_dec a b) as [<-|Hne].
    - rewrite getv_setv_same in Hy. inversion Hy; auto.
    - rewrite getv_setv_other in Hy by auto. right; auto. }
  assert (Ga : forall b, get_agg (fixw s') b = if a =? b then x else get_agg s b).
  { intros b. change (get_agg (fixw s') b) with (get_agg (set_agg a x (setv a v' s)) b). rewrite get_agg_set_agg2. reflexivity. }
  constructor.
  - intros b Hn. rewrite Ga. destruct (a =? b) eqn:E.
    + apply N.eqb_eq in E. subst b. exfalso. apply (Hn v'); [|congruence].
      change (getv (fixw s') a) with (getv (setv a v' s) a). apply getv_setv_same.
    + apply N.eqb_neq in E. apply (H1 b). intros y Hy. apply (Hn y).
      change (getv (fixw s') b) with (getv (setv a v' s) b). rewrite getv_setv_other by auto. exact Hy.
  - intros b y Hy Hs. destruct (Gv b y Hy) as [[-> ->]|[Hne Hb]]; [|apply (H2 b y Hb Hs)].
    rewrite Ec. apply (H2 a v Hv). congruence.
  - destruct H3 as [lr [R A]]. exists lr. split; [apply (RWF_ext (fixw s) _ lr); try reflexivity; exact R|].
    intros b Hb. destruct (A b Hb) as [y [Hy Hs]]. change (getv (fixw s') b) with (getv (setv a v' s) b).
    destruct (N.eq_dec a b) as [<-|Hne].
    + exists v'. rewrite getv_setv_same. split; auto. congruence.
    + exists y. rewrite getv_setv_other by auto. auto.
  - intros b c Hg Hc Hb. destruct (H4 b c Hg Hc Hb) as [y [Hy [Hs He]]].
    change (getv (fixw s') c) with (getv (setv a v' s) c). destruct (N.eq_dec a c) as [<-|Hne].
    + rewrite Gv0, Hv in Hy. inversion Hy; subst y. exists v'. rewrite getv_setv_same. repeat split; congruence.
    + exists y. rewrite getv_setv_other by auto. auto.
  - reflexivity.
  - intros b y Hy Hs. rewrite Ga. destruct (Gv b y Hy) as [[-> ->]|[Hne Hb]].
    + rewrite N.eqb_refl. auto.
    + assert (E : (a =? b) = false) by (apply N.eqb_neq; auto). rewrite E. apply (H6 b y Hb Hs).
  - intros b y Hy Hs. destruct (Gv b y Hy) as [[-> ->]|[Hne Hb]]; [congruence|apply (H7 b y Hb Hs)].
  - intros b y Hy Hs. destruct (Gv b y Hy) as [[-> ->]|[Hne Hb]].
    + exfalso. rewrite Es, Hact in Hs. discriminate.
    + rewrite Ga. assert (E : (a =? b) = false) by (apply N.eqb_neq; auto). rewrite E. apply (H8 b y Hb Hs).
  - intros b Hb. rewrite Ga. change (getv (fixw s') b) with (getv (setv a v' s) b) in Hb. destruct (N.eq_dec a b) as [<-|Hne].
    + rewrite getv_setv_same in Hb. discriminate.
    + assert (E : (a =? b) = false) by (apply N.eqb_neq; auto). rewrite E. rewrite getv_setv_other in Hb by auto. apply (H9 b Hb).
  - intros id d Hin. specialize (H10 id d Hin). change (getv (fixw s') (d_val d)) with (getv (setv a v' s) (d_val d)).
    destruct (N.eq_dec a (d_val d)) as [<-|Hne]; [rewrite getv_setv_same; discriminate|rewrite getv_setv_other by auto; exact H10].
  - intros b y Hy. destruct (Gv b y Hy) as [[-> ->]|[Hne Hb]]; [rewrite Es; apply (H11 a v Hv)|apply (H11 b y Hb)].
Qed.

(* ------------------------------------------------------------------ the renewal loop *)

Record LoopInv (acc : renewal) (s : st) (la lq : list N) : Prop := mkLoop {
  li_wf : WF s la lq; li_a : InvA s; li_2 : Inv2' s;
  li_lv : g_lv s + r_inc_v acc = sumf v_locked (vals s) + sumf a_lv (aggs s) + r_dec_v acc;
  li_q : g_q s = sumf v_queued (vals s) + sumf a_pv (aggs s) + r_qdec acc;
  li_cd : g_cd s = sumf v_cooldown (vals s);
  li_wd : g_wd s + sumf a_lv (aggs s) + sumf a_pv (aggs s) + r_dec_v acc = sumf v_withdrawable (vals s) + sumf d_stake (dels s);
  li_eff : eff s = (g_lv s + g_q s + g_wd s + g_cd s) * e18;
  li_bal : eff s <= bal s;
  li_ctr : forall id d, get (dels s) id = Some d -> id <= del_ctr s;
  li_lw : g_lw s + r_inc_w acc = sumf v_weight (vals s) + r_dec_w acc;
  li_iq : r_inc_v acc = r_qdec acc }.

Lemma renewal_add_ok r o r' : renewal_add r o = Ok r' ->
  r_inc_v r' = r_inc_v r + r_inc_v o /\ r_inc_w r' = r_inc_w r + r_inc_w o /\ r_dec_v r' = r_dec_v r + r_dec_v o /\
  r_dec_w r' = r_dec_w r + r_dec_w o /\ r_qdec r' = r_qdec r + r_qdec o.
Proof.
  unfold renewal_add. intros H. bstep H i Hi. destruct i as [iv iw]. bstep H d Hd. destruct d as [dv dw]. bstep H q Hq.
  inversion H; subst; cbn. apply ws_add_ok in Hi, Hd. cbn in Hi, Hd. gfacts. intuition.
Qed.

Lemma InvA_frame2 s s' :
  InvA s -> links_status_kept s s' ->
  (forall a, (forall v, getv s a = Some v -> v_status v <> StatusActive) -> a_lv (get_agg s' a) = a_lv (get_agg s a)) -> InvA s'.
Proof.
  intros H [K1 K2] Ea a Hna.
  assert (Hs : forall v, getv s a = Some v -> v_status v <> StatusActive).
  { intros v Hv. destruct (K1 a v Hv) as [v' [Hv' [_ [_ Es]]]]. rewrite <- Es. apply (Hna v' Hv'). }
  rewrite (Ea a Hs). apply H; auto.
Qed.

Lemma rl_remove_fixw a s : fixw (rl_remove a s) = rl_remove a (fixw s).
Proof.
  unfold rl_remove, rl_contains. cbn [rnext rprev rh rt fixw w_glob].
  repeat match goal with |- context [if ?c then _ else _] => destruct c end; reflexivity.
Qed.

Lemma Inv2'_rl_remove a s : Inv2' s -> Inv2' (rl_remove a s).
Proof. unfold Inv2'. intros H. rewrite rl_remove_fixw. apply Inv2_rl_remove; auto. Qed.

Lemma renew_step acc s la lq a v s1 ar dw acc1 s2 vr acc2 :
  LoopInv acc s la lq -> getv s a = Some v -> v_status v = StatusActive ->
  aggs_renew a s = Ok (s1, ar, dw) -> renewal_add acc ar = Ok acc1 ->
  svc_renew a dw s1 = Ok (s2, vr) -> renewal_add acc1 vr = Ok acc2 ->
  LoopInv acc2 (rl_remove a s2) la lq /\
  (forall b, b <> a -> getv (rl_remove a s2) b = getv s b) /\
  (exists v2, getv (rl_remove a s2) a = Some v2 /\ v_status v2 = StatusActive /\ v_exit v2 = v_exit v /\ held v2 = held v).
Proof.
  intros [Hwf HA H2 L1 L2 L3 L4 L5 L6 L7 L8 L9] Hv Hact Hag Hacc1 Hsv Hacc2.
  (* aggregation *)
  unfold aggs_renew, agg_renew in Hag. bstep Hag r0 Hr0. destruct r0 as [a' ar0].
  bstep Hr0 l1 Hl1. destruct l1 as [lv lw]. bstep Hr0 l2 Hl2. destruct l2 as [lv2 lw2].
  inversion Hr0; subst a' ar0; clear Hr0. inversion Hag; subst s1 ar dw; clear Hag.
  apply ws_add_ok in Hl1. apply ws_sub_ok in Hl2. cbn [fst snd] in Hl1, Hl2.
  destruct Hl1 as [Elv Elw]. destruct Hl2 as [Elv2 [Elw2 [Lev Lew]]].
  set (ag := get_agg s a) in *. set (a' := mkA lv2 lw2 0 0 0 0) in *.
  (* validation *)
  unfold svc_renew in Hsv. bstep Hsv v0 Hv0. unfold get_existing in Hv0. apply of_opt_ok in Hv0.
  change (getv (set_agg a a' s) a) with (getv s a) in Hv0. assert (v0 = v) by congruence. subst v0.
  bstep Hsv r1 Hr1. destruct r1 as [v1 vr1]. inversion Hsv; subst s2 vr; clear Hsv.
  unfold v_renew in Hr1. bstep Hr1 l1 Hl1. apply of_opt_ok, safe_sub_some in Hl1. destruct Hl1 as [El1 Lpu].
  inversion Hr1; subst v1 vr1; clear Hr1. cbn [a_lw a'] in *.
  set (prevw := calc_weight (v_locked v) (v_multiplier v)) in *.
  set (mult' := if 0 <? lw2 then MultiplierWithDelegations else Multiplier) in *.
  set (afterw := calc_weight l1 mult') in *.
  set (v1 := set_amounts l1 0 0 (v_cooldown v) (v_withdrawable v + v_punlock v) (afterw + lw2) v) in *.
  destruct (renewal_add_ok _ _ _ Hacc1) as [A1 [A2 [A3 [A4 A5]]]]. cbn [r_inc_v r_inc_w r_dec_v r_dec_w r_qdec] in A1, A2, A3, A4, A5.
  destruct (renewal_add_ok _ _ _ Hacc2) as [B1 [B2 [B3 [B4 B5]]]]. cbn [r_inc_v r_inc_w r_dec_v r_dec_w r_qdec] in B1, B2, B3, B4, B5.
  (* the old weight *)
  destruct (j_w1 _ H2 a v Hv Hact) as [Wold Pold]. change (get_agg (fixw s) a) with ag in Wold. fold prevw in Wold.
  set (s2 := setv a v1 (set_agg a a' s)) in *.
  assert (Es2 : s2 = set_agg a a' (setv a v1 s)) by reflexivity.
  assert (K : links_status_kept s s2).
  { apply (kept_trans _ (setv a v1 s)); [apply kept_setv with (v := v); auto|apply kept_same_vals; reflexivity]. }
  (* sums *)
  pose proof (sum_setv v_locked a v v1 s Hv) as S1. pose proof (sum_setv v_queued a v v1 s Hv) as S2.
  pose proof (sum_setv v_cooldown a v v1 s Hv) as S3. pose proof (sum_setv v_withdrawable a v v1 s Hv) as S4.
  pose proof (sum_setv v_weight a v v1 s Hv) as S5.
  pose proof (sum_set_agg a_lv a a' s eq_refl) as G1. pose proof (sum_set_agg a_pv a a' s eq_refl) as G2.
  fold ag in G1, G2. cbn [v1 a' v_locked v_queued v_cooldown v_withdrawable v_weight set_amounts a_lv a_pv vals aggs setv set_agg w_vals w_aggs] in S1, S2, S3, S4, S5, G1, G2.
  assert (Hmult : v_weight v1 = calc_weight (v_locked v1) (v_multiplier v1) + lw2 /\ v_punlock v1 + 1 <= v_locked v1).
  { cbn [v1 v_weight v_locked v_punlock set_amounts]. split; [|lia]. unfold v_multiplier. cbn [v1 v_weight v_locked set_amounts].
    unfold afterw, mult', Multiplier, MultiplierWithDelegations. destruct (0 <? lw2) eqn:E.
    - apply N.ltb_lt in E. rewrite calc_200.
      destruct (2 * l1 + lw2 =? l1) eqn:E2; [apply N.eqb_eq in E2; lia|]. rewrite calc_200. reflexivity.
    - apply N.ltb_ge in E. assert (Z0 : lw2 = 0) by lia. rewrite Z0. rewrite (calc_100 l1), !N.add_0_r, N.eqb_refl, calc_100. reflexivity. }
  destruct Hmult as [Hm1 Hm2].
  assert (R : ren_only s2 (rl_remove a s2)) by apply rl_remove_only.
  destruct (same2_ren_only_except _ _ R) as [E1 [E2 [E3 [E4 [E5 E6]]]]].
  assert (Eglob : g_lv (rl_remove a s2) = g_lv s /\ g_q (rl_remove a s2) = g_q s /\ g_cd (rl_remove a s2) = g_cd s /\
                  g_wd (rl_remove a s2) = g_wd s /\ eff (rl_remove a s2) = eff s /\ bal (rl_remove a s2) = bal s /\
                  del_ctr (rl_remove a s2) = del_ctr s /\ act (rl_remove a s2) = act s /\ que (rl_remove a s2) = que s).
  { rewrite R. repeat split. }
  destruct Eglob as [F1 [F2 [F3 [F4 [F5 [F6 [F7 [F8 F9]]]]]]]].
  split; [|split].
  - constructor.
    + apply (WF_frame s2); auto; [|apply kept_same_vals; auto]. apply (WF_frame s); auto.
    + apply (InvA_frame2 s).
      * exact HA.
      * apply (kept_trans _ s2); auto. apply kept_same_vals; auto.
      * intros b Hb. unfold get_agg. rewrite E2. change (aggs s2) with (upd (aggs s) a a'). rewrite get_upd.
        destruct (a =? b) eqn:E; auto. apply N.eqb_eq in E. subst b. exfalso. apply (Hb v Hv). exact Hact.
    + apply Inv2'_rl_remove. rewrite Es2. apply (Inv2'_active_upd s a v v1 a'); auto.
    + rewrite F1, E1, E2. cbn [vals aggs s2 setv set_agg w_vals w_aggs]. lia.
    + rewrite F2, E1, E2. cbn [vals aggs s2 setv set_agg w_vals w_aggs]. lia.
    + rewrite F3, E1. cbn [vals s2 setv set_agg w_vals w_aggs]. lia.
    + rewrite F4, E1, E2, E3. cbn [vals aggs dels s2 setv set_agg w_vals w_aggs]. lia.
    + rewrite F5, F1, F2, F3, F4. exact L5.
    + rewrite F5, F6. exact L6.
    + intros id d. rewrite E3, F7. apply L7.
    + rewrite E6, E1. cbn [vals s2 setv set_agg w_vals w_aggs g_lw].
      pose proof (sumf_get_le v_weight (vals s) a v Hv) as Wle.
      unfold prevw in *. destruct (calc_weight (v_locked v) (v_multiplier v) <? afterw) eqn:Ecmp;
        [apply N.ltb_lt in Ecmp|apply N.ltb_ge in Ecmp]; lia.
    + lia.
  - intros b Hne. unfold getv. rewrite E1. change (get (vals s2) b) with (getv (setv a v1 (set_agg a a' s)) b).
    rewrite getv_setv_other by auto. reflexivity.
  - exists v1. unfold getv. rewrite E1. change (get (vals s2) a) with (getv (setv a v1 (set_agg a a' s)) a).
    rewrite getv_setv_same. split; auto. split; auto. split; auto. unfold held. cbn [v1 v_locked v_queued v_cooldown v_withdrawable set_amounts]. lia.
Qed.

Definition is_active (s : st) (a : N) : Prop := exists v, getv s a = Some v /\ v_status v = StatusActive.

Lemma apply_renewals_ok l : forall acc s la lq s' acc',
  LoopInv acc s la lq -> (forall a, In a l -> is_active s a) ->
  apply_renewals l acc s = Ok (s', acc') ->
  LoopInv acc' s' la lq /\
  (forall b, ~ In b l -> getv s' b = getv s b) /\
  (forall b v, getv s b = Some v -> exists v', getv s' b = Some v' /\ v_status v' = v_status v /\ v_exit v' = v_exit v /\ held v' = held v).
Proof.
  induction l as [|a t IH]; intros acc s la lq s' acc' HL Hact H.
  - cbn in H. inversion H; subst. split; auto. split; auto. intros b v Hv. eauto.
  - cbn [apply_renewals] in H. bstep H r1 Hr1. destruct r1 as [[s1 ar] dw]. bstep H acc1 Ha1.
    bstep H r2 Hr2. destruct r2 as [s2 vr]. bstep H acc2 Ha2.
    destruct (Hact a (or_introl eq_refl)) as [v [Hv Hs]].
    destruct (renew_step acc s la lq a v s1 ar dw acc1 s2 vr acc2 HL Hv Hs Hr1 Ha1 Hr2 Ha2) as [HL2 [Hoth [v2 [Hv2 [Hs2 [Hx2 Hh2]]]]]].
    destruct (IH acc2 (rl_remove a s2) la lq s' acc' HL2) as [HL3 [Hfr Hst]]; auto.
    + intros b Hb. destruct (N.eq_dec b a) as [->|Hne]; [exists v2; auto|].
      destruct (Hact b (or_intror Hb)) as [vb [Hvb Hsb]]. exists vb. rewrite Hoth; auto.
    + split; auto. split.
      * intros b Hb. rewrite Hfr by (intros Hx; apply Hb; right; auto). apply Hoth. intros ->. apply Hb. left; auto.
      * intros b vb Hvb. destruct (N.eq_dec b a) as [->|Hne].
        -- assert (vb = v) by congruence. subst vb. destruct (Hst a v2 Hv2) as [v3 [Hv3 [E1 [E2 E3]]]]. exists v3. repeat split; congruence.
        -- rewrite <- (Hoth b Hne) in Hvb. apply (Hst b vb Hvb).
Qed.

(* closing the loop: the accumulated renewal is applied to the global counters *)
Lemma apply_renewal_closes acc s la lq s' :
  LoopInv acc s la lq -> apply_renewal acc s = Ok s' ->
  WF s' la lq /\ Inv1 s' /\ InvA s' /\ Inv2 s' /\ (forall b, getv s' b = getv s b) /\ exits s' = exits s /\ blk s' = blk s.
Proof.
  intros [Hwf HA H2 L1 L2 L3 L4 L5 L6 L7 L8 L9] H. unfold apply_renewal in H.
  bstep H l1 Hl1. bstep H l2 Hl2. destruct l2 as [lv lw]. bstep H s1 Hs1.
  apply ws_add_ok in Hl1. apply ws_sub_ok in Hl2. cbn [fst snd] in Hl1, Hl2. destruct Hl1 as [P1 P2]. destruct Hl2 as [Q1 [Q2 [Q3 Q4]]].
  unfold remove_queued in Hs1. bstep Hs1 q Hq. inversion Hs1; subst s1; clear Hs1.
  unfold add_withdrawable in H. bstep H w Hw. inversion H; subst s'; clear H. gfacts. cbn in *.
  split; [apply (WF_same_vals s); auto|]. split; [|split; [|split; [|auto]]].
  - constructor; cbn; auto; try lia. rewrite L5. f_equal. lia.
  - apply (InvA_frame s); auto. apply kept_same_vals; reflexivity.
  - apply Inv2_split. split; [apply (Inv2'_ext s); auto|]. cbn. lia.
Qed.

(* ------------------------------------------------------------------ the scheduled exit *)

Record Full (s : st) (la lq : list N) : Prop := mkFull {
  f_wf : WF s la lq; f_1 : Inv1 s; f_a : InvA s; f_2 : Inv2 s }.

Lemma cond_add_wd x s s' : (if 0 <? x then add_withdrawable x s else Ok s) = Ok s' ->
  s' = w_glob (g_lv s) (g_lw s) (g_q s) (g_wd s + x) (g_cd s) s.
Proof.
  destruct (0 <? x) eqn:E.
  - unfold add_withdrawable. intros H. bstep H y Hy. inversion H; subst. gfacts. subst. auto.
  - intros H. inversion H; subst. apply N.ltb_ge in E. assert (x = 0) by lia. subst. rewrite N.add_0_r, w_glob_id. auto.
Qed.
Lemma cond_add_cd x s s' : (if 0 <? x then add_cooldown x s else Ok s) = Ok s' ->
  s' = w_glob (g_lv s) (g_lw s) (g_q s) (g_wd s) (g_cd s + x) s.
Proof.
  destruct (0 <? x) eqn:E.
  - unfold add_cooldown. intros H. bstep H y Hy. inversion H; subst. gfacts. subst. auto.
  - intros H. inversion H; subst. apply N.ltb_ge in E. assert (x = 0) by lia. subst. rewrite N.add_0_r, w_glob_id. auto.
Qed.

Lemma exit_step s la lq a v eb s2a ve s2b ae s' :
  Full s la lq -> getv s a = Some v -> v_status v = StatusActive -> v_exit v = Some eb -> eb <= blk s ->
  svc_exit_validator a s = Ok (s2a, ve) -> aggs_exit a s2a = (s2b, ae) -> apply_exit ve ae s2b = Ok s' ->
  exists l1 l2, la = l1 ++ a :: l2 /\ Full s' (l1 ++ l2) lq /\
    (forall b x, b <> a -> getv s b = Some x -> exists x', getv s' b = Some x' /\ core x' = core x) /\
    exits s' = exits s /\ blk s' = blk s /\ mbp s' = mbp s /\ (forall x, held_by s' x = held_by s x).
Proof.
  intros [Hwf Hi HA H2] Hv Hact Hex Heb Hr Hae H. pose proof Hi as [I1 I2 I3 I4 I5 I6 I7].
  unfold svc_exit_validator in Hr.
  bstep Hr v0 Hv0. unfold get_existing in Hv0. apply of_opt_ok in Hv0. assert (v0 = v) by congruence. subst v0.
  unfold v_exit_now in Hr. bstep Hr r1 Hrm. destruct r1 as [s1 e1]. inversion Hr; subst s2a ve; clear Hr.
  set (v1 := set_status StatusExit (set_amounts 0 0 0 (v_locked v) (v_withdrawable v + v_queued v) 0 v)) in *.
  assert (Hin : In a la) by (apply (wf_st _ _ _ Hwf a v Hv); auto).
  destruct (WF_remove true s la lq a v1 s1 e1 v Hwf Hrm Hv Hin eq_refl eq_refl eq_refl)
    as [l1 [l2 [El [Hwf1 [Hlo [Hga [Hce [Hco Hsum]]]]]]]].
  destruct (ll_remove_wf true a v1 s s1 e1 la v Hrm (wf_a _ _ _ Hwf) Hin Hv eq_refl eq_refl)
    as [_ [_ [_ [_ [_ [_ [_ [_ [Hco' _]]]]]]]]].
  exists l1, l2. split; auto.
  assert (Eg : forall (T : Type) (X : st -> T), X (w_vals (vals s1) (w_act (act s1) (w_que (que s1) s))) = X s1) by (intros; rewrite <- Hlo; auto).
  set (sr := rl_remove a s1) in *.
  assert (R : ren_only s1 sr) by apply rl_remove_only.
  destruct (same2_ren_only_except _ _ R) as [E1 [E2 [E3 [E4 [E5 E6]]]]].
  unfold aggs_exit in Hae. inversion Hae; subst s2b ae; clear Hae.
  assert (Eag : get_agg sr a = get_agg s a).
  { unfold get_agg. rewrite E2, <- (Eg _ aggs). reflexivity. }
  rewrite Eag in H. set (ag := get_agg s a) in *.
  set (sx := set_agg a agg0 sr) in *.
  (* weights *)
  destruct (j_w1 _ H2 a v Hv Hact) as [Wold Pold]. fold ag in Wold.
  assert (Cold : v_cooldown v = 0) by (apply (j_cd _ H2 a v Hv); rewrite Hact; discriminate).
  unfold apply_exit in H. cbn [e_v e_w e_qdec] in H.
  bstep H tot Htot. apply ws_add_ok in Htot. cbn [fst snd] in Htot. destruct tot as [tv tw]. cbn [fst snd] in *. destruct Htot as [Etv Etw].
  bstep H sa Ha. bstep H sb Hb. bstep H sc Hc.
  assert (Htv : (0 <? tv) = true) by (apply N.ltb_lt; lia). rewrite Htv in Ha.
  unfold remove_locked in Ha. bstep Ha lw Hlw. destruct lw as [nlv nlw]. inversion Ha; subst sa; clear Ha.
  apply ws_sub_ok in Hlw. cbn [fst snd] in Hlw. destruct Hlw as [Enlv [Enlw [Llv Llw]]].
  apply cond_remove_q in Hb as [-> Lq]. apply cond_add_cd in Hc as ->. apply cond_add_wd in H as ->.
  (* projections of sx *)
  assert (Px : vals sr = vals s1 /\ aggs sr = aggs s /\ dels sr = dels s /\ exits sr = exits s /\ blk sr = blk s /\
               g_lv sr = g_lv s /\ g_lw sr = g_lw s /\ g_q sr = g_q s /\ g_wd sr = g_wd s /\ g_cd sr = g_cd s /\
               eff sr = eff s /\ bal sr = bal s /\ del_ctr sr = del_ctr s /\ act sr = act s1 /\ que sr = que s1 /\ mbp sr = mbp s).
  { rewrite R. cbn.
    rewrite <- (Eg _ aggs), <- (Eg _ dels), <- (Eg _ exits), <- (Eg _ blk), <- (Eg _ g_lv), <- (Eg _ g_lw), <- (Eg _ g_q), <- (Eg _ g_wd),
      <- (Eg _ g_cd), <- (Eg _ eff), <- (Eg _ bal), <- (Eg _ del_ctr), <- (Eg _ mbp). cbn. repeat split. }
  destruct Px as [X1 [X2 [X3 [X4 [X5 [X6 [X7 [X8 [X9 [X10 [X11 [X12 [X13 [X14 [X15 X16]]]]]]]]]]]]]]].
  set (s' := w_glob _ _ _ _ _ (w_glob _ _ _ _ _ (w_glob _ _ _ _ _ (w_glob _ _ _ _ _ sx)))) in *.
  pose proof (Hsum v_locked core_fun_locked) as S1. pose proof (Hsum v_queued core_fun_queued) as S2.
  pose proof (Hsum v_cooldown core_fun_cooldown) as S3. pose proof (Hsum v_withdrawable core_fun_withdrawable) as S4.
  pose proof (Hsum v_weight core_fun_weight) as S5.
  cbn [v1 v_locked v_queued v_cooldown v_withdrawable v_weight set_status set_amounts] in S1, S2, S3, S4, S5.
  assert (A1 : sumf a_lv (upd (aggs s) a agg0) + a_lv ag = sumf a_lv (aggs s)).
  { pose proof (sum_set_agg a_lv a agg0 s eq_refl) as A. cbn in A. fold ag in A. lia. }
  assert (A2 : sumf a_pv (upd (aggs s) a agg0) + a_pv ag = sumf a_pv (aggs s)).
  { pose proof (sum_set_agg a_pv a agg0 s eq_refl) as A. cbn in A. fold ag in A. lia. }
  assert (Gv : forall b, getv s' b = getv s1 b) by (intros; unfold getv, s'; cbn; rewrite ?X1, ?E1; reflexivity).
  assert (Crel : core_rel s s' a).
  { intros b Hne. rewrite Gv. split; [apply (proj1 (Hco' b Hne))|intros y Hy; apply (Hco b y Hne Hy)]. }
  destruct (core_eq _ _ Hce) as [Cs [Cc [Cw [Cl [Cp [Cq Cx]]]]]].
  split; [|split; [|split; [|split; [|split]]]].
  - constructor.
    + apply (WF_same_vals s1); auto; unfold s'; cbn; auto.
    + unfold s'. constructor; cbn; rewrite ?X1, ?X2, ?X3, ?X6, ?X7, ?X8, ?X9, ?X10, ?X11, ?X12, ?X13 in *; cbn in *; try lia; auto.
      rewrite I5. f_equal. lia.
    + intros b Hb. unfold get_agg, s'. cbn. rewrite X2, get_upd. destruct (a =? b) eqn:E; [reflexivity|].
      apply N.eqb_neq in E. apply HA. intros y Hy. destruct (Hco b y (fun e => E (eq_sym e)) Hy) as [y' [Hy' Ec]].
      rewrite <- (core_status _ _ Ec). apply (Hb y'). rewrite Gv. exact Hy'.
    + apply (Inv2_to_exit s s' a v e1); auto.
      * rewrite Gv. exact Hga.
      * unfold s'. cbn. rewrite X2. reflexivity.
      * unfold s'. cbn. rewrite ?X7 in *. cbn in *. lia.
      * unfold s'. cbn. rewrite X1. lia.
      * intros b Hb Hg. destruct (N.eq_dec a 0); auto. destruct (j_exit _ H2 b a Hg n Hb) as [y [Hy [_ Hey]]].
        assert (y = v) by congruence. subst y. rewrite Hex in Hey. inversion Hey. lia.
      * destruct (j_ren _ H2) as [lr [RW A]].
        assert (RW1 : RWF s1 lr).
        { apply (RWF_ext s _ lr); auto; [rewrite <- (Eg _ rh)|rewrite <- (Eg _ rt)|rewrite <- (Eg _ rprev)|rewrite <- (Eg _ rnext)]; reflexivity. }
        destruct (rl_remove_not_member s1 a lr RW1) as [lr' [RW' [Hn Hsub]]]. exists lr'. split.
        -- apply (RWF_ext sr _ lr'); auto; unfold s', sx; reflexivity.
        -- intros b Hb. split; [intros ->; contradiction|apply A; auto].
  - intros b x Hne Hx. rewrite Gv. apply (Hco b x Hne Hx).
  - unfold s'. cbn. rewrite X4. reflexivity.
  - unfold s'. cbn. rewrite X5. reflexivity.
  - unfold s'. cbn. rewrite X16. reflexivity.
  - intros x. destruct (N.eq_dec x a) as [->|Hne].
    + unfold held_by. rewrite Gv, Hga, Hv. rewrite (core_held _ _ Hce). unfold held. cbn. lia.
    + unfold held_by. destruct (getv s x) as [y|] eqn:Ey.
      * destruct (proj2 (Crel x Hne) y Ey) as [y' [Hy' Ec]]. rewrite Hy'. apply core_held; auto.
      * rewrite (proj1 (Crel x Hne) Ey). reflexivity.
Qed.

(* ------------------------------------------------------------------ evictions *)

Definition evictable_now (s : st) (a : N) : Prop :=
  exists v, getv s a = Some v /\ v_status v = StatusActive /\ v_exit v = None.

Lemma apply_evictions_ok c b l : forall s la lq s',
  (exists lq0, Full s la lq0 /\ lq0 = lq) -> NoDup l -> (forall a, In a l -> evictable_now s a) ->
  apply_evictions c b l s = Ok s' ->
  (exists lq', Full s' la lq') /\ blk s' = blk s /\ mbp s' = mbp s /\
  (forall x y, getv s x = Some y -> exists y', getv s' x = Some y' /\ v_status y' = v_status y) /\
  (forall x, held_by s' x = held_by s x).
Proof.
  induction l as [|a t IH]; intros s la lq s' [lq0 [HF ->]] Hnd Hev H.
  - cbn in H. inversion H; subst. split; [exists lq; auto|]. split; auto. split; auto. split; auto. intros x y Hy. eauto.
  - cbn [apply_evictions] in H. bstep H s1 Hs1.
    destruct (Hev a (or_introl eq_refl)) as [v [Hv [Hact Hex]]].
    apply svc_signal_exit_shape2 in Hs1; [|discriminate]. destruct Hs1 as [v2 [eb [cur [Hv2 [Hfree E1]]]]].
    assert (v2 = v) by congruence. subst v2.
    destruct HF as [Hwf Hi HA H2].
    destruct (signal_exit_shape_ok s s1 a v eb cur la lq Hv E1 Hwf Hi HA) as [lq1 [W1 [I1 [_ A1]]]].
    assert (J1 : Inv2 s1) by (rewrite E1; apply Inv2_signal_exit; auto).
    apply NoDup_cons_iff in Hnd as [Hna Hnd'].
    assert (Gx : forall x, x <> a -> getv s1 x = getv s x).
    { intros x Hne. rewrite E1. rewrite getv_setv_other by auto. reflexivity. }
    destruct (IH s1 la lq1 s') as [F' [B' [M' [St' Hh']]]]; auto.
    + exists lq1. split; auto. constructor; auto.
    + intros x Hx. destruct (Hev x (or_intror Hx)) as [y [Hy [Hs He]]]. exists y. rewrite Gx; auto. intros ->. contradiction.
    + split; auto. rewrite B', M', E1. cbn. split; auto. split; auto. split;
        [|intros x; rewrite Hh', E1; apply (held_by_setv_same_held a v _ (w_exits (upd (exits s) eb a) s)); auto].
      intros x y Hy. destruct (N.eq_dec x a) as [->|Hne].
      * assert (y = v) by congruence. subst y.
        destruct (St' a (set_completed cur (set_exit (Some eb) v))) as [y' [Hy' Es]]; [rewrite E1; apply getv_setv_same|].
        exists y'. split; auto.
      * rewrite <- (Gx x Hne) in Hy. apply (St' x y Hy).
Qed.

(* ------------------------------------------------------------------ activation *)

Lemma Inv2_activate s s' h v e' x :
  Inv2 s -> core_rel s s' h -> getv s h = Some v -> v_status v = StatusQueued -> getv s' h = Some e' ->
  v_status e' = StatusActive -> v_exit e' = v_exit v -> v_cooldown e' = v_cooldown v ->
  v_locked e' = v_queued v -> v_punlock e' = v_punlock v ->
  aggs s' = upd (aggs s) h x ->
  v_weight e' = calc_weight (v_locked e') (v_multiplier e') + a_lw x ->
  dels s' = dels s -> exits s' = exits s -> blk s' = blk s ->
  rh s' = rh s -> rt s' = rt s -> rprev s' = rprev s -> rnext s' = rnext s ->
  g_lw s' = g_lw s + v_weight e' -> sumf v_weight (vals s') = sumf v_weight (vals s) + v_weight e' ->
  Inv2 s'.
Proof.
  intros [H1 H2 H3 H4 H5 H6 H7 H8 H9 H10 H11] C Hv Hq He' Est Eex Ecd El Epu Eag Ew Ed Eexs Eb R1 R2 R3 R4 Eg Esum.
  assert (Ga : forall b, get_agg s' b = if h =? b then x else get_agg s b).
  { intros b. unfold get_agg. rewrite Eag, get_upd. destruct (h =? b); reflexivity. }
  assert (Gx : forall b, get_exit s' b = get_exit s b) by (intros; unfold get_exit; rewrite Eexs; auto).
  assert (Hnact : forall y, getv s h = Some y -> v_status y <> StatusActive) by (intros y Hy; assert (y = v) by congruence; subst; rewrite Hq; discriminate).
  destruct (H8 h v Hv Hq) as [Q1 [Q2 [Q3 [Q4 Q5]]]].
  constructor.
  - intros b Hn. rewrite Ga. destruct (h =? b) eqn:E.
    + apply N.eqb_eq in E. subst b. exfalso. apply (Hn e' He'). exact Est.
    + apply N.eqb_neq in E. apply H1. intros y Hy. destruct (proj2 (C b (fun e => E (eq_sym e))) y Hy) as [y' [Hy' Ec]].
      rewrite <- (core_status _ _ Ec). apply (Hn y' Hy').
  - intros b y Hy Hs. destruct (N.eq_dec b h) as [->|Hne].
    + assert (y = e') by congruence. subst y. rewrite Ecd. apply (H2 h v Hv). rewrite Hq. discriminate.
    + destruct (core_rel_rev _ _ _ _ _ C Hne Hy) as [z [Hz Ec]]. cf Ec. rewrite Cc. apply (H2 b z Hz). congruence.
  - destruct H3 as [lr [R A]]. exists lr. split; [apply (RWF_ext s _ lr); auto|]. intros b Hb. destruct (A b Hb) as [y [Hy Hs]].
    assert (Hne : b <> h) by (intros ->; apply (Hnact y Hy Hs)).
    destruct (proj2 (C b Hne) y Hy) as [y' [Hy' Ec]]. exists y'. split; auto. rewrite (core_status _ _ Ec). auto.
  - intros b c Hg Hc Hb. rewrite Gx in Hg. rewrite Eb in Hb. destruct (H4 b c Hg Hc Hb) as [y [Hy [Hs Hey]]].
    assert (Hne : c <> h) by (intros ->; apply (Hnact y Hy Hs)).
    destruct (proj2 (C c Hne) y Hy) as [y' [Hy' Ec]]. exists y'. cf Ec. repeat split; congruence.
  - lia.
  - intros b y Hy Hs. rewrite Ga. destruct (N.eq_dec b h) as [->|Hne].
    + assert (y = e') by congruence. subst y. rewrite N.eqb_refl. split; auto. lia.
    + assert (E : (h =? b) = false) by (apply N.eqb_neq; auto). rewrite E.
      destruct (core_rel_rev _ _ _ _ _ C Hne Hy) as [z [Hz Ec]]. cf Ec.
      destruct (H6 b z Hz) as [W P]; [congruence|]. unfold v_multiplier in *. rewrite Cw, Cl, Cp. auto.
  - intros b y Hy Hs. destruct (N.eq_dec b h) as [->|Hne]; [assert (y = e') by congruence; subst y; congruence|].
    destruct (core_rel_rev _ _ _ _ _ C Hne Hy) as [z [Hz Ec]]. cf Ec. rewrite Cw. apply (H7 b z Hz). congruence.
  - intros b y Hy Hs. destruct (N.eq_dec b h) as [->|Hne].
    + assert (y = e') by congruence. subst y. rewrite Est in Hs. discriminate.
    + destruct (core_rel_rev _ _ _ _ _ C Hne Hy) as [z [Hz Ec]]. cf Ec.
      destruct (H8 b z Hz) as [A1 [A2 [A3 [A4 A5]]]]; [congruence|]. rewrite Ga, Ed.
      assert (E : (h =? b) = false) by (apply N.eqb_neq; auto). rewrite E. rewrite Cl, Cq, Cp. tauto.
  - intros b Hb. rewrite Ga. destruct (h =? b) eqn:E; [apply N.eqb_eq in E; subst b; congruence|]. apply N.eqb_neq in E. apply H9.
    destruct (getv s b) as [y|] eqn:Ey; auto. destruct (proj2 (C b (fun e => E (eq_sym e))) y Ey) as [y' [Hy' _]]. congruence.
  - intros id d Hin. rewrite Ed in Hin. specialize (H10 id d Hin). destruct (N.eq_dec (d_val d) h) as [->|Hne]; [congruence|].
    destruct (getv s (d_val d)) as [y|] eqn:Ey; [|congruence]. destruct (proj2 (C _ Hne) y Ey) as [y' [Hy' _]]. congruence.
  - intros b y Hy. destruct (N.eq_dec b h) as [->|Hne]; [assert (y = e') by congruence; subst; auto|].
    destruct (core_rel_rev _ _ _ _ _ C Hne Hy) as [z [Hz Ec]]. rewrite (core_status _ _ Ec). eauto.
Qed.

Lemma seg_head s p h0 a t e : seg s p h0 (a :: t) e -> h0 = Some a.
Proof. intros [E _]. exact E. Qed.

Lemma activate_step b mx s la lq s' :
  Full s la lq -> activate_next b mx s = Ok s' ->
  exists h lq', Full s' (la ++ [h]) lq' /\ In h lq /\ ~ In h la /\ blk s' = blk s /\ mbp s' = mbp s /\
    (forall x y, x <> h -> getv s x = Some y -> exists y', getv s' x = Some y' /\ core y' = core y) /\
    (forall x, held_by s' x = held_by s x).
Proof.
  intros [Hwf Hi HA H2] H. pose proof Hi as [I1 I2 I3 I4 I5 I6 I7]. unfold activate_next in H.
  bstep H r Hr. destruct r as [[s1 h] e1]. unfold next_to_activate in Hr.
  bstep Hr u1 G1. bstep Hr u2 G2. bstep Hr h0 Hh. bstep Hr e He. bstep Hr r1 Hrm. destruct r1 as [s1' e1'].
  inversion Hr; subst s1' h0 e1'; clear Hr. gfacts.
  bstep H r2 Hag. destruct r2 as [[s2 ar] dw0]. bstep H r3 Hact. destruct r3 as [s3 vr]. bstep H g Hg.
  (* h is the head of the queue, hence queued *)
  pose proof (wf_q _ _ _ Hwf) as [Qseg Qtail Qsize Qnd].
  assert (Hin : In h lq).
  { destruct lq as [|x t]; [cbn in Qseg; congruence|]. apply seg_head in Qseg. left. congruence. }
  destruct (wf_st _ _ _ Hwf h e He) as [Sa [Sq Su]]. pose proof (proj1 Sq Hin) as Hq.
  assert (Hnla : ~ In h la). { intros Hx. apply Sa in Hx. rewrite Hq in Hx. discriminate. }
  destruct (ll_remove_wf false h e s s1 e1 lq e Hrm (wf_q _ _ _ Hwf) Hin He eq_refl eq_refl)
    as [l1 [l2 [El [Hwq1 [Ee1 [Hg1 [Hot1 [Hlo1 [Hco1 Hsum1]]]]]]]]].
  assert (Eg : forall (T : Type) (X : st -> T), X (w_vals (vals s1) (w_act (act s1) (w_que (que s1) s))) = X s1) by (intros; rewrite <- Hlo1; auto).
  (* aggregation renew of a queued validator *)
  assert (Eag0 : get_agg s1 h = get_agg s h) by (unfold get_agg; rewrite <- (Eg _ aggs); reflexivity).
  unfold aggs_renew, agg_renew in Hag. rewrite Eag0 in Hag. set (ag := get_agg s h) in *.
  bstep Hag r0 Hr0. destruct r0 as [a' ar0]. bstep Hr0 p1 Hp1. destruct p1 as [lv lw]. bstep Hr0 p2 Hp2. destruct p2 as [lv2 lw2].
  inversion Hr0; subst a' ar0; clear Hr0. inversion Hag; subst s2 ar dw0; clear Hag.
  apply ws_add_ok in Hp1. apply ws_sub_ok in Hp2. cbn [fst snd] in Hp1, Hp2.
  destruct Hp1 as [Elv Elw]. destruct Hp2 as [Elv2 [Elw2 [Lev Lew]]].
  assert (Hnact : forall y, getv s h = Some y -> v_status y <> StatusActive) by (intros y Hy; assert (y = e) by congruence; subst; rewrite Hq; discriminate).
  pose proof (HA h Hnact) as Z1. destruct (j_idle _ H2 h Hnact) as [Z2 [Z3 Z4]]. fold ag in Z1, Z2, Z3, Z4.
  destruct (j_q _ H2 h e He Hq) as [Q1 [Q2 [Q3 [Q4 Q5]]]]. fold ag in Q3, Q4.
  set (a' := mkA lv2 lw2 0 0 0 0) in *. set (s2 := set_agg h a' s1) in *.
  (* activation of the record *)
  unfold svc_activate in Hact. bstep Hact u3 G3. bstep Hact w Hw. bstep Hact s3' Hadd. inversion Hact; subst s3' vr; clear Hact.
  cbn [r_inc_v r_inc_w r_dec_v r_dec_w] in *. gfacts.
  assert (Ce1 : core e1 = core e) by (subst e1; reflexivity).
  destruct (core_eq _ _ Ce1) as [Cs [Cc [Cw [Cl [Cp [Cq Cx]]]]]].
  set (mul := if a_ev ag <? a_pv ag then MultiplierWithDelegations else Multiplier) in *.
  set (lwv := calc_weight (v_queued e1) mul) in *.
  set (v1 := set_start b (set_status StatusActive (set_amounts (v_queued e1) (v_punlock e1) 0 (v_cooldown e1) (v_withdrawable e1) w e1))) in *.
  (* the active list gets h appended *)
  assert (Hwa2 : wf_list s2 (get_ls true s2) la).
  { change (get_ls true s2) with (get_ls (negb false) s1). rewrite Hot1. cbn [negb get_ls].
    destruct (wf_a _ _ _ Hwf) as [A1 A2 A3 A4]. constructor; auto.
    eapply seg_frame; [exact A1|]. intros x Hx y Hy.
    assert (Hne : x <> h) by (intros ->; contradiction).
    assert (Hnq : ~ In x lq). { intros Hxq. destruct (wf_st _ _ _ Hwf x y Hy) as [[T1 _] [[T2 _] _]]. rewrite (T1 Hx) in T2. specialize (T2 Hxq). discriminate. }
    destruct (proj2 (Hco1 x Hne) y Hy) as [y' [Hy' [_ Hsame]]]. rewrite (Hsame Hnq) in Hy'. exists y. auto. }
  assert (Hnx : v_next v1 = None) by (subst e1; reflexivity).
  destruct (ll_add_wf true h v1 s2 s3 la Hadd Hwa2 Hnla Hnx) as [Hwa3 [Hg3 [Hot3 [Hlo3 [Hco3 Hsum3]]]]].
  assert (Eg3 : forall (T : Type) (X : st -> T), X (w_vals (vals s3) (w_act (act s3) (w_que (que s3) s2))) = X s3) by (intros; rewrite <- Hlo3; auto).
  (* records: every x <> h keeps its core from s to s3, and is untouched when outside the list being edited *)
  assert (Hrec : forall x y, x <> h -> getv s x = Some y ->
            exists y3, getv s3 x = Some y3 /\ core y3 = core y /\ (~ In x la -> ~ In x lq -> y3 = y) /\
                       (In x la -> forall y1, getv s1 x = Some y1 -> y1 = y)).
  { intros x y Hne Hy. destruct (proj2 (Hco1 x Hne) y Hy) as [y1 [Hy1 [Ec1 Hs1]]].
    destruct (proj2 (Hco3 x Hne) y1 Hy1) as [y3 [Hy3 [Ec3 Hs3]]]. exists y3. split; auto. split; [congruence|]. split.
    - intros N1 N2. rewrite (Hs3 N1). apply Hs1; auto.
    - intros Hx z Hz. assert (z = y1) by congruence. subst z. apply Hs1. intros Hxq.
      destruct (wf_st _ _ _ Hwf x y Hy) as [[T1 _] [[T2 _] _]]. rewrite (T1 Hx) in T2. specialize (T2 Hxq). discriminate. }
  assert (Hnone : forall x, x <> h -> getv s x = None -> getv s3 x = None).
  { intros x Hne Hn. apply (proj1 (Hco3 x Hne)). apply (proj1 (Hco1 x Hne)). exact Hn. }
  (* global counters *)
  destruct (renewal_add_ok _ _ _ Hg) as [B1 [B2 [B3 [B4 B5]]]]. cbn [r_inc_v r_inc_w r_dec_v r_dec_w r_qdec] in B1, B2, B3, B4, B5.
  unfold apply_renewal in H. bstep H p3 Hp3. bstep H p4 Hp4. destruct p4 as [nlv nlw]. bstep H sq Hsq.
  apply ws_add_ok in Hp3. apply ws_sub_ok in Hp4. cbn [fst snd] in Hp3, Hp4. destruct Hp3 as [P1 P2]. destruct Hp4 as [P3 [P4 [P5 P6]]].
  unfold remove_queued in Hsq. bstep Hsq q Hq'. inversion Hsq; subst sq; clear Hsq.
  unfold add_withdrawable in H. bstep H wdn Hwd. inversion H; subst s'; clear H. gfacts.
  cbn [g_lv g_lw g_q g_wd g_cd w_glob] in *.
  (* projections of s3 *)
  assert (P3s : aggs s3 = upd (aggs s) h a' /\ dels s3 = dels s /\ exits s3 = exits s /\ blk s3 = blk s /\ mbp s3 = mbp s /\
                g_lv s3 = g_lv s /\ g_lw s3 = g_lw s /\ g_q s3 = g_q s /\ g_wd s3 = g_wd s /\ g_cd s3 = g_cd s /\
                eff s3 = eff s /\ bal s3 = bal s /\ del_ctr s3 = del_ctr s /\
                rh s3 = rh s /\ rt s3 = rt s /\ rprev s3 = rprev s /\ rnext s3 = rnext s).
  { rewrite <- (Eg3 _ aggs), <- (Eg3 _ dels), <- (Eg3 _ exits), <- (Eg3 _ blk), <- (Eg3 _ mbp), <- (Eg3 _ g_lv), <- (Eg3 _ g_lw),
      <- (Eg3 _ g_q), <- (Eg3 _ g_wd), <- (Eg3 _ g_cd), <- (Eg3 _ eff), <- (Eg3 _ bal), <- (Eg3 _ del_ctr),
      <- (Eg3 _ rh), <- (Eg3 _ rt), <- (Eg3 _ rprev), <- (Eg3 _ rnext). unfold s2. cbn.
    rewrite <- (Eg _ aggs), <- (Eg _ dels), <- (Eg _ exits), <- (Eg _ blk), <- (Eg _ mbp), <- (Eg _ g_lv), <- (Eg _ g_lw),
      <- (Eg _ g_q), <- (Eg _ g_wd), <- (Eg _ g_cd), <- (Eg _ eff), <- (Eg _ bal), <- (Eg _ del_ctr),
      <- (Eg _ rh), <- (Eg _ rt), <- (Eg _ rprev), <- (Eg _ rnext). cbn. repeat split. }
  destruct P3s as [X1 [X2 [X3 [X4 [X5 [X6 [X7 [X8 [X9 [X10 [X11 [X12 [X13 [X14 [X15 [X16 X17]]]]]]]]]]]]]]]].
  rewrite X6, X7, X8, X9 in *.
  (* sums *)
  pose proof (Hsum1 v_locked core_fun_locked) as S1. pose proof (Hsum1 v_queued core_fun_queued) as S2.
  pose proof (Hsum1 v_cooldown core_fun_cooldown) as S3. pose proof (Hsum1 v_withdrawable core_fun_withdrawable) as S4.
  pose proof (Hsum1 v_weight core_fun_weight) as S5.
  assert (Hg1' : getv s2 h = Some e1) by exact Hg1.
  pose proof (Hsum3 v_locked core_fun_locked) as T1. pose proof (Hsum3 v_queued core_fun_queued) as T2.
  pose proof (Hsum3 v_cooldown core_fun_cooldown) as T3. pose proof (Hsum3 v_withdrawable core_fun_withdrawable) as T4.
  pose proof (Hsum3 v_weight core_fun_weight) as T5. rewrite Hg1' in T1, T2, T3, T4, T5.
  change (vals s2) with (vals s1) in T1, T2, T3, T4, T5.
  cbn [v1 v_locked v_queued v_cooldown v_withdrawable v_weight set_start set_status set_amounts] in T1, T2, T3, T4, T5.
  assert (Gl1 : sumf a_lv (upd (aggs s) h a') + a_lv ag = sumf a_lv (aggs s) + lv2).
  { pose proof (sum_set_agg a_lv h a' s eq_refl) as A. cbn in A. fold ag in A. exact A. }
  assert (Gl2 : sumf a_pv (upd (aggs s) h a') + a_pv ag = sumf a_pv (aggs s)).
  { pose proof (sum_set_agg a_pv h a' s eq_refl) as A. cbn in A. fold ag in A. lia. }
  pose proof (j_w0 _ H2 h e He) as W0. rewrite Hq in W0. specialize (W0 ltac:(discriminate)).
  set (sf := w_glob _ _ _ _ _ (w_glob _ _ _ _ _ (w_glob _ _ _ _ _ s3))).
  assert (Gvf : forall x, getv sf x = getv s3 x) by reflexivity.
  exists h, (l1 ++ l2). split; [|split; [auto|split; [auto|split; [unfold sf; cbn; auto|split; [unfold sf; cbn; auto|split]]]]].
  - constructor.
    + (* lists *)
      apply (WF_same_vals s3); try reflexivity. constructor.
      * exact Hwa3.
      * change (que s3) with (get_ls (negb true) s3). rewrite Hot3. cbn [negb get_ls]. change (que s2) with (que s1).
        destruct Hwq1 as [A1 A2 A3 A4]. cbn [get_ls] in *. constructor; auto.
        eapply seg_frame; [exact A1|]. intros x Hx y1 Hy1.
        assert (Hne : x <> h). { intros ->. rewrite El in Qnd. apply NoDup_remove_2 in Qnd. contradiction. }
        assert (Hxq : In x lq). { rewrite El. apply in_app_iff in Hx as [Hx|Hx]; apply in_or_app; [left|right; right]; auto. }
        assert (Hnla' : ~ In x la).
        { intros Hxa. destruct (seg_in_get _ _ _ _ _ _ (wl_seg _ _ _ (wf_a _ _ _ Hwf)) Hxa) as [y Hy].
          destruct (wf_st _ _ _ Hwf x y Hy) as [[T1' _] [[T2' _] _]]. rewrite (T1' Hxa) in T2'. specialize (T2' Hxq). discriminate. }
        change (getv s1 x = Some y1) with (getv s2 x = Some y1) in Hy1.
        destruct (proj2 (Hco3 x Hne) y1 Hy1) as [y3 [Hy3 [_ Hs3]]]. rewrite (Hs3 Hnla') in Hy3. exists y1. auto.
      * intros x y3 Hy3. destruct (N.eq_dec x h) as [->|Hne].
        -- rewrite Hg3 in Hy3. inversion Hy3; subst y3. cbn [v_status v_prev v_next set_prev v1 set_start set_status set_amounts].
           split; [split; auto; intros _; apply in_or_app; right; left; auto|].
           split; [split; [intros Hx; rewrite El in Qnd; apply NoDup_remove_2 in Qnd; contradiction|discriminate]|].
           intros Hx. exfalso. apply Hx, in_or_app. right; left; auto.
        -- destruct (getv s x) as [y|] eqn:Ey; [|rewrite (Hnone x Hne Ey) in Hy3; discriminate].
           destruct (Hrec x y Hne Ey) as [y3' [Hy3' [Ec [Hsame _]]]]. assert (y3' = y3) by congruence. subst y3'.
           destruct (wf_st _ _ _ Hwf x y Ey) as [T1' [T2' T3']]. rewrite (core_status _ _ Ec).
           assert (Ia : In x (la ++ [h]) <-> In x la) by (rewrite in_app_iff; cbn; intuition congruence).
           assert (Iq : In x (l1 ++ l2) <-> In x lq) by (rewrite El, !in_app_iff; cbn; intuition congruence).
           split; [rewrite Ia; auto|]. split; [rewrite Iq; auto|].
           intros N1 N2. rewrite Ia in N1. rewrite Iq in N2. rewrite (Hsame N1 N2). auto.
    + (* accounting *)
      unfold sf. constructor; cbn; rewrite ?X1, ?X2, ?X10, ?X11, ?X12, ?X13 in *; try lia; auto.
      rewrite I5. f_equal. lia.
    + (* idle aggregations *)
      intros x Hx. unfold get_agg, sf. cbn. rewrite X1, get_upd. destruct (h =? x) eqn:E.
      * apply N.eqb_eq in E. subst x. exfalso. apply (Hx (set_prev (last_or None la) v1)); [rewrite Gvf; exact Hg3|reflexivity].
      * apply N.eqb_neq in E. apply HA. intros y Hy. destruct (Hrec x y (fun e => E (eq_sym e)) Hy) as [y3 [Hy3 [Ec _]]].
        rewrite <- (core_status _ _ Ec). apply (Hx y3). rewrite Gvf. exact Hy3.
    + (* second group *)
      apply (Inv2_activate s sf h e (set_prev (last_or None la) v1) a'); auto; try (unfold sf; cbn; auto; fail).
      * intros x Hne. rewrite Gvf. split; [apply Hnone; auto|]. intros y Hy. destruct (Hrec x y Hne Hy) as [y3 [Hy3 [Ec _]]]. eauto.
      * cbn [v_weight v_locked set_prev v1 set_start set_status set_amounts a_lw a']. unfold v_multiplier.
        cbn [v_weight v_locked set_prev v1 set_start set_status set_amounts].
        assert (Ew : w = calc_weight (v_queued e1) mul + a_pw ag) by lia.
        assert (Elw2' : lw2 = a_pw ag) by lia. rewrite Ew, Elw2'. unfold mul, Multiplier, MultiplierWithDelegations.
        rewrite Z3. destruct (0 <? a_pv ag) eqn:Epv.
        -- apply N.ltb_lt in Epv. rewrite calc_200. destruct (2 * v_queued e1 + a_pw ag =? v_queued e1) eqn:E2; [apply N.eqb_eq in E2; lia|].
           rewrite calc_200. reflexivity.
        -- apply N.ltb_ge in Epv. assert (Zp : a_pv ag = 0) by lia.
           assert (Zw : a_pw ag = 0). { rewrite Q4. apply (sumf_zero (dp_v h) (dp_w h)); [apply dp_zero|]. rewrite <- Q3. exact Zp. }
           rewrite Zw, !N.add_0_r, (calc_100 (v_queued e1)), N.eqb_refl, calc_100. reflexivity.
      * unfold sf. cbn. cbn [v_weight set_prev v1 set_start set_status set_amounts]. lia.
      * unfold sf. cbn [vals w_glob]. cbn [v_weight set_prev v1 set_start set_status set_amounts]. lia.
  - intros x y Hne Hy. destruct (Hrec x y Hne Hy) as [y3 [Hy3 [Ec _]]]. exists y3. rewrite Gvf. auto.
  - intros x. unfold held_by. rewrite Gvf. destruct (N.eq_dec x h) as [->|Hne].
    + rewrite Hg3, He. pose proof (core_held _ _ Ce1) as Hhe. unfold held in *. cbn [v_locked v_queued v_cooldown v_withdrawable set_prev v1 set_start set_status set_amounts]. lia.
    + destruct (getv s x) as [y|] eqn:Ey.
      * destruct (Hrec x y Hne Ey) as [y3 [Hy3 [Ec _]]]. rewrite Hy3. apply core_held; auto.
      * rewrite (Hnone x Hne Ey). reflexivity.
Qed.

Lemma activate_n_ok b mx n : forall s la lq s',
  Full s la lq -> activate_n n b mx s = Ok s' ->
  exists la' lq', Full s' la' lq' /\ blk s' = blk s /\ mbp s' = mbp s /\
    (forall x, In x la -> In x la') /\
    (forall x y, In x la -> getv s x = Some y -> exists y', getv s' x = Some y' /\ core y' = core y) /\
    (forall x, held_by s' x = held_by s x).
Proof.
  induction n as [|k IH]; intros s la lq s' HF H.
  - cbn in H. inversion H; subst. exists la, lq. split; auto. split; auto. split; auto. split; auto. split; auto. intros x y _ Hy. eauto.
  - cbn [activate_n] in H. bstep H s1 Hs1.
    destruct (activate_step b mx s la lq s1 HF Hs1) as [h [lq1 [F1 [Hin [Hnla [B1 [M1 [C1 Hh1]]]]]]]].
    destruct (IH s1 (la ++ [h]) lq1 s' F1 H) as [la' [lq' [F' [B' [M' [Sub' [C' Hh']]]]]]].
    exists la', lq'. split; auto. split; [congruence|]. split; [congruence|]. split; [|split; [|intros x; rewrite Hh', Hh1; reflexivity]].
    + intros x Hx. apply Sub', in_or_app. auto.
    + intros x y Hx Hy. assert (Hne : x <> h) by (intros ->; contradiction).
      destruct (C1 x y Hne Hy) as [y1 [Hy1 Ec1]]. destruct (C' x y1 (in_or_app _ _ _ (or_introl Hx)) Hy1) as [y2 [Hy2 Ec2]].
      exists y2. split; auto. congruence.
Qed.

(* ------------------------------------------------------------------ the whole transition *)

Lemma Full_LoopInv s la lq : Full s la lq -> LoopInv renewal0 s la lq.
Proof.
  intros [Hwf [I1 I2 I3 I4 I5 I6 I7] HA H2]. destruct (proj1 (Inv2_split s) H2) as [H2' Hlw].
  constructor; cbn; auto; lia.
Qed.

Lemma apply_epoch_transition_ok c b t s la lq s' :
  Full s la lq ->
  (forall a, In a (tr_renewals t) -> is_active s a) ->
  (tr_exit t <> 0 -> exists v eb, getv s (tr_exit t) = Some v /\ v_status v = StatusActive /\ v_exit v = Some eb /\ eb <= blk s) ->
  NoDup (tr_evictions t) -> (forall a, In a (tr_evictions t) -> evictable_now s a /\ (tr_exit t = 0 \/ a <> tr_exit t)) ->
  apply_epoch_transition c b t s = Ok s' ->
  exists la' lq', Full s' la' lq' /\ blk s' = blk s /\
    (forall x, In x la -> x <> tr_exit t -> In x la') /\ (forall x, held_by s' x = held_by s x).
Proof.
  intros HF Hren Hexit Hnd Hev H. unfold apply_epoch_transition in H.
  bstep H r1 Hr1. destruct r1 as [s1 acc]. bstep H s2 Hs2.
  destruct (apply_renewals_ok _ _ _ _ _ _ _ (Full_LoopInv _ _ _ HF) Hren Hr1) as [HL [Hfr Hst]].
  destruct (apply_renewal_closes _ _ _ _ _ HL Hs2) as [W2 [I2 [A2 [J2 [G2 [X2 B2]]]]]].
  assert (F2 : Full s2 la lq) by (constructor; auto).
  assert (St2 : forall x y, getv s x = Some y -> exists y', getv s2 x = Some y' /\ v_status y' = v_status y /\ v_exit y' = v_exit y /\ held y' = held y).
  { intros x y Hy. destruct (Hst x y Hy) as [y' [Hy' E]]. exists y'. rewrite G2. auto. }
  assert (Bs2 : blk s2 = blk s).
  { rewrite B2. clear - Hr1. revert Hr1. generalize renewal0. generalize s. induction (tr_renewals t) as [|a l IH]; intros s0 acc0 H.
    - cbn in H. inversion H; auto.
    - cbn [apply_renewals] in H. bstep H r1 Hr1. destruct r1 as [[sa ar] dw]. bstep H acc1 Ha1. bstep H r2 Hr2. destruct r2 as [sb vr]. bstep H acc2 Ha2.
      rewrite (IH _ _ H). pose proof (rl_remove_only a sb) as R. rewrite R. cbn.
      unfold svc_renew in Hr2. bstep Hr2 v Hv. bstep Hr2 r Hr. destruct r. inversion Hr2; subst. cbn.
      unfold aggs_renew in Hr1. bstep Hr1 r Hr'. destruct r. inversion Hr1; subst. reflexivity. }
  bstep H s3 Hs3. bstep H s4 Hs4.
  (* exit *)
  assert (Hh2 : forall x, held_by s2 x = held_by s x).
  { intros x. unfold held_by. destruct (getv s x) as [y|] eqn:Ey.
    - destruct (St2 x y Ey) as [y' [Hy' [_ [_ Eh]]]]. rewrite Hy'. exact Eh.
    - rewrite G2. rewrite Hfr; [rewrite Ey; reflexivity|]. intros Hx. destruct (Hren x Hx) as [y [Hy _]]. congruence. }
  assert (E3 : exists la3, Full s3 la3 lq /\ blk s3 = blk s2 /\ (forall x, In x la -> x <> tr_exit t -> In x la3) /\ (forall x, held_by s3 x = held_by s2 x) /\
             (forall x y, (tr_exit t = 0 \/ x <> tr_exit t) -> getv s2 x = Some y -> exists y', getv s3 x = Some y' /\ core y' = core y)).
  { destruct (tr_exit t =? 0) eqn:Ez.
    - inversion Hs3; subst s3. exists la. split; auto. split; auto. split; auto. split; auto. intros x y _ Hy. eauto.
    - apply N.eqb_neq in Ez. destruct (Hexit Ez) as [v [eb [Hv [Hact [Hex Heb]]]]].
      destruct (St2 _ _ Hv) as [v2 [Hv2 [Es2 [Ex2 _]]]].
      bstep Hs3 r Hr. destruct r as [s2a ve]. destruct (aggs_exit (tr_exit t) s2a) as [s2b ae] eqn:Hae.
      destruct (exit_step s2 la lq (tr_exit t) v2 eb s2a ve s2b ae s3 F2 Hv2) as [l1 [l2 [El [F3 [C3 [X3 [B3 [M3 H3]]]]]]]]; auto; try congruence; try lia.
      exists (l1 ++ l2). split; auto. split; auto. split; [|split; [exact H3|]].
      + intros x Hx Hne. rewrite El in Hx. apply in_app_iff in Hx as [Hx|[Hx|Hx]]; [apply in_or_app; auto|congruence|apply in_or_app; auto].
      + intros x y [Hz|Hne] Hy; [congruence|]. apply (C3 x y Hne Hy). }
  destruct E3 as [la3 [F3 [B3 [Sub3 [Hh3 C3]]]]].
  (* evictions *)
  destruct (apply_evictions_ok c b (tr_evictions t) s3 la3 lq s4) as [[lq4 F4] [B4 [M4 [St4 H4]]]]; auto.
  { exists lq. auto. }
  { intros a Ha. destruct (Hev a Ha) as [[v [Hv [Hact Hex]]] Hne].
    destruct (St2 _ _ Hv) as [v2 [Hv2 [Es2 [Ex2 _]]]]. destruct (C3 a v2 Hne Hv2) as [v3 [Hv3 Ec]]. cf Ec.
    exists v3. split; auto. split; congruence. }
  (* activations *)
  destruct (activate_n_ok b (get_mbp s4) (N.to_nat (tr_count t)) s4 la3 lq4 s' F4 H) as [la' [lq' [F' [B' [M' [Sub' [_ Hh']]]]]]].
  exists la', lq'. split; auto. split; [congruence|]. split; [intros x Hx Hne; apply Sub', Sub3; auto|].
  intros x. rewrite Hh', H4, Hh3, Hh2. reflexivity.
Qed.

(* ------------------------------------------------------------------ what compute_epoch_transition returns *)

Lemma update_group_filter_sub s b l r : update_group_filter s b l = Ok r -> forall a, In a r -> In a l.
Proof.
  revert r. induction l as [|x t IH]; intros r H a Ha; cbn in H.
  - inversion H; subst. contradiction.
  - bstep H v Hv. bstep H r' Hr'. inversion H; subst. destruct (is_period_end v b && negb (is_some (v_exit v))).
    + destruct Ha as [<-|Ha]; [left; auto|right; eauto].
    + right; eauto.
Qed.

Lemma nodup_map_filter {A} (f : A -> N) (p : A -> bool) (l : list A) : NoDup (map f l) -> NoDup (map f (filter p l)).
Proof.
  induction l as [|x t IH]; cbn; intros H; [constructor|]. inversion H; subst. destruct (p x); cbn; auto.
  constructor; auto. intros Hx. apply H2. apply in_map_iff in Hx as [y [E Hy]]. apply filter_In in Hy as [Hy _].
  apply in_map_iff. exists y; auto.
Qed.

Lemma compute_facts c b s la lq t :
  Full s la lq -> compute_epoch_transition c b s = Ok t ->
  (forall a, In a (tr_renewals t) -> is_active s a) /\ tr_exit t = get_exit s b /\
  NoDup (tr_evictions t) /\
  (forall a, In a (tr_evictions t) -> evictable_now s a).
Proof.
  intros [Hwf Hi HA H2] H. unfold compute_epoch_transition in H.
  bstep H ev Hev. bstep H ren Hren. inversion H; subst t; clear H. cbn [tr_renewals tr_exit tr_evictions].
  split; [|split; [reflexivity|]].
  - intros a Ha. unfold update_group in Hren. bstep Hren l Hl. destruct (j_ren _ H2) as [lr [R A]].
    rewrite (rl_iterate_spec s lr l R Hl) in Hren. apply A. eapply update_group_filter_sub; eauto.
  - destruct (negb (b =? 0) && (b mod c_evict_int c =? 0)); [|inversion Hev; subst; split; [constructor|intros a []]].
    bstep Hev l Hl. inversion Hev; subst ev; clear Hev.
    destruct (leader_group_is_active_list s la lq Hwf) as [r [Hr [Hm Hin]]]. rewrite Hr in Hl. inversion Hl; subst l.
    split.
    + apply nodup_map_filter. rewrite Hm. apply (wl_nodup _ _ _ (wf_a _ _ _ Hwf)).
    + intros a Ha. apply in_map_iff in Ha as [[a' v] [Ea Hf]]. cbn in Ea. subst a'. apply filter_In in Hf as [Hf1 Hf2]. cbn in Hf2.
      exists v. split; [apply Hin; auto|]. split.
      * apply (wf_st _ _ _ Hwf a v (Hin a v Hf1)). rewrite <- Hm. apply in_map_iff. exists (a, v). auto.
      * unfold evictable in Hf2. destruct (v_offline v); [|discriminate]. apply andb_true_iff in Hf2 as [_ F2].
        destruct (v_exit v); [discriminate|reflexivity].
Qed.

(* ------------------------------------------------------------------ SyncPOS and the block step *)

Lemma sync_pos_cases c b s s1 ac up :
  sync_pos c b s = Ok (s1, ac, up) ->
  s1 = s \/ exists t, compute_epoch_transition c b s = Ok t /\ apply_epoch_transition c b t s = Ok s1.
Proof.
  unfold sync_pos. intros H. destruct (b <? c_hayabusa c + c_tp c); [inversion H; auto|].
  bstep H r Hr. destruct r as [sa activated].
  assert (T : forall sx ax, transition_pos c b s = Ok (sx, ax) ->
              (sx = s /\ ax = false) \/ exists t, compute_epoch_transition c b s = Ok t /\ apply_epoch_transition c b t s = Ok sx).
  { intros sx ax Ht. unfold transition_pos in Ht.
    destruct (negb (b mod c_epoch c =? 0)); [inversion Ht; auto|].
    destruct (0 <? l_size (act s)); [inversion Ht; auto|].
    destruct (l_size (que s) * 3 <? get_mbp s * 2); [inversion Ht; auto|].
    bstep Ht t Hc. bstep Ht sy Ha. inversion Ht; subst. right. eauto. }
  assert (Hk : forall sx ux, housekeep c b s = Ok (sx, ux) ->
              sx = s \/ exists t, compute_epoch_transition c b s = Ok t /\ apply_epoch_transition c b t s = Ok sx).
  { intros sx ux Hh. unfold housekeep in Hh. destruct (negb (b mod c_epoch c =? 0)); [inversion Hh; auto|].
    bstep Hh t Hc. destruct (negb (has_updates t)); [inversion Hh; auto|].
    bstep Hh sy Ha. bstep Hh u Hu. inversion Hh; subst. right. eauto. }
  destruct (negb (0 <? l_size (act s)) && ((c_tp c =? 0) || ((b - c_hayabusa c) mod c_tp c =? 0))) eqn:Ec.
  - apply andb_true_iff in Ec as [Ea _]. apply negb_true_iff in Ea. rewrite Ea in H. cbn [orb] in H.
    assert (E2 : activated && negb activated = false) by (destruct activated; reflexivity). rewrite E2 in H.
    inversion H; subst s1. destruct (T _ _ Hr) as [[-> _]|Hx]; auto.
  - inversion Hr; subst sa activated. destruct (((0 <? l_size (act s)) || false) && negb false).
    + bstep H r2 Hh. destruct r2. inversion H; subst. eapply Hk; eauto.
    + inversion H; auto.
Qed.

Lemma Inv2_w_blk b s : blk s <= b -> Inv2 s -> Inv2 (w_blk b s).
Proof.
  intros Hb [H1 H2 H3 H4 H5 H6 H7 H8 H9 H10 H11]. constructor; auto.
  - destruct H3 as [lr [R A]]. exists lr. split; [apply (RWF_ext s _ lr); try reflexivity; exact R|]. auto.
  - intros b' a Hg Ha Hlt. apply (H4 b' a Hg Ha). cbn in Hlt. lia.
Qed.

Lemma Full_w_blk b s la lq : blk s <= b -> Full s la lq -> Full (w_blk b s) la lq.
Proof.
  intros Hb [Hwf [I1 I2 I3 I4 I5 I6 I7] HA H2]. constructor.
  - apply (WF_same_vals s); auto.
  - constructor; cbn; auto.
  - apply (InvA_frame s); auto. apply kept_same_vals; reflexivity.
  - apply Inv2_w_blk; auto.
Qed.

Theorem block_step_Full c s la lq : Full s la lq ->
  exists la' lq', Full (step c s OBlock) la' lq' /\ (forall x, In x la -> x <> get_exit s (blk s + 1) -> In x la') /\
    (forall x, held_by (step c s OBlock) x = held_by s x) /\ blk (step c s OBlock) = blk s + 1.
Proof.
  intros HF. unfold step. cbn [run_op].
  set (b := blk s + 1) in *. set (s0 := w_blk b s) in *.
  assert (F0 : Full s0 la lq) by (apply Full_w_blk; auto; unfold b; lia).
  destruct (sync_pos c b s0) as [[[s1 ac] up]| |] eqn:Hr;
    [|exists la, lq; split; [auto|split; [auto|split; [intros; reflexivity|reflexivity]]]
     |exists la, lq; split; [auto|split; [auto|split; [intros; reflexivity|reflexivity]]]].
  destruct (sync_pos_cases _ _ _ _ _ _ Hr) as [->|[t [Hc Ha]]];
    [exists la, lq; split; [auto|split; [auto|split; [intros; reflexivity|reflexivity]]]|].
  destruct (compute_facts c b s0 la lq t F0 Hc) as [Hren [Hex [Hnd Hev]]].
  change (get_exit s0 b) with (get_exit s b) in Hex.
  destruct (apply_epoch_transition_ok c b t s0 la lq s1 F0 Hren) as [la' [lq' [F' [Bk [Sub Hh]]]]]; auto.
  - intros Hz. rewrite Hex in *. destruct (j_exit _ (f_2 _ _ _ HF) b (get_exit s b) eq_refl Hz) as [v [Hv [Hs He]]]; [unfold b; lia|].
    exists v, b. repeat split; auto. cbn. lia.
  - intros a Ha'. split; [apply Hev; auto|]. destruct (N.eq_dec (tr_exit t) 0) as [Hz|Hz]; [left; auto|right].
    intros ->. destruct (Hev _ Ha') as [v [Hv [Hs He]]]. rewrite Hex in *.
    destruct (j_exit _ (f_2 _ _ _ HF) b (get_exit s b) eq_refl Hz) as [v' [Hv' [_ He']]]; [unfold b; lia|].
    change (getv s0 (get_exit s b)) with (getv s (get_exit s b)) in Hv. assert (v' = v) by congruence. subst v'. congruence.
  - exists la', lq'. split; auto. split; [intros x Hx Hne; apply Sub; auto; rewrite Hex; auto|].
    split; [intros x; rewrite Hh; reflexivity|rewrite Bk; reflexivity].
Qed.
