(* Staker/ProofsEpoch.v — the epoch-boundary step (housekeeping: renewals, the scheduled exit, evictions, activations;
   the PoA->PoS transition) preserves all invariants. *)
From Coq Require Import List NArith Bool Lia.
From Coq Require Import ZifyN ZifyNat ZifyBool.
From Verif Require Import Common.Util Staker.Model Staker.Base Staker.Lists Staker.Inv Staker.RList Staker.Inv2
  Staker.ProofsStep Staker.ProofsUser Staker.ProofsUser2.
Import ListNotations.
Open Scope N_scope.

Opaque e18 two64.

(* ------------------------------------------------------------------ Inv2 without the total-weight equation *)

Definition fixw (s : st) : st := w_glob (g_lv s) (sumf v_weight (vals s)) (g_q s) (g_wd s) (g_cd s) s.
Definition Inv2' (s : st) : Prop := Inv2 (fixw s).

Lemma Inv2_split s : Inv2 s <-> Inv2' s /\ g_lw s = sumf v_weight (vals s).
Proof.
  split.
  - intros H. split; [|apply (j_lw _ H)]. apply (Inv2_ext s); auto. unfold fixw. repeat split. cbn. symmetry. apply (j_lw _ H).
  - intros [H E]. apply (Inv2_ext (fixw s)); auto. unfold fixw. repeat split. cbn. auto.
Qed.

Lemma Inv2'_ext s s' :
  vals s' = vals s -> aggs s' = aggs s -> dels s' = dels s -> rh s' = rh s -> rt s' = rt s -> rprev s' = rprev s ->
  rnext s' = rnext s -> exits s' = exits s -> blk s' = blk s -> Inv2' s -> Inv2' s'.
Proof.
  intros E1 E2 E3 E4 E5 E6 E7 E8 E9 H. unfold Inv2' in *. apply (Inv2_ext (fixw s)); auto.
  unfold fixw. repeat split; cbn; auto. rewrite E1. reflexivity.
Qed.

(* the record and the aggregation of an ACTIVE validator are rewritten (renewal): status, exit block, cooldown kept;
   the new weight is consistent with the new locked stake and the new aggregation *)
Lemma Inv2'_active_upd s a v v' x :
  Inv2' s -> getv s a = Some v -> v_status v = StatusActive ->
  v_status v' = v_status v -> v_exit v' = v_exit v -> v_cooldown v' = v_cooldown v ->
  v_weight v' = calc_weight (v_locked v') (v_multiplier v') + a_lw x -> v_punlock v' + 1 <= v_locked v' ->
  Inv2' (set_agg a x (setv a v' s)).
Proof.
  unfold Inv2'. intros [H1 H2 H3 H4 H5 H6 H7 H8 H9 H10 H11] Hv Hact Es Ex Ec Ew Ep.
  set (s' := set_agg a x (setv a v' s)).
  assert (Gv0 : forall b, getv (fixw s) b = getv s b) by reflexivity.
  assert (Gv : forall b y, getv (fixw s') b = Some y -> (b = a /\ y = v') \/ (b <> a /\ getv s b = Some y)).
  { intros b y Hy. change (getv (fixw s') b) with (getv (setv a v' s) b) in Hy. destruct (N.eq_dec a b) as [<-|Hne].
    - rewrite getv_setv_same in Hy. inversion Hy; auto.
    - rewrite getv_setv_other in Hy by auto. right; auto. }
  assert (Ga : forall b, get_agg (fixw s') b = if a =? b then x else get_agg s b).
  { intros b. change (get_agg (fixw s') b) with (get_agg (set_agg a x (setv a v' s)) b). rewrite get_agg_set_agg2. reflexivity. }
  constructor.
  - intros b Hn. rewrite Ga. destruct (a =? b) eqn:E.
    + apply N.eqb_eq in E. subst b. exfalso. apply (Hn v'); [|congruence].
      change (getv (fixw s') a) with (getv (setv a v' s) a). apply getv_setv_same.
    + apply N.eqb_neq in E. apply (H1 b). intros y Hy. apply (Hn y).
      change (getv (fixw s') b) with (getv (setv a v' s) b). rewrite getv_setv_other by auto. exact Hy.
  - intros b y Hy Hs. destruct (Gv b y Hy) as [[-> ->]|[Hne Hb]]; [|apply (H2 b y Hb Hs)].
    rewrite Ec. apply (H2 a v Hv). congruence.
  - destruct H3 as [lr [R A]]. exists lr. split; [apply (RWF_ext (fixw s) _ lr); try reflexivity; exact R|].
    intros b Hb. destruct (A b Hb) as [y [Hy Hs]]. change (getv (fixw s') b) with (getv (setv a v' s) b).
    destruct (N.eq_dec a b) as [<-|Hne].
    + exists v'. rewrite getv_setv_same. split; auto. congruence.
    + exists y. rewrite getv_setv_other by auto. auto.
  - intros b c Hg Hc Hb. destruct (H4 b c Hg Hc Hb) as [y [Hy [Hs He]]].
    change (getv (fixw s') c) with (getv (setv a v' s) c). destruct (N.eq_dec a c) as [<-|Hne].
    + rewrite Gv0, Hv in Hy. inversion Hy; subst y. exists v'. rewrite getv_setv_same. repeat split; congruence.
    + exists y. rewrite getv_setv_other by auto. auto.
  - reflexivity.
  - intros b y Hy Hs. rewrite Ga. destruct (Gv b y Hy) as [[-> ->]|[Hne Hb]].
    + rewrite N.eqb_refl. auto.
    + assert (E : (a =? b) = false) by (apply N.eqb_neq; auto). rewrite E. apply (H6 b y Hb Hs).
  - intros b y Hy Hs. destruct (Gv b y Hy) as [[-> ->]|[Hne Hb]]; [congruence|apply (H7 b y Hb Hs)].
  - intros b y Hy Hs. destruct (Gv b y Hy) as [[-> ->]|[Hne Hb]].
    + exfalso. rewrite Es, Hact in Hs. discriminate.
    + rewrite Ga. assert (E : (a =? b) = false) by (apply N.eqb_neq; auto). rewrite E. apply (H8 b y Hb Hs).
  - intros b Hb. rewrite Ga. change (getv (fixw s') b) with (getv (setv a v' s) b) in Hb. destruct (N.eq_dec a b) as [<-|Hne].
    + rewrite getv_setv_same in Hb. discriminate.
    + assert (E : (a =? b) = false) by (apply N.eqb_neq; auto). rewrite E. rewrite getv_setv_other in Hb by auto. apply (H9 b Hb).
  - intros id d Hin. specialize (H10 id d Hin). change (getv (fixw s') (d_val d)) with (getv (setv a v' s) (d_val d)).
    destruct (N.eq_dec a (d_val d)) as [<-|Hne]; [rewrite getv_setv_same; discriminate|rewrite getv_setv_other by auto; exact H10].
  - intros b y Hy. destruct (Gv b y Hy) as [[-> ->]|[Hne Hb]]; [rewrite Es; apply (H11 a v Hv)|apply (H11 b y Hb)].
Qed.
