(* Staker/ProofsAll.v — the full invariant holds along every history. *)
From Coq Require Import List NArith Bool Lia.
From Coq Require Import ZifyN ZifyNat ZifyBool.
From Verif Require Import Common.Util Staker.Model Staker.Base Staker.Lists Staker.Inv Staker.RList Staker.Inv2
  Staker.ProofsStep Staker.ProofsUser Staker.ProofsUser2 Staker.ProofsHist Staker.ProofsEpoch.
Import ListNotations.
Open Scope N_scope.

Opaque e18 two64.

Definition FullInv (s : st) : Prop := exists la lq, Full s la lq.

Lemma Inv2_init d m : Inv2 (init d m).
Proof.
  constructor.
  - intros a _. cbn. auto.
  - intros a v H. discriminate.
  - exists []. split; [constructor; cbn; auto; constructor|intros a []].
  - intros b a H Ha. cbn in H. congruence.
  - reflexivity.
  - intros a v H. discriminate.
  - intros a v H. discriminate.
  - intros a v H. discriminate.
  - intros a _. reflexivity.
  - intros id dd [].
  - intros a v H. discriminate.
Qed.

Lemma Full_init d m : FullInv (init d m).
Proof.
  destruct (InvAll_init d m) as [la [lq [H1 [H2 H3]]]]. exists la, lq. constructor; auto. apply Inv2_init.
Qed.

Lemma is_block_same o : is_block_op o = is_block o.
Proof. destruct o; reflexivity. Qed.

(* every user operation (and every reverted / failed one) preserves the full invariant and the active list *)
Lemma user_step_Full c o s la lq :
  is_block o = false -> Full s la lq -> exists lq', Full (step c s o) la lq' /\ keeps_active s (step c s o) la.
Proof.
  intros Hb [Hwf Hi HA H2].
  destruct (user_step_ok c o s la lq Hb Hwf Hi HA) as [lq' [W [I [K A]]]].
  assert (J : Inv2 (step c s o)).
  { unfold step. destruct (run_op c o s) as [[s' x]| |] eqn:E; auto.
    apply (user_run_inv2 c o s s' x la lq); auto. }
  exists lq'. split; auto. constructor; auto.
Qed.

Theorem step_FullInv c s o : FullInv s -> FullInv (step c s o).
Proof.
  intros [la [lq HF]]. destruct (is_block o) eqn:Eb.
  - destruct o; try discriminate. destruct (block_step_Full c s la lq HF) as [la1 [lq1 [F1 _]]]. exists la1, lq1; auto.
  - destruct (user_step_Full c o s la lq Eb HF) as [lq' [F' _]]. exists la, lq'. auto.
Qed.

Theorem run_FullInv c s ops : FullInv s -> FullInv (run c s ops).
Proof.
  revert s. induction ops as [|o t IH]; intros s H; cbn; auto. apply IH. apply step_FullInv; auto.
Qed.

Theorem history_FullInv c d m ops : FullInv (run c (init d m) ops).
Proof. apply run_FullInv, Full_init. Qed.


(* ------------------------------------------------------------------ consequences *)

Lemma WF_active_unique s la lq la' lq' : WF s la lq -> WF s la' lq' -> la = la'.
Proof.
  intros H1 H2. destruct (leader_group_is_active_list s la lq H1) as [r [Hr [Hm _]]].
  destruct (leader_group_is_active_list s la' lq' H2) as [r' [Hr' [Hm' _]]]. congruence.
Qed.

(* at most one validator leaves the leader group in one block, and only the one scheduled in the exit map *)
Lemma one_exit_per_block c s la lq la' lq' :
  Full s la lq -> WF (step c s OBlock) la' lq' ->
  forall a, In a la -> ~ In a la' -> a = get_exit s (blk s + 1).
Proof.
  intros HF W' a Ha Hn. destruct (block_step_Full c s la lq HF) as [la1 [lq1 [F1 [Sub _]]]].
  rewrite (WF_active_unique _ _ _ _ _ W' (f_wf _ _ _ F1)) in Hn.
  destruct (N.eq_dec a (get_exit s (blk s + 1))); auto. exfalso. apply Hn, Sub; auto.
Qed.

(* a user operation never changes the leader group *)
Lemma user_op_keeps_leader_group c o s la lq la' lq' :
  is_block o = false -> Full s la lq -> WF (step c s o) la' lq' -> la' = la.
Proof.
  intros Hb HF W'. destruct (user_step_Full c o s la lq Hb HF) as [lq1 [F1 _]].
  symmetry. apply (WF_active_unique _ _ _ _ _ (f_wf _ _ _ F1) W').
Qed.

Lemma queued_group_is_queued_list s la lq : WF s la lq ->
  exists r, iterate false s = Ok r /\ map fst r = lq /\ forall a v, In (a, v) r -> getv s a = Some v.
Proof.
  intros [_ [Hs Ht Hz Hn] _]. unfold iterate, walk_fuel. cbn [get_ls].
  eapply ll_walk_seg; eauto. apply le_S. apply keys_length_le; auto.
  intros a Ha. eapply seg_in_get; eauto.
Qed.

Lemma WF_queued_unique s la lq la' lq' : WF s la lq -> WF s la' lq' -> lq = lq'.
Proof.
  intros H1 H2. destruct (queued_group_is_queued_list s la lq H1) as [r [Hr [Hm _]]].
  destruct (queued_group_is_queued_list s la' lq' H2) as [r' [Hr' [Hm' _]]]. congruence.
Qed.

(* the block number always advances, also when SyncPOS returns an error (the epoch's housekeeping is then skipped as a whole) *)
Lemma block_number_advances c s : FullInv s -> blk (step c s OBlock) = blk s + 1.
Proof. intros [la [lq HF]]. destruct (block_step_Full c s la lq HF) as [_ [_ [_ [_ [_ E]]]]]. exact E. Qed.

Lemma block_error_skips_housekeeping c s :
  (forall r, sync_pos c (blk s + 1) (w_blk (blk s + 1) s) <> Ok r) -> step c s OBlock = w_blk (blk s + 1) s.
Proof.
  intros H. unfold step. cbn [run_op]. destruct (sync_pos c (blk s + 1) (w_blk (blk s + 1) s)) as [[[s1 a] u]| |]; [exfalso; eapply H; eauto|reflexivity|reflexivity].
Qed.
