(* Staker/ProofsHist.v — from single operations to histories: every user operation and every block that is not an
   epoch boundary preserves the invariant and leaves the leader group (members, order, weights) and the total weight
   untouched; the invariant holds along every history provided the epoch-boundary step preserves it. *)
From Coq Require Import List NArith Bool Lia.
From Coq Require Import ZifyN ZifyNat ZifyBool.
From Verif Require Import Common.Util Staker.Model Staker.Base Staker.Lists Staker.Inv Staker.ProofsStep Staker.ProofsUser.
Import ListNotations.
Open Scope N_scope.

Opaque e18 two64.

Definition is_block (o : op) : bool := match o with OBlock => true | _ => false end.

Lemma user_run_ok c o s s' x la lq :
  is_block o = false -> run_op c o s = Ok (s', x) -> WF s la lq -> Inv1 s -> InvA s -> user_ok s s' la lq.
Proof.
  intros Hb H Hwf Hi HA. destruct o; try discriminate; cbn [run_op] in H.
  - bstep H u G. eapply add_validation_ok; eauto.
  - bstep H u G. eapply increase_stake_ok; eauto.
  - bstep H u G. eapply decrease_stake_ok; eauto.
  - eapply signal_exit_ok; eauto.
  - bstep H r Hr. destruct r as [s1 y]. bstep H s2 Hp. inversion H; subst. eapply withdraw_stake_ok; eauto.
  - eapply set_online_ok; eauto.
  - eapply set_beneficiary_ok; eauto.
  - bstep H u G. eapply add_delegation_ok; eauto.
  - eapply signal_delegation_exit_ok; eauto.
  - bstep H r Hr. destruct r as [s1 y]. bstep H s2 Hp. inversion H; subst. eapply withdraw_delegation_ok; eauto.
  - eapply increase_reward_ok; eauto.
  - inversion H; subst. destruct Hi as [I1 I2 I3 I4 I5 I6 I7]. apply user_ok_same_vals; auto. constructor; cbn; auto.
  - inversion H; subst. destruct Hi as [I1 I2 I3 I4 I5 I6 I7]. apply user_ok_same_vals; auto. constructor; cbn; auto. lia.
Qed.

Lemma keeps_refl s la : keeps_active s s la.
Proof. split; auto. intros a v _ Hv. eauto. Qed.

(* the step function: failure leaves the state unchanged *)
Lemma user_step_ok c o s la lq :
  is_block o = false -> WF s la lq -> Inv1 s -> InvA s -> user_ok s (step c s o) la lq.
Proof.
  intros Hb Hwf Hi HA. unfold step. destruct (run_op c o s) as [[s' x]| |] eqn:E.
  - eapply user_run_ok; eauto.
  - exists lq. split; [auto|split; [auto|split; [apply keeps_refl|auto]]].
  - exists lq. split; [auto|split; [auto|split; [apply keeps_refl|auto]]].
Qed.

Lemma off_epoch_block_ok c s la lq :
  (blk s + 1) mod c_epoch c <> 0 -> WF s la lq -> Inv1 s -> InvA s -> user_ok s (step c s OBlock) la lq.
Proof.
  intros Hb Hwf [I1 I2 I3 I4 I5 I6 I7] HA. rewrite block_off_epoch by auto.
  apply user_ok_same_vals; auto. constructor; cbn; auto.
Qed.

(* ------------------------------------------------------------------ the leader group as the model computes it *)

Lemma ll_walk_seg s p h l fuel :
  seg s p h l None -> (length l <= fuel)%nat ->
  exists r, ll_walk fuel h s = Ok r /\ map fst r = l /\ forall a v, In (a, v) r -> getv s a = Some v.
Proof.
  revert p h fuel. induction l as [|a t IH]; intros p h fuel H Hf.
  - cbn in H. subst h. exists []. destruct fuel; cbn; repeat split; auto; intros ? ? [].
  - destruct H as [-> [v [Hv [Hp H]]]]. destruct fuel as [|f]; [cbn in Hf; lia|].
    destruct (IH (Some a) (v_next v) f H) as [r [Hr [Hm Hin]]]; [cbn in Hf; lia|].
    exists ((a, v) :: r). cbn [ll_walk]. rewrite Hv. cbn. rewrite Hr. cbn. repeat split; [f_equal; auto|].
    intros b vb [E|Hb]; [inversion E; subst; auto|auto].
Qed.

Lemma keys_length_le s l : NoDup l -> (forall a, In a l -> exists v, getv s a = Some v) -> (length l <= length (vals s))%nat.
Proof.
  intros Hnd Hin. rewrite <- (map_length fst (vals s)). apply NoDup_incl_length; auto.
  intros a Ha. destruct (Hin a Ha) as [v Hv]. unfold getv in Hv. clear - Hv.
  induction (vals s) as [|[k x] t IH]; cbn in *; [discriminate|].
  destruct (k =? a) eqn:E; [apply N.eqb_eq in E; left; auto|right; auto].
Qed.

(* the leader group the model reports is exactly the abstract active list, with the stored records *)
Lemma leader_group_is_active_list s la lq : WF s la lq ->
  exists r, iterate true s = Ok r /\ map fst r = la /\ forall a v, In (a, v) r -> getv s a = Some v.
Proof.
  intros [[Hs Ht Hz Hn] _ _]. unfold iterate, walk_fuel. cbn [get_ls].
  eapply ll_walk_seg; eauto. apply le_S. apply keys_length_le; auto.
  intros a Ha. eapply seg_in_get; eauto.
Qed.

Definition leader_weights (s : st) : res (list (N * N)) :=
  r <- iterate true s;; Ok (map (fun av : N * validation => (fst av, v_weight (snd av))) r).

Lemma leader_weights_spec s la lq : WF s la lq ->
  exists ws, leader_weights s = Ok ws /\ map fst ws = la /\
             forall a w, In (a, w) ws -> exists v, getv s a = Some v /\ v_weight v = w.
Proof.
  intros Hwf. destruct (leader_group_is_active_list s la lq Hwf) as [r [Hr [Hm Hin]]].
  unfold leader_weights. rewrite Hr. cbn. eexists. split; [reflexivity|]. split.
  - rewrite map_map. cbn. exact Hm.
  - intros a w Hx. apply in_map_iff in Hx as [[b v] [E Hb]]. cbn in E. inversion E; subst. exists v. split; auto.
Qed.

Lemma weights_determined (l1 l2 : list (N * N)) :
  map fst l1 = map fst l2 -> NoDup (map fst l1) ->
  (forall a w1 w2, In (a, w1) l1 -> In (a, w2) l2 -> w1 = w2) -> l1 = l2.
Proof.
  revert l2. induction l1 as [|[a w] t IH]; intros [|[b x] t2] Hm Hnd Hw; cbn in *; try discriminate; auto.
  inversion Hm; subst. inversion Hnd; subst. f_equal.
  - f_equal. apply (Hw b); auto.
  - apply IH; auto. intros c w1 w2 Hc1 Hc2. apply (Hw c); auto.
Qed.

Lemma leader_weights_kept s s' la lq lq' :
  WF s la lq -> WF s' la lq' -> keeps_active s s' la -> leader_weights s' = leader_weights s /\ g_lw s' = g_lw s.
Proof.
  intros H1 H2 [K Kw]. split; auto.
  destruct (leader_weights_spec s la lq H1) as [w1 [E1 [M1 P1]]].
  destruct (leader_weights_spec s' la lq' H2) as [w2 [E2 [M2 P2]]].
  rewrite E1, E2. f_equal. apply weights_determined.
  - congruence.
  - rewrite M2. apply (wl_nodup _ _ _ (wf_a _ _ _ H2)).
  - intros a x2 x1 Hx2 Hx1. destruct (P1 a x1 Hx1) as [v1 [Hv1 <-]]. destruct (P2 a x2 Hx2) as [v2 [Hv2 <-]].
    assert (Hin : In a la) by (rewrite <- M1; apply in_map_iff; exists (a, v_weight v1); auto).
    destruct (K a v1 Hin Hv1) as [v' [Hv' Ew]]. congruence.
Qed.

(* ------------------------------------------------------------------ histories *)

Lemma InvAll_init d m : InvAll (init d m).
Proof.
  exists [], []. split; [|split].
  - constructor.
    + constructor; cbn; auto. constructor.
    + constructor; cbn; auto. constructor.
    + intros a v H. discriminate.
  - constructor; cbn; auto; try lia. intros id dd H. discriminate.
  - intros a _. reflexivity.
Qed.

(* the epoch-boundary block step (housekeeping / the PoA->PoS transition) as a proof obligation *)
Definition epoch_step_preserves (c : cfg) : Prop :=
  forall s, InvAll s -> (blk s + 1) mod c_epoch c = 0 -> InvAll (step c s OBlock).

Lemma step_InvAll c s o : epoch_step_preserves c -> InvAll s -> InvAll (step c s o).
Proof.
  intros He [la [lq [Hwf [Hi HA]]]]. destruct (is_block o) eqn:Eb.
  - destruct o; try discriminate. destruct (N.eq_dec ((blk s + 1) mod c_epoch c) 0) as [E|E].
    + apply He; auto. exists la, lq; auto.
    + destruct (off_epoch_block_ok c s la lq E Hwf Hi HA) as [lq' [H1 [H2 [_ H3]]]]. exists la, lq'; auto.
  - destruct (user_step_ok c o s la lq Eb Hwf Hi HA) as [lq' [H1 [H2 [_ H3]]]]. exists la, lq'; auto.
Qed.

Lemma run_InvAll c s ops : epoch_step_preserves c -> InvAll s -> InvAll (run c s ops).
Proof.
  intros He. revert s. induction ops as [|o t IH]; intros s H; cbn; auto.
  apply IH. apply step_InvAll; auto.
Qed.

(* histories without an epoch-boundary block: unconditional *)
Fixpoint no_epoch_block (c : cfg) (s : st) (ops : list op) : Prop :=
  match ops with
  | [] => True
  | o :: t => (is_block o = true -> (blk s + 1) mod c_epoch c <> 0) /\ no_epoch_block c (step c s o) t
  end.

Lemma run_InvAll_no_epoch c s ops la lq :
  WF s la lq -> Inv1 s -> InvA s -> no_epoch_block c s ops ->
  exists lq', WF (run c s ops) la lq' /\ Inv1 (run c s ops) /\ InvA (run c s ops) /\
              leader_weights (run c s ops) = leader_weights s /\ g_lw (run c s ops) = g_lw s.
Proof.
  revert s lq. induction ops as [|o t IH]; intros s lq Hwf Hi HA Hn; cbn.
  - exists lq. split; [auto|split; [auto|split; [auto|split; reflexivity]]].
  - destruct Hn as [Hb Hn].
    assert (U : user_ok s (step c s o) la lq).
    { destruct (is_block o) eqn:Eb.
      - destruct o; try discriminate. apply off_epoch_block_ok; auto.
      - apply user_step_ok; auto. }
    destruct U as [lq1 [H1 [H2 [H3 H4]]]].
    destruct (IH (step c s o) lq1 H1 H2 H4 Hn) as [lq' [J1 [J2 [J3 [J4 J5]]]]].
    destruct (leader_weights_kept s (step c s o) la lq lq1 Hwf H1 H3) as [K1 K2].
    unfold run in *. exists lq'. split; [auto|split; [auto|split; [auto|split; congruence]]].
Qed.

(* ------------------------------------------------------------------ the tracked total is the sum of all holdings *)

Definition held (v : validation) : N := v_locked v + v_queued v + v_cooldown v + v_withdrawable v.

Lemma sumf_plus {V} (f g : V -> N) (m : list (N * V)) : sumf (fun v => f v + g v) m = sumf f m + sumf g m.
Proof. induction m as [|[k v] t IH]; cbn; [reflexivity|]. rewrite IH. lia. Qed.

Lemma effective_is_sum_of_holdings s : Inv1 s ->
  eff s = (sumf held (vals s) + sumf d_stake (dels s)) * e18 /\ eff s <= bal s /\
  g_lv s + g_q s + g_wd s + g_cd s = sumf held (vals s) + sumf d_stake (dels s).
Proof.
  intros [I1 I2 I3 I4 I5 I6 I7].
  assert (E : g_lv s + g_q s + g_wd s + g_cd s = sumf held (vals s) + sumf d_stake (dels s)).
  { unfold held. rewrite !sumf_plus. lia. }
  split; [rewrite I5, E; reflexivity|split; auto].
Qed.
