(* Staker/Witness.v — computed witnesses on large histories (a hundred validators), compiled once; Properties/C16.v and C17.v cite them. *)
From Coq Require Import List NArith Bool Lia.
From Verif Require Import Common.Util Staker.Model Staker.Base Staker.ProofsHist Staker.Held Staker.ProofsCustody.
Import ListNotations.
Open Scope N_scope.

(* ---- 102 active validators, all offline: the eviction loop's exit-slot search fails at block 16 ---- *)
Definition big_cfg : cfg := mkC 4 8 12 16 4 8 8 0 0.
Definition big_ops : list op :=
  map (fun i => OAddValidation (4096 + N.of_nat i) (61440 + N.of_nat i) 8 25000000) (seq 0 102) ++
  repeat OBlock 5 ++ map (fun i => OSetOnline (4096 + N.of_nat i) false) (seq 0 102) ++ repeat OBlock 10.

Lemma big_sync_errs :
  sync_pos big_cfg (blk (run big_cfg (init 0 102) big_ops) + 1)
    (w_blk (blk (run big_cfg (init 0 102) big_ops) + 1) (run big_cfg (init 0 102) big_ops)) = Err.
Proof. vm_compute. reflexivity. Qed.

Lemma big_block_is_skipped :
  let s := run big_cfg (init 0 102) big_ops in
  (blk s, l_size (act s), answer big_cfg s OBlock, blk (step big_cfg s OBlock), l_size (act (step big_cfg s OBlock))) = (15, 102, (0, 6), 16, 102).
Proof. vm_compute. reflexivity. Qed.

(* ---- 103 proposers, X's exit scheduled for block 16, 102 others offline: the housekeeping of block 16 fails, X is stranded ---- *)
Definition lost_cfg : cfg := mkC 4 8 12 16 4 8 8 0 0.
Definition lost_ops : list op :=
  [OAddValidation 8191 65535 12 25000000] ++
  map (fun i => OAddValidation (4096 + N.of_nat i) (61440 + N.of_nat i) 8 25000000) (seq 0 102) ++
  repeat OBlock 5 ++ [OSignalExit 8191 65535] ++ map (fun i => OSetOnline (4096 + N.of_nat i) false) (seq 0 102) ++
  repeat OBlock 11 ++ map (fun i => OSetOnline (4096 + N.of_nat i) true) (seq 0 10) ++ repeat OBlock 40.

Lemma lost_fact :
  (match getv (run lost_cfg (init 0 103) lost_ops) 8191 with Some v => (v_status v, v_exit v) | None => (0, None) end,
   blk (run lost_cfg (init 0 103) lost_ops)) = ((StatusActive, Some 16), 56).
Proof. vm_compute. reflexivity. Qed.

Lemma lost_stuck :
  let s := run lost_cfg (init 0 103) lost_ops in
  (blk s, held_by s 8191, answer lost_cfg s (OSignalExit 8191 65535), answer lost_cfg s (OWithdraw 8191 65535),
   answer lost_cfg (run lost_cfg (init 0 103) (firstn 221 lost_ops)) OBlock) = (56, 25000000, (1, 0), (0, 0), (0, 6)).
Proof. vm_compute. reflexivity. Qed.
