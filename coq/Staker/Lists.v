(* Staker/Lists.v — the doubly linked lists stored in the validation records: abstraction as Coq lists (segments),
   frame lemmas, and the specifications of ll_add / ll_remove / ll_walk against that abstraction. *)
From Coq Require Import List NArith Bool Lia.
From Coq Require Import ZifyN ZifyNat ZifyBool.
From Verif Require Import Common.Util Staker.Model Staker.Base.
Import ListNotations.
Open Scope N_scope.

(* seg s p h l e : following Next from pointer h visits exactly the records l, the first has Prev = p, every
   further one has Prev = its predecessor, and the Next pointer after the last one is e *)
Fixpoint seg (s : st) (p h : option N) (l : list N) (e : option N) : Prop :=
  match l with
  | [] => h = e
  | a :: t => h = Some a /\ exists v, getv s a = Some v /\ v_prev v = p /\ seg s (Some a) (v_next v) t e
  end.

Definition last_or (p : option N) (l : list N) : option N :=
  match l with [] => p | _ => Some (last l 0) end.

Lemma last_or_cons p a t : last_or p (a :: t) = last_or (Some a) t.
Proof. destruct t; cbn; auto. Qed.

Lemma last_or_app p l1 l2 : last_or p (l1 ++ l2) = last_or (last_or p l1) l2.
Proof.
  revert p. induction l1 as [|a t IH]; intros p; cbn [app]; auto.
  rewrite last_or_cons, IH, last_or_cons. auto.
Qed.

Lemma seg_app s p h l1 l2 e :
  seg s p h (l1 ++ l2) e <-> exists m, seg s p h l1 m /\ seg s (last_or p l1) m l2 e.
Proof.
  revert p h. induction l1 as [|a t IH]; intros p h; cbn [app seg].
  - split.
    + intros H. exists h. split; auto.
    + intros [m [-> H]]. auto.
  - split.
    + intros [-> [v [Hv [Hp H]]]]. apply IH in H as [m [H1 H2]].
      exists m. split. { split; auto. exists v; auto. } rewrite last_or_cons. auto.
    + intros [m [[-> [v [Hv [Hp H1]]]] H2]]. split; auto. exists v. repeat split; auto.
      apply IH. exists m. split; auto. rewrite last_or_cons in H2. auto.
Qed.

(* frame: records of the segment keep their pointers *)
Definition same_links (s s' : st) (a : N) : Prop :=
  forall v, getv s a = Some v -> exists v', getv s' a = Some v' /\ v_prev v' = v_prev v /\ v_next v' = v_next v.

Lemma seg_frame s s' p h l e :
  seg s p h l e -> (forall a, In a l -> same_links s s' a) -> seg s' p h l e.
Proof.
  revert p h. induction l as [|a t IH]; intros p h H F; cbn in *; auto.
  destruct H as [-> [v [Hv [Hp H]]]]. split; auto.
  destruct (F a (or_introl eq_refl) v Hv) as [v' [Hv' [E1 E2]]].
  exists v'. repeat split; auto; try congruence. rewrite E2. apply IH; auto.
Qed.

Lemma seg_in_get s p h l e a : seg s p h l e -> In a l -> exists v, getv s a = Some v.
Proof.
  revert p h. induction l as [|b t IH]; intros p h H Hin; [contradiction|].
  destruct H as [_ [v [Hv [_ H]]]]. destruct Hin as [->|Hin]; eauto.
Qed.

(* the segment determines the pointers of each of its members *)
Lemma seg_prev_of_first s p h a t e v : seg s p h (a :: t) e -> getv s a = Some v -> v_prev v = p.
Proof. intros [_ [v' [Hv' [Hp _]]]] Hv. congruence. Qed.

Lemma seg_split_at s p h l1 a l2 e :
  seg s p h (l1 ++ a :: l2) e ->
  exists v, getv s a = Some v /\ v_prev v = last_or p l1 /\ seg s p h l1 (Some a) /\ seg s (Some a) (v_next v) l2 e.
Proof.
  intros H. apply seg_app in H as [m [H1 H2]]. cbn in H2. destruct H2 as [-> [v [Hv [Hp H2]]]].
  exists v. auto.
Qed.

(* setv facts *)
Lemma getv_setv_same a v s : getv (setv a v s) a = Some v.
Proof. unfold getv, setv; cbn. apply get_upd_same. Qed.
Lemma getv_setv_other a b v s : a <> b -> getv (setv a v s) b = getv s b.
Proof. unfold getv, setv; cbn. apply get_upd_other. Qed.
Lemma getv_put_ls w l s a : getv (put_ls w l s) a = getv s a.
Proof. destruct w; reflexivity. Qed.

Lemma last_or_snoc p l x : last_or p (l ++ [x]) = Some x.
Proof. rewrite last_or_app. reflexivity. Qed.

Lemma last_or_nonempty p q a t : last_or p (a :: t) = last_or q (a :: t).
Proof. reflexivity. Qed.

(* changing the Next pointer of the last record of a segment *)
Lemma seg_set_last_next s p h l b e vb x :
  seg s p h (l ++ [b]) e -> ~ In b l -> getv s b = Some vb ->
  seg (setv b (set_next x vb) s) p h (l ++ [b]) x.
Proof.
  intros H Hn Hb. apply seg_app in H as [m [H1 H2]]. apply seg_app. exists m. split.
  - eapply seg_frame; eauto. intros a Ha v Hv. exists v. rewrite getv_setv_other; auto. intros ->; auto.
  - cbn [seg last_or] in *. destruct H2 as [-> [v [Hv [Hp _]]]]. split; auto. rewrite Hb in Hv. inversion Hv; subst v.
    exists (set_next x vb). rewrite getv_setv_same. auto.
Qed.

(* changing the Prev pointer of the first record of a segment *)
Lemma seg_set_first_prev s p h n t e vn x :
  seg s p h (n :: t) e -> ~ In n t -> getv s n = Some vn ->
  seg (setv n (set_prev x vn) s) x h (n :: t) e.
Proof.
  intros [-> [v [Hv [Hp H]]]] Hn Hb. rewrite Hb in Hv. inversion Hv; subst v.
  split; auto. exists (set_prev x vn). rewrite getv_setv_same. repeat split; auto. cbn [v_next set_prev].
  eapply seg_frame; eauto. intros a Ha v Hv'. exists v. rewrite getv_setv_other; auto. intros ->; auto.
Qed.

(* ------------------------------------------------------------------ well-formed list *)

Record wf_list (s : st) (ls : lstat) (l : list N) : Prop := mkWfl {
  wl_seg : seg s None (l_head ls) l None;
  wl_tail : l_tail ls = last_or None l;
  wl_size : l_size ls = N.of_nat (length l);
  wl_nodup : NoDup l }.

(* everything but the pointers *)
Definition core (v : validation) :=
  (v_endorser v, v_benef v, v_period v, v_completed v, v_status v, v_start v, v_exit v, v_offline v,
   (v_locked v, v_punlock v, v_queued v, v_cooldown v, v_withdrawable v, v_weight v)).

Lemma core_set_prev x v : core (set_prev x v) = core v. Proof. reflexivity. Qed.
Lemma core_set_next x v : core (set_next x v) = core v. Proof. reflexivity. Qed.

Definition core_fun (f : validation -> N) : Prop := forall v v', core v = core v' -> f v = f v'.

Lemma sumf_setv_core f a v v' s : core_fun f -> getv s a = Some v -> core v' = core v ->
  sumf f (vals (setv a v' s)) = sumf f (vals s).
Proof.
  intros Hf Hv Hc. unfold setv; cbn. pose proof (sumf_upd_some f (vals s) a v' v Hv) as E.
  rewrite (Hf v' v Hc) in E. lia.
Qed.
Lemma vals_put_ls w l s : vals (put_ls w l s) = vals s.
Proof. destruct w; reflexivity. Qed.

(* only the validation map and the two list statistics differ *)
Definition lists_only (s s' : st) : Prop := s' = w_vals (vals s') (w_act (act s') (w_que (que s') s)).

Lemma lists_only_refl s : lists_only s s.
Proof. destruct s; reflexivity. Qed.
Lemma lists_only_trans s1 s2 s3 : lists_only s1 s2 -> lists_only s2 s3 -> lists_only s1 s3.
Proof. unfold lists_only. intros H1 H2. rewrite H2 at 1. rewrite H1 at 1. reflexivity. Qed.
Lemma lists_only_setv a v s : lists_only s (setv a v s).
Proof. destruct s; reflexivity. Qed.
Lemma lists_only_put_ls w l s : lists_only s (put_ls w l s).
Proof. destruct s, w; reflexivity. Qed.

Lemma get_ls_setv w a v s : get_ls w (setv a v s) = get_ls w s.
Proof. destruct w; reflexivity. Qed.
Lemma get_ls_put_same w l s : get_ls w (put_ls w l s) = l.
Proof. destruct w; reflexivity. Qed.
Lemma get_ls_put_other w l s : get_ls (negb w) (put_ls w l s) = get_ls (negb w) s.
Proof. destruct w; reflexivity. Qed.

Lemma in_split_nodup (a : N) l : In a l -> NoDup l ->
  exists l1 l2, l = l1 ++ a :: l2 /\ ~ In a l1 /\ ~ In a l2 /\ NoDup (l1 ++ l2) /\
                (forall x, In x l1 -> ~ In x l2).
Proof.
  intros Hin Hnd. apply in_split in Hin as [l1 [l2 ->]].
  exists l1, l2. split; auto.
  pose proof (NoDup_remove_1 _ _ _ Hnd) as H1. pose proof (NoDup_remove_2 _ _ _ Hnd) as H2.
  repeat split; auto.
  - intros H. apply H2, in_or_app; auto.
  - intros H. apply H2, in_or_app; auto.
  - intros x Hx Hx2. clear - H1 Hx Hx2. induction l1 as [|y t IH]; [contradiction|].
    cbn in H1. inversion H1; subst. destruct Hx as [->|Hx]; auto. apply H2. apply in_or_app; auto.
Qed.

Lemma snoc_case {A} (l : list A) : l = [] \/ exists l' x, l = l' ++ [x].
Proof.
  induction l as [|a t IH]; auto. right. destruct IH as [->|[l' [x ->]]].
  - exists [], a; auto.
  - exists (a :: l'), x; auto.
Qed.

Lemma not_in_app {A} (x : A) l1 l2 : ~ In x (l1 ++ l2) <-> ~ In x l1 /\ ~ In x l2.
Proof. rewrite in_app_iff. tauto. Qed.

Lemma nodup_app_l {A} (l1 l2 : list A) : NoDup (l1 ++ l2) -> NoDup l1.
Proof. induction l1 as [|a t IH]; cbn; intros H; [constructor|]. inversion H; subst. constructor; auto. rewrite in_app_iff in *. tauto. Qed.
Lemma nodup_app_r {A} (l1 l2 : list A) : NoDup (l1 ++ l2) -> NoDup l2.
Proof. induction l1 as [|a t IH]; cbn; intros H; auto. inversion H; auto. Qed.

(* ------------------------------------------------------------------ ll_remove against the abstraction *)

Lemma ll_remove_wf w a e s s1 e1 l v0 :
  ll_remove w a e s = Ok (s1, e1) ->
  wf_list s (get_ls w s) l -> In a l ->
  getv s a = Some v0 -> v_prev e = v_prev v0 -> v_next e = v_next v0 ->
  exists l1 l2, l = l1 ++ a :: l2 /\
    wf_list s1 (get_ls w s1) (l1 ++ l2) /\
    e1 = set_next None (set_prev None e) /\
    getv s1 a = Some e1 /\
    get_ls (negb w) s1 = get_ls (negb w) s /\
    lists_only s s1 /\
    (forall b, b <> a -> (getv s b = None -> getv s1 b = None) /\
       forall v, getv s b = Some v -> exists v', getv s1 b = Some v' /\ core v' = core v /\ (~ In b l -> v' = v)) /\
    (forall f : validation -> N, core_fun f -> sumf f (vals s1) + f v0 = sumf f (vals s) + f e).
Proof.
  intros H [Hseg Htail Hsize Hnd] Hin Hv0 Ep En.
  destruct (in_split_nodup a l Hin Hnd) as [l1 [l2 [-> [Hn1 [Hn2 [Hnd12 Hdisj]]]]]].
  exists l1, l2. split; auto.
  destruct (seg_split_at _ _ _ _ _ _ _ Hseg) as [v0' [Hv0' [Hp0 [Hs1 Hs2]]]].
  rewrite Hv0 in Hv0'. inversion Hv0'; subst v0'. clear Hv0'.
  unfold ll_remove in H.
  (* the early return is not taken *)
  assert (Hgo : negb (is_linked e) && (negb (oeqb (l_head (get_ls w s)) (Some a)) || negb (oeqb (l_tail (get_ls w s)) (Some a))) = false).
  { unfold is_linked. rewrite Ep, En, Hp0.
    destruct l1 as [|x1 t1]; [|rewrite last_or_cons; destruct (last_or (Some x1) t1) eqn:E; [reflexivity|destruct t1; discriminate]].
    destruct l2 as [|x2 t2]; [|cbn in Hs2; destruct Hs2 as [-> _]; reflexivity].
    cbn in Hs1, Hs2. rewrite Hs1, Hs2. rewrite Htail. cbn. rewrite N.eqb_refl. reflexivity. }
  rewrite Hgo in H. clear Hgo.
  apply bind_ok in H as [sa [Ha H]]. apply bind_ok in H as [sb [Hb H]].
  apply bind_ok in H as [u [Hm H]]. inversion H; subst s1 e1; clear H Hm.
  (* characterise sa *)
  assert (A1 : lists_only s sa /\ get_ls (negb w) sa = get_ls (negb w) s /\
               seg sa None (l_head (get_ls w sa)) l1 (v_next e) /\
               l_tail (get_ls w sa) = l_tail (get_ls w s) /\ l_size (get_ls w sa) = l_size (get_ls w s) /\
               (forall b, ~ In b l1 -> getv sa b = getv s b) /\
               (forall b, (getv s b = None -> getv sa b = None) /\
                  forall v, getv s b = Some v -> exists v', getv sa b = Some v' /\ core v' = core v) /\
               (forall f, core_fun f -> sumf f (vals sa) = sumf f (vals s))).
  { destruct (snoc_case l1) as [->|[l1' [p ->]]].
    - cbn in Hp0. rewrite Ep, Hp0 in Ha. inversion Ha; subst sa.
      split. { apply lists_only_put_ls. }
      split. { destruct w; reflexivity. }
      split. { rewrite get_ls_put_same. cbn. reflexivity. }
      split. { rewrite get_ls_put_same. reflexivity. }
      split. { rewrite get_ls_put_same. reflexivity. }
      split. { intros b _. apply getv_put_ls. }
      split; [|intros f _; rewrite vals_put_ls; reflexivity].
      intros b. split. { rewrite getv_put_ls. auto. }
      intros v Hv. exists v. rewrite getv_put_ls. auto.
    - rewrite last_or_snoc in Hp0. rewrite Ep, Hp0 in Ha.
      apply bind_ok in Ha as [pe [Hpe Ha]]. apply of_opt_ok in Hpe. inversion Ha; subst sa.
      apply not_in_app in Hn1 as [Hn1 Hn1']. assert (Hpa : p <> a) by (intros ->; apply Hn1'; left; auto).
      assert (Hnp : ~ In p l1').
      { apply nodup_app_l in Hnd12. apply NoDup_remove_2 in Hnd12. rewrite app_nil_r in Hnd12. auto. }
      split. { apply lists_only_setv. }
      split. { rewrite get_ls_setv. auto. }
      split. { rewrite get_ls_setv. eapply seg_set_last_next; eauto. }
      split. { rewrite get_ls_setv; auto. }
      split. { rewrite get_ls_setv; auto. }
      split. { intros b Hb0. rewrite getv_setv_other; auto. intros <-. apply Hb0, in_or_app. right; left; auto. }
      split; [|intros f Hf; apply (sumf_setv_core f p pe); auto].
      intros b. split.
      + intros Hb0. destruct (N.eq_dec p b) as [<-|Hne]; [congruence|]. rewrite getv_setv_other; auto.
      + intros v Hv. destruct (N.eq_dec p b) as [<-|Hne].
        * rewrite Hpe in Hv. inversion Hv; subst. exists (set_next (v_next e) v). rewrite getv_setv_same. auto.
        * exists v. rewrite getv_setv_other; auto. }
  destruct A1 as [Lo1 [Ot1 [Sg1 [Tl1 [Sz1 [Fr1 [Co1 Su1]]]]]]]. clear Ha.
  assert (A2 : lists_only sa sb /\ get_ls (negb w) sb = get_ls (negb w) sa /\
               l_head (get_ls w sb) = l_head (get_ls w sa) /\
               seg sb (v_prev e) (v_next e) l2 None /\
               l_tail (get_ls w sb) = last_or None (l1 ++ l2) /\ l_size (get_ls w sb) = l_size (get_ls w sa) /\
               (forall b, ~ In b l2 -> getv sb b = getv sa b) /\
               (forall b, (getv sa b = None -> getv sb b = None) /\
                  forall v, getv sa b = Some v -> exists v', getv sb b = Some v' /\ core v' = core v) /\
               (forall f, core_fun f -> sumf f (vals sb) = sumf f (vals sa))).
  { destruct l2 as [|n t2].
    - cbn in Hs2. rewrite En, Hs2 in Hb. inversion Hb; subst sb.
      split. { apply lists_only_put_ls. }
      split. { destruct w; reflexivity. }
      split. { rewrite get_ls_put_same. reflexivity. }
      split. { cbn. rewrite En. auto. }
      split. { rewrite get_ls_put_same. cbn. rewrite app_nil_r, Ep. auto. }
      split. { rewrite get_ls_put_same. reflexivity. }
      split. { intros b _. apply getv_put_ls. }
      split; [|intros f _; rewrite vals_put_ls; reflexivity].
      intros b. split. { rewrite getv_put_ls; auto. }
      intros v Hv. exists v. rewrite getv_put_ls; auto.
    - pose proof Hs2 as Hs2'. destruct Hs2 as [En2 [vn [Hvn [Hpn Hs2]]]].
      rewrite En, En2 in Hb. apply bind_ok in Hb as [ne [Hne Hb]]. apply of_opt_ok in Hne. inversion Hb; subst sb.
      assert (Hna : n <> a) by (intros ->; apply Hn2; left; auto).
      assert (Hn1n : ~ In n l1) by (intros Hx; apply (Hdisj n Hx); left; auto).
      assert (Hnt2 : ~ In n t2).
      { apply nodup_app_r in Hnd12. inversion Hnd12; auto. }
      pose proof Hne as Hne_sa. rewrite Fr1 in Hne by auto.
      split. { apply lists_only_setv. }
      split. { rewrite get_ls_setv; auto. }
      split. { rewrite get_ls_setv; auto. }
      split. { rewrite En, En2. apply (seg_set_first_prev sa (Some a) (Some n) n t2 None ne (v_prev e)); auto.
        rewrite <- En2. eapply seg_frame; [exact Hs2'|].
        intros b Hb' v Hv. exists v. rewrite Fr1; auto. intros Hx. exact (Hdisj b Hx Hb'). }
      split. { rewrite get_ls_setv, Tl1, Htail. rewrite !last_or_app. reflexivity. }
      split. { rewrite get_ls_setv; auto. }
      split. { intros b Hb'. rewrite getv_setv_other; auto. intros <-. apply Hb'. left; auto. }
      split; [|intros f Hf; apply (sumf_setv_core f n ne); auto].
      intros b. split.
      + intros Hb'. destruct (N.eq_dec n b) as [<-|Hne']; [rewrite Fr1 in Hb' by auto; congruence|]. rewrite getv_setv_other; auto.
      + intros v Hv. destruct (N.eq_dec n b) as [<-|Hne'].
        * rewrite Fr1 in Hv by auto. rewrite Hne in Hv. inversion Hv; subst. exists (set_prev (v_prev e) v). rewrite getv_setv_same. auto.
        * exists v. rewrite getv_setv_other; auto. }
  destruct A2 as [Lo2 [Ot2 [Hd2 [Sg2 [Tl2 [Sz2 [Fr2 [Co2 Su2]]]]]]]]. clear Hb.
  set (lf := mkL (l_head (get_ls w sb)) (l_tail (get_ls w sb)) (l_size (get_ls w sb) - 1)).
  set (e' := set_next None (set_prev None e)).
  split; [constructor|].
  - (* segment of the result *)
    rewrite get_ls_setv, get_ls_put_same. cbn [l_head lf].
    apply seg_app. exists (v_next e). split.
    + rewrite Hd2. eapply seg_frame; [exact Sg1|]. intros b Hb' v Hv. exists v.
      rewrite getv_setv_other by (intros <-; auto). rewrite getv_put_ls. rewrite Fr2; auto.
    + rewrite <- Hp0, <- Ep. eapply seg_frame; [exact Sg2|]. intros b Hb' v Hv. exists v.
      rewrite getv_setv_other by (intros <-; auto). rewrite getv_put_ls. auto.
  - rewrite get_ls_setv, get_ls_put_same. cbn. auto.
  - rewrite get_ls_setv, get_ls_put_same. cbn [l_size lf]. rewrite Sz2, Sz1, Hsize.
    rewrite !app_length. cbn [length]. lia.
  - auto.
  - split; [reflexivity|]. split. { rewrite getv_setv_same. auto. }
    split. { rewrite get_ls_setv, get_ls_put_other. congruence. }
    split. { eapply lists_only_trans; [exact Lo1|]. eapply lists_only_trans; [exact Lo2|].
             eapply lists_only_trans; [apply lists_only_put_ls|apply lists_only_setv]. }
    split; [|intros f Hf; destruct (proj2 (Co1 a) v0 Hv0) as [va [Hva Eca]]; destruct (proj2 (Co2 a) va Hva) as [vb [Hvb Ecb]];
             unfold setv; cbn [vals w_vals]; rewrite vals_put_ls;
             pose proof (sumf_upd_some f (vals sb) a e' vb Hvb) as E; rewrite <- (Su1 f Hf), <- (Su2 f Hf);
             rewrite (Hf vb v0) in E by congruence; rewrite (Hf e' e) in E by reflexivity; exact E].
    intros b Hba. split.
    + intros Hb'. rewrite getv_setv_other by auto. rewrite getv_put_ls. apply Co2, Co1; auto.
    + intros v Hv. rewrite getv_setv_other by auto. rewrite getv_put_ls.
      destruct (proj2 (Co1 b) v Hv) as [v1 [Hv1 Ec1]]. destruct (proj2 (Co2 b) v1 Hv1) as [v2 [Hv2 Ec2]].
      exists v2. split; auto. split; [congruence|].
      intros Hnin. rewrite Fr2, Fr1 in Hv2.
      * congruence.
      * intros Hx. apply Hnin, in_or_app; auto.
      * intros Hx. apply Hnin, in_or_app. right; right; auto.
Qed.

(* ------------------------------------------------------------------ ll_add against the abstraction *)

Lemma ll_add_wf w a e s s1 l :
  ll_add w a e s = Ok s1 ->
  wf_list s (get_ls w s) l -> ~ In a l -> v_next e = None ->
  wf_list s1 (get_ls w s1) (l ++ [a]) /\
  getv s1 a = Some (set_prev (last_or None l) e) /\
  get_ls (negb w) s1 = get_ls (negb w) s /\ lists_only s s1 /\
  (forall b, b <> a -> (getv s b = None -> getv s1 b = None) /\
     forall v, getv s b = Some v -> exists v', getv s1 b = Some v' /\ core v' = core v /\ (~ In b l -> v' = v)) /\
  (forall f : validation -> N, core_fun f ->
     match getv s a with
     | None => sumf f (vals s1) = sumf f (vals s) + f e
     | Some v0 => sumf f (vals s1) + f v0 = sumf f (vals s) + f e
     end).
Proof.
  intros H [Hseg Htail Hsize Hnd] Hnin Hnx. unfold ll_add in H.
  apply bind_ok in H as [sb [Hb H]]. inversion H; subst s1; clear H.
  rewrite Htail in *.
  set (sa := put_ls w (mkL (l_head (get_ls w s)) (Some a) (l_size (get_ls w s))) s) in *.
  assert (A : lists_only s sb /\ get_ls (negb w) sb = get_ls (negb w) s /\
              seg sb None (l_head (get_ls w sb)) l (Some a) /\ l_tail (get_ls w sb) = Some a /\
              l_size (get_ls w sb) = l_size (get_ls w s) /\
              (forall b, b <> a -> (getv s b = None -> getv sb b = None) /\
                forall v, getv s b = Some v -> exists v', getv sb b = Some v' /\ core v' = core v /\ (~ In b l -> v' = v)) /\
              (forall f, core_fun f -> sumf f (vals sb) = sumf f (vals s)) /\ getv sb a = getv s a).
  { destruct (snoc_case l) as [->|[l' [t ->]]].
    - cbn in Hb. inversion Hb; subst sb. unfold sa.
      split. { eapply lists_only_trans; apply lists_only_put_ls. }
      split. { destruct w; reflexivity. }
      split. { destruct w; reflexivity. }
      split. { destruct w; reflexivity. }
      split. { destruct w; reflexivity. }
      split; [|split; [intros f _; rewrite !vals_put_ls; reflexivity|rewrite !getv_put_ls; reflexivity]].
      intros b _. rewrite !getv_put_ls. split; auto. intros v Hv. exists v; auto.
    - rewrite last_or_snoc in Hb. apply bind_ok in Hb as [te [Hte Hb]]. apply of_opt_ok in Hte.
      inversion Hb; subst sb. unfold sa in Hte. rewrite getv_put_ls in Hte.
      apply not_in_app in Hnin as [Hn1 Hn2]. assert (Hta : t <> a) by (intros ->; apply Hn2; left; auto).
      assert (Hnt : ~ In t l') by (apply NoDup_remove_2 in Hnd; rewrite app_nil_r in Hnd; auto).
      split. { eapply lists_only_trans; [apply lists_only_put_ls|apply lists_only_setv]. }
      split. { rewrite get_ls_setv. unfold sa. destruct w; reflexivity. }
      split. { rewrite get_ls_setv. unfold sa at 2. rewrite get_ls_put_same. cbn [l_head].
               eapply seg_set_last_next; eauto.
               - eapply seg_frame; [exact Hseg|]. intros b _ v Hv. exists v. unfold sa. rewrite getv_put_ls. auto.
               - unfold sa. rewrite getv_put_ls. auto. }
      split. { rewrite get_ls_setv. unfold sa. rewrite get_ls_put_same. reflexivity. }
      split. { rewrite get_ls_setv. unfold sa. rewrite get_ls_put_same. reflexivity. }
      split; [|split; [intros f Hf; rewrite (sumf_setv_core f t te) by (auto; unfold sa; rewrite getv_put_ls; auto); unfold sa; rewrite vals_put_ls; reflexivity
                      |rewrite getv_setv_other by auto; unfold sa; rewrite getv_put_ls; reflexivity]].
      intros b Hba. split.
      + intros Hn. destruct (N.eq_dec t b) as [<-|Hne]; [congruence|]. rewrite getv_setv_other by auto. unfold sa. rewrite getv_put_ls. auto.
      + intros v Hv. destruct (N.eq_dec t b) as [<-|Hne].
        * rewrite Hte in Hv. inversion Hv; subst. exists (set_next (Some a) v). rewrite getv_setv_same.
          split; auto. split; auto. intros Hx. exfalso. apply Hx, in_or_app. right; left; auto.
        * exists v. rewrite getv_setv_other by auto. unfold sa. rewrite getv_put_ls. auto. }
  destruct A as [Lo [Ot [Sg [Tl [Sz [Co [Su Ga]]]]]]]. clear Hb.
  set (lf := mkL (l_head (get_ls w sb)) (l_tail (get_ls w sb)) (l_size (get_ls w sb) + 1)).
  split; [constructor|].
  - rewrite get_ls_setv, get_ls_put_same. cbn [l_head lf]. apply seg_app. exists (Some a). split.
    + eapply seg_frame; [exact Sg|]. intros b Hb v Hv. exists v.
      rewrite getv_setv_other by (intros <-; auto). rewrite getv_put_ls. auto.
    + cbn [seg]. split; auto. exists (set_prev (last_or None l) e). rewrite getv_setv_same. auto.
  - rewrite get_ls_setv, get_ls_put_same. cbn [l_tail lf]. rewrite Tl, last_or_snoc. auto.
  - rewrite get_ls_setv, get_ls_put_same. cbn [l_size lf]. rewrite Sz, Hsize, app_length. cbn. lia.
  - clear - Hnd Hnin. induction l as [|x t IH]; cbn; [constructor; [intros []|constructor]|].
    inversion Hnd; subst. constructor.
    + rewrite in_app_iff. cbn. intros [H|[H|[]]]; auto. subst. apply Hnin. left; auto.
    + apply IH; auto. intros H. apply Hnin. right; auto.
  - split. { rewrite getv_setv_same. auto. }
    split. { rewrite get_ls_setv, get_ls_put_other. auto. }
    split. { eapply lists_only_trans; [exact Lo|]. eapply lists_only_trans; [apply lists_only_put_ls|apply lists_only_setv]. }
    split. { intros b Hba. rewrite getv_setv_other by auto. rewrite getv_put_ls. apply Co; auto. }
    intros f Hf. unfold setv; cbn [vals w_vals]. rewrite vals_put_ls. rewrite <- Ga, <- (Su f Hf).
    assert (Ef : f (set_prev (last_or None l) e) = f e) by (apply Hf; reflexivity).
    unfold getv. destruct (get (vals sb) a) as [v0|] eqn:Eg.
    + pose proof (sumf_upd_some f (vals sb) a (set_prev (last_or None l) e) v0 Eg) as E. rewrite Ef in E. exact E.
    + rewrite (sumf_upd_none f (vals sb) a _ Eg), Ef. reflexivity.
Qed.
