(* TxPool/ModelWash.v — the whole of tx_pool.go:wash over abstract per-object verdicts (definitions only).

   wash(head):   for every pooled object: blocked -> drop; not local and out of lifetime -> drop; Evaluate error -> drop;
                 publish the pricing Evaluate returned (only returned for an object that is not yet executable);
                 refresh the priority price when the base fee changed (payer and cost are kept);
                 sort the non-local executables; apply the three over-limit cases; append the local executables and
                 sort again; promotion loop (payer must cover pending + cost); finally evict everything marked.
   The accounting maps are touched only through set_pricing, promote and remove_by_hash (TxPool/Model.v). *)
From Coq Require Import List NArith Bool Lia.
From Verif Require Import Common.Util TxPool.Model.
Import ListNotations.
Open Scope N_scope.

(* outcome of TxObject.Evaluate for one pooled object *)
Inductive ev_out :=
| EvErr (class : N)               (* error: the object is washed out; class names the clause (see ModelAdmission) *)
| EvNo                            (* (false, nil, nil): stays, not executable yet *)
| EvYes (pr : option pricing).    (* (true, pricing, nil): pricing only when the object was not executable before *)

Inductive reason :=
| RBlocked                        (* origin or delegator on the block list *)
| ROutlived                       (* remote tx older than MaxLifetime *)
| REvalErr (class : N)            (* Evaluate error: expired / settled / dependency reverted / unpayable / not includable *)
| RLimitNonExecAll                (* executables alone exceed the limit: every non-executable goes *)
| RLimitExecTail                  (* ... and the lowest-priced executables beyond the limit *)
| RLimitTotal                     (* executables + non-executables exceed the limit: non-executables beyond it *)
| RLimitNonExec                   (* non-executables exceed 20% of the limit *)
| RUnpayable.                     (* promotion loop: payer cannot cover pending + cost *)

Record wash_env := mkEnv {
  w_blocked : txobj -> bool;
  w_outlived : txobj -> bool;
  w_eval : txobj -> ev_out;
  w_refresh : txobj -> option N;    (* new priority price, when the base fee changed and the ceilings are cached *)
  w_energy : N -> N;                (* payer's energy at the next block time *)
  w_limit : nat
}.

Record phase1 := mkP1 {
  p1_pool : pool;
  p1_removed : list (N * reason);
  p1_exec : list txobj;             (* non-local executables *)
  p1_nonexec : list txobj;          (* non-local non-executables *)
  p1_localexec : list txobj         (* local executables *)
}.

(* pricing publication + refresh of one object; returns the object as it is afterwards *)
Definition reprice (env : wash_env) (p : pool) (o : txobj) (pr : option pricing) : pool * txobj :=
  let (p1, o1) :=
    match pr with
    | Some x => if executable o then (p, o) else (set_pricing p (hash o) (oid o) x, set_price o (Some x))
    | None => (p, o)
    end in
  match w_refresh env o1, price o1 with
  | Some g, Some old =>
    let x := mkPricing (payer old) (pcost old) g in
    (set_pricing p1 (hash o1) (oid o1) x, set_price o1 (Some x))
  | _, _ => (p1, o1)
  end.

Definition phase1_step (env : wash_env) (acc : phase1) (o : txobj) : phase1 :=
  let p := p1_pool acc in
  if w_blocked env o then
    mkP1 p ((hash o, RBlocked) :: p1_removed acc) (p1_exec acc) (p1_nonexec acc) (p1_localexec acc)
  else if negb (local_ o) && w_outlived env o then
    mkP1 p ((hash o, ROutlived) :: p1_removed acc) (p1_exec acc) (p1_nonexec acc) (p1_localexec acc)
  else
    match w_eval env o with
    | EvErr c => mkP1 p ((hash o, REvalErr c) :: p1_removed acc) (p1_exec acc) (p1_nonexec acc) (p1_localexec acc)
    | EvNo =>
      let (p', o') := reprice env p o None in
      if local_ o then mkP1 p' (p1_removed acc) (p1_exec acc) (p1_nonexec acc) (p1_localexec acc)
      else mkP1 p' (p1_removed acc) (p1_exec acc) (p1_nonexec acc ++ [o']) (p1_localexec acc)
    | EvYes pr =>
      let (p', o') := reprice env p o pr in
      if local_ o then mkP1 p' (p1_removed acc) (p1_exec acc) (p1_nonexec acc) (p1_localexec acc ++ [o'])
      else mkP1 p' (p1_removed acc) (p1_exec acc ++ [o']) (p1_nonexec acc) (p1_localexec acc)
    end.

Definition run_phase1 (env : wash_env) (p : pool) : phase1 :=
  fold_left (phase1_step env) (objs p) (mkP1 p [] [] [] []).

Definition tag (r : reason) (l : list txobj) : list (N * reason) := map (fun o => (hash o, r)) l.

(* the three over-limit cases; returns (kept executables, newly removed) *)
Definition apply_limits (limit : nat) (exec_sorted nonexec : list txobj) : list txobj * list (N * reason) :=
  if Nat.ltb limit (length exec_sorted) then
    (firstn limit exec_sorted, tag RLimitNonExecAll nonexec ++ tag RLimitExecTail (skipn limit exec_sorted))
  else if Nat.ltb limit (length exec_sorted + length nonexec)%nat then
    (exec_sorted, tag RLimitTotal (skipn (limit - length exec_sorted)%nat nonexec))
  else if Nat.ltb (Nat.div (limit * 2) 10) (length nonexec) then
    (exec_sorted, tag RLimitNonExec (skipn (Nat.div (limit * 2) 10) nonexec))
  else (exec_sorted, []).

Definition evict (p : pool) (l : list (N * reason)) : pool :=
  fold_left (fun q hr => fst (remove_by_hash q (fst hr))) l p.

Record wash_result := mkWash {
  wr_pool : pool;
  wr_published : list txobj;
  wr_removed : list (N * reason)
}.

Definition wash (env : wash_env) (p : pool) : wash_result :=
  let a := run_phase1 env p in
  let sorted := sort_desc (p1_exec a) in
  let (kept, over) := apply_limits (w_limit env) sorted (p1_nonexec a) in
  let cands := sort_desc (kept ++ p1_localexec a) in
  let '(p2, pub, bad) := publish (p1_pool a) (w_energy env) cands in
  let removed := p1_removed a ++ over ++ map (fun h => (h, RUnpayable)) bad in
  mkWash (evict p2 removed) pub removed.

(* the error path of wash (the legacy base gas price cannot be read): cut the pool to the limit, oldest map order first *)
Definition wash_error_cut (limit : nat) (p : pool) : pool :=
  fold_left (fun q o => fst (remove_by_hash q (hash o))) (firstn (length (objs p) - limit)%nat (objs p)) p.
