(* TxPool/Compose.v — the two halves of C18 composed: the per-object verdict wash uses IS TxObject.Evaluate of the
   object's transaction on the wash's head (ModelAdmission.evaluate); then what wash publishes is adoptable by
   Flow.Adopt on that head up to the enumerated differences, and an Evaluate drop carries the clause that failed.
   Also: the victims of the executable limit are the lowest priced; the error path of wash; a bound on the quota. *)
From Coq Require Import List NArith ZArith Bool Lia ZifyN ZifyNat ZifyBool Sorted.
From Verif Require Import Common.Util TxPool.Model TxPool.Proofs TxPool.ModelWash TxPool.ProofsWash
  TxPool.ModelAdmission TxPool.ProofsAdmission.
Import ListNotations.
Open Scope N_scope.

Definition ev_code (e : ev_err) : N :=
  match e with
  | EGasAboveBlockLimit => 1 | EExpired => 2 | ERefOutOfSchedule => 3 | ETypeNotSupported => 4
  | EFeatures => 5 | EKnownTx => 6 | EDepReverted => 7 | EBuyGas => 8
  end.

Lemma ev_code_inj e e' : ev_code e = ev_code e' -> e = e'.
Proof. destruct e, e'; cbn; intro H; try reflexivity; discriminate. Qed.

Section Compose.
  Variable St : Type.
  Variable fee_ok : St -> txv -> bool.
  Variable energy_ok : St -> N -> txv -> bool.
  Variable eff_priority_fee : St -> txv -> N.
  Variable interval_30 : N.
  Variable h : headv.                    (* the head the wash runs on *)
  Variable s : St.                       (* its state *)
  Variable view : txobj -> txv.          (* the transaction inside a pooled object *)
  Variable pricing_of : txobj -> pricing.  (* payer / cost / priority price Evaluate computes (BuyGas, not modelled) *)

  (* wash's call: txObj.Evaluate(chain, newState(), head, forkConfig, baseFee, txObj.executable) *)
  Definition eval_of (o : txobj) : ev_out :=
    match evaluate St fee_ok energy_ok interval_30 h s (view o) with
    | VErr e => EvErr (ev_code e)
    | VNotYet => EvNo
    | VExecutable => EvYes (if executable o then None else Some (pricing_of o))
    end.

  Definition env_of (blocked outlived : txobj -> bool) (refresh : txobj -> option N) (energy : N -> N) (limit : nat) :=
    mkEnv blocked outlived eval_of refresh energy limit.

  (* every published executable is adoptable on the wash's head, up to the enumerated differences.
     static_ok: what add() established for the object (chain tag, delegator) and what wash re-checks (not blocked);
     NOT established by Fill (see manifest): for Fill'ed txs it is an assumption on Fill's caller. *)
  Theorem wash_published_adoptable blocked outlived refresh energy limit p o' :
    (forall o, In o (objs p) -> blocked o = false -> pool_static (view o) = true) ->
    In o' (wr_published (wash (env_of blocked outlived refresh energy limit) p)) ->
    exists o, In o (objs p) /\ hash o' = hash o /\
      evaluate St fee_ok energy_ok interval_30 h s (view o) = VExecutable /\
      forall f, allowed St fee_ok energy_ok eff_priority_fee h s f (view o)
                        (adopt St fee_ok energy_ok eff_priority_fee h f (view o)).
  Proof.
    intros Hst Hin.
    destruct (published_were_evaluated _ _ _ Hin) as [o [A [B [C [pr D]]]]].
    cbn [w_blocked w_eval env_of] in C, D. unfold eval_of in D.
    exists o. split; auto. split; auto.
    destruct (evaluate St fee_ok energy_ok interval_30 h s (view o)) eqn:E; try discriminate.
    split; auto. intro f. apply evaluate_implies_adopt_thm with (interval_30 := interval_30); auto.
  Qed.

  (* an Evaluate drop names the clause of Evaluate that failed on the wash's head *)
  Theorem eval_drop_names_clause blocked outlived refresh energy limit p hh c :
    In (hh, REvalErr c) (wr_removed (wash (env_of blocked outlived refresh energy limit) p)) ->
    exists o e, In o (objs p) /\ hash o = hh /\ c = ev_code e /\
                evaluate St fee_ok energy_ok interval_30 h s (view o) = VErr e.
  Proof.
    intro Hin. destruct (drop_reasons_thm _ _ _ _ Hin) as [o [A [B C]]].
    cbn in C. unfold eval_of in C.
    destruct (evaluate St fee_ok energy_ok interval_30 h s (view o)) as [e| |] eqn:E; try discriminate.
    exists o, e. inversion C. auto.
  Qed.
End Compose.

(* ---------------- the executables displaced by the limit are the lowest priced *)
Lemma sorted_split_le : forall l n x y, StronglySorted ge_price l -> In x (firstn n l) -> In y (skipn n l) -> ge_price x y.
Proof.
  induction l as [|a t IH]; intros n x y Hs Hx Hy.
  - destruct n; cbn in Hx; contradiction.
  - destruct n as [|n]; [cbn in Hx; contradiction|].
    inversion Hs as [|? ? Hs' Hf]; subst. cbn in Hx, Hy. destruct Hx as [<-|Hx].
    + rewrite Forall_forall in Hf. apply Hf. eapply in_skipn; eauto.
    + eapply IH; eauto.
Qed.

Theorem limit_displaces_lowest_priced limit l nonexec kept over y :
  apply_limits limit (sort_desc l) nonexec = (kept, over) ->
  In y (skipn limit (sort_desc l)) ->
  forall x, In x kept -> pgp_of y <= pgp_of x.
Proof.
  unfold apply_limits. intros H Hy x Hx.
  destruct (Nat.ltb limit (length (sort_desc l))) eqn:E.
  - inversion H; subst. exact (sorted_split_le _ _ _ _ (sort_desc_sorted l) Hx Hy).
  - apply Nat.ltb_ge in E. rewrite skipn_all2 in Hy by auto. destruct Hy.
Qed.

(* ---------------- the error path of wash: cut to the limit *)
Lemma inv_fold_remove : forall (l : list txobj) p, inv p ->
    inv (fold_left (fun q o => fst (remove_by_hash q (hash o))) l p).
Proof. induction l as [|o t IH]; intros p H; cbn; auto. apply IH. apply inv_remove. auto. Qed.

Theorem wash_error_cut_keeps_inv limit p : inv p -> inv (wash_error_cut limit p).
Proof. intro H. unfold wash_error_cut. apply inv_fold_remove. auto. Qed.

(* ---------------- over-admission bound: without Fill (which skips the check by design) no account ever holds more
   than limit + 1 slots (limit, unless a tx names its own origin as delegator: both references are checked before
   either is counted) *)
Definition no_fill (s : step) : bool := match s with SFill _ => false | _ => true end.
Definition limit_le (L : N) (s : step) : bool := match s with SAdd _ _ _ limit _ => limit <=? L | _ => true end.

Lemma refs_le_2 a o : refs a o <= 2.
Proof. unfold refs. destruct (a =? origin o); destruct (delegator o) as [d|]; try destruct (a =? d); lia. Qed.

Lemma quota_step_bound L p st a :
  inv p -> no_fill st = true -> limit_le L st = true ->
  quota_of (objs p) a <= L + 1 -> quota_of (objs (pool_step p st)) a <= L + 1.
Proof.
  intros Hinv Hnf Hl Hb. destruct st as [o exe pr limit bal|hh|hh id|l|hh id pr]; cbn [pool_step]; try discriminate.
  - (* add *)
    cbn in Hl. apply N.leb_le in Hl. destruct Hinv as [Hnd [Hq Hc]].
    unfold add. destruct (find_obj (hash o) (objs p)); [cbn; auto|].
    destruct (limit <=? aget (quota p) (origin o)) eqn:E1; [cbn; auto|].
    destruct (match delegator o with Some d => limit <=? aget (quota p) d | None => false end) eqn:E2; [cbn; auto|].
    apply N.leb_gt in E1. rewrite (aget_Q _ _ _ (Hq (origin o))) in E1.
    set (o2 := set_exec (match pr with Some _ => set_price o pr | None => o end) exe).
    assert (Href : refs a o2 = refs a o) by (unfold o2; destruct pr; reflexivity).
    assert (Hnew : quota_of (o2 :: objs p) a <= L + 1).
    { unfold quota_of. cbn [map sumN]. rewrite Href. fold (quota_of (objs p) a).
      unfold refs. destruct (a =? origin o) eqn:Ea.
      - apply N.eqb_eq in Ea. subst a. destruct (delegator o) as [d|]; [destruct (origin o =? d)|]; lia.
      - destruct (delegator o) as [d|]; [|lia]. destruct (a =? d) eqn:Ed; [|lia].
        apply N.eqb_eq in Ed. subst d. apply N.leb_gt in E2. rewrite (aget_Q _ _ _ (Hq a)) in E2. lia. }
    destruct (if exe then price o2 else None) as [pc|]; cbn zeta.
    + destruct (bal (payer pc) <? aget (cost p) (payer pc) + pcost pc); cbn [fst objs]; auto.
    + cbn [fst objs]. auto.
  - (* remove *)
    destruct Hinv as [Hnd _]. unfold remove_by_hash. destruct (find_obj hh (objs p)) as [o|] eqn:E; cbn [fst objs]; auto.
    pose proof (sum_remove (refs a) (objs p) hh o Hnd E) as X. unfold quota_of in *. lia.
  - (* promote *)
    destruct Hinv as [Hnd _]. unfold promote. destruct (find_obj hh (objs p)) as [o|] eqn:E; cbn [fst objs]; auto.
    destruct (negb (oid o =? id)); cbn [fst objs]; auto. destruct (executable o); cbn [fst objs]; auto.
    destruct (find_obj_some _ _ _ E) as [_ Hh]. subst hh.
    pose proof (sum_replace (refs a) (objs p) o (set_exec o true) Hnd E) as X. rewrite refs_set_exec in X.
    unfold quota_of in *. lia.
  - (* set pricing *)
    destruct Hinv as [Hnd _]. unfold set_pricing. destruct (find_obj hh (objs p)) as [o|] eqn:E; auto.
    destruct ((oid o =? id) && _); auto. cbn [objs].
    destruct (find_obj_some _ _ _ E) as [_ Hh]. subst hh.
    pose proof (sum_replace (refs a) (objs p) o (set_price o (Some pr)) Hnd E) as X. rewrite refs_set_price in X.
    unfold quota_of in *. lia.
Qed.

Theorem quota_bounded L : forall steps a,
    forallb no_fill steps = true -> forallb (limit_le L) steps = true ->
    quota_of (objs (run steps)) a <= L + 1.
Proof.
  intros steps a Hnf Hl. unfold run.
  assert (G : forall l p, inv p -> forallb no_fill l = true -> forallb (limit_le L) l = true ->
              quota_of (objs p) a <= L + 1 -> quota_of (objs (fold_left pool_step l p)) a <= L + 1).
  { induction l as [|st t IH]; intros p Hi H1 H2 Hb; cbn; auto.
    cbn in H1, H2. apply andb_true_iff in H1, H2. destruct H1 as [A1 A2], H2 as [B1 B2].
    apply IH; auto. apply inv_step; auto. apply quota_step_bound; auto. }
  apply G; auto. apply inv_empty. cbn. lia.
Qed.
