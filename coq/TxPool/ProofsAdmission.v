(* TxPool/ProofsAdmission.v — evaluate_implies_adopt: clause-by-clause comparison of TxObject.Evaluate and Flow.Adopt
   on the same head. *)
From Coq Require Import List NArith Bool Lia.
From Verif Require Import Common.Util TxPool.ModelAdmission.
Import ListNotations.
Open Scope N_scope.

Section A.
  Variable St : Type.
  Variable fee_ok : St -> txv -> bool.
  Variable energy_ok : St -> N -> txv -> bool.
  Variable eff_priority_fee : St -> txv -> N.
  Variable interval_30 : N.

  Notation evaluate := (evaluate St fee_ok energy_ok interval_30).
  Notation adopt := (adopt St fee_ok energy_ok eff_priority_fee).

  (* the only ways Adopt can answer something else than "adopted" for a tx the pool evaluates executable *)
  Definition allowed (h : headv) (s : St) (f : flowv St) (t : txv) (v : ad_verdict) : Prop :=
    match v with
    | AOk => True
    | ABad BPriorityFeeTooLow =>            (* packer option --min-tx-priority-fee *)
        0 < f_min_priority_fee St f /\ eff_priority_fee (f_state St f) t < f_min_priority_fee St f
    | ABad BExecFailed =>                   (* the flow's state/time no longer lets the payer buy the gas *)
        fee_ok (f_state St f) t && energy_ok (f_state St f) (f_time St f) t = false
    | ABad _ => False
    | ANotNow NBlockSpace | AGasLimitReached =>   (* block space (incl. a new-block gas limit below the head's) *)
        f_gas_limit St f < f_gas_used St f + t_gas t
    | ANotNow NFeeBelowBaseFee => fee_ok (f_state St f) t = false   (* params changed inside the block *)
    | ANotNow NBlockRefAhead => False
    | ANotNow NDepMissing => False
    | AKnownTx => f_processed St f (t_id t) <> None                  (* an earlier tx of this flow has the same id *)
    | ANotForever => exists d, t_dep t = Some d /\ f_processed St f d = Some true
    end.

  Theorem evaluate_implies_adopt_thm h s f t :
    evaluate h s t = VExecutable -> pool_static t = true -> allowed h s f t (adopt h f t).
  Proof.
    unfold ModelAdmission.evaluate, pool_static. intros He Hs.
    apply andb_true_iff in Hs. destruct Hs as [Hs Hdb]. apply andb_true_iff in Hs. destruct Hs as [Hs Hob].
    apply andb_true_iff in Hs. destruct Hs as [Htag Hde].
    apply negb_true_iff in Hdb, Hob.
    destruct (h_gas_limit h <? t_gas t) eqn:E1; [discriminate|].
    destruct (is_expired t (h_next h)) eqn:E2; [discriminate|].
    destruct (h_next h + interval_30 <? t_blockref t) eqn:E3; [discriminate|].
    destruct ((h_next h <? h_galactica h) && negb (t_legacy t)) eqn:E4; [discriminate|].
    destruct (negb (features_ok t (h_vip191 h <=? h_next h))) eqn:E5; [discriminate|].
    destruct (h_known h (t_id t) (t_blockref t)) eqn:E6; [discriminate|].
    assert (Hdep : match t_dep t with None => True | Some d => h_dep h d = Some false end).
    { destruct (t_dep t) as [d|]; auto. destruct (h_dep h d) as [[|]|]; auto; discriminate. }
    assert (He' : (if h_next h <? t_blockref t then VNotYet
                   else if fee_ok s t && energy_ok s (h_next_time h) t then VExecutable else VErr EBuyGas) = VExecutable).
    { destruct (t_dep t) as [d|]; auto. rewrite Hdep in He. auto. }
    clear He.
    destruct (h_next h <? t_blockref t) eqn:E7; [discriminate|].
    unfold ModelAdmission.adopt.
    rewrite Hob, Hdb, Hde, Htag, E5, E7, E2. repeat rewrite andb_false_r. cbn [negb].
    destruct (f_gas_limit St f <? f_gas_used St f + t_gas t) eqn:G1.
    { apply N.ltb_lt in G1. destruct (f_gas_used St f + tx_gas + clause_gas <=? f_gas_limit St f); cbn; auto. }
    destruct (h_next h <? h_galactica h) eqn:G2.
    - (* before GALACTICA *)
      cbn [andb] in E4. rewrite E4.
      destruct (f_processed St f (t_id t)) eqn:P1; [cbn; congruence|]. rewrite E6.
      destruct (t_dep t) as [d|] eqn:Ed.
      + destruct (f_processed St f d) as [[|]|] eqn:P2.
        * cbn. exists d. auto.
        * destruct (fee_ok (f_state St f) t && energy_ok (f_state St f) (f_time St f) t) eqn:X; cbn; auto.
        * rewrite Hdep. destruct (fee_ok (f_state St f) t && energy_ok (f_state St f) (f_time St f) t) eqn:X; cbn; auto.
      + destruct (fee_ok (f_state St f) t && energy_ok (f_state St f) (f_time St f) t) eqn:X; cbn; auto.
    - destruct (fee_ok (f_state St f) t) eqn:F1; cbn [negb]; [|cbn; auto].
      destruct ((0 <? f_min_priority_fee St f) && (eff_priority_fee (f_state St f) t <? f_min_priority_fee St f)) eqn:M.
      { apply andb_true_iff in M. destruct M as [M1 M2]. apply N.ltb_lt in M1, M2. cbn. auto. }
      destruct (f_processed St f (t_id t)) eqn:P1; [cbn; congruence|]. rewrite E6.
      destruct (t_dep t) as [d|] eqn:Ed.
      + destruct (f_processed St f d) as [[|]|] eqn:P2.
        * cbn. exists d. auto.
        * cbn [andb]. destruct (energy_ok (f_state St f) (f_time St f) t) eqn:X; cbn; auto. rewrite F1. auto.
        * rewrite Hdep. cbn [andb]. destruct (energy_ok (f_state St f) (f_time St f) t) eqn:X; cbn; auto. rewrite F1. auto.
      + cbn [andb]. destruct (energy_ok (f_state St f) (f_time St f) t) eqn:X; cbn; auto. rewrite F1. auto.
  Qed.

  (* a fresh flow on the same head: same state, nothing processed, nothing used; the block is not earlier than
     the pool's evaluation time and energy does not shrink with time; the option --min-tx-priority-fee is off (or
     satisfied); the new block's gas limit admits the tx.  Then the tx IS adopted. *)
  Corollary fresh_flow_adopts h s f t :
    evaluate h s t = VExecutable -> pool_static t = true ->
    f_state St f = s -> (forall i, f_processed St f i = None) -> f_gas_used St f = 0 ->
    h_next_time h <= f_time St f ->
    (forall tm tm', tm <= tm' -> energy_ok s tm t = true -> energy_ok s tm' t = true) ->
    (f_min_priority_fee St f = 0 \/ f_min_priority_fee St f <= eff_priority_fee s t) ->
    t_gas t <= f_gas_limit St f ->
    adopt h f t = AOk.
  Proof.
    intros He Hs Hst Hpr Hgu Htm Hmono Hmin Hgl.
    pose proof (evaluate_implies_adopt_thm h s f t He Hs) as A.
    (* executable => fee_ok and energy_ok on s at next time *)
    assert (Hbuy : fee_ok s t && energy_ok s (h_next_time h) t = true).
    { unfold ModelAdmission.evaluate in He.
      destruct (h_gas_limit h <? t_gas t); [discriminate|].
      destruct (is_expired t (h_next h)); [discriminate|].
      destruct (h_next h + interval_30 <? t_blockref t); [discriminate|].
      destruct ((h_next h <? h_galactica h) && negb (t_legacy t)); [discriminate|].
      destruct (negb (features_ok t (h_vip191 h <=? h_next h))); [discriminate|].
      destruct (h_known h (t_id t) (t_blockref t)); [discriminate|].
      destruct (t_dep t) as [d|]; [destruct (h_dep h d) as [[|]|]; try discriminate|];
        (destruct (h_next h <? t_blockref t); [discriminate|]);
        (destruct (fee_ok s t && energy_ok s (h_next_time h) t); [auto|discriminate]). }
    apply andb_true_iff in Hbuy. destruct Hbuy as [B1 B2].
    destruct (adopt h f t) as [|c|w| | |] eqn:E; auto; cbn in A.
    - destruct c; try contradiction.
      + destruct A as [A1 A2]. rewrite Hst in A2. lia.
      + rewrite Hst, B1, (Hmono _ _ Htm B2) in A. discriminate.
    - destruct w; try contradiction.
      + rewrite Hgu in A. lia.
      + rewrite Hst, B1 in A. discriminate.
    - rewrite Hgu in A. lia.
    - rewrite Hpr in A. congruence.
    - destruct A as [d [_ A]]. rewrite Hpr in A. discriminate.
  Qed.
End A.
