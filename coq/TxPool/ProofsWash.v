(* TxPool/ProofsWash.v — the whole wash preserves the bookkeeping invariant; an object leaves the pool in a wash
   only with one of the listed reasons, and the reason is true of it; what is published was evaluated executable. *)
From Coq Require Import List NArith ZArith Bool Lia ZifyN ZifyNat ZifyBool Sorted.
From Verif Require Import Common.Util TxPool.Model TxPool.Proofs TxPool.ModelWash.
Import ListNotations.
Open Scope N_scope.

(* ---------------- hashes are stable under pricing / promotion *)
Lemma hashes_set_pricing p h id pr : map hash (objs (set_pricing p h id pr)) = map hash (objs p).
Proof.
  unfold set_pricing. destruct (find_obj h (objs p)) as [o|] eqn:E; auto.
  destruct ((oid o =? id) && (negb (executable o) || _)); auto. cbn [objs].
  destruct (find_obj_some _ _ _ E) as [_ Hh].
  assert (X := hashes_replace (set_price o (Some pr)) (objs p)). auto.
Qed.

Lemma hashes_promote p h id : map hash (objs (fst (promote p h id))) = map hash (objs p).
Proof.
  unfold promote. destruct (find_obj h (objs p)) as [o|] eqn:E; auto.
  destruct (negb (oid o =? id)); auto.
  destruct (executable o); auto. cbn [fst objs]. apply (hashes_replace (set_exec o true)).
Qed.

Lemma hashes_reprice env p o pr : map hash (objs (fst (reprice env p o pr))) = map hash (objs p).
Proof.
  unfold reprice.
  destruct pr as [x|].
  - destruct (executable o).
    + destruct (w_refresh env o); [destruct (price o)|]; cbn [fst]; auto. apply hashes_set_pricing.
    + destruct (w_refresh env (set_price o (Some x))); cbn [price set_price fst]; auto.
      * rewrite hashes_set_pricing. apply hashes_set_pricing.
      * apply hashes_set_pricing.
  - destruct (w_refresh env o); [destruct (price o)|]; cbn [fst]; auto. apply hashes_set_pricing.
Qed.

Lemma inv_reprice env p o pr : inv p -> inv (fst (reprice env p o pr)).
Proof.
  intro H. unfold reprice.
  destruct pr as [x|].
  - destruct (executable o).
    + destruct (w_refresh env o); [destruct (price o)|]; cbn [fst]; auto. apply inv_set_pricing; auto.
    + destruct (w_refresh env (set_price o (Some x))); cbn [price set_price fst]; auto.
      * apply inv_set_pricing. apply inv_set_pricing. auto.
      * apply inv_set_pricing; auto.
  - destruct (w_refresh env o); [destruct (price o)|]; cbn [fst]; auto. apply inv_set_pricing; auto.
Qed.

(* the object returned by reprice keeps identity, locality and the executable flag *)
Lemma reprice_obj env p o pr :
  let o' := snd (reprice env p o pr) in
  hash o' = hash o /\ local_ o' = local_ o /\ executable o' = executable o /\ origin o' = origin o.
Proof.
  unfold reprice.
  destruct pr as [x|].
  - destruct (executable o) eqn:Ee.
    + destruct (w_refresh env o); [destruct (price o)|]; cbn; auto.
    + destruct (w_refresh env (set_price o (Some x))); cbn; auto.
  - destruct (w_refresh env o); [destruct (price o)|]; cbn; auto.
Qed.

(* ---------------- phase 1 *)
Section Phase1.
  Variable env : wash_env.

  Definition base_reason (r : reason) (o : txobj) : Prop :=
    match r with
    | RBlocked => w_blocked env o = true
    | ROutlived => local_ o = false /\ w_outlived env o = true
    | REvalErr c => w_eval env o = EvErr c
    | _ => False
    end.

  (* where a classified copy comes from *)
  Definition from (seen : list txobj) (want_local : bool) (yes : bool) (o' : txobj) : Prop :=
    exists o, In o seen /\ hash o' = hash o /\ local_ o = want_local /\ executable o' = executable o /\
              w_blocked env o = false /\
              (if yes then exists pr, w_eval env o = EvYes pr else w_eval env o = EvNo).

  Definition p1inv (seen : list txobj) (a : phase1) : Prop :=
    (forall h r, In (h, r) (p1_removed a) -> exists o, In o seen /\ hash o = h /\ base_reason r o) /\
    (forall o', In o' (p1_exec a) -> from seen false true o') /\
    (forall o', In o' (p1_nonexec a) -> from seen false false o') /\
    (forall o', In o' (p1_localexec a) -> from seen true true o').

  Lemma from_mono seen x wl y o' : from seen wl y o' -> from (seen ++ [x]) wl y o'.
  Proof.
    intros [o [H1 H2]]. exists o. split; auto. apply in_or_app. auto.
  Qed.

  Lemma p1inv_step seen a o : p1inv seen a -> p1inv (seen ++ [o]) (phase1_step env a o).
  Proof.
    intros [Hr [He [Hn Hl]]].
    assert (Hin : In o (seen ++ [o])) by (apply in_or_app; right; left; auto).
    assert (Hr' : forall h r, In (h, r) (p1_removed a) -> exists o0, In o0 (seen ++ [o]) /\ hash o0 = h /\ base_reason r o0).
    { intros h r H. destruct (Hr h r H) as [o0 [A B]]. exists o0. split; auto. apply in_or_app; auto. }
    assert (He' : forall o', In o' (p1_exec a) -> from (seen ++ [o]) false true o') by (intros; apply from_mono; auto).
    assert (Hn' : forall o', In o' (p1_nonexec a) -> from (seen ++ [o]) false false o') by (intros; apply from_mono; auto).
    assert (Hl' : forall o', In o' (p1_localexec a) -> from (seen ++ [o]) true true o') by (intros; apply from_mono; auto).
    unfold phase1_step.
    destruct (w_blocked env o) eqn:Eb.
    { split; [|split; [|split]]; cbn [p1_removed p1_exec p1_nonexec p1_localexec]; auto.
      intros h r [X|X]; auto. inversion X; subst. exists o. repeat split; auto. }
    destruct (negb (local_ o) && w_outlived env o) eqn:Eo.
    { split; [|split; [|split]]; cbn [p1_removed p1_exec p1_nonexec p1_localexec]; auto.
      intros h r [X|X]; auto. inversion X; subst. exists o. apply andb_true_iff in Eo. destruct Eo as [E1 E2].
      apply negb_true_iff in E1. repeat split; auto. }
    destruct (w_eval env o) as [c| |pr] eqn:Ev.
    - split; [|split; [|split]]; cbn [p1_removed p1_exec p1_nonexec p1_localexec]; auto.
      intros h r [X|X]; auto. inversion X; subst. exists o. repeat split; auto.
    - pose proof (reprice_obj env (p1_pool a) o None) as R. cbv zeta in R.
      destruct (reprice env (p1_pool a) o None) as [p' o'] eqn:Er. cbn [snd] in R. destruct R as [R1 [R2 [R3 R4]]].
      destruct (local_ o) eqn:El.
      + split; [|split; [|split]]; cbn [p1_removed p1_exec p1_nonexec p1_localexec]; auto.
      + split; [|split; [|split]]; cbn [p1_removed p1_exec p1_nonexec p1_localexec]; auto.
        intros x Hx. apply in_app_or in Hx. destruct Hx as [Hx|[<-|[]]]; auto.
        exists o. repeat split; auto.
    - pose proof (reprice_obj env (p1_pool a) o pr) as R. cbv zeta in R.
      destruct (reprice env (p1_pool a) o pr) as [p' o'] eqn:Er. cbn [snd] in R. destruct R as [R1 [R2 [R3 R4]]].
      destruct (local_ o) eqn:El.
      + split; [|split; [|split]]; cbn [p1_removed p1_exec p1_nonexec p1_localexec]; auto.
        intros x Hx. apply in_app_or in Hx. destruct Hx as [Hx|[<-|[]]]; auto.
        exists o. repeat split; auto. exists pr; auto.
      + split; [|split; [|split]]; cbn [p1_removed p1_exec p1_nonexec p1_localexec]; auto.
        intros x Hx. apply in_app_or in Hx. destruct Hx as [Hx|[<-|[]]]; auto.
        exists o. repeat split; auto. exists pr; auto.
  Qed.

  Lemma p1inv_fold : forall l seen a, p1inv seen a -> p1inv (seen ++ l) (fold_left (phase1_step env) l a).
  Proof.
    induction l as [|o t IH]; intros seen a H; cbn [fold_left].
    - rewrite app_nil_r. auto.
    - replace (seen ++ o :: t) with ((seen ++ [o]) ++ t) by (rewrite <- app_assoc; auto).
      apply IH. apply p1inv_step. auto.
  Qed.

  Lemma p1inv_run p : p1inv (objs p) (run_phase1 env p).
  Proof.
    unfold run_phase1. apply (p1inv_fold (objs p) [] (mkP1 p [] [] [] [])).
    repeat split; cbn; intros; contradiction.
  Qed.

  Lemma step_pool_inv a o : inv (p1_pool a) -> inv (p1_pool (phase1_step env a o)).
  Proof.
    intro H. unfold phase1_step.
    destruct (w_blocked env o); auto.
    destruct (negb (local_ o) && w_outlived env o); auto.
    destruct (w_eval env o) as [c| |pr]; auto.
    - pose proof (inv_reprice env (p1_pool a) o None H) as X.
      destruct (reprice env (p1_pool a) o None) as [p' o']. cbn [fst] in X. destruct (local_ o); auto.
    - pose proof (inv_reprice env (p1_pool a) o pr H) as X.
      destruct (reprice env (p1_pool a) o pr) as [p' o']. cbn [fst] in X. destruct (local_ o); auto.
  Qed.

  Lemma step_pool_hashes a o : map hash (objs (p1_pool (phase1_step env a o))) = map hash (objs (p1_pool a)).
  Proof.
    unfold phase1_step.
    destruct (w_blocked env o); auto.
    destruct (negb (local_ o) && w_outlived env o); auto.
    destruct (w_eval env o) as [c| |pr]; auto.
    - pose proof (hashes_reprice env (p1_pool a) o None) as X.
      destruct (reprice env (p1_pool a) o None) as [p' o']. cbn [fst] in X. destruct (local_ o); auto.
    - pose proof (hashes_reprice env (p1_pool a) o pr) as X.
      destruct (reprice env (p1_pool a) o pr) as [p' o']. cbn [fst] in X. destruct (local_ o); auto.
  Qed.

  Lemma fold_pool_hashes : forall l a,
      map hash (objs (p1_pool (fold_left (phase1_step env) l a))) = map hash (objs (p1_pool a)).
  Proof.
    induction l as [|o t IH]; intros a; cbn [fold_left]; auto. rewrite IH. apply step_pool_hashes.
  Qed.

  Lemma fold_pool_inv : forall l a, inv (p1_pool a) ->
      inv (p1_pool (fold_left (phase1_step env) l a)) /\
      map hash (objs (p1_pool (fold_left (phase1_step env) l a))) = map hash (objs (p1_pool a)).
  Proof.
    induction l as [|o t IH]; intros a H; cbn [fold_left]; auto.
    destruct (IH (phase1_step env a o) (step_pool_inv a o H)) as [I1 I2]. split; auto.
    rewrite I2. apply step_pool_hashes.
  Qed.
End Phase1.

(* ---------------- eviction *)
Lemma inv_evict : forall l p, inv p -> inv (evict p l).
Proof.
  unfold evict. induction l as [|x t IH]; intros p H; cbn [fold_left]; auto. apply IH. apply inv_remove. auto.
Qed.

Lemma map_hash_filter h : forall l,
    map hash (filter (fun o : txobj => negb (hash o =? h)) l) = filter (fun x => negb (x =? h)) (map hash l).
Proof. induction l as [|x t IH]; cbn; auto. destruct (hash x =? h); cbn; auto. f_equal. auto. Qed.

Lemma hashes_remove p h : map hash (objs (fst (remove_by_hash p h))) = filter (fun x => negb (x =? h)) (map hash (objs p)).
Proof.
  unfold remove_by_hash. destruct (find_obj h (objs p)) as [o|] eqn:E; cbn [fst objs].
  - unfold remove_obj. apply map_hash_filter.
  - (* nothing has this hash *)
    assert (Hn := find_obj_none _ _ E).
    induction (map hash (objs p)) as [|x t IH]; cbn; auto.
    destruct (x =? h) eqn:Ex.
    + apply N.eqb_eq in Ex. subst. exfalso. apply Hn. left; auto.
    + cbn. f_equal. apply IH. intro X. apply Hn. right; auto.
Qed.

Lemma evict_keeps : forall l p h, In h (map hash (objs p)) ->
    In h (map hash (objs (evict p l))) \/ In h (map fst l).
Proof.
  unfold evict. induction l as [|x t IH]; intros p h H; cbn [fold_left]; auto.
  destruct (N.eq_dec h (fst x)) as [->|Hne].
  - right. left. auto.
  - destruct (IH (fst (remove_by_hash p (fst x))) h) as [A|A]; auto.
    + rewrite hashes_remove. apply filter_In. split; auto. apply negb_true_iff. apply N.eqb_neq. auto.
    + right. right. auto.
Qed.

Lemma hashes_publish energy : forall cands p, map hash (objs (fst (fst (publish p energy cands)))) = map hash (objs p).
Proof.
  induction cands as [|o t IH]; intro p; cbn [publish]; auto.
  destruct (executable o).
  - specialize (IH p). destruct (publish p energy t) as [[p' pub] bad]. auto.
  - destruct (price o) as [pc|].
    + destruct (energy (payer pc) <? aget (cost p) (payer pc) + pcost pc).
      * specialize (IH p). destruct (publish p energy t) as [[p' pub] bad]. auto.
      * pose proof (hashes_promote p (hash o) (oid o)) as Hp.
        destruct (promote p (hash o) (oid o)) as [p1 ok]. cbn [fst] in Hp. destruct ok.
        -- specialize (IH p1). destruct (publish p1 energy t) as [[p' pub] bad]. cbn [fst] in *. congruence.
        -- rewrite IH. auto.
    + specialize (IH p). destruct (publish p energy t) as [[p' pub] bad]. auto.
Qed.

Lemma publish_pub_in energy : forall cands p o, In o (snd (fst (publish p energy cands))) -> In o cands.
Proof.
  intros cands p o H. pose proof (publish_subseq energy cands p) as S.
  induction S; auto.
  - right. auto.
  - destruct H as [<-|H]; [left; auto|right; auto].
Qed.

(* ---------------- sorting keeps the elements *)
Lemma insert_desc_in x y l : In y (insert_desc x l) <-> y = x \/ In y l.
Proof.
  induction l as [|z t IH]; cbn.
  - split; [intros [H|[]]; auto | intros [H|[]]; auto].
  - destruct (before x z); cbn; [split; intros [H|[H|H]]; auto|]. rewrite IH. tauto.
Qed.

Lemma sort_desc_in y l : In y (sort_desc l) <-> In y l.
Proof.
  induction l as [|x t IH]; cbn; [tauto|]. rewrite insert_desc_in, IH. split; intros [H|H]; auto.
Qed.

Lemma insert_desc_length x l : length (insert_desc x l) = S (length l).
Proof. induction l as [|y t IH]; cbn; auto. destruct (before x y); cbn; auto. Qed.

Lemma sort_desc_length l : length (sort_desc l) = length l.
Proof. induction l as [|x t IH]; cbn; auto. rewrite insert_desc_length. auto. Qed.

Lemma in_skipn {A} (x : A) : forall n l, In x (skipn n l) -> In x l.
Proof. induction n; intros l H; auto. destruct l; cbn in *; auto. Qed.

Lemma in_firstn {A} (x : A) : forall n l, In x (firstn n l) -> In x l.
Proof. induction n; intros l H; cbn in *; [contradiction|]. destruct l; cbn in *; auto. destruct H; auto. Qed.

(* ---------------- the whole wash *)
Section Wash.
  Variable env : wash_env.

  Theorem wash_inv p : inv p -> inv (wr_pool (wash env p)).
  Proof.
    intro H. unfold wash.
    destruct (fold_pool_inv env (objs p) (mkP1 p [] [] [] []) H) as [I1 _]. fold (run_phase1 env p) in I1.
    destruct (apply_limits (w_limit env) (sort_desc (p1_exec (run_phase1 env p))) (p1_nonexec (run_phase1 env p))) as [kept over].
    pose proof (publish_inv (w_energy env) (sort_desc (kept ++ p1_localexec (run_phase1 env p))) _ I1) as I2.
    destruct (publish (p1_pool (run_phase1 env p)) (w_energy env) (sort_desc (kept ++ p1_localexec (run_phase1 env p)))) as [[p2 pub] bad].
    cbn [wr_pool fst] in *. apply inv_evict. auto.
  Qed.

  (* what each reason asserts about the (pre-wash) object it is attached to *)
  Definition reason_holds (a : phase1) (o : txobj) (r : reason) : Prop :=
    let ne := length (p1_exec a) in
    let nn := length (p1_nonexec a) in
    let limit := w_limit env in
    match r with
    | RBlocked => w_blocked env o = true
    | ROutlived => local_ o = false /\ w_outlived env o = true
    | REvalErr c => w_eval env o = EvErr c
    | RLimitNonExecAll => local_ o = false /\ w_eval env o = EvNo /\ (limit < ne)%nat
    | RLimitExecTail => local_ o = false /\ (exists pr, w_eval env o = EvYes pr) /\ (limit < ne)%nat
    | RLimitTotal => local_ o = false /\ w_eval env o = EvNo /\ (ne <= limit < ne + nn)%nat
    | RLimitNonExec => local_ o = false /\ w_eval env o = EvNo /\ (ne + nn <= limit)%nat /\ (Nat.div (limit * 2) 10 < nn)%nat
    | RUnpayable => executable o = false /\ exists pr, w_eval env o = EvYes pr
    end.

  Lemma limits_reason a kept over :
    forall seen, p1inv env seen a ->
    apply_limits (w_limit env) (sort_desc (p1_exec a)) (p1_nonexec a) = (kept, over) ->
    (forall h r, In (h, r) over -> exists o, In o seen /\ hash o = h /\ reason_holds a o r) /\
    (forall o', In o' kept -> In o' (p1_exec a)).
  Proof.
    intros seen [_ [He [Hn _]]] H. unfold apply_limits in H.
    assert (Lsort := sort_desc_length (p1_exec a)).
    rewrite Lsort in H.
    assert (FromE : forall o', In o' (sort_desc (p1_exec a)) -> from env seen false true o').
    { intros o' Ho. apply He. apply sort_desc_in. auto. }
    destruct (Nat.ltb (w_limit env) (length (p1_exec a))) eqn:E1.
    { apply Nat.ltb_lt in E1. inversion H; subst; clear H. split.
      - intros h r Hin. apply in_app_or in Hin. unfold tag in Hin. destruct Hin as [Hin|Hin]; apply in_map_iff in Hin;
          destruct Hin as [o' [Eq Ho']]; inversion Eq; subst.
        + destruct (Hn _ Ho') as [o [A [B [C [D [_ F]]]]]]. exists o. cbn. repeat split; auto.
        + destruct (FromE _ (in_skipn _ _ _ Ho')) as [o [A [B [C [D [_ F]]]]]]. exists o. cbn. repeat split; auto.
      - intros o' Ho'. apply sort_desc_in. eapply in_firstn; eauto. }
    apply Nat.ltb_ge in E1.
    destruct (Nat.ltb (w_limit env) (length (p1_exec a) + length (p1_nonexec a))) eqn:E2.
    { apply Nat.ltb_lt in E2. inversion H; subst; clear H. split.
      - intros h r Hin. unfold tag in Hin. apply in_map_iff in Hin. destruct Hin as [o' [Eq Ho']]. inversion Eq; subst.
        destruct (Hn _ (in_skipn _ _ _ Ho')) as [o [A [B [C [D [_ F]]]]]]. exists o. cbn. repeat split; auto.
      - intros o' Ho'. apply sort_desc_in. auto. }
    apply Nat.ltb_ge in E2.
    destruct (Nat.ltb (Nat.div (w_limit env * 2) 10) (length (p1_nonexec a))) eqn:E3.
    { apply Nat.ltb_lt in E3. inversion H; subst; clear H. split.
      - intros h r Hin. unfold tag in Hin. apply in_map_iff in Hin. destruct Hin as [o' [Eq Ho']]. inversion Eq; subst.
        destruct (Hn _ (in_skipn _ _ _ Ho')) as [o [A [B [C [D [_ F]]]]]]. exists o. cbn. repeat split; auto.
      - intros o' Ho'. apply sort_desc_in. auto. }
    inversion H; subst. split; [intros h r []|]. intros o' Ho'. apply sort_desc_in. auto.
  Qed.

  (* drop_reasons: whatever wash removes carries a reason that is true of the pooled object *)
  Theorem drop_reasons_thm p h r :
    In (h, r) (wr_removed (wash env p)) ->
    exists o, In o (objs p) /\ hash o = h /\ reason_holds (run_phase1 env p) o r.
  Proof.
    unfold wash. set (a := run_phase1 env p).
    pose proof (p1inv_run env p) as PI. fold a in PI.
    destruct (apply_limits (w_limit env) (sort_desc (p1_exec a)) (p1_nonexec a)) as [kept over] eqn:EL.
    destruct (limits_reason a kept over (objs p) PI EL) as [LR LK].
    destruct (publish (p1_pool a) (w_energy env) (sort_desc (kept ++ p1_localexec a))) as [[p2 pub] bad] eqn:EP.
    cbn [wr_removed]. intro Hin.
    apply in_app_or in Hin. destruct Hin as [Hin|Hin].
    - destruct PI as [Hr _]. destruct (Hr _ _ Hin) as [o [A [B C]]]. exists o. repeat split; auto.
      destruct r; cbn in C |- *; auto; contradiction.
    - apply in_app_or in Hin. destruct Hin as [Hin|Hin]; [apply LR; auto|].
      apply in_map_iff in Hin. destruct Hin as [h' [Eq Hb]]. inversion Eq; subst.
      assert (Hb' : In h (snd (publish (p1_pool a) (w_energy env) (sort_desc (kept ++ p1_localexec a))))) by (rewrite EP; auto).
      destruct (publish_drop_reason _ _ _ _ Hb') as [o' [Ho' [Hh He]]].
      apply (proj1 (sort_desc_in _ _)) in Ho'. destruct PI as [_ [PE [_ PL]]].
      assert (F : exists wl, from env (objs p) wl true o').
      { apply in_app_or in Ho'. destruct Ho' as [Ho'|Ho']; [exists false; apply PE; auto|exists true; apply PL; auto]. }
      destruct F as [wl [o [A [B [C [D [_ F]]]]]]]. exists o. repeat split; auto; try congruence.
  Qed.

  (* RUnpayable with its energy condition: the candidate (the pooled object with the pricing this wash published on it)
     was not executable and had no pricing, or its payer's energy at the next block time is below pending + cost,
     pending being the payer's pending cost in the pool q as it stood when the candidate's turn came *)
  Lemma tag_reason r l h r' : In (h, r') (tag r l) -> r' = r.
  Proof. unfold tag. intro H. apply in_map_iff in H. destruct H as [o [E _]]. inversion E. auto. Qed.

  Theorem unpayable_energy_reason p h :
    In (h, RUnpayable) (wr_removed (wash env p)) ->
    exists o' q, hash o' = h /\ executable o' = false /\
      (price o' = None \/
       exists pc, price o' = Some pc /\ w_energy env (payer pc) < aget (cost q) (payer pc) + pcost pc).
  Proof.
    unfold wash. set (a := run_phase1 env p).
    pose proof (p1inv_run env p) as PI. fold a in PI.
    destruct (apply_limits (w_limit env) (sort_desc (p1_exec a)) (p1_nonexec a)) as [kept over] eqn:EL.
    destruct (publish (p1_pool a) (w_energy env) (sort_desc (kept ++ p1_localexec a))) as [[p2 pub] bad] eqn:EP.
    cbn [wr_removed]. intro Hin. apply in_app_or in Hin. destruct Hin as [Hin|Hin].
    { destruct PI as [Hr _]. destruct (Hr _ _ Hin) as [o [_ [_ C]]]. cbn in C. contradiction. }
    apply in_app_or in Hin. destruct Hin as [Hin|Hin].
    { exfalso. unfold apply_limits in EL.
      destruct (Nat.ltb (w_limit env) (length (sort_desc (p1_exec a)))).
      - inversion EL; subst. apply in_app_or in Hin. destruct Hin as [X|X]; apply tag_reason in X; discriminate.
      - destruct (Nat.ltb (w_limit env) (length (sort_desc (p1_exec a)) + length (p1_nonexec a))).
        + inversion EL; subst. apply tag_reason in Hin. discriminate.
        + destruct (Nat.ltb (Nat.div (w_limit env * 2) 10) (length (p1_nonexec a))); inversion EL; subst.
          * apply tag_reason in Hin. discriminate.
          * destruct Hin. }
    apply in_map_iff in Hin. destruct Hin as [h' [Eq Hb]]. inversion Eq; subst.
    assert (Hb' : In h (snd (publish (p1_pool a) (w_energy env) (sort_desc (kept ++ p1_localexec a))))) by (rewrite EP; auto).
    destruct (publish_drop_energy _ _ _ _ Hb') as [o' [q [_ [A [B C]]]]]. exists o', q. auto.
  Qed.

  (* limit case 1 inside wash: when the non-local executables alone exceed the limit, exactly the tail of the price-sorted
     list is removed with RLimitExecTail and every victim is priced no higher than every kept candidate *)
  Theorem wash_displaces_lowest_priced p :
    let a := run_phase1 env p in
    let sorted := sort_desc (p1_exec a) in
    (w_limit env < length (p1_exec a))%nat ->
    forall y, In y (skipn (w_limit env) sorted) ->
      In (hash y, RLimitExecTail) (wr_removed (wash env p)) /\
      forall x, In x (firstn (w_limit env) sorted) -> pgp_of y <= pgp_of x.
  Proof.
    intros a sorted Hlt y Hy. split.
    - unfold wash. fold a. fold sorted. unfold apply_limits.
      assert (E : Nat.ltb (w_limit env) (length sorted) = true).
      { apply Nat.ltb_lt. unfold sorted. rewrite sort_desc_length. auto. }
      rewrite E.
      destruct (publish (p1_pool a) (w_energy env) (sort_desc (firstn (w_limit env) sorted ++ p1_localexec a))) as [[p2 pub] bad].
      cbn [wr_removed]. apply in_or_app. right. apply in_or_app. left. apply in_or_app. right.
      unfold tag. apply in_map_iff. exists y. auto.
    - intros x Hx.
      assert (S := sort_desc_sorted (p1_exec a)). fold sorted in S.
      clear - S Hx Hy. revert Hx Hy. generalize (w_limit env). revert x y.
      induction sorted as [|z t IH]; intros x y n Hx Hy.
      + destruct n; cbn in Hx; contradiction.
      + destruct n as [|n]; [cbn in Hx; contradiction|].
        inversion S as [|? ? S' F]; subst. cbn in Hx, Hy. destruct Hx as [<-|Hx].
        * rewrite Forall_forall in F. apply F. eapply in_skipn; eauto.
        * eapply IH; eauto.
  Qed.

  (* what wash publishes was evaluated executable on this head and is not blocked *)
  Theorem published_were_evaluated p o' :
    In o' (wr_published (wash env p)) ->
    exists o, In o (objs p) /\ hash o' = hash o /\ w_blocked env o = false /\ exists pr, w_eval env o = EvYes pr.
  Proof.
    unfold wash. set (a := run_phase1 env p).
    pose proof (p1inv_run env p) as PI. fold a in PI.
    destruct (apply_limits (w_limit env) (sort_desc (p1_exec a)) (p1_nonexec a)) as [kept over] eqn:EL.
    destruct (limits_reason a kept over (objs p) PI EL) as [LR LK].
    pose proof (publish_pub_in (w_energy env) (sort_desc (kept ++ p1_localexec a)) (p1_pool a) o') as PP.
    destruct (publish (p1_pool a) (w_energy env) (sort_desc (kept ++ p1_localexec a))) as [[p2 pub] bad].
    cbn [wr_published fst snd] in *. intro Hin. specialize (PP Hin).
    apply (proj1 (sort_desc_in _ _)) in PP. destruct PI as [_ [PE [_ PL]]].
    apply in_app_or in PP. destruct PP as [PP|PP].
    - destruct (PE _ (LK _ PP)) as [o [A [B [C [D [E F]]]]]]. exists o. auto.
    - destruct (PL _ PP) as [o [A [B [C [D [E F]]]]]]. exists o. auto.
  Qed.

  Theorem wash_published_sorted p :
    StronglySorted ge_price (wr_published (wash env p)).
  Proof.
    unfold wash. set (a := run_phase1 env p).
    destruct (apply_limits (w_limit env) (sort_desc (p1_exec a)) (p1_nonexec a)) as [kept over].
    pose proof (executables_sorted_thm (p1_pool a) (w_energy env) (kept ++ p1_localexec a)) as S.
    destruct (publish (p1_pool a) (w_energy env) (sort_desc (kept ++ p1_localexec a))) as [[p2 pub] bad].
    cbn [wr_published fst snd] in *. auto.
  Qed.

  (* nothing else leaves: an object of the pool is still there after the wash or is in the removed list *)
  Theorem wash_only_removes_listed p o :
    In o (objs p) ->
    In (hash o) (map hash (objs (wr_pool (wash env p)))) \/ In (hash o) (map fst (wr_removed (wash env p))).
  Proof.
    intro Ho. unfold wash. set (a := run_phase1 env p).
    destruct (apply_limits (w_limit env) (sort_desc (p1_exec a)) (p1_nonexec a)) as [kept over].
    pose proof (hashes_publish (w_energy env) (sort_desc (kept ++ p1_localexec a)) (p1_pool a)) as HP.
    destruct (publish (p1_pool a) (w_energy env) (sort_desc (kept ++ p1_localexec a))) as [[p2 pub] bad].
    cbn [wr_pool wr_removed fst] in *. apply evict_keeps. rewrite HP.
    unfold a, run_phase1. rewrite fold_pool_hashes. cbn [p1_pool]. apply in_map. auto.
  Qed.
End Wash.
