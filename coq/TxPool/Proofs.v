(* TxPool/Proofs.v — bookkeeping_inv: after EVERY sequence of atomic steps the quota and cost maps are exactly what
   the pool content implies (entries absent exactly when the count is zero). *)
From Coq Require Import List NArith ZArith Bool Lia ZifyN ZifyNat ZifyBool Sorted.
From Verif Require Import Common.Util TxPool.Model.
Import ListNotations.
Open Scope N_scope.

Definition Q (c : N) : option N := if c =? 0 then None else Some c.

Definition inv (p : pool) : Prop :=
  NoDup (map hash (objs p)) /\
  (forall a, quota p a = Q (quota_of (objs p) a)) /\
  (forall a, aget (cost p) a = cost_of (objs p) a).

(* ---------------- map lemmas *)
Lemma aget_Q q c a : q a = Q (c a) -> aget q a = c a.
Proof. unfold aget, Q. intros ->. destruct (c a =? 0) eqn:E; auto. apply N.eqb_eq in E. auto. Qed.

Lemma qinc_Q q (c : N -> N) k :
  (forall a, q a = Q (c a)) -> forall a, qinc q k a = Q (c a + (if a =? k then 1 else 0)).
Proof.
  intros H a. unfold qinc, aset. rewrite (aget_Q q c k (H k)).
  destruct (a =? k) eqn:E.
  - apply N.eqb_eq in E. subst. unfold Q. destruct (c k + 1 =? 0) eqn:Z; auto. apply N.eqb_eq in Z. lia.
  - rewrite N.add_0_r. auto.
Qed.

Lemma qdec_Q q (c : N -> N) k :
  (forall a, q a = Q (c a)) -> 1 <= c k -> forall a, qdec q k a = Q (c a - (if a =? k then 1 else 0)).
Proof.
  intros H Hk a. unfold qdec. rewrite (aget_Q q c k (H k)).
  destruct (1 <? c k) eqn:L.
  - apply N.ltb_lt in L. unfold aset. destruct (a =? k) eqn:E.
    + apply N.eqb_eq in E. subst. unfold Q. destruct (c k - 1 =? 0) eqn:Z; auto. apply N.eqb_eq in Z. lia.
    + rewrite N.sub_0_r. auto.
  - apply N.ltb_ge in L. unfold adel. destruct (a =? k) eqn:E.
    + apply N.eqb_eq in E. subst. unfold Q. replace (c k - 1) with 0 by lia. auto.
    + rewrite N.sub_0_r. auto.
Qed.

(* ---------------- list lemmas *)
Lemma find_obj_some h l o : find_obj h l = Some o -> In o l /\ hash o = h.
Proof. unfold find_obj. intro H. apply find_some in H. destruct H as [H1 H2]. apply N.eqb_eq in H2. auto. Qed.

Lemma find_obj_none h l : find_obj h l = None -> ~ In h (map hash l).
Proof.
  unfold find_obj. intros H Hin. apply in_map_iff in Hin. destruct Hin as [o [E Ho]].
  assert (X := find_none _ _ H o Ho). cbn in X. rewrite E, N.eqb_refl in X. discriminate.
Qed.

Section Sums.
  Variable f : txobj -> N.

  Lemma sum_remove : forall l h o, NoDup (map hash l) -> find_obj h l = Some o ->
      sumN (map f l) = f o + sumN (map f (remove_obj h l)).
  Proof.
    induction l as [|x t IH]; intros h o Hnd Hf; [discriminate|].
    cbn in Hnd. inversion Hnd as [|? ? Hnot Hnd']; subst.
    unfold find_obj in Hf. cbn [find] in Hf. cbn [remove_obj filter map sumN].
    destruct (hash x =? h) eqn:E.
    - inversion Hf; subst. cbn [negb]. f_equal.
      (* no other element has this hash *)
      apply N.eqb_eq in E. clear IH Hf Hnd Hnd'.
      induction t as [|y t IHt]; auto. cbn [filter map sumN].
      destruct (hash y =? h) eqn:Ey.
      + apply N.eqb_eq in Ey. exfalso. apply Hnot. cbn. left. congruence.
      + cbn [negb]. cbn [map sumN]. f_equal. apply IHt. intro X. apply Hnot. cbn. right. auto.
    - cbn [negb map sumN]. rewrite (IH h o Hnd' Hf). unfold remove_obj. lia.
  Qed.

  Lemma sum_replace : forall l o o', NoDup (map hash l) -> find_obj (hash o') l = Some o ->
      sumN (map f (replace_obj o' l)) + f o = sumN (map f l) + f o'.
  Proof.
    induction l as [|x t IH]; intros o o' Hnd Hf; [discriminate|].
    cbn in Hnd. inversion Hnd as [|? ? Hnot Hnd']; subst.
    unfold find_obj in Hf. cbn [find] in Hf. cbn [replace_obj map sumN].
    destruct (hash x =? hash o') eqn:E.
    - inversion Hf; subst. apply N.eqb_eq in E.
      assert (Hsame : map f (map (fun o0 => if hash o0 =? hash o' then o' else o0) t) = map f t).
      { clear IH Hf Hnd Hnd'. induction t as [|y t IHt]; auto. cbn [map].
        destruct (hash y =? hash o') eqn:Ey.
        - apply N.eqb_eq in Ey. exfalso. apply Hnot. cbn. left. congruence.
        - f_equal. apply IHt. intro X. apply Hnot. cbn. right. auto. }
      rewrite Hsame. lia.
    - assert (X := IH o o' Hnd' Hf). unfold replace_obj in X. lia.
  Qed.
End Sums.

Lemma nodup_remove h l : NoDup (map hash l) -> NoDup (map hash (remove_obj h l)).
Proof.
  induction l as [|x t IH]; intro H; cbn; [constructor|].
  cbn in H. inversion H as [|? ? Hnot Hnd]; subst.
  destruct (hash x =? h); cbn [negb]; auto.
  cbn. constructor; auto. intro X. apply Hnot.
  apply in_map_iff in X. destruct X as [y [E Hy]]. apply filter_In in Hy. apply in_map_iff. exists y. tauto.
Qed.

Lemma hashes_replace o' l : map hash (replace_obj o' l) = map hash l.
Proof.
  unfold replace_obj. induction l as [|x t IH]; auto. cbn [map]. rewrite IH.
  destruct (hash x =? hash o') eqn:E; auto. apply N.eqb_eq in E. congruence.
Qed.

Lemma refs_set_exec a o e : refs a (set_exec o e) = refs a o. Proof. reflexivity. Qed.
Lemma refs_set_price a o p : refs a (set_price o p) = refs a o. Proof. reflexivity. Qed.

(* ---------------- each atomic step preserves the invariant *)
Lemma inv_empty : inv empty_pool.
Proof. unfold inv. cbn. repeat split; auto. constructor. Qed.

Lemma quota_insert q l o :
  (forall a, q a = Q (quota_of l a)) ->
  forall a, (match delegator o with Some d => qinc (qinc q (origin o)) d | None => qinc q (origin o) end) a
            = Q (quota_of l a + refs a o).
Proof.
  intros H a. unfold refs. destruct (delegator o) as [d|].
  - rewrite (qinc_Q _ (fun a => quota_of l a + (if a =? origin o then 1 else 0)) d).
    + f_equal. lia.
    + intro b. apply qinc_Q. auto.
  - rewrite (qinc_Q _ (quota_of l) (origin o) H). f_equal. lia.
Qed.

Lemma inv_add p o exe pr limit balance : inv p -> inv (fst (add p o exe pr limit balance)).
Proof.
  intros [Hnd [Hq Hc]]. unfold add.
  destruct (find_obj (hash o) (objs p)) eqn:Ef; [cbn; unfold inv; auto|].
  destruct (limit <=? aget (quota p) (origin o)); [cbn; unfold inv; auto|].
  destruct (match delegator o with Some d => limit <=? aget (quota p) d | None => false end); [cbn; unfold inv; auto|].
  set (o1 := match pr with Some _ => set_price o pr | None => o end).
  set (o2 := set_exec o1 exe).
  assert (Href : forall a, refs a o2 = refs a o).
  { intro a. unfold o2, o1. destruct pr; reflexivity. }
  assert (Hh : hash o2 = hash o) by (unfold o2, o1; destruct pr; reflexivity).
  destruct (if exe then price o2 else None) as [pc|] eqn:Ech.
  - cbn zeta.
    destruct (balance (payer pc) <? aget (cost p) (payer pc) + pcost pc); [cbn; unfold inv; auto|].
    unfold inv. cbn [fst objs quota cost]. split; [|split].
    + cbn [map]. rewrite Hh. constructor; auto. apply find_obj_none; auto.
    + intro a. unfold quota_of. cbn [map sumN]. rewrite Href. fold (quota_of (objs p) a).
      rewrite (quota_insert (quota p) (objs p) o Hq a). f_equal. lia.
    + intro a. unfold cost_of. cbn [map sumN]. fold (cost_of (objs p) a).
      assert (Hexe : exe = true) by (destruct exe; [auto|discriminate]). subst exe.
      unfold charge_of. replace (executable o2) with true by reflexivity. rewrite Ech.
      unfold aget, aset. destruct (a =? payer pc) eqn:E.
      * apply N.eqb_eq in E. subst a. specialize (Hc (payer pc)). unfold aget in Hc. rewrite Hc. lia.
      * specialize (Hc a). unfold aget in Hc. rewrite Hc. lia.
  - cbn zeta. unfold inv. cbn [fst objs quota cost]. split; [|split].
    + cbn [map]. rewrite Hh. constructor; auto. apply find_obj_none; auto.
    + intro a. unfold quota_of. cbn [map sumN]. rewrite Href. fold (quota_of (objs p) a).
      rewrite (quota_insert (quota p) (objs p) o Hq a). f_equal. lia.
    + intro a. unfold cost_of. cbn [map sumN]. fold (cost_of (objs p) a). rewrite Hc.
      unfold charge_of. destruct exe.
      * replace (executable o2) with true by reflexivity. rewrite Ech. lia.
      * replace (executable o2) with false by reflexivity. lia.
Qed.

Lemma inv_fill l : forall p, inv p -> inv (fill p l).
Proof.
  induction l as [|o t IH]; intros p Hp; cbn [fill]; auto.
  destruct (find_obj (hash o) (objs p)) eqn:Ef; auto.
  apply IH. destruct Hp as [Hnd [Hq Hc]]. split; [|split]; cbn [objs quota cost].
  - cbn. constructor; auto. apply find_obj_none; auto.
  - intro a. unfold quota_of. cbn [map sumN]. rewrite refs_set_exec. fold (quota_of (objs p) a).
    rewrite (quota_insert (quota p) (objs p) o Hq a). f_equal. lia.
  - intro a. unfold cost_of. cbn [map sumN]. fold (cost_of (objs p) a). rewrite Hc.
    unfold charge_of. cbn. lia.
Qed.

Lemma inv_remove p h : inv p -> inv (fst (remove_by_hash p h)).
Proof.
  intros [Hnd [Hq Hc]]. unfold remove_by_hash.
  destruct (find_obj h (objs p)) as [o|] eqn:Ef; [|cbn; unfold inv; auto].
  cbn [fst]. split; [|split]; cbn [objs quota cost].
  - apply nodup_remove; auto.
  - intro a.
    assert (Hsum : forall b, quota_of (objs p) b = refs b o + quota_of (remove_obj h (objs p)) b).
    { intro b. unfold quota_of. apply sum_remove; auto. }
    set (c1 := fun b => quota_of (objs p) b - (if b =? origin o then 1 else 0)).
    assert (H1 : forall b, qdec (quota p) (origin o) b = Q (c1 b)).
    { intro b. apply qdec_Q; auto. rewrite Hsum. unfold refs. rewrite N.eqb_refl. lia. }
    destruct (delegator o) as [d|] eqn:Ed.
    + rewrite (qdec_Q _ c1 d H1).
      * f_equal. unfold c1. rewrite Hsum. unfold refs. rewrite Ed. lia.
      * unfold c1. rewrite Hsum. unfold refs. rewrite Ed, N.eqb_refl. lia.
    + rewrite H1. f_equal. unfold c1. rewrite Hsum. unfold refs. rewrite Ed. lia.
  - intro a.
    assert (Hsum : forall b, cost_of (objs p) b = charge_of b o + cost_of (remove_obj h (objs p)) b).
    { intro b. unfold cost_of. apply sum_remove; auto. }
    unfold charge_of in Hsum.
    destruct (executable o) eqn:Ee.
    + destruct (price o) as [pc|] eqn:Ep.
      * assert (Hp := Hc (payer pc)). assert (Hs := Hsum (payer pc)). rewrite N.eqb_refl in Hs.
        unfold aget in Hp.
        destruct (cost p (payer pc)) as [pending|] eqn:Ecp.
        -- destruct (pending <=? pcost pc) eqn:Ele.
           ++ apply N.leb_le in Ele. unfold aget, adel. destruct (a =? payer pc) eqn:E.
              ** apply N.eqb_eq in E. subst a. lia.
              ** specialize (Hc a). unfold aget in Hc. rewrite Hc, Hsum, E. lia.
           ++ apply N.leb_gt in Ele. unfold aget, aset. destruct (a =? payer pc) eqn:E.
              ** apply N.eqb_eq in E. subst a. lia.
              ** specialize (Hc a). unfold aget in Hc. rewrite Hc, Hsum, E. lia.
        -- destruct (a =? payer pc) eqn:E.
           ++ apply N.eqb_eq in E. subst a. unfold aget. rewrite Ecp. lia.
           ++ rewrite Hc, Hsum, E. lia.
      * rewrite Hc, Hsum. lia.
    + rewrite Hc, Hsum. lia.
Qed.

Lemma inv_promote p h id : inv p -> inv (fst (promote p h id)).
Proof.
  intros [Hnd [Hq Hc]]. unfold promote.
  destruct (find_obj h (objs p)) as [o|] eqn:Ef; [|cbn; unfold inv; auto].
  destruct (negb (oid o =? id)); [cbn; unfold inv; auto|].
  destruct (executable o) eqn:Ee; [cbn; unfold inv; auto|].
  destruct (find_obj_some _ _ _ Ef) as [Hin Hh]. subst h.
  cbn [fst]. split; [|split]; cbn [objs quota cost].
  - rewrite hashes_replace. auto.
  - intro a. rewrite Hq. f_equal. unfold quota_of.
    assert (X := sum_replace (refs a) (objs p) o (set_exec o true) Hnd Ef). rewrite refs_set_exec in X. lia.
  - intro a. unfold cost_of.
    assert (X := sum_replace (charge_of a) (objs p) o (set_exec o true) Hnd Ef).
    assert (H1 : charge_of a o = 0) by (unfold charge_of; rewrite Ee; auto).
    assert (H2 : charge_of a (set_exec o true) =
                 match price o with Some pc => if a =? payer pc then pcost pc else 0 | None => 0 end) by reflexivity.
    rewrite H1, H2 in X. fold (cost_of (objs p) a) in X. clear H1 H2.
    destruct (price o) as [pc|] eqn:Ep.
    + unfold aget, aset. destruct (a =? payer pc) eqn:E.
      * apply N.eqb_eq in E. subst a. specialize (Hc (payer pc)). unfold aget in Hc. rewrite Hc. lia.
      * specialize (Hc a). unfold aget in Hc. rewrite Hc. lia.
    + rewrite Hc. lia.
Qed.

Lemma inv_set_pricing p h id pr : inv p -> inv (set_pricing p h id pr).
Proof.
  intros [Hnd [Hq Hc]]. unfold set_pricing.
  destruct (find_obj h (objs p)) as [o|] eqn:Ef; [|unfold inv; auto].
  destruct (find_obj_some _ _ _ Ef) as [Hin Hh]. subst h.
  destruct ((oid o =? id) && (negb (executable o) || _)) eqn:Eal; [|unfold inv; auto].
  apply andb_true_iff in Eal. destruct Eal as [_ Eal].
  split; [|split]; cbn [objs quota cost].
  - rewrite hashes_replace. auto.
  - intro a. rewrite Hq. f_equal. unfold quota_of.
    assert (X := sum_replace (refs a) (objs p) o (set_price o (Some pr)) Hnd Ef). rewrite refs_set_price in X. lia.
  - intro a. rewrite Hc. unfold cost_of.
    assert (X := sum_replace (charge_of a) (objs p) o (set_price o (Some pr)) Hnd Ef).
    assert (Hsame : charge_of a (set_price o (Some pr)) = charge_of a o).
    { unfold charge_of. cbn [executable set_price price].
      destruct (executable o) eqn:Ee; auto. cbn [negb orb] in Eal.
      destruct (price o) as [old|]; [|discriminate].
      apply andb_true_iff in Eal. destruct Eal as [E1 E2]. apply N.eqb_eq in E1, E2. rewrite E1, E2. auto. }
    lia.
Qed.

Lemma inv_step p s : inv p -> inv (pool_step p s).
Proof.
  destruct s; cbn [pool_step]; intro H.
  - apply inv_add; auto.
  - apply inv_remove; auto.
  - apply inv_promote; auto.
  - apply inv_fill; auto.
  - apply inv_set_pricing; auto.
Qed.

Theorem inv_run : forall steps p, inv p -> inv (fold_left pool_step steps p).
Proof. induction steps as [|s t IH]; intros p H; cbn; auto. apply IH. apply inv_step. auto. Qed.

Theorem bookkeeping_inv_thm : forall steps, inv (run steps).
Proof. intro steps. apply inv_run. apply inv_empty. Qed.

(* the executable oracle agrees with the invariant *)
Lemma inv_holds_at p a : inv p -> holds_at p a = true.
Proof.
  intros [_ [Hq Hc]]. unfold holds_at. rewrite Hq, Hc, N.eqb_refl. unfold Q.
  destruct (quota_of (objs p) a =? 0) eqn:E; cbn; auto. rewrite N.eqb_refl, E. auto.
Qed.

(* consequences named in the property: no lock-out, no over-admission after removals *)
Corollary no_lockout steps a :
  quota_of (objs (run steps)) a = 0 -> quota (run steps) a = None.
Proof. intro H. destruct (bookkeeping_inv_thm steps) as [_ [Hq _]]. rewrite Hq, H. reflexivity. Qed.

Corollary empty_pool_clean steps :
  objs (run steps) = [] -> forall a, quota (run steps) a = None /\ aget (cost (run steps)) a = 0.
Proof.
  intros H a. destruct (bookkeeping_inv_thm steps) as [_ [Hq Hc]]. rewrite Hq, Hc, H. auto.
Qed.

(* ---------------- the published list is sorted *)
Definition ge_price (a b : txobj) : Prop := pgp_of b <= pgp_of a.

Lemma insert_desc_sorted x l : StronglySorted ge_price l -> StronglySorted ge_price (insert_desc x l).
Proof.
  induction l as [|y t IH]; intro H; cbn.
  - constructor; constructor.
  - inversion H as [|? ? Hs Hf]; subst.
    destruct (before x y) eqn:E.
    + constructor; auto.
      assert (Hxy : ge_price x y).
      { unfold before in E. unfold ge_price. destruct (pgp_of x =? pgp_of y) eqn:Ee.
        - apply N.eqb_eq in Ee. lia.
        - apply N.ltb_lt in E. lia. }
      constructor; auto.
      eapply Forall_impl; [|exact Hf]. intros z Hz. unfold ge_price in *. lia.
    + constructor; auto.
      assert (Hyx : ge_price y x).
      { unfold before in E. unfold ge_price. destruct (pgp_of x =? pgp_of y) eqn:Ee.
        - apply N.eqb_eq in Ee. lia.
        - apply N.ltb_ge in E. lia. }
      clear IH H. induction t as [|z t IHt]; cbn.
      * constructor; auto.
      * inversion Hf; subst. inversion Hs; subst.
        destruct (before x z); constructor; auto.
  Qed.

Lemma sort_desc_sorted l : StronglySorted ge_price (sort_desc l).
Proof. induction l; cbn; [constructor|]. apply insert_desc_sorted; auto. Qed.

(* publish keeps a subsequence of the candidates, in order *)
Inductive subseq : list txobj -> list txobj -> Prop :=
| sub_nil : subseq [] []
| sub_skip x l l' : subseq l l' -> subseq l (x :: l')
| sub_keep x l l' : subseq l l' -> subseq (x :: l) (x :: l').

Lemma publish_subseq energy : forall cands p, subseq (snd (fst (publish p energy cands))) cands.
Proof.
  induction cands as [|o t IH]; intro p; cbn [publish]; [constructor|].
  destruct (executable o).
  - specialize (IH p). destruct (publish p energy t) as [[p' pub] bad]. cbn in *. apply sub_keep; auto.
  - destruct (price o) as [pc|].
    + destruct (energy (payer pc) <? aget (cost p) (payer pc) + pcost pc).
      * specialize (IH p). destruct (publish p energy t) as [[p' pub] bad]. cbn in *. apply sub_skip; auto.
      * destruct (promote p (hash o) (oid o)) as [p1 ok]. destruct ok.
        -- specialize (IH p1). destruct (publish p1 energy t) as [[p' pub] bad]. cbn in *. apply sub_keep; auto.
        -- apply sub_skip. apply IH.
    + specialize (IH p). destruct (publish p energy t) as [[p' pub] bad]. cbn in *. apply sub_skip; auto.
Qed.

Lemma subseq_sorted l l' : subseq l l' -> StronglySorted ge_price l' -> StronglySorted ge_price l.
Proof.
  induction 1; intro Hs; auto.
  - inversion Hs; subst. auto.
  - inversion Hs as [|? ? Hs' Hf]; subst. constructor; auto.
    clear - H Hf. induction H; auto.
    + inversion Hf; subst. auto.
    + inversion Hf; subst. constructor; auto.
Qed.

Theorem executables_sorted_thm p energy l :
  StronglySorted ge_price (snd (fst (publish p energy (sort_desc l)))).
Proof. eapply subseq_sorted; [apply publish_subseq|apply sort_desc_sorted]. Qed.

(* publish touches the maps only through promote: the invariant survives a whole wash *)
Lemma publish_inv energy : forall cands p, inv p -> inv (fst (fst (publish p energy cands))).
Proof.
  induction cands as [|o t IH]; intros p Hp; cbn [publish]; auto.
  destruct (executable o).
  - specialize (IH p Hp). destruct (publish p energy t) as [[p' pub] bad]. auto.
  - destruct (price o) as [pc|].
    + destruct (energy (payer pc) <? aget (cost p) (payer pc) + pcost pc).
      * specialize (IH p Hp). destruct (publish p energy t) as [[p' pub] bad]. auto.
      * assert (Hp1 := inv_promote p (hash o) (oid o) Hp).
        destruct (promote p (hash o) (oid o)) as [p1 ok]. cbn [fst] in Hp1. destruct ok.
        -- specialize (IH p1 Hp1). destruct (publish p1 energy t) as [[p' pub] bad]. auto.
        -- apply IH; auto.
    + specialize (IH p Hp). destruct (publish p energy t) as [[p' pub] bad]. auto.
Qed.

(* drop reason of the final loop: an object is dropped there only if it was not executable and its payer's energy
   does not cover pending + cost (or its pricing was never published) *)
Theorem publish_drop_reason energy : forall cands p h,
    In h (snd (publish p energy cands)) ->
    exists o, In o cands /\ hash o = h /\ executable o = false.
Proof.
  induction cands as [|o t IH]; intros p h Hin; cbn [publish] in Hin; [destruct Hin|].
  destruct (executable o) eqn:Ee.
  - specialize (IH p h). destruct (publish p energy t) as [[p' pub] bad]. cbn in *.
    destruct (IH Hin) as [o' [H1 H2]]. exists o'. split; [right; auto|auto].
  - destruct (price o) as [pc|].
    + destruct (energy (payer pc) <? aget (cost p) (payer pc) + pcost pc).
      * specialize (IH p h). destruct (publish p energy t) as [[p' pub] bad]. cbn in *.
        destruct Hin as [<-|Hin]; [exists o; split; [left; auto|auto]|].
        destruct (IH Hin) as [o' [H1 H2]]. exists o'. split; [right; auto|auto].
      * destruct (promote p (hash o) (oid o)) as [p1 ok]. destruct ok.
        -- specialize (IH p1 h). destruct (publish p1 energy t) as [[p' pub] bad]. cbn in *.
           destruct (IH Hin) as [o' [H1 H2]]. exists o'. split; [right; auto|auto].
        -- destruct (IH p1 h Hin) as [o' [H1 H2]]. exists o'. split; [right; auto|auto].
    + specialize (IH p h). destruct (publish p energy t) as [[p' pub] bad]. cbn in *.
      destruct Hin as [<-|Hin]; [exists o; split; [left; auto|auto]|].
      destruct (IH Hin) as [o' [H1 H2]]. exists o'. split; [right; auto|auto].
Qed.

(* the same with the reason spelled out: no published pricing, or the payer's energy is below the pending cost (as it
   stood when the object's turn came in the loop, pool q) plus the object's cost *)
Theorem publish_drop_energy energy : forall cands p h,
    In h (snd (publish p energy cands)) ->
    exists o q, In o cands /\ hash o = h /\ executable o = false /\
      (price o = None \/
       exists pc, price o = Some pc /\ energy (payer pc) < aget (cost q) (payer pc) + pcost pc).
Proof.
  induction cands as [|o t IH]; intros p h Hin; cbn [publish] in Hin; [destruct Hin|].
  destruct (executable o) eqn:Ee.
  - specialize (IH p h). destruct (publish p energy t) as [[p' pub] bad]. cbn in *.
    destruct (IH Hin) as [o' [q [H1 H2]]]. exists o', q. split; [right; auto|auto].
  - destruct (price o) as [pc|] eqn:Ep.
    + destruct (energy (payer pc) <? aget (cost p) (payer pc) + pcost pc) eqn:El.
      * specialize (IH p h). destruct (publish p energy t) as [[p' pub] bad]. cbn in *.
        destruct Hin as [<-|Hin].
        -- exists o, p. split; [left; auto|]. split; auto. split; auto. right. exists pc. split; auto.
           apply N.ltb_lt in El. auto.
        -- destruct (IH Hin) as [o' [q [H1 H2]]]. exists o', q. split; [right; auto|auto].
      * destruct (promote p (hash o) (oid o)) as [p1 ok]. destruct ok.
        -- specialize (IH p1 h). destruct (publish p1 energy t) as [[p' pub] bad]. cbn in *.
           destruct (IH Hin) as [o' [q [H1 H2]]]. exists o', q. split; [right; auto|auto].
        -- destruct (IH p1 h Hin) as [o' [q [H1 H2]]]. exists o', q. split; [right; auto|auto].
    + specialize (IH p h). destruct (publish p energy t) as [[p' pub] bad]. cbn in *.
      destruct Hin as [<-|Hin].
      * exists o, p. split; [left; auto|]. split; auto.
      * destruct (IH Hin) as [o' [q [H1 H2]]]. exists o', q. split; [right; auto|auto].
Qed.

(* ---------------- finding F12: promote before the repair (presence tested by hash only) *)
Lemma promote_unguarded_same p a :
  (forall o, find_obj (hash a) (objs p) = Some o -> oid o = oid a) ->
  promote_unguarded p a = promote p (hash a) (oid a).
Proof.
  intro H. unfold promote_unguarded. destruct (find_obj (hash a) (objs p)) as [o|] eqn:E.
  - rewrite (H o eq_refl), N.eqb_refl. auto.
  - unfold promote. rewrite E. auto.
Qed.

(* the schedule: A enters through Fill (not executable), wash captures A and publishes its pricing on it, the tx is
   removed and submitted again (object B, executable, cost 100 counted by Add), wash promotes the captured A *)
Definition f12_A : txobj := mkObj 7 10 None false (Some (mkPricing 10 100 5)) 1 false 1.
Definition f12_B : txobj := mkObj 7 10 None false None 2 false 2.
Definition f12_pool : pool :=
  run [SFill [mkObj 7 10 None false None 1 false 1]; SRemove 7; SAdd f12_B true (Some (mkPricing 10 100 5)) 16 (fun _ => 1000)].

Lemma f12_refutes_unguarded :
  inv f12_pool /\ ~ inv (fst (promote_unguarded f12_pool f12_A)) /\
  aget (cost (fst (promote_unguarded f12_pool f12_A))) 10 = 200 /\ cost_of (objs f12_pool) 10 = 100 /\
  (* and the residue stays after the only pooled tx has left *)
  aget (cost (fst (remove_by_hash (fst (promote_unguarded f12_pool f12_A)) 7))) 10 = 100.
Proof.
  split; [apply bookkeeping_inv_thm|]. split; [|vm_compute; auto].
  intro H. pose proof (inv_holds_at _ 10 H) as X. vm_compute in X. discriminate.
Qed.

(* with the repair the same schedule leaves the accounting alone *)
Lemma f12_guarded_noop : promote f12_pool (hash f12_A) (oid f12_A) = (f12_pool, false).
Proof. vm_compute. reflexivity. Qed.
