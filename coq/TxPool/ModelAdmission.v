(* TxPool/ModelAdmission.v — the two admission predicates side by side (definitions only):
     evaluate : txpool/tx_object.go  TxObject.Evaluate   (what makes the pool call a tx executable on a head)
     adopt    : packer/flow.go       Flow.Adopt          (what block production accepts on the same head)
   both transcribed clause by clause, in the order of the code, over an abstract transaction view, an abstract head
   and an abstract state. Hashes, signatures, the VM, the energy/params contracts are not modelled: their verdicts
   are fields of the views or Section variables (and are computed by the real libraries in the harness). *)
From Coq Require Import List NArith Bool Lia.
From Verif Require Import Common.Util.
Import ListNotations.
Open Scope N_scope.

Record txv := mkTx {
  t_id : N;
  t_gas : N;
  t_blockref : N;              (* BlockRef().Number() *)
  t_expiration : N;
  t_legacy : bool;             (* Type() == TypeLegacy *)
  t_delegated : bool;          (* DelegationFeature bit *)
  t_unknown_features : bool;   (* any other feature bit set *)
  t_dep : option N;            (* DependsOn() *)
  t_chain_tag_ok : bool;       (* ChainTag() == repo.ChainTag()  (txpool.validateTxBasics at admission) *)
  t_origin_blocked : bool;     (* thor.IsOriginBlocked(origin) *)
  t_deleg_extractable : bool;  (* Delegator() err == nil  (runtime.ResolveTransaction at admission) *)
  t_deleg_blocked : bool       (* delegator != nil && thor.IsOriginBlocked(delegator) *)
}.

Record headv := mkHead {
  h_next : N;                  (* head number + 1 : the block both predicates look at *)
  h_gas_limit : N;             (* head's gas limit *)
  h_next_time : N;             (* head timestamp + BlockInterval *)
  h_vip191 : N; h_galactica : N; h_blocklist : N;   (* fork heights *)
  h_known : N -> N -> bool;    (* chain.HasTransaction(id, blockRef) on the head's chain *)
  h_dep : N -> option bool     (* chain.GetTransactionMeta(dep): None = not found, Some reverted *)
}.

(* tx.IsExpired(blockNum) : blockNum > blockRef + expiration (computed in uint64: no wrap for uint32 operands) *)
Definition is_expired (t : txv) (n : N) : bool := t_blockref t + t_expiration t <? n.

(* tx.TestFeatures(supported) *)
Definition features_ok (t : txv) (delegation_supported : bool) : bool :=
  negb (t_unknown_features t) && (negb (t_delegated t) || delegation_supported).

Inductive ev_err :=
| EGasAboveBlockLimit | EExpired | ERefOutOfSchedule | ETypeNotSupported | EFeatures | EKnownTx | EDepReverted | EBuyGas.

Inductive ev_verdict := VErr (e : ev_err) | VNotYet | VExecutable.

Inductive bad_class :=
| BOriginBlocked | BDelegatorUnextractable | BDelegatorBlocked | BFeatures | BChainTag | BExpired | BType
| BPriorityFeeTooLow | BExecFailed.

Inductive not_now := NBlockRefAhead | NBlockSpace | NFeeBelowBaseFee | NDepMissing.

Inductive ad_verdict :=
| AOk | ABad (c : bad_class) | ANotNow (w : not_now) | AGasLimitReached | AKnownTx | ANotForever.

Section Admission.
  Variable St : Type.                       (* account state *)
  (* resolved.BuyGas(state, time, baseFee) on this head's base fee, split in its two failure causes *)
  Variable fee_ok : St -> txv -> bool.      (* effective gas price covers the base fee (trivially true before GALACTICA) *)
  Variable energy_ok : St -> N -> txv -> bool.   (* the payer's energy at that time covers gas * effective gas price *)
  Variable eff_priority_fee : St -> txv -> N.    (* tx.EffectivePriorityFeePerGas on this head *)
  Variable interval_30 : N.                 (* 5*60 / BlockInterval *)

  (* TxObject.Evaluate(chain, state, head, forkConfig, baseFee, _) *)
  Definition evaluate (h : headv) (s : St) (t : txv) : ev_verdict :=
    let next := h_next h in
    if h_gas_limit h <? t_gas t then VErr EGasAboveBlockLimit
    else if is_expired t next then VErr EExpired
    else if next + interval_30 <? t_blockref t then VErr ERefOutOfSchedule
    else if (next <? h_galactica h) && negb (t_legacy t) then VErr ETypeNotSupported
    else if negb (features_ok t (h_vip191 h <=? next)) then VErr EFeatures
    else if h_known h (t_id t) (t_blockref t) then VErr EKnownTx
    else
      match (match t_dep t with
             | None => None
             | Some d => match h_dep h d with
                         | None => Some VNotYet
                         | Some true => Some (VErr EDepReverted)
                         | Some false => None
                         end
             end) with
      | Some v => v
      | None =>
        if next <? t_blockref t then VNotYet
        else if fee_ok s t && energy_ok s (h_next_time h) t then VExecutable
        else VErr EBuyGas
      end.

  Record flowv := mkFlow {
    f_gas_used : N;
    f_gas_limit : N;                  (* the NEW block's gas limit: packer.gasLimit(head limit), may differ from the head's *)
    f_time : N;                       (* the new block's time (>= head time + interval) *)
    f_state : St;                     (* head state + the effects of the txs already adopted in this flow *)
    f_processed : N -> option bool;   (* txs adopted so far: id -> reverted *)
    f_min_priority_fee : N            (* packer option; 0 = off *)
  }.

  Definition tx_gas : N := 5000.       (* thor.TxGas *)
  Definition clause_gas : N := 16000.  (* thor.ClauseGas *)

  (* Flow.Adopt(t) on a flow over head h (Number() = h_next, features = delegation iff next >= VIP191) *)
  Definition adopt (h : headv) (f : flowv) (t : txv) : ad_verdict :=
    let n := h_next h in
    if (h_blocklist h <=? n) && t_origin_blocked t then ABad BOriginBlocked
    else if negb (t_deleg_extractable t) then ABad BDelegatorUnextractable
    else if (h_blocklist h <=? n) && t_deleg_blocked t then ABad BDelegatorBlocked
    else if negb (features_ok t (h_vip191 h <=? n)) then ABad BFeatures
    else if negb (t_chain_tag_ok t) then ABad BChainTag
    else if n <? t_blockref t then ANotNow NBlockRefAhead
    else if is_expired t n then ABad BExpired
    else if f_gas_limit f <? f_gas_used f + t_gas t then
      (if f_gas_used f + tx_gas + clause_gas <=? f_gas_limit f then ANotNow NBlockSpace else AGasLimitReached)
    else
      match (if n <? h_galactica h
             then (if negb (t_legacy t) then Some (ABad BType) else None)
             else (* validateTxFee *)
               if negb (fee_ok (f_state f) t) then Some (ANotNow NFeeBelowBaseFee)
               else if (0 <? f_min_priority_fee f) && (eff_priority_fee (f_state f) t <? f_min_priority_fee f)
                    then Some (ABad BPriorityFeeTooLow) else None) with
      | Some v => v
      | None =>
        if match f_processed f (t_id t) with Some _ => true | None => h_known h (t_id t) (t_blockref t) end
        then AKnownTx
        else
          match (match t_dep t with
                 | None => None
                 | Some d =>
                   match (match f_processed f d with Some r => Some r | None => h_dep h d end) with
                   | None => Some (ANotNow NDepMissing)
                   | Some true => Some ANotForever
                   | Some false => None
                   end
                 end) with
          | Some v => v
          | None =>
            (* runtime.ExecuteTransaction: PrepareTransaction fails only in BuyGas here (resolution succeeded at
               admission, tx gas <= block gas limit was checked above); VM errors revert the tx but it is adopted *)
            if fee_ok (f_state f) t && energy_ok (f_state f) (f_time f) t then AOk else ABad BExecFailed
          end
      end.

  (* what the pool guarantees statically for every object it holds (validateTxBasics + ResolveTx at admission,
     isBlocked at admission and again at every wash) *)
  Definition pool_static (t : txv) : bool :=
    t_chain_tag_ok t && t_deleg_extractable t && negb (t_origin_blocked t) && negb (t_deleg_blocked t).
End Admission.
