(* TxPool/Model.v — executable model of txpool/tx_object_map.go (definitions only) and of the part of
   tx_pool.go:wash that publishes the executables list.

   State: the pooled objects (hash, origin, delegator, executable flag, published pricing = payer/cost/priority
   price) + the two accounting maps quota (address -> live tx count) and cost (payer -> pending cost).
   Every method of txObjectMap that mutates the maps holds m.lock for its whole body, so each is ONE atomic step;
   TxObject.setPricing is lock-free and is its own step, restricted as at its call sites (wash publishes pricing
   only for an object whose executable flag is false; refreshPriorityGasPrice keeps payer and cost).
   A wash run, an Add, a Remove, a Fill are sequences of such steps; every interleaving of concurrent pool calls
   is a step list. *)
From Coq Require Import List NArith Bool Lia.
From Verif Require Import Common.Util.
Import ListNotations.
Open Scope N_scope.

Record pricing := mkPricing { payer : N; pcost : N; pgp : N }.

Record txobj := mkObj {
  hash : N;
  origin : N;
  delegator : option N;
  executable : bool;
  price : option pricing;      (* TxObject.pricing (nil until published) *)
  time_added : N;
  local_ : bool;               (* source == local (AddLocal): exempt from lifetime and pool limits *)
  oid : N                      (* identity of the Go object (the *TxObject pointer): a tx removed and submitted again
                                  is a NEW object under the same hash *)
}.

(* Go maps: absent key = None *)
Definition amap := N -> option N.
Definition aempty : amap := fun _ => None.
Definition aget (m : amap) (k : N) : N := match m k with Some v => v | None => 0 end.
Definition aset (m : amap) (k v : N) : amap := fun x => if x =? k then Some v else m x.
Definition adel (m : amap) (k : N) : amap := fun x => if x =? k then None else m x.

Record pool := mkPool { objs : list txobj; quota : amap; cost : amap }.
Definition empty_pool : pool := mkPool [] aempty aempty.

Definition find_obj (h : N) (l : list txobj) : option txobj := find (fun o => hash o =? h) l.
Definition remove_obj (h : N) (l : list txobj) : list txobj := filter (fun o => negb (hash o =? h)) l.
Definition set_exec (o : txobj) (e : bool) : txobj :=
  mkObj (hash o) (origin o) (delegator o) e (price o) (time_added o) (local_ o) (oid o).
Definition set_price (o : txobj) (p : option pricing) : txobj :=
  mkObj (hash o) (origin o) (delegator o) (executable o) p (time_added o) (local_ o) (oid o).
Definition replace_obj (o' : txobj) (l : list txobj) : list txobj :=
  map (fun o => if hash o =? hash o' then o' else o) l.

Definition qinc (q : amap) (a : N) : amap := aset q a (aget q a + 1).
(* `if m.quota[a] > 1 { m.quota[a]-- } else { delete(m.quota, a) }` *)
Definition qdec (q : amap) (a : N) : amap := if 1 <? aget q a then aset q a (aget q a - 1) else adel q a.

Inductive add_result := AddOk | AddDuplicate | AddQuota | AddDelegatorQuota | AddPayer.

(* txObjectMap.Add.  `o` arrives with executable=false and whatever pricing it carries; `exe`, `pr` are the
   arguments; balance is what validatePayer reads for the payer (energy at the next block time). *)
Definition add (p : pool) (o : txobj) (exe : bool) (pr : option pricing) (limit : N) (balance : N -> N)
  : pool * add_result :=
  match find_obj (hash o) (objs p) with
  | Some _ => (p, AddDuplicate)
  | None =>
    if limit <=? aget (quota p) (origin o) then (p, AddQuota)
    else if match delegator o with Some d => limit <=? aget (quota p) d | None => false end
         then (p, AddDelegatorQuota)
    else
      let o1 := match pr with Some _ => set_price o pr | None => o end in
      let o2 := set_exec o1 exe in
      let charge := if exe then price o2 else None in
      let newcost := match charge with
                     | Some pc => Some (payer pc, aget (cost p) (payer pc) + pcost pc)
                     | None => None
                     end in
      if match newcost with Some (py, c) => balance py <? c | None => false end then (p, AddPayer)
      else
        let q1 := qinc (quota p) (origin o) in
        let q2 := match delegator o with Some d => qinc q1 d | None => q1 end in
        let c2 := match newcost with Some (py, c) => aset (cost p) py c | None => cost p end in
        (mkPool (o2 :: objs p) q2 c2, AddOk)
  end.

(* txObjectMap.RemoveByHash *)
Definition remove_by_hash (p : pool) (h : N) : pool * bool :=
  match find_obj h (objs p) with
  | None => (p, false)
  | Some o =>
    let q1 := qdec (quota p) (origin o) in
    let q2 := match delegator o with Some d => qdec q1 d | None => q1 end in
    let c2 := if executable o then
                match price o with
                | Some pc =>
                  match cost p (payer pc) with
                  | Some pending => if pending <=? pcost pc then adel (cost p) (payer pc)
                                    else aset (cost p) (payer pc) (pending - pcost pc)
                  | None => cost p
                  end
                | None => cost p
                end
              else cost p in
    (mkPool (remove_obj h (objs p)) q2 c2, true)
  end.

(* txObjectMap.promote(txObj), as repaired (finding F12): the caller (wash) hands in the object it captured when
   the wash started; the promotion happens only if THAT object is still the one pooled under its hash. *)
Definition promote (p : pool) (h : N) (id : N) : pool * bool :=
  match find_obj h (objs p) with
  | None => (p, false)
  | Some o =>
    if negb (oid o =? id) then (p, false)
    else if executable o then (p, true)
    else
      let o' := set_exec o true in
      let c2 := match price o with
                | Some pc => aset (cost p) (payer pc) (aget (cost p) (payer pc) + pcost pc)
                | None => cost p
                end in
      (mkPool (replace_obj o' (objs p)) (quota p) c2, true)
  end.

(* promote as it was before the repair: presence is tested by hash only, then the CAPTURED object `a` (not
   necessarily the pooled one) is marked executable and its cost is added.  When a is the pooled object this is
   promote; when the tx was removed and added again in between, a is stale and its cost is counted on top of the
   new object's. Used only to state the finding (bookkeeping_unguarded_refuted). *)
Definition promote_unguarded (p : pool) (a : txobj) : pool * bool :=
  match find_obj (hash a) (objs p) with
  | None => (p, false)
  | Some o =>
    if oid o =? oid a then promote p (hash a) (oid a)
    else if executable a then (p, true)
    else match price a with
         | Some pc => (mkPool (objs p) (quota p) (aset (cost p) (payer pc) (aget (cost p) (payer pc) + pcost pc)), true)
         | None => (p, true)
         end
  end.

(* txObjectMap.Fill : no limit check, no cost *)
Fixpoint fill (p : pool) (l : list txobj) : pool :=
  match l with
  | [] => p
  | o :: t =>
    match find_obj (hash o) (objs p) with
    | Some _ => fill p t
    | None =>
      let q1 := qinc (quota p) (origin o) in
      let q2 := match delegator o with Some d => qinc q1 d | None => q1 end in
      fill (mkPool (set_exec o false :: objs p) q2 (cost p)) t
    end
  end.

(* TxObject.setPricing as used by wash, on the object wash captured (identity id): a fresh snapshot for an object that
   is not executable, or (refresh) a snapshot keeping payer and cost.  Anything else is not performed by the code and
   is a no-op here; writing to a captured object that is no longer the pooled one does not touch the pool. *)
Definition set_pricing (p : pool) (h : N) (id : N) (pr : pricing) : pool :=
  match find_obj h (objs p) with
  | None => p
  | Some o =>
    let allowed := (oid o =? id) &&
                   (negb (executable o) ||
                    match price o with
                    | Some old => (payer old =? payer pr) && (pcost old =? pcost pr)
                    | None => false
                    end) in
    if allowed then mkPool (replace_obj (set_price o (Some pr)) (objs p)) (quota p) (cost p) else p
  end.

Inductive step :=
| SAdd (o : txobj) (exe : bool) (pr : option pricing) (limit : N) (balance : N -> N)
| SRemove (h : N)
| SPromote (h : N) (id : N)
| SFill (l : list txobj)
| SSetPricing (h : N) (id : N) (pr : pricing).

Definition pool_step (p : pool) (s : step) : pool :=
  match s with
  | SAdd o exe pr limit balance => fst (add p o exe pr limit balance)
  | SRemove h => fst (remove_by_hash p h)
  | SPromote h id => fst (promote p h id)
  | SFill l => fill p l
  | SSetPricing h id pr => set_pricing p h id pr
  end.

Definition run (steps : list step) : pool := fold_left pool_step steps empty_pool.

(* what the maps must be, as a function of the pool content *)
Definition refs (a : N) (o : txobj) : N :=
  (if a =? origin o then 1 else 0) + (match delegator o with Some d => if a =? d then 1 else 0 | None => 0 end).
Definition quota_of (l : list txobj) (a : N) : N := sumN (map (refs a) l).
Definition charge_of (a : N) (o : txobj) : N :=
  if executable o then match price o with Some pc => if a =? payer pc then pcost pc else 0 | None => 0 end else 0.
Definition cost_of (l : list txobj) (a : N) : N := sumN (map (charge_of a) l).

(* executable property oracle (mirrored on the implementation's maps by the harness) *)
Definition holds_at (p : pool) (a : N) : bool :=
  (match quota p a with
   | None => quota_of (objs p) a =? 0
   | Some v => (v =? quota_of (objs p) a) && negb (v =? 0)
   end) && (aget (cost p) a =? cost_of (objs p) a).

(* ------------------------------------------------------------------ wash: the published list *)

(* sortTxObjsByPriorityGasPriceDesc as an insertion sort: higher priority price first; equal price: later added
   first (the comparator returns 1 when a is older). Objects without pricing sort as price 0 (the code only sorts
   objects whose pricing has been published). *)
Definition pgp_of (o : txobj) : N := match price o with Some pc => pgp pc | None => 0 end.
Definition before (a b : txobj) : bool :=
  if pgp_of a =? pgp_of b then negb (time_added a <? time_added b) else pgp_of b <? pgp_of a.
Fixpoint insert_desc (x : txobj) (l : list txobj) : list txobj :=
  match l with
  | [] => [x]
  | y :: t => if before x y then x :: l else y :: insert_desc x t
  end.
Definition sort_desc (l : list txobj) : list txobj := fold_right insert_desc [] l.

(* the final loop of wash over the sorted candidates: an object that was not executable is promoted only if
   the payer's energy covers pending + cost (and it is still present); otherwise it is dropped from the list.
   energy: payer -> energy at next block time. Returns (pool, published hashes, dropped-as-unpayable hashes). *)
Fixpoint publish (p : pool) (energy : N -> N) (cands : list txobj) : pool * list txobj * list N :=
  match cands with
  | [] => (p, [], [])
  | o :: t =>
    if executable o then
      let '(p', pub, bad) := publish p energy t in (p', o :: pub, bad)
    else
      match price o with
      | None => let '(p', pub, bad) := publish p energy t in (p', pub, hash o :: bad)
      | Some pc =>
        if energy (payer pc) <? aget (cost p) (payer pc) + pcost pc then
          let '(p', pub, bad) := publish p energy t in (p', pub, hash o :: bad)
        else
          let (p1, ok) := promote p (hash o) (oid o) in
          if ok then let '(p', pub, bad) := publish p1 energy t in (p', o :: pub, bad)
          else publish p1 energy t
      end
  end.
