(* Validation/ProofsPacker.v — every block the packer model produces is accepted by the validator model, which
   recomputes exactly the packer's state and receipts (C01). *)
From Coq Require Import List NArith ZArith Bool Lia.
From Coq Require Import ZifyN ZifyNat ZifyBool.
From Verif Require Import Common.Util Common.GoInt Sched.Model Sched.Arith Sched.Proofs Sched.ProofsUpdates
     Gen.GasLimit GenProofs.GasLimitProofs BaseFee.Model
     Header.Rules Header.Proofs Validation.Body Validation.Catalogue Validation.ProofsRules.
Import ListNotations.
Open Scope N_scope.
Ltac Zify.zify_post_hook ::= Z.div_mod_to_equations.

(* ---------------------------------------------------------------- scheduler facts (C05) in the shape used here *)

Lemma props_pks cs : map fst (pks cs) = props cs.
Proof. unfold pks, props. rewrite map_map. reflexivity. Qed.

Lemma find_me_in me ps mep : find_me me ps = Some mep -> In mep ps /\ p_addr mep = me.
Proof. unfold find_me. intros H. apply find_some in H. destruct H as [H1 H2]. apply N.eqb_eq in H2. auto. Qed.

Lemma sched_time_facts k hsh pt T cs me t :
  sched_is_the_time k hsh pt T cs me t = true -> pt < t /\ (t - pt) mod T = 0.
Proof.
  assert (A : forall seq, is_scheduled pt T seq t me = true -> pt < t /\ (t - pt) mod T = 0).
  { intros seq. unfold is_scheduled. destruct (N.leb_spec t pt); [discriminate|].
    destruct (N.eqb_spec ((t - pt) mod T) 0); cbn [negb]; [auto | discriminate]. }
  destruct k; cbn [sched_is_the_time]; try apply A.
  unfold is_the_time_v1. destruct (N.leb_spec t pt); [discriminate|].
  destruct (N.eqb_spec ((t - pt) mod T) 0); cbn [negb]; [auto | discriminate].
Qed.

(* schedule_accepted, for the three schedulers: the slot Schedule returns is accepted by IsTheTime *)
Lemma sched_schedule_accepted k hsh pt T cs me mep now fuel t : 0 < T ->
  find_me me (props cs) = Some mep ->
  sched_schedule k hsh pt T cs me now fuel = Some t ->
  sched_is_the_time k hsh pt T cs me t = true.
Proof.
  intros HT Hf. apply find_me_in in Hf. destruct Hf as [Hin Ha].
  assert (A : schedule pt T (addrs (seq_of me (pks cs))) me now = Some t ->
              is_scheduled pt T (addrs (seq_of me (pks cs))) t me = true).
  { intros Hs. rewrite <- props_pks in Hin. pose proof (me_in_seq me (pks cs) mep Hin Ha) as Hm.
    destruct (schedule_is_earliest_lemma pt T _ me now HT Hm) as (t' & E & Hok & _). rewrite Hs in E. inversion E; subst. exact Hok. }
  destruct k; cbn [sched_schedule sched_is_the_time]; try exact A.
  intros Hs. apply (schedule_v1_spec _ _ _ _ _ _ _ _ HT) in Hs. tauto.
Qed.

(* ---------------------------------------------------------------- gas limit: Qualify lands inside IsValid *)

Lemma packer_gas_limit_ok target pgl : target < two64 -> pgl < two64 -> 1000000 <= pgl ->
  gas_limit_valid (packer_gas_limit target pgl) pgl = true /\ packer_gas_limit target pgl < two64.
Proof.
  intros Ht Hp Hm. unfold packer_gas_limit, two64 in *.
  destruct (N.eqb_spec target 0) as [E|E].
  - split; [|exact Hp]. apply gas_limit_valid_iff; unfold two64; lia.
  - assert (Ut : u64 (Z.of_N target)) by (unfold u64; lia).
    assert (Up : u64 (Z.of_N pgl)) by (unfold u64; lia).
    assert (Mp : (GasLimitProofs.min_gas_limit <= Z.of_N pgl)%Z) by (unfold GasLimitProofs.min_gas_limit; lia).
    pose proof (qualify_is_valid _ _ Ut Up Mp) as V.
    pose proof (qualify_cases _ _ Ut Up Mp) as C.
    assert (R : (0 <= GasLimit_Qualify (Z.of_N target) (Z.of_N pgl) < 18446744073709551616)%Z).
    { rewrite C. cbv zeta. unfold u64 in *.
      destruct (Z.ltb_spec (Z.of_N pgl) (Z.of_N target)).
      - destruct (Z.ltb_spec (18446744073709551615 - Z.min (Z.of_N target - Z.of_N pgl) (Z.of_N pgl / 1024)) (Z.of_N pgl)); lia.
      - destruct (Z.ltb_spec (Z.of_N pgl) (1000000 + Z.min (Z.of_N pgl - Z.of_N target) (Z.of_N pgl / 1024))); lia. }
    split; [|lia]. unfold gas_limit_valid. rewrite Z2N.id by lia. exact V.
Qed.

(* ---------------------------------------------------------------- base fee: what the packer writes is what the validator expects *)

Lemma base_fee_rule_of_packer cfg parent :
  h_number parent + 1 < 4294967296 ->
  base_fee_nil_deref cfg parent = false -> expected_base_fee cfg parent <> BfPanics ->
  forall h, h_base_fee h = base_fee_field (expected_base_fee cfg parent) -> R_base_fee cfg parent h.
Proof.
  intros Hn Hd Hp h Hb. unfold R_base_fee. unfold expected_base_fee in *.
  set (pb := match h_base_fee parent with Some b => Z.of_N b | None => 0%Z end) in *.
  assert (Hpb : (0 <= pb)%Z) by (unfold pb; destruct (h_base_fee parent); lia).
  unfold calc_base_fee in *.
  rewrite Z.mod_small in * by (unfold BaseFee.Model.two32; lia).
  split.
  - intros Hlt. destruct (Z.ltb_spec (Z.of_N (h_number parent) + 1) (Z.of_N (c_galactica cfg))); [|lia].
    rewrite Hb. reflexivity.
  - intros Hge. destruct (Z.ltb_spec (Z.of_N (h_number parent) + 1) (Z.of_N (c_galactica cfg))); [lia|].
    destruct (Z.eqb_spec (Z.of_N (h_number parent) + 1) (Z.of_N (c_galactica cfg))).
    + exists (Z.to_N initial_base_fee). rewrite Hb. cbn [base_fee_field]. split; [reflexivity|]. split; [exact Hd|].
      rewrite Z2N.id by (unfold initial_base_fee; lia). reflexivity.
    + set (gu := Z.of_N (h_gas_used parent)) in *. set (tg := gas_target (Z.of_N (h_gas_limit parent))) in *.
      assert (Hgu : (0 <= gu)%Z) by (unfold gu; lia).
      assert (Htg : (0 <= tg)%Z).
      { unfold tg, gas_target. apply Z.div_pos; [|lia].
        apply Z.mod_pos_bound. unfold BaseFee.Model.two64. lia. }
      destruct (Z.eqb_spec gu tg).
      * exists (Z.to_N pb). rewrite Hb. cbn [base_fee_field]. split; [reflexivity|]. split; [exact Hd|]. rewrite Z2N.id by lia. reflexivity.
      * destruct (Z.eqb_spec tg 0); [contradiction|].
        destruct (Z.gtb_spec gu tg).
        -- match goal with |- context [BfFee ?z] => exists (Z.to_N z); assert (Hz : (0 <= z)%Z) end.
           { assert ((0 <= pb * (gu - tg) / tg / base_fee_change_denominator)%Z).
             { apply Z.div_pos; [|unfold base_fee_change_denominator; lia]. apply Z.div_pos; [|lia]. apply Z.mul_nonneg_nonneg; lia. }
             lia. }
           rewrite Hb. cbn [base_fee_field]. split; [reflexivity|]. split; [exact Hd|]. rewrite Z2N.id by lia. reflexivity.
        -- match goal with |- context [BfFee ?z] => exists (Z.to_N z); assert (Hz : (0 <= z)%Z) end.
           { unfold initial_base_fee. lia. }
           rewrite Hb. cbn [base_fee_field]. split; [reflexivity|]. split; [exact Hd|]. rewrite Z2N.id by lia. reflexivity.
Qed.

(* ---------------------------------------------------------------- beneficiary (PoS): unique leader *)

Lemma find_unique {A} (key : A -> N) (f : A -> bool) (l : list A) (c : A) :
  NoDup (map key l) -> In c l -> f c = true -> (forall x, In x l -> f x = true -> key x = key c) -> find f l = Some c.
Proof.
  induction l as [|a l IH]; intros Hnd Hin Hf Hk; [contradiction|]. cbn [find].
  inversion Hnd as [|? ? Hni Hnd']; subst.
  destruct (f a) eqn:Efa.
  - destruct Hin as [->|Hin]; [reflexivity|].
    exfalso. apply Hni. rewrite (Hk a (or_introl eq_refl) Efa). apply in_map. exact Hin.
  - destruct Hin as [->|Hin]; [congruence|]. apply IH; auto. intros x Hx. apply Hk. right; exact Hx.
Qed.

Definition cand_addr (c : cand) : N := p_addr (cd_p c).

Lemma leader_beneficiary_packer po cs b :
  NoDup (map cand_addr cs) ->
  leader_beneficiary (po_me po) cs = Some b -> packer_beneficiary_pos po cs = b.
Proof.
  intros Hnd. unfold leader_beneficiary, packer_beneficiary_pos, find_last.
  destruct (find _ (rev cs)) as [c|] eqn:Ef; [|discriminate]. intros Hb.
  apply find_some in Ef. destruct Ef as [Hin Hc]. apply andb_true_iff in Hc. destruct Hc as [Hc1 Hc2].
  assert (F : find (fun c0 => p_addr (cd_p c0) =? po_me po) (rev cs) = Some c).
  { apply (find_unique cand_addr); auto.
    - rewrite map_rev. apply NoDup_rev. exact Hnd.
    - intros x _ Hx. apply N.eqb_eq in Hx, Hc1. unfold cand_addr. congruence. }
  rewrite F. rewrite Hb. reflexivity.
Qed.

Lemma schedule_ctx_some cfg pv parent po now ctx ups :
  schedule_ctx cfg pv parent po now = Some (ctx, ups) ->
  exists mep t,
    let k := kind_of cfg pv (h_number parent + 1) in
    let us := sched_updates k (pv_hash pv) (h_time parent) (c_interval cfg) (pv_cands pv) mep (pv_total pv) t in
    find_me (po_me po) (props (pv_cands pv)) = Some mep /\
    sched_schedule k (pv_hash pv) (h_time parent) (c_interval cfg) (pv_cands pv) (po_me po) now (po_fuel po) = Some t /\
    base_fee_nil_deref cfg parent = false /\ expected_base_fee cfg parent <> BfPanics /\
    ctx = mkCtx (if pv_pos pv then packer_beneficiary_pos po (pv_cands pv) else packer_beneficiary_poa po (pv_cands pv))
                (po_me po) (h_number parent + 1) t (packer_gas_limit (po_target_gl po) (h_gas_limit parent))
                (wrap64 (h_total_score parent + snd us)) (base_fee_field (expected_base_fee cfg parent)) /\
    ups = fst us.
Proof.
  unfold schedule_ctx.
  destruct (find_me (po_me po) (props (pv_cands pv))) as [mep|] eqn:Ef; [|discriminate].
  destruct (sched_schedule _ _ _ _ _ _ _ _) as [t|] eqn:Et; [|discriminate].
  destruct (base_fee_nil_deref cfg parent) eqn:End; [discriminate|].
  destruct (expected_base_fee cfg parent) as [|e|] eqn:Ebf; try discriminate.
  all: intros E; inversion E; subst; exists mep, t; cbv zeta; repeat split; auto; discriminate.
Qed.

Section Packer.
  Variable State : Type.
  Variable exec : bctx -> State -> txn -> option (State * receipt).
  Variable apply_updates : bool -> N -> State -> list (N * bool) -> State.
  Variable rewards : bctx -> State -> option State.
  Variable sanity : State -> bool.
  Variable root_of_state : State -> N.
  Variable root_of_receipts : list receipt -> N.
  Variable root_of_txs : list txn -> N.
  Variable has_tx : N -> N -> bool.
  Variable find_meta : N -> option bool.

  Notation verify_txs := (verify_txs State exec has_tx find_meta).
  Notation adopt_one := (adopt_one State exec has_tx find_meta).
  Notation adopt_all := (adopt_all State exec has_tx find_meta).
  Notation process := (process State exec apply_updates rewards sanity root_of_state root_of_receipts root_of_txs has_tx find_meta).
  Notation pack_block := (pack_block State exec apply_updates rewards root_of_state root_of_receipts root_of_txs has_tx find_meta).

  (* what is assumed of the abstract execution: a receipt uses at most the tx gas (C07's gas_bounds), ResolveTransaction
     needs the origin, and runtime.PrepareTransaction refuses a tx whose gas exceeds the block gas limit *)
  Definition exec_sane : Prop :=
    forall ctx st t st' r, exec ctx st t = Some (st', r) ->
      r_gas r <= t_gas t /\ t_origin_ok t = true /\ t_gas t <= x_gas_limit ctx.

  Definition two63 : N := 9223372036854775808.
  Definition two62 : N := 4611686018427387904.

  (* one Adopt call: an adopted transaction satisfies the body rules and the loop checks of verifyBlock *)
  Lemma adopt_one_adopted cfg ctx st proc used t st' r :
    exec_sane -> used <= x_gas_limit ctx -> x_gas_limit ctx < two63 ->
    adopt_one cfg (features_at cfg (x_number ctx)) ctx st proc used t = Adopted State st' r ->
    tx_body_check cfg (x_number ctx) (features_at cfg (x_number ctx)) t = None /\
    known has_tx proc t = false /\ dep_check find_meta proc t = DepOk /\ exec ctx st t = Some (st', r) /\
    used + r_gas r <= x_gas_limit ctx.
  Proof.
    intros Hex Hu Hl. unfold Body.adopt_one, tx_body_check.
    destruct ((c_blocklist cfg <=? x_number ctx) && t_origin_blocked t) eqn:E1; [discriminate|].
    destruct (t_delegator_ok t) eqn:E2; cbn [negb]; [|discriminate].
    destruct ((c_blocklist cfg <=? x_number ctx) && t_delegator_blocked t) eqn:E3; [discriminate|].
    destruct (N.eqb_spec (N.land (t_features t) (features_at cfg (x_number ctx))) (t_features t)) as [E4|E4]; cbn [negb orb]; [|discriminate].
    destruct (t_unused t) eqn:E5; [discriminate|].
    destruct (N.eqb_spec (t_chain_tag t) (c_chain_tag cfg)) as [E6|E6]; cbn [negb]; [|discriminate].
    destruct (N.ltb_spec (x_number ctx) (t_ref t)) as [E7|E7]; [discriminate|].
    destruct (N.ltb_spec (t_ref t + t_exp t) (x_number ctx)) as [E8|E8]; [discriminate|].
    destruct (N.ltb_spec (x_gas_limit ctx) (wrap64 (used + t_gas t))) as [E9|E9].
    { destruct (wrap64 (used + min_tx_gas) <=? _); discriminate. }
    destruct ((x_number ctx <? c_galactica cfg) && negb (t_type t =? 0)) eqn:E10; [discriminate|].
    destruct ((c_galactica cfg <=? x_number ctx) && negb (t_fee_ok t)); [discriminate|].
    destruct (known has_tx proc t) eqn:E11; [discriminate|].
    destruct (dep_check find_meta proc t) eqn:E12; try discriminate.
    destruct (exec ctx st t) as [[st1 r1]|] eqn:E13; [|discriminate].
    intros E. inversion E; subst st1 r1. destruct (Hex _ _ _ _ _ E13) as (Hgas & Hor & Hg).
    rewrite Hor. cbn [negb andb orb].
    repeat split; auto.
    unfold wrap64, two63 in *. rewrite N.mod_small in E9 by lia. lia.
  Qed.

  Lemma adopt_all_verified cfg ctx txs : forall st proc used ts rs stf u,
    exec_sane -> used <= x_gas_limit ctx -> x_gas_limit ctx < two63 ->
    adopt_all cfg (features_at cfg (x_number ctx)) ctx txs st proc used = (ts, rs, stf, u) ->
    verify_txs ctx ts st proc used = VOk State stf rs u /\ u <= x_gas_limit ctx /\
    body_txs_check cfg (x_number ctx) (features_at cfg (x_number ctx)) ts = None.
  Proof.
    induction txs as [|t l IH]; intros st proc used ts rs stf u Hex Hu Hl; cbn [Body.adopt_all].
    - intros E. inversion E; subst. cbn. auto.
    - destruct (adopt_one cfg (features_at cfg (x_number ctx)) ctx st proc used t) as [st' r|why] eqn:Ea.
      + destruct (adopt_one_adopted _ _ _ _ _ _ _ _ Hex Hu Hl Ea) as (B & K & D & X & G).
        destruct (adopt_all cfg (features_at cfg (x_number ctx)) ctx l st' ((t_id t, r_reverted r) :: proc) (used + r_gas r))
          as [[[ts' rs'] stf'] u'] eqn:Er.
        intros E. inversion E; subst. destruct (IH _ _ _ _ _ _ _ Hex G Hl Er) as (V & U & Bd).
        cbn [Body.verify_txs body_txs_check]. rewrite K, D, X, B. rewrite (proj2 (N.ltb_ge _ _) G). rewrite V. auto.
      + intros E. apply (IH _ _ _ _ _ _ _ Hex Hu Hl E).
  Qed.

  (* ---------------------------------------------------------------- the theorem *)
  Record premises (cfg : config) (pv : pview) (parent : header) (po : packer_opts) : Prop := {
    pr_interval : 0 < c_interval cfg;
    pr_number : h_number parent + 1 < 4294967296;
    pr_parent_gl : 1000000 <= h_gas_limit parent /\ h_gas_limit parent < two62;
    pr_target : po_target_gl po < two63;
    pr_unique : NoDup (map cand_addr (pv_cands pv));
    pr_exec : exec_sane }.

  (* what the crypto library reports for the block the packer signed: 65 / 65+81 bytes, recovered signer = the packer,
     VRF proof verifies (sign/recover and prove/verify round trips: not modelled, stated) *)
  Definition crypto_roundtrip (cfg : config) (parent : header) (po : packer_opts) (sr : sig_report) : Prop :=
    sr_signer sr = Some (po_me po) /\
    sr_len sr = (if h_number parent + 1 <? c_vip214 cfg then 65 else 146) /\
    (c_vip214 cfg <= h_number parent + 1 -> sr_beta sr <> None).

  Theorem packed_block_accepted_lemma cfg pv parent po now st0 txs vote sr b stp rcs vnow :
    premises cfg pv parent po -> crypto_roundtrip cfg parent po sr ->
    pack_block cfg pv parent po now st0 txs vote sr = Some (b, stp, rcs) ->
    (* the total score grows and does not wrap *)
    h_total_score parent < h_total_score (b_header b) ->
    (* PoS: the staker sanity check (the validator runs it, the packer does not) holds on the packer's state before the
       reward hook, i.e. on every state the reward hook maps to the packer's final state (C16 custody) *)
    (pv_pos pv = true -> forall ctx stf, rewards ctx stf = Some stp -> sanity stf = true) ->
    (* the validator's clock has reached the block (one interval of tolerance) *)
    h_time (b_header b) <= vnow + c_interval cfg ->
    process cfg pv parent st0 b vnow = Accepted State stp rcs.
  Proof.
    intros P (C1 & C2 & C3) Hpack Hscore Hsan Hnow. destruct P as [PT PN [PG1 PG2] PTg PU PE].
    unfold Body.pack_block in Hpack.
    destruct (schedule_ctx cfg pv parent po now) as [[ctx0 ups]|] eqn:Es; [|discriminate].
    apply schedule_ctx_some in Es. destruct Es as (mep & t & Ef & Et & End & Hnp & -> & ->).
    cbn [x_number x_gas_limit] in Hpack.
    match type of Hpack with context [adopt_all ?c ?f ?x ?l ?s [] 0] =>
      destruct (adopt_all c f x l s [] 0) as [[[ts rs] stf] used] eqn:Ea end.
    unfold Body.pack in Hpack; cbn [x_number x_time x_gas_limit x_beneficiary x_total_score x_base_fee] in Hpack.
    match type of Hpack with context [if pv_pos pv then ?a else ?b] => destruct (if pv_pos pv then a else b) as [st2|] eqn:Erw; [|discriminate] end.
    match type of Hpack with context [if ?c then Some (0, 0) else expected_alpha parent] =>
      destruct (if c then Some (0, 0) else expected_alpha parent) as [alpha|] eqn:Eal; [|discriminate] end.
    inversion Hpack; subst b stp rcs; clear Hpack.
    pose proof (sched_schedule_accepted _ _ _ _ _ _ _ _ _ _ PT Ef Et) as Hit.
    pose proof (sched_time_facts _ _ _ _ _ _ _ Hit) as [Hgt Hal].
    destruct (packer_gas_limit_ok (po_target_gl po) (h_gas_limit parent)) as [Hgv Hgl];
      [unfold two62, two63, two64 in *; lia | unfold two62, two63, two64 in *; lia | exact PG1 |].
    match type of Ea with adopt_all _ _ ?c _ ?s _ _ = _ => set (ctx := c) in *; set (st1 := s) in * end.
    assert (Hgv' := Hgv). apply gas_limit_valid_iff in Hgv'; [|exact Hgl | unfold two62, two63, two64 in *; lia].
    assert (Hlim : x_gas_limit ctx < two63) by (cbn [ctx x_gas_limit]; unfold two62, two63, two64 in *; lia).
    destruct (adopt_all_verified cfg ctx txs st1 [] 0 ts rs stf used PE ltac:(lia) Hlim Ea) as (Hver & Hused & Hbody).
    unfold Body.process; cbn [b_header b_txs h_features h_txs_root].
    rewrite N.eqb_refl; cbn [negb].
    match goal with |- context [validate_header cfg parent ?h vnow] =>
      assert (Hh : validate_header cfg parent h vnow = Accept) end.
    { apply validate_header_accept_iff; cbn [h_gas_limit]; [exact Hgl | unfold two62, two63, two64 in *; lia |].
      unfold header_rules.
      cbn [h_time h_gas_used h_gas_limit h_total_score h_alpha h_sig_len h_beta h_com h_base_fee b_header] in *.
      split; [exact Hgt|]. split; [exact Hal|]. split; [exact Hnow|]. split; [exact Hused|]. split; [exact Hscore|].
      split; [exact Hgv'|].
      split. { intros Hlt. unfold R_sig_pre in *. cbn [h_alpha h_sig_len]. rewrite (proj2 (N.ltb_lt _ _) Hlt) in Eal, C2.
               inversion Eal; subst alpha. cbn. auto. }
      split. { intros Hge. cbn [h_alpha h_sig_len h_beta]. rewrite (proj2 (N.ltb_ge _ _) Hge) in Eal, C2. split; [exact C2|].
               split; [|exact (C3 Hge)].
               unfold expected_alpha in Eal. destruct (h_beta parent) as [pb|]; [|discriminate]. exists pb. split; [reflexivity|].
               inversion Eal. unfold bytes_empty. reflexivity. }
      split. { intros Hlt. cbn [h_com]. apply N.leb_gt in Hlt. rewrite Hlt. reflexivity. }
      apply (base_fee_rule_of_packer cfg parent PN End); [exact Hnp | cbn [h_base_fee]; reflexivity]. }
    rewrite Hh; clear Hh.
    unfold validate_proposer; cbn [h_signer h_time h_total_score h_beneficiary]; rewrite C1, Ef, Hit; cbn [negb].
    rewrite N.eqb_refl; cbn [negb].
    match goal with |- context [sched_updates ?a ?b ?c ?d ?e ?f ?g ?i] => set (us := sched_updates a b c d e f g i) in * end.
    assert (Hprop : (if pv_pos pv
                 then match leader_beneficiary (po_me po) (pv_cands pv) with
                      | Some b0 => if b0 =? x_beneficiary ctx then POk (fst us) else PBad (Critical 24)
                      | None => POk (fst us) end
                 else POk (fst us)) = POk (fst us)).
    { destruct (pv_pos pv) eqn:Epos; [|reflexivity].
      destruct (leader_beneficiary (po_me po) (pv_cands pv)) as [b0|] eqn:Elb; [|reflexivity].
      cbn [ctx x_beneficiary]. rewrite (leader_beneficiary_packer po _ _ PU Elb). rewrite N.eqb_refl. reflexivity. }
    cbn [ctx x_beneficiary] in Hprop; rewrite Hprop; clear Hprop.
    rewrite N.eqb_refl; cbn [negb].
    fold st1; cbn [ctx x_number] in Hbody; rewrite Hbody.
    unfold Body.verify_block; cbn [b_header b_txs].
    match goal with |- context [ctx_of_header parent ?h] => assert (Hc : ctx_of_header parent h = ctx)
      by (unfold ctx_of_header; cbn; try rewrite C1; reflexivity); rewrite Hc end.
    rewrite Hver; unfold receipts_root_ok; cbn [b_header h_gas_used h_receipts_root h_state_root]; rewrite !N.eqb_refl; cbn [negb orb].
    destruct (pv_pos pv) eqn:Epos.
    - rewrite (Hsan eq_refl ctx stf Erw); cbn [negb]. rewrite Erw. rewrite N.eqb_refl. reflexivity.
    - inversion Erw; subst st2. rewrite N.eqb_refl. reflexivity.
  Qed.

  (* ---------------------------------------------------------------- what the verdict does not depend on *)
  Lemma validate_header_clock cfg parent h now1 now2 :
    h_time h <= now1 + c_interval cfg -> h_time h <= now2 + c_interval cfg ->
    validate_header cfg parent h now1 = validate_header cfg parent h now2.
  Proof.
    intros H1 H2. unfold validate_header.
    destruct (N.ltb_spec (now1 + c_interval cfg) (h_time h)); [lia|].
    destruct (N.ltb_spec (now2 + c_interval cfg) (h_time h)); [lia|]. reflexivity.
  Qed.

  Theorem verdict_independent_of_clock_lemma cfg pv parent st0 b now1 now2 :
    h_time (b_header b) <= now1 + c_interval cfg -> h_time (b_header b) <= now2 + c_interval cfg ->
    process cfg pv parent st0 b now1 = process cfg pv parent st0 b now2.
  Proof. intros H1 H2. unfold Body.process. rewrite (validate_header_clock cfg parent (b_header b) now1 now2 H1 H2). reflexivity. Qed.

  (* the validators' candidate cache: an entry for the parent replaces the candidate list read from the state *)
  Definition cache := N -> option (list cand).
  Definition view_with_cache (c : cache) (parent_id : N) (fresh : pview) : pview :=
    match c parent_id with
    | Some cs => mkPV (pv_pos fresh) cs (pv_total fresh) (pv_hash fresh)
    | None => fresh
    end.
  (* the cache invariant: an entry for a block is the list a fresh read of that block's state gives *)
  Definition cache_ok (c : cache) (parent_id : N) (fresh : pview) : Prop :=
    forall cs, c parent_id = Some cs -> cs = pv_cands fresh.

  Theorem verdict_independent_of_cache_lemma (c : cache) parent_id cfg fresh parent st0 b now :
    cache_ok c parent_id fresh ->
    process cfg (view_with_cache c parent_id fresh) parent st0 b now = process cfg fresh parent st0 b now.
  Proof.
    intros H. unfold view_with_cache. destruct (c parent_id) as [cs|] eqn:E; [|reflexivity].
    rewrite (H cs E). destruct fresh; reflexivity.
  Qed.

End Packer.

  (* PoA v2: the score the packer adds is at least 1, so the total score grows (no wrap below 2^64) *)
  Lemma v2_score_positive pt T cs me mep t : 0 < T ->
    find_me me (props cs) = Some mep -> is_scheduled pt T (addrs (seq_of me (pks cs))) t me = true ->
    1 <= snd (updates_v2 pt T (seq_of me (pks cs)) mep t) <= N.of_nat (length cs).
  Proof.
    intros HT Hf Hit. pose proof (sched_time_facts KV2 (fun _ => 0) pt T cs me t Hit) as [Hgt Hal].
    destruct (aligned_form pt T t HT Hgt Hal) as (k & Hk & ->).
    apply find_me_in in Hf. destruct Hf as [Hin Ha].
    rewrite <- props_pks in Hin. pose proof (me_in_seq me (pks cs) mep Hin Ha) as Hm. rewrite <- Ha in Hm at 1.
    pose proof (score_v2_bounds pt T k (seq_of me (pks cs)) mep HT Hk Hm) as B. cbv zeta in B.
    split; [apply B|]. destruct B as [_ B]. eapply N.le_trans; [exact B|].
    unfold seq_of. rewrite map_length.
    assert (L : (length (sort_k (filter (fun pk => eligible me (fst pk)) (pks cs))) <= length cs)%nat).
    { rewrite (Permutation.Permutation_length (sort_k_perm _)).
      eapply Nat.le_trans; [apply filter_length_le|]. unfold pks. rewrite map_length. auto. }
    lia.
  Qed.

(* ---------------------------------------------------------------- the total score grows: premises on the INPUTS *)

Lemma sum_notme_le me l : sumN (weights (filter (notme me) l)) <= sumN (weights l).
Proof. induction l as [|x t IH]; cbn; [lia|]. destruct (notme me x); cbn; unfold weights in *; lia. Qed.

Lemma sum_notme_plus_me me mep l : In mep l -> p_addr mep = me ->
  sumN (weights (filter (notme me) l)) + p_weight mep <= sumN (weights l).
Proof.
  induction l as [|x t IH]; intros Hin Ha; [contradiction|]. cbn [filter]. destruct Hin as [->|Hin].
  - unfold notme at 1. rewrite Ha, N.eqb_refl. cbn. pose proof (sum_notme_le me t). unfold weights in *. lia.
  - specialize (IH Hin Ha). destruct (notme me x); cbn; unfold weights in *; lia.
Qed.

Lemma sum_filter_firstn_filter f m (l : list proposer) :
  sumN (weights (filter f (firstn m l))) <= sumN (weights (filter f l)).
Proof.
  revert l. induction m as [|m IH]; intros l; cbn; [lia|]. destruct l as [|x t]; cbn; [lia|].
  specialize (IH t). destruct (f x); cbn; unfold weights in *; lia.
Qed.

(* PoS: the proposer's own weight, scaled, reaches the total weight => score >= 1 (and <= 10000) *)
Lemma pos_score_positive pt T cs me mep total t : 0 < T ->
  find_me me (props cs) = Some mep -> is_scheduled pt T (addrs (seq_of me (pks cs))) t me = true ->
  sumN (weights (seq_of me (pks cs))) * max_pos_score < 18446744073709551616 ->
  sumN (weights (seq_of me (pks cs))) <= total -> 0 < total -> total <= p_weight mep * max_pos_score ->
  1 <= snd (updates_pos pt T (seq_of me (pks cs)) mep total t) <= max_pos_score.
Proof.
  intros HT Hf Hit Hnw Hle Hpos Hw.
  pose proof (sched_time_facts KPOS (fun _ => 0) pt T cs me t Hit) as [Hgt Hal].
  destruct (aligned_form pt T t HT Hgt Hal) as (k & Hk & ->).
  apply find_me_in in Hf. destruct Hf as [Hin Ha].
  destruct (score_pos_bounds pt T k (seq_of me (pks cs)) mep total HT Hk Hnw Hle Hpos) as [E B]. cbv zeta in E.
  split; [|exact B]. rewrite E. rewrite missed_spec by auto. rewrite Ha.
  assert (Hmem : In mep (seq_of me (pks cs))).
  { apply in_seq_of. split; [rewrite props_pks; exact Hin|]. unfold eligible. rewrite Ha, N.eqb_refl. apply orb_true_r. }
  pose proof (sum_filter_firstn_filter (notme me) (N.to_nat (k - 1 - 0)) (seq_of me (pks cs))) as S1.
  pose proof (sum_notme_plus_me me mep _ Hmem Ha) as S2.
  apply N.div_le_lower_bound; [lia|]. rewrite N.mul_1_r.
  set (S := sumN (weights (seq_of me (pks cs)))) in *.
  set (M := sumN (weights (filter (notme me) (firstn (N.to_nat (k - 1 - 0)) (seq_of me (pks cs)))))) in *.
  assert (Hd : p_weight mep <= S - M) by lia.
  apply N.le_trans with (p_weight mep * max_pos_score); [exact Hw|]. apply N.mul_le_mono_r. exact Hd.
Qed.

(* PoA v1: between 1 and the number of candidates (unique master addresses) *)
Lemma v1_score_positive hsh pt T cs me mep t :
  NoDup (map cand_addr cs) -> find_me me (props cs) = Some mep ->
  1 <= snd (updates_v1 hsh pt T (actives_v1 me (props cs)) mep t) <= N.of_nat (length cs).
Proof.
  intros Hnd Hf. apply find_me_in in Hf. destruct Hf as [Hin Ha].
  assert (N1 : NoDup (addrs (actives_v1 me (props cs)))).
  { unfold addrs, actives_v1. apply NoDup_map_filter. unfold props. rewrite map_map. exact Hnd. }
  assert (I1 : In (p_addr mep) (addrs (actives_v1 me (props cs)))).
  { unfold addrs, actives_v1. apply in_map. apply filter_In. split; [exact Hin|]. unfold eligible. rewrite Ha, N.eqb_refl. apply orb_true_r. }
  destruct (score_v1_bounds hsh pt T (actives_v1 me (props cs)) mep t N1 I1) as [B1 B]. split; [exact B1|].
  eapply N.le_trans; [exact B|]. unfold actives_v1.
  pose proof (filter_length_le (eligible me) (props cs)). unfold props in *. rewrite map_length in *. lia.
Qed.

Definition pos_weight_premise (pv : pview) (po : packer_opts) : Prop :=
  pv_pos pv = true -> forall mep, find_me (po_me po) (props (pv_cands pv)) = Some mep ->
    let seq := seq_of (po_me po) (pks (pv_cands pv)) in
    sumN (weights seq) * max_pos_score < 18446744073709551616 /\ sumN (weights seq) <= pv_total pv /\ 0 < pv_total pv /\
    pv_total pv <= p_weight mep * max_pos_score.

(* the score the packer adds is at least 1, for the three schedulers, from premises on the inputs only *)
Theorem packer_score_grows cfg pv parent po now ctx ups :
  0 < c_interval cfg -> NoDup (map cand_addr (pv_cands pv)) -> pos_weight_premise pv po ->
  h_total_score parent + max_pos_score + N.of_nat (length (pv_cands pv)) < 18446744073709551616 ->
  schedule_ctx cfg pv parent po now = Some (ctx, ups) ->
  h_total_score parent < x_total_score ctx.
Proof.
  intros HT Hnd Hw Hnowrap Hs. apply schedule_ctx_some in Hs. destruct Hs as (mep & t & Ef & Et & _ & _ & -> & _).
  cbn [x_total_score].
  pose proof (sched_schedule_accepted _ _ _ _ _ _ _ _ _ _ HT Ef Et) as Hit.
  match goal with |- _ < wrap64 (_ + snd ?u) => assert (B : 1 <= snd u <= max_pos_score + N.of_nat (length (pv_cands pv))) end.
  { unfold kind_of in *. destruct (pv_pos pv) eqn:Epos.
    - cbn [sched_updates sched_is_the_time] in *. destruct (Hw Epos mep Ef) as (W1 & W2 & W3 & W4).
      pose proof (pos_score_positive _ _ _ _ _ _ _ HT Ef Hit W1 W2 W3 W4). rewrite (proj2 (find_me_in _ _ _ Ef)). lia.
    - destruct (h_number parent + 1 <? c_vip214 cfg); cbn [sched_updates sched_is_the_time] in *.
      + pose proof (v1_score_positive (pv_hash pv) (h_time parent) (c_interval cfg) _ _ _ t Hnd Ef).
        rewrite (proj2 (find_me_in _ _ _ Ef)). unfold max_pos_score. lia.
      + pose proof (v2_score_positive _ _ _ _ _ _ HT Ef Hit). rewrite (proj2 (find_me_in _ _ _ Ef)). unfold max_pos_score. lia. }
  unfold wrap64, max_pos_score in *. rewrite N.mod_small by lia. lia.
Qed.

Lemma pack_block_score State exec apply_updates rewards root_of_state root_of_receipts root_of_txs has_tx find_meta
      cfg pv parent po now st0 txs vote sr b stp rcs :
  pack_block State exec apply_updates rewards root_of_state root_of_receipts root_of_txs has_tx find_meta
             cfg pv parent po now st0 txs vote sr = Some (b, stp, rcs) ->
  exists ctx ups, schedule_ctx cfg pv parent po now = Some (ctx, ups) /\ h_total_score (b_header b) = x_total_score ctx.
Proof.
  unfold pack_block. destruct (schedule_ctx cfg pv parent po now) as [[ctx ups]|]; [|discriminate].
  destruct (adopt_all _ _ _ _ _ _ _ _ _ _ _) as [[[ts rs] stf] used]. unfold pack.
  destruct (if pv_pos pv then _ else _); [|discriminate]. destruct (if _ <? _ then _ else _); [|discriminate].
  intros E. inversion E; subst. exists ctx, ups. split; reflexivity.
Qed.
