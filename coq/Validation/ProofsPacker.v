(* Validation/ProofsPacker.v — every block the packer model produces is accepted by the validator model, which
   recomputes exactly the packer's state and receipts (C01). *)
From Coq Require Import List NArith ZArith Bool Lia.
From Coq Require Import ZifyN ZifyNat ZifyBool.
From Verif Require Import Common.Util Common.GoInt Sched.Model Sched.Arith Sched.Proofs Sched.ProofsUpdates
     Gen.GasLimit GenProofs.GasLimitProofs BaseFee.Model
     Header.Rules Header.Proofs Validation.Body Validation.Catalogue Validation.ProofsRules.
Import ListNotations.
Open Scope N_scope.
Ltac Zify.zify_post_hook ::= Z.div_mod_to_equations.

(* ---------------------------------------------------------------- scheduler facts (C05) in the shape used here *)

Lemma props_pks cs : map fst (pks cs) = props cs.
Proof. unfold pks, props. rewrite map_map. reflexivity. Qed.

Lemma find_me_in me ps mep : find_me me ps = Some mep -> In mep ps /\ p_addr mep = me.
Proof. unfold find_me. intros H. apply find_some in H. destruct H as [H1 H2]. apply N.eqb_eq in H2. auto. Qed.

Lemma sched_time_facts k hsh pt T cs me t :
  sched_is_the_time k hsh pt T cs me t = true -> pt < t /\ (t - pt) mod T = 0.
Proof.
  assert (A : forall seq, is_scheduled pt T seq t me = true -> pt < t /\ (t - pt) mod T = 0).
  { intros seq. unfold is_scheduled. destruct (N.leb_spec t pt); [discriminate|].
    destruct (N.eqb_spec ((t - pt) mod T) 0); cbn [negb]; [auto | discriminate]. }
  destruct k; cbn [sched_is_the_time]; try apply A.
  unfold is_the_time_v1. destruct (N.leb_spec t pt); [discriminate|].
  destruct (N.eqb_spec ((t - pt) mod T) 0); cbn [negb]; [auto | discriminate].
Qed.

(* schedule_accepted, for the three schedulers: the slot Schedule returns is accepted by IsTheTime *)
Lemma sched_schedule_accepted k hsh pt T cs me mep now fuel t : 0 < T ->
  find_me me (props cs) = Some mep ->
  sched_schedule k hsh pt T cs me now fuel = Some t ->
  sched_is_the_time k hsh pt T cs me t = true.
Proof.
  intros HT Hf. apply find_me_in in Hf. destruct Hf as [Hin Ha].
  assert (A : schedule pt T (addrs (seq_of me (pks cs))) me now = Some t ->
              is_scheduled pt T (addrs (seq_of me (pks cs))) t me = true).
  { intros Hs. rewrite <- props_pks in Hin. pose proof (me_in_seq me (pks cs) mep Hin Ha) as Hm.
    destruct (schedule_is_earliest_lemma pt T _ me now HT Hm) as (t' & E & Hok & _). rewrite Hs in E. inversion E; subst. exact Hok. }
  destruct k; cbn [sched_schedule sched_is_the_time]; try exact A.
  intros Hs. apply (schedule_v1_spec _ _ _ _ _ _ _ _ HT) in Hs. tauto.
Qed.

(* ---------------------------------------------------------------- gas limit: Qualify lands inside IsValid *)

Lemma packer_gas_limit_ok target pgl : target < two64 -> pgl < two64 -> 1000000 <= pgl ->
  gas_limit_valid (packer_gas_limit target pgl) pgl = true /\ packer_gas_limit target pgl < two64.
Proof.
  intros Ht Hp Hm. unfold packer_gas_limit, two64 in *.
  destruct (N.eqb_spec target 0) as [E|E].
  - split; [|exact Hp]. apply gas_limit_valid_iff; unfold two64; lia.
  - assert (Ut : u64 (Z.of_N target)) by (unfold u64; lia).
    assert (Up : u64 (Z.of_N pgl)) by (unfold u64; lia).
    assert (Mp : (GasLimitProofs.min_gas_limit <= Z.of_N pgl)%Z) by (unfold GasLimitProofs.min_gas_limit; lia).
    pose proof (qualify_is_valid _ _ Ut Up Mp) as V.
    pose proof (qualify_cases _ _ Ut Up Mp) as C.
    assert (R : (0 <= GasLimit_Qualify (Z.of_N target) (Z.of_N pgl) < 18446744073709551616)%Z).
    { rewrite C. cbv zeta. unfold u64 in *.
      destruct (Z.ltb_spec (Z.of_N pgl) (Z.of_N target)).
      - destruct (Z.ltb_spec (18446744073709551615 - Z.min (Z.of_N target - Z.of_N pgl) (Z.of_N pgl / 1024)) (Z.of_N pgl)); lia.
      - destruct (Z.ltb_spec (Z.of_N pgl) (1000000 + Z.min (Z.of_N pgl - Z.of_N target) (Z.of_N pgl / 1024))); lia. }
    split; [|lia]. unfold gas_limit_valid. rewrite Z2N.id by lia. exact V.
Qed.

(* ---------------------------------------------------------------- base fee: what the packer writes is what the validator expects *)

Lemma base_fee_rule_of_packer cfg parent :
  h_number parent + 1 < 4294967296 ->
  base_fee_nil_deref cfg parent = false -> expected_base_fee cfg parent <> BfPanics ->
  forall h, h_base_fee h = base_fee_field (expected_base_fee cfg parent) -> R_base_fee cfg parent h.
Proof.
  intros Hn Hd Hp h Hb. unfold R_base_fee. unfold expected_base_fee in *.
  set (pb := match h_base_fee parent with Some b => Z.of_N b | None => 0%Z end) in *.
  assert (Hpb : (0 <= pb)%Z) by (unfold pb; destruct (h_base_fee parent); lia).
  unfold calc_base_fee in *.
  rewrite Z.mod_small in * by (unfold BaseFee.Model.two32; lia).
  split.
  - intros Hlt. destruct (Z.ltb_spec (Z.of_N (h_number parent) + 1) (Z.of_N (c_galactica cfg))); [|lia].
    rewrite Hb. reflexivity.
  - intros Hge. destruct (Z.ltb_spec (Z.of_N (h_number parent) + 1) (Z.of_N (c_galactica cfg))); [lia|].
    destruct (Z.eqb_spec (Z.of_N (h_number parent) + 1) (Z.of_N (c_galactica cfg))).
    + exists (Z.to_N initial_base_fee). rewrite Hb. cbn [base_fee_field]. split; [reflexivity|]. split; [exact Hd|].
      rewrite Z2N.id by (unfold initial_base_fee; lia). reflexivity.
    + set (gu := Z.of_N (h_gas_used parent)) in *. set (tg := gas_target (Z.of_N (h_gas_limit parent))) in *.
      assert (Hgu : (0 <= gu)%Z) by (unfold gu; lia).
      assert (Htg : (0 <= tg)%Z).
      { unfold tg, gas_target. apply Z.div_pos; [|lia].
        apply Z.mod_pos_bound. unfold BaseFee.Model.two64. lia. }
      destruct (Z.eqb_spec gu tg).
      * exists (Z.to_N pb). rewrite Hb. cbn [base_fee_field]. split; [reflexivity|]. split; [exact Hd|]. rewrite Z2N.id by lia. reflexivity.
      * destruct (Z.eqb_spec tg 0); [contradiction|].
        destruct (Z.gtb_spec gu tg).
        -- match goal with |- context [BfFee ?z] => exists (Z.to_N z); assert (Hz : (0 <= z)%Z) end.
           { assert ((0 <= pb * (gu - tg) / tg / base_fee_change_denominator)%Z).
             { apply Z.div_pos; [|unfold base_fee_change_denominator; lia]. apply Z.div_pos; [|lia]. apply Z.mul_nonneg_nonneg; lia. }
             lia. }
           rewrite Hb. cbn [base_fee_field]. split; [reflexivity|]. split; [exact Hd|]. rewrite Z2N.id by lia. reflexivity.
        -- match goal with |- context [BfFee ?z] => exists (Z.to_N z); assert (Hz : (0 <= z)%Z) end.
           { unfold initial_base_fee. lia. }
           rewrite Hb. cbn [base_fee_field]. split; [reflexivity|]. split; [exact Hd|]. rewrite Z2N.id by lia. reflexivity.
Qed.

(* ---------------------------------------------------------------- beneficiary (PoS): unique leader *)

Lemma find_unique {A} (key : A -> N) (f : A -> bool) (l : list A) (c : A) :
  NoDup (map key l) -> In c l -> f c = true -> (forall x, In x l -> f x = true -> key x = key c) -> find f l = Some c.
Proof.
  induction l as [|a l IH]; intros Hnd Hin Hf Hk; [contradiction|]. cbn [find].
  inversion Hnd as [|? ? Hni Hnd']; subst.
  destruct (f a) eqn:Efa.
  - destruct Hin as [->|Hin]; [reflexivity|].
    exfalso. apply Hni. rewrite (Hk a (or_introl eq_refl) Efa). apply in_map. exact Hin.
  - destruct Hin as [->|Hin]; [congruence|]. apply IH; auto. intros x Hx. apply Hk. right; exact Hx.
Qed.

Definition cand_addr (c : cand) : N := p_addr (cd_p c).

Lemma leader_beneficiary_packer po cs b :
  NoDup (map cand_addr cs) ->
  leader_beneficiary (po_me po) cs = Some b -> packer_beneficiary_pos po cs = b.
Proof.
  intros Hnd. unfold leader_beneficiary, packer_beneficiary_pos, find_last.
  destruct (find _ (rev cs)) as [c|] eqn:Ef; [|discriminate]. intros Hb.
  apply find_some in Ef. destruct Ef as [Hin Hc]. apply andb_true_iff in Hc. destruct Hc as [Hc1 Hc2].
  assert (F : find (fun c0 => p_addr (cd_p c0) =? po_me po) (rev cs) = Some c).
  { apply (find_unique cand_addr); auto.
    - rewrite map_rev. apply NoDup_rev. exact Hnd.
    - intros x _ Hx. apply N.eqb_eq in Hx, Hc1. unfold cand_addr. congruence. }
  rewrite F. rewrite Hb. reflexivity.
Qed.

Lemma schedule_ctx_some cfg pv parent po now ctx ups :
  schedule_ctx cfg pv parent po now = Some (ctx, ups) ->
  exists mep t,
    let k := kind_of cfg pv (h_number parent + 1) in
    let us := sched_updates k (pv_hash pv) (h_time parent) (c_interval cfg) (pv_cands pv) mep (pv_total pv) t in
    find_me (po_me po) (props (pv_cands pv)) = Some mep /\
    sched_schedule k (pv_hash pv) (h_time parent) (c_interval cfg) (pv_cands pv) (po_me po) now (po_fuel po) = Some t /\
    base_fee_nil_deref cfg parent = false /\ expected_base_fee cfg parent <> BfPanics /\
    ctx = mkCtx (if pv_pos pv then packer_beneficiary_pos po (pv_cands pv) else packer_beneficiary_poa po (pv_cands pv))
                (po_me po) (h_number parent + 1) t (packer_gas_limit (po_target_gl po) (h_gas_limit parent))
                (wrap64 (h_total_score parent + snd us)) (base_fee_field (expected_base_fee cfg parent)) /\
    ups = fst us.
Proof.
  unfold schedule_ctx.
  destruct (find_me (po_me po) (props (pv_cands pv))) as [mep|] eqn:Ef; [|discriminate].
  destruct (sched_schedule _ _ _ _ _ _ _ _) as [t|] eqn:Et; [|discriminate].
  destruct (base_fee_nil_deref cfg parent) eqn:End; [discriminate|].
  destruct (expected_base_fee cfg parent) as [|e|] eqn:Ebf; try discriminate.
  all: intros E; inversion E; subst; exists mep, t; cbv zeta; repeat split; auto; discriminate.
Qed.

Section Packer.
  Variable State : Type.
  Variable exec : bctx -> State -> txn -> option (State * receipt).
  Variable apply_updates : bool -> N -> State -> list (N * bool) -> State.
  Variable rewards : bctx -> State -> option State.
  Variable sanity : State -> bool.
  Variable root_of_state : State -> N.
  Variable root_of_receipts : list receipt -> N.
  Variable root_of_txs : list txn -> N.
  Variable has_tx : N -> N -> bool.
  Variable find_meta : N -> option bool.

  Notation verify_txs := (verify_txs State exec has_tx find_meta).
  Notation adopt_one := (adopt_one State exec has_tx find_meta).
  Notation adopt_all := (adopt_all State exec has_tx find_meta).
  Notation process := (process State exec apply_updates rewards sanity root_of_state root_of_receipts root_of_txs has_tx find_meta).
  Notation pack_block := (pack_block State exec apply_updates rewards root_of_state root_of_receipts root_of_txs has_tx find_meta).

  (* what is assumed of the abstract execution: a receipt uses at most the tx gas (C07's gas_bounds), ResolveTransaction
     needs the origin, and runtime.PrepareTransaction refuses a tx whose gas exceeds the block gas limit *)
  Definition exec_sane : Prop :=
    forall ctx st t st' r, exec ctx st t = Some (st', r) ->
      r_gas r <= t_gas t /\ t_origin_ok t = true /\ t_gas t <= x_gas_limit ctx.

  Definition two63 : N := 9223372036854775808.
  Definition two62 : N := 4611686018427387904.

  (* one Adopt call: an adopted transaction satisfies the body rules and the loop checks of verifyBlock *)
  Lemma adopt_one_adopted cfg ctx st proc used t st' r :
    exec_sane -> used <= x_gas_limit ctx -> x_gas_limit ctx < two63 ->
    adopt_one cfg (features_at cfg (x_number ctx)) ctx st proc used t = Adopted State st' r ->
    tx_body_check cfg (x_number ctx) (features_at cfg (x_number ctx)) t = None /\
    known has_tx proc t = false /\ dep_check find_meta proc t = DepOk /\ exec ctx st t = Some (st', r) /\
    used + r_gas r <= x_gas_limit ctx.
  Proof.
    intros Hex Hu Hl. unfold Body.adopt_one, tx_body_check.
    destruct ((c_blocklist cfg <=? x_number ctx) && t_origin_blocked t) eqn:E1; [discriminate|].
    destruct (t_delegator_ok t) eqn:E2; cbn [negb]; [|discriminate].
    destruct ((c_blocklist cfg <=? x_number ctx) && t_delegator_blocked t) eqn:E3; [discriminate|].
    destruct (N.eqb_spec (N.land (t_features t) (features_at cfg (x_number ctx))) (t_features t)) as [E4|E4]; cbn [negb orb]; [|discriminate].
    destruct (t_unused t) eqn:E5; [discriminate|].
    destruct (N.eqb_spec (t_chain_tag t) (c_chain_tag cfg)) as [E6|E6]; cbn [negb]; [|discriminate].
    destruct (N.ltb_spec (x_number ctx) (t_ref t)) as [E7|E7]; [discriminate|].
    destruct (N.ltb_spec (t_ref t + t_exp t) (x_number ctx)) as [E8|E8]; [discriminate|].
    destruct (N.ltb_spec (x_gas_limit ctx) (wrap64 (used + t_gas t))) as [E9|E9].
    { destruct (wrap64 (used + min_tx_gas) <=? _); discriminate. }
    destruct ((x_number ctx <? c_galactica cfg) && negb (t_type t =? 0)) eqn:E10; [discriminate|].
    destruct ((c_galactica cfg <=? x_number ctx) && negb (t_fee_ok t)); [discriminate|].
    destruct (known has_tx proc t) eqn:E11; [discriminate|].
    destruct (dep_check find_meta proc t) eqn:E12; try discriminate.
    destruct (exec ctx st t) as [[st1 r1]|] eqn:E13; [|discriminate].
    intros E. inversion E; subst st1 r1. destruct (Hex _ _ _ _ _ E13) as (Hgas & Hor & Hg).
    rewrite Hor. cbn [negb andb orb].
    repeat split; auto.
    unfold wrap64, two63 in *. rewrite N.mod_small in E9 by lia. lia.
  Qed.

  Lemma adopt_all_verified cfg ctx txs : forall st proc used ts rs stf u,
    exec_sane -> used <= x_gas_limit ctx -> x_gas_limit ctx < two63 ->
    adopt_all cfg (features_at cfg (x_number ctx)) ctx txs st proc used = (ts, rs, stf, u) ->
    verify_txs ctx ts st proc used = VOk State stf rs u /\ u <= x_gas_limit ctx /\
    body_txs_check cfg (x_number ctx) (features_at cfg (x_number ctx)) ts = None.
  Proof.
    induction txs as [|t l IH]; intros st proc used ts rs stf u Hex Hu Hl; cbn [Body.adopt_all].
    - intros E. inversion E; subst. cbn. auto.
    - destruct (adopt_one cfg (features_at cfg (x_number ctx)) ctx st proc used t) as [st' r|why] eqn:Ea.
      + destruct (adopt_one_adopted _ _ _ _ _ _ _ _ Hex Hu Hl Ea) as (B & K & D & X & G).
        destruct (adopt_all cfg (features_at cfg (x_number ctx)) ctx l st' ((t_id t, r_reverted r) :: proc) (used + r_gas r))
          as [[[ts' rs'] stf'] u'] eqn:Er.
        intros E. inversion E; subst. destruct (IH _ _ _ _ _ _ _ Hex G Hl Er) as (V & U & Bd).
        cbn [Body.verify_txs body_txs_check]. rewrite K, D, X, B. rewrite (proj2 (N.ltb_ge _ _) G). rewrite V. auto.
      + intros E. apply (IH _ _ _ _ _ _ _ Hex Hu Hl E).
  Qed.

  (* ---------------------------------------------------------------- the theorem *)
  Record premises (cfg : config) (pv : pview) (parent : header) (po : packer_opts) : Prop := {
    pr_interval : 0 < c_interval cfg;
    pr_number : h_number parent + 1 < 4294967296;
    pr_parent_gl : 1000000 <= h_gas_limit parent /\ h_gas_limit parent < two62;
    pr_target : po_target_gl po < two63;
    pr_unique : NoDup (map cand_addr (pv_cands pv));
    pr_exec : exec_sane }.

  (* what the crypto library reports for the block the packer signed: 65 / 65+81 bytes, recovered signer = the packer,
     VRF proof verifies (sign/recover and prove/verify round trips: not modelled, stated) *)
  Definition crypto_roundtrip (cfg : config) (parent : header) (po : packer_opts) (sr : sig_report) : Prop :=
    sr_signer sr = Some (po_me po) /\
    sr_len sr = (if h_number parent + 1 <? c_vip214 cfg then 65 else 146) /\
    (c_vip214 cfg <= h_number parent + 1 -> sr_beta sr <> None).

  Theorem packed_block_accepted_lemma cfg pv parent po now st0 txs vote sr b stp rcs vnow :
    premises cfg pv parent po -> crypto_roundtrip cfg parent po sr ->
    pack_block cfg pv parent po now st0 txs vote sr = Some (b, stp, rcs) ->
    (* the total score grows and does not wrap *)
    h_total_score parent < h_total_score (b_header b) ->
    (* PoS: the staker sanity check holds on the packer's final state (C16 custody) *)
    (pv_pos pv = true -> forall st, sanity st = true) ->
    (* the validator's clock has reached the block (one interval of tolerance) *)
    h_time (b_header b) <= vnow + c_interval cfg ->
    process cfg pv parent st0 b vnow = Accepted State stp rcs.
  Proof.
    intros P (C1 & C2 & C3) Hpack Hscore Hsan Hnow. destruct P as [PT PN [PG1 PG2] PTg PU PE].
    unfold Body.pack_block in Hpack.
    destruct (schedule_ctx cfg pv parent po now) as [[ctx0 ups]|] eqn:Es; [|discriminate].
    apply schedule_ctx_some in Es. destruct Es as (mep & t & Ef & Et & End & Hnp & -> & ->).
    cbn [x_number x_gas_limit] in Hpack.
    match type of Hpack with context [adopt_all ?c ?f ?x ?l ?s [] 0] =>
      destruct (adopt_all c f x l s [] 0) as [[[ts rs] stf] used] eqn:Ea end.
    unfold Body.pack in Hpack; cbn [x_number x_time x_gas_limit x_beneficiary x_total_score x_base_fee] in Hpack.
    match type of Hpack with context [if pv_pos pv then ?a else ?b] => destruct (if pv_pos pv then a else b) as [st2|] eqn:Erw; [|discriminate] end.
    match type of Hpack with context [if ?c then Some (0, 0) else expected_alpha parent] =>
      destruct (if c then Some (0, 0) else expected_alpha parent) as [alpha|] eqn:Eal; [|discriminate] end.
    inversion Hpack; subst b stp rcs; clear Hpack.
    pose proof (sched_schedule_accepted _ _ _ _ _ _ _ _ _ _ PT Ef Et) as Hit.
    pose proof (sched_time_facts _ _ _ _ _ _ _ Hit) as [Hgt Hal].
    destruct (packer_gas_limit_ok (po_target_gl po) (h_gas_limit parent)) as [Hgv Hgl];
      [unfold two62, two63, two64 in *; lia | unfold two62, two63, two64 in *; lia | exact PG1 |].
    match type of Ea with adopt_all _ _ ?c _ ?s _ _ = _ => set (ctx := c) in *; set (st1 := s) in * end.
    assert (Hgv' := Hgv). apply gas_limit_valid_iff in Hgv'; [|exact Hgl | unfold two62, two63, two64 in *; lia].
    assert (Hlim : x_gas_limit ctx < two63) by (cbn [ctx x_gas_limit]; unfold two62, two63, two64 in *; lia).
    destruct (adopt_all_verified cfg ctx txs st1 [] 0 ts rs stf used PE ltac:(lia) Hlim Ea) as (Hver & Hused & Hbody).
    unfold Body.process; cbn [b_header b_txs h_features h_txs_root].
    rewrite N.eqb_refl; cbn [negb].
    match goal with |- context [validate_header cfg parent ?h vnow] =>
      assert (Hh : validate_header cfg parent h vnow = Accept) end.
    { apply validate_header_accept_iff; cbn [h_gas_limit]; [exact Hgl | unfold two62, two63, two64 in *; lia |].
      unfold header_rules.
      cbn [h_time h_gas_used h_gas_limit h_total_score h_alpha h_sig_len h_beta h_com h_base_fee b_header] in *.
      split; [exact Hgt|]. split; [exact Hal|]. split; [exact Hnow|]. split; [exact Hused|]. split; [exact Hscore|].
      split; [exact Hgv'|].
      split. { intros Hlt. unfold R_sig_pre in *. cbn [h_alpha h_sig_len]. rewrite (proj2 (N.ltb_lt _ _) Hlt) in Eal, C2.
               inversion Eal; subst alpha. cbn. auto. }
      split. { intros Hge. cbn [h_alpha h_sig_len h_beta]. rewrite (proj2 (N.ltb_ge _ _) Hge) in Eal, C2. split; [exact C2|].
               split; [|exact (C3 Hge)].
               unfold expected_alpha in Eal. destruct (h_beta parent) as [pb|]; [|discriminate]. exists pb. split; [reflexivity|].
               inversion Eal. unfold bytes_empty. reflexivity. }
      split. { intros Hlt. cbn [h_com]. apply N.leb_gt in Hlt. rewrite Hlt. reflexivity. }
      apply (base_fee_rule_of_packer cfg parent PN End); [exact Hnp | cbn [h_base_fee]; reflexivity]. }
    rewrite Hh; clear Hh.
    unfold validate_proposer; cbn [h_signer h_time h_total_score h_beneficiary]; rewrite C1, Ef, Hit; cbn [negb].
    rewrite N.eqb_refl; cbn [negb].
    match goal with |- context [sched_updates ?a ?b ?c ?d ?e ?f ?g ?i] => set (us := sched_updates a b c d e f g i) in * end.
    assert (Hprop : (if pv_pos pv
                 then match leader_beneficiary (po_me po) (pv_cands pv) with
                      | Some b0 => if b0 =? x_beneficiary ctx then POk (fst us) else PBad (Critical 24)
                      | None => POk (fst us) end
                 else POk (fst us)) = POk (fst us)).
    { destruct (pv_pos pv) eqn:Epos; [|reflexivity].
      destruct (leader_beneficiary (po_me po) (pv_cands pv)) as [b0|] eqn:Elb; [|reflexivity].
      cbn [ctx x_beneficiary]. rewrite (leader_beneficiary_packer po _ _ PU Elb). rewrite N.eqb_refl. reflexivity. }
    cbn [ctx x_beneficiary] in Hprop; rewrite Hprop; clear Hprop.
    rewrite N.eqb_refl; cbn [negb].
    fold st1; cbn [ctx x_number] in Hbody; rewrite Hbody.
    unfold Body.verify_block; cbn [b_header b_txs].
    match goal with |- context [ctx_of_header parent ?h] => assert (Hc : ctx_of_header parent h = ctx)
      by (unfold ctx_of_header; cbn; try rewrite C1; reflexivity); rewrite Hc end.
    rewrite Hver; unfold receipts_root_ok; cbn [b_header h_gas_used h_receipts_root h_state_root]; rewrite !N.eqb_refl; cbn [negb orb].
    destruct (pv_pos pv) eqn:Epos.
    - rewrite (Hsan eq_refl stf); cbn [negb]. rewrite Erw. rewrite N.eqb_refl. reflexivity.
    - inversion Erw; subst st2. rewrite N.eqb_refl. reflexivity.
  Qed.

  (* ---------------------------------------------------------------- what the verdict does not depend on *)
  Lemma validate_header_clock cfg parent h now1 now2 :
    h_time h <= now1 + c_interval cfg -> h_time h <= now2 + c_interval cfg ->
    validate_header cfg parent h now1 = validate_header cfg parent h now2.
  Proof.
    intros H1 H2. unfold validate_header.
    destruct (N.ltb_spec (now1 + c_interval cfg) (h_time h)); [lia|].
    destruct (N.ltb_spec (now2 + c_interval cfg) (h_time h)); [lia|]. reflexivity.
  Qed.

  Theorem verdict_independent_of_clock_lemma cfg pv parent st0 b now1 now2 :
    h_time (b_header b) <= now1 + c_interval cfg -> h_time (b_header b) <= now2 + c_interval cfg ->
    process cfg pv parent st0 b now1 = process cfg pv parent st0 b now2.
  Proof. intros H1 H2. unfold Body.process. rewrite (validate_header_clock cfg parent (b_header b) now1 now2 H1 H2). reflexivity. Qed.

  (* the validators' candidate cache: an entry for the parent replaces the candidate list read from the state *)
  Definition cache := N -> option (list cand).
  Definition view_with_cache (c : cache) (parent_id : N) (fresh : pview) : pview :=
    match c parent_id with
    | Some cs => mkPV (pv_pos fresh) cs (pv_total fresh) (pv_hash fresh)
    | None => fresh
    end.
  (* the cache invariant: an entry for a block is the list a fresh read of that block's state gives *)
  Definition cache_ok (c : cache) (parent_id : N) (fresh : pview) : Prop :=
    forall cs, c parent_id = Some cs -> cs = pv_cands fresh.

  Theorem verdict_independent_of_cache_lemma (c : cache) parent_id cfg fresh parent st0 b now :
    cache_ok c parent_id fresh ->
    process cfg (view_with_cache c parent_id fresh) parent st0 b now = process cfg fresh parent st0 b now.
  Proof.
    intros H. unfold view_with_cache. destruct (c parent_id) as [cs|] eqn:E; [|reflexivity].
    rewrite (H cs E). destruct fresh; reflexivity.
  Qed.

End Packer.

  (* PoA v2: the score the packer adds is at least 1, so the total score grows (no wrap below 2^64) *)
  Lemma v2_score_positive pt T cs me mep t : 0 < T ->
    find_me me (props cs) = Some mep -> is_scheduled pt T (addrs (seq_of me (pks cs))) t me = true ->
    1 <= snd (updates_v2 pt T (seq_of me (pks cs)) mep t) <= N.of_nat (length cs).
  Proof.
    intros HT Hf Hit. pose proof (sched_time_facts KV2 (fun _ => 0) pt T cs me t Hit) as [Hgt Hal].
    destruct (aligned_form pt T t HT Hgt Hal) as (k & Hk & ->).
    apply find_me_in in Hf. destruct Hf as [Hin Ha].
    rewrite <- props_pks in Hin. pose proof (me_in_seq me (pks cs) mep Hin Ha) as Hm. rewrite <- Ha in Hm at 1.
    pose proof (score_v2_bounds pt T k (seq_of me (pks cs)) mep HT Hk Hm) as B. cbv zeta in B.
    split; [apply B|]. destruct B as [_ B]. eapply N.le_trans; [exact B|].
    unfold seq_of. rewrite map_length.
    assert (L : (length (sort_k (filter (fun pk => eligible me (fst pk)) (pks cs))) <= length cs)%nat).
    { rewrite (Permutation.Permutation_length (sort_k_perm _)).
      eapply Nat.le_trans; [apply filter_length_le|]. unfold pks. rewrite map_length. auto. }
    lia.
  Qed.
