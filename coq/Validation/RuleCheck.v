(* Validation/RuleCheck.v — an executable mirror of the catalogue, SOUND for it (rule_b i = true -> rule_holds i).
   Used only to establish, on concrete blocks, "every rule except i holds" by computation (the non-vacuity Examples of
   Properties/C02.v); the failing rule of each Example is refuted directly on the Prop. *)
From Coq Require Import List NArith ZArith Bool Lia.
From Verif Require Import Common.Util Sched.Model BaseFee.Model Header.Rules Header.Proofs Validation.Body Validation.Catalogue
     Validation.ProofsRules.
Import ListNotations.
Open Scope N_scope.

Fixpoint nodupb (l : list N) : bool :=
  match l with [] => true | x :: t => negb (existsb (N.eqb x) t) && nodupb t end.

Lemma nodupb_sound l : nodupb l = true -> NoDup l.
Proof.
  induction l as [|x t IH]; cbn [nodupb]; intros H; [constructor|].
  apply andb_true_iff in H. destruct H as [H1 H2]. constructor; [|apply IH; exact H2].
  intros C. apply negb_true_iff in H1. assert (X : existsb (N.eqb x) t = true).
  { apply existsb_exists. exists x. split; [exact C | apply N.eqb_refl]. }
  congruence.
Qed.

Lemma forallb_Forall {A} (f : A -> bool) (P : A -> Prop) l :
  (forall x, f x = true -> P x) -> forallb f l = true -> Forall P l.
Proof.
  intros H. induction l as [|x t IH]; cbn [forallb]; intros E; [constructor|].
  apply andb_true_iff in E. destruct E. constructor; auto.
Qed.

Section RuleCheck.
  Variable State : Type.
  Variable exec : bctx -> State -> txn -> option (State * receipt).
  Variable apply_updates : bool -> N -> State -> list (N * bool) -> State.
  Variable rewards : bctx -> State -> option State.
  Variable sanity : State -> bool.
  Variable root_of_state : State -> N.
  Variable root_of_receipts : list receipt -> N.
  Variable root_of_txs : list txn -> N.
  Variable has_tx : N -> N -> bool.
  Variable find_meta : N -> option bool.
  Variable cfg : config.
  Variable pv : pview.
  Variable parent : header.
  Variable st0 : State.
  Variable b : block.
  Variable now : N.

  Notation rule_holds := (rule_holds State exec apply_updates rewards sanity root_of_state root_of_receipts root_of_txs has_tx find_meta cfg pv parent st0 b now).
  Notation run := (run State exec).

  Let h := b_header b.
  Let txs := b_txs b.
  Let num := h_number parent + 1.
  Let T := c_interval cfg.
  Let kind := kind_of cfg pv num.
  Let ctx := ctx_of_header parent h.

  Definition prop_mep : option proposer :=
    match h_signer h with Some s => find_me s (props (pv_cands pv)) | None => None end.

  Definition us_of (mep : proposer) := sched_updates kind (pv_hash pv) (h_time parent) T (pv_cands pv) mep (pv_total pv) (h_time h).

  Definition run_res : option (option (State * list receipt)) :=
    match prop_mep with
    | Some mep => Some (run ctx (apply_updates (pv_pos pv) num st0 (fst (us_of mep))) txs)
    | None => None
    end.

  Definition dep_ruleb (earlier : list (N * bool)) (t : txn) : bool :=
    match t_dep t with
    | None => true
    | Some d => match lookup d earlier with
                | Some rv => negb rv
                | None => match find_meta d with Some rv => negb rv | None => false end
                end
    end.
  Fixpoint deps_okb (earlier : list (N * bool)) (l : list txn) (rs : list receipt) : bool :=
    match l, rs with
    | t :: l', r :: rs' => dep_ruleb earlier t && deps_okb ((t_id t, r_reverted r) :: earlier) l' rs'
    | _, _ => true
    end.

  Definition on_run (f : State -> list receipt -> bool) : bool :=
    match run_res with Some (Some (stf, rs)) => f stf rs | _ => true end.

  Definition rule_b (i : N) : bool :=
    match i with
    | 1 => h_time parent <? h_time h
    | 2 => (h_time h - h_time parent) mod T =? 0
    | 3 => h_time h <=? now + T
    | 4 => h_gas_used h <=? h_gas_limit h
    | 5 => h_total_score parent <? h_total_score h
    | 6 => (gas_limit_floor <=? h_gas_limit h) &&
           (h_gas_limit h <=? h_gas_limit parent + h_gas_limit parent / gas_limit_bound_divisor) &&
           (h_gas_limit parent <=? h_gas_limit h + h_gas_limit parent / gas_limit_bound_divisor)
    | 7 => if num <? c_vip214 cfg then (fst (h_alpha h) =? 0) && (h_sig_len h =? 65) else true
    | 8 => if c_vip214 cfg <=? num then
             (h_sig_len h =? 146) &&
             match h_beta parent with
             | Some pb => bytes_eqb (h_alpha h) (if fst pb =? 0 then (32, h_state_root parent) else pb)
             | None => false
             end &&
             match h_beta h with Some _ => true | None => false end
           else true
    | 9 => if num <? c_finality cfg then negb (h_com h) else true
    | 10 => if num <? c_galactica cfg then match h_base_fee h with None => true | Some _ => false end else true
    | 11 => if c_galactica cfg <=? num then
              match h_base_fee h with
              | Some bf => negb (base_fee_nil_deref cfg parent) &&
                           match expected_base_fee cfg parent with BfFee e => (Z.of_N bf =? e)%Z | _ => false end
              | None => false
              end
            else true
    | 12 => h_features h =? (if c_vip191 cfg <=? num then 1 else 0)
    | 20 => match prop_mep with Some _ => true | None => false end
    | 21 => match prop_mep with
            | Some mep => match slot_owner kind (pv_hash pv) (h_time parent) T (pv_cands pv) (p_addr mep) (h_time h) with
                          | Some o => o =? p_addr mep
                          | None => false
                          end
            | None => true
            end
    | 22 => match prop_mep with
            | Some mep => h_total_score h =? wrap64 (h_total_score parent + snd (us_of mep))
            | None => true
            end
    | 23 => if pv_pos pv then
              match h_signer h with
              | Some s => match leader_beneficiary s (pv_cands pv) with Some bnf => h_beneficiary h =? bnf | None => true end
              | None => true
              end
            else true
    | 30 => h_txs_root h =? root_of_txs txs
    | 31 => forallb (fun t => t_origin_ok t && t_delegator_ok t) txs
    | 32 => if c_blocklist cfg <=? num then forallb (fun t => negb (t_origin_blocked t) && negb (t_delegator_blocked t)) txs else true
    | 33 => forallb (fun t => t_chain_tag t =? c_chain_tag cfg) txs
    | 34 => forallb (fun t => t_ref t <=? num) txs
    | 35 => forallb (fun t => num <=? t_ref t + t_exp t) txs
    | 36 => if num <? c_galactica cfg then forallb (fun t => t_type t =? 0) txs else true
    | 37 => forallb (fun t => (N.land (t_features t) (h_features h) =? t_features t) && negb (t_unused t)) txs
    | 40 => nodupb (map t_id txs) && forallb (fun t => negb (has_tx (t_id t) (t_ref t))) txs
    | 41 => match run_res with Some None => false | _ => true end
    | 42 => on_run (fun _ rs => deps_okb [] txs rs)
    | 43 => on_run (fun _ rs => h_gas_used h =? total_gas rs)
    | 44 => on_run (fun _ rs => receipts_root_ok b (root_of_receipts rs))
    | 45 => if pv_pos pv then on_run (fun stf _ => sanity stf) else true
    | 46 => if pv_pos pv then on_run (fun stf _ => match rewards ctx stf with Some _ => true | None => false end) else true
    | 47 => on_run (fun stf _ => h_state_root h =?
                                 root_of_state (if pv_pos pv then match rewards ctx stf with Some s => s | None => stf end else stf))
    | _ => true
    end.

  Lemma the_proposer_is mep mep' : prop_mep = Some mep -> Catalogue.the_proposer pv b mep' -> mep' = mep.
  Proof.
    unfold prop_mep. intros E (s & Hs & Hf). fold h in Hs. rewrite Hs in E. congruence.
  Qed.

  Lemma the_proposer_none mep' : prop_mep = None -> ~ Catalogue.the_proposer pv b mep'.
  Proof. unfold prop_mep. intros E (s & Hs & Hf). fold h in Hs. rewrite Hs in E. congruence. Qed.

  Lemma on_run_sound (f : State -> list receipt -> bool) (P : State -> list receipt -> Prop) :
    (forall stf rs, f stf rs = true -> P stf rs) -> on_run f = true ->
    forall stf rs, the_run State exec apply_updates cfg pv parent st0 b stf rs -> P stf rs.
  Proof.
    intros Hf Ho stf rs (mep & TP & Hr). unfold on_run, run_res in Ho.
    destruct prop_mep as [mep0|] eqn:E; [|exfalso; exact (the_proposer_none _ E TP)].
    pose proof (the_proposer_is _ _ E TP). subst mep.
    unfold start_state, updates_and_score in Hr. unfold us_of, txs, ctx, kind, T, num, h in *.
    rewrite Hr in Ho. apply Hf. exact Ho.
  Qed.

  Lemma dep_ruleb_sound e t : dep_ruleb e t = true -> dep_rule find_meta e t.
  Proof.
    unfold dep_ruleb, dep_rule. destruct (t_dep t) as [d|]; [|auto].
    destruct (lookup d e) as [[|]|]; cbn; try discriminate; auto.
    destruct (find_meta d) as [[|]|]; cbn; try discriminate; auto.
  Qed.

  Lemma deps_okb_sound l : forall e rs, deps_okb e l rs = true -> deps_ok find_meta e l rs.
  Proof.
    induction l as [|t l IH]; intros e rs; [destruct rs; cbn; auto|].
    destruct rs as [|r rs]; cbn [deps_okb Catalogue.deps_ok]; [auto|].
    intros H. apply andb_true_iff in H. destruct H as [H1 H2]. split; [apply dep_ruleb_sound; exact H1 | apply IH; exact H2].
  Qed.

  Theorem rule_b_sound i : rule_b i = true -> rule_holds i.
  Proof.
    assert (R1 : rule_b 1 = true -> rule_holds 1) by (cbn; intros H; apply N.ltb_lt; exact H).
    assert (R2 : rule_b 2 = true -> rule_holds 2) by (cbn; intros H; apply N.eqb_eq; exact H).
    assert (R3 : rule_b 3 = true -> rule_holds 3) by (cbn; intros H; apply N.leb_le; exact H).
    assert (R4 : rule_b 4 = true -> rule_holds 4) by (cbn; intros H; apply N.leb_le; exact H).
    assert (R5 : rule_b 5 = true -> rule_holds 5) by (cbn; intros H; apply N.ltb_lt; exact H).
    assert (R6 : rule_b 6 = true -> rule_holds 6).
    { cbn [rule_b Catalogue.rule_holds]. intros H. apply andb_true_iff in H. destruct H as [H H3]. apply andb_true_iff in H. destruct H as [H1 H2].
      apply N.leb_le in H1, H2, H3. auto. }
    assert (R7 : rule_b 7 = true -> rule_holds 7).
    { cbn [rule_b Catalogue.rule_holds]. fold num. intros H Hlt. apply N.ltb_lt in Hlt. rewrite Hlt in H.
      apply andb_true_iff in H. destruct H as [H1 H2]. apply N.eqb_eq in H1, H2. auto. }
    assert (R8 : rule_b 8 = true -> rule_holds 8).
    { cbn [rule_b Catalogue.rule_holds]. fold num. intros H Hle. apply N.leb_le in Hle. rewrite Hle in H.
      apply andb_true_iff in H. destruct H as [H H3]. apply andb_true_iff in H. destruct H as [H1 H2]. apply N.eqb_eq in H1.
      split; [exact H1|]. split.
      - destruct (h_beta parent) as [pb|]; [|discriminate]. exists pb. split; [reflexivity|]. apply bytes_eqb_eq. exact H2.
      - unfold h in *. destruct (h_beta (b_header b)); [discriminate | discriminate H3]. }
    assert (R9 : rule_b 9 = true -> rule_holds 9).
    { cbn [rule_b Catalogue.rule_holds]. fold num. intros H Hlt. apply N.ltb_lt in Hlt. rewrite Hlt in H. apply negb_true_iff. exact H. }
    assert (R10 : rule_b 10 = true -> rule_holds 10).
    { cbn [rule_b Catalogue.rule_holds]. fold num. intros H Hlt. apply N.ltb_lt in Hlt. rewrite Hlt in H.
      unfold h in *. destruct (h_base_fee (b_header b)); [discriminate H | reflexivity]. }
    assert (R11 : rule_b 11 = true -> rule_holds 11).
    { cbn [rule_b Catalogue.rule_holds]. fold num. intros H Hle. apply N.leb_le in Hle. rewrite Hle in H.
      unfold h in *. destruct (h_base_fee (b_header b)) as [bf|]; [|discriminate H]. exists bf. split; [reflexivity|].
      apply andb_true_iff in H. destruct H as [H1 H2]. apply negb_true_iff in H1. split; [exact H1|].
      destruct (expected_base_fee cfg parent) as [|e|]; try discriminate. apply Z.eqb_eq in H2. subst e. reflexivity. }
    assert (R12 : rule_b 12 = true -> rule_holds 12) by (cbn; intros H; apply N.eqb_eq; exact H).
    assert (R20 : rule_b 20 = true -> rule_holds 20).
    { cbn [rule_b Catalogue.rule_holds]. unfold prop_mep. fold h. destruct (h_signer h) as [s|] eqn:Es; [|discriminate].
      destruct (find_me s (props (pv_cands pv))) as [mep|] eqn:Ef; [|discriminate]. intros _. exists mep, s. auto. }
    assert (R21 : rule_b 21 = true -> rule_holds 21).
    { cbn [rule_b Catalogue.rule_holds]. fold h num T kind. intros H mep' TP.
      destruct prop_mep as [mep|] eqn:E; [|exfalso; exact (the_proposer_none _ E TP)].
      pose proof (the_proposer_is _ _ E TP). subst mep'.
      destruct (slot_owner _ _ _ _ _ _ _) as [o|]; [|discriminate]. apply N.eqb_eq in H. congruence. }
    assert (R22 : rule_b 22 = true -> rule_holds 22).
    { cbn [rule_b Catalogue.rule_holds]. fold h num T kind. intros H mep' TP.
      destruct prop_mep as [mep|] eqn:E; [|exfalso; exact (the_proposer_none _ E TP)].
      pose proof (the_proposer_is _ _ E TP). subst mep'. apply N.eqb_eq in H. exact H. }
    assert (R23 : rule_b 23 = true -> rule_holds 23).
    { cbn [rule_b Catalogue.rule_holds]. fold h. intros H Hpos s bnf Hs Hl. rewrite Hpos, Hs, Hl in H. apply N.eqb_eq. exact H. }
    assert (R30 : rule_b 30 = true -> rule_holds 30) by (cbn; intros H; apply N.eqb_eq; exact H).
    assert (R31 : rule_b 31 = true -> rule_holds 31).
    { cbn [rule_b Catalogue.rule_holds]. apply forallb_Forall. intros t H. apply andb_true_iff in H. exact H. }
    assert (R32 : rule_b 32 = true -> rule_holds 32).
    { cbn [rule_b Catalogue.rule_holds]. fold num. intros H Hle. apply N.leb_le in Hle. rewrite Hle in H. revert H.
      apply forallb_Forall. intros t H. apply andb_true_iff in H. destruct H as [H1 H2]. apply negb_true_iff in H1, H2. auto. }
    assert (R33 : rule_b 33 = true -> rule_holds 33).
    { cbn [rule_b Catalogue.rule_holds]. apply forallb_Forall. intros t H. apply N.eqb_eq. exact H. }
    assert (R34 : rule_b 34 = true -> rule_holds 34).
    { cbn [rule_b Catalogue.rule_holds]. apply forallb_Forall. intros t H. apply N.leb_le. exact H. }
    assert (R35 : rule_b 35 = true -> rule_holds 35).
    { cbn [rule_b Catalogue.rule_holds]. apply forallb_Forall. intros t H. apply N.leb_le. exact H. }
    assert (R36 : rule_b 36 = true -> rule_holds 36).
    { cbn [rule_b Catalogue.rule_holds]. fold num. intros H Hlt. apply N.ltb_lt in Hlt. rewrite Hlt in H. revert H.
      apply forallb_Forall. intros t H. apply N.eqb_eq. exact H. }
    assert (R37 : rule_b 37 = true -> rule_holds 37).
    { cbn [rule_b Catalogue.rule_holds]. apply forallb_Forall. intros t H. apply andb_true_iff in H. destruct H as [H1 H2].
      apply N.eqb_eq in H1. apply negb_true_iff in H2. auto. }
    assert (R40 : rule_b 40 = true -> rule_holds 40).
    { cbn [rule_b Catalogue.rule_holds]. intros H. apply andb_true_iff in H. destruct H as [H1 H2]. split; [apply nodupb_sound; exact H1|].
      revert H2. apply forallb_Forall. intros t H. apply negb_true_iff. exact H. }
    assert (R41 : rule_b 41 = true -> rule_holds 41).
    { cbn [rule_b Catalogue.rule_holds]. fold h num T kind ctx. intros H mep' TP. unfold run_res in H.
      destruct prop_mep as [mep|] eqn:E; [|exfalso; exact (the_proposer_none _ E TP)].
      pose proof (the_proposer_is _ _ E TP). subst mep'. unfold start_state, updates_and_score.
      unfold us_of, txs, ctx, kind, T, num, h in *.
      match goal with |- exists stf rs, ?r = _ => destruct r as [[stf rs]|] eqn:Er end; [exists stf, rs; reflexivity | discriminate H]. }
    assert (R42 : rule_b 42 = true -> rule_holds 42).
    { cbn [rule_b Catalogue.rule_holds]. apply on_run_sound. intros stf rs. apply deps_okb_sound. }
    assert (R43 : rule_b 43 = true -> rule_holds 43).
    { cbn [rule_b Catalogue.rule_holds]. apply on_run_sound. intros stf rs H. apply N.eqb_eq. exact H. }
    assert (R44 : rule_b 44 = true -> rule_holds 44).
    { cbn [rule_b Catalogue.rule_holds]. apply on_run_sound. intros stf rs H. apply receipts_root_ok_iff. exact H. }
    assert (R45 : rule_b 45 = true -> rule_holds 45).
    { cbn [rule_b Catalogue.rule_holds]. intros H Hpos. rewrite Hpos in H. revert H. apply on_run_sound. auto. }
    assert (R46 : rule_b 46 = true -> rule_holds 46).
    { cbn [rule_b Catalogue.rule_holds]. intros H Hpos. rewrite Hpos in H. revert H. apply on_run_sound.
      intros stf rs H. fold h ctx. destruct (rewards ctx stf); [discriminate | discriminate]. }
    assert (R47 : rule_b 47 = true -> rule_holds 47).
    { cbn [rule_b Catalogue.rule_holds]. apply on_run_sound. intros stf rs H. apply N.eqb_eq. exact H. }
    clear - R1 R2 R3 R4 R5 R6 R7 R8 R9 R10 R11 R12 R20 R21 R22 R23 R30 R31 R32 R33 R34 R35 R36 R37 R40 R41 R42 R43 R44 R45 R46 R47.
    destruct i as [|p]; [intros _; exact I|].
    do 6 (try destruct p as [p|p|]); try (intros _; exact I); assumption.
  Qed.

  Definition rule_ids : list N :=
    [1;2;3;4;5;6;7;8;9;10;11;12;20;21;22;23;30;31;32;33;34;35;36;37;40;41;42;43;44;45;46;47].

  (* every rule except i holds, by computation *)
  Theorem others_hold_by_check i :
    forallb (fun j => (j =? i) || rule_b j) rule_ids = true -> forall j, j <> i -> rule_holds j.
  Proof.
    intros H j Hj. destruct (in_dec N.eq_dec j rule_ids) as [Hin|Hnin].
    - rewrite forallb_forall in H. specialize (H j Hin). apply orb_true_iff in H. destruct H as [H|H].
      + apply N.eqb_eq in H. contradiction.
      + apply rule_b_sound. exact H.
    - apply rule_b_sound. clear - Hnin. unfold rule_ids in Hnin. cbn [In] in Hnin.
      destruct j as [|p]; [reflexivity|].
      do 6 (try destruct p as [p|p|]); try reflexivity; exfalso; apply Hnin; tauto.
  Qed.

  (* "exactly rule i fails", by two computations: the check of the other rules and the verdict of process *)
  Theorem exactly_one_rule_fails_by_check i v :
    0 < c_interval cfg -> wf_gas parent b ->
    forallb (fun j => (j =? i) || rule_b j) rule_ids = true ->
    process State exec apply_updates rewards sanity root_of_state root_of_receipts root_of_txs has_tx find_meta cfg pv parent st0 b now
      = Rejected State v ->
    ~ rule_holds i /\ (forall j, j <> i -> rule_holds j).
  Proof.
    intros HT W Hc Hp. pose proof (others_hold_by_check i Hc) as Ho. split; [|exact Ho].
    intros Hi. assert (A : forall j, rule_holds j) by (intros j; destruct (N.eq_dec j i) as [->|Hj]; [exact Hi | exact (Ho j Hj)]).
    apply (accept_iff_rules_lemma State exec apply_updates rewards sanity root_of_state root_of_receipts root_of_txs has_tx find_meta
             cfg pv parent st0 b now HT W) in A.
    destruct A as (st & rcs & A). congruence.
  Qed.
End RuleCheck.
