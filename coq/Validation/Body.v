(* Validation/Body.v — executable model (definitions only) of
     consensus/consensus.go  Process, consensus/validator.go validate / validateBlockBody / verifyBlock   -> process
     packer/flow.go          Adopt (admission switch) / Pack                                                -> adopt_all / pack
     cmd/thor/node/block_exec.go executeAndCommitBlock (what a rejected import may touch)                   -> import
   Transaction execution (runtime + EVM), the PoS reward hook, the staker sanity check, state staging and the three
   Merkle roots are ABSTRACT deterministic functions (Section variables): C07/C10/C06 look inside them.  Chain lookups
   (HasTransaction / GetTransactionMeta on the parent's chain) are abstract functions as well (C09 looks inside). *)
From Coq Require Import List NArith ZArith Bool.
From Verif Require Import Common.Util Sched.Model Header.Rules.
Import ListNotations.
Open Scope N_scope.

(* what validation reads from a transaction; signature recovery results are data *)
Record txn := mkTx {
  t_id : N;
  t_origin_ok : bool;          (* tx.Origin() succeeds *)
  t_origin_blocked : bool;     (* thor.IsOriginBlocked(origin) *)
  t_delegator_ok : bool;       (* tx.Delegator() succeeds *)
  t_delegator_blocked : bool;  (* a delegator is present and blocked *)
  t_chain_tag : N;
  t_ref : N;                   (* BlockRef().Number() *)
  t_exp : N;                   (* Expiration() *)
  t_type : N;                  (* 0 = legacy *)
  t_features : N;              (* reserved.Features *)
  t_unused : bool;             (* len(reserved.Unused) > 0 *)
  t_gas : N;                   (* Gas() : the tx gas limit *)
  t_fee_ok : bool;             (* packer only: validateTxFee passes (effective price >= base fee, priority fee >= minimum) *)
  t_dep : option N }.

Record receipt := mkRc { r_gas : N; r_reverted : bool; r_digest : N }.

Definition features_at (cfg : config) (num : N) : N := if c_vip191 cfg <=? num then 1 else 0.

(* validateBlockBody, one transaction *)
Definition tx_body_check (cfg : config) (num feats : N) (t : txn) : option N :=
  if negb (t_origin_ok t) then Some 31
  else if (c_blocklist cfg <=? num) && t_origin_blocked t then Some 32
  else if negb (t_delegator_ok t) then Some 33
  else if (c_blocklist cfg <=? num) && t_delegator_blocked t then Some 34
  else if negb (t_chain_tag t =? c_chain_tag cfg) then Some 35
  else if num <? t_ref t then Some 36
  else if t_ref t + t_exp t <? num then Some 37
  else if (num <? c_galactica cfg) && negb (t_type t =? 0) then Some 38
  else if negb (N.land (t_features t) feats =? t_features t) then Some 39
  else if t_unused t then Some 40
  else None.

Fixpoint body_txs_check (cfg : config) (num feats : N) (txs : list txn) : option N :=
  match txs with
  | [] => None
  | t :: rest => match tx_body_check cfg num feats t with Some r => Some r | None => body_txs_check cfg num feats rest end
  end.

Definition lookup (k : N) (m : list (N * bool)) : option bool :=
  match find (fun e => fst e =? k) m with Some e => Some (snd e) | None => None end.

Inductive dep_status := DepOk | DepBroken | DepReverted.

Section Exec.
  Variable State : Type.
  Variable exec : bctx -> State -> txn -> option (State * receipt).   (* None: ExecuteTransaction returns an error *)
  Variable apply_updates : bool -> N -> State -> list (N * bool) -> State. (* authority.Update / staker.SetOnline *)
  Variable rewards : bctx -> State -> option State.                   (* energy.DistributeRewards (PoS) *)
  Variable sanity : State -> bool.                                    (* staker.ContractBalanceCheck(0) = nil *)
  Variable root_of_state : State -> N.                                (* Stage(version).Hash() *)
  Variable root_of_receipts : list receipt -> N.
  Variable root_of_txs : list txn -> N.
  Variable has_tx : N -> N -> bool.                                   (* chain.HasTransaction(id, ref) on the parent's chain *)
  Variable find_meta : N -> option bool.                              (* chain.GetTransactionMeta(id).Reverted *)

  Definition known (proc : list (N * bool)) (t : txn) : bool :=
    match lookup (t_id t) proc with Some _ => true | None => has_tx (t_id t) (t_ref t) end.

  Definition dep_check (proc : list (N * bool)) (t : txn) : dep_status :=
    match t_dep t with
    | None => DepOk
    | Some d =>
      match lookup d proc with
      | Some rv => if rv then DepReverted else DepOk
      | None => match find_meta d with
                | None => DepBroken
                | Some rv => if rv then DepReverted else DepOk
                end
      end
    end.

  (* ------------------------------------------------------------ verifyBlock: the transaction loop *)
  Inductive vres := VOk (st : State) (rcs : list receipt) (used : N) | VBad (v : verdict).

  Fixpoint verify_txs (ctx : bctx) (txs : list txn) (st : State) (proc : list (N * bool)) (used : N) : vres :=
    match txs with
    | [] => VOk st [] used
    | t :: rest =>
      if known proc t then VBad (Critical 50)
      else match dep_check proc t with
      | DepBroken => VBad (Critical 51)
      | DepReverted => VBad (Critical 52)
      | DepOk =>
        match exec ctx st t with
        | None => VBad (Other 53)
        | Some (st', r) =>
          let used' := used + r_gas r in
          if x_gas_limit ctx <? used' then VBad (Critical 54)
          else match verify_txs ctx rest st' ((t_id t, r_reverted r) :: proc) used' with
               | VOk stf rcs u => VOk stf (r :: rcs) u
               | bad => bad
               end
        end
      end
    end.

  (* b_rr_fix: the receipts root registered for this block's id in the validator's hard-coded correction table
     (thor.LoadCorrectReceiptsRoots(): a handful of historical mainnet blocks), if any — data *)
  Record block := mkB { b_header : header; b_txs : list txn; b_rr_fix : option N }.

  Definition receipts_root_ok (b : block) (r : N) : bool :=
    (h_receipts_root (b_header b) =? r) || match b_rr_fix b with Some x => x =? r | None => false end.

  Definition ctx_of_header (parent h : header) : bctx :=
    mkCtx (h_beneficiary h) (match h_signer h with Some s => s | None => 0 end) (h_number parent + 1) (h_time h)
          (h_gas_limit h) (h_total_score h) (h_base_fee h).

  Inductive outcome := Accepted (st : State) (rcs : list receipt) | Rejected (v : verdict).

  Definition verify_block (pos : bool) (parent : header) (b : block) (st : State) : outcome :=
    let h := b_header b in
    let ctx := ctx_of_header parent h in
    match verify_txs ctx (b_txs b) st [] 0 with
    | VBad v => Rejected v
    | VOk st1 rcs used =>
      if negb (h_gas_used h =? used) then Rejected (Critical 55)
      else if negb (receipts_root_ok b (root_of_receipts rcs)) then Rejected (Critical 56)
      else
        let fin := if pos then
                     (if negb (sanity st1) then inr (Critical 57)
                      else match rewards ctx st1 with None => inr (Other 58) | Some st2 => inl st2 end)
                   else inl st1 in
        match fin with
        | inr v => Rejected v
        | inl st2 => if negb (h_state_root h =? root_of_state st2) then Rejected (Critical 59)
                     else Accepted st2 rcs
        end
    end.

  (* Consensus.Process -> validate.  st0 = the state at the parent after staker.SyncPOS for this height (pv_pos is its
     Active flag); `now` = the node's clock *)
  Definition process (cfg : config) (pv : pview) (parent : header) (st0 : State) (b : block) (now : N) : outcome :=
    let h := b_header b in
    let num := h_number parent + 1 in
    if negb (h_features h =? features_at cfg num) then Rejected (Critical 30)
    else match validate_header cfg parent h now with
    | Accept =>
      match validate_proposer cfg pv parent h with
      | PBad v => Rejected v
      | POk ups =>
        let st1 := apply_updates (pv_pos pv) num st0 ups in
        if negb (h_txs_root h =? root_of_txs (b_txs b)) then Rejected (Critical 41)
        else match body_txs_check cfg num (h_features h) (b_txs b) with
        | Some r => Rejected (Critical r)
        | None => verify_block (pv_pos pv) parent b st1
        end
      end
    | v => Rejected v
    end.

  (* ------------------------------------------------------------ packer/flow.go *)

  Inductive adopt_res := Adopted (st : State) (r : receipt) | Skipped (why : N).
  (* why: 1 bad tx, 2 not adoptable now, 3 gas limit reached, 4 known tx, 5 not adoptable forever *)

  Definition min_tx_gas : N := 5000 + 16000.   (* thor.TxGas + thor.ClauseGas *)

  Definition adopt_one (cfg : config) (feats : N) (ctx : bctx) (st : State) (proc : list (N * bool)) (used : N) (t : txn)
    : adopt_res :=
    let num := x_number ctx in
    if (c_blocklist cfg <=? num) && t_origin_blocked t then Skipped 1
    else if negb (t_delegator_ok t) then Skipped 1
    else if (c_blocklist cfg <=? num) && t_delegator_blocked t then Skipped 1
    else if negb (N.land (t_features t) feats =? t_features t) || t_unused t then Skipped 1
    else if negb (t_chain_tag t =? c_chain_tag cfg) then Skipped 1
    else if num <? t_ref t then Skipped 2
    else if t_ref t + t_exp t <? num then Skipped 1
    else if x_gas_limit ctx <? wrap64 (used + t_gas t) then
      (if wrap64 (used + min_tx_gas) <=? x_gas_limit ctx then Skipped 2 else Skipped 3)
    else if (num <? c_galactica cfg) && negb (t_type t =? 0) then Skipped 1
    else if (c_galactica cfg <=? num) && negb (t_fee_ok t) then Skipped 2
    else if known proc t then Skipped 4
    else match dep_check proc t with
    | DepBroken => Skipped 2
    | DepReverted => Skipped 5
    | DepOk => match exec ctx st t with
               | None => Skipped 1          (* state reverted to the checkpoint: the tx leaves no effect *)
               | Some (st', r) => Adopted st' r
               end
    end.

  (* any sequence of Adopt calls; result: adopted txs and receipts in order, final state, gas used *)
  Fixpoint adopt_all (cfg : config) (feats : N) (ctx : bctx) (txs : list txn) (st : State) (proc : list (N * bool)) (used : N)
    : list txn * list receipt * State * N :=
    match txs with
    | [] => ([], [], st, used)
    | t :: rest =>
      match adopt_one cfg feats ctx st proc used t with
      | Adopted st' r =>
        let '(ts, rs, stf, u) := adopt_all cfg feats ctx rest st' ((t_id t, r_reverted r) :: proc) (used + r_gas r) in
        (t :: ts, r :: rs, stf, u)
      | Skipped _ => adopt_all cfg feats ctx rest st proc used
      end
    end.

  (* what the crypto library will report for the header the packer signs (inputs) *)
  Record sig_report := mkSR { sr_len : N; sr_signer : option N; sr_beta : option bytes; sr_rr_fix : option N }.

  (* Flow.Pack; None = Pack returns an error *)
  Definition pack (cfg : config) (pos : bool) (parent : header) (ctx : bctx) (feats : N)
             (ts : list txn) (rs : list receipt) (st : State) (used : N) (vote : bool) (sr : sig_report)
    : option (block * State * list receipt) :=
    let num := x_number ctx in
    match (if pos then rewards ctx st else Some st) with
    | None => None
    | Some st2 =>
      match (if num <? c_vip214 cfg then Some (0, 0) else expected_alpha parent) with
      | None => None
      | Some alpha =>
        Some (mkB (mkH num (x_time ctx) (x_gas_limit ctx) (x_beneficiary ctx) used (x_total_score ctx)
                       (root_of_txs ts) feats (root_of_state st2) (root_of_receipts rs)
                       alpha ((c_finality cfg <=? num) && vote) (x_base_fee ctx)
                       (sr_len sr) (sr_signer sr) (sr_beta sr))
                  ts (sr_rr_fix sr), st2, rs)
      end
    end.

  (* Packer.Schedule + Adopt* + Pack *)
  Definition pack_block (cfg : config) (pv : pview) (parent : header) (po : packer_opts) (now : N) (st0 : State)
             (txs : list txn) (vote : bool) (sr : sig_report) : option (block * State * list receipt) :=
    match schedule_ctx cfg pv parent po now with
    | None => None
    | Some (ctx, ups) =>
      let st1 := apply_updates (pv_pos pv) (x_number ctx) st0 ups in
      let feats := features_at cfg (x_number ctx) in
      let '(ts, rs, stf, used) := adopt_all cfg feats ctx txs st1 [] 0 in
      pack cfg (pv_pos pv) parent ctx feats ts rs stf used vote sr
    end.

  (* ------------------------------------------------------------ node import (executeAndCommitBlock -> commitBlock) *)
  (* the repository as far as a block import can change it: stored blocks with receipts and conflict numbers,
     committed states, best pointer.  The writes are listed in the order cmd/thor/node/block_exec.go issues them:
     executeAndCommitBlock returns before any write on errKnownBlock / errParentMissing / errBFTRejected and on an error
     of cons.Process; commitBlock then does stage.Commit, repo.AddBlock (block + receipts + best pointer), bft.CommitBlock
     (Crash/Model.v — C13 — refines these three into key-value batches for ACCEPTED blocks). *)
  Record repo := mkRepo { rp_blocks : list (block * list receipt * N); rp_states : list State; rp_best : option block }.

  Inductive write := WState (st : State) | WBlock (b : block) (rcs : list receipt) (conflicts : N) (best : bool).

  Definition import_writes (known parent_stored bft_accepts : bool) (o : outcome) (b : block) (conflicts : N) (best : bool)
    : list write :=
    if known then [] else if negb parent_stored then [] else if negb bft_accepts then []
    else match o with
         | Accepted st rcs => [WState st; WBlock b rcs conflicts best]
         | Rejected _ => []
         end.

  Definition apply_write (rp : repo) (w : write) : repo :=
    match w with
    | WState st => mkRepo (rp_blocks rp) (st :: rp_states rp) (rp_best rp)
    | WBlock b rcs c best => mkRepo ((b, rcs, c) :: rp_blocks rp) (rp_states rp) (if best then Some b else rp_best rp)
    end.

  Definition import (cfg : config) (pv : pview) (parent : header) (st0 : State) (rp : repo) (b : block) (now conflicts : N)
             (known parent_stored bft_accepts become_best : bool) : repo * outcome :=
    let o := process cfg pv parent st0 b now in
    (fold_left apply_write (import_writes known parent_stored bft_accepts o b conflicts become_best) rp, o).
End Exec.
