(* Validation/Cache.v — executable model (definitions only) of the validators' candidate cache:
     scheduler/candidates.go   Candidates (NewCandidates, Copy, Pick, Update, IsEndorsor, InvalidateCache)
     builtin/authority         Candidates(checker, limit) — the packer's read — and AllCandidates — the validator's read
     consensus/poa_validator.go  validateAuthorityProposer's use of validatorsCache, poaCacher.Handle
     consensus/pos_validator.go  validateStakingProposer's use of validatorsCache, posCacher / noOpCacher.Handle
     consensus/validator.go      validate: Remove(parent) when staker.SyncPOS reports updates, Add(header.ID(), entry)
   Blocks are abstract identifiers; what a FRESH read of the state after a block gives (all authority candidates, the
   endorsement balance check, max block proposers, the leader group) are functions of the block (Section variables
   in the proofs).  A block's receipts are summarised by the events the cachers look at. *)
From Coq Require Import List NArith Bool.
From Verif Require Import Common.Util Sched.Model Header.Rules.
Import ListNotations.
Open Scope N_scope.

(* authority.Candidate as far as scheduling reads it *)
Record acand := mkAC { ac_master : N; ac_endorsor : N; ac_active : bool }.

(* ---------------------------------------------------------------- the two reads of the authority list *)

(* authority.Candidates(checker, limit): walk the linked list, keep entries passing the check, stop at `limit` kept *)
Fixpoint cands_walk (funded : N -> N -> bool) (limit : N) (l : list acand) (have : N) : list acand :=
  match l with
  | [] => []
  | c :: t =>
    if have <? limit then
      if funded (ac_master c) (ac_endorsor c) then c :: cands_walk funded limit t (have + 1)
      else cands_walk funded limit t have
    else []
  end.

(* Candidates.Pick's loop: for i := 0; i < len(list) && len(satisfied) < max; i++ { if hasBalance { append i } } *)
Fixpoint pick_idx (funded : N -> N -> bool) (limit : N) (l : list acand) (i : nat) (have : N) : list nat :=
  match l with
  | [] => []
  | c :: t =>
    if have <? limit then
      if funded (ac_master c) (ac_endorsor c) then i :: pick_idx funded limit t (S i) (have + 1)
      else pick_idx funded limit t (S i) have
    else []
  end.

Fixpoint select (l : list acand) (idx : list nat) : list acand :=
  match idx with
  | [] => []
  | i :: t => match nth_error l i with Some c => c :: select l t | None => select l t end
  end.

(* scheduler.Candidates: the full list + the memoised result of Pick ([] = not computed) *)
Record centry := mkCE { ce_list : list acand; ce_sat : list nat }.

Definition new_candidates (l : list acand) : centry := mkCE l [].

Definition is_nil {A} (l : list A) : bool := match l with [] => true | _ => false end.

(* Pick(state, checkBalance): memoised; returns the entry (with `satisfied` set) and the proposers *)
Definition pick (e : centry) (funded : N -> N -> bool) (limit : N) : centry * list acand :=
  let sat := if is_nil (ce_sat e) then pick_idx funded limit (ce_list e) 0 0 else ce_sat e in
  (mkCE (ce_list e) sat, select (ce_list e) sat).

(* Update(addr, active): the entry whose master is addr (masters are unique) gets the flag; false if not a master *)
Definition update_entry (e : centry) (u : N * bool) : centry :=
  mkCE (map (fun c => if ac_master c =? fst u then mkAC (ac_master c) (ac_endorsor c) (snd u) else c) (ce_list e)) (ce_sat e).

Definition apply_updates_list (l : list acand) (ups : list (N * bool)) : list acand :=
  ce_list (fold_left update_entry ups (mkCE l [])).

(* authority.Update on the STATE begins with `if !entry.IsLinked() { return false, nil }`, IsLinked = Prev != nil || Next != nil:
   the ONLY listed node has neither (Authority.Get special-cases "it's the only node", Update does not), so its Active flag
   is not written, while Candidates.Update above does change the cached copy.  With two or more listed nodes both agree. *)
Definition state_apply_updates (l : list acand) (ups : list (N * bool)) : list acand :=
  match l with [_] => l | _ => apply_updates_list l ups end.

Definition is_endorsor (e : centry) (a : N) : bool := existsb (fun c => ac_endorsor c =? a) (ce_list e).
Definition invalidate (e : centry) : centry := mkCE (ce_list e) [].

(* what the cachers look at in a block's receipts *)
Record events := mkEv {
  ev_authority : bool;         (* an event emitted by builtin.Authority *)
  ev_params : bool;            (* an event emitted by builtin.Params *)
  ev_staker : bool;            (* an event emitted by builtin.Staker *)
  ev_beneficiary_set : bool;   (* a Staker event whose first topic is BeneficiarySet *)
  ev_parties : list N }.       (* senders and recipients of all VET transfers *)

(* poaCacher.Handle; hayabusa = header.Number() >= forkConfig.HAYABUSA.  None = no cache entry for this block *)
Definition poa_handle (hayabusa : bool) (ev : events) (e : centry) : option centry :=
  if ev_authority ev then None
  else if (hayabusa && ev_staker ev) || ev_params ev || existsb (is_endorsor e) (ev_parties ev)
       then Some (invalidate e)
       else Some e.

Section Warm.
  Variable Blk : Type.
  Variable blk_eqb : Blk -> Blk -> bool.
  Variable R : Type.                             (* what a judgement returns besides what the cachers consume (the verdict) *)

  (* ------------------------------------------------------------ PoA *)
  Definition pcache := list (Blk * centry).      (* most recent first; the LRU bound only drops entries *)
  Fixpoint pget (c : pcache) (b : Blk) : option centry :=
    match c with [] => None | (k, e) :: t => if blk_eqb k b then Some e else pget t b end.

  (* fresh reads of the state after block p, for a child with number num(p)+1 *)
  Variable all_of : Blk -> list acand.           (* authority.AllCandidates *)
  Variable funded_of : Blk -> N -> N -> bool.    (* staker.TransitionPeriodBalanceCheck(fc, child number, endorsement) *)
  Variable mbp_of : Blk -> N.                    (* thor.GetMaxBlockProposers(params, true) *)
  Variable hayabusa_of : Blk -> bool.            (* the block's number >= HAYABUSA *)

  (* everything else validation does, given the proposer list: the verdict, and for an accepted block (Some) the
     scheduler's updates and the events of the block's receipts *)
  Variable judge : list acand -> Blk -> Blk -> R * option (list (N * bool) * events).

  (* validateAuthorityProposer + validate's cache handling, for block b on parent p *)
  Definition poa_proposers (c : pcache) (p : Blk) : centry * list acand :=
    let e0 := match pget c p with Some e => e | None => new_candidates (all_of p) end in
    pick e0 (funded_of p) (mbp_of p).

  Definition poa_step (c : pcache) (p b : Blk) : pcache * R :=
    let '(e1, props) := poa_proposers c p in
    match judge props p b with
    | (r, None) => (c, r)
    | (r, Some (ups, ev)) =>
      let e2 := fold_left update_entry ups e1 in
      (match poa_handle (hayabusa_of b) ev e2 with Some e => (b, e) :: c | None => c end, r)
    end.

  (* the cold validator / the packer: authority.Candidates on the state *)
  Definition poa_fresh (p : Blk) : list acand := cands_walk (funded_of p) (mbp_of p) (all_of p) 0.

  Fixpoint poa_run (c : pcache) (steps : list (Blk * Blk)) : list R :=
    match steps with
    | [] => []
    | (p, b) :: t => let '(c', r) := poa_step c p b in r :: poa_run c' t
    end.

  (* the LRU bound (16 entries): between two validations the cache may lose arbitrary entries *)
  Fixpoint poa_run_lossy (c : pcache) (steps : list ((pcache -> pcache) * (Blk * Blk))) : list R :=
    match steps with
    | [] => []
    | (evict, (p, b)) :: t => let '(c', r) := poa_step (evict c) p b in r :: poa_run_lossy c' t
    end.

  (* ------------------------------------------------------------ PoS *)
  Definition scache := list (Blk * list cand).
  Fixpoint sget (c : scache) (b : Blk) : option (list cand) :=
    match c with [] => None | (k, e) :: t => if blk_eqb k b then Some e else sget t b end.
  Fixpoint sremove (c : scache) (b : Blk) : scache :=
    match c with [] => [] | (k, e) :: t => if blk_eqb k b then sremove t b else (k, e) :: sremove t b end.

  Variable hk_of : Blk -> bool.                  (* staker.SyncPOS(child number) on the state after p reports Updates *)
  Variable leaders_of : Blk -> list cand.        (* staker.LeaderGroup() after that SyncPOS *)
  Variable sjudge : list cand -> Blk -> Blk -> R * option (list (N * bool) * events).

  Definition pos_leaders (c : scache) (p : Blk) : list cand :=
    let c1 := if hk_of p then sremove c p else c in
    match sget c1 p with
    | Some l => if is_nil l then leaders_of p else l
    | None => leaders_of p
    end.

  Definition pos_step (c : scache) (p b : Blk) : scache * R :=
    let c1 := if hk_of p then sremove c p else c in
    let ls := pos_leaders c p in
    match sjudge ls p b with
    | (r, None) => (c1, r)
    | (r, Some (ups, ev)) =>
      (* noOpCacher when the scheduler produced updates; posCacher skips the entry on a BeneficiarySet event *)
      ((if is_nil ups && negb (ev_beneficiary_set ev) then (b, ls) :: c1 else c1), r)
    end.

  Fixpoint pos_run (c : scache) (steps : list (Blk * Blk)) : list R :=
    match steps with
    | [] => []
    | (p, b) :: t => let '(c', r) := pos_step c p b in r :: pos_run c' t
    end.
  Fixpoint pos_run_lossy (c : scache) (steps : list ((scache -> scache) * (Blk * Blk))) : list R :=
    match steps with
    | [] => []
    | (evict, (p, b)) :: t => let '(c', r) := pos_step (evict c) p b in r :: pos_run_lossy c' t
    end.
End Warm.
