(* Validation/Catalogue.v — the protocol's block rules as an independent DECLARATIVE catalogue (definitions only):
   one Prop per rule, written from the protocol description (relations over numbers, no reference to the order or
   shape of the checks in consensus/validator.go).  Validation/ProofsRules.v proves that the validator model accepts
   exactly the blocks for which every rule holds. *)
From Coq Require Import List NArith ZArith Bool.
From Verif Require Import Common.Util Sched.Model Header.Rules Validation.Body BaseFee.Model.
Import ListNotations.
Open Scope N_scope.

Definition gas_limit_floor : N := 1000000.     (* thor.MinGasLimit *)
Definition gas_limit_bound_divisor : N := 1024. (* thor.GasLimitBoundDivisor *)

Section Catalogue.
  Variable State : Type.
  Variable exec : bctx -> State -> txn -> option (State * receipt).
  Variable apply_updates : bool -> N -> State -> list (N * bool) -> State.
  Variable rewards : bctx -> State -> option State.
  Variable sanity : State -> bool.
  Variable root_of_state : State -> N.
  Variable root_of_receipts : list receipt -> N.
  Variable root_of_txs : list txn -> N.
  Variable has_tx : N -> N -> bool.
  Variable find_meta : N -> option bool.

  (* the judgement a rule speaks about *)
  Variable cfg : config.
  Variable pv : pview.
  Variable parent : header.
  Variable st0 : State.
  Variable b : block.
  Variable now : N.

  Let h := b_header b.
  Let txs := b_txs b.
  Let num := h_number parent + 1.
  Let T := c_interval cfg.
  Let kind := kind_of cfg pv num.

  (* plain sequential execution of the block's transactions in the block's own context *)
  Fixpoint run (ctx : bctx) (st : State) (l : list txn) : option (State * list receipt) :=
    match l with
    | [] => Some (st, [])
    | t :: rest =>
      match exec ctx st t with
      | None => None
      | Some (st', r) => match run ctx st' rest with None => None | Some (stf, rs) => Some (stf, r :: rs) end
      end
    end.

  Definition total_gas (rs : list receipt) : N := sumN (map r_gas rs).

  (* the proposer as the protocol sees it: the listed member that signed *)
  Definition the_proposer (mep : proposer) : Prop :=
    exists s, h_signer h = Some s /\ find_me s (props (pv_cands pv)) = Some mep.

  Definition updates_and_score (mep : proposer) : list (N * bool) * N :=
    sched_updates kind (pv_hash pv) (h_time parent) T (pv_cands pv) mep (pv_total pv) (h_time h).

  (* the state transactions start from: activity updates of the missed slots applied to the parent state *)
  Definition start_state (mep : proposer) : State := apply_updates (pv_pos pv) num st0 (fst (updates_and_score mep)).

  Definition the_run (stf : State) (rs : list receipt) : Prop :=
    exists mep, the_proposer mep /\ run (ctx_of_header parent h) (start_state mep) txs = Some (stf, rs).

  (* dependency rule, transaction by transaction: `earlier` = ids (with reverted flag) of the block's previous txs *)
  Definition dep_rule (earlier : list (N * bool)) (t : txn) : Prop :=
    match t_dep t with
    | None => True
    | Some d => lookup d earlier = Some false \/ (lookup d earlier = None /\ find_meta d = Some false)
    end.
  Fixpoint deps_ok (earlier : list (N * bool)) (l : list txn) (rs : list receipt) : Prop :=
    match l, rs with
    | t :: l', r :: rs' => dep_rule earlier t /\ deps_ok ((t_id t, r_reverted r) :: earlier) l' rs'
    | _, _ => True
    end.

  Definition rule_holds (i : N) : Prop :=
    match i with
    (* ---- header follows from its parent *)
    | 1 => h_time parent < h_time h
    | 2 => (h_time h - h_time parent) mod T = 0
    | 3 => h_time h <= now + T                                   (* not from the future (beyond one interval of tolerance) *)
    | 4 => h_gas_used h <= h_gas_limit h
    | 5 => h_total_score parent < h_total_score h
    | 6 => gas_limit_floor <= h_gas_limit h /\
           h_gas_limit h <= h_gas_limit parent + h_gas_limit parent / gas_limit_bound_divisor /\
           h_gas_limit parent <= h_gas_limit h + h_gas_limit parent / gas_limit_bound_divisor
    | 7 => num < c_vip214 cfg -> fst (h_alpha h) = 0 /\ h_sig_len h = 65
    | 8 => c_vip214 cfg <= num ->
           h_sig_len h = 146 /\
           (exists pb, h_beta parent = Some pb /\
                       h_alpha h = (if fst pb =? 0 then (32, h_state_root parent) else pb)) /\
           h_beta h <> None                                        (* the VRF proof verifies *)
    | 9 => num < c_finality cfg -> h_com h = false
    | 10 => num < c_galactica cfg -> h_base_fee h = None
    | 11 => c_galactica cfg <= num ->
            exists bf, h_base_fee h = Some bf /\ base_fee_nil_deref cfg parent = false /\
                       expected_base_fee cfg parent = BfFee (Z.of_N bf)
    | 12 => h_features h = (if c_vip191 cfg <=? num then 1 else 0)
    (* ---- proposer: authorised, its turn, score, beneficiary *)
    | 20 => exists mep, the_proposer mep
    | 21 => forall mep, the_proposer mep ->                         (* the signer owns the slot of the block's time (C05) *)
            slot_owner kind (pv_hash pv) (h_time parent) T (pv_cands pv) (p_addr mep) (h_time h) = Some (p_addr mep)
    | 22 => forall mep, the_proposer mep ->
            h_total_score h = wrap64 (h_total_score parent + snd (updates_and_score mep))
    | 23 => pv_pos pv = true -> forall s bnf, h_signer h = Some s -> leader_beneficiary s (pv_cands pv) = Some bnf ->
            h_beneficiary h = bnf
    (* ---- every transaction admissible at this height *)
    | 30 => h_txs_root h = root_of_txs txs
    | 31 => Forall (fun t => t_origin_ok t = true /\ t_delegator_ok t = true) txs
    | 32 => c_blocklist cfg <= num -> Forall (fun t => t_origin_blocked t = false /\ t_delegator_blocked t = false) txs
    | 33 => Forall (fun t => t_chain_tag t = c_chain_tag cfg) txs
    | 34 => Forall (fun t => t_ref t <= num) txs
    | 35 => Forall (fun t => num <= t_ref t + t_exp t) txs
    | 36 => num < c_galactica cfg -> Forall (fun t => t_type t = 0) txs
    | 37 => Forall (fun t => N.land (t_features t) (h_features h) = t_features t /\ t_unused t = false) txs
    (* ---- re-execution *)
    | 40 => NoDup (map t_id txs) /\ Forall (fun t => has_tx (t_id t) (t_ref t) = false) txs
    | 41 => forall mep, the_proposer mep ->                         (* every transaction executes *)
            exists stf rs, run (ctx_of_header parent h) (start_state mep) txs = Some (stf, rs)
    | 42 => forall stf rs, the_run stf rs -> deps_ok [] txs rs
    | 43 => forall stf rs, the_run stf rs -> h_gas_used h = total_gas rs
    | 44 => forall stf rs, the_run stf rs ->
            h_receipts_root h = root_of_receipts rs \/ b_rr_fix b = Some (root_of_receipts rs)  (* the correction table *)
    | 45 => pv_pos pv = true -> forall stf rs, the_run stf rs -> sanity stf = true
    | 46 => pv_pos pv = true -> forall stf rs, the_run stf rs -> rewards (ctx_of_header parent h) stf <> None
    | 47 => forall stf rs, the_run stf rs ->
            h_state_root h = root_of_state (if pv_pos pv then
                                              match rewards (ctx_of_header parent h) stf with Some s => s | None => stf end
                                            else stf)
    | _ => True
    end.

  Definition all_rules : Prop := forall i, rule_holds i.

  (* rules whose breach the code reports with a class other than consensus-critical *)
  Definition non_critical_rule (i : N) : bool := (i =? 3) || (i =? 41) || (i =? 46).
End Catalogue.
