(* Validation/ProofsCache.v — the candidate cache never changes a verdict: the cachers maintain "the entry for a block is
   what a fresh read of the state after that block gives", so a warm validator judges every block exactly as a cold one
   (and reads the proposer list the packer reads: authority.Candidates = AllCandidates + Pick). *)
From Coq Require Import List NArith Arith Bool Lia.
From Verif Require Import Common.Util Sched.Model Header.Rules Validation.Cache.
Import ListNotations.
Open Scope N_scope.

Definition ckey (c : acand) : N * N := (ac_master c, ac_endorsor c).

(* ---------------------------------------------------------------- the two reads agree *)
Lemma select_pick_idx funded limit l : forall pre have,
  select (pre ++ l) (pick_idx funded limit l (length pre) have) = cands_walk funded limit l have.
Proof.
  induction l as [|c t IH]; intros pre have; cbn [pick_idx cands_walk]; [reflexivity|].
  destruct (have <? limit); [|reflexivity].
  assert (E : pre ++ c :: t = (pre ++ [c]) ++ t) by (rewrite <- app_assoc; reflexivity).
  assert (L : length (pre ++ [c]) = S (length pre)) by (rewrite app_length; cbn; lia).
  destruct (funded (ac_master c) (ac_endorsor c)).
  - cbn [select]. rewrite nth_error_app2 by lia. rewrite Nat.sub_diag. cbn [nth_error].
    f_equal. rewrite E, <- L. apply IH.
  - rewrite E, <- L. apply IH.
Qed.

(* authority.Candidates(check, max) = proposers of NewCandidates(AllCandidates).Pick(check) *)
Theorem candidates_eq_all_pick funded limit l :
  snd (pick (new_candidates l) funded limit) = cands_walk funded limit l 0.
Proof. unfold pick, new_candidates. cbn [ce_sat ce_list is_nil snd]. apply (select_pick_idx funded limit l [] 0). Qed.

Lemma pick_idx_ext f g limit l l' : map ckey l = map ckey l' ->
  (forall c, In c l -> f (ac_master c) (ac_endorsor c) = g (ac_master c) (ac_endorsor c)) ->
  forall i have, pick_idx f limit l i have = pick_idx g limit l' i have.
Proof.
  revert l'. induction l as [|c t IH]; intros [|c' t'] Hk Hf i have; try discriminate; [reflexivity|].
  cbn [pick_idx]. cbn [map] in Hk. unfold ckey at 1 2 in Hk. injection Hk as K1 K2 K3.
  pose proof (Hf c (or_introl eq_refl)) as Hc. rewrite <- K1, <- K2. rewrite <- Hc.
  assert (Hf' : forall x, In x t -> f (ac_master x) (ac_endorsor x) = g (ac_master x) (ac_endorsor x)) by (intros; apply Hf; right; auto).
  destruct (have <? limit); [|reflexivity].
  destruct (f (ac_master c) (ac_endorsor c)); [f_equal|]; apply IH; auto.
Qed.

Lemma update_keys e u : map ckey (ce_list (update_entry e u)) = map ckey (ce_list e).
Proof.
  unfold update_entry. cbn [ce_list]. rewrite map_map. apply map_ext. intros c.
  destruct (ac_master c =? fst u); reflexivity.
Qed.

Lemma fold_update_sat ups : forall e, ce_sat (fold_left update_entry ups e) = ce_sat e.
Proof. induction ups as [|u t IH]; intros e; cbn [fold_left]; [reflexivity|]. rewrite IH. reflexivity. Qed.

Lemma fold_update_keys ups : forall e, map ckey (ce_list (fold_left update_entry ups e)) = map ckey (ce_list e).
Proof. induction ups as [|u t IH]; intros e; cbn [fold_left]; [reflexivity|]. rewrite IH. apply update_keys. Qed.

Lemma fold_update_list_indep ups : forall e e', ce_list e = ce_list e' ->
  ce_list (fold_left update_entry ups e) = ce_list (fold_left update_entry ups e').
Proof.
  induction ups as [|u t IH]; intros e e' H; cbn [fold_left]; [exact H|].
  apply IH. unfold update_entry. cbn [ce_list]. rewrite H. reflexivity.
Qed.

Lemma fold_update_list ups l s : ce_list (fold_left update_entry ups (mkCE l s)) = apply_updates_list l ups.
Proof. unfold apply_updates_list. apply fold_update_list_indep. reflexivity. Qed.

Lemma existsb_endorsor_keys l l' a : map ckey l = map ckey l' ->
  existsb (fun c => ac_endorsor c =? a) l = existsb (fun c => ac_endorsor c =? a) l'.
Proof.
  revert l'. induction l as [|c t IH]; intros [|c' t'] H; try discriminate; [reflexivity|].
  cbn [map] in H. inversion H as [[K1 K2 K3]]. cbn [existsb]. rewrite K2. f_equal. apply IH. exact K3.
Qed.

(* where the first stated hypothesis of the PoA theorem holds on the code as it is: two or more listed nodes *)
Lemma state_updates_agree l ups : length l <> 1%nat -> state_apply_updates l ups = apply_updates_list l ups.
Proof. destruct l as [|a [|b t]]; cbn [length state_apply_updates]; intros H; try reflexivity. contradiction. Qed.

(* ... and where it does not: the sole listed node (observed on the implementation by the harness: the cached flag differs
   from the state's; verdicts still agree there because the node is eligible as the signer either way) *)
Lemma sole_node_cache_flag_diverges :
  exists l ups, state_apply_updates l ups <> apply_updates_list l ups.
Proof. exists [mkAC 7 8 false], [(7, true)]. vm_compute. discriminate. Qed.

Section CacheProofs.
  Variable Blk : Type.
  Variable blk_eqb : Blk -> Blk -> bool.
  Hypothesis blk_eqb_spec : forall a b, blk_eqb a b = true <-> a = b.
  Variable R : Type.

  Variable child : Blk -> Blk -> Prop.           (* b is a block whose parent is p *)

  (* ================================================================ PoA *)
  Variable all_of : Blk -> list acand.
  Variable funded_of : Blk -> N -> N -> bool.
  Variable mbp_of : Blk -> N.
  Variable hayabusa_of : Blk -> bool.
  Variable judge : list acand -> Blk -> Blk -> R * option (list (N * bool) * events).

  Notation poa_fresh := (poa_fresh Blk all_of funded_of mbp_of).
  Notation poa_step := (poa_step Blk blk_eqb R all_of funded_of mbp_of hayabusa_of judge).
  Notation poa_run := (poa_run Blk blk_eqb R all_of funded_of mbp_of hayabusa_of judge).
  Notation poa_proposers := (poa_proposers Blk blk_eqb all_of funded_of mbp_of).
  Notation pget := (pget Blk blk_eqb).

  (* THE STATED HYPOTHESES: the candidate list and the endorsement selection change only through what the cacher
     watches.  For an accepted child b of p (judged on the fresh proposer list) with scheduler updates ups and events ev:
     - without an Authority event, the list after b is the list after p with the activity updates applied
       (true of the code for two or more listed nodes: state_updates_agree; NOT for a sole listed node, whose flag
       authority.Update does not write: sole_node_cache_flag_diverges — the theorem does not cover that corner);
     - without a Params event, a Staker event (from HAYABUSA on) and a VET transfer from/to an endorsor of the list,
       the balance check of every listed pair and the proposer limit are the same after b as after p
       (this includes: the check for height n+2 on b's state equals the check for height n+1 on p's state). *)
  Hypothesis list_changes_only_by_authority_events : forall p b ups ev,
    child p b -> snd (judge (poa_fresh p) p b) = Some (ups, ev) -> ev_authority ev = false ->
    all_of b = apply_updates_list (all_of p) ups.
  Hypothesis selection_changes_only_by_watched_events : forall p b ups ev,
    child p b -> snd (judge (poa_fresh p) p b) = Some (ups, ev) ->
    (hayabusa_of b && ev_staker ev) = false -> ev_params ev = false ->
    (forall a, In a (ev_parties ev) -> existsb (fun c => ac_endorsor c =? a) (all_of p) = false) ->
    (forall c, In c (all_of p) -> funded_of b (ac_master c) (ac_endorsor c) = funded_of p (ac_master c) (ac_endorsor c)) /\
    mbp_of b = mbp_of p.

  Definition entry_ok (e : centry) (b : Blk) : Prop :=
    ce_list e = all_of b /\
    (ce_sat e = [] \/ ce_sat e = pick_idx (funded_of b) (mbp_of b) (all_of b) 0 0).

  Definition pcache_ok (c : pcache Blk) : Prop := forall b e, pget c b = Some e -> entry_ok e b.

  Lemma pick_ok e p : entry_ok e p ->
    pick e (funded_of p) (mbp_of p) =
    (mkCE (all_of p) (pick_idx (funded_of p) (mbp_of p) (all_of p) 0 0), poa_fresh p).
  Proof.
    intros [Hl Hs]. unfold pick, Cache.poa_fresh. rewrite Hl.
    assert (S : (if is_nil (ce_sat e) then pick_idx (funded_of p) (mbp_of p) (all_of p) 0 0 else ce_sat e) =
                pick_idx (funded_of p) (mbp_of p) (all_of p) 0 0).
    { destruct Hs as [-> | ->]; [reflexivity|]. destruct (pick_idx _ _ _ _ _); reflexivity. }
    rewrite S. f_equal. apply (select_pick_idx (funded_of p) (mbp_of p) (all_of p) [] 0).
  Qed.

  Lemma poa_proposers_fresh c p : pcache_ok c ->
    poa_proposers c p = (mkCE (all_of p) (pick_idx (funded_of p) (mbp_of p) (all_of p) 0 0), poa_fresh p).
  Proof.
    intros Hc. unfold Cache.poa_proposers. destruct (pget c p) as [e|] eqn:E.
    - apply pick_ok. apply Hc. exact E.
    - apply pick_ok. split; [reflexivity | left; reflexivity].
  Qed.

  (* cache_invariant_maintained (PoA) + the warm verdict is the cold verdict *)
  Theorem poa_step_ok c p b : pcache_ok c -> child p b ->
    pcache_ok (fst (poa_step c p b)) /\ snd (poa_step c p b) = fst (judge (poa_fresh p) p b).
  Proof.
    intros Hc Hch. unfold Cache.poa_step. rewrite (poa_proposers_fresh c p Hc).
    destruct (judge (poa_fresh p) p b) as [r [[ups ev]|]] eqn:Ej'; [|split; [exact Hc | reflexivity]].
    assert (Ej : snd (judge (poa_fresh p) p b) = Some (ups, ev)) by (rewrite Ej'; reflexivity).
    split; [|reflexivity].
    set (e1 := mkCE (all_of p) (pick_idx (funded_of p) (mbp_of p) (all_of p) 0 0)).
    set (e2 := fold_left update_entry ups e1).
    assert (L2 : ce_list e2 = apply_updates_list (all_of p) ups) by (unfold e2, e1; apply fold_update_list).
    assert (S2 : ce_sat e2 = pick_idx (funded_of p) (mbp_of p) (all_of p) 0 0) by (unfold e2; rewrite fold_update_sat; reflexivity).
    assert (K2 : map ckey (ce_list e2) = map ckey (all_of p)) by (unfold e2; rewrite fold_update_keys; reflexivity).
    unfold poa_handle. destruct (ev_authority ev) eqn:Ea; [exact Hc|].
    pose proof (list_changes_only_by_authority_events p b ups ev Hch Ej Ea) as HA.
    assert (Hnew : forall e, entry_ok e b -> pcache_ok ((b, e) :: c)).
    { intros e He b' e'. cbn [Cache.pget]. destruct (blk_eqb b b') eqn:Eb.
      - apply blk_eqb_spec in Eb. subst b'. intros X. inversion X; subst. exact He.
      - apply Hc. }
    destruct ((hayabusa_of b && ev_staker ev) || ev_params ev || existsb (is_endorsor e2) (ev_parties ev)) eqn:Ew; cbn [fst].
    - apply Hnew. split; [cbn [invalidate ce_list]; rewrite L2, HA; reflexivity | left; reflexivity].
    - apply orb_false_iff in Ew. destruct Ew as [Ew E3]. apply orb_false_iff in Ew. destruct Ew as [E1 E2].
      assert (Hpar : forall a, In a (ev_parties ev) -> existsb (fun c => ac_endorsor c =? a) (all_of p) = false).
      { intros a Ha. rewrite <- (existsb_endorsor_keys (ce_list e2) (all_of p) a K2).
        destruct (existsb (fun c => ac_endorsor c =? a) (ce_list e2)) eqn:X; [|reflexivity].
        assert (Y : existsb (is_endorsor e2) (ev_parties ev) = true) by (apply existsb_exists; exists a; split; [exact Ha | exact X]).
        congruence. }
      destruct (selection_changes_only_by_watched_events p b ups ev Hch Ej E1 E2 Hpar) as [HF HM].
      apply Hnew. split; [rewrite L2, HA; reflexivity|]. right. rewrite S2, HM.
      apply pick_idx_ext.
      + rewrite HA, <- L2. symmetry. exact K2.
      + intros x Hx. symmetry. apply HF. exact Hx.
  Qed.

  Theorem poa_run_is_cold steps : forall c, pcache_ok c -> Forall (fun pb => child (fst pb) (snd pb)) steps ->
    poa_run c steps = map (fun pb => fst (judge (poa_fresh (fst pb)) (fst pb) (snd pb))) steps.
  Proof.
    induction steps as [|[p b] t IH]; intros c Hc Hs; [reflexivity|].
    inversion Hs as [|? ? Hpb Ht]; subst. cbn [fst snd] in Hpb.
    destruct (poa_step_ok c p b Hc Hpb) as [Hc' Hr].
    cbn [Cache.poa_run map fst snd]. destruct (poa_step c p b) as [c' r]. cbn [fst snd] in *. subst r.
    f_equal. apply IH; assumption.
  Qed.

  (* with an LRU that may drop any entries between validations *)
  Definition only_loses_p (evict : pcache Blk -> pcache Blk) : Prop :=
    forall c b e, pget (evict c) b = Some e -> pget c b = Some e.

  Theorem poa_run_lossy_is_cold steps : forall c, pcache_ok c ->
    Forall (fun s => only_loses_p (fst s) /\ child (fst (snd s)) (snd (snd s))) steps ->
    poa_run_lossy Blk blk_eqb R all_of funded_of mbp_of hayabusa_of judge c steps =
    map (fun s => fst (judge (poa_fresh (fst (snd s))) (fst (snd s)) (snd (snd s)))) steps.
  Proof.
    induction steps as [|[ev [p b]] t IH]; intros c Hc Hs; [reflexivity|].
    inversion Hs as [|? ? [Hev Hpb] Ht]; subst. cbn [fst snd] in Hev, Hpb.
    assert (Hc0 : pcache_ok (ev c)) by (intros x e X; apply Hc; apply Hev; exact X).
    destruct (poa_step_ok (ev c) p b Hc0 Hpb) as [Hc' Hr].
    cbn [Cache.poa_run_lossy map fst snd]. destruct (poa_step (ev c) p b) as [c' r]. cbn [fst snd] in *. subst r.
    f_equal. apply IH; assumption.
  Qed.

  (* ================================================================ PoS *)
  Variable hk_of : Blk -> bool.
  Variable leaders_of : Blk -> list cand.
  Variable leaders_pre : Blk -> list cand.        (* staker.LeaderGroup() on the state after the block, before the child's SyncPOS *)
  Variable sjudge : list cand -> Blk -> Blk -> R * option (list (N * bool) * events).

  Notation pos_step := (pos_step Blk blk_eqb R hk_of leaders_of sjudge).
  Notation pos_run := (pos_run Blk blk_eqb R hk_of leaders_of sjudge).
  Notation pos_leaders := (pos_leaders Blk blk_eqb hk_of leaders_of).
  Notation sget := (sget Blk blk_eqb).
  Notation sremove := (sremove Blk blk_eqb).

  (* THE STATED HYPOTHESES: the leader group (members, weights, online flags, beneficiaries) changes only through
     housekeeping at the child's SyncPOS (reported as Updates), the scheduler's online/offline updates, and
     setBeneficiary (which emits BeneficiarySet) *)
  Hypothesis housekeeping_reports_changes : forall p, hk_of p = false -> leaders_of p = leaders_pre p.
  Hypothesis leaders_change_only_by_watched_events : forall p b ev,
    child p b -> snd (sjudge (leaders_of p) p b) = Some ([], ev) -> ev_beneficiary_set ev = false ->
    leaders_pre b = leaders_of p.

  Definition scache_ok (c : scache Blk) : Prop := forall b l, sget c b = Some l -> l = leaders_pre b.

  Lemma sget_sremove c p b : sget (sremove c p) b = if blk_eqb p b then None else sget c b.
  Proof.
    induction c as [|[k e] t IH]; cbn [Cache.sremove Cache.sget]; [destruct (blk_eqb p b); reflexivity|].
    destruct (blk_eqb k p) eqn:Ekp.
    - apply blk_eqb_spec in Ekp. subst k. rewrite IH. destruct (blk_eqb p b); reflexivity.
    - cbn [Cache.sget]. rewrite IH. destruct (blk_eqb k b) eqn:Ekb; [|reflexivity].
      apply blk_eqb_spec in Ekb. subst k. destruct (blk_eqb p b) eqn:X; [|reflexivity].
      apply blk_eqb_spec in X. subst p. rewrite (proj2 (blk_eqb_spec b b) eq_refl) in Ekp. discriminate.
  Qed.

  Lemma sremove_ok c p : scache_ok c -> scache_ok (sremove c p).
  Proof. intros Hc b l. rewrite sget_sremove. destruct (blk_eqb p b); [discriminate | apply Hc]. Qed.

  Lemma pos_leaders_fresh c p : scache_ok c -> pos_leaders c p = leaders_of p.
  Proof.
    intros Hc. unfold Cache.pos_leaders. destruct (hk_of p) eqn:Eh.
    - rewrite sget_sremove. rewrite (proj2 (blk_eqb_spec p p) eq_refl). reflexivity.
    - destruct (sget c p) as [l|] eqn:E; [|reflexivity].
      apply Hc in E. subst l. rewrite <- (housekeeping_reports_changes p Eh). destruct (leaders_of p); reflexivity.
  Qed.

  Theorem pos_step_ok c p b : scache_ok c -> child p b ->
    scache_ok (fst (pos_step c p b)) /\ snd (pos_step c p b) = fst (sjudge (leaders_of p) p b).
  Proof.
    intros Hc Hch. unfold Cache.pos_step. rewrite (pos_leaders_fresh c p Hc).
    assert (Hc1 : scache_ok (if hk_of p then sremove c p else c)) by (destruct (hk_of p); [apply sremove_ok|]; exact Hc).
    destruct (sjudge (leaders_of p) p b) as [r [[ups ev]|]] eqn:Ej'; [|split; [exact Hc1 | reflexivity]].
    assert (Ej : snd (sjudge (leaders_of p) p b) = Some (ups, ev)) by (rewrite Ej'; reflexivity).
    split; [|reflexivity]. cbn [fst].
    destruct ups as [|u t]; cbn [is_nil andb]; [|exact Hc1].
    destruct (ev_beneficiary_set ev) eqn:Eb; cbn [negb]; [exact Hc1|].
    intros b' l'. cbn [Cache.sget]. destruct (blk_eqb b b') eqn:E.
    - apply blk_eqb_spec in E. subst b'. intros X. inversion X; subst.
      symmetry. apply (leaders_change_only_by_watched_events p b ev Hch Ej Eb).
    - apply Hc1.
  Qed.

  Theorem pos_run_is_cold steps : forall c, scache_ok c -> Forall (fun pb => child (fst pb) (snd pb)) steps ->
    pos_run c steps = map (fun pb => fst (sjudge (leaders_of (fst pb)) (fst pb) (snd pb))) steps.
  Proof.
    induction steps as [|[p b] t IH]; intros c Hc Hs; [reflexivity|].
    inversion Hs as [|? ? Hpb Ht]; subst. cbn [fst snd] in Hpb.
    destruct (pos_step_ok c p b Hc Hpb) as [Hc' Hr].
    cbn [Cache.pos_run map fst snd]. destruct (pos_step c p b) as [c' r]. cbn [fst snd] in *. subst r.
    f_equal. apply IH; assumption.
  Qed.
  Definition only_loses_s (evict : scache Blk -> scache Blk) : Prop :=
    forall c b l, sget (evict c) b = Some l -> sget c b = Some l.

  Theorem pos_run_lossy_is_cold steps : forall c, scache_ok c ->
    Forall (fun s => only_loses_s (fst s) /\ child (fst (snd s)) (snd (snd s))) steps ->
    pos_run_lossy Blk blk_eqb R hk_of leaders_of sjudge c steps =
    map (fun s => fst (sjudge (leaders_of (fst (snd s))) (fst (snd s)) (snd (snd s)))) steps.
  Proof.
    induction steps as [|[ev [p b]] t IH]; intros c Hc Hs; [reflexivity|].
    inversion Hs as [|? ? [Hev Hpb] Ht]; subst. cbn [fst snd] in Hev, Hpb.
    assert (Hc0 : scache_ok (ev c)) by (intros x e X; apply Hc; apply Hev; exact X).
    destruct (pos_step_ok (ev c) p b Hc0 Hpb) as [Hc' Hr].
    cbn [Cache.pos_run_lossy map fst snd]. destruct (pos_step (ev c) p b) as [c' r]. cbn [fst snd] in *. subst r.
    f_equal. apply IH; assumption.
  Qed.
End CacheProofs.
