(* Validation/ProofsRules.v — the validator model accepts exactly the blocks on which every catalogue rule holds;
   classification of rejections; rejected imports leave the repository unchanged. *)
From Coq Require Import List NArith ZArith Bool Lia.
From Coq Require Import ZifyN ZifyNat ZifyBool.
Ltac Zify.zify_post_hook ::= Z.div_mod_to_equations.
From Verif Require Import Common.Util Sched.Model Sched.Proofs Sched.ProofsUpdates BaseFee.Model BaseFee.Proofs Header.Rules Header.Proofs Validation.Body Validation.Catalogue.
Import ListNotations.
Open Scope N_scope.

Lemma find_me_addr s ps mep : find_me s ps = Some mep -> p_addr mep = s.
Proof. unfold find_me. intros H. apply find_some in H. destruct H as [_ H]. apply N.eqb_eq in H. exact H. Qed.

Lemma lookup_none_iff k m : lookup k m = None <-> ~ In k (map fst m).
Proof.
  unfold lookup. induction m as [|[a b] m IH]; cbn [find map fst In].
  - tauto.
  - destruct (N.eqb_spec a k) as [E|E].
    + split; [discriminate | intros C; exfalso; apply C; left; exact E].
    + rewrite IH. tauto.
Qed.

(* ---------------------------------------------------------------- body *)

Definition body_rules (cfg : config) (num feats : N) (txs : list txn) : Prop :=
  Forall (fun t => t_origin_ok t = true /\ t_delegator_ok t = true) txs /\
  (c_blocklist cfg <= num -> Forall (fun t => t_origin_blocked t = false /\ t_delegator_blocked t = false) txs) /\
  Forall (fun t => t_chain_tag t = c_chain_tag cfg) txs /\
  Forall (fun t => t_ref t <= num) txs /\
  Forall (fun t => num <= t_ref t + t_exp t) txs /\
  (num < c_galactica cfg -> Forall (fun t => t_type t = 0) txs) /\
  Forall (fun t => N.land (t_features t) feats = t_features t /\ t_unused t = false) txs.

Definition tx_rules (cfg : config) (num feats : N) (t : txn) : Prop :=
  (t_origin_ok t = true /\ t_delegator_ok t = true) /\
  (c_blocklist cfg <= num -> t_origin_blocked t = false /\ t_delegator_blocked t = false) /\
  t_chain_tag t = c_chain_tag cfg /\ t_ref t <= num /\ num <= t_ref t + t_exp t /\
  (num < c_galactica cfg -> t_type t = 0) /\
  (N.land (t_features t) feats = t_features t /\ t_unused t = false).

Lemma tx_body_check_iff cfg num feats t : tx_body_check cfg num feats t = None <-> tx_rules cfg num feats t.
Proof.
  unfold tx_body_check, tx_rules.
  destruct (t_origin_ok t); cbn [negb]; [|split; [discriminate | intros ((C & _) & _); discriminate]].
  destruct (N.leb_spec (c_blocklist cfg) num) as [Hb|Hb]; cbn [andb].
  - destruct (t_origin_blocked t); [split; [discriminate | intros (_ & C & _); destruct (C Hb); discriminate]|].
    destruct (t_delegator_ok t); cbn [negb]; [|split; [discriminate | intros ((_ & C) & _); discriminate]].
    destruct (t_delegator_blocked t); [split; [discriminate | intros (_ & C & _); destruct (C Hb); discriminate]|].
    destruct (N.eqb_spec (t_chain_tag t) (c_chain_tag cfg)) as [Ht|Ht]; cbn [negb];
      [|split; [discriminate | intros (_ & _ & C & _); contradiction]].
    destruct (N.ltb_spec num (t_ref t)) as [Hr|Hr]; [split; [discriminate | intros (_ & _ & _ & C & _); lia]|].
    destruct (N.ltb_spec (t_ref t + t_exp t) num) as [He|He]; [split; [discriminate | intros (_ & _ & _ & _ & C & _); lia]|].
    destruct (N.ltb_spec num (c_galactica cfg)) as [Hg|Hg]; cbn [andb].
    + destruct (N.eqb_spec (t_type t) 0) as [Hy|Hy]; cbn [negb];
        [|split; [discriminate | intros (_ & _ & _ & _ & _ & C & _); specialize (C Hg); contradiction]].
      destruct (N.eqb_spec (N.land (t_features t) feats) (t_features t)) as [Hf|Hf]; cbn [negb];
        [|split; [discriminate | intros (_ & _ & _ & _ & _ & _ & C & _); contradiction]].
      destruct (t_unused t); [split; [discriminate | intros (_ & _ & _ & _ & _ & _ & _ & C); discriminate]|].
      split; [intros _ | reflexivity]. repeat split; auto.
    + destruct (N.eqb_spec (N.land (t_features t) feats) (t_features t)) as [Hf|Hf]; cbn [negb];
        [|split; [discriminate | intros (_ & _ & _ & _ & _ & _ & C & _); contradiction]].
      destruct (t_unused t); [split; [discriminate | intros (_ & _ & _ & _ & _ & _ & _ & C); discriminate]|].
      split; [intros _ | reflexivity]. repeat split; auto. intros; lia.
  - destruct (t_delegator_ok t); cbn [negb]; [|split; [discriminate | intros ((_ & C) & _); discriminate]].
    destruct (N.eqb_spec (t_chain_tag t) (c_chain_tag cfg)) as [Ht|Ht]; cbn [negb];
      [|split; [discriminate | intros (_ & _ & C & _); contradiction]].
    destruct (N.ltb_spec num (t_ref t)) as [Hr|Hr]; [split; [discriminate | intros (_ & _ & _ & C & _); lia]|].
    destruct (N.ltb_spec (t_ref t + t_exp t) num) as [He|He]; [split; [discriminate | intros (_ & _ & _ & _ & C & _); lia]|].
    destruct (N.ltb_spec num (c_galactica cfg)) as [Hg|Hg]; cbn [andb].
    + destruct (N.eqb_spec (t_type t) 0) as [Hy|Hy]; cbn [negb];
        [|split; [discriminate | intros (_ & _ & _ & _ & _ & C & _); specialize (C Hg); contradiction]].
      destruct (N.eqb_spec (N.land (t_features t) feats) (t_features t)) as [Hf|Hf]; cbn [negb];
        [|split; [discriminate | intros (_ & _ & _ & _ & _ & _ & C & _); contradiction]].
      destruct (t_unused t); [split; [discriminate | intros (_ & _ & _ & _ & _ & _ & _ & C); discriminate]|].
      split; [intros _ | reflexivity]. repeat split; auto; intros; lia.
    + destruct (N.eqb_spec (N.land (t_features t) feats) (t_features t)) as [Hf|Hf]; cbn [negb];
        [|split; [discriminate | intros (_ & _ & _ & _ & _ & _ & C & _); contradiction]].
      destruct (t_unused t); [split; [discriminate | intros (_ & _ & _ & _ & _ & _ & _ & C); discriminate]|].
      split; [intros _ | reflexivity]. repeat split; auto; intros; lia.
Qed.

Lemma body_txs_check_iff cfg num feats txs :
  body_txs_check cfg num feats txs = None <-> Forall (tx_rules cfg num feats) txs.
Proof.
  induction txs as [|t l IH]; cbn [body_txs_check].
  - split; auto.
  - destruct (tx_body_check cfg num feats t) eqn:E.
    + split; [discriminate|]. intros H. inversion H as [|? ? H1 _]; subst. apply tx_body_check_iff in H1. congruence.
    + apply tx_body_check_iff in E. rewrite IH. split; [intros; constructor; auto | intros H; inversion H; auto].
Qed.

Lemma body_rules_iff cfg num feats txs : Forall (tx_rules cfg num feats) txs <-> body_rules cfg num feats txs.
Proof.
  unfold body_rules. induction txs as [|t l IH].
  - split; intros _; [repeat split; intros; constructor | constructor].
  - split.
    + intros H. inversion H as [|? ? Ht Hl]; subst. apply IH in Hl.
      destruct Hl as (L1 & L2 & L3 & L4 & L5 & L6 & L7). destruct Ht as (T1 & T2 & T3 & T4 & T5 & T6 & T7).
      split; [constructor; assumption|]. split; [intros Hb; constructor; auto|].
      split; [constructor; assumption|]. split; [constructor; assumption|]. split; [constructor; assumption|].
      split; [intros Hg; constructor; auto | constructor; assumption].
    + intros (H1 & H2 & H3 & H4 & H5 & H6 & H7).
      inversion H1 as [|? ? A1 B1]; inversion H3 as [|? ? A3 B3]; inversion H4 as [|? ? A4 B4];
        inversion H5 as [|? ? A5 B5]; inversion H7 as [|? ? A7 B7]; subst.
      constructor.
      * unfold tx_rules.
        split; [exact A1|]. split; [intros Hb; specialize (H2 Hb); inversion H2; assumption|].
        split; [exact A3|]. split; [exact A4|]. split; [exact A5|].
        split; [intros Hg; specialize (H6 Hg); inversion H6; assumption | exact A7].
      * apply IH.
        split; [exact B1|]. split; [intros Hb; specialize (H2 Hb); inversion H2; assumption|].
        split; [exact B3|]. split; [exact B4|]. split; [exact B5|].
        split; [intros Hg; specialize (H6 Hg); inversion H6; assumption | exact B7].
Qed.

(* ---------------------------------------------------------------- proposer *)

Lemma find_me_in' me ps mep : find_me me ps = Some mep -> In mep ps /\ p_addr mep = me.
Proof. unfold find_me. intros H. apply find_some in H. destruct H as [H1 H2]. apply N.eqb_eq in H2. auto. Qed.

(* IsTheTime = "after the parent, on the interval grid, and the signer owns that slot" (C05's is_the_time_iff) *)
Lemma is_the_time_iff_owner k hsh pt T cs me mep t : 0 < T -> find_me me (props cs) = Some mep ->
  sched_is_the_time k hsh pt T cs me t = true <->
  pt < t /\ (t - pt) mod T = 0 /\ slot_owner k hsh pt T cs me t = Some me.
Proof.
  intros HT Hf. apply find_me_in' in Hf. destruct Hf as [Hin Ha].
  assert (A : is_scheduled pt T (addrs (seq_of me (pks cs))) t me = true <->
              pt < t /\ (t - pt) mod T = 0 /\
              nth_error (addrs (seq_of me (pks cs))) (N.to_nat (slot_index pt T (N.of_nat (length (addrs (seq_of me (pks cs))))) t)) = Some me).
  { apply is_scheduled_iff; [exact HT|].
    assert (Hm : In me (addrs (seq_of me (pks cs)))).
    { apply (me_in_seq me (pks cs) mep); [|exact Ha]. unfold pks. rewrite map_map. exact Hin. }
    intros E. rewrite E in Hm. exact Hm. }
  destruct k; cbn [sched_is_the_time slot_owner]; try exact A.
  rewrite is_the_time_v1_iff. split.
  - intros (H1 & H2 & p & Hw & Hp). rewrite Hw. cbn. rewrite Hp. auto.
  - intros (H1 & H2 & H3). split; [exact H1|]. split; [exact H2|].
    destruct (whose_turn hsh (actives_v1 me (props cs)) t) as [p|]; cbn in H3; [|discriminate].
    exists p. split; [reflexivity|]. congruence.
Qed.


Definition proposer_rules (cfg : config) (pv : pview) (parent h : header) (s : N) (mep : proposer) : Prop :=
  let k := kind_of cfg pv (h_number parent + 1) in
  let us := sched_updates k (pv_hash pv) (h_time parent) (c_interval cfg) (pv_cands pv) mep (pv_total pv) (h_time h) in
  h_signer h = Some s /\ find_me s (props (pv_cands pv)) = Some mep /\
  sched_is_the_time k (pv_hash pv) (h_time parent) (c_interval cfg) (pv_cands pv) s (h_time h) = true /\
  h_total_score h = wrap64 (h_total_score parent + snd us) /\
  (pv_pos pv = true -> forall bnf, leader_beneficiary s (pv_cands pv) = Some bnf -> h_beneficiary h = bnf).

Lemma validate_proposer_ok_iff cfg pv parent h ups :
  validate_proposer cfg pv parent h = POk ups <->
  exists s mep, proposer_rules cfg pv parent h s mep /\
    ups = fst (sched_updates (kind_of cfg pv (h_number parent + 1)) (pv_hash pv) (h_time parent) (c_interval cfg)
                             (pv_cands pv) mep (pv_total pv) (h_time h)).
Proof.
  unfold validate_proposer, proposer_rules.
  destruct (h_signer h) as [s|]; [|split; [discriminate | intros (s & mep & (C & _) & _); discriminate]].
  destruct (find_me s (props (pv_cands pv))) as [mep|] eqn:Ef.
  2:{ split; [discriminate|]. intros (s' & mep & (C1 & C2 & _) & _). inversion C1; subst. congruence. }
  destruct (sched_is_the_time _ _ _ _ _ s (h_time h)) eqn:Et; cbn [negb].
  2:{ split; [discriminate|]. intros (s' & mep' & (C1 & C2 & C3 & _) & _). inversion C1; subst. congruence. }
  match goal with |- context [sched_updates ?a ?b ?c ?d ?e ?f ?g ?i] => set (us := sched_updates a b c d e f g i) end.
  destruct (N.eqb_spec (wrap64 (h_total_score parent + snd us)) (h_total_score h)) as [Es|Es]; cbn [negb].
  2:{ split; [discriminate|]. intros (s' & mep' & (C1 & C2 & _ & C4 & _) & _). inversion C1; subst s'.
      rewrite Ef in C2. inversion C2; subst mep'. fold us in C4. congruence. }
  destruct (pv_pos pv) eqn:Ep.
  - destruct (leader_beneficiary s (pv_cands pv)) as [bnf|] eqn:El.
    + destruct (N.eqb_spec bnf (h_beneficiary h)) as [Eb|Eb].
      * split.
        -- intros E. inversion E; subst ups. exists s, mep. split; [|reflexivity].
           repeat split; auto. intros _ b' Hb'. congruence.
        -- intros (s' & mep' & (C1 & C2 & _) & ->). inversion C1; subst s'. rewrite Ef in C2. inversion C2; subst mep'. reflexivity.
      * split; [discriminate|]. intros (s' & mep' & (C1 & _ & _ & _ & C5) & _). inversion C1; subst s'.
        specialize (C5 eq_refl _ El). congruence.
    + split.
      * intros E. inversion E; subst ups. exists s, mep. split; [|reflexivity].
        repeat split; auto. intros _ b' Hb'. congruence.
      * intros (s' & mep' & (C1 & C2 & _) & ->). inversion C1; subst s'. rewrite Ef in C2. inversion C2; subst mep'. reflexivity.
  - split.
    + intros E. inversion E; subst ups. exists s, mep. split; [|reflexivity].
      repeat split; auto. intros C; discriminate.
    + intros (s' & mep' & (C1 & C2 & _) & ->). inversion C1; subst s'. rewrite Ef in C2. inversion C2; subst mep'. reflexivity.
Qed.

Lemma receipts_root_ok_iff b r :
  receipts_root_ok b r = true <-> h_receipts_root (b_header b) = r \/ b_rr_fix b = Some r.
Proof.
  unfold receipts_root_ok. rewrite orb_true_iff, N.eqb_eq. destruct (b_rr_fix b) as [x|].
  - rewrite N.eqb_eq. split; (intros [H|H]; [left; exact H | right; congruence]).
  - split; [intros [H|H]; [left; exact H | discriminate] | intros [H|H]; [left; exact H | discriminate]].
Qed.

Section Proofs.
  Variable State : Type.
  Variable exec : bctx -> State -> txn -> option (State * receipt).
  Variable apply_updates : bool -> N -> State -> list (N * bool) -> State.
  Variable rewards : bctx -> State -> option State.
  Variable sanity : State -> bool.
  Variable root_of_state : State -> N.
  Variable root_of_receipts : list receipt -> N.
  Variable root_of_txs : list txn -> N.
  Variable has_tx : N -> N -> bool.
  Variable find_meta : N -> option bool.

  Notation run := (run State exec).
  Notation verify_txs := (verify_txs State exec has_tx find_meta).
  Notation known := (known has_tx).
  Notation dep_check := (dep_check find_meta).
  Notation dep_rule := (dep_rule find_meta).
  Notation deps_ok := (deps_ok find_meta).

  (* ---------------------------------------------------------------- the transaction loop *)

  Fixpoint fresh (seen : list N) (l : list txn) : Prop :=
    match l with
    | [] => True
    | t :: l' => ~ In (t_id t) seen /\ has_tx (t_id t) (t_ref t) = false /\ fresh (t_id t :: seen) l'
    end.

  Lemma fresh_spec l : forall seen,
    fresh seen l <-> NoDup (map t_id l) /\ (forall x, In x (map t_id l) -> ~ In x seen) /\
                     Forall (fun t => has_tx (t_id t) (t_ref t) = false) l.
  Proof.
    induction l as [|t l IH]; intros seen; cbn [fresh map].
    - split; [intros _; repeat split; [constructor | intros x [] | constructor] | auto].
    - rewrite IH. split.
      + intros (Hn & Hh & Hd & Hs & Hf). repeat split.
        * constructor; [intros C; apply (Hs _ C); left; reflexivity | exact Hd].
        * intros x [<-|Hx]; [exact Hn | intros C; apply (Hs _ Hx); right; exact C].
        * constructor; auto.
      + intros (Hd & Hs & Hf). inversion Hd as [|? ? Hni Hd']; subst. inversion Hf as [|? ? Hh Hf']; subst.
        repeat split; auto.
        * apply Hs. left; reflexivity.
        * intros x Hx [<-|C]; [contradiction | apply (Hs x); [right; exact Hx | exact C]].
  Qed.

  Lemma known_false_iff proc t :
    known proc t = false <-> ~ In (t_id t) (map fst proc) /\ has_tx (t_id t) (t_ref t) = false.
  Proof.
    unfold Body.known. destruct (lookup (t_id t) proc) eqn:E.
    - split; [discriminate|]. intros [C _]. apply lookup_none_iff in C. congruence.
    - apply lookup_none_iff in E. tauto.
  Qed.

  Lemma dep_check_ok_iff proc t : dep_check proc t = DepOk <-> dep_rule proc t.
  Proof.
    unfold Body.dep_check, Catalogue.dep_rule. destruct (t_dep t) as [d|]; [|tauto].
    destruct (lookup d proc) as [[|]|].
    - split; [discriminate | intros [C|[C _]]; discriminate].
    - split; [intros _; left; reflexivity | reflexivity].
    - destruct (find_meta d) as [[|]|].
      + split; [discriminate | intros [C|[_ C]]; discriminate].
      + split; [intros _; right; auto | reflexivity].
      + split; [discriminate | intros [C|[_ C]]; discriminate].
  Qed.

  Lemma verify_txs_iff ctx txs : forall st proc used stf rs u,
    verify_txs ctx txs st proc used = VOk State stf rs u <->
    run ctx st txs = Some (stf, rs) /\ u = used + total_gas rs /\
    fresh (map fst proc) txs /\ deps_ok proc txs rs /\ (txs <> [] -> u <= x_gas_limit ctx).
  Proof.
    induction txs as [|t l IH]; intros st proc used stf rs u; cbn [Body.verify_txs Catalogue.run fresh].
    - split.
      + intros E. inversion E; subst. unfold total_gas. cbn. repeat split; auto; try lia. intros C; contradiction.
      + intros (E & -> & _). inversion E; subst. unfold total_gas. cbn. rewrite N.add_0_r. reflexivity.
    - destruct (known proc t) eqn:Ek.
      { split; [discriminate|]. intros (_ & _ & (C1 & C2 & _) & _).
        assert (X : known proc t = false) by (apply known_false_iff; auto). congruence. }
      apply known_false_iff in Ek. destruct Ek as [Ek1 Ek2].
      destruct (dep_check proc t) eqn:Ed.
      2:{ split; [discriminate|]. intros (Er & _ & _ & C & _).
          destruct (exec ctx st t) as [[st' r]|]; [|discriminate]. destruct (run ctx st' l) as [[? ?]|]; [|discriminate].
          inversion Er; subst. cbn [Catalogue.deps_ok] in C. destruct C as [C _]. apply dep_check_ok_iff in C. congruence. }
      2:{ split; [discriminate|]. intros (Er & _ & _ & C & _).
          destruct (exec ctx st t) as [[st' r]|]; [|discriminate]. destruct (run ctx st' l) as [[? ?]|]; [|discriminate].
          inversion Er; subst. cbn [Catalogue.deps_ok] in C. destruct C as [C _]. apply dep_check_ok_iff in C. congruence. }
      apply dep_check_ok_iff in Ed.
      destruct (exec ctx st t) as [[st' r]|] eqn:Ee; [|split; [discriminate | intros (C & _); discriminate]].
      destruct (N.ltb_spec (x_gas_limit ctx) (used + r_gas r)) as [Hl|Hl].
      { split; [discriminate|]. intros (Er & -> & _ & _ & C).
        destruct (run ctx st' l) as [[? rs']|]; [|discriminate]. inversion Er; subst.
        assert (X : t :: l <> []) by discriminate. specialize (C X). unfold total_gas in C. cbn [map sumN] in C. lia. }
      destruct (verify_txs ctx l st' ((t_id t, r_reverted r) :: proc) (used + r_gas r)) as [stf' rs' u'|v] eqn:Ev.
      + apply IH in Ev. destruct Ev as (Er & Eu & Ef & Edp & Eg). cbn [map fst] in Ef.
        split.
        * intros E. inversion E; subst. rewrite Er. repeat split; auto.
          -- unfold total_gas. cbn [map sumN]. fold (total_gas rs'). lia.
          -- intros _. destruct l as [|t' l']; [|apply Eg; discriminate].
             cbn [Catalogue.run] in Er. inversion Er; subst. unfold total_gas. cbn. lia.
        * intros (Er' & -> & _ & _ & _). rewrite Er in Er'. inversion Er'; subst.
          unfold total_gas. cbn [map sumN]. fold (total_gas rs'). f_equal. lia.
      + split; [discriminate|]. intros (Er & -> & (_ & _ & Ef) & Edp & Eg).
        destruct (run ctx st' l) as [[stf' rs']|] eqn:Er'; [|discriminate]. inversion Er; subst.
        cbn [Catalogue.deps_ok] in Edp. destruct Edp as [_ Edp].
        assert (X : verify_txs ctx l st' ((t_id t, r_reverted r) :: proc) (used + r_gas r) =
                    VOk State stf rs' (used + r_gas r + total_gas rs')).
        { apply IH. repeat split; auto. intros _.
          assert (Y : t :: l <> []) by discriminate. specialize (Eg Y). unfold total_gas in *. cbn [map sumN] in Eg. lia. }
        congruence.
  Qed.

  (* ---------------------------------------------------------------- Process *)
  Notation process := (process State exec apply_updates rewards sanity root_of_state root_of_receipts root_of_txs has_tx find_meta).
  Notation verify_block := (verify_block State exec rewards sanity root_of_state root_of_receipts has_tx find_meta).
  Notation rule_holds := (rule_holds State exec apply_updates rewards sanity root_of_state root_of_receipts root_of_txs has_tx find_meta).
  Notation all_rules := (all_rules State exec apply_updates rewards sanity root_of_state root_of_receipts root_of_txs has_tx find_meta).

  Definition final_state (pos : bool) (ctx : bctx) (stf : State) : State :=
    if pos then match rewards ctx stf with Some s => s | None => stf end else stf.

  Definition verify_rules (pos : bool) (parent : header) (b : block) (st1 stf : State) (rs : list receipt) : Prop :=
    let h := b_header b in let ctx := ctx_of_header parent h in
    run ctx st1 (b_txs b) = Some (stf, rs) /\
    fresh [] (b_txs b) /\ deps_ok [] (b_txs b) rs /\
    h_gas_used h = total_gas rs /\ (h_receipts_root h = root_of_receipts rs \/ b_rr_fix b = Some (root_of_receipts rs)) /\
    (pos = true -> sanity stf = true /\ rewards ctx stf <> None) /\
    h_state_root h = root_of_state (final_state pos ctx stf).

  Lemma verify_block_iff pos parent b st1 st2 rcs :
    h_gas_used (b_header b) <= h_gas_limit (b_header b) ->
    verify_block pos parent b st1 = Accepted State st2 rcs <->
    exists stf, verify_rules pos parent b st1 stf rcs /\ st2 = final_state pos (ctx_of_header parent (b_header b)) stf.
  Proof.
    intros Hgas. unfold Body.verify_block, verify_rules, final_state.
    remember (b_header b) as h eqn:Eqh. remember (ctx_of_header parent h) as ctx eqn:Eqctx.
    destruct (verify_txs ctx (b_txs b) st1 [] 0) as [stf rs u|v] eqn:Ev.
    - apply verify_txs_iff in Ev. destruct Ev as (Er & Eu & Ef & Ed & Eg). cbn [map] in Ef. rewrite N.add_0_l in Eu. subst u.
      destruct (N.eqb_spec (h_gas_used h) (total_gas rs)) as [E1|E1]; cbn [negb].
      2:{ split; [discriminate|]. intros (stf' & (Er' & _ & _ & C & _) & _). rewrite Er in Er'. inversion Er'; subst. contradiction. }
      destruct (receipts_root_ok b (root_of_receipts rs)) eqn:ERR; cbn [negb].
      2:{ split; [discriminate|]. intros (stf' & (Er' & _ & _ & _ & C & _) & _). rewrite Er in Er'. inversion Er'; subst.
          try rewrite Eqh in C. apply receipts_root_ok_iff in C. congruence. }
      assert (E2 : h_receipts_root h = root_of_receipts rs \/ b_rr_fix b = Some (root_of_receipts rs))
        by (rewrite Eqh; apply receipts_root_ok_iff; exact ERR).
      destruct pos.
      + destruct (sanity stf) eqn:Es; cbn [negb].
        2:{ split; [discriminate|]. intros (stf' & (Er' & _ & _ & _ & _ & C & _) & _). rewrite Er in Er'. inversion Er'; subst.
            destruct (C eq_refl). congruence. }
        destruct (rewards ctx stf) as [sr|] eqn:Erw.
        2:{ split; [discriminate|]. intros (stf' & (Er' & _ & _ & _ & _ & C & _) & _). rewrite Er in Er'. inversion Er'; subst.
            destruct (C eq_refl) as [_ C']. congruence. }
        destruct (N.eqb_spec (h_state_root h) (root_of_state sr)) as [E3|E3]; cbn [negb].
        * split.
          -- intros E. injection E as E1' E2'. subst st2 rcs. exists stf. rewrite Erw. repeat split; auto. discriminate.
          -- intros (stf' & (Er' & _) & ->). rewrite Er in Er'. inversion Er'; subst. rewrite Erw. reflexivity.
        * split; [discriminate|]. intros (stf' & (Er' & _ & _ & _ & _ & _ & C) & _). rewrite Er in Er'. inversion Er'; subst.
          rewrite Erw in C. contradiction.
      + destruct (N.eqb_spec (h_state_root h) (root_of_state stf)) as [E3|E3]; cbn [negb].
        * split.
          -- intros E. injection E as E1' E2'. subst st2 rcs. exists stf. repeat split; auto; discriminate.
          -- intros (stf' & (Er' & _) & ->). rewrite Er in Er'. inversion Er'; subst. reflexivity.
        * split; [discriminate|]. intros (stf' & (Er' & _ & _ & _ & _ & _ & C) & _). rewrite Er in Er'. inversion Er'; subst.
          contradiction.
    - split; [discriminate|]. intros (stf & (Er & Ef & Ed & Eg & _) & _).
      assert (X : verify_txs ctx (b_txs b) st1 [] 0 = VOk State stf rcs (0 + total_gas rcs)).
      { apply verify_txs_iff. repeat split; auto. intros _. rewrite Eqctx. unfold ctx_of_header. cbn [x_gas_limit]. lia. }
      congruence.
  Qed.

  (* Process accepts with (state, receipts) iff the block satisfies the rules, in normal form *)
  Definition accept_cond (cfg : config) (pv : pview) (parent : header) (st0 : State) (b : block) (now : N)
             (st2 : State) (rcs : list receipt) : Prop :=
    let h := b_header b in let num := h_number parent + 1 in
    h_features h = features_at cfg num /\
    header_rules cfg parent h now /\
    exists s mep, proposer_rules cfg pv parent h s mep /\
      h_txs_root h = root_of_txs (b_txs b) /\
      body_rules cfg num (h_features h) (b_txs b) /\
      exists stf,
        verify_rules (pv_pos pv) parent b
          (apply_updates (pv_pos pv) num st0
             (fst (sched_updates (kind_of cfg pv num) (pv_hash pv) (h_time parent) (c_interval cfg) (pv_cands pv) mep
                                 (pv_total pv) (h_time h)))) stf rcs /\
        st2 = final_state (pv_pos pv) (ctx_of_header parent h) stf.

  Definition wf_gas (parent : header) (b : block) : Prop :=
    h_gas_limit (b_header b) < two64 /\ h_gas_limit parent < two64.

  Theorem process_accept_iff cfg pv parent st0 b now st2 rcs : wf_gas parent b ->
    process cfg pv parent st0 b now = Accepted State st2 rcs <-> accept_cond cfg pv parent st0 b now st2 rcs.
  Proof.
    intros [Wg Wp]. unfold Body.process, accept_cond.
    destruct (N.eqb_spec (h_features (b_header b)) (features_at cfg (h_number parent + 1))) as [Ef|Ef]; cbn [negb].
    2:{ split; [discriminate | intros (C & _); contradiction]. }
    destruct (validate_header cfg parent (b_header b) now) eqn:Eh;
      try (split; [discriminate | intros (_ & C & _); apply (validate_header_accept_iff _ _ _ _ Wg Wp) in C; congruence]).
    apply (validate_header_accept_iff _ _ _ _ Wg Wp) in Eh.
    destruct (validate_proposer cfg pv parent (b_header b)) as [ups|v] eqn:Ep.
    2:{ split; [discriminate|]. intros (_ & _ & s & mep & C & _).
        assert (X : exists ups, validate_proposer cfg pv parent (b_header b) = POk ups).
        { eexists. apply validate_proposer_ok_iff. exists s, mep. split; [exact C | reflexivity]. }
        destruct X as [? X]. congruence. }
    apply validate_proposer_ok_iff in Ep. destruct Ep as (s & mep & Ep & ->).
    assert (Uniq : forall s' mep', proposer_rules cfg pv parent (b_header b) s' mep' -> s' = s /\ mep' = mep).
    { intros s' mep' (C1 & C2 & _). destruct Ep as (D1 & D2 & _). rewrite D1 in C1. inversion C1; subst s'.
      rewrite D2 in C2. inversion C2; auto. }
    destruct (N.eqb_spec (h_txs_root (b_header b)) (root_of_txs (b_txs b))) as [Er|Er]; cbn [negb].
    2:{ split; [discriminate|]. intros (_ & _ & s' & mep' & _ & C & _). contradiction. }
    destruct (body_txs_check cfg (h_number parent + 1) (h_features (b_header b)) (b_txs b)) eqn:Eb.
    { split; [discriminate|]. intros (_ & _ & s' & mep' & _ & _ & C & _).
      apply body_rules_iff, body_txs_check_iff in C. congruence. }
    apply body_txs_check_iff, body_rules_iff in Eb.
    assert (Hgas : h_gas_used (b_header b) <= h_gas_limit (b_header b)) by (destruct Eh as (_ & _ & _ & G & _); exact G).
    rewrite (verify_block_iff _ _ _ _ _ _ Hgas). split.
    - intros (stf & Hv & ->). split; [exact Ef|]. split; [exact Eh|]. exists s, mep. split; [exact Ep|].
      split; [exact Er|]. split; [exact Eb|]. exists stf. split; [exact Hv | reflexivity].
    - intros (_ & _ & s' & mep' & Hp & _ & _ & stf & Hv & ->). destruct (Uniq _ _ Hp) as [-> ->].
      exists stf. split; [exact Hv | reflexivity].
  Qed.

  (* ---------------------------------------------------------------- the catalogue *)
  Notation the_proposer := (the_proposer).
  Notation the_run := (the_run State exec apply_updates).

  Lemma the_proposer_unique pv b s mep mep' :
    h_signer (b_header b) = Some s -> find_me s (props (pv_cands pv)) = Some mep ->
    Catalogue.the_proposer pv b mep' -> mep' = mep.
  Proof. intros H1 H2 (s' & H3 & H4). rewrite H1 in H3. inversion H3; subst s'. congruence. Qed.

  Theorem accept_cond_iff_rules cfg pv parent st0 b now : 0 < c_interval cfg ->
    (exists st2 rcs, accept_cond cfg pv parent st0 b now st2 rcs) <-> all_rules cfg pv parent st0 b now.
  Proof.
    intros HT. split.
    - intros (st2 & rcs & Hf & Hh & s & mep & Hp & Hroot & Hb & stf & Hv & _).
      destruct Hh as (H1 & H2 & H3 & H4 & H5 & H6 & H7 & H8 & H9 & H10 & H11).
      destruct Hp as (P1 & P2 & P3 & P4 & P5).
      destruct Hb as (B1 & B2 & B3 & B4 & B5 & B6 & B7).
      destruct Hv as (V1 & V2 & V3 & V4 & V5 & V6 & V7).
      pose proof (find_me_addr _ _ _ P2) as Ha.
      assert (TP : Catalogue.the_proposer pv b mep) by (exists s; auto).
      assert (U : forall mep', Catalogue.the_proposer pv b mep' -> mep' = mep)
        by (intros mep'; apply (the_proposer_unique pv b s mep mep' P1 P2)).
      assert (TR : the_run cfg pv parent st0 b stf rcs) by (exists mep; split; [exact TP | exact V1]).
      assert (UR : forall stf' rs', the_run cfg pv parent st0 b stf' rs' -> stf' = stf /\ rs' = rcs).
      { intros stf' rs' (mep' & T1 & T2). apply U in T1. subst mep'. unfold start_state, updates_and_score in T2.
        rewrite V1 in T2. inversion T2; auto. }
      apply (fresh_spec (b_txs b) []) in V2. destruct V2 as (V2a & _ & V2b).
      assert (R1 : rule_holds cfg pv parent st0 b now 1) by exact H1.
      assert (R2 : rule_holds cfg pv parent st0 b now 2) by exact H2.
      assert (R3 : rule_holds cfg pv parent st0 b now 3) by exact H3.
      assert (R4 : rule_holds cfg pv parent st0 b now 4) by exact H4.
      assert (R5 : rule_holds cfg pv parent st0 b now 5) by exact H5.
      assert (R6 : rule_holds cfg pv parent st0 b now 6) by exact H6.
      assert (R7 : rule_holds cfg pv parent st0 b now 7) by exact H7.
      assert (R8 : rule_holds cfg pv parent st0 b now 8) by exact H8.
      assert (R9 : rule_holds cfg pv parent st0 b now 9) by exact H9.
      assert (R10 : rule_holds cfg pv parent st0 b now 10) by exact H10.
      assert (R11 : rule_holds cfg pv parent st0 b now 11) by exact H11.
      assert (R12 : rule_holds cfg pv parent st0 b now 12) by exact Hf.
      assert (R20 : rule_holds cfg pv parent st0 b now 20) by (exists mep; exact TP).
      assert (R21 : rule_holds cfg pv parent st0 b now 21).
      { intros mep' T. apply U in T. subst mep'. rewrite Ha. apply (is_the_time_iff_owner _ _ _ _ _ _ _ _ HT P2) in P3. apply P3. }
      assert (R22 : rule_holds cfg pv parent st0 b now 22).
      { intros mep' T. apply U in T. subst mep'. exact P4. }
      assert (R23 : rule_holds cfg pv parent st0 b now 23).
      { intros Hpos s' bnf Hs Hl. rewrite P1 in Hs. inversion Hs; subst s'. exact (P5 Hpos _ Hl). }
      assert (R30 : rule_holds cfg pv parent st0 b now 30) by exact Hroot.
      assert (R31 : rule_holds cfg pv parent st0 b now 31) by exact B1.
      assert (R32 : rule_holds cfg pv parent st0 b now 32) by exact B2.
      assert (R33 : rule_holds cfg pv parent st0 b now 33) by exact B3.
      assert (R34 : rule_holds cfg pv parent st0 b now 34) by exact B4.
      assert (R35 : rule_holds cfg pv parent st0 b now 35) by exact B5.
      assert (R36 : rule_holds cfg pv parent st0 b now 36) by exact B6.
      assert (R37 : rule_holds cfg pv parent st0 b now 37) by exact B7.
      assert (R40 : rule_holds cfg pv parent st0 b now 40) by (split; assumption).
      assert (R41 : rule_holds cfg pv parent st0 b now 41).
      { intros mep' T. apply U in T. subst mep'. exists stf, rcs. exact V1. }
      assert (R42 : rule_holds cfg pv parent st0 b now 42).
      { intros stf' rs' T. destruct (UR _ _ T) as [-> ->]. exact V3. }
      assert (R43 : rule_holds cfg pv parent st0 b now 43).
      { intros stf' rs' T. destruct (UR _ _ T) as [-> ->]. exact V4. }
      assert (R44 : rule_holds cfg pv parent st0 b now 44).
      { intros stf' rs' T. destruct (UR _ _ T) as [-> ->]. exact V5. }
      assert (R45 : rule_holds cfg pv parent st0 b now 45).
      { intros Hpos stf' rs' T. destruct (UR _ _ T) as [-> ->]. exact (proj1 (V6 Hpos)). }
      assert (R46 : rule_holds cfg pv parent st0 b now 46).
      { intros Hpos stf' rs' T. destruct (UR _ _ T) as [-> ->]. exact (proj2 (V6 Hpos)). }
      assert (R47 : rule_holds cfg pv parent st0 b now 47).
      { intros stf' rs' T. destruct (UR _ _ T) as [-> ->]. exact V7. }
      clear - R1 R2 R3 R4 R5 R6 R7 R8 R9 R10 R11 R12 R20 R21 R22 R23 R30 R31 R32 R33 R34 R35 R36 R37 R40 R41 R42 R43 R44 R45 R46 R47.
      intros i. destruct i as [|p]; [exact I|].
      do 6 (try destruct p as [p|p|]); try exact I; assumption.
    - intros A.
      pose proof (A 1) as H1. pose proof (A 2) as H2. pose proof (A 3) as H3. pose proof (A 4) as H4. pose proof (A 5) as H5.
      pose proof (A 6) as H6. pose proof (A 7) as H7. pose proof (A 8) as H8. pose proof (A 9) as H9. pose proof (A 10) as H10.
      pose proof (A 11) as H11. pose proof (A 12) as H12. pose proof (A 20) as H20. pose proof (A 21) as H21.
      pose proof (A 22) as H22. pose proof (A 23) as H23. pose proof (A 30) as H30. pose proof (A 31) as H31.
      pose proof (A 32) as H32. pose proof (A 33) as H33. pose proof (A 34) as H34. pose proof (A 35) as H35.
      pose proof (A 36) as H36. pose proof (A 37) as H37. pose proof (A 40) as H40. pose proof (A 41) as H41.
      pose proof (A 42) as H42. pose proof (A 43) as H43. pose proof (A 44) as H44. pose proof (A 45) as H45.
      pose proof (A 46) as H46. pose proof (A 47) as H47. clear A.
      cbn [Catalogue.rule_holds] in *.
      destruct H20 as (mep & TP). destruct (H41 mep TP) as (stf & rs & Hrun).
      assert (TR : the_run cfg pv parent st0 b stf rs) by (exists mep; split; [exact TP | exact Hrun]).
      pose proof TP as TP'. destruct TP' as (s & Hs & Hfm). pose proof (find_me_addr _ _ _ Hfm) as Ha.
      exists (final_state (pv_pos pv) (ctx_of_header parent (b_header b)) stf), rs.
      split; [exact H12|]. split.
      { unfold header_rules. split; [exact H1|]. split; [exact H2|]. split; [exact H3|]. split; [exact H4|]. split; [exact H5|]. split; [exact H6|]. split; [exact H7|]. split; [exact H8|]. split; [exact H9|]. split; [exact H10 | exact H11]. }
      exists s, mep. split.
      { unfold proposer_rules. split; [exact Hs|]. split; [exact Hfm|].
        split; [apply (is_the_time_iff_owner _ _ _ _ _ _ _ _ HT Hfm); split; [exact H1|]; split; [exact H2|]; rewrite <- Ha; exact (H21 _ TP)|].
        split; [exact (H22 _ TP)|]. intros Hpos bnf Hl. exact (H23 Hpos _ _ Hs Hl). }
      split; [exact H30|]. split.
      { unfold body_rules. repeat split; assumption. }
      exists stf. split; [|reflexivity].
      unfold verify_rules. split; [exact Hrun|]. split.
      { apply fresh_spec. destruct H40 as [N1 N2]. repeat split; auto. }
      split; [exact (H42 _ _ TR)|]. split; [exact (H43 _ _ TR)|]. split; [exact (H44 _ _ TR)|]. split.
      { intros Hpos. split; [exact (H45 Hpos _ _ TR) | exact (H46 Hpos _ _ TR)]. }
      exact (H47 _ _ TR).
  Qed.

  (* the property-level statement: the block is accepted iff every catalogue rule holds *)
  Theorem accept_iff_rules_lemma cfg pv parent st0 b now : 0 < c_interval cfg -> wf_gas parent b ->
    (exists st2 rcs, process cfg pv parent st0 b now = Accepted State st2 rcs) <-> all_rules cfg pv parent st0 b now.
  Proof.
    intros HT W. rewrite <- (accept_cond_iff_rules _ _ _ _ _ _ HT). split; intros (st2 & rcs & H); exists st2, rcs; apply (process_accept_iff _ _ _ _ _ _ _ _ W); exact H.
  Qed.

  (* ---------------------------------------------------------------- classes of rejection *)
  Definition parent_sane (cfg : config) (parent : header) : Prop :=
    base_fee_nil_deref cfg parent = false /\ expected_base_fee cfg parent <> BfPanics.

  (* parent_sane is an invariant of accepted chains: a header that passed the header rules (as a child of its own parent)
     and whose gas limit is below the uint64 wrap of gasLimit*75 is a sane parent.  The bound is a premise: the gas limit
     may rise by 1/1024 per block, so no chain invariant keeps it below (2^64-1)/75 ~ 2.4e17 (about 23 000 maximal
     upward steps above any deployed value). *)
  Theorem accepted_parent_is_sane cfg gp parent now :
    header_rules cfg gp parent now -> h_number parent = h_number gp + 1 -> h_number parent + 1 < 4294967296 ->
    (Z.of_N (h_gas_limit parent) <= max_nowrap_gas_limit)%Z -> parent_sane cfg parent.
  Proof.
    intros (_ & _ & _ & _ & _ & (Hfloor & _) & _ & _ & _ & (Hb1 & Hb2)) Hn Hlt Hgl.
    unfold parent_sane, base_fee_nil_deref, expected_base_fee. rewrite <- Hn in Hb1, Hb2. split.
    - destruct (N.ltb_spec (c_galactica cfg) (h_number parent + 1)) as [H|H]; [|reflexivity]. cbn [andb].
      destruct (Hb2 ltac:(lia)) as (bf & E & _). rewrite E. reflexivity.
    - unfold calc_base_fee. rewrite Z.mod_small by (unfold BaseFee.Model.two32; lia).
      destruct (_ <? _)%Z; [discriminate|]. destruct (_ =? _)%Z; [discriminate|].
      rewrite gas_target_nowrap by lia.
      destruct (_ =? _)%Z; [discriminate|].
      assert (T : (0 < Z.of_N (h_gas_limit parent) * 75 / 100)%Z) by lia.
      destruct (Z.eqb_spec (Z.of_N (h_gas_limit parent) * 75 / 100) 0); [lia|].
      destruct (_ >? _)%Z; discriminate.
  Qed.

  Lemma validate_header_class cfg parent h now v : parent_sane cfg parent ->
    validate_header cfg parent h now = v ->
    match v with Future => now + c_interval cfg < h_time h | Panics => False | Other _ => False | _ => True end.
  Proof.
    intros [S1 S2]. unfold validate_header, base_fee_check.
    destruct (h_time h <=? h_time parent); [intros <-; exact I|].
    destruct (negb _); [intros <-; exact I|].
    destruct (N.ltb_spec (now + c_interval cfg) (h_time h)) as [H3|H3]; [intros <-; exact H3|].
    destruct (h_gas_limit h <? h_gas_used h); [intros <-; exact I|].
    destruct (h_total_score h <=? h_total_score parent); [intros <-; exact I|].
    destruct (negb _); [intros <-; exact I|].
    destruct (sig_alpha_check cfg parent h); [intros <-; exact I|].
    destruct (_ && _); [intros <-; exact I|].
    destruct (_ <? _).
    - destruct (h_base_fee h); intros <-; exact I.
    - destruct (h_base_fee h); [|intros <-; exact I]. rewrite S1.
      destruct (expected_base_fee cfg parent); [intros <-; exact I | | contradiction].
      destruct (_ =? _)%Z; intros <-; exact I.
  Qed.

  Lemma validate_proposer_class cfg pv parent h v : validate_proposer cfg pv parent h = PBad v -> is_critical v = true.
  Proof.
    unfold validate_proposer. destruct (h_signer h); [|intros E; inversion E; reflexivity].
    destruct (find_me _ _); [|intros E; inversion E; reflexivity].
    destruct (negb _); [intros E; inversion E; reflexivity|].
    destruct (negb _); [intros E; inversion E; reflexivity|].
    destruct (pv_pos pv); [|discriminate].
    destruct (leader_beneficiary _ _); [|discriminate].
    destruct (_ =? _); [discriminate | intros E; inversion E; reflexivity].
  Qed.

  Lemma verify_txs_class ctx txs : forall st proc used v,
    verify_txs ctx txs st proc used = VBad State v ->
    is_critical v = true \/ ((exists r, v = Other r) /\ run ctx st txs = None).
  Proof.
    induction txs as [|t l IH]; intros st proc used v; cbn [Body.verify_txs Catalogue.run]; [discriminate|].
    destruct (known proc t); [intros E; inversion E; left; reflexivity|].
    destruct (dep_check proc t); try (intros E; inversion E; left; reflexivity).
    destruct (exec ctx st t) as [[st' r]|]; [|intros E; inversion E; right; split; [eexists; reflexivity | reflexivity]].
    destruct (_ <? _); [intros E; inversion E; left; reflexivity|].
    destruct (verify_txs ctx l st' _ _) eqn:Ev; [discriminate|].
    intros E. inversion E; subst. apply IH in Ev. destruct Ev as [C|[Ho Hr]]; [left; exact C|].
    right. split; [exact Ho|]. rewrite Hr. reflexivity.
  Qed.

  Theorem process_reject_class cfg pv parent st0 b now v : parent_sane cfg parent ->
    process cfg pv parent st0 b now = Rejected State v ->
    match v with
    | Critical _ => True
    | Future => ~ rule_holds cfg pv parent st0 b now 3
    | Other _ => ~ rule_holds cfg pv parent st0 b now 41 \/ ~ rule_holds cfg pv parent st0 b now 46
    | Accept | Panics => False
    end.
  Proof.
    intros Sane. unfold Body.process.
    destruct (negb _); [intros E; inversion E; exact I|].
    destruct (validate_header cfg parent (b_header b) now) eqn:Eh.
    2,3,4,5: intros E; inversion E; subst; apply (validate_header_class _ _ _ _ _ Sane) in Eh; auto.
    2:{ intros C. cbv beta iota zeta delta [Catalogue.rule_holds] in C. cbv iota in Eh. lia. }
    destruct (validate_proposer cfg pv parent (b_header b)) as [ups|pv'] eqn:Ep.
    2:{ intros E. inversion E; subst. apply validate_proposer_class in Ep. destruct v; try discriminate; exact I. }
    apply validate_proposer_ok_iff in Ep. destruct Ep as (s & mep & (P1 & P2 & _) & ->).
    destruct (negb _); [intros E; inversion E; exact I|].
    destruct (body_txs_check _ _ _ _); [intros E; inversion E; exact I|].
    unfold Body.verify_block.
    match goal with |- context [verify_txs ?c ?t ?s0 [] 0] => destruct (verify_txs c t s0 [] 0) as [stf rs u|bad] eqn:Ev end.
    - destruct (negb _); [intros E; inversion E; exact I|].
      destruct (negb _); [intros E; inversion E; exact I|].
      apply verify_txs_iff in Ev. destruct Ev as (Er & _).
      assert (TR : the_run cfg pv parent st0 b stf rs).
      { exists mep. split; [exists s; auto | exact Er]. }
      destruct (pv_pos pv) eqn:Epos.
      + destruct (negb (sanity stf)); [intros E; inversion E; exact I|].
        destruct (rewards _ stf) eqn:Erw.
        * destruct (negb _); [intros E; inversion E; exact I | discriminate].
        * intros E; inversion E; subst. right. cbn [Catalogue.rule_holds]. intros C. exact (C Epos _ _ TR Erw).
      + destruct (negb _); [intros E; inversion E; exact I | discriminate].
    - intros E. inversion E; subst bad. apply verify_txs_class in Ev. destruct Ev as [C|[[r ->] Hr]].
      + destruct v; try discriminate; exact I.
      + left. cbn [Catalogue.rule_holds]. intros C.
        assert (TP : Catalogue.the_proposer pv b mep) by (exists s; auto).
        destruct (C mep TP) as (stf & rs & T2).
        unfold start_state, updates_and_score in T2. rewrite Hr in T2. discriminate.
  Qed.

  (* a single departure from a valid block: exactly one catalogue rule fails (crypto reports unchanged or not: they are
     part of the rules) => consensus-critical rejection, unless the failing rule is one the code classes otherwise *)
  (* ANY breach (one rule or several) of a block that is not from the future and whose transactions and reward hook
     execute is rejected with a consensus-critical error *)
  Theorem rule_breach_rejected_critical_lemma cfg pv parent st0 b now :
    0 < c_interval cfg -> wf_gas parent b -> parent_sane cfg parent ->
    ~ all_rules cfg pv parent st0 b now ->
    rule_holds cfg pv parent st0 b now 3 -> rule_holds cfg pv parent st0 b now 41 -> rule_holds cfg pv parent st0 b now 46 ->
    exists r, process cfg pv parent st0 b now = Rejected State (Critical r).
  Proof.
    intros HT W Sane Hn H3 H41 H46.
    destruct (process cfg pv parent st0 b now) as [st2 rcs|v] eqn:Ep.
    - exfalso. apply Hn. apply (accept_iff_rules_lemma _ _ _ _ _ _ HT W). exists st2, rcs. exact Ep.
    - pose proof (process_reject_class _ _ _ _ _ _ _ Sane Ep) as C.
      destruct v as [| |r|r|]; try contradiction; [exists r; reflexivity|].
      exfalso. destruct C as [C|C]; apply C; assumption.
  Qed.

  Theorem single_mutation_rejected_lemma cfg pv parent st0 b now i :
    0 < c_interval cfg -> wf_gas parent b -> parent_sane cfg parent ->
    ~ rule_holds cfg pv parent st0 b now i ->
    (forall j, j <> i -> rule_holds cfg pv parent st0 b now j) ->
    non_critical_rule i = false ->
    exists r, process cfg pv parent st0 b now = Rejected State (Critical r).
  Proof.
    intros HT W Sane Hi Hothers Hnc.
    destruct (process cfg pv parent st0 b now) as [st2 rcs|v] eqn:Ep.
    - exfalso. apply Hi. apply (accept_iff_rules_lemma _ _ _ _ _ _ HT W). exists st2, rcs. exact Ep.
    - pose proof (process_reject_class _ _ _ _ _ _ _ Sane Ep) as C.
      unfold non_critical_rule in Hnc. apply orb_false_iff in Hnc. destruct Hnc as [Hnc H46].
      apply orb_false_iff in Hnc. destruct Hnc as [H3 H41].
      apply N.eqb_neq in H3, H41, H46.
      destruct v as [| |r|r|]; try contradiction.
      + exfalso. apply C. apply Hothers. congruence.
      + exists r. reflexivity.
      + exfalso. destruct C as [C|C]; apply C; apply Hothers; congruence.
  Qed.

  (* ---------------------------------------------------------------- breaches detected before execution *)
  (* the rules Process checks before it executes any transaction: header, proposer, txs root, body *)
  Definition pre_exec_rule (i : N) : bool :=
    existsb (N.eqb i) [1;2;4;5;6;7;8;9;10;11;12;20;21;22;23;30;31;32;33;34;35;36;37].

  Definition pre_cond (cfg : config) (pv : pview) (parent : header) (b : block) (now : N) : Prop :=
    let h := b_header b in let num := h_number parent + 1 in
    h_features h = features_at cfg num /\ header_rules cfg parent h now /\
    (exists s mep, proposer_rules cfg pv parent h s mep) /\
    h_txs_root h = root_of_txs (b_txs b) /\ body_rules cfg num (h_features h) (b_txs b).

  Lemma pre_cond_rules cfg pv parent st0 b now i : 0 < c_interval cfg ->
    pre_cond cfg pv parent b now -> pre_exec_rule i = true -> rule_holds cfg pv parent st0 b now i.
  Proof.
    intros HT (Hf & Hh & (s & mep & Hp) & Hroot & Hb).
    destruct Hh as (H1 & H2 & H3 & H4 & H5 & H6 & H7 & H8 & H9 & H10 & H11).
    destruct Hp as (P1 & P2 & P3 & P4 & P5).
    destruct Hb as (B1 & B2 & B3 & B4 & B5 & B6 & B7).
    pose proof (find_me_addr _ _ _ P2) as Ha.
    assert (TP : Catalogue.the_proposer pv b mep) by (exists s; auto).
    assert (U : forall mep', Catalogue.the_proposer pv b mep' -> mep' = mep)
      by (intros mep'; apply (the_proposer_unique pv b s mep mep' P1 P2)).
    assert (R1 : rule_holds cfg pv parent st0 b now 1) by exact H1.
    assert (R2 : rule_holds cfg pv parent st0 b now 2) by exact H2.
    assert (R4 : rule_holds cfg pv parent st0 b now 4) by exact H4.
    assert (R5 : rule_holds cfg pv parent st0 b now 5) by exact H5.
    assert (R6 : rule_holds cfg pv parent st0 b now 6) by exact H6.
    assert (R7 : rule_holds cfg pv parent st0 b now 7) by exact H7.
    assert (R8 : rule_holds cfg pv parent st0 b now 8) by exact H8.
    assert (R9 : rule_holds cfg pv parent st0 b now 9) by exact H9.
    assert (R10 : rule_holds cfg pv parent st0 b now 10) by exact H10.
    assert (R11 : rule_holds cfg pv parent st0 b now 11) by exact H11.
    assert (R12 : rule_holds cfg pv parent st0 b now 12) by exact Hf.
    assert (R20 : rule_holds cfg pv parent st0 b now 20) by (exists mep; exact TP).
    assert (R21 : rule_holds cfg pv parent st0 b now 21).
    { intros mep' T. apply U in T. subst mep'. rewrite Ha. apply (is_the_time_iff_owner _ _ _ _ _ _ _ _ HT P2) in P3. apply P3. }
    assert (R22 : rule_holds cfg pv parent st0 b now 22).
    { intros mep' T. apply U in T. subst mep'. exact P4. }
    assert (R23 : rule_holds cfg pv parent st0 b now 23).
    { intros Hpos s' bnf Hs Hl. rewrite P1 in Hs. inversion Hs; subst s'. exact (P5 Hpos _ Hl). }
    assert (R30 : rule_holds cfg pv parent st0 b now 30) by exact Hroot.
    assert (R31 : rule_holds cfg pv parent st0 b now 31) by exact B1.
    assert (R32 : rule_holds cfg pv parent st0 b now 32) by exact B2.
    assert (R33 : rule_holds cfg pv parent st0 b now 33) by exact B3.
    assert (R34 : rule_holds cfg pv parent st0 b now 34) by exact B4.
    assert (R35 : rule_holds cfg pv parent st0 b now 35) by exact B5.
    assert (R36 : rule_holds cfg pv parent st0 b now 36) by exact B6.
    assert (R37 : rule_holds cfg pv parent st0 b now 37) by exact B7.
    clear - R1 R2 R4 R5 R6 R7 R8 R9 R10 R11 R12 R20 R21 R22 R23 R30 R31 R32 R33 R34 R35 R36 R37.
    unfold pre_exec_rule. destruct i as [|p]; [discriminate|].
    do 6 (try destruct p as [p|p|]); cbn; try discriminate; intros _; assumption.
  Qed.

  (* an `Other`-class rejection comes out of the transaction loop / reward hook: everything checked before held *)
  Lemma other_class_after_pre_checks cfg pv parent st0 b now r : wf_gas parent b -> parent_sane cfg parent ->
    process cfg pv parent st0 b now = Rejected State (Other r) -> pre_cond cfg pv parent b now.
  Proof.
    intros [Wg Wp] Sane. unfold Body.process, pre_cond.
    destruct (N.eqb_spec (h_features (b_header b)) (features_at cfg (h_number parent + 1))) as [Ef|Ef]; cbn [negb]; [|discriminate].
    destruct (validate_header cfg parent (b_header b) now) eqn:Eh;
      try (intros E; inversion E; subst; apply (validate_header_class _ _ _ _ _ Sane) in Eh; contradiction); try discriminate.
    apply (validate_header_accept_iff _ _ _ _ Wg Wp) in Eh.
    destruct (validate_proposer cfg pv parent (b_header b)) as [ups|v] eqn:Ep.
    2:{ intros E. inversion E; subst. apply validate_proposer_class in Ep. discriminate. }
    apply validate_proposer_ok_iff in Ep. destruct Ep as (s & mep & Ep & _).
    destruct (N.eqb_spec (h_txs_root (b_header b)) (root_of_txs (b_txs b))) as [Er|Er]; cbn [negb]; [|discriminate].
    destruct (body_txs_check _ _ _ _) eqn:Eb; [discriminate|].
    apply body_txs_check_iff, body_rules_iff in Eb. intros _.
    split; [exact Ef|]. split; [exact Eh|]. split; [exists s, mep; exact Ep|]. split; [exact Er | exact Eb].
  Qed.

  (* a breach of ANY rule checked before execution is consensus-critical, whether or not the transactions would execute
     (e.g. an unrecoverable origin, which also makes the runtime refuse the tx) — only the clock rule 3 is needed *)
  Theorem pre_execution_breach_rejected_critical_lemma cfg pv parent st0 b now i :
    0 < c_interval cfg -> wf_gas parent b -> parent_sane cfg parent ->
    rule_holds cfg pv parent st0 b now 3 -> pre_exec_rule i = true -> ~ rule_holds cfg pv parent st0 b now i ->
    exists r, process cfg pv parent st0 b now = Rejected State (Critical r).
  Proof.
    intros HT W Sane H3 Hpre Hi.
    destruct (process cfg pv parent st0 b now) as [st2 rcs|v] eqn:Ep.
    - exfalso. apply Hi. apply (accept_iff_rules_lemma _ _ _ _ _ _ HT W). exists st2, rcs. exact Ep.
    - pose proof (process_reject_class _ _ _ _ _ _ _ Sane Ep) as C.
      destruct v as [| |r|r|]; try contradiction; [exists r; reflexivity|].
      exfalso. apply Hi. apply (pre_cond_rules _ _ _ _ _ _ _ HT (other_class_after_pre_checks _ _ _ _ _ _ _ W Sane Ep) Hpre).
  Qed.

  (* a rejected block whose class is not critical names which rule failed *)
  Theorem rejected_not_accepting cfg pv parent st0 b now v : 0 < c_interval cfg -> wf_gas parent b ->
    process cfg pv parent st0 b now = Rejected State v -> ~ all_rules cfg pv parent st0 b now.
  Proof.
    intros HT W E A. apply (accept_iff_rules_lemma _ _ _ _ _ _ HT W) in A. destruct A as (? & ? & A). congruence.
  Qed.

  (* ---------------------------------------------------------------- node import *)
  Notation import := (import State exec apply_updates rewards sanity root_of_state root_of_receipts root_of_txs has_tx find_meta).

  (* REMARK (follows the shape of executeAndCommitBlock in the model: every write is issued after cons.Process returned nil):
     a rejected block issues no repository write, hence leaves the repository as it was.  On the implementation this is
     what the harness tests (Process level and on a real node.Node); node-local state outside the repository (the
     validators cache — Remove(parent) also runs for rejected blocks —, the seeder cache) is not part of `repo`. *)
  Lemma rejected_issues_no_write known ps ba v b conflicts best :
    import_writes State known ps ba (Rejected State v) b conflicts best = [].
  Proof. unfold import_writes. destruct known, ps, ba; reflexivity. Qed.

  Theorem rejected_leaves_no_trace_lemma cfg pv parent st0 rp b now conflicts known ps ba best rp' v :
    import cfg pv parent st0 rp b now conflicts known ps ba best = (rp', Rejected State v) -> rp' = rp.
  Proof.
    unfold Body.import. intros E. inversion E as [[E1 E2]]. rewrite E2. rewrite rejected_issues_no_write. reflexivity.
  Qed.

  Theorem accepted_import_writes cfg pv parent st0 rp b now conflicts best rp' st rcs :
    0 < c_interval cfg -> wf_gas parent b ->
    import cfg pv parent st0 rp b now conflicts false true true best = (rp', Accepted State st rcs) ->
    rp_blocks State rp' = (b, rcs, conflicts) :: rp_blocks State rp /\ rp_states State rp' = st :: rp_states State rp /\
    all_rules cfg pv parent st0 b now.
  Proof.
    intros HT W. unfold Body.import. intros E. inversion E as [[E1 E2]]. rewrite E2. cbn.
    repeat split. apply (accept_iff_rules_lemma _ _ _ _ _ _ HT W). eauto.
  Qed.
End Proofs.
