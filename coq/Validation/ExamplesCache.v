(* Validation/ExamplesCache.v — the hypotheses of the cache theorems instantiated on concrete histories in which the
   candidate list, the endorsement selection and the leader group REALLY change (Authority event, endorsor transfer,
   Params event, activity updates; housekeeping and BeneficiarySet), and the theorems applied to them. *)
From Coq Require Import List NArith Bool Lia.
From Verif Require Import Common.Util Sched.Model Header.Rules Validation.Cache Validation.ProofsCache.
Import ListNotations.
Open Scope N_scope.

(* ================================================================ PoA: blocks 0 -> 1 -> 2 -> 3 -> 4 *)
Definition A := mkAC 1 10 true.
Definition B := mkAC 2 20 true.
Definition C := mkAC 3 30 false.
Definition D := mkAC 4 40 true.

(* block 1: Authority event (D added).  block 2: proposer 3 re-activated; VET transfer from endorsor 20 (B under-funded
   afterwards).  block 3: nothing watched; master 1 missed its slot.  block 4: Params event (max proposers 3 -> 2). *)
Definition x_ups (b : N) : list (N * bool) :=
  match b with 2 => [(3, true)] | 3 => [(1, false)] | _ => [] end.
Definition x_ev (b : N) : events :=
  match b with
  | 1 => mkEv true false false false []
  | 2 => mkEv false false false false [20; 77]
  | 4 => mkEv false true false false []
  | _ => mkEv false false false false [55; 66]
  end.
Definition x_all (b : N) : list acand :=
  match b with
  | 0 => [A; B; C]
  | 1 => [A; B; C; D]
  | 2 => [A; B; mkAC 3 30 true; D]
  | _ => [mkAC 1 10 false; B; mkAC 3 30 true; D]
  end.
Definition x_funded (b : N) (m e : N) : bool := if 2 <=? b then negb (e =? 20) else true.
Definition x_mbp (b : N) : N := if 4 <=? b then 2 else 3.
Definition x_child (p b : N) : Prop := b = p + 1 /\ p < 4.
(* the verdict = the proposers the validator used (so that a wrong list would show) *)
Definition x_judge (props : list acand) (p b : N) : list acand * option (list (N * bool) * events) :=
  (props, Some (x_ups b, x_ev b)).

Lemma x_cases p : p < 4 -> p = 0 \/ p = 1 \/ p = 2 \/ p = 3.
Proof. lia. Qed.

Lemma x_hyp1 p b ups ev : x_child p b ->
  snd (x_judge (poa_fresh N x_all x_funded x_mbp p) p b) = Some (ups, ev) -> ev_authority ev = false ->
  x_all b = apply_updates_list (x_all p) ups.
Proof.
  intros [-> Hp] E Ha. cbn [x_judge snd] in E. inversion E; subst ups ev. clear E.
  destruct (x_cases p Hp) as [-> | [-> | [-> | ->]]]; vm_compute in Ha |- *; try discriminate; reflexivity.
Qed.

Lemma x_hyp2 p b ups ev : x_child p b ->
  snd (x_judge (poa_fresh N x_all x_funded x_mbp p) p b) = Some (ups, ev) ->
  ((fun _ : N => false) b && ev_staker ev) = false -> ev_params ev = false ->
  (forall a, In a (ev_parties ev) -> existsb (fun c => ac_endorsor c =? a) (x_all p) = false) ->
  (forall c, In c (x_all p) -> x_funded b (ac_master c) (ac_endorsor c) = x_funded p (ac_master c) (ac_endorsor c)) /\
  x_mbp b = x_mbp p.
Proof.
  intros [-> Hp] E _ Hpar Hpt. cbn [x_judge snd] in E. inversion E; subst ups ev. clear E.
  destruct (x_cases p Hp) as [-> | [-> | [-> | ->]]].
  - split; [intros c _; reflexivity | reflexivity].
  - exfalso. specialize (Hpt 20 (or_introl eq_refl)). vm_compute in Hpt. discriminate.
  - split; [intros c _; reflexivity | reflexivity].
  - vm_compute in Hpar. discriminate.
Qed.

Definition x_steps : list (N * N) := [(0, 1); (1, 2); (2, 3); (3, 4); (2, 3); (3, 4)].

(* the hypotheses hold on this history, so the warm validator judges every step as a cold one ... *)
Example poa_cache_hypotheses_instance :
  poa_run N N.eqb (list acand) x_all x_funded x_mbp (fun _ => false) x_judge [] x_steps =
  map (fun pb => poa_fresh N x_all x_funded x_mbp (fst pb)) x_steps.
Proof.
  rewrite (poa_run_is_cold N N.eqb N.eqb_eq (list acand) x_child x_all x_funded x_mbp (fun _ => false) x_judge x_hyp1 x_hyp2
             x_steps [] ltac:(intros b e X; discriminate)).
  - reflexivity.
  - unfold x_steps, x_child. repeat constructor; cbn; lia.
Qed.

(* ... and the history is not trivial: the proposer list differs from block to block, the cache really holds, drops and
   invalidates entries (entry for 1: none — Authority event; for 2: list kept, selection dropped — endorsor transfer;
   for 3: list and selection kept; for 4: selection dropped — Params event) *)
Example poa_cache_history_nontrivial :
  map ac_master (poa_fresh N x_all x_funded x_mbp 0) = [1; 2; 3] /\
  map ac_master (poa_fresh N x_all x_funded x_mbp 1) = [1; 2; 3] /\
  map ac_master (poa_fresh N x_all x_funded x_mbp 2) = [1; 3; 4] /\
  map ac_active (poa_fresh N x_all x_funded x_mbp 3) = [false; true; true] /\
  map ac_master (poa_fresh N x_all x_funded x_mbp 4) = [1; 3] /\
  let c4 := fold_left (fun c pb => fst (poa_step N N.eqb (list acand) x_all x_funded x_mbp (fun _ => false) x_judge c (fst pb) (snd pb)))
                      [(0, 1); (1, 2); (2, 3); (3, 4)] [] in
  pget N N.eqb c4 1 = None /\
  option_map ce_sat (pget N N.eqb c4 2) = Some [] /\
  option_map ce_sat (pget N N.eqb c4 3) = Some [0; 2; 3]%nat /\
  option_map ce_sat (pget N N.eqb c4 4) = Some [].
Proof. vm_compute. repeat split; reflexivity. Qed.

(* the same history with an LRU that loses entries between validations (here: everything, twice) *)
Definition x_lossy_steps : list ((pcache N -> pcache N) * (N * N)) :=
  [(fun c => c, (0, 1)); (fun c => c, (1, 2)); (fun _ => [], (2, 3)); (fun c => c, (3, 4)); (fun _ => [], (3, 4)); (fun c => c, (2, 3))].

Example poa_cache_lossy_instance :
  poa_run_lossy N N.eqb (list acand) x_all x_funded x_mbp (fun _ => false) x_judge [] x_lossy_steps =
  map (fun s => poa_fresh N x_all x_funded x_mbp (fst (snd s))) x_lossy_steps.
Proof.
  rewrite (poa_run_lossy_is_cold N N.eqb N.eqb_eq (list acand) x_child x_all x_funded x_mbp (fun _ => false) x_judge x_hyp1 x_hyp2
             x_lossy_steps [] ltac:(intros b e X; discriminate)).
  - reflexivity.
  - unfold x_lossy_steps, x_child, only_loses_p.
    repeat constructor; cbn [fst snd]; try lia; try (intros c b e X; exact X); try (intros c b e X; discriminate X).
Qed.

(* ================================================================ PoS: blocks 0 -> 1 -> 2 -> 3 *)
Definition L1 := mkC (mkP 1 true 60) 0 0 None.
Definition L2 := mkC (mkP 2 true 40) 0 0 None.
Definition L2b := mkC (mkP 2 true 40) 0 0 (Some 99).
Definition L3 := mkC (mkP 3 true 25) 0 0 None.

(* after block 1 housekeeping for height 2 activates validator 3; block 3 contains setBeneficiary(2, 99) *)
Definition y_hk (p : N) : bool := p =? 1.
Definition y_pre (b : N) : list cand := match b with 0 | 1 => [L1; L2] | 2 => [L1; L2; L3] | _ => [L1; L2b; L3] end.
Definition y_of (b : N) : list cand := match b with 0 => [L1; L2] | 1 | 2 => [L1; L2; L3] | _ => [L1; L2b; L3] end.
Definition y_ev (b : N) : events := mkEv false false (b =? 3) (b =? 3) [].
Definition y_judge (ls : list cand) (p b : N) : list cand * option (list (N * bool) * events) := (ls, Some ([], y_ev b)).
Definition y_child (p b : N) : Prop := b = p + 1 /\ p < 3.

Lemma y_hyp1 p : y_hk p = false -> y_of p = y_pre p.
Proof.
  unfold y_hk. intros H. apply N.eqb_neq in H. destruct p as [|[q|q|]]; try reflexivity; try contradiction; destruct q; reflexivity.
Qed.

Lemma y_hyp2 p b ev : y_child p b -> snd (y_judge (y_of p) p b) = Some ([], ev) -> ev_beneficiary_set ev = false ->
  y_pre b = y_of p.
Proof.
  intros [-> Hp] E Hb. cbn [y_judge snd] in E. inversion E; subst ev. clear E.
  assert (Hc : p = 0 \/ p = 1 \/ p = 2) by lia. destruct Hc as [-> | [-> | ->]]; vm_compute in Hb |- *; try discriminate; reflexivity.
Qed.

Definition y_steps : list (N * N) := [(0, 1); (1, 2); (2, 3); (1, 2); (2, 3)].

Example pos_cache_hypotheses_instance :
  pos_run N N.eqb (list cand) y_hk y_of y_judge [] y_steps = map (fun pb => y_of (fst pb)) y_steps.
Proof.
  rewrite (pos_run_is_cold N N.eqb N.eqb_eq (list cand) y_child y_hk y_of y_pre y_judge y_hyp1 y_hyp2
             y_steps [] ltac:(intros b e X; discriminate)).
  - reflexivity.
  - unfold y_steps, y_child. repeat constructor; cbn; lia.
Qed.

(* the leader group changes by housekeeping (after block 1) and by BeneficiarySet (block 3); the cache holds an entry for
   blocks 1 and 2, drops the one for 1 when housekeeping reports updates, and stores none for block 3 *)
Example pos_cache_history_nontrivial :
  y_of 0 <> y_of 1 /\ y_pre 3 <> y_of 2 /\
  let c := fold_left (fun c pb => fst (pos_step N N.eqb (list cand) y_hk y_of y_judge c (fst pb) (snd pb))) [(0, 1); (1, 2); (2, 3)] [] in
  sget N N.eqb c 1 = None /\ sget N N.eqb c 2 = Some [L1; L2; L3] /\ sget N N.eqb c 3 = None.
Proof. split; [discriminate|]. split; [discriminate|]. vm_compute. repeat split; reflexivity. Qed.
