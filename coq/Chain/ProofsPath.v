(* Chain/ProofsPath.v — paths as lists: every stored block has one, it lists exactly the ancestors in descending
   height; the path of c splits at the fork point with o into Exclude(c, o) (reversed) and the common path. *)
From Coq Require Import List NArith Bool Lia ZifyN ZifyNat ZifyBool Wf_nat Arith Sorted.
From Verif Require Import Chain.Model Chain.Proofs Chain.ProofsWalk Chain.ProofsSys.
Import ListNotations.
Open Scope N_scope.

Definition desc (l : list N) : Prop := StronglySorted (fun a b => num_of b < num_of a) l.

(* two lists strictly sorted by height with the same members are equal *)
Lemma asc_unique l1 : forall l2, asc l1 -> asc l2 -> (forall a, In a l1 <-> In a l2) -> l1 = l2.
Proof.
  unfold asc. induction l1 as [|h1 t1 IH]; intros l2 S1 S2 M.
  - destruct l2 as [|h2 t2]; [reflexivity|]. exfalso. apply (M h2). left. reflexivity.
  - destruct l2 as [|h2 t2]; [exfalso; apply (M h1); left; reflexivity|].
    inversion S1 as [|? ? St1 F1]; subst. inversion S2 as [|? ? St2 F2]; subst.
    rewrite Forall_forall in F1, F2.
    assert (E : h1 = h2).
    { assert (I1 : In h1 (h2 :: t2)) by (apply M; left; reflexivity).
      assert (I2 : In h2 (h1 :: t1)) by (apply M; left; reflexivity).
      destruct I1 as [E|I1]; [congruence|]. destruct I2 as [E|I2]; [congruence|].
      pose proof (F2 _ I1). pose proof (F1 _ I2). lia. }
    subst h2. f_equal. apply IH; auto. intros a. split; intros Ha.
    + assert (I : In a (h1 :: t2)) by (apply M; right; exact Ha). destruct I as [E|I]; [|exact I].
      subst a. pose proof (F1 _ Ha). lia.
    + assert (I : In a (h1 :: t1)) by (apply M; right; exact Ha). destruct I as [E|I]; [|exact I].
      subst a. pose proof (F2 _ Ha). lia.
Qed.

Lemma desc_rev_asc l : desc l -> asc (rev l).
Proof.
  unfold desc, asc. induction 1 as [|h t St IH Ft]; cbn [rev]; [constructor|].
  revert IH. generalize (rev_involutive t). intros _ IH.
  assert (Hall : forall a, In a (rev t) -> num_of a < num_of h).
  { intros a Ha. apply in_rev in Ha. rewrite Forall_forall in Ft. apply Ft. exact Ha. }
  clear St Ft. induction (rev t) as [|x l IHl]; cbn [app]; [repeat constructor|].
  inversion IH as [|? ? Sl Fl]; subst. constructor.
  - apply IHl; auto. intros a Ha. apply Hall. right. exact Ha.
  - rewrite Forall_forall in *. intros a Ha. apply in_app_or in Ha. destruct Ha as [Ha|[<-|[]]]; [apply Fl; exact Ha|].
    apply Hall. left. reflexivity.
Qed.

Lemma desc_app_lt pre suf : desc (pre ++ suf) -> forall a b, In a pre -> In b suf -> num_of b < num_of a.
Proof.
  unfold desc. induction pre as [|h t IH]; intros S a b Ha Hb; [destruct Ha|]. cbn [app] in S.
  inversion S as [|? ? St Ft]; subst. destruct Ha as [<-|Ha]; [|eapply IH; eauto].
  rewrite Forall_forall in Ft. apply Ft. apply in_or_app. right. exact Hb.
Qed.

Lemma desc_app_l pre suf : desc (pre ++ suf) -> desc pre.
Proof.
  unfold desc. induction pre as [|h t IH]; intros S; [constructor|]. cbn [app] in S.
  inversion S as [|? ? St Ft]; subst. constructor; [apply IH; exact St|].
  rewrite Forall_forall in *. intros a Ha. apply Ft. apply in_or_app. left. exact Ha.
Qed.

Section Paths.
  Variables (g gp : N) (r : repo).
  Hypothesis W : wf g gp r.

  Lemma path_exists h : stored r h -> exists st, is_path r h st.
  Proof.
    remember (N.to_nat (num_of h)) as k eqn:Hk. revert h Hk.
    induction k as [k IH] using lt_wf_ind. intros h Hk [s Hs].
    destruct (N.eq_dec h g) as [->|Hg].
    - exists [g]. rewrite <- (w_gen _ _ _ W). constructor.
    - destruct (w_par _ _ _ W _ _ Hs Hg) as [ps [Hps [En _]]].
      destruct (IH (N.to_nat (num_of (s_parent s))) ltac:(lia) (s_parent s) eq_refl (ex_intro _ ps Hps)) as [st Hst].
      exists (h :: st). eapply path_step; eauto. rewrite (w_gen _ _ _ W). exact Hg.
  Qed.

  Lemma path_members h st : is_path r h st -> forall a, In a st <-> anc r h a.
  Proof.
    induction 1 as [|h s l Hs Hg Hp IH]; intros a.
    - rewrite (w_gen _ _ _ W). cbn [In]. split.
      + intros [<-|[]]. eapply anc_refl. apply (w_gsum _ _ _ W).
      + intros Ha. left. symmetry. apply (anc_gen_inv g gp r W). exact Ha.
    - cbn [In]. rewrite IH. split.
      + intros [<-|Ha]; [eapply anc_refl; eauto | eapply anc_step; eauto].
      + intros Ha. inversion Ha as [|h' s' a' Hs' Hg' Hp']; subst; [left; reflexivity|].
        right. rewrite Hs in Hs'. injection Hs' as <-. exact Hp'.
  Qed.

  Lemma path_desc h st : is_path r h st -> desc st.
  Proof.
    unfold desc. induction 1 as [|h s l Hs Hg Hp IH]; [repeat constructor|].
    constructor; [exact IH|]. apply Forall_forall. intros a Ha.
    apply (path_members _ _ Hp) in Ha. pose proof (anc_height g gp r W _ _ Ha).
    rewrite (w_gen _ _ _ W) in Hg. destruct (w_par _ _ _ W _ _ Hs Hg) as [ps [_ [En _]]]. lia.
  Qed.

  (* the path of c splits into the blocks that are not on o's chain and the path of the fork point *)
  Lemma split_path c o st : is_path r c st -> stored r o ->
    exists pre suf F, st = pre ++ suf /\ is_path r F suf /\ anc r o F /\ anc r c F /\
                      (forall a, In a pre -> ~ anc r o a).
  Proof.
    intros Hp So. induction Hp as [|h s l Hs Hg Hp IH].
    - exists [], [r_gen r], (r_gen r). rewrite (w_gen _ _ _ W). repeat split.
      + rewrite <- (w_gen _ _ _ W). constructor.
      + apply (anc_to_gen g gp r W). exact So.
      + eapply anc_refl. apply (w_gsum _ _ _ W).
      + intros a [].
    - destruct (has_block_spec g gp r W o h So) as [v [_ Hv]]. destruct v.
      + exists [], (h :: l), h. repeat split.
        * eapply path_step; eauto.
        * apply Hv. reflexivity.
        * eapply anc_refl; eauto.
        * intros a [].
      + destruct IH as [pre [suf [F [E [PF [AoF [AcF Hpre]]]]]]].
        exists (h :: pre), suf, F. repeat split; auto.
        * cbn [app]. congruence.
        * eapply anc_step; eauto.
        * intros a [<-|Ha]; [intros X; apply Hv in X; discriminate | apply Hpre; exact Ha].
  Qed.

  (* Exclude(c, o) is that prefix, oldest first; both splits share the same fork path *)
  Lemma exclude_is_prefix c o st_c st_o : is_path r c st_c -> is_path r o st_o ->
    exists pre_c pre_o suf,
      st_c = pre_c ++ suf /\ st_o = pre_o ++ suf /\
      exclude r c o = Ok (rev pre_c) /\ exclude r o c = Ok (rev pre_o).
  Proof.
    intros Pc Po.
    pose proof (path_stored g gp r W _ _ Pc) as Sc. pose proof (path_stored g gp r W _ _ Po) as So.
    destruct (split_path c o st_c Pc So) as [pre_c [suf_c [Fc [Ec [PFc [AoFc [AcFc Hc]]]]]]].
    destruct (split_path o c st_o Po Sc) as [pre_o [suf_o [Fo [Eo [PFo [AcFo [AoFo Ho]]]]]]].
    (* the two fork points coincide *)
    assert (Fc_in : In Fo suf_c).
    { assert (I : In Fo st_c) by (apply (path_members _ _ Pc); exact AcFo).
      rewrite Ec in I. apply in_app_or in I. destruct I as [I|I]; [|exact I]. exfalso. apply (Hc _ I). exact AoFo. }
    assert (Fo_in : In Fc suf_o).
    { assert (I : In Fc st_o) by (apply (path_members _ _ Po); exact AoFc).
      rewrite Eo in I. apply in_app_or in I. destruct I as [I|I]; [|exact I]. exfalso. apply (Ho _ I). exact AcFc. }
    apply (path_members _ _ PFc) in Fc_in. apply (path_members _ _ PFo) in Fo_in.
    assert (EF : Fc = Fo).
    { pose proof (anc_height g gp r W _ _ Fc_in). pose proof (anc_height g gp r W _ _ Fo_in).
      symmetry. apply (anc_same_height g gp r W _ _ Fc_in). lia. }
    subst Fo. assert (Es : suf_o = suf_c) by (eapply path_unique; eauto). subst suf_o.
    exists pre_c, pre_o, suf_c. split; [exact Ec|]. split; [exact Eo|].
    (* Exclude by uniqueness of sorted lists *)
    assert (Ex : forall c o st pre suf F, is_path r c st -> stored r o -> st = pre ++ suf -> is_path r F suf -> anc r o F ->
                 (forall a, In a pre -> ~ anc r o a) -> exclude r c o = Ok (rev pre)).
    { clear - W. intros c o st pre suf F Pc So E PF AoF Hpre.
      pose proof (path_stored g gp r W _ _ Pc) as Sc.
      destruct (exclude_spec g gp r W c o Sc So) as [l [El [Ml Sl]]]. rewrite El. f_equal.
      apply asc_unique; auto.
      - apply desc_rev_asc. apply (desc_app_l pre suf). rewrite <- E. eapply path_desc; eauto.
      - intros a. rewrite Ml, <- in_rev. split.
        + intros [Ha Hn]. apply (path_members _ _ Pc) in Ha. rewrite E in Ha. apply in_app_or in Ha.
          destruct Ha as [Ha|Ha]; [exact Ha|]. exfalso. apply Hn. apply (path_members _ _ PF) in Ha.
          eapply anc_trans; eauto.
        + intros Ha. split; [|apply Hpre; exact Ha]. apply (path_members _ _ Pc). rewrite E. apply in_or_app. left. exact Ha. }
    split; [eapply Ex; eauto | eapply Ex; eauto].
  Qed.
End Paths.

(* blocks stored before an AddBlock keep their content *)
Lemma get_block_old g gp r r' b conf best id s :
  wf g gp r -> valid_add r b conf -> add_block r b conf best = Some r' ->
  get_summary r id = Some s -> get_block r' id = get_block r id.
Proof.
  intros W V A Hs. unfold get_block. rewrite (add_summary_old _ _ _ _ _ V A _ _ Hs), Hs.
  destruct (add_parent _ _ _ _ _ A) as [ps [_ ->]]. cbn [r_body save_block]. rewrite afind2_cons.
  destruct (eq2 _ _) eqn:E; [|reflexivity]. apply eq2_spec in E. injection E as E1 E2.
  pose proof (w_conf _ _ _ W _ _ Hs) as C. destruct V as [_ [_ [_ [Hc _]]]]. rewrite E1 in Hc. lia.
Qed.

Lemma get_block_new r r' b conf best :
  add_block r b conf best = Some r' ->
  get_block r' (b_id b) = Some (mkS (b_id b) (b_parent b) (map tx_id (b_txs b)) conf, b).
Proof.
  intros A. unfold get_block. rewrite (add_summary _ _ _ _ _ A), N.eqb_refl.
  destruct (add_parent _ _ _ _ _ A) as [ps [_ ->]]. cbn [r_body save_block s_conf]. rewrite afind2_cons.
  replace (eq2 _ _) with true by (symmetry; apply eq2_spec; reflexivity). reflexivity.
Qed.
