(* Chain/ProofsHeads.v — the heads store holds exactly the branch tips (stored blocks without stored children);
   ScanHeads(from) lists the tips at heights >= from (C14: Repository.ScanHeads). *)
From Coq Require Import List NArith Bool Lia ZifyN ZifyNat ZifyBool.
From Verif Require Import Chain.Model Chain.Proofs Chain.ProofsWalk Chain.ProofsSys.
Import ListNotations.
Open Scope N_scope.

Lemma insert_asc_in x l y : In y (insert_asc x l) <-> y = x \/ In y l.
Proof.
  induction l as [|h t IH]; cbn [insert_asc In]; [intuition congruence|].
  destruct (N.eqb_spec x h) as [->|]; [cbn [In]; intuition congruence|].
  destruct (x <? h); cbn [In]; [intuition congruence|]. rewrite IH. intuition congruence.
Qed.

Definition is_tip (r : repo) (h : N) : Prop :=
  stored r h /\ forall c s, get_summary r c = Some s -> c <> r_gen r -> s_parent s <> h.

Definition heads_ok (r : repo) : Prop := forall h, In h (r_heads r) <-> is_tip r h.

Lemma heads_ok_init g gp tag : heads_ok (init_repo g gp tag).
Proof.
  intros h. cbn [r_heads init_repo In]. unfold is_tip, stored, get_summary. cbn [r_sums init_repo afind r_gen]. split.
  - intros [<-|[]]. rewrite N.eqb_refl. split; [eauto|]. intros c s. destruct (N.eqb_spec g c); [intros _ Hc; congruence | discriminate].
  - intros [[s Hs] _]. destruct (N.eqb_spec g h); [auto | discriminate].
Qed.

Lemma heads_ok_add g gp r r' b conf best :
  wf g gp r -> num_of gp = max_u32 -> heads_ok r -> valid_add r b conf -> add_block r b conf best = Some r' -> heads_ok r'.
Proof.
  intros W Hgp HO V A h.
  destruct (add_parent _ _ _ _ _ A) as [ps [Hps Er']].
  assert (Eh : r_heads r' = insert_asc (b_id b) (filter (fun x => negb (x =? b_parent b)) (r_heads r))) by (rewrite Er'; reflexivity).
  assert (Eg : r_gen r' = r_gen r) by (rewrite Er'; reflexivity).
  assert (Fresh : ~ stored r (b_id b)) by (apply (add_new_not_stored r b conf V)).
  rewrite Eh, insert_asc_in, filter_In, negb_true_iff, N.eqb_neq, (HO h). unfold is_tip, stored. rewrite Eg.
  split.
  - intros [->|[[[s Hs] Hc] Hne]].
    + split; [rewrite (add_summary _ _ _ _ _ A), N.eqb_refl; eauto|].
      intros c s. rewrite (add_summary _ _ _ _ _ A). destruct (N.eqb_spec (b_id b) c) as [E|NE].
      * intros E' _. injection E' as <-. cbn [s_parent]. intros E2. apply Fresh. rewrite <- E2. exists ps. exact Hps.
      * intros Hs Hg E2. apply Fresh. rewrite (w_gen _ _ _ W) in Hg. destruct (w_par _ _ _ W _ _ Hs Hg) as [pp [Hpp _]].
        rewrite <- E2. exists pp. exact Hpp.
    + split; [exists s; eapply add_summary_old; eauto|].
      intros c sc. rewrite (add_summary _ _ _ _ _ A). destruct (N.eqb_spec (b_id b) c) as [E|NE].
      * intros E' _. injection E' as <-. cbn [s_parent]. congruence.
      * apply Hc.
  - intros [[s Hs] Hc]. rewrite (add_summary _ _ _ _ _ A) in Hs. destruct (N.eqb_spec (b_id b) h) as [E|NE]; [left; congruence|].
    right. split; [split; [eauto|]|].
    + intros c sc Hsc Hg. apply (Hc c sc); [eapply add_summary_old; eauto | exact Hg].
    + intros E. apply (Hc (b_id b) (mkS (b_id b) (b_parent b) (map tx_id (b_txs b)) conf)).
      * rewrite (add_summary _ _ _ _ _ A), N.eqb_refl. reflexivity.
      * rewrite (w_gen _ _ _ W). apply (add_ne_g g gp r b conf W V).
      * cbn [s_parent]. congruence.
Qed.

Lemma reachable_heads_ok g gp tag adm r : num_of g = 0 -> num_of gp = max_u32 -> reachable g gp tag adm r -> heads_ok r.
Proof.
  intros Hg Hgp H. induction H.
  - apply heads_ok_init.
  - eapply heads_ok_add; eauto. eapply reachable_wf; eauto.
Qed.

Lemma scan_heads_spec r from h : heads_ok r -> (In h (scan_heads r from) <-> is_tip r h /\ from <= num_of h).
Proof. intros HO. unfold scan_heads. rewrite <- in_rev, filter_In, N.leb_le, (HO h). tauto. Qed.

(* GetConflicts(n): exactly the stored blocks of height n *)
Lemma get_conflicts_spec r n id : In id (get_conflicts r n) <-> stored r id /\ num_of id = n.
Proof.
  unfold get_conflicts, stored, get_summary.
  induction (r_sums r) as [|[k v] l IH]; cbn [filter map fold_right afind fst].
  - split; [intros [] | intros [[s Hs] _]; discriminate].
  - destruct (N.eqb_spec (num_of k) n) as [E|NE]; cbn [map fold_right].
    + rewrite insert_asc_in, IH. cbn [fst]. destruct (N.eqb_spec k id) as [->|Nk].
      * split; [intros _; split; [eauto | exact E] | intros _; left; reflexivity].
      * split; [intros [->|H]; [congruence | exact H] | intros H; right; exact H].
    + rewrite IH. destruct (N.eqb_spec k id) as [->|Nk]; [|tauto].
      split; [intros [_ H]; congruence | intros [_ H]; congruence].
Qed.
