(* Chain/ProofsTx.v — the tx index: every entry comes from a stored block, every inclusion has an entry; what
   GetTransactionMeta and the two paths of HasTransaction compute on the chain of any head (C09, second sentence). *)
From Coq Require Import List NArith Bool Lia ZifyN ZifyNat ZifyBool Wf_nat Arith.
From Verif Require Import Chain.Model Chain.Proofs Chain.ProofsWalk.
Import ListNotations.
Open Scope N_scope.

(* ---------------------------------------------------------------- conflicts identify *)
Definition conf_inj (r : repo) : Prop :=
  forall a sa b sb, get_summary r a = Some sa -> get_summary r b = Some sb ->
                    num_of a = num_of b -> s_conf sa = s_conf sb -> a = b.

Lemma conf_inj_add g gp r r' b conf best :
  wf g gp r -> conf_inj r -> valid_add r b conf -> add_block r b conf best = Some r' -> conf_inj r'.
Proof.
  intros W CI V A x sx y sy. rewrite !(add_summary _ _ _ _ _ A).
  destruct V as [_ [_ [_ [Hc _]]]].
  destruct (N.eqb_spec (b_id b) x) as [Ex|Nx]; destruct (N.eqb_spec (b_id b) y) as [Ey|Ny]; intros Hx Hy En Ec.
  - congruence.
  - injection Hx as <-. cbn [s_conf] in Ec. pose proof (w_conf _ _ _ W _ _ Hy). subst x. rewrite En in Hc. lia.
  - injection Hy as <-. cbn [s_conf] in Ec. pose proof (w_conf _ _ _ W _ _ Hx). subst y. rewrite <- En in Hc. lia.
  - eapply CI; eauto.
Qed.

Lemma reachable_conf_inj g gp tag adm r : num_of g = 0 -> reachable g gp tag adm r -> conf_inj r.
Proof.
  intros Hg H. induction H.
  - intros a sa b sb. unfold get_summary, init_repo. cbn [r_sums afind].
    destruct (N.eqb_spec g a); [|discriminate]. destruct (N.eqb_spec g b); [|discriminate]. congruence.
  - eapply conf_inj_add; eauto. eapply reachable_wf; eauto.
Qed.

(* ---------------------------------------------------------------- the tx index *)
Definition rev_at (rcs : list receipt) (k : nat) : bool :=
  match nth_error rcs k with Some rc => rc_rev rc | None => false end.

Definition same_key (e : txent) (x n c : N) : Prop := e_tx e = x /\ e_num e = n /\ e_conf e = c.

Lemma key_eq_spec a b : key_eq a b = true <-> same_key a (e_tx b) (e_num b) (e_conf b).
Proof. unfold key_eq, same_key. rewrite !andb_true_iff, !N.eqb_eq. tauto. Qed.

Lemma txi_put_in e l e' : In e' (txi_put e l) -> e' = e \/ In e' l.
Proof.
  induction l as [|x t IH]; cbn [txi_put In]; [intuition congruence|].
  destruct (key_eq e x); [cbn [In]; intuition congruence|]. destruct (key_lt e x); cbn [In]; [intuition congruence|].
  intros [->|H]; [tauto|]. destruct (IH H); tauto.
Qed.

Lemma txi_put_self e l : In e (txi_put e l).
Proof.
  induction l as [|x t IH]; cbn [txi_put]; [left; reflexivity|].
  destruct (key_eq e x); [left; reflexivity|]. destruct (key_lt e x); [left; reflexivity | right; exact IH].
Qed.

Lemma txi_put_key e l x n c : (exists e', In e' l /\ same_key e' x n c) -> exists e', In e' (txi_put e l) /\ same_key e' x n c.
Proof.
  induction l as [|y t IH]; intros [e' [Hin K]]; [destruct Hin|]. cbn [txi_put].
  destruct (key_eq e y) eqn:Ek.
  - destruct Hin as [<-|Hin].
    + exists e. split; [left; reflexivity|]. apply key_eq_spec in Ek. unfold same_key in *. intuition congruence.
    + exists e'. split; [right; exact Hin | exact K].
  - destruct (key_lt e y).
    + exists e'. split; [right; exact Hin | exact K].
    + destruct Hin as [<-|Hin].
      * exists y. split; [left; reflexivity | exact K].
      * destruct (IH (ex_intro _ e' (conj Hin K))) as [e2 [H2 K2]]. exists e2. split; [right; exact H2 | exact K2].
Qed.

Lemma index_txs_in : forall x rcs num conf i txi e,
  In e (index_txs x rcs num conf i txi) ->
  In e txi \/ exists k t, nth_error x k = Some t /\ e = mkE (tx_id t) num conf (i + N.of_nat k) (rev_at rcs k).
Proof.
  induction x as [|t x IH]; intros rcs num conf i txi e H; cbn [index_txs] in H; [left; exact H|].
  apply IH in H. destruct H as [H|[k [t' [Hk He]]]].
  - apply txi_put_in in H. destruct H as [->|H]; [|left; exact H].
    right. exists O, t. split; [reflexivity|]. f_equal; [lia|]. unfold rev_at. destruct rcs; reflexivity.
  - right. exists (S k), t'. split; [exact Hk|]. rewrite He. f_equal; [lia|]. unfold rev_at. destruct rcs; cbn; [destruct k|]; reflexivity.
Qed.

Lemma index_txs_keep : forall x rcs num conf i txi y n c,
  (exists e, In e txi /\ same_key e y n c) -> exists e, In e (index_txs x rcs num conf i txi) /\ same_key e y n c.
Proof.
  induction x as [|t x IH]; intros rcs num conf i txi y n c H; cbn [index_txs]; [exact H|].
  apply IH. apply txi_put_key. exact H.
Qed.

Lemma index_txs_new : forall x rcs num conf i txi t,
  In t x -> exists e, In e (index_txs x rcs num conf i txi) /\ same_key e (tx_id t) num conf.
Proof.
  induction x as [|t0 x IH]; intros rcs num conf i txi t Hin; [destruct Hin|]. cbn [index_txs].
  destruct Hin as [->|Hin].
  - apply index_txs_keep. eexists. split; [apply txi_put_self|]. repeat split.
  - apply IH. exact Hin.
Qed.

Lemma filt_txs_keep : forall x f k, memN k f = true -> memN k (filt_txs x f) = true.
Proof.
  induction x as [|t x IH]; intros f k H; cbn [filt_txs]; [exact H|]. apply IH.
  destruct (memN (filter_key (tx_id t)) f); [exact H|]. apply memN_In. right. apply memN_In. exact H.
Qed.

Lemma filt_txs_new : forall x f t, In t x -> memN (filter_key (tx_id t)) (filt_txs x f) = true.
Proof.
  induction x as [|t0 x IH]; intros f t Hin; [destruct Hin|]. cbn [filt_txs]. destruct Hin as [->|Hin]; [|apply IH; exact Hin].
  apply filt_txs_keep. destruct (memN (filter_key (tx_id t)) f) eqn:E; [exact E|]. apply memN_In. left. reflexivity.
Qed.

(* an entry points at a stored block and at the tx / receipt at its index *)
Definition ent_ok (r : repo) (e : txent) : Prop :=
  exists id s b t rc, get_summary r id = Some s /\ num_of id = e_num e /\ s_conf s = e_conf e /\
    afind2 (e_num e, e_conf e) (r_body r) = Some b /\
    nth_error (b_txs b) (N.to_nat (e_idx e)) = Some t /\ tx_id t = e_tx e /\
    nth_error (b_rcs b) (N.to_nat (e_idx e)) = Some rc /\ rc_rev rc = e_rev e.

Record wf_txi (r : repo) : Prop := {
  t_ent  : forall e, In e (r_txi r) -> ent_ok r e;
  t_incl : forall id s x, get_summary r id = Some s -> In x (s_txids s) ->
           (exists e, In e (r_txi r) /\ same_key e x (num_of id) (s_conf s)) /\ memN (filter_key x) (r_filt r) = true
}.

Lemma wf_txi_init g gp tag : wf_txi (init_repo g gp tag).
Proof.
  constructor.
  - intros e [].
  - intros id s x. unfold get_summary, init_repo. cbn [r_sums afind]. destruct (g =? id); [|discriminate].
    intros E. injection E as <-. intros [].
Qed.

Lemma wf_txi_add g gp r r' b conf best :
  wf g gp r -> wf_body r -> wf_txi r -> valid_add r b conf -> add_block r b conf best = Some r' -> wf_txi r'.
Proof.
  intros W WB WT V A. destruct (add_parent _ _ _ _ _ A) as [ps [Hps Er']].
  assert (Hc : conf = scan_conflicts r (num_of (b_id b))) by apply V.
  assert (Hlen : length (b_rcs b) = length (b_txs b)) by apply V.
  assert (Etxi : r_txi r' = index_txs (b_txs b) (b_rcs b) (num_of (b_id b)) conf 0 (r_txi r)) by (rewrite Er'; reflexivity).
  assert (Efilt : r_filt r' = filt_txs (b_txs b) (r_filt r)) by (rewrite Er'; reflexivity).
  assert (Ebody : r_body r' = ((num_of (b_id b), conf), b) :: r_body r) by (rewrite Er'; reflexivity).
  constructor.
  - intros e He. rewrite Etxi in He. apply index_txs_in in He. destruct He as [He|[k [t [Hk ->]]]].
    + destruct (t_ent _ WT e He) as [id [s [b0 [t [rc [E1 [E2 [E3 [E4 E5]]]]]]]]].
      exists id, s, b0, t, rc. split; [eapply add_summary_old; eauto|]. split; [exact E2|]. split; [exact E3|].
      split; [|exact E5]. rewrite Ebody, afind2_cons. destruct (eq2 _ _) eqn:Eq; [|exact E4].
      apply eq2_spec in Eq. injection Eq as Q1 Q2. pose proof (w_conf _ _ _ W _ _ E1) as C. rewrite E2, <- Q1, E3, <- Q2 in C. lia.
    + assert (Hrc : exists rc, nth_error (b_rcs b) k = Some rc).
      { destruct (nth_error (b_rcs b) k) eqn:E; [eauto|]. apply nth_error_None in E.
        assert (nth_error (b_txs b) k <> None) by congruence. apply nth_error_Some in H. lia. }
      destruct Hrc as [rc Hrc].
      exists (b_id b), (mkS (b_id b) (b_parent b) (map tx_id (b_txs b)) conf), b, t, rc. cbn [e_num e_conf e_idx e_tx e_rev s_conf].
      rewrite (add_summary _ _ _ _ _ A), N.eqb_refl. repeat split; auto.
      * rewrite Ebody, afind2_cons. replace (eq2 _ _) with true by (symmetry; apply eq2_spec; reflexivity). reflexivity.
      * replace (N.to_nat (0 + N.of_nat k)) with k by lia. exact Hk.
      * replace (N.to_nat (0 + N.of_nat k)) with k by lia. exact Hrc.
      * unfold rev_at. rewrite Hrc. reflexivity.
  - intros id s x. rewrite (add_summary _ _ _ _ _ A). destruct (N.eqb_spec (b_id b) id) as [E|NE].
    + intros E'. injection E' as <-. subst id. cbn [s_txids s_conf]. intros Hin. apply in_map_iff in Hin. destruct Hin as [t [<- Hin]].
      split; [rewrite Etxi; apply index_txs_new; exact Hin | rewrite Efilt; apply filt_txs_new; exact Hin].
    + intros Hs Hin. destruct (t_incl _ WT id s x Hs Hin) as [He Hf].
      split; [rewrite Etxi; apply index_txs_keep; exact He | rewrite Efilt; apply filt_txs_keep; exact Hf].
Qed.

Lemma reachable_wf_txi g gp tag adm r : num_of g = 0 -> reachable g gp tag adm r -> wf_txi r.
Proof.
  intros Hg H. induction H.
  - apply wf_txi_init.
  - eapply wf_txi_add; eauto; [eapply reachable_wf | eapply reachable_wf_body]; eauto.
Qed.

(* ---------------------------------------------------------------- lookups on the chain of a head *)
(* x is included in block a, which is on the chain of h *)
Definition incl_on (r : repo) (h x a : N) : Prop :=
  exists s, anc r h a /\ get_summary r a = Some s /\ In x (s_txids s).

Section Lookups.
  Variables (g gp : N) (r : repo).
  Hypothesis W : wf g gp r.
  Hypothesis WB : wf_body r.
  Hypothesis WT : wf_txi r.
  Hypothesis CI : conf_inj r.
  Hypothesis Hgp : num_of gp = max_u32.

  Lemma chain_summary_ok h n : stored r h -> n <= num_of h ->
    exists a s, chain_summary r h n = Ok s /\ anc r h a /\ num_of a = n /\ get_summary r a = Some s.
  Proof.
    intros Sh Hn. destruct (anc_total g gp r W h Sh n Hn) as [a [Ha En]].
    destruct (anc_stored _ _ _ Ha) as [_ [s Hs]]. exists a, s. unfold chain_summary.
    replace (get_block_id r h n) with (Ok a) by (symmetry; apply (get_block_id_spec g gp r W); auto).
    rewrite Hs. auto.
  Qed.

  (* an entry matches the chain of h iff its block is on that chain *)
  Definition matches (h : N) (e : txent) : Prop :=
    e_num e <= num_of h /\ exists a s, anc r h a /\ num_of a = e_num e /\ get_summary r a = Some s /\ s_conf s = e_conf e.

  Lemma meta_scan_spec h x : stored r h -> forall l,
    match meta_scan r h x l with
    | Ok e => In e l /\ e_tx e = x /\ matches h e
    | NotFound => forall e, In e l -> e_tx e = x -> ~ matches h e
    | Fail => False
    end.
  Proof.
    intros Sh. induction l as [|e t IH]; cbn [meta_scan]; [intros e []|].
    destruct (N.eqb_spec (e_tx e) x) as [Ex|Nx]; cbn [negb].
    2:{ destruct (meta_scan r h x t) as [e'| |]; [| |exact IH].
        - destruct IH as [I1 I2]. split; [right; exact I1 | exact I2].
        - intros e' [<-|Hin]; [congruence | apply IH; exact Hin]. }
    destruct (N.ltb_spec (num_of h) (e_num e)) as [Hlt|Hle].
    { destruct (meta_scan r h x t) as [e'| |]; [| |exact IH].
      - destruct IH as [I1 I2]. split; [right; exact I1 | exact I2].
      - intros e' [<-|Hin]; [intros _ [M _]; lia | apply IH; exact Hin]. }
    destruct (chain_summary_ok h (e_num e) Sh Hle) as [a [s [-> [Ha [En Hs]]]]].
    destruct (N.eqb_spec (s_conf s) (e_conf e)) as [Ec|Nc].
    - split; [left; reflexivity|]. split; [exact Ex|]. split; [exact Hle|]. exists a, s. auto.
    - destruct (meta_scan r h x t) as [e'| |]; [| |exact IH].
      + destruct IH as [I1 I2]. split; [right; exact I1 | exact I2].
      + intros e' [<-|Hin]; [|apply IH; exact Hin]. intros _ [_ [a' [s' [Ha' [En' [Hs' Ec']]]]]].
        assert (a' = a) by (apply (anc_unique_at g gp r W h); auto; congruence). subst a'. congruence.
  Qed.

  (* C09/C14: a transaction found by id from head h is on h's chain, at the reported place; not found iff absent *)
  Lemma get_tx_meta_spec h x : stored r h ->
    match get_tx_meta r h x with
    | Ok e => e_tx e = x /\ exists a s b t rc, anc r h a /\ num_of a = e_num e /\ get_summary r a = Some s /\ s_conf s = e_conf e /\
                get_block r a = Some (s, b) /\ nth_error (b_txs b) (N.to_nat (e_idx e)) = Some t /\ tx_id t = x /\
                nth_error (b_rcs b) (N.to_nat (e_idx e)) = Some rc /\ rc_rev rc = e_rev e
    | NotFound => forall a, ~ incl_on r h x a
    | Fail => False
    end.
  Proof.
    intros Sh. unfold get_tx_meta. pose proof (meta_scan_spec h x Sh (r_txi r)) as M.
    destruct (meta_scan r h x (r_txi r)) as [e| |]; [| |exact M].
    - destruct M as [Hin [Ex [_ [a [s [Ha [En [Hs Ec]]]]]]]]. split; [exact Ex|].
      destruct (t_ent _ WT e Hin) as [id [s' [b [t [rc [E1 [E2 [E3 [E4 [E5 [E6 [E7 E8]]]]]]]]]]]].
      assert (id = a) by (eapply CI; eauto; congruence). subst id. rewrite Hs in E1. injection E1 as <-.
      exists a, s, b, t, rc. repeat split; auto; try congruence.
      unfold get_block. rewrite Hs, En, Ec, E4. reflexivity.
    - intros a [s [Ha [Hs Hin]]]. destruct (t_incl _ WT a s x Hs Hin) as [[e [He [K1 [K2 K3]]]] _].
      apply (M e He K1). split; [rewrite K2; apply (anc_height g gp r W _ _ Ha)|]. exists a, s. auto.
  Qed.

  Lemma has_tx_indexed_spec h x : stored r h ->
    exists v, has_tx_indexed r h x = Ok v /\ (v = true <-> exists a, incl_on r h x a).
  Proof.
    intros Sh. unfold has_tx_indexed. destruct (memN (filter_key x) (r_filt r)) eqn:Ef; cbn [negb].
    - pose proof (get_tx_meta_spec h x Sh) as M. unfold get_tx_meta in M.
      destruct (meta_scan r h x (r_txi r)) as [e| |]; [| |destruct M].
      + exists true. split; [reflexivity|]. split; [intros _|reflexivity].
        destruct M as [_ [a [s [b [t [rc [Ha [En [Hs [Ec [Hb [Ht [Ex _]]]]]]]]]]]]]. exists a, s. repeat split; auto.
        destruct (WB a s Hs) as [b' [B1 [_ [B3 _]]]]. unfold get_block in Hb. rewrite Hs, B1 in Hb. injection Hb as <-.
        rewrite B3. apply in_map_iff. exists t. split; [exact Ex | eapply nth_error_In; eauto].
      + exists false. split; [reflexivity|]. split; [discriminate|]. intros [a Ha]. exfalso. eapply M; eauto.
    - exists false. split; [reflexivity|]. split; [discriminate|]. intros [a [s [Ha [Hs Hin]]]].
      destruct (t_incl _ WT a s x Hs Hin) as [_ F]. congruence.
  Qed.

  Lemma recent_walk_spec x ref : forall fuel next,
    stored r next -> (ref <= num_of next -> (N.to_nat (num_of next - ref) + 2 <= fuel)%nat) -> (1 <= fuel)%nat ->
    exists v, recent_walk r x ref fuel next = Ok v /\
              (v = true <-> exists a, incl_on r next x a /\ ref <= num_of a).
  Proof.
    induction fuel as [|f IH]; intros next Sn Hf H1; [lia|]. cbn [recent_walk].
    destruct Sn as [s Hs]. pose proof (w_num _ _ _ W _ _ Hs) as Hmax.
    destruct (N.leb_spec ref (num_of next)) as [Hle|Hgt]; cbn [andb].
    - replace (num_of next =? max_u32) with false by (symmetry; apply N.eqb_neq; lia). cbn [negb]. rewrite Hs.
      destruct (memN x (s_txids s)) eqn:Em.
      + exists true. split; [reflexivity|]. split; [intros _|reflexivity]. exists next. split; [|exact Hle].
        exists s. split; [eapply anc_refl; eauto|]. split; [exact Hs | apply memN_In; exact Em].
      + assert (Hnot : ~ In x (s_txids s)) by (rewrite <- memN_In; congruence).
        destruct (N.eq_dec next g) as [->|Hg].
        * (* genesis: the parent id has number 2^32-1, the loop stops *)
          rewrite (w_gsum _ _ _ W) in Hs. injection Hs as <-. cbn [s_parent].
          destruct f as [|f']; [specialize (Hf Hle); lia|]. cbn [recent_walk]. rewrite Hgp, N.eqb_refl, andb_false_r.
          exists false. split; [reflexivity|]. split; [discriminate|]. intros [a [[s' [Ha [Hs' Hin]]] _]].
          apply (anc_gen_inv g gp r W) in Ha. subst a. rewrite (w_gsum _ _ _ W) in Hs'. injection Hs' as <-. destruct Hin.
        * destruct (w_par _ _ _ W _ _ Hs Hg) as [ps [Hps [En _]]].
          destruct (IH (s_parent s)) as [v [Ev Hv]]; [exists ps; exact Hps | intros; specialize (Hf Hle); lia | specialize (Hf Hle); lia|].
          exists v. split; [exact Ev|]. rewrite Hv. split.
          -- intros [a [[s' [Ha [Hs' Hin]]] Hr]]. exists a. split; [|exact Hr]. exists s'. split; [|auto].
             eapply anc_step; eauto. rewrite (w_gen _ _ _ W). exact Hg.
          -- intros [a [[s' [Ha [Hs' Hin]]] Hr]]. exists a. split; [|exact Hr]. exists s'. split; [|auto].
             inversion Ha as [|h' s2 a' Hs2 Hg2 Hp2]; subst; [congruence|]. rewrite Hs in Hs2. injection Hs2 as <-. exact Hp2.
    - exists false. split; [reflexivity|]. split; [discriminate|]. intros [a [[s' [Ha _]] Hr]].
      pose proof (anc_height g gp r W _ _ Ha). lia.
  Qed.

  (* C09: HasTransaction, whichever path it takes *)
  Lemma has_transaction_spec h x ref : stored r h ->
    exists v, has_transaction r h x ref = Ok v /\
      (v = true <-> if num_of h <? ref then False
                    else if num_of h - ref <? 100 then exists a, incl_on r h x a /\ ref <= num_of a
                    else exists a, incl_on r h x a).
  Proof.
    intros Sh. unfold has_transaction. destruct (N.ltb_spec (num_of h) ref) as [Hlt|Hge].
    - exists false. split; [reflexivity|]. split; [discriminate | tauto].
    - destruct (N.ltb_spec (num_of h - ref) 100) as [Hr|Hr].
      + apply recent_walk_spec; auto; lia.
      + apply has_tx_indexed_spec. exact Sh.
  Qed.

  (* the two paths agree with each other and with membership on every chain that respects the window rule *)
  Lemma has_tx_paths_agree_lemma h x ref : stored r h ->
    (forall a, incl_on r h x a -> ref <= num_of a) ->
    exists v, has_transaction r h x ref = Ok v /\ has_tx_indexed r h x = Ok v /\
              (ref <= num_of h -> num_of h - ref < 100 -> recent_walk r x ref 102 h = Ok v) /\
              (v = true <-> exists a, incl_on r h x a).
  Proof.
    intros Sh Hw. destruct (has_transaction_spec h x ref Sh) as [v [Ev Hv]].
    destruct (has_tx_indexed_spec h x Sh) as [v' [Ev' Hv']].
    assert (Hiff : v = true <-> exists a, incl_on r h x a).
    { rewrite Hv. destruct (N.ltb_spec (num_of h) ref) as [Hlt|Hge].
      - split; [tauto|]. intros [a Ha]. pose proof (Hw a Ha). destruct Ha as [s [Ha _]]. pose proof (anc_height g gp r W _ _ Ha). lia.
      - destruct (num_of h - ref <? 100); [|tauto]. split; [intros [a [Ha _]]; eauto | intros [a Ha]; eauto]. }
    assert (v' = v).
    { destruct v, v'; try reflexivity; exfalso.
      - assert (X : false = true) by (apply Hv'; apply Hiff; reflexivity). discriminate.
      - assert (X : false = true) by (apply Hiff; apply Hv'; reflexivity). discriminate. }
    subst v'.
    exists v. repeat split; auto; try (apply Hiff; auto).
    intros H1 H2. unfold has_transaction in Ev.
    replace (num_of h <? ref) with false in Ev by (symmetry; apply N.ltb_ge; exact H1).
    replace (num_of h - ref <? 100) with true in Ev by (symmetry; apply N.ltb_lt; exact H2). exact Ev.
  Qed.
  (* GetTransaction / GetTransactionReceipt: the blob read under (num, conflicts, index) is the one of that chain block *)
  Lemma get_transaction_spec h x : stored r h ->
    match get_transaction r h x with
    | Ok (e, t) => tx_id t = x /\ get_tx_meta r h x = Ok e /\
                   exists a s b, anc r h a /\ num_of a = e_num e /\ get_block r a = Some (s, b) /\
                                 nth_error (b_txs b) (N.to_nat (e_idx e)) = Some t
    | NotFound => forall a, ~ incl_on r h x a
    | Fail => False
    end.
  Proof.
    intros Sh. unfold get_transaction. pose proof (get_tx_meta_spec h x Sh) as M.
    destruct (get_tx_meta r h x) as [e| |]; [| exact M | exact M].
    destruct M as [_ [a [s [b [t [rc [Ha [En [Hs [Ec [Hb [Ht [Ex _]]]]]]]]]]]]].
    assert (Eb : afind2 (e_num e, e_conf e) (r_body r) = Some b).
    { unfold get_block in Hb. rewrite Hs in Hb. rewrite <- En, <- Ec. destruct (afind2 _ (r_body r)); [|discriminate]. congruence. }
    rewrite Eb, Ht. split; [exact Ex|]. split; [reflexivity|]. exists a, s, b. auto.
  Qed.

  Lemma get_receipt_spec h x : stored r h ->
    match get_receipt r h x with
    | Ok rc => exists e a s b t, get_tx_meta r h x = Ok e /\ anc r h a /\ num_of a = e_num e /\ get_block r a = Some (s, b) /\
                 nth_error (b_txs b) (N.to_nat (e_idx e)) = Some t /\ tx_id t = x /\
                 nth_error (b_rcs b) (N.to_nat (e_idx e)) = Some rc
    | NotFound => forall a, ~ incl_on r h x a
    | Fail => False
    end.
  Proof.
    intros Sh. unfold get_receipt. pose proof (get_tx_meta_spec h x Sh) as M.
    destruct (get_tx_meta r h x) as [e| |]; [| exact M | exact M].
    destruct M as [_ [a [s [b [t [rc [Ha [En [Hs [Ec [Hb [Ht [Ex [Hrc _]]]]]]]]]]]]]].
    assert (Eb : afind2 (e_num e, e_conf e) (r_body r) = Some b).
    { unfold get_block in Hb. rewrite Hs in Hb. rewrite <- En, <- Ec. destruct (afind2 _ (r_body r)); [|discriminate]. congruence. }
    rewrite Eb, Hrc. exists e, a, s, b, t. auto 10.
  Qed.
End Lookups.
