(* Chain/ProofsSys.v — subscribers interleaved with AddBlock calls: the subscriber's stack is always the path to the
   reader's position, reads never fail, and a quiescent subscriber holds the canonical chain (C14). *)
From Coq Require Import List NArith Bool Lia ZifyN ZifyNat ZifyBool Wf_nat Arith.
From Verif Require Import Chain.Model Chain.Proofs Chain.ProofsWalk.
Import ListNotations.
Open Scope N_scope.

(* the node's fork choice: a child of the current best block always becomes best (its total score is larger) *)
Definition tip_rule (r : repo) (b : blk) (best : bool) : Prop := b_parent b = r_best r -> best = true.

Section AddAnc.
  Variables (g gp : N) (r r' : repo) (b : blk) (conf : N) (best : bool).
  Hypothesis W : wf g gp r.
  Hypothesis V : valid_add r b conf.
  Hypothesis A : add_block r b conf best = Some r'.

  Lemma add_gen : r_gen r' = r_gen r.
  Proof. destruct (add_parent _ _ _ _ _ A) as [ps [_ ->]]. reflexivity. Qed.

  Lemma add_best : r_best r' = if best then b_id b else r_best r.
  Proof. destruct (add_parent _ _ _ _ _ A) as [ps [_ ->]]. reflexivity. Qed.

  Lemma add_new_not_stored : ~ stored r (b_id b).
  Proof. intros [s Hs]. destruct V as [F _]. congruence. Qed.

  Lemma anc_mono h a : anc r h a -> anc r' h a.
  Proof.
    induction 1 as [h s Hs|h s a Hs Hg _ IH].
    - eapply anc_refl. eapply add_summary_old; eauto.
    - eapply anc_step; [eapply add_summary_old; eauto | rewrite add_gen; exact Hg | exact IH].
  Qed.

  Lemma anc_add_inv h a : anc r' h a ->
    anc r h a \/ (h = b_id b /\ (a = b_id b \/ anc r (b_parent b) a)).
  Proof.
    induction 1 as [h s Hs|h s a Hs Hg _ IH].
    - rewrite (add_summary _ _ _ _ _ A) in Hs. destruct (N.eqb_spec (b_id b) h) as [E|NE].
      + right. split; [congruence | left; congruence].
      + left. eapply anc_refl; eauto.
    - rewrite (add_summary _ _ _ _ _ A) in Hs. rewrite add_gen in Hg. destruct (N.eqb_spec (b_id b) h) as [E|NE].
      + injection Hs as <-. cbn [s_parent] in IH. right. split; [congruence|]. right.
        destruct IH as [IH|[E' _]]; [exact IH|]. exfalso. apply add_new_not_stored. rewrite <- E'.
        destruct (add_parent _ _ _ _ _ A) as [ps [Hps _]]. exists ps. exact Hps.
      + left. destruct IH as [IH|[E' _]].
        * eapply anc_step; eauto.
        * exfalso. apply add_new_not_stored. rewrite <- E'.
          rewrite (w_gen _ _ _ W) in Hg. destruct (w_par _ _ _ W _ _ Hs Hg) as [ps [Hps _]]. exists ps. exact Hps.
  Qed.

  Lemma path_mono h l : is_path r h l -> is_path r' h l.
  Proof.
    induction 1 as [|h s l Hs Hg _ IH].
    - rewrite <- add_gen. constructor.
    - eapply path_step; [eapply add_summary_old; eauto | rewrite add_gen; exact Hg | exact IH].
  Qed.

  Lemma best_tip_add : best_tip r -> tip_rule r b best -> best_tip r'.
  Proof.
    intros TIP RULE h Ha. rewrite add_best in *. destruct (anc_add_inv _ _ Ha) as [Ho|[Eh Hn]].
    - case_eq best; intros Eb; rewrite Eb in *.
      + exfalso. apply add_new_not_stored. apply (anc_stored _ _ _ Ho).
      + apply TIP. exact Ho.
    - case_eq best; intros Eb; rewrite Eb in *; [exact Eh|]. exfalso.
      destruct Hn as [E|Hp].
      + apply add_new_not_stored. rewrite <- E. apply (w_best _ _ _ W).
      + apply TIP in Hp. specialize (RULE Hp). congruence.
  Qed.
End AddAnc.

Lemma best_tip_init g gp tag : num_of g = 0 -> best_tip (init_repo g gp tag).
Proof.
  intros Hg h Ha. cbn [r_best init_repo] in *.
  destruct (anc_stored _ _ _ Ha) as [[s Hs] _]. unfold get_summary, init_repo in Hs. cbn [r_sums afind] in Hs.
  destruct (N.eqb_spec g h); [congruence | discriminate].
Qed.

Lemma reachable_best_tip g gp tag r : num_of g = 0 -> reachable g gp tag tip_rule r -> best_tip r.
Proof.
  intros Hg H. induction H.
  - apply best_tip_init. exact Hg.
  - eapply best_tip_add; eauto. eapply reachable_wf; eauto.
Qed.

Lemma path_unique r h l1 : is_path r h l1 -> forall l2, is_path r h l2 -> l1 = l2.
Proof.
  induction 1 as [|h s l Hs Hg _ IH]; intros l2 H2; inversion H2 as [|h' s' l' Hs' Hg' Hp']; subst; try congruence.
  rewrite Hs in Hs'. injection Hs' as <-. f_equal. apply IH. exact Hp'.
Qed.

(* a subscriber and the node: AddBlock calls (any valid ones obeying the fork-choice rule) interleaved with reads *)
Section System.
  Variables g gp tag : N.
  Hypothesis Hg : num_of g = 0.

  Inductive sys : repo -> N -> list N -> Prop :=
  | sys_start r h st : reachable g gp tag tip_rule r -> is_path r h st -> sys r h st
  | sys_add r pos st b conf best r' :
      sys r pos st -> valid_add r b conf -> tip_rule r b best -> add_block r b conf best = Some r' -> sys r' pos st
  | sys_read r pos st l np st' :
      sys r pos st -> read r pos = Ok (l, np) -> apply_stream r st l = Some st' -> sys r np st'.

  Lemma sys_inv r pos st : sys r pos st -> reachable g gp tag tip_rule r /\ is_path r pos st.
  Proof.
    induction 1 as [r h st R P | r pos st b conf best r' _ [R P] V T A | r pos st l np st' _ [R P] E Ap].
    - auto.
    - split; [eapply reach_add; eauto|]. eapply path_mono; eauto; try (eapply reachable_wf; eauto).
    - split; [exact R|].
      pose proof (reachable_wf _ _ _ _ _ Hg R) as W. pose proof (reachable_wf_body _ _ _ _ _ Hg R) as WB.
      pose proof (reachable_best_tip _ _ _ _ Hg R) as TIP.
      destruct (N.eq_dec pos (r_best r)) as [->|Hne].
      + rewrite read_at_best in E. injection E as <- <-. cbn in Ap. injection Ap as <-. exact P.
      + destruct (read_step g gp r W WB TIP pos st P Hne) as [l' [nx [st2 [E1 [_ [E3 [E4 _]]]]]]].
        rewrite E1 in E. injection E as <- <-. rewrite E3 in Ap. injection Ap as <-. exact E4.
  Qed.

  (* reads never fail and the stream is always applicable to what the subscriber holds *)
  Theorem reader_total r pos st : sys r pos st ->
    exists l np st', read r pos = Ok (l, np) /\ apply_stream r st l = Some st' /\
      (forall a, In (a, true) l -> anc r pos a /\ ~ anc r (r_best r) a) /\
      (pos <> r_best r -> anc r (r_best r) np).
  Proof.
    intros S. destruct (sys_inv _ _ _ S) as [R P].
    pose proof (reachable_wf _ _ _ _ _ Hg R) as W. pose proof (reachable_wf_body _ _ _ _ _ Hg R) as WB.
    pose proof (reachable_best_tip _ _ _ _ Hg R) as TIP.
    destruct (N.eq_dec pos (r_best r)) as [->|Hne].
    - exists [], (r_best r), st. rewrite read_at_best. repeat split; auto; try contradiction; destruct H.
    - destruct (read_step g gp r W WB TIP pos st P Hne) as [l [nx [st' [E1 [_ [E3 [E4 [E5 [E6 _]]]]]]]]].
      exists l, nx, st'. repeat split; auto; apply E6; exact H.
  Qed.

  (* a quiescent subscriber holds exactly the canonical chain *)
  Theorem reader_quiescent_canonical r pos st np :
    sys r pos st -> read r pos = Ok ([], np) -> pos = r_best r /\ is_path r (r_best r) st.
  Proof.
    intros S E. destruct (sys_inv _ _ _ S) as [R P].
    pose proof (reachable_wf _ _ _ _ _ Hg R) as W. pose proof (reachable_wf_body _ _ _ _ _ Hg R) as WB.
    pose proof (reachable_best_tip _ _ _ _ Hg R) as TIP.
    pose proof (read_quiescent g gp r W WB TIP pos st np P E) as ->. auto.
  Qed.
End System.

(* without further best changes a subscriber becomes quiescent within (height of best + 1) reads *)
Fixpoint run_reads (r : repo) (k : nat) (pos : N) (st : list N) : option (N * list N) :=
  match k with
  | O => Some (pos, st)
  | S k' => match read r pos with
            | Ok (l, np) => match apply_stream r st l with
                            | Some st' => run_reads r k' np st'
                            | None => None
                            end
            | _ => None
            end
  end.

Section Converge.
  Variables (g gp : N) (r : repo).
  Hypothesis W : wf g gp r.
  Hypothesis WB : wf_body r.
  Hypothesis TIP : best_tip r.

  Lemma run_on_canonical : forall k pos st,
    is_path r pos st -> anc r (r_best r) pos -> N.to_nat (num_of (r_best r) - num_of pos) = k ->
    exists stB, run_reads r k pos st = Some (r_best r, stB) /\ is_path r (r_best r) stB.
  Proof.
    induction k as [|k IH]; intros pos st P Ha Hk.
    - exists st. split; [|]; cbn [run_reads].
      + f_equal. f_equal. pose proof (anc_height g gp r W _ _ Ha). apply (anc_same_height g gp r W _ _ Ha). lia.
      + assert (pos = r_best r) as <- by (pose proof (anc_height g gp r W _ _ Ha); apply (anc_same_height g gp r W _ _ Ha); lia).
        exact P.
    - assert (Hne : pos <> r_best r) by (intros E; rewrite E in Hk; lia).
      destruct (read_step g gp r W WB TIP pos st P Hne) as [l [nx [st' [E1 [_ [E3 [E4 [E5 [_ E7]]]]]]]]].
      destruct (E7 Ha) as [_ En]. cbn [run_reads]. rewrite E1, E3. apply IH; auto. lia.
  Qed.

  Theorem reads_converge pos st : is_path r pos st ->
    exists k stB, (k <= N.to_nat (num_of (r_best r)) + 1)%nat /\
                  run_reads r k pos st = Some (r_best r, stB) /\ is_path r (r_best r) stB.
  Proof.
    intros P. destruct (N.eq_dec pos (r_best r)) as [E|Hne].
    - exists O, st. subst pos. repeat split; auto. lia.
    - destruct (read_step g gp r W WB TIP pos st P Hne) as [l [nx [st' [E1 [_ [E3 [E4 [E5 _]]]]]]]].
      destruct (run_on_canonical _ nx st' E4 E5 eq_refl) as [stB [R1 R2]].
      exists (S (N.to_nat (num_of (r_best r) - num_of nx))), stB. repeat split; auto; [lia|].
      cbn [run_reads]. rewrite E1, E3. exact R1.
  Qed.
End Converge.
