(* Chain/TipRule.v — the premise `tip_rule` of the C14 reader theorems ("a block whose parent is the current best block
   becomes best") discharged against the fork-choice rule of the node as modelled in coq/Bft (bft.Engine.Select:
   quality, then total score, then the smaller id; Header.BetterThan before the FINALITY fork):
   for every node state satisfying the Bft invariant `inv` (every import history, ProofsNode.import_all_inv) and every
   new block whose parent is the stored best block, with the height parent+1 and a total score strictly above the
   parent's (consensus.validateBlockHeader rejects "block total score invalid" otherwise), Select answers true and so
   does BetterThan.  What stays informal: that the `best` flag of a Chain.Model history IS this answer
   (Node.commitBlock: becomeBest := bft.Select / BetterThan, then repo.AddBlock(..., becomeBest)). *)
From Coq Require Import List NArith ZArith Bool Lia.
From Coq Require Import ZifyN ZifyNat ZifyBool.
From Verif Require Import Common.Util Bft.Tree Bft.Model Bft.Quorum Bft.ProofsTally Bft.ProofsChain Bft.ProofsNode.
Import ListNotations.
Open Scope N_scope.

Lemma better_than_higher_score b p : b_score p < b_score b -> better_than b p = true.
Proof. unfold better_than. intros H. apply orb_true_iff. left. apply N.ltb_lt. exact H. Qed.

Theorem child_of_best_is_selected c nd b p : 0 < c_L c -> inv c nd ->
  find_blk (n_repo nd) (n_best nd) = Some p -> b_parent b = n_best nd ->
  b_num b = b_num p + 1 -> b_score p < b_score b ->
  select c (n_repo nd) (n_eng nd) (best_blk nd) b = true /\ better_than b (best_blk nd) = true.
Proof.
  intros HL I Hp Hpar Hn Hs. unfold best_blk. rewrite Hp.
  split; [|apply better_than_higher_score; exact Hs].
  destruct (find_blk_id _ _ _ Hp) as [Hid Hin].
  unfold select.
  rewrite (compute_state_pure_lemma c HL (n_repo nd) (e_qs (n_eng nd)) b p (inv_wf c nd I) (inv_qs c nd I)) by (rewrite ?Hpar; auto).
  rewrite (compute_state_stored c HL (n_repo nd) (e_qs (n_eng nd)) p (inv_wf c nd I) (inv_qs c nd I) Hin).
  unfold qual. rewrite Hid, <- Hpar.
  destruct (chain_of_known (n_repo nd) (inv_wf c nd I) (b_parent b) p) as [t [Et Gt]]; [rewrite Hpar; exact Hp|].
  assert (G : grounded (b :: chain_of (n_repo nd) (b_parent b))).
  { rewrite Et. cbn [grounded]. repeat split; [rewrite Hpar; symmetry; exact Hid | exact Hn | exact Gt]. }
  pose proof (quality_step c HL b (chain_of (n_repo nd) (b_parent b)) G) as [Q1 _].
  fold (quality_pure c (b :: chain_of (n_repo nd) (b_parent b))).
  destruct (N.eqb_spec (quality_pure c (b :: chain_of (n_repo nd) (b_parent b))) (quality_pure c (chain_of (n_repo nd) (b_parent b)))) as [E|NE]; cbn [negb].
  - apply better_than_higher_score. exact Hs.
  - apply N.ltb_lt. lia.
Qed.
