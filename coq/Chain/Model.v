(* Chain/Model.v — executable model of chain/repository.go, chain.go, block_reader.go, persist.go and of the
   replay / window / dependency rules of consensus/validator.go (definitions only).

   Block and tx ids are N (32-byte values).  The height of a block is read off its id exactly as
   block.Number does (first four bytes).  Hashes and signatures are not modelled: ids are inputs.
   The stores are association lists (newest first); the index trie is modelled by what it denotes:
   one map height -> id per committed version (number, conflicts), a new version being the parent's
   map updated at the new height.  The tx-index store is kept in the byte order of its keys
   txid || uvarint(number) || uvarint(conflicts). *)
From Coq Require Import List NArith Bool Lia.
Import ListNotations.
Open Scope N_scope.

Definition num_of (id : N) : N := N.shiftr id 224.
Definition max_u32 : N := 4294967295.

(* ---- data carried by blocks ---- *)
Record event := mkEv { ev_addr : N; ev_topics : list N; ev_dlen : N; ev_data : N }.
Record transfer := mkTr { tr_from : N; tr_to : N; tr_amount : N }.
Record receipt := mkRc { rc_rev : bool; rc_outs : list (list event * list transfer) }.
Record txrec := mkTx { tx_id : N; tx_tag : N; tx_ref : N; tx_exp : N; tx_dep : option N; tx_origin : N }.
Record blk := mkB { b_id : N; b_parent : N; b_time : N; b_txs : list txrec; b_rcs : list receipt }.

Inductive res (A : Type) := Ok (a : A) | NotFound | Fail.
Arguments Ok {A} a. Arguments NotFound {A}. Arguments Fail {A}.

(* ---- association lists ---- *)
Fixpoint afind {V} (k : N) (l : list (N * V)) : option V :=
  match l with [] => None | (k', v) :: t => if k' =? k then Some v else afind k t end.
Definition eq2 (a b : N * N) : bool := (fst a =? fst b) && (snd a =? snd b).
Fixpoint afind2 {V} (k : N * N) (l : list ((N * N) * V)) : option V :=
  match l with [] => None | (k', v) :: t => if eq2 k' k then Some v else afind2 k t end.
Definition memN (x : N) (l : list N) : bool := existsb (N.eqb x) l.

(* ---- tx index keys: txid || uvarint(num) || uvarint(conflicts), compared as byte strings ---- *)
Fixpoint uvarint_f (fuel : nat) (x : N) : list N :=
  match fuel with
  | O => []
  | S f => if x <? 128 then [x] else (x mod 128 + 128) :: uvarint_f f (x / 128)
  end.
Definition uvarint (x : N) : list N := uvarint_f 10 x.
Fixpoint lex_lt (a b : list N) : bool :=
  match a, b with
  | _, [] => false
  | [], _ :: _ => true
  | x :: a', y :: b' => if x <? y then true else if y <? x then false else lex_lt a' b'
  end.

Record txent := mkE { e_tx : N; e_num : N; e_conf : N; e_idx : N; e_rev : bool }.
Definition e_ver (e : txent) : list N := uvarint (e_num e) ++ uvarint (e_conf e).
Definition key_eq (a b : txent) : bool := (e_tx a =? e_tx b) && (e_num a =? e_num b) && (e_conf a =? e_conf b).
Definition key_lt (a b : txent) : bool :=
  (e_tx a <? e_tx b) || ((e_tx a =? e_tx b) && lex_lt (e_ver a) (e_ver b)).
Fixpoint txi_put (e : txent) (l : list txent) : list txent :=
  match l with
  | [] => [e]
  | x :: t => if key_eq e x then e :: t else if key_lt e x then e :: l else x :: txi_put e t
  end.

(* ---- the repository ---- *)
Record summary := mkS { s_id : N; s_parent : N; s_txids : list N; s_conf : N }.
Record repo := mkR {
  r_sums  : list (N * summary);               (* chain.hdr   : id -> summary *)
  r_index : list ((N * N) * list (N * N));    (* index trie  : version (num, conflicts) -> (height -> id) *)
  r_heads : list N;                           (* chain.heads : ascending *)
  r_txi   : list txent;                       (* chain.txi   : 32+ byte keys in byte order *)
  r_filt  : list N;                           (* chain.txi   : 8-byte filter keys *)
  r_body  : list ((N * N) * blk);             (* chain.body  : (num, conflicts) -> txs and receipts *)
  r_best  : N;
  r_gen   : N;
  r_tag   : N }.

Definition get_summary (r : repo) (id : N) : option summary := afind id (r_sums r).
Definition index_root (r : repo) (s : summary) : list (N * N) :=
  match afind2 (num_of (s_id s), s_conf s) (r_index r) with Some m => m | None => [] end.

(* Chain.GetBlockID *)
Definition get_block_id (r : repo) (h n : N) : res N :=
  match get_summary r h with
  | None => Fail
  | Some s => match afind n (index_root r s) with Some a => Ok a | None => NotFound end
  end.
(* Chain.GetBlockSummary(num) *)
Definition chain_summary (r : repo) (h n : N) : res summary :=
  match get_block_id r h n with
  | Ok a => match get_summary r a with Some s => Ok s | None => NotFound end
  | NotFound => NotFound
  | Fail => Fail
  end.
(* Chain.HasBlock *)
Definition has_block (r : repo) (h id : N) : res bool :=
  match get_block_id r h (num_of id) with
  | Ok f => Ok (id =? f)
  | NotFound => Ok false
  | Fail => Fail
  end.

(* Chain.GetTransactionMeta: first entry in key order whose block is on the chain of h *)
Fixpoint meta_scan (r : repo) (h x : N) (l : list txent) : res txent :=
  match l with
  | [] => NotFound
  | e :: t =>
    if negb (e_tx e =? x) then meta_scan r h x t
    else if num_of h <? e_num e then meta_scan r h x t
    else match chain_summary r h (e_num e) with
         | Ok s => if s_conf s =? e_conf e then Ok e else meta_scan r h x t
         | _ => Fail
         end
  end.
Definition get_tx_meta (r : repo) (h x : N) : res txent := meta_scan r h x (r_txi r).

(* Chain.HasTransaction: recent-window walk over parents, else filter key + indexed lookup *)
Fixpoint recent_walk (r : repo) (x ref : N) (fuel : nat) (next : N) : res bool :=
  match fuel with
  | O => Fail
  | S f =>
    if (ref <=? num_of next) && negb (num_of next =? max_u32) then
      match get_summary r next with
      | None => Fail
      | Some s => if memN x (s_txids s) then Ok true else recent_walk r x ref f (s_parent s)
      end
    else Ok false
  end.
Definition filter_key (x : N) : N := N.shiftr x 192.
Definition has_tx_indexed (r : repo) (h x : N) : res bool :=
  if negb (memN (filter_key x) (r_filt r)) then Ok false
  else match meta_scan r h x (r_txi r) with
       | Ok _ => Ok true
       | NotFound => Ok false
       | Fail => Fail
       end.
Definition has_transaction (r : repo) (h x ref : N) : res bool :=
  let hn := num_of h in
  if hn <? ref then Ok false
  else if hn - ref <? 100 then recent_walk r x ref 102 h
  else has_tx_indexed r h x.

(* Chain.Exclude: ids on the chain of c that are not on the chain of o, ascending *)
Fixpoint exclude_walk (r : repo) (c o : N) (fuel : nat) (id : N) (acc : list N) : res (list N) :=
  match fuel with
  | O => Fail
  | S f =>
    let n := num_of id in
    if n =? 0 then Ok acc
    else
      let go_on := match get_block_id r c (n - 1) with
                   | Ok p => exclude_walk r c o f p (id :: acc)
                   | _ => Fail
                   end in
      if num_of o <? n then go_on
      else if n =? num_of o then (if id =? o then Ok acc else go_on)
      else match has_block r o id with
           | Ok true => Ok acc
           | Ok false => go_on
           | _ => Fail
           end
  end.
Definition exclude (r : repo) (c o : N) : res (list N) :=
  exclude_walk r c o (S (N.to_nat (num_of c))) c [].

(* Repository.GetBlock / GetBlockReceipts: summary, then the body stored under (num, conflicts) *)
Definition get_block (r : repo) (id : N) : option (summary * blk) :=
  match get_summary r id with
  | None => None
  | Some s => match afind2 (num_of id, s_conf s) (r_body r) with
              | Some b => Some (s, b)
              | None => None
              end
  end.

(* Chain.GetTransaction / GetTransactionReceipt: meta, then the blob under (num, conflicts, index) *)
Definition get_transaction (r : repo) (h x : N) : res (txent * txrec) :=
  match get_tx_meta r h x with
  | Ok e => match afind2 (e_num e, e_conf e) (r_body r) with
            | Some b => match nth_error (b_txs b) (N.to_nat (e_idx e)) with
                        | Some t => Ok (e, t) | None => Fail end
            | None => Fail
            end
  | NotFound => NotFound
  | Fail => Fail
  end.
Definition get_receipt (r : repo) (h x : N) : res receipt :=
  match get_tx_meta r h x with
  | Ok e => match afind2 (e_num e, e_conf e) (r_body r) with
            | Some b => match nth_error (b_rcs b) (N.to_nat (e_idx e)) with
                        | Some t => Ok t | None => Fail end
            | None => Fail
            end
  | NotFound => NotFound
  | Fail => Fail
  end.

(* BlockReader.Read from a position: (block, obsolete flag) list and the new position *)
Fixpoint read_walk (r : repo) (best : N) (fuel : nat) (pos : N) (acc : list (N * bool)) : res (list (N * bool) * N) :=
  match fuel with
  | O => Fail
  | S f =>
    match get_block r pos with
    | None => Fail
    | Some (s, _) =>
      if num_of best <? num_of pos then read_walk r best f (s_parent s) ((pos, true) :: acc)
      else match has_block r best pos with
           | Ok true =>
             match get_block_id r best (num_of pos + 1) with
             | Ok nx => match get_block r nx with
                        | Some _ => Ok (rev ((nx, false) :: acc), nx)
                        | None => Fail
                        end
             | _ => Fail
             end
           | Ok false => read_walk r best f (s_parent s) ((pos, true) :: acc)
           | _ => Fail
           end
    end
  end.
Definition read (r : repo) (pos : N) : res (list (N * bool) * N) :=
  if r_best r =? pos then Ok ([], pos)
  else read_walk r (r_best r) (S (S (N.to_nat (num_of pos)))) pos [].

(* Repository.ScanConflicts / GetConflicts / ScanHeads *)
Definition scan_conflicts (r : repo) (n : N) : N :=
  N.of_nat (length (filter (fun p => num_of (fst p) =? n) (r_sums r))).
Fixpoint insert_asc (x : N) (l : list N) : list N :=
  match l with
  | [] => [x]
  | y :: t => if x =? y then l else if x <? y then x :: l else y :: insert_asc x t
  end.
Definition get_conflicts (r : repo) (n : N) : list N :=
  fold_right insert_asc [] (map fst (filter (fun p => num_of (fst p) =? n) (r_sums r))).
Definition scan_heads (r : repo) (from : N) : list N :=
  rev (filter (fun id => from <=? num_of id) (r_heads r)).

(* ---- writing ---- *)
Fixpoint index_txs (x : list txrec) (rcs : list receipt) (num conf i : N) (txi : list txent) : list txent :=
  match x with
  | [] => txi
  | t :: x' =>
    let rv := match rcs with rc :: _ => rc_rev rc | [] => false end in
    index_txs x' (tl rcs) num conf (i + 1) (txi_put (mkE (tx_id t) num conf i rv) txi)
  end.
Fixpoint filt_txs (x : list txrec) (f : list N) : list N :=
  match x with
  | [] => f
  | t :: x' => filt_txs x' (if memN (filter_key (tx_id t)) f then f else filter_key (tx_id t) :: f)
  end.

(* Repository.saveBlock *)
Definition save_block (r : repo) (index' : list ((N * N) * list (N * N))) (b : blk) (conf : N) (as_best : bool) : repo :=
  let id := b_id b in
  let num := num_of id in
  mkR ((id, mkS id (b_parent b) (map tx_id (b_txs b)) conf) :: r_sums r)
      index'
      (insert_asc id (filter (fun h => negb (h =? b_parent b)) (r_heads r)))
      (index_txs (b_txs b) (b_rcs b) num conf 0 (r_txi r))
      (filt_txs (b_txs b) (r_filt r))
      (((num, conf), b) :: r_body r)
      (if as_best then id else r_best r)
      (r_gen r) (r_tag r).

(* Repository.AddBlock: None = "parent missing" *)
Definition add_block (r : repo) (b : blk) (conf : N) (as_best : bool) : option repo :=
  match get_summary r (b_parent b) with
  | None => None
  | Some ps =>
    let num := num_of (b_id b) in
    let index' := ((num, conf), (num, b_id b) :: index_root r ps) :: r_index r in
    Some (save_block r index' b conf as_best)
  end.

(* NewRepository on an empty database: genesis indexed under version (0,0), saved as best *)
Definition init_repo (g gparent tag : N) : repo :=
  mkR [(g, mkS g gparent [] 0)] [((0, 0), [(0, g)])] [g] [] [] [((0, 0), mkB g gparent 0 [] [])] g g tag.

(* ---- acceptance rules that matter for replay protection (consensus/validator.go) ---- *)
Inductive verdict := V_ok | V_tag | V_future | V_expired | V_exists | V_depbroken | V_deprev | V_fail.

(* validateBlockBody: chain tag, ref not in the future, not expired (uint64 sum: no wrap for 32-bit operands) *)
Definition body_rule (tag num : N) (t : txrec) : verdict :=
  if negb (tx_tag t =? tag) then V_tag
  else if num <? tx_ref t then V_future
  else if tx_ref t + tx_exp t <? num then V_expired
  else V_ok.
Fixpoint body_rules (tag num : N) (txs : list txrec) : verdict :=
  match txs with
  | [] => V_ok
  | t :: x => match body_rule tag num t with V_ok => body_rules tag num x | v => v end
  end.

(* verifyBlock: duplicate via processed ∪ HasTransaction(parent chain), dependency found and not reverted;
   the reverted flag of each executed tx is an input (execution is not part of this model) *)
Fixpoint verify_loop (r : repo) (parent : N) (processed : list (N * bool)) (txs : list txrec) (revs : list bool) : verdict :=
  match txs with
  | [] => V_ok
  | t :: x =>
    let dup := match afind (tx_id t) processed with
               | Some _ => Ok true
               | None => has_transaction r parent (tx_id t) (tx_ref t)
               end in
    match dup with
    | Fail | NotFound => V_fail
    | Ok true => V_exists
    | Ok false =>
      let dep := match tx_dep t with
                 | None => V_ok
                 | Some d =>
                   match afind d processed with
                   | Some rv => if rv then V_deprev else V_ok
                   | None => match get_tx_meta r parent d with
                             | Ok e => if e_rev e then V_deprev else V_ok
                             | NotFound => V_depbroken
                             | Fail => V_fail
                             end
                   end
                 end in
      match dep with
      | V_ok => let rv := match revs with v :: _ => v | [] => false end in
                verify_loop r parent ((tx_id t, rv) :: processed) x (tl revs)
      | v => v
      end
    end
  end.

Definition validate (r : repo) (b : blk) : verdict :=
  match body_rules (r_tag r) (num_of (b_id b)) (b_txs b) with
  | V_ok => verify_loop r (b_parent b) [] (b_txs b) (map rc_rev (b_rcs b))
  | v => v
  end.

(* ---- a subscriber of a block stream (api/subscriptions): it holds a stack of blocks, newest first; an obsolete
   block must be the one on top and is dropped, a regular block must extend the top and is pushed ---- *)
Fixpoint apply_stream (r : repo) (st : list N) (l : list (N * bool)) : option (list N) :=
  match l with
  | [] => Some st
  | (b, true) :: l' =>
    match st with
    | t :: st' => if t =? b then apply_stream r st' l' else None
    | [] => None
    end
  | (b, false) :: l' =>
    match get_summary r b, st with
    | Some s, t :: _ => if s_parent s =? t then apply_stream r (b :: st) l' else None
    | _, _ => None
    end
  end.
