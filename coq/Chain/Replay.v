(* Chain/Replay.v — a checked replay of a list of AddBlock calls, so that large concrete histories (e.g. chains deeper
   than the 100-block recent window) can be shown `reachable` by computation. *)
From Coq Require Import List NArith Arith Bool Lia.
From Verif Require Import Chain.Model Chain.Proofs.
Import ListNotations.
Open Scope N_scope.

Definition valid_addb (r : repo) (b : blk) (conf : N) : bool :=
  match get_summary r (b_id b) with Some _ => false | None => true end &&
  (num_of (b_id b) =? num_of (b_parent b) + 1) && (num_of (b_id b) <? max_u32) &&
  (conf =? scan_conflicts r (num_of (b_id b))) && (Nat.eqb (length (b_rcs b)) (length (b_txs b))).

Lemma valid_addb_sound r b conf : valid_addb r b conf = true -> valid_add r b conf.
Proof.
  unfold valid_addb, valid_add. rewrite !andb_true_iff, !N.eqb_eq, N.ltb_lt, Nat.eqb_eq.
  intros [[[[H1 H2] H3] H4] H5]. destruct (get_summary r (b_id b)); [discriminate|]. auto.
Qed.

(* replay with the guard's conflicts ordinal; admb is a decidable admission condition *)
Fixpoint replay (admb : repo -> blk -> bool -> bool) (r : repo) (ops : list (blk * bool)) : option repo :=
  match ops with
  | [] => Some r
  | (b, best) :: ops' =>
    let conf := scan_conflicts r (num_of (b_id b)) in
    if valid_addb r b conf && admb r b best then
      match add_block r b conf best with Some r' => replay admb r' ops' | None => None end
    else None
  end.

Lemma replay_reachable g gp tag (adm : repo -> blk -> bool -> Prop) admb :
  (forall r b best, admb r b best = true -> adm r b best) ->
  forall ops r r', reachable g gp tag adm r -> replay admb r ops = Some r' -> reachable g gp tag adm r'.
Proof.
  intros Hadm. induction ops as [|[b best] ops IH]; intros r r' R H; cbn [replay] in H.
  - injection H as <-. exact R.
  - destruct (valid_addb r b (scan_conflicts r (num_of (b_id b))) && admb r b best) eqn:E; [|discriminate].
    apply andb_true_iff in E. destruct E as [E1 E2].
    destruct (add_block r b (scan_conflicts r (num_of (b_id b))) best) as [r1|] eqn:A; [|discriminate].
    apply (IH r1 r'); [|exact H]. eapply reach_add; eauto. apply valid_addb_sound. exact E1.
Qed.

Definition optN_eqb (a b : option N) : bool :=
  match a, b with Some x, Some y => x =? y | None, None => true | _, _ => false end.
Definition txrec_eqb (a b : txrec) : bool :=
  (tx_id a =? tx_id b) && (tx_tag a =? tx_tag b) && (tx_ref a =? tx_ref b) && (tx_exp a =? tx_exp b) &&
  optN_eqb (tx_dep a) (tx_dep b) && (tx_origin a =? tx_origin b).
Lemma txrec_eqb_eq a b : txrec_eqb a b = true -> a = b.
Proof.
  destruct a as [i1 t1 r1 e1 d1 o1], b as [i2 t2 r2 e2 d2 o2]. unfold txrec_eqb. cbn.
  rewrite !andb_true_iff, !N.eqb_eq. intros [[[[[-> ->] ->] ->] Hd] ->].
  destruct d1, d2; cbn in Hd; try discriminate; [apply N.eqb_eq in Hd; subst|]; reflexivity.
Qed.

(* no computation needed: whatever the replay returns, the result (or the start on a refused replay) is reachable *)
Lemma replay_reachable_default g gp tag (adm : repo -> blk -> bool -> Prop) admb :
  (forall r b best, admb r b best = true -> adm r b best) ->
  forall ops r, reachable g gp tag adm r ->
    reachable g gp tag adm (match replay admb r ops with Some r' => r' | None => r end).
Proof.
  intros Hadm ops r R. destruct (replay admb r ops) as [r'|] eqn:E; [|exact R].
  eapply replay_reachable; eauto.
Qed.
