(* Chain/Examples.v — a concrete history (fork at height 2, one tx on both siblings, a reorganisation) used by the
   non-vacuity Examples of Properties/C09.v, C14.v and C15.v. *)
From Coq Require Import List NArith Bool Lia.
From Verif Require Import Chain.Model Chain.Proofs Chain.ProofsWalk Chain.ProofsSys.
Import ListNotations.
Open Scope N_scope.

Definition bid (n k : N) : N := n * 2 ^ 224 + k.
Definition ex_g := bid 0 7.
Definition ex_gp := bid 4294967295 0.
Definition ex_tag := 7.
Definition ex_t1 := mkTx 1001 7 1 10 None 50.
Definition ex_t2 := mkTx 1002 7 0 5 (Some 1001) 51.
Definition ex_ev := mkEv 900 [5; 0] 2 258.
Definition ex_rc (rv : bool) := mkRc rv [([ex_ev], [mkTr 50 51 12])].
Definition ex_b1 := mkB (bid 1 1) ex_g 10 [] [].
Definition ex_b2 := mkB (bid 2 1) (bid 1 1) 20 [ex_t1] [ex_rc false].
Definition ex_b2' := mkB (bid 2 2) (bid 1 1) 20 [ex_t1; ex_t2] [ex_rc false; ex_rc true].
Definition ex_b3' := mkB (bid 3 1) (bid 2 2) 30 [] [].
Definition step_or (r : repo) (b : blk) (c : N) (best : bool) : repo :=
  match add_block r b c best with Some r' => r' | None => r end.
Definition ex_r0 := init_repo ex_g ex_gp ex_tag.
Definition ex_r1 := step_or ex_r0 ex_b1 0 true.
Definition ex_r2 := step_or ex_r1 ex_b2 0 true.
Definition ex_r3 := step_or ex_r2 ex_b2' 1 false.
Definition ex_r4 := step_or ex_r3 ex_b3' 0 true.

Lemma ex_g_num : num_of ex_g = 0. Proof. vm_compute. reflexivity. Qed.
Lemma ex_gp_num : num_of ex_gp = max_u32. Proof. vm_compute. reflexivity. Qed.

Lemma ex_reachable (adm : repo -> blk -> bool -> Prop) :
  adm ex_r0 ex_b1 true -> adm ex_r1 ex_b2 true -> adm ex_r2 ex_b2' false -> adm ex_r3 ex_b3' true ->
  reachable ex_g ex_gp ex_tag adm ex_r4.
Proof.
  intros A1 A2 A3 A4.
  apply (reach_add _ _ _ _ ex_r3 ex_b3' 0 true); [| vm_compute; repeat split | exact A4 | vm_compute; reflexivity].
  apply (reach_add _ _ _ _ ex_r2 ex_b2' 1 false); [| vm_compute; repeat split | exact A3 | vm_compute; reflexivity].
  apply (reach_add _ _ _ _ ex_r1 ex_b2 0 true); [| vm_compute; repeat split | exact A2 | vm_compute; reflexivity].
  apply (reach_add _ _ _ _ ex_r0 ex_b1 0 true); [| vm_compute; repeat split | exact A1 | vm_compute; reflexivity].
  apply reach_init.
Qed.

Lemma ex_reachable_tip : reachable ex_g ex_gp ex_tag tip_rule ex_r4.
Proof. apply ex_reachable; unfold tip_rule; vm_compute; intros; try reflexivity; discriminate. Qed.

(* ---- a chain deeper than the 100-block recent window, with a tx at height 2 whose id shares its 8-byte filter key
   with an id that is nowhere included ---- *)
From Verif Require Import Chain.Replay.
Definition deep_x1 : N := 5 * 2 ^ 192 + 1.
Definition deep_x2 : N := 5 * 2 ^ 192 + 2.
Definition deep_tx := mkTx deep_x1 7 1 10 None 50.
Fixpoint deep_ops (n : nat) (h : N) : list (blk * bool) :=
  match n with
  | O => []
  | S n' => (mkB (bid h 1) (if h =? 1 then ex_g else bid (h - 1) 1) (10 * h)
                 (if h =? 2 then [deep_tx] else []) (if h =? 2 then [ex_rc false] else []), true) :: deep_ops n' (h + 1)
  end.
(* every block of the deep chain passes `validate`, and its txs are exactly deep_tx *)
Definition deep_admb (r : repo) (b : blk) (_ : bool) : bool :=
  match validate r b with V_ok => true | _ => false end && forallb (fun t => txrec_eqb t deep_tx) (b_txs b).
Definition deep_repo : repo :=
  match replay deep_admb ex_r0 (deep_ops 105 1) with Some r => r | None => ex_r0 end.

Lemma deep_reachable (adm : repo -> blk -> bool -> Prop) : (forall r b best, deep_admb r b best = true -> adm r b best) ->
  reachable ex_g ex_gp ex_tag adm deep_repo.
Proof. intros Hadm. apply (replay_reachable_default ex_g ex_gp ex_tag adm deep_admb Hadm). apply reach_init. Qed.

(* reachability of the intermediate state ex_r3 under the node's fork-choice rule *)
Lemma ex_reachable3_tip : reachable ex_g ex_gp ex_tag tip_rule ex_r3.
Proof.
  apply (reach_add _ _ _ _ ex_r2 ex_b2' 1 false); [| vm_compute; repeat split | unfold tip_rule; vm_compute; discriminate | vm_compute; reflexivity].
  apply (reach_add _ _ _ _ ex_r1 ex_b2 0 true); [| vm_compute; repeat split | unfold tip_rule; reflexivity | vm_compute; reflexivity].
  apply (reach_add _ _ _ _ ex_r0 ex_b1 0 true); [| vm_compute; repeat split | unfold tip_rule; reflexivity | vm_compute; reflexivity].
  apply reach_init.
Qed.
