(* Chain/ProofsChainInv.v — C09 first sentence at chain level (at most once, chain tag, validity window) by
   induction over every history all of whose blocks passed the body / verify rules. *)
From Coq Require Import List NArith Bool Lia ZifyN ZifyNat ZifyBool.
From Verif Require Import Chain.Model Chain.Proofs Chain.ProofsWalk Chain.ProofsSys Chain.ProofsTx Chain.ProofsAccept.
Import ListNotations.
Open Scope N_scope.

Section ChainInv.
  Variables g gp tag : N.
  Variable U : txrec -> Prop.          (* the transactions that exist; an id determines the body (hash collision freedom) *)
  Hypothesis U_inj : forall t1 t2, U t1 -> U t2 -> tx_id t1 = tx_id t2 -> t1 = t2.
  Hypothesis Hg : num_of g = 0.
  Hypothesis Hgp : num_of gp = max_u32.

  Definition accepted (r : repo) (b : blk) (_ : bool) : Prop := validate r b = V_ok /\ forall t, In t (b_txs b) -> U t.

  (* t is a transaction of stored block a *)
  Definition tx_in (r : repo) (a : N) (t : txrec) : Prop := exists s b, get_block r a = Some (s, b) /\ In t (b_txs b).

  Definition chain_ok (r : repo) (h : N) : Prop :=
    (forall a t, anc r h a -> tx_in r a t -> U t /\ tx_tag t = tag /\ tx_ref t <= num_of a /\ num_of a <= tx_ref t + tx_exp t) /\
    (forall a1 t1 a2 t2, anc r h a1 -> anc r h a2 -> tx_in r a1 t1 -> tx_in r a2 t2 -> tx_id t1 = tx_id t2 -> a1 = a2) /\
    (forall a s b, anc r h a -> get_block r a = Some (s, b) -> NoDup (map tx_id (b_txs b))).

  Lemma tag_const r : reachable g gp tag accepted r -> r_tag r = tag.
  Proof.
    induction 1 as [|r b conf best r' _ IH _ _ A]; [reflexivity|].
    destruct (add_parent _ _ _ _ _ A) as [ps [_ ->]]. exact IH.
  Qed.

  Lemma get_block_add_old r r' b conf best id s :
    wf g gp r -> valid_add r b conf -> add_block r b conf best = Some r' ->
    get_summary r id = Some s -> get_block r' id = get_block r id.
  Proof.
    intros W V A Hs. unfold get_block. rewrite (add_summary_old _ _ _ _ _ V A _ _ Hs), Hs.
    destruct (add_parent _ _ _ _ _ A) as [ps [_ ->]]. cbn [r_body save_block]. rewrite afind2_cons.
    destruct (eq2 _ _) eqn:E; [|reflexivity]. apply eq2_spec in E. injection E as E1 E2.
    pose proof (w_conf _ _ _ W _ _ Hs) as C. destruct V as [_ [_ [_ [Hc _]]]]. rewrite E1 in Hc. lia.
  Qed.

  Lemma get_block_add_new r r' b conf best :
    add_block r b conf best = Some r' ->
    get_block r' (b_id b) = Some (mkS (b_id b) (b_parent b) (map tx_id (b_txs b)) conf, b).
  Proof.
    intros A. unfold get_block. rewrite (add_summary _ _ _ _ _ A), N.eqb_refl.
    destruct (add_parent _ _ _ _ _ A) as [ps [_ ->]]. cbn [r_body save_block s_conf]. rewrite afind2_cons.
    replace (eq2 _ _) with true by (symmetry; apply eq2_spec; reflexivity). reflexivity.
  Qed.

  Lemma tx_in_incl r a t : wf_body r -> tx_in r a t -> forall h, anc r h a -> incl_on r h (tx_id t) a.
  Proof.
    intros WB [s [b [Hb Hin]]] h Ha. unfold get_block in Hb. destruct (get_summary r a) as [s'|] eqn:Hs; [|discriminate].
    destruct (WB a s' Hs) as [b' [B1 [_ [B3 _]]]]. rewrite B1 in Hb. injection Hb as <- <-.
    exists s'. split; [exact Ha|]. split; [exact Hs|]. rewrite B3. apply in_map. exact Hin.
  Qed.

  Lemma incl_tx_in r h x a : wf_body r -> incl_on r h x a -> exists t, tx_in r a t /\ tx_id t = x.
  Proof.
    intros WB [s [Ha [Hs Hin]]]. destruct (WB a s Hs) as [b [B1 [_ [B3 _]]]]. rewrite B3 in Hin.
    apply in_map_iff in Hin. destruct Hin as [t [Et Hin]]. exists t. split; [|exact Et].
    exists s, b. split; [|exact Hin]. unfold get_block. rewrite Hs, B1. reflexivity.
  Qed.

  Theorem accepted_chain_ok r : reachable g gp tag accepted r -> forall h, stored r h -> chain_ok r h.
  Proof.
    induction 1 as [|r b conf best r' R IH V [Hval HU] A].
    - (* genesis only *)
      intros h Sh. pose proof (wf_init g gp tag Hg) as W.
      assert (Only : forall a, stored (init_repo g gp tag) a -> a = g).
      { intros a [s Hs]. unfold get_summary, init_repo in Hs. cbn [r_sums afind] in Hs. destruct (N.eqb_spec g a); [auto | discriminate]. }
      assert (NoTx : forall a t, ~ tx_in (init_repo g gp tag) a t).
      { intros a t [s [b [Hb Hin]]]. unfold get_block, get_summary, init_repo in Hb. cbn [r_sums afind r_body] in Hb.
        destruct (g =? a); [|discriminate]. cbn [s_conf afind2] in Hb. destruct (eq2 _ _); [|discriminate]. injection Hb as _ <-. destruct Hin. }
      repeat split; intros; try (exfalso; eapply NoTx; eauto; fail).
      unfold get_block, get_summary, init_repo in H0. cbn [r_sums afind r_body] in H0.
      destruct (g =? a); [|discriminate]. cbn [s_conf afind2] in H0. destruct (eq2 _ _); [|discriminate]. injection H0 as _ <-. constructor.
    - pose proof (reachable_wf _ _ _ _ _ Hg R) as W. pose proof (reachable_wf_body _ _ _ _ _ Hg R) as WB.
      pose proof (reachable_wf_txi _ _ _ _ _ Hg R) as WT. pose proof (reachable_conf_inj _ _ _ _ _ Hg R) as CI.
      destruct (add_parent _ _ _ _ _ A) as [ps [Hps _]].
      assert (Sp : stored r (b_parent b)) by (exists ps; exact Hps).
      pose proof (IH _ Sp) as [P1 [P2 P3]].
      (* facts about the new block from the acceptance rules *)
      assert (Hwin : forall t a, In t (b_txs b) -> incl_on r (b_parent b) (tx_id t) a -> tx_ref t <= num_of a).
      { intros t a Hin Hi. destruct (incl_tx_in r _ _ _ WB Hi) as [t' [Ht' Eid]]. destruct Hi as [s [Ha _]].
        destruct (P1 a t' Ha Ht') as [Ut' [_ [Hr _]]]. rewrite (U_inj t t' (HU t Hin) Ut' (eq_sym Eid)). exact Hr. }
      destruct (accepted_block_step g gp r W WB WT CI Hgp b Sp Hval Hwin) as [ND Hnew].
      rewrite (tag_const r R) in Hnew.
      (* old blocks keep their content, old heads their ancestry *)
      assert (OldTx : forall a t, stored r a -> (tx_in r' a t <-> tx_in r a t)).
      { intros a t [s Hs]. unfold tx_in. rewrite (get_block_add_old r r' b conf best a s W V A Hs). tauto. }
      assert (NewTx : forall t, tx_in r' (b_id b) t <-> In t (b_txs b)).
      { intros t. unfold tx_in. rewrite (get_block_add_new r r' b conf best A). split.
        - intros [s [b' [E Hin]]]. injection E as _ <-. exact Hin.
        - intros Hin. eauto. }
      intros h Sh. destruct Sh as [sh Hsh]. rewrite (add_summary _ _ _ _ _ A) in Hsh.
      destruct (N.eqb_spec (b_id b) h) as [Eh|Nh].
      + (* the new block as head: its chain is itself plus the parent's chain *)
        subst h.
        assert (Anc : forall a, anc r' (b_id b) a -> a = b_id b \/ anc r (b_parent b) a).
        { intros a Ha. destruct (anc_add_inv g gp r r' b conf best W V A _ _ Ha) as [Ho|[_ Hn]]; [|exact Hn].
          exfalso. apply (add_new_not_stored r b conf V). apply (anc_stored _ _ _ Ho). }
        assert (OldA : forall a, anc r (b_parent b) a -> stored r a) by (intros a Ha; apply (anc_stored _ _ _ Ha)).
        assert (NotNew : forall a, anc r (b_parent b) a -> a <> b_id b).
        { intros a Ha E. apply (add_new_not_stored r b conf V). rewrite <- E. apply OldA. exact Ha. }
        split; [|split].
        * intros a t Ha Ht. destruct (Anc a Ha) as [->|Ho].
          -- apply NewTx in Ht. destruct (Hnew t Ht) as [_ [H1 [H2 H3]]]. auto.
          -- apply (OldTx a t (OldA a Ho)) in Ht. apply (P1 a t Ho Ht).
        * intros a1 t1 a2 t2 Ha1 Ha2 Ht1 Ht2 Eid.
          destruct (Anc a1 Ha1) as [->|Ho1]; destruct (Anc a2 Ha2) as [->|Ho2]; [reflexivity | | |].
          -- exfalso. apply NewTx in Ht1. apply (OldTx a2 t2 (OldA a2 Ho2)) in Ht2.
             destruct (Hnew t1 Ht1) as [Hno _]. apply (Hno a2). rewrite Eid. apply tx_in_incl; auto.
          -- exfalso. apply NewTx in Ht2. apply (OldTx a1 t1 (OldA a1 Ho1)) in Ht1.
             destruct (Hnew t2 Ht2) as [Hno _]. apply (Hno a1). rewrite <- Eid. apply tx_in_incl; auto.
          -- apply (OldTx a1 t1 (OldA a1 Ho1)) in Ht1. apply (OldTx a2 t2 (OldA a2 Ho2)) in Ht2. eapply P2; eauto.
        * intros a s b' Ha Hb. destruct (Anc a Ha) as [->|Ho].
          -- rewrite (get_block_add_new r r' b conf best A) in Hb. injection Hb as _ <-. exact ND.
          -- destruct (OldA a Ho) as [sa Hsa]. rewrite (get_block_add_old r r' b conf best a sa W V A Hsa) in Hb. eapply P3; eauto.
      + (* an old head: nothing changed on its chain *)
        assert (Sh : stored r h) by (exists sh; exact Hsh).
        pose proof (IH _ Sh) as [Q1 [Q2 Q3]].
        assert (Anc : forall a, anc r' h a -> anc r h a).
        { intros a Ha. destruct (anc_add_inv g gp r r' b conf best W V A _ _ Ha) as [Ho|[E _]]; [exact Ho | congruence]. }
        assert (OldA : forall a, anc r h a -> stored r a) by (intros a Ha; apply (anc_stored _ _ _ Ha)).
        split; [|split].
        * intros a t Ha Ht. apply Anc in Ha. apply (OldTx a t (OldA a Ha)) in Ht. apply (Q1 a t Ha Ht).
        * intros a1 t1 a2 t2 Ha1 Ha2 Ht1 Ht2 Eid. apply Anc in Ha1. apply Anc in Ha2.
          apply (OldTx a1 t1 (OldA a1 Ha1)) in Ht1. apply (OldTx a2 t2 (OldA a2 Ha2)) in Ht2. eapply Q2; eauto.
        * intros a s b' Ha Hb. apply Anc in Ha. destruct (OldA a Ha) as [sa Hsa].
          rewrite (get_block_add_old r r' b conf best a sa W V A Hsa) in Hb. eapply Q3; eauto.
  Qed.
  (* accepted chains respect the window rule, so on them the two lookup paths agree with each other and with membership *)
  Theorem accepted_paths_agree r : reachable g gp tag accepted r -> forall h t, stored r h -> U t ->
    exists v, has_transaction r h (tx_id t) (tx_ref t) = Ok v /\ has_tx_indexed r h (tx_id t) = Ok v /\
              (tx_ref t <= num_of h -> num_of h - tx_ref t < 100 -> recent_walk r (tx_id t) (tx_ref t) 102 h = Ok v) /\
              (v = true <-> exists a, incl_on r h (tx_id t) a).
  Proof.
    intros R h t Sh Ut.
    pose proof (reachable_wf _ _ _ _ _ Hg R) as W. pose proof (reachable_wf_body _ _ _ _ _ Hg R) as WB.
    pose proof (reachable_wf_txi _ _ _ _ _ Hg R) as WT. pose proof (reachable_conf_inj _ _ _ _ _ Hg R) as CI.
    apply (has_tx_paths_agree_lemma g gp r W WB WT CI Hgp h (tx_id t) (tx_ref t) Sh).
    intros a Hi. destruct (incl_tx_in r _ _ _ WB Hi) as [t' [Ht' Eid]]. destruct Hi as [s [Ha _]].
    destruct (accepted_chain_ok r R h Sh) as [P1 _]. destruct (P1 a t' Ha Ht') as [Ut' [_ [Hr _]]].
    rewrite (U_inj t t' Ut Ut' (eq_sym Eid)). exact Hr.
  Qed.
End ChainInv.
