(* Chain/ProofsWalk.v — Exclude computes the difference of two chains; BlockReader.Read walks back to the fork
   point and forward along the canonical chain; a subscriber applying the stream holds the canonical chain
   whenever the reader is quiescent, for every interleaving of reads with AddBlock calls (C14, second half). *)
From Coq Require Import List NArith Bool Lia ZifyN ZifyNat ZifyBool Wf_nat Arith Sorted.
From Verif Require Import Chain.Model Chain.Proofs.
Import ListNotations.
Open Scope N_scope.

Section Walks.
  Variables (g gp : N) (r : repo).
  Hypothesis W : wf g gp r.

  Lemma stored_height0 a : stored r a -> num_of a = 0 -> a = g.
  Proof.
    intros [s Hs] E. destruct (N.eq_dec a g) as [|Hg]; [assumption|].
    destruct (w_par _ _ _ W _ _ Hs Hg) as [ps [_ [E' _]]]. lia.
  Qed.

  Lemma anc_to_gen h : stored r h -> anc r h g.
  Proof.
    intros Sh. destruct (anc_total g gp r W h Sh 0 ltac:(lia)) as [a [Ha E]].
    rewrite <- (stored_height0 a); [exact Ha | apply (anc_stored _ _ _ Ha) | exact E].
  Qed.

  Lemma anc_linear c a a' : anc r c a -> anc r c a' -> num_of a' <= num_of a -> anc r a a'.
  Proof.
    intros Ha Ha' Hle. destruct (anc_stored _ _ _ Ha) as [_ Sa].
    destruct (anc_total g gp r W a Sa (num_of a') Hle) as [x [Hx E]].
    assert (X : x = a').
    { apply (anc_unique_at g gp r W c); auto. eapply anc_trans; [exact Ha | exact Hx]. }
    subst x. exact Hx.
  Qed.

  Lemma anc_parent h s : get_summary r h = Some s -> h <> g -> anc r h (s_parent s).
  Proof.
    intros Hs Hg. destruct (w_par _ _ _ W _ _ Hs Hg) as [ps [Hps _]].
    eapply anc_step; eauto; [rewrite (w_gen _ _ _ W); exact Hg | eapply anc_refl; eauto].
  Qed.

  (* ------------------------------------------------------------ Exclude *)
  Definition asc (l : list N) : Prop := StronglySorted (fun a b => num_of a < num_of b) l.

  Lemma exclude_walk_spec c o : stored r c -> stored r o ->
    forall fuel id acc,
      anc r c id -> (N.to_nat (num_of id) < fuel)%nat ->
      (forall a, In a acc <-> anc r c a /\ num_of id < num_of a) ->
      (forall a, In a acc -> ~ anc r o a) -> asc acc ->
      exists l, exclude_walk r c o fuel id acc = Ok l /\
                (forall a, In a l <-> anc r c a /\ ~ anc r o a) /\ asc l.
  Proof.
    intros Sc So. induction fuel as [|f IH]; intros id acc Hid Hf Hacc Hno Hs; [lia|].
    (* finishing with acc when id is on o's chain *)
    assert (Stop : anc r o id -> (forall a, In a acc <-> anc r c a /\ ~ anc r o a)).
    { intros Hoid a. split.
      - intros Hin. split; [apply Hacc; exact Hin | apply Hno; exact Hin].
      - intros [Hca Hna]. apply Hacc. split; [exact Hca|].
        destruct (N.lt_ge_cases (num_of id) (num_of a)) as [|Hle]; [assumption|].
        exfalso. apply Hna. eapply anc_trans; [exact Hoid|]. apply (anc_linear c id a); assumption. }
    cbn [exclude_walk]. destruct (N.eqb_spec (num_of id) 0) as [E0|N0].
    - exists acc. split; [reflexivity|]. split; [|exact Hs]. apply Stop.
      rewrite (stored_height0 id); [apply anc_to_gen; exact So | apply (anc_stored _ _ _ Hid) | exact E0].
    - (* the continuation: push id, go to c's block at height n-1 *)
      assert (Go : ~ anc r o id ->
                   exists l, match get_block_id r c (num_of id - 1) with
                             | Ok p => exclude_walk r c o f p (id :: acc) | _ => Fail end = Ok l /\
                             (forall a, In a l <-> anc r c a /\ ~ anc r o a) /\ asc l).
      { intros Hn. destruct (anc_total g gp r W c Sc (num_of id - 1)) as [p [Hp Ep]].
        { pose proof (anc_height g gp r W _ _ Hid). lia. }
        assert (Eg : get_block_id r c (num_of id - 1) = Ok p) by (apply (get_block_id_spec g gp r W); auto).
        rewrite Eg. apply IH; auto.
        - lia.
        - intros a. cbn [In]. rewrite Hacc. split.
          + intros [<-|[Ha Hl]]; [split; [exact Hid | lia] | split; [exact Ha | lia]].
          + intros [Ha Hl]. destruct (N.eq_dec (num_of a) (num_of id)) as [E|NE].
            * left. eapply (anc_unique_at g gp r W c); eauto.
            * right. split; [exact Ha | lia].
        - intros a [<-|Hin]; [exact Hn | apply Hno; exact Hin].
        - constructor; [exact Hs|]. apply Forall_forall. intros a Hin. apply Hacc in Hin. lia. }
      destruct (N.ltb_spec (num_of o) (num_of id)) as [Hlt|Hge].
      + apply Go. intros Ho. pose proof (anc_height g gp r W _ _ Ho). lia.
      + destruct (N.eqb_spec (num_of id) (num_of o)) as [Eo|Neo].
        * destruct (N.eqb_spec id o) as [->|Nid].
          -- exists acc. split; [reflexivity|]. split; [|exact Hs]. apply Stop. destruct So as [so Hso]. eapply anc_refl; eauto.
          -- apply Go. intros Ho. apply Nid. apply (anc_same_height g gp r W o id); auto.
        * destruct (has_block_spec g gp r W o id So) as [v [Ev Hv]]. rewrite Ev. destruct v.
          -- exists acc. split; [reflexivity|]. split; [|exact Hs]. apply Stop. apply Hv. reflexivity.
          -- apply Go. intros Ho. apply Hv in Ho. discriminate.
  Qed.

  (* C14: the difference between two chains is exactly the blocks on one and not on the other, ascending *)
  Lemma exclude_spec c o : stored r c -> stored r o ->
    exists l, exclude r c o = Ok l /\ (forall a, In a l <-> anc r c a /\ ~ anc r o a) /\ asc l.
  Proof.
    intros Sc So. unfold exclude. destruct Sc as [sc Hsc].
    apply exclude_walk_spec; try (exists sc; exact Hsc); auto.
    - eapply anc_refl; eauto.
    - intros a. cbn [In]. split; [contradiction|]. intros [Ha Hl].
      pose proof (anc_height g gp r W _ _ Ha). lia.
    - constructor.
  Qed.
End Walks.

(* ---------------------------------------------------------------- bodies *)
Definition wf_body (r : repo) : Prop :=
  forall id s, get_summary r id = Some s ->
    exists b, afind2 (num_of id, s_conf s) (r_body r) = Some b /\ b_id b = id /\
              s_txids s = map tx_id (b_txs b) /\ s_parent s = b_parent b /\ length (b_rcs b) = length (b_txs b).

Lemma wf_body_init g gp tag : num_of g = 0 -> wf_body (init_repo g gp tag).
Proof.
  intros Hg id s. unfold get_summary, init_repo. cbn [r_sums afind r_body].
  destruct (N.eqb_spec g id) as [<-|]; [|discriminate]. intros E. injection E as <-. cbn [s_conf s_txids s_parent].
  exists (mkB g gp 0 [] []). rewrite Hg. cbn. auto.
Qed.

Lemma wf_body_add g gp r r' b conf best :
  wf g gp r -> wf_body r -> valid_add r b conf -> add_block r b conf best = Some r' -> wf_body r'.
Proof.
  intros W WB V A id s. rewrite (add_summary r r' b conf best A).
  destruct (add_parent r r' b conf best A) as [ps [Hps Er']].
  destruct (N.eqb_spec (b_id b) id) as [E|NE].
  - intros E'. injection E' as <-. subst id. exists b. rewrite Er'. cbn [r_body save_block s_conf s_txids s_parent].
    rewrite afind2_cons. replace (eq2 _ _) with true by (symmetry; apply eq2_spec; reflexivity).
    repeat split; auto. apply V.
  - intros H. destruct (WB id s H) as [b0 [B1 B2]]. exists b0. split; [|exact B2].
    rewrite Er'. cbn [r_body save_block]. rewrite afind2_cons. destruct (eq2 _ _) eqn:E; [|exact B1].
    apply eq2_spec in E. injection E as E1 E2. pose proof (w_conf _ _ _ W _ _ H) as C.
    destruct V as [_ [_ [_ [Hc _]]]]. rewrite E1 in Hc. lia.
Qed.

Lemma reachable_wf_body g gp tag adm r : num_of g = 0 -> reachable g gp tag adm r -> wf_body r.
Proof.
  intros Hg H. induction H.
  - apply wf_body_init. exact Hg.
  - eapply wf_body_add; eauto. eapply reachable_wf; eauto.
Qed.

(* ---------------------------------------------------------------- readers *)
(* the blocks from h down to genesis, newest first *)
Inductive is_path (r : repo) : N -> list N -> Prop :=
| path_gen : is_path r (r_gen r) [r_gen r]
| path_step h s l : get_summary r h = Some s -> h <> r_gen r -> is_path r (s_parent s) l -> is_path r h (h :: l).

(* the node's fork choice never leaves the best block with stored descendants: a child of best becomes best *)
Definition best_tip (r : repo) : Prop := forall h, anc r h (r_best r) -> h = r_best r.

Lemma apply_obsolete r obs st : apply_stream r (obs ++ st) (map (fun a => (a, true)) obs) = Some st.
Proof. induction obs as [|a obs IH]; [reflexivity|]. cbn. rewrite N.eqb_refl. exact IH. Qed.

Lemma apply_app r l1 : forall st l2, apply_stream r st (l1 ++ l2) =
  match apply_stream r st l1 with Some st' => apply_stream r st' l2 | None => None end.
Proof.
  induction l1 as [|[b o] l1 IH]; intros st l2; [reflexivity|]. cbn [app apply_stream].
  destruct o.
  - destruct st as [|t st]; [reflexivity|]. destruct (t =? b); [apply IH | reflexivity].
  - destruct (get_summary r b); [|reflexivity]. destruct st as [|t st]; [reflexivity|].
    destruct (s_parent s =? t); [apply IH | reflexivity].
Qed.

Section Reader.
  Variables (g gp : N) (r : repo).
  Hypothesis W : wf g gp r.
  Hypothesis WB : wf_body r.
  Hypothesis TIP : best_tip r.
  Let B := r_best r.

  Lemma path_head h l : is_path r h l -> exists t, l = h :: t.
  Proof. inversion 1; eauto. Qed.

  Lemma path_stored h l : is_path r h l -> stored r h.
  Proof.
    inversion 1; subst; [|eexists; eauto]. rewrite (w_gen _ _ _ W). eexists. apply (w_gsum _ _ _ W).
  Qed.

  Lemma get_block_stored h s : get_summary r h = Some s -> exists b, get_block r h = Some (s, b).
  Proof. intros Hs. unfold get_block. rewrite Hs. destruct (WB h s Hs) as [b [-> _]]. eauto. Qed.

  (* one Read from a position that is not best: obsolete blocks = the part of pos's chain that is not canonical,
     newest first, then the canonical successor of the fork point *)
  Lemma read_walk_spec : forall fuel pos st acc,
      is_path r pos st -> pos <> B -> (N.to_nat (num_of pos) + 1 < fuel)%nat ->
      exists obs stf nx sn,
        read_walk r B fuel pos acc = Ok (rev acc ++ map (fun a => (a, true)) obs ++ [(nx, false)], nx) /\
        st = obs ++ stf /\ (forall a, In a obs -> anc r pos a /\ ~ anc r B a) /\
        get_summary r nx = Some sn /\ is_path r (s_parent sn) stf /\ anc r B nx /\ anc r B (s_parent sn) /\ nx <> g /\
        (anc r B pos -> obs = [] /\ s_parent sn = pos).
  Proof.
    induction fuel as [|f IH]; intros pos st acc Hp Hne Hf; [lia|].
    pose proof (path_stored _ _ Hp) as Sp. destruct Sp as [s Hs].
    destruct (get_block_stored pos s Hs) as [bb Hgb]. cbn [read_walk]. rewrite Hgb.
    assert (SB : stored r B) by apply (w_best _ _ _ W).
    (* walking one step back *)
    assert (Back : ~ anc r B pos ->
      exists obs stf nx sn,
        read_walk r B f (s_parent s) ((pos, true) :: acc) = Ok (rev acc ++ map (fun a => (a, true)) obs ++ [(nx, false)], nx) /\
        st = obs ++ stf /\ (forall a, In a obs -> anc r pos a /\ ~ anc r B a) /\
        get_summary r nx = Some sn /\ is_path r (s_parent sn) stf /\ anc r B nx /\ anc r B (s_parent sn) /\ nx <> g /\
        (anc r B pos -> obs = [] /\ s_parent sn = pos)).
    { intros Hn. assert (Hg : pos <> g) by (intros ->; apply Hn; apply (anc_to_gen g gp r W); exact SB).
      inversion Hp as [|h' s' l' Hs' Hg' Hp']; subst; [rewrite (w_gen _ _ _ W) in Hg; congruence|].
      rewrite Hs in Hs'. injection Hs' as <-.
      destruct (w_par _ _ _ W _ _ Hs Hg) as [ps [Hps [En _]]].
      assert (Hne' : s_parent s <> B).
      { intros E. apply Hne. apply TIP. fold B. rewrite <- E. apply (anc_parent g gp r W); auto. }
      destruct (IH (s_parent s) l' ((pos, true) :: acc) Hp' Hne' ltac:(lia))
        as [obs [stf [nx [sn [E1 [E2 [E3 [E4 [E5 [E6 [E7 [E8 E9]]]]]]]]]]]].
      exists (pos :: obs), stf, nx, sn. repeat split; auto.
      - rewrite E1. cbn [rev map app]. rewrite <- !app_assoc. reflexivity.
      - cbn [app]. congruence.
      - destruct H as [<-|Hin]; [eapply anc_refl; eauto|]. eapply anc_trans; [apply (anc_parent g gp r W); eauto|]. apply E3. exact Hin.
      - destruct H as [<-|Hin]; [exact Hn | apply E3; exact Hin].
      - contradiction.
      - contradiction. }
    destruct (N.ltb_spec (num_of B) (num_of pos)) as [Hlt|Hge].
    - apply Back. intros Ha. pose proof (anc_height g gp r W _ _ Ha). lia.
    - destruct (has_block_spec g gp r W B pos SB) as [v [Ev Hv]]. rewrite Ev. destruct v.
      + assert (Ha : anc r B pos) by (apply Hv; reflexivity).
        assert (Hlt : num_of pos < num_of B).
        { destruct (N.eq_dec (num_of pos) (num_of B)) as [E|]; [|lia]. exfalso. apply Hne. eapply (anc_same_height g gp r W); eauto. }
        destruct (anc_total g gp r W B SB (num_of pos + 1) ltac:(lia)) as [nx [Hnx Enx]].
        assert (Eg : get_block_id r B (num_of pos + 1) = Ok nx) by (apply (get_block_id_spec g gp r W); auto).
        rewrite Eg. destruct (anc_stored _ _ _ Hnx) as [_ [sn Hsn]].
        destruct (get_block_stored nx sn Hsn) as [bn ->].
        assert (Hg : nx <> g) by (intros ->; rewrite (w_gnum _ _ _ W) in Enx; lia).
        destruct (w_par _ _ _ W _ _ Hsn Hg) as [ps [Hps [En _]]].
        assert (Hpar : s_parent sn = pos).
        { assert (X : anc r nx pos) by (eapply (anc_linear g gp r W); eauto; lia).
          inversion X as [|h' s' a' Hs' Hg' Hp']; subst; [lia|]. rewrite Hsn in Hs'. injection Hs' as <-.
          symmetry. apply (anc_same_height g gp r W _ _ Hp'). lia. }
        exists [], st, nx, sn. cbn [map app rev]. repeat split; auto.
        * destruct H.
        * rewrite Hpar. exact Hp.
        * rewrite Hpar. exact Ha.
      + apply Back. intros Ha. apply Hv in Ha. discriminate.
  Qed.

  (* C14: one read step of a subscriber *)
  Lemma read_step pos st : is_path r pos st -> pos <> B ->
    exists l nx st',
      read r pos = Ok (l, nx) /\ l <> [] /\ apply_stream r st l = Some st' /\ is_path r nx st' /\ anc r B nx /\
      (forall a, In (a, true) l -> anc r pos a /\ ~ anc r B a) /\
      (anc r B pos -> l = [(nx, false)] /\ num_of nx = num_of pos + 1).
  Proof.
    intros Hp Hne. unfold read. fold B. destruct (N.eqb_spec B pos) as [E|_]; [congruence|].
    destruct (read_walk_spec (S (S (N.to_nat (num_of pos)))) pos st [] Hp Hne ltac:(lia))
      as [obs [stf [nx [sn [E1 [E2 [E3 [E4 [E5 [E6 [E7 [E8 E9]]]]]]]]]]]].
    rewrite E1. cbn [rev app].
    destruct (path_head _ _ E5) as [t Et].
    exists (map (fun a => (a, true)) obs ++ [(nx, false)]), nx, (nx :: stf). repeat split; auto.
    - destruct obs; discriminate.
    - rewrite apply_app, E2, apply_obsolete. cbn [apply_stream]. rewrite E4, Et, N.eqb_refl. reflexivity.
    - eapply path_step; eauto. rewrite (w_gen _ _ _ W). exact E8.
    - apply in_app_or in H. destruct H as [H|[H|[]]]; [|discriminate].
      apply in_map_iff in H. destruct H as [x [Hx Hin]]. injection Hx as <-. apply E3. exact Hin.
    - apply in_app_or in H. destruct H as [H|[H|[]]]; [|discriminate].
      apply in_map_iff in H. destruct H as [x [Hx Hin]]. injection Hx as <-. apply E3. exact Hin.
    - destruct (E9 H) as [-> _]. reflexivity.
    - destruct (E9 H) as [_ Hpar]. destruct (w_par _ _ _ W _ _ E4 E8) as [ps [_ [En _]]]. rewrite Hpar in En. exact En.
  Qed.

  Lemma read_at_best : read r B = Ok ([], B).
  Proof. unfold read. fold B. rewrite N.eqb_refl. reflexivity. Qed.

  (* a reader is quiescent exactly at the best block *)
  Lemma read_quiescent pos st np : is_path r pos st -> read r pos = Ok ([], np) -> pos = B.
  Proof.
    intros Hp E. destruct (N.eq_dec pos B) as [|Hne]; [assumption|].
    destruct (read_step pos st Hp Hne) as [l [nx [st' [E1 [E2 _]]]]]. rewrite E1 in E. injection E as E _. congruence.
  Qed.
End Reader.
