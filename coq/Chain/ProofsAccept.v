(* Chain/ProofsAccept.v — what a block that passes the body / verify rules guarantees (C09, first sentence:
   the induction step over an accepted chain for at-most-once, chain tag and validity window). *)
From Coq Require Import List NArith Bool Lia ZifyN ZifyNat ZifyBool.
From Verif Require Import Chain.Model Chain.Proofs Chain.ProofsWalk Chain.ProofsTx.
Import ListNotations.
Open Scope N_scope.

Lemma body_rule_ok tag num t : body_rule tag num t = V_ok ->
  tx_tag t = tag /\ tx_ref t <= num /\ num <= tx_ref t + tx_exp t.
Proof.
  unfold body_rule. destruct (N.eqb_spec (tx_tag t) tag); cbn [negb]; [|discriminate].
  destruct (N.ltb_spec num (tx_ref t)); [discriminate|]. destruct (N.ltb_spec (tx_ref t + tx_exp t) num); [discriminate|]. auto.
Qed.

Lemma body_rules_ok tag num txs : body_rules tag num txs = V_ok -> forall t, In t txs -> body_rule tag num t = V_ok.
Proof.
  induction txs as [|t0 x IH]; intros H t Hin; [destruct Hin|]. cbn [body_rules] in H.
  destruct (body_rule tag num t0) eqn:E; try discriminate. destruct Hin as [<-|Hin]; [exact E | apply IH; auto].
Qed.

(* every tx that survives the verify loop was neither processed earlier in the block nor found by HasTransaction
   on the parent's chain; and its dependency, if any, was found and had not reverted *)
Lemma verify_loop_ok r p : forall txs processed revs,
  verify_loop r p processed txs revs = V_ok ->
  NoDup (map tx_id txs) /\
  forall t, In t txs -> afind (tx_id t) processed = None /\ has_transaction r p (tx_id t) (tx_ref t) = Ok false.
Proof.
  induction txs as [|t0 x IH]; intros processed revs H; [split; [constructor | intros t []]|].
  cbn [verify_loop] in H.
  destruct (afind (tx_id t0) processed) eqn:Ep; [discriminate|].
  destruct (has_transaction r p (tx_id t0) (tx_ref t0)) as [[|]| |] eqn:Eh; try discriminate.
  match type of H with (match ?d with _ => _ end) = _ => destruct d eqn:Ed; try discriminate end.
  apply IH in H. destruct H as [ND Hall].
  assert (Hnot : ~ In (tx_id t0) (map tx_id x)).
  { intros Hin. apply in_map_iff in Hin. destruct Hin as [t [Et Hin]]. destruct (Hall t Hin) as [F _].
    rewrite Et in F. cbn [afind] in F. rewrite N.eqb_refl in F. discriminate. }
  split; [constructor; assumption|]. intros t [<-|Hin]; [auto|].
  destruct (Hall t Hin) as [F1 F2]. split; [|exact F2]. cbn [afind] in F1. destruct (tx_id t0 =? tx_id t); [discriminate | exact F1].
Qed.

Section Accept.
  Variables (g gp : N) (r : repo).
  Hypothesis W : wf g gp r.
  Hypothesis WB : wf_body r.
  Hypothesis WT : wf_txi r.
  Hypothesis CI : conf_inj r.
  Hypothesis Hgp : num_of gp = max_u32.

  (* induction step of accepted_chain_inv for "at most once, with the tag, inside the window":
     if the parent's chain respects the window rule for the ids of b's txs, then an accepted b repeats no id
     of its own, carries none that is already on the parent's chain, and every tx has the tag and is in its window *)
  Lemma accepted_block_step b :
    stored r (b_parent b) -> validate r b = V_ok ->
    (forall t a, In t (b_txs b) -> incl_on r (b_parent b) (tx_id t) a -> tx_ref t <= num_of a) ->
    NoDup (map tx_id (b_txs b)) /\
    (forall t, In t (b_txs b) ->
       (forall a, ~ incl_on r (b_parent b) (tx_id t) a) /\
       tx_tag t = r_tag r /\ tx_ref t <= num_of (b_id b) /\ num_of (b_id b) <= tx_ref t + tx_exp t).
  Proof.
    intros Sp Hv Hwin. unfold validate in Hv.
    destruct (body_rules (r_tag r) (num_of (b_id b)) (b_txs b)) eqn:Eb; try discriminate.
    apply verify_loop_ok in Hv. destruct Hv as [ND Hall]. split; [exact ND|].
    intros t Hin. destruct (Hall t Hin) as [_ Hh]. split.
    - destruct (has_tx_paths_agree_lemma g gp r W WB WT CI Hgp (b_parent b) (tx_id t) (tx_ref t) Sp)
        as [v [Ev [_ [_ Hiff]]]]; [intros a Ha; eapply Hwin; eauto|].
      rewrite Ev in Hh. injection Hh as ->. intros a Ha. assert (false = true) by (apply Hiff; eauto). discriminate.
    - apply body_rule_ok. eapply body_rules_ok; eauto.
  Qed.
End Accept.
