(* Chain/Proofs.v — the repository invariant over every history of AddBlock calls, and what the by-number index,
   HasBlock and Exclude compute (C14, first half). *)
From Coq Require Import List NArith Bool Lia ZifyN ZifyNat ZifyBool Wf_nat Arith.
From Verif Require Import Chain.Model.
Import ListNotations.
Open Scope N_scope.
Global Opaque num_of.

(* ---------------------------------------------------------------- association lists *)
Lemma afind_cons {V} k k' (v : V) t : afind k ((k', v) :: t) = if k' =? k then Some v else afind k t.
Proof. reflexivity. Qed.
Lemma afind2_cons {V} k k' (v : V) t : afind2 k ((k', v) :: t) = if eq2 k' k then Some v else afind2 k t.
Proof. reflexivity. Qed.
Lemma eq2_spec a b : eq2 a b = true <-> a = b.
Proof.
  destruct a as [a1 a2], b as [b1 b2]. unfold eq2. cbn [fst snd]. rewrite andb_true_iff, !N.eqb_eq.
  split; [intros [-> ->]; reflexivity | intros E; inversion E; auto].
Qed.
Lemma eq2_false a b : eq2 a b = false <-> a <> b.
Proof. rewrite <- eq2_spec. destruct (eq2 a b); split; congruence. Qed.
Lemma memN_In x l : memN x l = true <-> In x l.
Proof.
  unfold memN. rewrite existsb_exists. split.
  - intros [y [Hy E]]. apply N.eqb_eq in E. subst. exact Hy.
  - intros H. exists x. split; [exact H | apply N.eqb_refl].
Qed.

(* ---------------------------------------------------------------- histories *)
Definition stored (r : repo) (id : N) : Prop := exists s, get_summary r id = Some s.

(* the calls the node makes: parent known, id new, height = parent height + 1 (block.Number of the two ids),
   conflicts = number of stored headers of that height (guardBlockProcessing), one receipt per tx *)
Definition valid_add (r : repo) (b : blk) (conf : N) : Prop :=
  get_summary r (b_id b) = None /\
  num_of (b_id b) = num_of (b_parent b) + 1 /\
  num_of (b_id b) < max_u32 /\
  conf = scan_conflicts r (num_of (b_id b)) /\
  length (b_rcs b) = length (b_txs b).

Section Histories.
  Variables g gp tag : N.
  (* adm: an additional admission condition on every added block (True, or "accepted by the validation rules") *)
  Variable adm : repo -> blk -> bool -> Prop.

  Inductive reachable : repo -> Prop :=
  | reach_init : reachable (init_repo g gp tag)
  | reach_add r b conf best r' :
      reachable r -> valid_add r b conf -> adm r b best -> add_block r b conf best = Some r' -> reachable r'.
End Histories.

(* ancestry by parent pointers: the specification the index is measured against *)
Inductive anc (r : repo) : N -> N -> Prop :=
| anc_refl h s : get_summary r h = Some s -> anc r h h
| anc_step h s a : get_summary r h = Some s -> h <> r_gen r -> anc r (s_parent s) a -> anc r h a.

Record wf (g gp : N) (r : repo) : Prop := {
  w_gen    : r_gen r = g;
  w_gsum   : get_summary r g = Some (mkS g gp [] 0);
  w_groot  : index_root r (mkS g gp [] 0) = [(0, g)];
  w_gnum   : num_of g = 0;
  w_id     : forall id s, get_summary r id = Some s -> s_id s = id;
  w_par    : forall id s, get_summary r id = Some s -> id <> g ->
             exists ps, get_summary r (s_parent s) = Some ps /\ num_of id = num_of (s_parent s) + 1 /\
                        index_root r s = (num_of id, id) :: index_root r ps;
  w_conf   : forall id s, get_summary r id = Some s -> s_conf s < scan_conflicts r (num_of id);
  w_num    : forall id s, get_summary r id = Some s -> num_of id < max_u32;
  w_best   : stored r (r_best r)
}.

Lemma wf_init g gp tag : num_of g = 0 -> wf g gp (init_repo g gp tag).
Proof.
  intros Hg. unfold init_repo.
  assert (S0 : forall id s, get_summary (init_repo g gp tag) id = Some s -> id = g /\ s = mkS g gp [] 0).
  { unfold get_summary, init_repo. cbn. intros id s. destruct (N.eqb_spec g id); [intros E; inversion E; auto | discriminate]. }
  constructor; cbn [r_gen r_best]; auto.
  - unfold get_summary. cbn. rewrite N.eqb_refl. reflexivity.
  - unfold index_root. cbn. rewrite Hg. cbn. reflexivity.
  - intros id s H. destruct (S0 _ _ H) as [-> ->]. reflexivity.
  - intros id s H Hne. destruct (S0 _ _ H) as [-> _]. congruence.
  - intros id s H. destruct (S0 _ _ H) as [-> ->]. unfold scan_conflicts. cbn. rewrite Hg. cbn. lia.
  - intros id s H. destruct (S0 _ _ H) as [-> ->]. rewrite Hg. unfold max_u32. lia.
  - exists (mkS g gp [] 0). unfold get_summary. cbn. rewrite N.eqb_refl. reflexivity.
Qed.

(* what add_block does to the lookups *)
Section AddBlock.
  Variables (g gp : N) (r r' : repo) (b : blk) (conf : N) (best : bool).
  Hypothesis W : wf g gp r.
  Hypothesis V : valid_add r b conf.
  Hypothesis A : add_block r b conf best = Some r'.

  Let news := mkS (b_id b) (b_parent b) (map tx_id (b_txs b)) conf.

  Lemma add_parent : exists ps, get_summary r (b_parent b) = Some ps /\
    r' = save_block r (((num_of (b_id b), conf), (num_of (b_id b), b_id b) :: index_root r ps) :: r_index r) b conf best.
  Proof.
    unfold add_block in A. destruct (get_summary r (b_parent b)) as [ps|]; [|discriminate].
    exists ps. split; [reflexivity | congruence].
  Qed.

  Lemma add_summary id : get_summary r' id = if b_id b =? id then Some news else get_summary r id.
  Proof. destruct add_parent as [ps [_ ->]]. reflexivity. Qed.

  Lemma add_summary_old id s : get_summary r id = Some s -> get_summary r' id = Some s.
  Proof.
    intros H. rewrite add_summary. destruct (N.eqb_spec (b_id b) id); [|exact H].
    subst. destruct V as [F _]. congruence.
  Qed.

  Lemma add_scan n : scan_conflicts r' n = scan_conflicts r n + (if num_of (b_id b) =? n then 1 else 0).
  Proof.
    destruct add_parent as [ps [_ ->]]. unfold scan_conflicts, save_block. cbn [r_sums filter fst].
    destruct (num_of (b_id b) =? n); cbn [length]; lia.
  Qed.

  Lemma add_root_old id s : get_summary r id = Some s -> index_root r' s = index_root r s.
  Proof.
    intros H. destruct add_parent as [ps [_ ->]]. unfold index_root, save_block. cbn [r_index].
    rewrite afind2_cons. destruct (eq2 _ _) eqn:E; [|reflexivity].
    apply eq2_spec in E. inversion E as [[E1 E2]].
    pose proof (w_conf _ _ _ W _ _ H) as C. rewrite (w_id _ _ _ W _ _ H) in E1.
    destruct V as [_ [_ [_ [Hc _]]]]. rewrite E1 in Hc. lia.
  Qed.

  Lemma add_root_new ps : get_summary r (b_parent b) = Some ps ->
    index_root r' news = (num_of (b_id b), b_id b) :: index_root r ps.
  Proof.
    intros H. destruct add_parent as [ps' [H' ->]]. rewrite H in H'. inversion H'; subst ps'.
    unfold index_root, save_block. cbn [r_index s_id s_conf news]. rewrite afind2_cons.
    replace (eq2 _ _) with true; [reflexivity|]. symmetry. apply eq2_spec. reflexivity.
  Qed.

  Lemma add_ne_g : b_id b <> g.
  Proof. intros E. destruct V as [F _]. rewrite E, (w_gsum _ _ _ W) in F. discriminate. Qed.

  Lemma add_wf : wf g gp r'.
  Proof.
    destruct add_parent as [ps [Hps Er']].
    constructor.
    - rewrite Er'. cbn. apply (w_gen _ _ _ W).
    - apply add_summary_old. apply (w_gsum _ _ _ W).
    - rewrite (add_root_old g); [apply (w_groot _ _ _ W) | apply (w_gsum _ _ _ W)].
    - apply (w_gnum _ _ _ W).
    - intros id s. rewrite add_summary. destruct (N.eqb_spec (b_id b) id).
      + intros E. injection E as <-. subst id. reflexivity.
      + apply (w_id _ _ _ W).
    - intros id s. rewrite add_summary. destruct (N.eqb_spec (b_id b) id) as [E|NE].
      + intros E' _. injection E' as <-. subst id. cbn [s_parent news].
        exists ps. split; [apply add_summary_old; exact Hps|]. split; [apply V|].
        rewrite (add_root_new ps Hps). f_equal. symmetry. apply (add_root_old (b_parent b)). exact Hps.
      + intros H Hg. destruct (w_par _ _ _ W _ _ H Hg) as [ps' [P1 [P2 P3]]].
        exists ps'. split; [apply add_summary_old; exact P1|]. split; [exact P2|].
        rewrite (add_root_old id s H), (add_root_old _ ps' P1). exact P3.
    - intros id s. rewrite add_summary, add_scan. destruct (N.eqb_spec (b_id b) id) as [E|NE].
      + intros E'. injection E' as <-. subst id. cbn [s_conf news]. rewrite N.eqb_refl.
        destruct V as [_ [_ [_ [Hc _]]]]. lia.
      + intros H. pose proof (w_conf _ _ _ W _ _ H). destruct (num_of (b_id b) =? num_of id); lia.
    - intros id s. rewrite add_summary. destruct (N.eqb_spec (b_id b) id) as [E|NE].
      + intros _. subst id. apply V.
      + apply (w_num _ _ _ W).
    - assert (Eb : r_best r' = if best then b_id b else r_best r) by (rewrite Er'; reflexivity).
      rewrite Eb. unfold stored. case best.
      + exists news. rewrite add_summary, N.eqb_refl. reflexivity.
      + destruct (w_best _ _ _ W) as [s Hs]. exists s. apply add_summary_old. exact Hs.
  Qed.
End AddBlock.

Lemma reachable_wf g gp tag adm r : num_of g = 0 -> reachable g gp tag adm r -> wf g gp r.
Proof.
  intros Hg H. induction H.
  - apply wf_init. exact Hg.
  - eapply add_wf; eauto.
Qed.

(* ---------------------------------------------------------------- ancestry facts *)
Section Ancestry.
  Variables (g gp : N) (r : repo).
  Hypothesis W : wf g gp r.

  Lemma anc_stored h a : anc r h a -> stored r h /\ stored r a.
  Proof. induction 1; unfold stored; [eauto | destruct IHanc; eauto]. Qed.

  Lemma anc_height h a : anc r h a -> num_of a <= num_of h.
  Proof.
    induction 1 as [|h s a Hs Hg _ IH]; [lia|].
    rewrite (w_gen _ _ _ W) in Hg. destruct (w_par _ _ _ W _ _ Hs Hg) as [ps [_ [E _]]]. lia.
  Qed.

  Lemma anc_trans h a c : anc r h a -> anc r a c -> anc r h c.
  Proof. induction 1; intros; eauto using anc_step. Qed.

  Lemma anc_gen_inv a : anc r g a -> a = g.
  Proof. inversion 1; subst; [reflexivity|]. rewrite (w_gen _ _ _ W) in *. congruence. Qed.

  Lemma anc_same_height h a : anc r h a -> num_of a = num_of h -> a = h.
  Proof.
    inversion 1 as [|h' s a' Hs Hg Hp]; subst; [reflexivity|]. intros E.
    rewrite (w_gen _ _ _ W) in Hg. destruct (w_par _ _ _ W _ _ Hs Hg) as [ps [_ [E' _]]].
    pose proof (anc_height _ _ Hp). lia.
  Qed.

  (* C14: the index of head h maps height n to a  <->  a is h's own ancestor at height n *)
  Lemma index_is_ancestry_root h s n a :
    get_summary r h = Some s ->
    (afind n (index_root r s) = Some a <-> anc r h a /\ num_of a = n).
  Proof.
    remember (N.to_nat (num_of h)) as k eqn:Hk. revert h s Hk n a.
    induction k as [k IH] using lt_wf_ind. intros h s Hk n a Hs.
    destruct (N.eq_dec h g) as [->|Hg].
    - rewrite (w_gsum _ _ _ W) in Hs. inversion Hs; subst s. rewrite (w_groot _ _ _ W). cbn [afind].
      destruct (N.eqb_spec 0 n) as [<-|Hn].
      + split.
        * intros E. inversion E; subst. split; [eapply anc_refl; apply (w_gsum _ _ _ W) | apply (w_gnum _ _ _ W)].
        * intros [Ha _]. apply anc_gen_inv in Ha. congruence.
      + split; [discriminate|]. intros [Ha E]. apply anc_gen_inv in Ha. subst a. rewrite (w_gnum _ _ _ W) in E. congruence.
    - destruct (w_par _ _ _ W _ _ Hs Hg) as [ps [Hps [Hn Hroot]]]. rewrite Hroot, afind_cons.
      assert (IHp : afind n (index_root r ps) = Some a <-> anc r (s_parent s) a /\ num_of a = n).
      { apply (IH (N.to_nat (num_of (s_parent s)))); [lia | reflexivity | exact Hps]. }
      destruct (N.eqb_spec (num_of h) n) as [<-|Hne].
      + split.
        * intros E. inversion E; subst a. split; [eapply anc_refl; eauto | reflexivity].
        * intros [Ha E]. apply anc_same_height in Ha; [congruence | exact E].
      + rewrite IHp. split.
        * intros [Ha E]. split; [|exact E]. eapply anc_step; eauto. rewrite (w_gen _ _ _ W). exact Hg.
        * intros [Ha E]. split; [|exact E]. inversion Ha as [|h' s' a' Hs' Hg' Hp]; subst.
          -- congruence.
          -- rewrite Hs in Hs'. inversion Hs'; subst s'. exact Hp.
  Qed.

  Lemma get_block_id_spec h n a : stored r h -> (get_block_id r h n = Ok a <-> anc r h a /\ num_of a = n).
  Proof.
    intros [s Hs]. unfold get_block_id. rewrite Hs.
    rewrite <- (index_is_ancestry_root h s n a Hs).
    destruct (afind n (index_root r s)); split; congruence.
  Qed.

  Lemma get_block_id_never_fails h n : stored r h -> get_block_id r h n <> Fail.
  Proof. intros [s Hs]. unfold get_block_id. rewrite Hs. destruct (afind _ _); discriminate. Qed.

  (* every height up to the head's is populated *)
  Lemma anc_total h : stored r h -> forall n, n <= num_of h -> exists a, anc r h a /\ num_of a = n.
  Proof.
    remember (N.to_nat (num_of h)) as k eqn:Hk. revert h Hk.
    induction k as [k IH] using lt_wf_ind. intros h Hk [s Hs] n Hn.
    destruct (N.eq_dec (num_of h) n) as [E|NE].
    - exists h. split; [eapply anc_refl; eauto | exact E].
    - destruct (N.eq_dec h g) as [->|Hg]; [rewrite (w_gnum _ _ _ W) in *; lia|].
      destruct (w_par _ _ _ W _ _ Hs Hg) as [ps [Hps [E _]]].
      destruct (IH (N.to_nat (num_of (s_parent s))) ltac:(lia) (s_parent s) eq_refl (ex_intro _ ps Hps) n ltac:(lia)) as [a [Ha En]].
      exists a. split; [|exact En]. eapply anc_step; eauto. rewrite (w_gen _ _ _ W). exact Hg.
  Qed.

  Lemma anc_unique_at h a a' : anc r h a -> anc r h a' -> num_of a = num_of a' -> a = a'.
  Proof.
    intros Ha Ha' E. destruct (anc_stored _ _ Ha) as [Sh _].
    assert (H1 : get_block_id r h (num_of a) = Ok a) by (apply get_block_id_spec; auto).
    assert (H2 : get_block_id r h (num_of a) = Ok a') by (apply get_block_id_spec; auto).
    congruence.
  Qed.

  Lemma has_block_spec h id : stored r h -> exists v, has_block r h id = Ok v /\ (v = true <-> anc r h id).
  Proof.
    intros Sh. unfold has_block. destruct (get_block_id r h (num_of id)) as [f| |] eqn:E.
    - exists (id =? f). split; [reflexivity|]. apply get_block_id_spec in E; [|exact Sh]. destruct E as [Hf En].
      rewrite N.eqb_eq. split; [intros ->; exact Hf|]. intros Hid. eapply anc_unique_at; eauto.
    - exists false. split; [reflexivity|]. split; [discriminate|]. intros Hid.
      assert (get_block_id r h (num_of id) = Ok id) by (apply get_block_id_spec; auto). congruence.
    - exfalso. eapply get_block_id_never_fails; eauto.
  Qed.

  (* the guard's conflicts ordinal identifies a block among the stored blocks of its height *)
  Lemma conflicts_inj_aux : True. Proof. exact I. Qed.
End Ancestry.
