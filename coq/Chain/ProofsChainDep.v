(* Chain/ProofsChainDep.v — C09 first sentence, dependency clause at chain level: on every history all of whose
   blocks passed the body / verify rules, the dependency of every included tx occurs earlier on the same chain
   (a lower block, or an earlier position of the same block) and its receipt is not reverted. *)
From Coq Require Import List NArith Arith Bool Lia ZifyN ZifyNat ZifyBool.
From Verif Require Import Chain.Model Chain.Proofs Chain.ProofsWalk Chain.ProofsSys Chain.ProofsPath Chain.ProofsTx
  Chain.ProofsAccept Chain.ProofsChainInv.
Import ListNotations.
Open Scope N_scope.

Lemma afind_In {V} k (l : list (N * V)) v : afind k l = Some v -> In (k, v) l.
Proof.
  induction l as [|[k' v'] t IH]; cbn [afind]; [discriminate|].
  destruct (N.eqb_spec k' k) as [->|]; [intros E; injection E as ->; left; reflexivity | intros H; right; apply IH; exact H].
Qed.

Lemma head_skipn (l : list bool) : forall i, match skipn i l with v :: _ => v | [] => false end = nth i l false.
Proof. induction l as [|x l IH]; intros [|i]; cbn; auto. Qed.
Lemma tl_skipn {A} (l : list A) : forall i, tl (skipn i l) = skipn (S i) l.
Proof.
  induction l as [|x l IH]; intros i; [destruct i; reflexivity|].
  destruct i; cbn [skipn]; [reflexivity | apply IH].
Qed.

(* what the verify loop guarantees about dependencies, by absolute position in the block *)
Section VerifyDep.
  Variables (r : repo) (p : N) (all : list txrec) (revs_all : list bool).

  Definition dep_found (bound : nat) (d : N) : Prop :=
    (exists j tj, (j < bound)%nat /\ nth_error all j = Some tj /\ tx_id tj = d /\ nth j revs_all false = false) \/
    (exists e, get_tx_meta r p d = Ok e /\ e_rev e = false).

  Definition proc_inv (processed : list (N * bool)) (i : nat) : Prop :=
    forall x rv, In (x, rv) processed ->
      exists j tj, (j < i)%nat /\ nth_error all j = Some tj /\ tx_id tj = x /\ nth j revs_all false = rv.

  Lemma verify_loop_dep : forall suf pre processed,
    all = pre ++ suf -> proc_inv processed (length pre) ->
    verify_loop r p processed suf (skipn (length pre) revs_all) = V_ok ->
    forall k t d, nth_error suf k = Some t -> tx_dep t = Some d -> dep_found (length pre + k) d.
  Proof.
    induction suf as [|t0 suf IH]; intros pre processed Eall Inv H k t d Hk Hd; [destruct k; discriminate|].
    cbn [verify_loop] in H.
    destruct (match afind (tx_id t0) processed with Some _ => Ok true | None => has_transaction r p (tx_id t0) (tx_ref t0) end)
      as [[|]| |]; try discriminate.
    match type of H with (match ?dd with _ => _ end) = _ => destruct dd eqn:Edep; try discriminate end.
    rewrite head_skipn, tl_skipn in H.
    destruct k as [|k].
    - cbn [nth_error] in Hk. injection Hk as ->. rewrite Hd in Edep. rewrite Nat.add_0_r.
      destruct (afind d processed) as [rv|] eqn:Ea.
      + destruct rv; [discriminate|]. apply afind_In in Ea. destruct (Inv _ _ Ea) as [j [tj [Hj [Hn [Hi Hr]]]]].
        left. exists j, tj. auto.
      + destruct (get_tx_meta r p d) as [e| |] eqn:Em; try discriminate.
        destruct (e_rev e) eqn:Er; [discriminate|]. right. exists e. auto.
    - cbn [nth_error] in Hk.
      assert (Eall' : all = (pre ++ [t0]) ++ suf) by (rewrite <- app_assoc; exact Eall).
      assert (Elen : length (pre ++ [t0]) = S (length pre)) by (rewrite app_length; cbn; lia).
      replace (length pre + S k)%nat with (length (pre ++ [t0]) + k)%nat by lia.
      assert (Inv' : proc_inv ((tx_id t0, nth (length pre) revs_all false) :: processed) (length (pre ++ [t0]))).
      { rewrite Elen. intros x rv [E|Hin].
        * injection E as <- <-. exists (length pre), t0. repeat split; try lia.
          rewrite Eall. rewrite nth_error_app2 by lia. rewrite Nat.sub_diag. reflexivity.
        * destruct (Inv _ _ Hin) as [j [tj [Hj H']]]. exists j, tj. split; [lia | exact H']. }
      assert (H' : verify_loop r p ((tx_id t0, nth (length pre) revs_all false) :: processed) suf
                     (skipn (length (pre ++ [t0])) revs_all) = V_ok) by (rewrite Elen; exact H).
      exact (IH _ _ Eall' Inv' H' k t d Hk Hd).
  Qed.
End VerifyDep.

Lemma validate_dep r b : validate r b = V_ok ->
  forall k t d, nth_error (b_txs b) k = Some t -> tx_dep t = Some d ->
    dep_found r (b_parent b) (b_txs b) (map rc_rev (b_rcs b)) k d.
Proof.
  unfold validate. destruct (body_rules _ _ _); try discriminate. intros H k t d Hk Hd.
  apply (verify_loop_dep r (b_parent b) (b_txs b) (map rc_rev (b_rcs b)) (b_txs b) [] [] eq_refl) with (t := t); auto.
  intros x rv [].
Qed.

Definition tx_at (r : repo) (a : N) (i : nat) (t : txrec) (rc : receipt) : Prop :=
  exists s b, get_block r a = Some (s, b) /\ nth_error (b_txs b) i = Some t /\ nth_error (b_rcs b) i = Some rc.

Definition dep_ok (r : repo) (h : N) : Prop :=
  forall a i t rc d, anc r h a -> tx_at r a i t rc -> tx_dep t = Some d ->
    exists a' i' t' rc', anc r h a' /\ tx_at r a' i' t' rc' /\ tx_id t' = d /\ rc_rev rc' = false /\
                         (num_of a' < num_of a \/ (a' = a /\ (i' < i)%nat)).

Section ChainDep.
  Variables g gp tag : N.
  Variable U : txrec -> Prop.
  Hypothesis Hg : num_of g = 0.
  Hypothesis Hgp : num_of gp = max_u32.

  Theorem accepted_chain_dep_ok r : reachable g gp tag (accepted U) r -> forall h, stored r h -> dep_ok r h.
  Proof.
    induction 1 as [|r b conf best r' R IH V [Hval _] A].
    - intros h Sh a i t rc d Ha [s [bb [Hb [Ht _]]]] _. exfalso.
      unfold get_block, get_summary, init_repo in Hb. cbn [r_sums afind r_body] in Hb.
      destruct (g =? a); [|discriminate]. cbn [s_conf afind2] in Hb. destruct (eq2 _ _); [|discriminate].
      injection Hb as _ <-. destruct i; discriminate.
    - pose proof (reachable_wf _ _ _ _ _ Hg R) as W. pose proof (reachable_wf_body _ _ _ _ _ Hg R) as WB.
      pose proof (reachable_wf_txi _ _ _ _ _ Hg R) as WT. pose proof (reachable_conf_inj _ _ _ _ _ Hg R) as CI.
      destruct (add_parent _ _ _ _ _ A) as [ps [Hps _]].
      assert (Sp : stored r (b_parent b)) by (exists ps; exact Hps).
      (* positions in old blocks are unchanged *)
      assert (OldAt : forall a i t rc, stored r a -> (tx_at r' a i t rc <-> tx_at r a i t rc)).
      { intros a i t rc [s Hs]. unfold tx_at. rewrite (get_block_old g gp r r' b conf best a s W V A Hs). tauto. }
      intros h [sh Hsh]. rewrite (add_summary _ _ _ _ _ A) in Hsh.
      destruct (N.eqb_spec (b_id b) h) as [Eh|Nh].
      + subst h.
        assert (Anc : forall a, anc r' (b_id b) a -> a = b_id b \/ anc r (b_parent b) a).
        { intros a Ha. destruct (anc_add_inv g gp r r' b conf best W V A _ _ Ha) as [Ho|[_ Hn]]; [|exact Hn].
          exfalso. apply (add_new_not_stored r b conf V). apply (anc_stored _ _ _ Ho). }
        assert (Up : forall a, anc r (b_parent b) a -> anc r' (b_id b) a).
        { intros a Ha. eapply anc_step.
          - rewrite (add_summary _ _ _ _ _ A), N.eqb_refl. reflexivity.
          - rewrite (add_gen r r' b conf best A), (w_gen _ _ _ W). apply (add_ne_g g gp r b conf W V).
          - cbn [s_parent]. apply (anc_mono r r' b conf best V A). exact Ha. }
        assert (Hnum : num_of (b_id b) = num_of (b_parent b) + 1) by apply V.
        intros a i t rc d Ha Hat Hd. destruct (Anc a Ha) as [->|Ho].
        * (* a tx of the new block *)
          destruct Hat as [s [bb [Hb [Ht Hrc]]]]. rewrite (get_block_new r r' b conf best A) in Hb. injection Hb as _ <-.
          destruct (validate_dep r b Hval i t d Ht Hd) as [[j [tj [Hj [Hn [Hid Hrv]]]]]|[e [Em Er]]].
          -- assert (Hlen : length (b_rcs b) = length (b_txs b)) by apply V.
             assert (Hjl : (j < length (b_rcs b))%nat) by (rewrite Hlen; apply nth_error_Some; congruence).
             destruct (nth_error (b_rcs b) j) as [rcj|] eqn:Ercj; [|apply nth_error_None in Ercj; lia].
             exists (b_id b), j, tj, rcj. split; [exact Ha|]. split.
             { exists (mkS (b_id b) (b_parent b) (map tx_id (b_txs b)) conf), b. rewrite (get_block_new r r' b conf best A). auto. }
             split; [exact Hid|]. split; [|right; auto].
             rewrite <- Hrv. rewrite (nth_indep _ false (rc_rev rcj)) by (rewrite map_length; exact Hjl).
             rewrite map_nth. f_equal. symmetry. apply nth_error_nth. exact Ercj.
          -- pose proof (get_tx_meta_spec g gp r W WT CI Hgp (b_parent b) d Sp) as M. rewrite Em in M.
             destruct M as [_ [a0 [s0 [b0 [t0 [rc0 [Ha0 [En0 [Hs0 [Ec0 [Hb0 [Ht0 [Hid0 [Hrc0 Hrv0]]]]]]]]]]]]]].
             exists a0, (N.to_nat (e_idx e)), t0, rc0. split; [apply Up; exact Ha0|]. split.
             { apply OldAt; [apply (anc_stored _ _ _ Ha0)|]. exists s0, b0. auto. }
             split; [exact Hid0|]. split; [congruence|]. left. pose proof (anc_height g gp r W _ _ Ha0). lia.
        * (* a tx of an older block of the parent's chain *)
          apply (OldAt a i t rc (proj2 (anc_stored _ _ _ Ho))) in Hat.
          destruct (IH _ Sp a i t rc d Ho Hat Hd) as [a' [i' [t' [rc' [Ha' [Hat' [Hid [Hrv Hord]]]]]]]].
          exists a', i', t', rc'. split; [apply Up; exact Ha'|]. split; [|auto].
          apply OldAt; [apply (anc_stored _ _ _ Ha') | exact Hat'].
      + assert (Sh : stored r h) by (exists sh; exact Hsh).
        assert (Anc : forall a, anc r' h a -> anc r h a).
        { intros a Ha. destruct (anc_add_inv g gp r r' b conf best W V A _ _ Ha) as [Ho|[E _]]; [exact Ho | congruence]. }
        intros a i t rc d Ha Hat Hd. apply Anc in Ha.
        apply (OldAt a i t rc (proj2 (anc_stored _ _ _ Ha))) in Hat.
        destruct (IH _ Sh a i t rc d Ha Hat Hd) as [a' [i' [t' [rc' [Ha' [Hat' [Hid [Hrv Hord]]]]]]]].
        exists a', i', t', rc'. split; [apply (anc_mono r r' b conf best V A); exact Ha'|]. split; [|auto].
        apply OldAt; [apply (anc_stored _ _ _ Ha') | exact Hat'].
  Qed.
End ChainDep.
