(* Crash/Model.v — the key-value store as a write log, a block import as the ordered list of atomic writes
   (batches) cmd/thor/node/block_exec.go issues, crash = keep a prefix of the writes, restart = what
   chain.NewRepository + bft.NewEngine read (and, with the F6 repair, write), reader steps (C13, C20).
   Definitions only.

   What is data (computed by the real libraries, handed to the model by the harness):
     block ids (the 32-byte id as a number: its top 32 bits are the block number, numeric order = bytes.Compare),
     digests of blobs, the new trie nodes of each commit (trie name/path digests), the nodes of older versions a
     root still reaches ([b_skeep]/[b_ikeep]), total score, and the vote tally outcome of the block's round so far
     ([b_just]/[b_comm] = bftState.Justified/Committed without the parent quality — C04's model computes those).
   What the model computes: every decision of the import path (unprocessable / known / parent missing / BFT
     rejected, conflicts = ScanConflicts, trie version stamping, fork choice bft.Select, store-point quality,
     findCheckpointByQuality incl. sort.Search, what goes into which batch and in which order). *)
From Coq Require Import List NArith Bool.
Import ListNotations.
Open Scope N_scope.

(* ---------------------------------------------------------------- keys, values, store *)

Inductive key :=
| KNode (cls nid maj min : N)   (* trie node: cls 0 account, 1 storage, 2 index; nid = digest(trie name, path); version *)
| KCode (h : N)
| KSummary (id : N)             (* chain.hdr *)
| KTx (num conf idx : N)        (* chain.body, flag 0 *)
| KReceipt (num conf idx : N)   (* chain.body, flag 1 *)
| KTxMeta (txid num conf : N)   (* chain.txi *)
| KTxFilter (pfx : N)           (* chain.txi, first 8 bytes of the tx id *)
| KHead (id : N)                (* chain.heads *)
| KBest                         (* chain.props best-block-id *)
| KQuality (id : N)             (* bft.engine <id> *)
| KFinalized.                   (* bft.engine finalized *)

Definition key_eq_dec : forall a b : key, {a = b} + {a <> b}.
Proof. decide equality; apply N.eq_dec. Defined.

Record summary := mkSum {
  s_parent : N; s_conf : N; s_txs : list N; s_score : N; s_just : bool; s_comm : bool;
  s_sreach : list key;          (* every state-trie node the state root resolves to *)
  s_ireach : list key           (* every index-trie node the index root resolves to *)
}.

Inductive value := VBlob (d : N) | VSum (sm : summary) | VId (id : N) | VNum (q : N).

Inductive op := Put (k : key) (v : value) | Del (k : key).
Definition batch := list op.     (* one atomic write *)
Definition store := list op.     (* the write log, newest first *)

Definition op_key (o : op) : key := match o with Put k _ => k | Del k => k end.

Fixpoint get (s : store) (k : key) : option value :=
  match s with
  | [] => None
  | Put k' v :: r => if key_eq_dec k k' then Some v else get r k
  | Del k' :: r => if key_eq_dec k k' then None else get r k
  end.

Definition has (s : store) (k : key) : bool := match get s k with Some _ => true | None => false end.

Definition apply_batch (s : store) (b : batch) : store := fold_left (fun acc o => o :: acc) b s.
Definition apply_writes (s : store) (ws : list batch) : store := fold_left apply_batch ws s.

Definition get_summary (s : store) (id : N) : option summary :=
  match get s (KSummary id) with Some (VSum sm) => Some sm | _ => None end.
Definition get_id (s : store) (k : key) : option N :=
  match get s k with Some (VId i) => Some i | _ => None end.
(* bft getQuality: a missing record reads as 0 *)
Definition get_quality (s : store) (id : N) : N :=
  match get s (KQuality id) with Some (VNum q) => q | _ => 0 end.

Definition stored (s : store) (id : N) : bool := match get_summary s id with Some _ => true | None => false end.

(* block.Number(id): the first 4 bytes of the id *)
Definition num_of (id : N) : N := id / 26959946667150639794667015087019630673637144422540572481103610249216. (* 2^224 *)

(* ---- enumeration (iterators): ids that occur as summary / head keys in the log *)

Fixpoint summary_ids (s : store) : list N :=
  match s with
  | [] => []
  | Put (KSummary id) _ :: r => let l := summary_ids r in if existsb (N.eqb id) l then l else id :: l
  | _ :: r => summary_ids r
  end.

Fixpoint head_keys (s : store) : list N :=
  match s with
  | [] => []
  | Put (KHead id) _ :: r => let l := head_keys r in if existsb (N.eqb id) l then l else id :: l
  | _ :: r => head_keys r
  end.

(* Repository.ScanConflicts: number of stored headers with the given number *)
Definition scan_conflicts (s : store) (n : N) : N :=
  N.of_nat (length (filter (fun id => stored s id && (num_of id =? n)) (summary_ids s))).

(* Repository.GetMaxBlockNum *)
Definition max_num (s : store) : N :=
  fold_right N.max 0 (map num_of (filter (stored s) (summary_ids s))).

(* Repository.ScanHeads(from): live head entries with number >= from *)
Definition scan_heads (s : store) (from : N) : list N :=
  filter (fun id => has s (KHead id) && (from <=? num_of id)) (head_keys s).

(* ---------------------------------------------------------------- chain walks *)

Record cfg := mkCfg { c_L : N; c_g : N }.   (* epoch length, genesis id *)

(* the ancestor of [id] at number [n] (Chain.GetBlockID through the index trie; here by parent links — C14 ties the two) *)
Fixpoint ancestor (fuel : nat) (s : store) (id n : N) : option N :=
  match get_summary s id with
  | None => None
  | Some sm =>
    if num_of id =? n then Some id
    else if num_of id <? n then None
    else match fuel with O => None | S f => ancestor f s (s_parent sm) n end
  end.
Definition anc (s : store) (id n : N) : option N := ancestor (N.to_nat (num_of id - n)) s id n.

Definition checkpoint (L n : N) : N := n / L * L.
Definition storepoint (L n : N) : N := checkpoint L n + L - 1.
Definition is_storepoint (L n : N) : bool := storepoint L n =? n.

Definition finalized (c : cfg) (s : store) : N :=
  match get_id s KFinalized with Some f => f | None => c_g c end.

(* bft.Engine.Accepts(parentID) *)
Definition accepts (c : cfg) (s : store) (parent : N) : bool :=
  let f := finalized c s in
  if num_of f =? 0 then true
  else match anc s parent (num_of f) with Some a => a =? f | None => false end.

Definition b2n (b : bool) : N := if b then 1 else 0.

(* computeState(...).Quality of a block (parent, number, justified-in-its-round-so-far): the parent quality is read
   from the record of the previous round's store point on the block's chain (FINALITY = 0) *)
Definition quality_of (c : cfg) (s : store) (parent num : N) (just : bool) : option N :=
  if num / c_L c =? 0 then Some (b2n just)
  else match anc s parent (checkpoint (c_L c) num - 1) with
       | Some qid => Some (get_quality s qid + b2n just)
       | None => None
       end.

(* sort.Search *)
Fixpoint bsearch (fuel : nat) (f : N -> option bool) (i j : N) : option N :=
  if i <? j then
    match fuel with
    | O => None
    | S fu =>
      let h := (i + j) / 2 in
      match f h with
      | None => None
      | Some false => bsearch fu f (h + 1) j
      | Some true => bsearch fu f i h
      end
    end
  else Some i.

(* findCheckpointByQuality(target, finalized, headID) *)
Definition find_checkpoint (c : cfg) (s : store) (target fin head : N) : option N :=
  let L := c_L c in
  let hn := num_of head in
  let start := num_of fin in
  if hn <? start then None
  else
    let q := fun i => match anc s head (storepoint L (start + i * L)) with
                      | Some id => Some (get_quality s id) | None => None end in
    let n := (hn - start) / L + 1 in
    match bsearch (S (N.to_nat n)) (fun i => match q i with Some x => Some (target <=? x) | None => None end) 0 n with
    | None => None
    | Some idx =>
      if idx =? n then None
      else match q idx with
           | Some x => if x =? target then anc s head (start + idx * L) else None
           | None => None
           end
    end.

(* ---------------------------------------------------------------- a block as the import path sees it *)

Record txd := mkTx { t_id : N; t_blob : N; t_rcpt : N; t_meta : N }.

Record blk := mkBlk {
  b_id : N; b_parent : N;
  b_txs : list txd;
  b_codes : list (N * N);            (* code hash, blob digest *)
  b_storage : list (list (N * N));   (* per committed storage trie: new nodes (nid, blob digest) *)
  b_account : list (N * N);          (* new account-trie nodes *)
  b_index : list (N * N);            (* new index-trie nodes *)
  b_skeep : list key;                (* nodes of older versions the new state root still reaches *)
  b_ikeep : list key;
  b_score : N; b_just : bool; b_comm : bool
}.

Definition node_ops (cls maj min : N) (l : list (N * N)) : batch :=
  map (fun p => Put (KNode cls (fst p) maj min) (VBlob (snd p))) l.

(* Stage.Commit: codes bulk (if any), every changed storage trie, the account trie last *)
Definition state_batches (b : blk) (conf : N) : list batch :=
  let num := num_of (b_id b) in
  (match b_codes b with [] => [] | cs => [map (fun p => Put (KCode (fst p)) (VBlob (snd p))) cs] end)
  ++ map (node_ops 1 num conf) (b_storage b)
  ++ [node_ops 0 num conf (b_account b)].

Definition index_batch (b : blk) (conf : N) : batch := node_ops 2 (num_of (b_id b)) conf (b_index b).

Definition summary_of (b : blk) (conf : N) : summary :=
  let num := num_of (b_id b) in
  mkSum (b_parent b) conf (map t_id (b_txs b)) (b_score b) (b_just b) (b_comm b)
        (map op_key (concat (map (node_ops 1 num conf) (b_storage b)) ++ node_ops 0 num conf (b_account b)) ++ b_skeep b)
        (map op_key (index_batch b conf) ++ b_ikeep b).

Fixpoint enum_from {A} (i : N) (l : list A) : list (N * A) :=
  match l with [] => [] | x :: t => (i, x) :: enum_from (i + 1) t end.

(* Repository.saveBlock: one bulk *)
Definition block_bulk (b : blk) (conf : N) (as_best : bool) : batch :=
  let id := b_id b in let num := num_of id in
  let txs := enum_from 0 (b_txs b) in
  flat_map (fun it => [ Put (KTxFilter (t_id (snd it) / 6277101735386680763835789423207666416102355444464034512896 (* 2^192 *))) (VBlob 0);
                        Put (KTxMeta (t_id (snd it)) num conf) (VBlob (t_meta (snd it)));
                        Put (KTx num conf (fst it)) (VBlob (t_blob (snd it))) ]) txs
  ++ map (fun it => Put (KReceipt num conf (fst it)) (VBlob (t_rcpt (snd it)))) txs
  ++ [ Del (KHead (b_parent b)); Put (KHead id) (VBlob 0); Put (KSummary id) (VSum (summary_of b conf)) ]
  ++ (if as_best then [ Put KBest (VId id) ] else []).

(* bft.Engine.Select *)
Definition select (c : cfg) (s : store) (b : blk) : option bool :=
  match get_id s KBest with
  | None => None
  | Some best =>
    match get_summary s best with
    | None => None
    | Some bs =>
      match quality_of c s (b_parent b) (num_of (b_id b)) (b_just b),
            quality_of c s (s_parent bs) (num_of best) (s_just bs) with
      | Some qn, Some qb =>
        Some (if qn =? qb
              then (s_score bs <? b_score b) || ((s_score bs =? b_score b) && (b_id b <? best))
              else qb <? qn)
      | _, _ => None
      end
    end
  end.

(* steps of the importing goroutine: atomic store writes and publications of in-memory pointers readers load *)
Inductive step := SWrite (b : batch) | SPubBest (id : N) | SPubFin (id : N).

Definition writes_of_steps (l : list step) : list batch :=
  flat_map (fun x => match x with SWrite b => [b] | _ => [] end) l.

(* bft.Engine.CommitBlock for a block that is already stored: at a store point the quality record and, when the round
   commits, the finalized record — ONE batch (the F13 repair, /repo 38d50ce; before it two separate writes, see
   split_window below).  The search reads the block's own quality from the engine's cache: here from the store with the
   record applied.  A failing search leaves the quality record alone (CommitBlock returns the error after writing it). *)
Definition commit_steps (c : cfg) (s : store) (id parent : N) (just comm : bool) : list step :=
  if is_storepoint (c_L c) (num_of id) then
    match quality_of c s parent (num_of id) just with
    | None => []
    | Some q =>
      let wq := [ Put (KQuality id) (VNum q) ] in
      (* nothing to finalize while the block is still in finalized's own epoch (the guard shared with Resync) *)
      if comm && (1 <? q) && (num_of (finalized c s) <? checkpoint (c_L c) (num_of id)) then
        match find_checkpoint c (apply_batch s wq) (q - 1) (finalized c s) id with
        | Some f => [ SWrite (wq ++ [ Put KFinalized (VId f) ]); SPubFin f ]
        | None => [ SWrite wq ]
        end
      else [ SWrite wq ]
    end
  else [].

(* Node.processBlock -> executeAndCommitBlock -> commitBlock *)
Definition import_steps (c : cfg) (s : store) (b : blk) : list step :=
  let id := b_id b in
  let num := num_of id in
  if max_num s + 1 <? num then []                                   (* errBlockTemporaryUnprocessable *)
  else
    let conf := scan_conflicts s num in
    if (0 <? conf) && stored s id then []                           (* errKnownBlock *)
    else if negb (stored s (b_parent b)) then []                    (* errParentMissing *)
    else if negb (num_of (b_parent b) + 1 =? num) then []           (* consensus: number = parent + 1 *)
    else if negb (accepts c s (b_parent b)) then []                 (* errBFTRejected *)
    else
      let sb := map SWrite (state_batches b conf) in
      match select c s b with
      | None => sb                                                  (* bft select error after the state commit *)
      | Some as_best =>
        let pre := sb ++ [ SWrite (index_batch b conf); SWrite (block_bulk b conf as_best) ]
                      ++ (if as_best then [ SPubBest id ] else []) in
        pre ++ commit_steps c (apply_writes s (writes_of_steps pre)) id (b_parent b) (b_just b) (b_comm b)
      end.

Definition import_batches (c : cfg) (s : store) (b : blk) : list batch := writes_of_steps (import_steps c s b).

(* the engine never issues an empty batch: what a recording engine sees *)
Definition import_writes (c : cfg) (s : store) (b : blk) : list batch :=
  filter (fun w => match w with [] => false | _ => true end) (import_batches c s b).

Definition run1 (c : cfg) (s : store) (b : blk) : store := apply_writes s (import_batches c s b).
Definition run (c : cfg) (s : store) (l : list blk) : store := fold_left (run1 c) l s.

Fixpoint writes_of (c : cfg) (s : store) (l : list blk) : list batch :=
  match l with
  | [] => []
  | b :: r => let w := import_batches c s b in w ++ writes_of c (apply_writes s w) r
  end.

(* the store a crash after the first k writes of the history leaves *)
Definition crash (c : cfg) (s : store) (l : list blk) (k : nat) : store :=
  apply_writes s (firstn k (writes_of c s l)).

(* ---------------------------------------------------------------- restart *)

(* NewEngine's repair (the F6 fix): a store-point head at or after finalized without a quality record is a block whose
   CommitBlock was cut off; CommitBlock is run again for it *)
Definition repair_one (c : cfg) (s : store) (id : N) : list batch :=
  if is_storepoint (c_L c) (num_of id) && negb (has s (KQuality id)) then
    match get_summary s id with
    | Some sm => writes_of_steps (commit_steps c s id (s_parent sm) (s_just sm) (s_comm sm))
    | None => []
    end
  else [].

Definition restart_store (c : cfg) (rep : bool) (s : store) : store :=
  if rep then fold_left (fun st id => apply_writes st (repair_one c st id)) (scan_heads s (num_of (finalized c s))) s
  else s.

(* NewRepository (best pointer -> genesis check through the chain of best -> best summary) then NewEngine *)
Definition restart (c : cfg) (rep : bool) (s : store) : option (store * N * N) :=
  match get_id s KBest with
  | None => None                 (* an empty database: not a crash image of a running node *)
  | Some best =>
    if stored s best then
      match anc s best 0 with
      | Some g' => if g' =? c_g c
                   then let s' := restart_store c rep s in Some (s', best, finalized c s')
                   else None
      | None => None
      end
    else None
  end.

(* everything a reader of block [id] touches: summary, every tx and receipt, every index node (GetBlockID of each
   number), every state node (full walk at its root), and the summaries of all ancestors *)
Definition readable (s : store) (id : N) : bool :=
  match get_summary s id with
  | None => false
  | Some sm =>
    forallb (fun it => has s (KTx (num_of id) (s_conf sm) (fst it)) && has s (KReceipt (num_of id) (s_conf sm) (fst it)))
            (enum_from 0 (s_txs sm))
    && forallb (has s) (s_sreach sm) && forallb (has s) (s_ireach sm)
    && match anc s id 0 with Some _ => true | None => false end
  end.

(* resume the stream after a crash during the import with index i: the interrupted block is delivered again *)
Definition resume (c : cfg) (rep : bool) (s : store) (rest : list blk) : option store :=
  match restart c rep s with
  | Some (s', _, _) => Some (run c s' rest)
  | None => None
  end.

(* vote tallies: the quality of every stored store-point block *)
Definition tallies (c : cfg) (s : store) : list (N * N) :=
  map (fun id => (id, get_quality s id))
      (filter (fun id => stored s id && is_storepoint (c_L c) (num_of id)) (summary_ids s)).

(* ---------------------------------------------------------------- readers (C20) *)

Record sys := mkSys { y_store : store; y_best : N; y_fin : N }.

Definition do_step (y : sys) (x : step) : sys :=
  match x with
  | SWrite b => mkSys (apply_batch (y_store y) b) (y_best y) (y_fin y)
  | SPubBest id => mkSys (y_store y) id (y_fin y)
  | SPubFin id => mkSys (y_store y) (y_best y) id
  end.
Definition do_steps (y : sys) (l : list step) : sys := fold_left do_step l y.

Fixpoint steps_of (c : cfg) (s : store) (l : list blk) : list step :=
  match l with
  | [] => []
  | b :: r => let w := import_steps c s b in w ++ steps_of c (apply_writes s (writes_of_steps w)) r
  end.

(* read-only operations of the public API, as steps + answer *)
Inductive query :=
| QBest | QFinalized | QJustifiedQuality
| QBlock (id : N)               (* header, txs, receipts *)
| QBlockID (head n : N)         (* Chain.GetBlockID *)
| QState (id : N)               (* account / storage / code getters and call simulation at a revision: a private State over the root *)
| QHasTx (head txid num conf : N).

Inductive answer := ANum (n : N) | AOpt (o : option N) | ABool (b : bool).

Definition query_steps (c : cfg) (y : sys) (q : query) : list step * answer :=
  let s := y_store y in
  match q with
  | QBest => ([], ANum (y_best y))
  | QFinalized => ([], ANum (y_fin y))
  | QJustifiedQuality =>
      ([], AOpt (match get_summary s (y_best y) with
                 | Some sm => quality_of c s (s_parent sm) (num_of (y_best y)) (s_just sm) | None => None end))
  | QBlock id => ([], ABool (readable s id))
  | QBlockID head n => ([], AOpt (anc s head n))
  | QState id => ([], ABool (match get_summary s id with Some sm => forallb (has s) (s_sreach sm) | None => false end))
  | QHasTx head txid num conf =>
      ([], ABool (has s (KTxMeta txid num conf) && match anc s head num with Some a => stored s a | None => false end))
  end.

(* the store a fresh node holds after genesis.Build (state commit) + NewRepository (indexBlock, saveBlock as best) *)
Definition genesis_store (b : blk) : store :=
  apply_writes [] (state_batches b 0 ++ [index_batch b 0; block_bulk b 0 true]).
