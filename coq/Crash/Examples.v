(* Crash/Examples.v — a concrete genesis and history (epoch length 2: blocks 1, 3, 5 close an epoch), used for the
   non-vacuity Examples and as the witness of the F6 refutation. *)
From Coq Require Import List NArith Bool Lia.
From Verif Require Import Crash.Model Crash.ProofsStore Crash.ProofsInv Crash.ProofsImport Crash.ProofsCrash.
Import ListNotations.
Open Scope N_scope.

Definition P224 : N := 26959946667150639794667015087019630673637144422540572481103610249216.
Definition bid (n k : N) : N := n * P224 + k.

Definition ex_gen : blk :=
  mkBlk (bid 0 7) (bid 4294967295 0) [] [(11, 12)] [[(21, 22)]] [(31, 32); (33, 34)] [(41, 42)] [] [] 0 false false.

Definition ex_cfg : cfg := mkCfg 2 (bid 0 7).
Definition ex_s0 : store := genesis_store ex_gen.

(* block n on the main chain: one new account node, one new index node, keeps the genesis account node (nid 33) and
   the genesis index node; every block justified and committed; block 2 carries a transaction *)
Definition ex_blk (n : N) (txs : list txd) : blk :=
  mkBlk (bid n n) (if n =? 1 then bid 0 7 else bid (n - 1) (n - 1)) txs [] [] [(31, 100 + n)] [(41, 200 + n)]
        [KNode 0 33 0 0] [] n true true.

Definition ex_hist : list blk :=
  [ex_blk 1 []; ex_blk 2 [mkTx (bid 99 5) 1 2 3]; ex_blk 3 []; ex_blk 4 []; ex_blk 5 []; ex_blk 6 []; ex_blk 7 []].

Lemma ex_wf_cfg : wf_cfg ex_cfg.
Proof. split; reflexivity. Qed.

Lemma ex_inv0 : Inv ex_cfg ex_s0.
Proof. apply (genesis_inv 2 ex_gen); reflexivity. Qed.

Ltac wf_blk_compute :=
  let psm := fresh "psm" in let H := fresh "H" in let k := fresh "k" in let Hk := fresh "Hk" in
  intros psm H; vm_compute in H; inversion H; subst; clear H;
  split; intros k Hk; [destruct Hk as [<-|[]]; vm_compute; auto 10|destruct Hk].

Lemma ex_wf_hist : wf_hist ex_cfg ex_s0 ex_hist.
Proof.
  unfold ex_hist. cbn [wf_hist]. repeat (split; [wf_blk_compute|]). exact I.
Qed.

(* the history is not trivial: seven blocks are stored, the best block is block 7, block 4 is finalized, store-point
   qualities 1 2 3 4 (blocks 1, 3, 5, 7; listed newest first) *)
Lemma ex_run_facts :
  get_id (run ex_cfg ex_s0 ex_hist) KBest = Some (bid 7 7) /\
  finalized ex_cfg (run ex_cfg ex_s0 ex_hist) = bid 4 4 /\
  map snd (tallies ex_cfg (run ex_cfg ex_s0 ex_hist)) = [4; 3; 2; 1].
Proof. vm_compute. auto. Qed.
