(* Crash/ProofsInv.v — the store invariant "every visible block is complete" and its preservation by every
   single batch of every import (hence by every prefix of every history: every crash cut, every reader step). *)
From Coq Require Import List NArith Bool Lia.
From Verif Require Import Crash.Model Crash.ProofsStore.
Import ListNotations.
Open Scope N_scope.

Definition is_node (k : key) : bool := match k with KNode _ _ _ _ => true | _ => false end.

Definition wf_cfg (c : cfg) : Prop := num_of (c_g c) = 0 /\ 0 < c_L c.

(* block [id] with summary [sm] is complete in [s] *)
Definition ok_block (c : cfg) (s : store) (id : N) (sm : summary) : Prop :=
  (forall it, In it (enum_from 0 (s_txs sm)) ->
     has s (KTx (num_of id) (s_conf sm) (fst it)) = true /\ has s (KReceipt (num_of id) (s_conf sm) (fst it)) = true)
  /\ (forall k, In k (s_sreach sm) -> is_node k = true /\ has s k = true)
  /\ (forall k, In k (s_ireach sm) -> is_node k = true /\ has s k = true)
  /\ ((id = c_g c /\ num_of id = 0) \/ (stored s (s_parent sm) = true /\ num_of (s_parent sm) + 1 = num_of id)).

Record Inv (c : cfg) (s : store) : Prop := mkInv {
  inv_best : exists b, get_id s KBest = Some b /\ stored s b = true;
  inv_blocks : forall id sm, get_summary s id = Some sm -> ok_block c s id sm;
  inv_quality : forall id, has s (KQuality id) = true -> stored s id = true;
  inv_fin : forall f, get_id s KFinalized = Some f -> stored s f = true
}.

Lemma ok_block_mono c s s' id sm :
  (forall k, is_head k = false -> has s k = true -> has s' k = true) ->
  (forall p, stored s p = true -> stored s' p = true) ->
  ok_block c s id sm -> ok_block c s' id sm.
Proof.
  intros M S (Ht & Hs & Hi & Hp). repeat split.
  - apply M; auto. apply Ht; auto.
  - apply M; auto. apply Ht; auto.
  - apply Hs; auto.
  - apply M; [|apply Hs; auto]. destruct (Hs k H) as [X _]. destruct k; simpl in *; congruence.
  - apply Hi; auto.
  - apply M; [|apply Hi; auto]. destruct (Hi k H) as [X _]. destruct k; simpl in *; congruence.
  - destruct Hp as [Hp|[Hp1 Hp2]]; [left; auto|right; split; auto].
Qed.

Lemma Inv_ext c s s' :
  (forall k, is_head k = false -> has s k = true -> has s' k = true) ->
  (forall id, get_summary s' id = get_summary s id) ->
  get_id s' KBest = get_id s KBest ->
  get_id s' KFinalized = get_id s KFinalized ->
  (forall id, has s' (KQuality id) = has s (KQuality id)) ->
  Inv c s -> Inv c s'.
Proof.
  intros M S B F Q [Ib Ibl Iq If].
  assert (St : forall p, stored s' p = stored s p) by (intro p; unfold stored; rewrite S; auto).
  constructor.
  - destruct Ib as (b & H1 & H2). exists b. rewrite B, St. auto.
  - intros id sm H. rewrite S in H. eapply ok_block_mono; [exact M| |apply Ibl; auto].
    intros p Hp. rewrite St; auto.
  - intros id H. rewrite Q in H. rewrite St. auto.
  - intros f H. rewrite F in H. rewrite St. auto.
Qed.

(* ---- batches that only add trie nodes / code *)

Definition aux_op (o : op) : bool :=
  match o with Put (KNode _ _ _ _) _ => true | Put (KCode _) _ => true | _ => false end.
Definition aux_batch (w : batch) : Prop := forall o, In o w -> aux_op o = true.

Lemma aux_nd w : aux_batch w -> nd_batch w.
Proof. intros H o Hin. specialize (H o Hin). destruct o as [k v|k]; simpl in *; auto. destruct k; discriminate. Qed.

Lemma aux_key_ne w k : aux_batch w -> is_node k = false -> (forall h, k <> KCode h) -> forall o, In o w -> op_key o <> k.
Proof.
  intros H Hk Hc o Hin E. specialize (H o Hin). destruct o as [k' v|k']; simpl in *; subst.
  - destruct k; simpl in *; try discriminate. eapply Hc; eauto.
  - destruct k; discriminate.
Qed.

Lemma aux_batch_inv c s w : aux_batch w -> Inv c s -> Inv c (apply_batch s w).
Proof.
  intros Ha. apply Inv_ext.
  - intros k Hk Hs. apply has_mono; auto. apply aux_nd; auto.
  - intro id. apply get_summary_frame. apply aux_key_ne; auto; discriminate.
  - apply get_id_frame. apply aux_key_ne; auto; discriminate.
  - apply get_id_frame. apply aux_key_ne; auto; discriminate.
  - intro id. apply has_frame. apply aux_key_ne; auto; discriminate.
Qed.

Lemma aux_writes_stored s ws p : (forall w, In w ws -> aux_batch w) -> stored (apply_writes s ws) p = stored s p.
Proof.
  revert s. induction ws as [|w r IH]; intros s H; auto.
  rewrite apply_writes_cons, IH by (intros; apply H; right; auto).
  apply stored_frame. apply aux_key_ne; try discriminate; auto. apply H; left; auto.
Qed.

Lemma node_ops_aux cls maj min l : aux_batch (node_ops cls maj min l).
Proof. intros o Hin. unfold node_ops in Hin. apply in_map_iff in Hin. destruct Hin as (p & <- & _). reflexivity. Qed.

Lemma state_batches_aux b conf : forall w, In w (state_batches b conf) -> aux_batch w.
Proof.
  intros w Hin. unfold state_batches in Hin. apply in_app_or in Hin. destruct Hin as [Hin|Hin].
  - destruct (b_codes b) as [|x cs] eqn:E; [destruct Hin|]. destruct Hin as [<-|[]].
    intros o Ho. apply in_map_iff in Ho. destruct Ho as (p & <- & _). reflexivity.
  - apply in_app_or in Hin. destruct Hin as [Hin|[<-|[]]].
    + apply in_map_iff in Hin. destruct Hin as (l & <- & _). apply node_ops_aux.
    + apply node_ops_aux.
Qed.

Lemma index_batch_aux b conf : aux_batch (index_batch b conf).
Proof. apply node_ops_aux. Qed.

(* ---- presence through a list of batches *)

Lemma has_mono_writes s ws k :
  (forall w, In w ws -> nd_batch w) -> is_head k = false -> has s k = true -> has (apply_writes s ws) k = true.
Proof.
  revert s. induction ws as [|w r IH]; intros s Hnd Hk Hs; auto.
  rewrite apply_writes_cons. apply IH; auto.
  - intros; apply Hnd; right; auto.
  - apply has_mono; auto. apply Hnd; left; auto.
Qed.

Lemma nd_no_del w k : nd_batch w -> is_head k = false -> forall o, In o w -> o <> Del k.
Proof. intros Hnd Hk o Hin E. subst. specialize (Hnd _ Hin). destruct k; simpl in *; congruence. Qed.

Lemma has_put_in_writes s ws w k v :
  (forall w, In w ws -> nd_batch w) -> is_head k = false -> In w ws -> In (Put k v) w ->
  has (apply_writes s ws) k = true.
Proof.
  revert s. induction ws as [|w0 r IH]; intros s Hnd Hk Hw Hp; [destruct Hw|].
  rewrite apply_writes_cons. destruct Hw as [->|Hw].
  - apply has_mono_writes; auto. { intros; apply Hnd; right; auto. }
    eapply has_put_in; eauto. apply nd_no_del; auto. apply Hnd; left; auto.
  - eapply IH; eauto. intros; apply Hnd; right; auto.
Qed.

(* ---- ancestors *)

Lemma ancestor_stored fuel s id n a : ancestor fuel s id n = Some a -> stored s a = true /\ num_of a = n.
Proof.
  revert id. induction fuel as [|f IH]; intros id; simpl; unfold stored.
  - destruct (get_summary s id) eqn:E; [|discriminate].
    destruct (num_of id =? n) eqn:E1; [intro H; inversion H; subst; rewrite E; split; auto; apply N.eqb_eq; auto|].
    destruct (num_of id <? n); discriminate.
  - destruct (get_summary s id) eqn:E; [|discriminate].
    destruct (num_of id =? n) eqn:E1; [intro H; inversion H; subst; rewrite E; split; auto; apply N.eqb_eq; auto|].
    destruct (num_of id <? n); [discriminate|]. intro H. apply IH in H. exact H.
Qed.

Lemma anc_stored s id n a : anc s id n = Some a -> stored s a = true /\ num_of a = n.
Proof. apply ancestor_stored. Qed.

(* in a store satisfying the invariant every stored block has all its ancestors *)
Lemma ancestor_total c s : wf_cfg c -> Inv c s ->
  forall fuel id n, stored s id = true -> n <= num_of id -> (N.to_nat (num_of id - n) <= fuel)%nat ->
  exists a, ancestor fuel s id n = Some a.
Proof.
  intros [Hg HL] I. induction fuel as [|f IH]; intros id n Hs Hn Hf.
  - assert (num_of id = n) by lia. simpl. unfold stored in Hs. destruct (get_summary s id); [|discriminate].
    apply N.eqb_eq in H. rewrite H. eauto.
  - simpl. unfold stored in Hs. destruct (get_summary s id) as [sm|] eqn:E; [|discriminate].
    destruct (num_of id =? n) eqn:E1; [eauto|]. apply N.eqb_neq in E1.
    assert (Hlt : n < num_of id) by lia.
    destruct (num_of id <? n) eqn:E2; [apply N.ltb_lt in E2; lia|].
    destruct (inv_blocks c s I id sm E) as (_ & _ & _ & [[_ H0]|[Hp Hnum]]); [lia|].
    apply IH; auto; lia.
Qed.

Lemma anc_total c s id n : wf_cfg c -> Inv c s -> stored s id = true -> n <= num_of id -> exists a, anc s id n = Some a.
Proof. intros. unfold anc. eapply ancestor_total; eauto. Qed.

(* the number-0 ancestor of a stored block is the genesis block *)
Lemma ancestor_genesis c s : wf_cfg c -> Inv c s ->
  forall fuel id a, ancestor fuel s id 0 = Some a -> a = c_g c.
Proof.
  intros [Hg HL] I. induction fuel as [|f IH]; intros id a; simpl.
  - destruct (get_summary s id) as [sm|] eqn:E; [|discriminate].
    destruct (num_of id =? 0) eqn:E1.
    + intro H; inversion H; subst. apply N.eqb_eq in E1.
      destruct (inv_blocks c s I a sm E) as (_ & _ & _ & [[H0 _]|[_ Hnum]]); auto; lia.
    + destruct (num_of id <? 0); discriminate.
  - destruct (get_summary s id) as [sm|] eqn:E; [|discriminate].
    destruct (num_of id =? 0) eqn:E1.
    + intro H; inversion H; subst. apply N.eqb_eq in E1.
      destruct (inv_blocks c s I a sm E) as (_ & _ & _ & [[H0 _]|[_ Hnum]]); auto; lia.
    + destruct (num_of id <? 0); [discriminate|]. apply IH.
Qed.

(* ---- single-key batches of the bft engine *)

Lemma quality_put_inv c s id v : Inv c s -> stored s id = true -> Inv c (apply_batch s [Put (KQuality id) v]).
Proof.
  intros [Ib Ibl Iq If] Hs. set (w := [Put (KQuality id) v]).
  assert (Hne : forall k, (forall i, k <> KQuality i) -> forall o, In o w -> op_key o <> k).
  { intros k Hk o [<-|[]] E. simpl in E. eapply Hk; eauto. }
  assert (Hnd : nd_batch w) by (intros o [<-|[]]; reflexivity).
  assert (S : forall i, get_summary (apply_batch s w) i = get_summary s i)
    by (intro i; apply get_summary_frame, Hne; discriminate).
  assert (St : forall p, stored (apply_batch s w) p = stored s p) by (intro p; unfold stored; rewrite S; auto).
  constructor.
  - destruct Ib as (b & H1 & H2). exists b. rewrite St. split; auto; try (rewrite get_id_frame; auto; apply Hne; discriminate).
  - intros i sm H. rewrite S in H. eapply ok_block_mono; [| |apply Ibl; eauto].
    + intros; apply has_mono; auto.
    + intros p Hp; rewrite St; auto.
  - intros i H. rewrite St. destruct (N.eq_dec i id) as [->|Hn]; auto.
    apply Iq. rewrite has_frame in H; auto. intros o [<-|[]] E. simpl in E. congruence.
  - intros f H. rewrite St. apply If. rewrite get_id_frame in H; auto. apply Hne; discriminate.
Qed.

Lemma finalized_put_inv c s f : Inv c s -> stored s f = true -> Inv c (apply_batch s [Put KFinalized (VId f)]).
Proof.
  intros [Ib Ibl Iq If] Hs. set (w := [Put KFinalized (VId f)]).
  assert (Hne : forall k, k <> KFinalized -> forall o, In o w -> op_key o <> k).
  { intros k Hk o [<-|[]] E. simpl in E. congruence. }
  assert (Hnd : nd_batch w) by (intros o [<-|[]]; reflexivity).
  assert (S : forall i, get_summary (apply_batch s w) i = get_summary s i)
    by (intro i; apply get_summary_frame, Hne; discriminate).
  assert (St : forall p, stored (apply_batch s w) p = stored s p) by (intro p; unfold stored; rewrite S; auto).
  constructor.
  - destruct Ib as (b & H1 & H2). exists b. rewrite St. split; auto; try (rewrite get_id_frame; auto; apply Hne; discriminate).
  - intros i sm H. rewrite S in H. eapply ok_block_mono; [| |apply Ibl; eauto].
    + intros; apply has_mono; auto.
    + intros p Hp; rewrite St; auto.
  - intros i H. rewrite St. apply Iq. rewrite has_frame in H; auto. apply Hne; discriminate.
  - intros f' H. rewrite St. unfold get_id in H. unfold w in H.
    rewrite get_apply_batch in H. simpl in H. destruct (key_eq_dec KFinalized KFinalized); [|congruence].
    inversion H; subst; auto.
Qed.
