(* Crash/ProofsStore.v — the write-log store: what a batch does to [get]/[has], frames, monotone presence. *)
From Coq Require Import List NArith Bool Lia.
From Verif Require Import Crash.Model.
Import ListNotations.
Open Scope N_scope.

Lemma apply_batch_rev s w : apply_batch s w = rev w ++ s.
Proof.
  unfold apply_batch. revert s. induction w as [|o w IH]; intro s; simpl; auto.
  rewrite IH, <- app_assoc. reflexivity.
Qed.

Lemma apply_batch_app s w1 w2 : apply_batch s (w1 ++ w2) = apply_batch (apply_batch s w1) w2.
Proof. unfold apply_batch. apply fold_left_app. Qed.

Lemma apply_batch_cons s o w : apply_batch s (o :: w) = apply_batch (o :: s) w.
Proof. reflexivity. Qed.

Lemma apply_writes_app s w1 w2 : apply_writes s (w1 ++ w2) = apply_writes (apply_writes s w1) w2.
Proof. unfold apply_writes. apply fold_left_app. Qed.

Lemma apply_writes_cons s w ws : apply_writes s (w :: ws) = apply_writes (apply_batch s w) ws.
Proof. reflexivity. Qed.

Lemma apply_writes_nil s : apply_writes s [] = s.
Proof. reflexivity. Qed.

(* the last operation of a batch on a key *)
Fixpoint last_op (k : key) (w : batch) : option op :=
  match w with
  | [] => None
  | o :: r => match last_op k r with
              | Some x => Some x
              | None => if key_eq_dec k (op_key o) then Some o else None
              end
  end.

Lemma get_cons_other o s k : k <> op_key o -> get (o :: s) k = get s k.
Proof. intro H. destruct o; simpl in *; destruct (key_eq_dec k k0); congruence. Qed.

Lemma get_apply_batch s w k :
  get (apply_batch s w) k =
  match last_op k w with
  | Some (Put _ v) => Some v
  | Some (Del _) => None
  | None => get s k
  end.
Proof.
  revert s. induction w as [|o w IH]; intro s; [reflexivity|].
  rewrite apply_batch_cons, IH. cbn [last_op].
  destruct (last_op k w) as [x|]; auto.
  destruct (key_eq_dec k (op_key o)) as [E|E].
  - destruct o; simpl in *; subst; destruct (key_eq_dec k0 k0); congruence.
  - apply get_cons_other; auto.
Qed.

Lemma last_op_none k w : (forall o, In o w -> op_key o <> k) -> last_op k w = None.
Proof.
  induction w as [|o w IH]; intro H; simpl; auto.
  rewrite IH by (intros; apply H; right; auto).
  destruct (key_eq_dec k (op_key o)); auto. exfalso. apply (H o); [left|]; auto.
Qed.

Lemma last_op_app k w1 w2 :
  last_op k (w1 ++ w2) = match last_op k w2 with Some x => Some x | None => last_op k w1 end.
Proof.
  induction w1 as [|o w1 IH]; simpl.
  - destruct (last_op k w2); auto.
  - rewrite IH. destruct (last_op k w2); auto.
Qed.

Lemma last_op_some_in k w o : last_op k w = Some o -> In o w /\ op_key o = k.
Proof.
  induction w as [|x w IH]; simpl; [discriminate|].
  destruct (last_op k w) as [y|].
  - intro H; inversion H; subst. destruct (IH eq_refl); auto.
  - destruct (key_eq_dec k (op_key x)); [|discriminate]. intro H; inversion H; subst; auto.
Qed.

Lemma get_frame s w k : (forall o, In o w -> op_key o <> k) -> get (apply_batch s w) k = get s k.
Proof. intro H. rewrite get_apply_batch, last_op_none; auto. Qed.

Lemma has_frame s w k : (forall o, In o w -> op_key o <> k) -> has (apply_batch s w) k = has s k.
Proof. intro H. unfold has. rewrite get_frame; auto. Qed.

(* a batch that deletes nothing but chain-head entries *)
Definition nd_op (o : op) : bool :=
  match o with Put _ _ => true | Del (KHead _) => true | Del _ => false end.
Definition nd_batch (w : batch) : Prop := forall o, In o w -> nd_op o = true.

Definition is_head (k : key) : bool := match k with KHead _ => true | _ => false end.

Lemma has_mono s w k : nd_batch w -> is_head k = false -> has s k = true -> has (apply_batch s w) k = true.
Proof.
  intros Hnd Hk Hs. unfold has in *. rewrite get_apply_batch.
  destruct (last_op k w) as [o|] eqn:E; auto.
  destruct (last_op_some_in _ _ _ E) as [Hin Hkey].
  destruct o as [k1 v1|k1]; auto.
  specialize (Hnd _ Hin). simpl in *. subst k1. destruct k; simpl in *; congruence.
Qed.

Lemma has_put_in s w k v :
  In (Put k v) w -> (forall o, In o w -> o <> Del k) -> has (apply_batch s w) k = true.
Proof.
  intros Hin Hnd. unfold has. rewrite get_apply_batch.
  destruct (last_op k w) as [o|] eqn:E.
  - destruct (last_op_some_in _ _ _ E) as [Hi Hk]. destruct o; auto.
    simpl in Hk; subst. exfalso. apply (Hnd _ Hi); auto.
  - exfalso. revert E. clear Hnd. induction w as [|x w IH]; simpl in *; [tauto|].
    destruct Hin as [->|Hin].
    + destruct (last_op k w); [discriminate|]. simpl. destruct (key_eq_dec k k); [discriminate|congruence].
    + destruct (last_op k w); [discriminate|]. exfalso; apply IH; auto.
Qed.

Lemma get_put_last s w1 w2 k v :
  (forall o, In o w2 -> op_key o <> k) -> get (apply_batch s (w1 ++ Put k v :: w2)) k = Some v.
Proof.
  intro H. rewrite get_apply_batch, last_op_app. simpl.
  rewrite (last_op_none k w2) by auto. destruct (key_eq_dec k k); [auto|congruence].
Qed.

Lemma nd_batch_app w1 w2 : nd_batch w1 -> nd_batch w2 -> nd_batch (w1 ++ w2).
Proof. intros H1 H2 o Hin. apply in_app_or in Hin. destruct Hin; auto. Qed.

(* ---- typed reads under frames *)

Lemma get_summary_frame s w id :
  (forall o, In o w -> op_key o <> KSummary id) -> get_summary (apply_batch s w) id = get_summary s id.
Proof. intro H. unfold get_summary. rewrite get_frame; auto. Qed.

Lemma stored_frame s w id :
  (forall o, In o w -> op_key o <> KSummary id) -> stored (apply_batch s w) id = stored s id.
Proof. intro H. unfold stored. rewrite get_summary_frame; auto. Qed.

Lemma get_id_frame s w k :
  (forall o, In o w -> op_key o <> k) -> get_id (apply_batch s w) k = get_id s k.
Proof. intro H. unfold get_id. rewrite get_frame; auto. Qed.

Lemma get_quality_frame s w id :
  (forall o, In o w -> op_key o <> KQuality id) -> get_quality (apply_batch s w) id = get_quality s id.
Proof. intro H. unfold get_quality. rewrite get_frame; auto. Qed.

(* prefixes of a write list *)
Fixpoint all_prefixes (P : store -> Prop) (s : store) (ws : list batch) : Prop :=
  P s /\ match ws with [] => True | w :: r => all_prefixes P (apply_batch s w) r end.

Lemma all_prefixes_firstn P s ws : all_prefixes P s ws -> forall j, P (apply_writes s (firstn j ws)).
Proof.
  revert s. induction ws as [|w r IH]; intros s H j.
  - destruct j; simpl; apply H.
  - destruct j; simpl; [apply H|]. apply IH. apply H.
Qed.

Lemma all_prefixes_head P s ws : all_prefixes P s ws -> P s.
Proof. destruct ws; simpl; tauto. Qed.

Lemma all_prefixes_last P s ws : all_prefixes P s ws -> P (apply_writes s ws).
Proof.
  intro H. pose proof (all_prefixes_firstn P s ws H (length ws)) as X. rewrite firstn_all in X. exact X.
Qed.

Lemma all_prefixes_app P s w1 w2 :
  all_prefixes P s w1 -> all_prefixes P (apply_writes s w1) w2 -> all_prefixes P s (w1 ++ w2).
Proof.
  revert s. induction w1 as [|w r IH]; intros s H1 H2; simpl in *.
  - exact H2.
  - split; [apply H1|]. apply IH; [apply H1|exact H2].
Qed.

Lemma all_prefixes_step (P : store -> Prop) s ws :
  P s -> (forall s' w, P s' -> In w ws -> P (apply_batch s' w)) -> all_prefixes P s ws.
Proof.
  revert s. induction ws as [|w r IH]; intros s H0 Hs; simpl; split; auto.
  apply IH; [apply Hs; simpl; auto|]. intros; apply Hs; simpl; auto.
Qed.
