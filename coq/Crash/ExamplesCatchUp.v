(* Crash/ExamplesCatchUp.v — checked instances for the catch-up theorem (Crash/ProofsCatchUp.v) on the example history. *)
From Coq Require Import List NArith Bool Lia.
From Verif Require Import Crash.Model Crash.ProofsStore Crash.ProofsInv Crash.ProofsImport Crash.ProofsCrash Crash.Examples
  Crash.ProofsEqv Crash.ProofsShape Crash.ProofsResumeAll Crash.ProofsResume Crash.ProofsFinalized Crash.ProofsQuality Crash.ProofsCatchUp Crash.ProofsDual.
Import ListNotations.
Open Scope N_scope.

Lemma ex_invq : InvQ ex_cfg ex_s0.
Proof. apply (genesis_invq 2 ex_gen); reflexivity. Qed.

Lemma ex_no_reject : no_bft_reject ex_cfg ex_s0 ex_hist = true.
Proof. vm_compute. reflexivity. Qed.

(* cut 19 lies between the quality record and the finalized record of block 5 (which closes the third epoch): the crash image
   still holds the finalized block written with block 3 (genesis), the uninterrupted node holds block 2 after block 5 and
   block 4 after block 7; the resumed node holds block 4 as well *)
Lemma ex_window_cut :
  cut_in_import ex_cfg ex_s0 ex_hist 19 4 /\
  has (crash ex_cfg ex_s0 ex_hist 19) (KQuality (bid 5 5)) = true /\
  finalized ex_cfg (crash ex_cfg ex_s0 ex_hist 19) = bid 0 7 /\
  finalized ex_cfg (run ex_cfg ex_s0 (firstn 5 ex_hist)) = bid 2 2 /\
  finalized ex_cfg (run ex_cfg ex_s0 ex_hist) = bid 4 4 /\
  option_map (finalized ex_cfg) (resume ex_cfg true (crash ex_cfg ex_s0 ex_hist 19) (skipn 4 ex_hist)) = Some (bid 4 4).
Proof. vm_compute. repeat split; auto; lia. Qed.

(* the premise is needed: deliver, after block 5, a sibling of block 2 (parent block 1).  The uninterrupted node has
   finalized block 2 and refuses it; the node restarted from cut 19 still holds genesis as finalized and stores it *)
Definition ex_fork2 : blk :=
  mkBlk (bid 2 9) (bid 1 1) [] [] [] [(31, 300)] [(41, 400)] [KNode 0 33 0 0] [] 2 true true.
Definition ex_hist_fork : list blk := firstn 5 ex_hist ++ [ex_fork2].

Lemma ex_fork_wf_hist : wf_hist ex_cfg ex_s0 ex_hist_fork.
Proof.
  unfold ex_hist_fork, ex_hist. cbn [firstn app wf_hist]. repeat (split; [wf_blk_compute|]). exact I.
Qed.

Lemma ex_fork_diverges :
  cut_in_import ex_cfg ex_s0 ex_hist_fork 19 4 /\
  no_bft_reject ex_cfg ex_s0 ex_hist_fork = false /\
  stored (run ex_cfg ex_s0 ex_hist_fork) (bid 2 9) = false /\
  option_map (fun r => stored r (bid 2 9)) (resume ex_cfg true (crash ex_cfg ex_s0 ex_hist_fork 19) (skipn 4 ex_hist_fork)) = Some true.
Proof. vm_compute. repeat split; auto; lia. Qed.

(* the combined write sequence of block 3 (it becomes best): account batch, LOG, index batch, block bulk, quality, finalized *)
Lemma ex_dual :
  let s := run ex_cfg ex_s0 (firstn 2 ex_hist) in
  becomes_best ex_cfg s (ex_blk 3 []) = true /\
  map (fun x => match x with WLog => true | WMain _ => false end) (dual_steps ex_cfg s (ex_blk 3 [])) = [false; true; false; false; false; false] /\
  stored (apply_writes s (mains (firstn 4 (dual_steps ex_cfg s (ex_blk 3 []))))) (bid 3 3) = true /\
  stored (apply_writes s (mains (firstn 3 (dual_steps ex_cfg s (ex_blk 3 []))))) (bid 3 3) = false.
Proof. vm_compute. repeat split. Qed.
