(* Crash/ExamplesCatchUp.v — checked instances around finding F13 on the example history: the crash image the code before
   the repair could leave (quality record of block 5 written alone), what the node restarted from it does when a fork below
   the pending checkpoint is delivered, and the same stream under the repaired code (no such image exists, every cut
   converges). *)
From Coq Require Import List NArith Bool Lia.
From Verif Require Import Crash.Model Crash.ProofsStore Crash.ProofsInv Crash.ProofsImport Crash.ProofsCrash Crash.Examples
  Crash.ProofsEqv Crash.ProofsShape Crash.ProofsResumeAll Crash.ProofsResume Crash.ProofsFinalized Crash.ProofsQuality Crash.ProofsCatchUp Crash.ProofsDual.
Import ListNotations.
Open Scope N_scope.

Lemma ex_invq : InvQ ex_cfg ex_s0.
Proof. apply (genesis_invq 2 ex_gen); reflexivity. Qed.

(* the image a stop between the two separate writes of the code before the F13 repair left: everything up to the cut before
   a commit batch, plus that batch's quality record alone *)
Definition split_window (c : cfg) (s0 : store) (hist : list blk) (k : nat) (id q : N) : store :=
  apply_batch (crash c s0 hist k) [Put (KQuality id) (VNum q)].

(* the resume clause for the code with two separate writes, at such an image *)
Definition resume_converges_split_statement : Prop :=
  forall c s0 hist k i id q f, wf_cfg2 c -> Inv2 c s0 -> wf_hist c s0 hist -> cut_in_import c s0 hist k i ->
    nth_error (writes_of c s0 hist) k = Some [Put (KQuality id) (VNum q); Put KFinalized (VId f)] ->
    exists r, resume c true (split_window c s0 hist k id q) (skipn i hist) = Some r /\
              get_id r KBest = get_id (run c s0 hist) KBest /\
              (forall x, stored r x = stored (run c s0 hist) x).

(* the stream: blocks 1..5, then a sibling of block 2 (parent block 1).  Block 5 closes the third epoch and finalizes block 2 *)
Definition ex_fork2 : blk :=
  mkBlk (bid 2 9) (bid 1 1) [] [] [] [(31, 300)] [(41, 400)] [KNode 0 33 0 0] [] 2 true true.
Definition ex_hist_fork : list blk := firstn 5 ex_hist ++ [ex_fork2].

Lemma ex_fork_wf_hist : wf_hist ex_cfg ex_s0 ex_hist_fork.
Proof.
  unfold ex_hist_fork, ex_hist. cbn [firstn app wf_hist]. repeat (split; [wf_blk_compute|]). exact I.
Qed.

(* write 17 of the stream is block 5's commit batch: quality 3 and finalized := block 2 together *)
Lemma ex_fork_facts :
  cut_in_import ex_cfg ex_s0 ex_hist_fork 17 4 /\
  nth_error (writes_of ex_cfg ex_s0 ex_hist_fork) 17 = Some [Put (KQuality (bid 5 5)) (VNum 3); Put KFinalized (VId (bid 2 2))] /\
  (* the uninterrupted node refuses the sibling (errBFTRejected) *)
  no_bft_reject ex_cfg ex_s0 ex_hist_fork = false /\
  stored (run ex_cfg ex_s0 ex_hist_fork) (bid 2 9) = false /\
  finalized ex_cfg (run ex_cfg ex_s0 ex_hist_fork) = bid 2 2 /\
  (* the node restarted from the split image still holds genesis as finalized and stores it *)
  finalized ex_cfg (split_window ex_cfg ex_s0 ex_hist_fork 17 (bid 5 5) 3) = bid 0 7 /\
  option_map (fun r => stored r (bid 2 9))
    (resume ex_cfg true (split_window ex_cfg ex_s0 ex_hist_fork 17 (bid 5 5) 3) (skipn 4 ex_hist_fork)) = Some true.
Proof. vm_compute. repeat split; auto; lia. Qed.

Theorem f13_split_write_refuted : ~ resume_converges_split_statement.
Proof.
  intro H.
  destruct ex_fork_facts as (Hcut & Hnth & _ & Hu & _ & _ & Hr).
  destruct (H ex_cfg ex_s0 ex_hist_fork 17%nat 4%nat (bid 5 5) 3 (bid 2 2) ex_wf_cfg2 ex_inv2 ex_fork_wf_hist Hcut Hnth) as (r & Er & _ & Hs).
  rewrite Er in Hr. simpl in Hr. inversion Hr as [Hr']. rewrite Hs, Hu in Hr'. discriminate.
Qed.

(* under the repaired code the same stream converges at EVERY cut (no premise about refused blocks) *)
Lemma ex_fork_converges :
  forallb (fun k =>
    match resume ex_cfg true (crash ex_cfg ex_s0 ex_hist_fork k) (skipn (import_of_cut ex_cfg ex_s0 ex_hist_fork k) ex_hist_fork) with
    | Some s' => same_outcome ex_cfg true s' (run ex_cfg ex_s0 ex_hist_fork) && negb (stored s' (bid 2 9))
    | None => false
    end) (seq 0 (S (length (writes_of ex_cfg ex_s0 ex_hist_fork)))) = true /\
  length (writes_of ex_cfg ex_s0 ex_hist_fork) = 18%nat.
Proof. vm_compute. auto. Qed.

(* InvQ along the example run; the split image of block 5's commit lags behind the completed import *)
Lemma ex_invq_lag :
  InvQ ex_cfg ex_s0 /\ InvQ ex_cfg (run ex_cfg ex_s0 ex_hist) /\
  Lag ex_cfg (split_window ex_cfg ex_s0 ex_hist 17 (bid 5 5) 3) (run ex_cfg ex_s0 (firstn 5 ex_hist)).
Proof.
  split; [exact ex_invq|]. split; [apply run_invq; auto using ex_wf_cfg2, ex_inv2, ex_invq, ex_wf_hist|].
  assert (E : run ex_cfg ex_s0 (firstn 5 ex_hist)
              = apply_batch (split_window ex_cfg ex_s0 ex_hist 17 (bid 5 5) 3) [Put KFinalized (VId (bid 2 2))]) by (vm_compute; reflexivity).
  constructor.
  - rewrite E. apply eqv_nf_put_r, eqv_nf_refl.
  - vm_compute. reflexivity.
  - exists 0. vm_compute. reflexivity.
Qed.

(* the combined write sequence of block 3 (it becomes best): account batch, LOG, index batch, block bulk, quality + finalized *)
Lemma ex_dual :
  let s := run ex_cfg ex_s0 (firstn 2 ex_hist) in
  becomes_best ex_cfg s (ex_blk 3 []) = true /\
  map (fun x => match x with WLog => true | WMain _ => false end) (dual_steps ex_cfg s (ex_blk 3 [])) = [false; true; false; false; false] /\
  stored (apply_writes s (mains (firstn 4 (dual_steps ex_cfg s (ex_blk 3 []))))) (bid 3 3) = true /\
  stored (apply_writes s (mains (firstn 3 (dual_steps ex_cfg s (ex_blk 3 []))))) (bid 3 3) = false.
Proof. vm_compute. repeat split. Qed.
